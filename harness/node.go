package main

// Node simulator around the REAL built-in functions: accounts, accounts adapter, shard
// coordinator, payability oracle, marshaller (production-shaped: Reset + generated Unmarshal),
// epoch notifier, fault injection; one real container per shard built by the real factory.
// Environment semantics: DESIGN.md section 3.4.

import (
	"bytes"
	"errors"
	"fmt"
	"math/big"
	"runtime"
	"sort"
	"strings"

	vmcommon "github.com/ElrondNetwork/elrond-vm-common"
	"github.com/ElrondNetwork/elrond-vm-common/builtInFunctions"
)

var errInjected = errors.New("injected dependency failure")
var errOracle = errors.New("payability oracle failed")

// ---------- fault plan ----------
type faultPlan struct {
	failAt int // index of the dependency call that fails; -1 = none
	count  int
	kinds  []string
}

func (p *faultPlan) hit(kind string) bool {
	if p == nil {
		return false
	}
	k := p.count
	p.count++
	p.kinds = append(p.kinds, kind)
	return k == p.failAt
}

// ---------- account ----------
type hAccount struct {
	w         *hWorld
	addr      []byte
	storage   map[string][]byte
	balance   *big.Int
	owner     []byte
	username  []byte
	devReward *big.Int
}

func newAccount(w *hWorld, addr []byte) *hAccount {
	return &hAccount{w: w, addr: append([]byte(nil), addr...), storage: map[string][]byte{}, balance: big.NewInt(0), devReward: big.NewInt(0)}
}
func (a *hAccount) clone() *hAccount {
	b := &hAccount{w: a.w, addr: a.addr, storage: map[string][]byte{}, balance: new(big.Int).Set(a.balance),
		owner: append([]byte(nil), a.owner...), username: append([]byte(nil), a.username...), devReward: new(big.Int).Set(a.devReward)}
	for k, v := range a.storage {
		b.storage[k] = append([]byte(nil), v...)
	}
	return b
}
// loadCopy: what an accounts database hands out on LoadAccount - a NEW object holding the account's current data (the stored values
// themselves stay shared, see RetrieveValue); nothing written to it reaches the ledger unless it is given back with SaveAccount
func (a *hAccount) loadCopy() *hAccount {
	b := &hAccount{w: a.w, addr: a.addr, storage: make(map[string][]byte, len(a.storage)), balance: new(big.Int).Set(a.balance),
		owner: append([]byte(nil), a.owner...), username: append([]byte(nil), a.username...), devReward: new(big.Int).Set(a.devReward)}
	for k, v := range a.storage {
		b.storage[k] = v
	}
	return b
}

// a contract account carries code metadata with the payable bits SET, whatever the payability oracle of the world says about it: the
// oracle is the only authority on payability (C09 quantifies over all oracles), the metadata of the loaded account is not
func (a *hAccount) GetCodeMetadata() []byte {
	if vmcommon.IsSmartContractAddress(a.addr) {
		return []byte{0x01, 0x06}
	}
	return nil
}
func (a *hAccount) GetCodeHash() []byte     { return nil }
func (a *hAccount) GetRootHash() []byte     { return nil }
func (a *hAccount) AccountDataHandler() vmcommon.AccountDataHandler {
	return a
}
func (a *hAccount) AddToBalance(v *big.Int) error {
	if a.w.plan.hit("AddToBalance") {
		return errInjected
	}
	nb := new(big.Int).Add(a.balance, v)
	if nb.Sign() < 0 {
		return errors.New("insufficient funds")
	}
	a.balance = nb
	return nil
}
func (a *hAccount) GetBalance() *big.Int { return a.balance }
func (a *hAccount) ClaimDeveloperRewards(sender []byte) (*big.Int, error) {
	if a.w.plan.hit("ClaimDeveloperRewards") {
		return nil, errInjected
	}
	if !bytes.Equal(sender, a.owner) {
		return nil, errors.New("operation not permitted")
	}
	old := new(big.Int).Set(a.devReward)
	a.devReward = big.NewInt(0)
	return old, nil
}
func (a *hAccount) GetDeveloperReward() *big.Int { return a.devReward }
func (a *hAccount) ChangeOwnerAddress(sender, newAddr []byte) error {
	if a.w.plan.hit("ChangeOwnerAddress") {
		return errInjected
	}
	if !bytes.Equal(sender, a.owner) {
		return errors.New("operation not permitted")
	}
	if len(newAddr) != len(a.addr) {
		return errors.New("invalid address length")
	}
	a.owner = append([]byte(nil), newAddr...)
	return nil
}
func (a *hAccount) SetOwnerAddress(o []byte) { a.owner = append([]byte(nil), o...) }
func (a *hAccount) GetOwnerAddress() []byte  { return a.owner }
func (a *hAccount) SetUserName(u []byte)     { a.username = append([]byte(nil), u...) }
func (a *hAccount) GetUserName() []byte      { return a.username }
func (a *hAccount) AddressBytes() []byte     { return a.addr }
func (a *hAccount) IncreaseNonce(uint64)     {}
func (a *hAccount) GetNonce() uint64         { return 0 }
func (a *hAccount) IsInterfaceNil() bool     { return a == nil }
func (a *hAccount) RetrieveValue(key []byte) ([]byte, error) {
	// by reference, like the repository's own account doubles (mock.Account, AccountWrapMock) and a data-trie tracker's dirty map:
	// a value that the library keeps writing into after it was stored (a reused buffer) shows as a changed entry
	return a.storage[string(key)], nil
}
func (a *hAccount) SaveKeyValue(key, value []byte) error {
	if a.w.plan.hit("SaveKeyValue") {
		return errInjected
	}
	if len(value) == 0 {
		delete(a.storage, string(key))
	} else {
		a.storage[string(key)] = value // by reference (see RetrieveValue)
	}
	return nil
}

// ---------- accounts adapter (per shard) ----------
type hAccounts struct {
	sh *hShard
}

func inIsPaused() bool {
	pcs := make([]uintptr, 12)
	n := runtime.Callers(3, pcs)
	frames := runtime.CallersFrames(pcs[:n])
	for {
		f, more := frames.Next()
		if strings.HasSuffix(f.Function, ".IsPaused") {
			return true
		}
		if !more {
			return false
		}
	}
}

func (ad *hAccounts) LoadAccount(address []byte) (vmcommon.AccountHandler, error) {
	// the pause lookup is fail-soft by interface design: not a fault point
	if !inIsPaused() && ad.sh.w.plan.hit("LoadAccount") {
		return nil, errInjected
	}
	// copy-on-load, as an accounts database behaves: the object handed out is a copy, and only SaveAccount makes its content the
	// account's content.  The two accounts the node itself passed to the running call are the node's own objects (saved by the node after
	// the call): loading one of them again gives the same object, not a second competing copy.
	live := ad.sh.account(address)
	for _, h := range ad.sh.w.held {
		if h == live {
			return live, nil
		}
	}
	return live.loadCopy(), nil
}
func (ad *hAccounts) GetExistingAccount(address []byte) (vmcommon.AccountHandler, error) {
	a, ok := ad.sh.accounts[string(address)]
	if !ok {
		return nil, errors.New("account not found")
	}
	return a, nil
}
func (ad *hAccounts) SaveAccount(h vmcommon.AccountHandler) error {
	if ad.sh.w.plan.hit("SaveAccount") {
		return errInjected
	}
	if a, ok := h.(*hAccount); ok && a != nil {
		ad.sh.accounts[string(a.addr)] = a
	}
	return nil
}
func (ad *hAccounts) RemoveAccount([]byte) error { return nil }
func (ad *hAccounts) Commit() ([]byte, error)    { return nil, nil }
func (ad *hAccounts) JournalLen() int            { return 0 }
func (ad *hAccounts) RevertToSnapshot(int) error { return nil }
func (ad *hAccounts) GetNumCheckpoints() uint32  { return 0 }
func (ad *hAccounts) GetCode([]byte) []byte      { return nil }
func (ad *hAccounts) RootHash() ([]byte, error)  { return nil, nil }
func (ad *hAccounts) RecreateTrie([]byte) error  { return nil }
func (ad *hAccounts) IsInterfaceNil() bool       { return ad == nil }

// ---------- coordinator / payable / marshaller / epoch notifier ----------
type hCoordinator struct {
	w    *hWorld
	self uint32
}

func (c *hCoordinator) NumberOfShards() uint32                { return uint32(c.w.nShards) }
func (c *hCoordinator) ComputeId(a []byte) uint32             { return c.w.shardOf(a) }
func (c *hCoordinator) SelfId() uint32                        { return c.self }
func (c *hCoordinator) SameShard(a, b []byte) bool            { return c.w.shardOf(a) == c.w.shardOf(b) }
func (c *hCoordinator) CommunicationIdentifier(uint32) string { return "" }
func (c *hCoordinator) IsInterfaceNil() bool                  { return c == nil }

type hPayable struct{ w *hWorld }

func (p *hPayable) IsPayable(a []byte) (bool, error) {
	if p.w.plan.hit("IsPayable") {
		return false, errInjected
	}
	switch p.w.payOf(a) {
	case 'Y':
		return true, nil
	case 'N':
		return false, nil
	}
	return false, errOracle
}
func (p *hPayable) IsInterfaceNil() bool { return p == nil }

type protoMsg interface {
	Reset()
	Marshal() ([]byte, error)
	Unmarshal([]byte) error
}
type hMarshalizer struct{ w *hWorld }

func (m *hMarshalizer) Marshal(obj interface{}) ([]byte, error) {
	if m.w != nil && m.w.plan.hit("Marshal") {
		return nil, errInjected
	}
	pm, ok := obj.(protoMsg)
	if !ok {
		return nil, fmt.Errorf("not a proto message: %T", obj)
	}
	return pm.Marshal()
}
func (m *hMarshalizer) Unmarshal(obj interface{}, buff []byte) error {
	if m.w != nil && m.w.plan.hit("Unmarshal") {
		return errInjected
	}
	pm, ok := obj.(protoMsg)
	if !ok {
		return fmt.Errorf("not a proto message: %T", obj)
	}
	pm.Reset()
	return pm.Unmarshal(buff)
}
func (m *hMarshalizer) IsInterfaceNil() bool { return m == nil }

type hEpochNotifier struct {
	handlers []vmcommon.EpochSubscriberHandler
}

func (e *hEpochNotifier) RegisterNotifyHandler(h vmcommon.EpochSubscriberHandler) {
	e.handlers = append(e.handlers, h)
}
func (e *hEpochNotifier) IsInterfaceNil() bool { return e == nil }

// ---------- shard and world ----------
type hShard struct {
	w        *hWorld
	id       uint32
	accounts map[string]*hAccount
	factory  interface {
		GasScheduleChange(map[string]map[string]uint64)
	}
	container vmcommon.BuiltInFunctionContainer
	notifier  *hEpochNotifier
}

func (s *hShard) account(addr []byte) *hAccount {
	a, ok := s.accounts[string(addr)]
	if !ok {
		a = newAccount(s.w, addr)
		s.accounts[string(addr)] = a
	}
	return a
}

type hMsg struct {
	ID       int
	Fn       string
	Caller   []byte
	Dest     []byte
	Args     [][]byte
	CallType vmcommon.CallType
	GasLimit uint64
	Locked   uint64
	Origin   uint32
	Sender   []byte // original sender (for refunds)
}

type hWorld struct {
	nShards    int
	shardTab   map[string]uint32
	shardDflt  uint32
	payTab     map[string]byte
	payDflt    byte
	dns        [][]byte
	enableChg  bool
	activation uint32
	gasMap     map[string]map[string]uint64
	shards     []*hShard
	plan       *faultPlan
	earlyGas   []map[string]map[string]uint64 // schedule changes delivered to each factory BEFORE it creates its container
	held       []*hAccount // the account objects the node handed to the running call (see hAccounts.LoadAccount)
	inflight   []*hMsg
	failed     map[int]bool
	nextID     int
}

const metaShard = uint32(0xFFFFFFFF)

func (w *hWorld) shardOf(a []byte) uint32 {
	if s, ok := w.shardTab[string(a)]; ok {
		return s
	}
	return w.shardDflt
}
func (w *hWorld) payOf(a []byte) byte {
	if p, ok := w.payTab[string(a)]; ok {
		return p
	}
	return w.payDflt
}

var builtInCostFields = []string{"ChangeOwnerAddress", "ClaimDeveloperRewards", "SaveUserName", "SaveKeyValue", "ESDTTransfer", "ESDTBurn",
	"ESDTLocalMint", "ESDTLocalBurn", "ESDTNFTCreate", "ESDTNFTAddQuantity", "ESDTNFTBurn", "ESDTNFTTransfer", "ESDTNFTChangeCreateOwner",
	"ESDTNFTMultiTransfer", "ESDTNFTAddURI", "ESDTNFTUpdateAttributes"}
var baseCostFields = []string{"StorePerByte", "ReleasePerByte", "DataCopyPerByte", "PersistPerByte", "CompilePerByte", "AoTPreparePerByte"}

// distinctGas builds a schedule with pairwise distinct costs: base + index*step
func distinctGas(base, step uint64) map[string]map[string]uint64 {
	m := map[string]map[string]uint64{"BuiltInCost": {}, "BaseOperationCost": {}}
	for i, f := range builtInCostFields {
		m["BuiltInCost"][f] = base + uint64(i)*step
	}
	for i, f := range baseCostFields {
		m["BaseOperationCost"][f] = 2 + uint64(i)
	}
	return m
}

func newWorld(nShards int, gasMap map[string]map[string]uint64) (*hWorld, error) {
	w := &hWorld{nShards: nShards, shardTab: map[string]uint32{}, payTab: map[string]byte{}, payDflt: 'Y', failed: map[int]bool{},
		gasMap: gasMap, enableChg: false}
	return w, nil
}

// build creates the per-shard containers through the real factory (call after cfg fields are set)
func (w *hWorld) build() error {
	dnsMap := map[string]struct{}{}
	for _, d := range w.dns {
		dnsMap[string(d)] = struct{}{}
	}
	w.shards = nil
	for i := 0; i < w.nShards; i++ {
		sh := &hShard{w: w, id: uint32(i), accounts: map[string]*hAccount{}, notifier: &hEpochNotifier{}}
		args := builtInFunctions.ArgsCreateBuiltInFunctionContainer{
			GasMap:                              w.gasMap,
			MapDNSAddresses:                     dnsMap,
			EnableUserNameChange:                w.enableChg,
			Marshalizer:                         &hMarshalizer{w: w},
			Accounts:                            &hAccounts{sh: sh},
			ShardCoordinator:                    &hCoordinator{w: w, self: uint32(i)},
			EpochNotifier:                       sh.notifier,
			ESDTNFTImprovementV1ActivationEpoch: w.activation,
		}
		f, err := builtInFunctions.NewBuiltInFunctionsFactory(args)
		if err != nil {
			return err
		}
		for _, g := range w.earlyGas {
			f.GasScheduleChange(g)
		}
		c, err := f.CreateBuiltInFunctionContainer()
		if err != nil {
			return err
		}
		if err := builtInFunctions.SetPayableHandler(c, &hPayable{w: w}); err != nil {
			return err
		}
		sh.factory = f
		sh.container = c
		w.shards = append(w.shards, sh)
	}
	return nil
}

// ---------- one execution ----------
type callSpec struct {
	Shard    uint32
	Fn       string
	Caller   []byte
	Rcpt     []byte
	Args     [][]byte
	Value    *big.Int
	Gas      uint64
	Locked   uint64
	CallType vmcommon.CallType
	RAE      bool
	// account presence; normally derived from the shard table (see mkCall), explicit for hostile patterns
	Snd, Dst bool
	FailAt   int // fault plan: index of the failing dependency call, -1 none
}

type callResult struct {
	Status   int // 0 ok, 1 err, 2 panic
	Err      error
	PanicMsg string
	Out      *vmcommon.VMOutput
	DepCalls int
	DepKinds []string
	// set when the call changed the input structure it was given (argument list with spare capacity, caller, recipient)
	InputMutated string
	Pre      map[string]*hAccount // snapshot of the shard before the call
	AllocB   uint64
}

func (w *hWorld) mkCall(shard uint32, fn string, caller, rcpt []byte, args [][]byte, gas uint64) *callSpec {
	return &callSpec{Shard: shard, Fn: fn, Caller: caller, Rcpt: rcpt, Args: args, Value: big.NewInt(0), Gas: gas,
		Snd: w.shardOf(caller) == shard, Dst: w.shardOf(rcpt) == shard, FailAt: -1}
}

func snapshotShard(sh *hShard) map[string]*hAccount {
	m := map[string]*hAccount{}
	for k, a := range sh.accounts {
		m[k] = a.clone()
	}
	return m
}

func cloneArgs(a [][]byte) [][]byte {
	if a == nil {
		return nil
	}
	out := make([][]byte, len(a))
	for i, x := range a {
		if x != nil {
			out[i] = append([]byte{}, x...)
		}
	}
	return out
}

// exec runs one built-in call on a shard with rollback on error/panic (as the node does).
func (w *hWorld) exec(cs *callSpec) *callResult {
	sh := w.shards[cs.Shard]
	res := &callResult{Pre: snapshotShard(sh)}
	fn, err := sh.container.Get(cs.Fn)
	if err != nil {
		res.Status, res.Err = 1, err
		return res
	}
	// the argument list is handed over with SPARE CAPACITY behind it (as a list cut out of a larger buffer has): a callee that appends to
	// a prefix of it, or writes into it, changes what the caller still sees - compared with cs.Args after the call
	argv := make([][]byte, len(cs.Args), len(cs.Args)+3)
	copy(argv, cloneArgs(cs.Args))
	in := &vmcommon.ContractCallInput{
		VMInput: vmcommon.VMInput{CallerAddr: append([]byte(nil), cs.Caller...), Arguments: argv, CallValue: new(big.Int).Set(cs.Value),
			CallType: cs.CallType, GasProvided: cs.Gas, GasLocked: cs.Locked, ReturnCallAfterError: cs.RAE},
		RecipientAddr: append([]byte(nil), cs.Rcpt...), Function: cs.Fn,
	}
	var snd, dst vmcommon.UserAccountHandler
	w.held = nil
	if cs.Snd {
		a := sh.account(cs.Caller)
		snd = a
		w.held = append(w.held, a)
	}
	if cs.Dst {
		a := sh.account(cs.Rcpt)
		dst = a
		w.held = append(w.held, a)
	}
	defer func() { w.held = nil }()
	w.plan = &faultPlan{failAt: cs.FailAt}
	var ms0, ms1 runtime.MemStats
	runtime.ReadMemStats(&ms0)
	func() {
		defer func() {
			if r := recover(); r != nil {
				res.Status = 2
				res.PanicMsg = fmt.Sprint(r)
			}
		}()
		out, e := fn.ProcessBuiltinFunction(snd, dst, in)
		res.Out, res.Err = out, e
		if e != nil {
			res.Status = 1
		}
	}()
	runtime.ReadMemStats(&ms1)
	res.AllocB = ms1.TotalAlloc - ms0.TotalAlloc
	switch {
	case len(in.Arguments) != len(cs.Args):
		res.InputMutated = fmt.Sprintf("len(Arguments) changed from %d to %d", len(cs.Args), len(in.Arguments))
	case !bytes.Equal(in.CallerAddr, cs.Caller) || !bytes.Equal(in.RecipientAddr, cs.Rcpt):
		res.InputMutated = "CallerAddr / RecipientAddr changed"
	default:
		for i := range cs.Args {
			if !bytes.Equal(argv[i], cs.Args[i]) {
				res.InputMutated = fmt.Sprintf("Arguments[%d] changed from %x to %x", i, cs.Args[i], argv[i])
				break
			}
		}
		if spare := argv[:cap(argv)]; res.InputMutated == "" {
			for i := len(cs.Args); i < len(spare); i++ {
				if spare[i] != nil {
					res.InputMutated = fmt.Sprintf("the spare slot %d behind the %d arguments was written (%x)", i, len(cs.Args), spare[i])
					break
				}
			}
		}
	}
	res.DepCalls = w.plan.count
	res.DepKinds = w.plan.kinds
	w.plan = nil
	if res.Status != 0 {
		sh.accounts = res.Pre // roll back
		res.Pre = snapshotShard(sh)
	}
	return res
}

// ---------- canonical listings ----------
func sortedKeys(m map[string][]byte) []string {
	ks := make([]string, 0, len(m))
	for k := range m {
		ks = append(ks, k)
	}
	sort.Strings(ks)
	return ks
}

func sortedAccts(m map[string]*hAccount) []string {
	ks := make([]string, 0, len(m))
	for k := range m {
		ks = append(ks, k)
	}
	sort.Strings(ks)
	return ks
}

func digestAccounts(m map[string]*hAccount) string {
	var sb strings.Builder
	for _, k := range sortedAccts(m) {
		a := m[k]
		fmt.Fprintf(&sb, "%x{bal=%s own=%x usr=%x rew=%s", k, a.balance, a.owner, a.username, a.devReward)
		for _, sk := range sortedKeys(a.storage) {
			fmt.Fprintf(&sb, " %x=%x", sk, a.storage[sk])
		}
		sb.WriteString("}")
	}
	return sb.String()
}
