package main

// C11: built-in functions are total on transaction-reachable input: exact (output, error) shape, no panic,
// no allocation proportional to a number taken from the arguments.

import (
	"bytes"
	"fmt"
	"math/big"

	vmcommon "github.com/ElrondNetwork/elrond-vm-common"
	"github.com/ElrondNetwork/elrond-vm-common/data/esdt"
)

// txReachable: can a transaction cause this execution?  (DESIGN.md 3.4: a user transaction executes on the shard of its
// caller with the presence pattern the shard table implies; system-contract calls and deliveries / refunds of real
// in-flight messages execute on the destination shard)
func txReachable(w *hWorld, sr *stepResult) bool {
	cs := sr.Call
	switch sr.Op.Kind {
	case opDeliver, opRedeliver, opRefund, opSys:
		return true
	}
	return cs.Value != nil && w.shardOf(cs.Caller) == cs.Shard && cs.Snd && cs.Dst == (w.shardOf(cs.Rcpt) == cs.Shard)
}

// cloneShardWorld: a fresh world with the same configuration whose executing shard holds a copy of the given accounts
func cloneShardWorld(w *hWorld, shard uint32, accts map[string]*hAccount) *hWorld {
	nw, _ := newWorld(w.nShards, w.gasMap)
	for k, v := range w.shardTab {
		nw.shardTab[k] = v
	}
	for k, v := range w.payTab {
		nw.payTab[k] = v
	}
	nw.shardDflt, nw.payDflt, nw.dns, nw.enableChg, nw.activation = w.shardDflt, w.payDflt, w.dns, w.enableChg, w.activation
	if err := nw.build(); err != nil {
		panic(err)
	}
	for k, a := range accts {
		b := a.clone()
		b.w = nw
		nw.shards[shard].accounts[k] = b
	}
	return nw
}

type c11Mon struct {
	checked    int
	allocOver  int
	maxAlloc   uint64
	maxAllocOf string
	maxRatio   float64
}

func c11Sizes(cs *callSpec, pre map[string]*hAccount) (argBytes, stateBytes uint64) {
	argBytes = uint64(len(cs.Caller) + len(cs.Rcpt) + len(cs.Fn))
	for _, a := range cs.Args {
		argBytes += uint64(len(a)) + 8
	}
	for _, a := range pre {
		for k, v := range a.storage {
			stateBytes += uint64(len(k) + len(v))
		}
		stateBytes += uint64(len(a.owner) + len(a.username) + 64)
	}
	return
}

func (m *c11Mon) mon(c *ctx, w *hWorld, _ *worldSnap, sr *stepResult, hist []string) {
	cs, res := sr.Call, sr.Res
	if !txReachable(w, sr) {
		c.count("skipped/not-transaction-reachable (caller does not live on the executing shard)")
		return
	}
	m.checked++
	kind := []string{"tx", "sys", "deliver", "redeliver", "refund"}[sr.Op.Kind]
	c.count(fmt.Sprintf("C11/%s/%s/%s", kind, cs.Fn, statusName(res.Status)))
	if sr.Op.Kind == opTx {
		c.count(fmt.Sprintf("C11/presence/caller=recipient:%v/recipient-on-shard:%v/args=%d", bytes.Equal(cs.Caller, cs.Rcpt), cs.Dst, len(cs.Args)))
	}
	rp := func() map[string]interface{} { return stdReplay(sr, hist) }
	// shape
	switch {
	case res.Status == 2:
		c.fail("panic", "panic/"+cs.Fn, fmt.Sprintf("%s panics on a %s execution: %s", cs.Fn, kind, res.PanicMsg), rp())
		return
	case res.Err == nil && res.Out == nil:
		c.fail("monitor", "shape/"+cs.Fn+"/nil-output-nil-error", cs.Fn+" returns (nil, nil)", rp())
	case res.Err == nil && res.Out.ReturnCode != vmcommon.Ok:
		c.fail("monitor", "shape/"+cs.Fn+"/return-code", fmt.Sprintf("%s returns a nil error with return code %d", cs.Fn, res.Out.ReturnCode), rp())
	case res.Err != nil && res.Out != nil:
		c.fail("monitor", "shape/"+cs.Fn+"/output-with-error", fmt.Sprintf("%s returns a non-nil output together with the error %v", cs.Fn, res.Err), rp())
	}
	// allocation: linear in the size of the input and of the state, never in a number taken from the arguments
	argB, stB := c11Sizes(cs, res.Pre)
	// (every listed entry of a multi-transfer may load, decode, re-encode and store one entry of the state: the state term is taken once per
	// ARGUMENT - the number of arguments, not a number written in them)
	thr := uint64(64<<10) + 64*argB + 8*stB*uint64(1+len(cs.Args))
	if r := float64(res.AllocB) / float64(thr); r > m.maxRatio {
		m.maxRatio, m.maxAlloc, m.maxAllocOf = r, res.AllocB, describeCall(cs)
	}
	if res.AllocB > thr {
		// measure again, twice, on copies of the pre-state (other goroutines / lazy initialisation can disturb one measurement)
		low := res.AllocB
		for i := 0; i < 2; i++ {
			nw := cloneShardWorld(w, cs.Shard, res.Pre)
			r2 := nw.exec(cs)
			if r2.AllocB < low {
				low = r2.AllocB
			}
		}
		c.count("C11/alloc/remeasured")
		if low > thr {
			m.allocOver++
			c.fail("monitor", "alloc/"+cs.Fn, fmt.Sprintf("%s allocates %d bytes (three measurements, minimum) for %d argument bytes and %d state bytes (threshold %d)", cs.Fn, low, argB, stB, thr), rp())
		}
	}
}

// ---------- adversarial pool (property text) ----------
func c11Pool(u *universe) [][]byte {
	tok := func(v *big.Int, md *esdt.MetaData) []byte {
		b, _ := (&esdt.ESDigitalToken{Type: 1, Value: v, TokenMetaData: md}).Marshal()
		return b
	}
	p := [][]byte{
		nil, {0}, {0, 0}, make([]byte, 8), make([]byte, 9), make([]byte, 33),
		be(1), be(2), be(3), be(4), be(255), be(256), be(1 << 20), be(1<<31 - 1), be(1 << 31), be(1 << 32), be(1 << 40),
		be(1 << 63), be(1<<63 - 1), be(1<<64 - 1), be(1<<64 - 2),
		append([]byte{1}, make([]byte, 8)...), append([]byte{1, 0, 0, 0, 0, 0, 0, 0}, 2), append([]byte{0xff}, be(1<<64-1)...), append([]byte{0}, be(1<<64-1)...),
		bytes.Repeat([]byte{0xff}, 101), bytes.Repeat([]byte{0x7f}, 100),
		u.U[0], u.U[1], u.U[2], u.U[3], u.K[0], u.K[1], u.SC, u.SYS, u.DNS, u.Short, u.Long, u.MetaUser, u.U[0][:31], append(append([]byte{}, u.U[2]...), 0),
		u.Fung[0], u.Fung[1], u.NFTs[0], u.NFTs[1],
		[]byte("CD"), []byte("C"), {0x43, 0x01}, {0x43, 0x44}, {0x36, 0x01}, {0x36, 0x44}, {0x44}, []byte("X"), []byte("UNKNOWN-000000"),
		append(append([]byte{}, u.NFTs[0]...), 1), append(append([]byte{}, u.NFTs[1]...), 2), append(append([]byte{}, u.Fung[0]...), 0),
		[]byte("ESDTRoleNFTCreate"), []byte("ESDTRoleLocalMint"), []byte("ESDTRoleNFTBurn"), []byte("NoSuchRole"),
		[]byte("ELRONDesdtTKA-a1b2c3"), []byte("ELROND"), []byte("key"), []byte("alice.elrond"), []byte("doSomething"), []byte("a@b"),
		tok(big.NewInt(1), &esdt.MetaData{Nonce: 1, Hash: []byte("h")}), tok(big.NewInt(5), nil), tok(nil, &esdt.MetaData{Nonce: 2}), {0x08, 0x01}, {0x12, 0xff, 0xff, 0xff, 0xff, 0x0f},
	}
	p = append(p, u.Alias...)
	p = append(p, wrapCounts...)
	return p
}

type c11Run struct {
	c      *ctx
	u      *universe
	budget *caseBudget
	mon    *c11Mon
	pool   [][]byte
}

func (r *c11Run) newScn(name string, v int, emitProb int) *scn {
	s := newScn(r.c, r.u, name, v, []monitor{r.mon.mon}, r.budget)
	s.lite = true
	s.emitProb = emitProb
	return s
}

// reachable callers: every address that lives on a shard of this world
func (r *c11Run) callers(w *hWorld) [][]byte {
	u := r.u
	var l [][]byte
	for _, a := range [][]byte{u.U[0], u.U[1], u.U[2], u.U[3], u.K[0], u.K[1], u.DNS, u.Short, u.Long, u.SYS, u.U[0], u.U[2]} {
		if int(w.shardOf(a)) < w.nShards {
			l = append(l, a)
		}
	}
	return l
}

func (r *c11Run) anyGas(g *gen, fn string) uint64 {
	c := r.c
	switch c.rng.Intn(4) {
	case 0:
		return c.rng.Uint64()
	case 1:
		return c.rng.Uint64() >> uint(c.rng.Intn(64))
	}
	return c.gasAround(g.cost(fn) * uint64(1+c.rng.Intn(3)))
}

// hostile: any function, 0..12 arguments from the pool, any gas / call type / addresses, presence as the shard table implies
func (r *c11Run) hostile(s *scn, g *gen) *worldOp {
	c, u, w := r.c, r.u, s.w
	fn := builtinNames[c.rng.Intn(len(builtinNames))]
	n := c.rng.Intn(13)
	var args [][]byte
	for i := 0; i < n; i++ {
		args = append(args, c.pick(r.pool))
	}
	callers := r.callers(w)
	caller := c.pick(callers)
	all := [][]byte{u.U[0], u.U[1], u.U[2], u.U[3], u.K[0], u.K[1], u.DNS, u.Short, u.Long, u.SYS, u.SC, u.MetaUser, u.U[0][:31]}
	rcpt := caller
	if c.rng.Intn(5) < 3 {
		rcpt = c.pick(all)
	}
	if c.rng.Intn(3) == 0 {
		r.shape(fn, caller, &rcpt, &args)
	}
	cs := w.mkCall(w.shardOf(caller), fn, caller, rcpt, args, r.anyGas(g, fn))
	cs.CallType = vmcommon.CallType(c.rng.Intn(4))
	if c.rng.Intn(20) == 0 {
		cs.CallType = vmcommon.CallType(4 + c.rng.Intn(250))
	}
	cs.RAE = c.rng.Intn(5) == 0
	cs.Locked = []uint64{0, 0, 1, 1<<64 - 1}[c.rng.Intn(4)]
	if c.rng.Intn(25) == 0 {
		cs.Value = big.NewInt(int64(c.rng.Intn(3)) - 1)
	}
	return &worldOp{Kind: opTx, Call: cs}
}

// shape: put plausible leading arguments in place so that the call gets past the first guards; the rest stays adversarial
func (r *c11Run) shape(fn string, caller []byte, rcpt *[]byte, args *[][]byte) {
	c, u := r.c, r.u
	toks := [][]byte{u.Fung[0], u.Fung[1], u.NFTs[0], u.NFTs[1], u.Alias[0], u.Alias[1], u.Alias[3], u.Alias[4]}
	nonces := [][]byte{be(1), be(2), be(3), {0x43, 0x01}, {0x43, 0x44}, {0x36, 0x01}, nil, {0}}
	set := func(i int, v []byte) {
		for len(*args) <= i {
			*args = append(*args, c.pick(r.pool))
		}
		(*args)[i] = v
	}
	addr := c.pick([][]byte{u.U[0], u.U[1], u.U[2], u.U[3], u.K[0], u.K[1], u.Short, u.Long, u.SYS})
	switch fn {
	case "ESDTTransfer":
		set(0, c.pick(toks))
		set(1, c.amount(1000))
		*rcpt = addr
	case "ESDTNFTTransfer":
		set(0, c.pick(toks))
		set(1, c.pick(nonces))
		set(2, c.amount(1))
		set(3, addr)
		*rcpt = caller
	case "MultiESDTNFTTransfer":
		set(0, addr)
		k := 1 + c.rng.Intn(3)
		set(1, be(uint64(k)))
		if c.rng.Intn(3) == 0 {
			set(1, c.pick(wrapCounts))
		}
		for i := 0; i < k; i++ {
			set(2+3*i, c.pick(toks))
			set(3+3*i, c.pick(nonces))
			set(4+3*i, c.amount(5))
		}
		*rcpt = caller
	case "ESDTNFTAddQuantity", "ESDTNFTBurn", "ESDTNFTAddURI", "ESDTNFTUpdateAttributes":
		set(0, c.pick(toks))
		set(1, c.pick(nonces))
		*rcpt = caller
		if fn == "ESDTNFTUpdateAttributes" && len(*args) > 3 && c.rng.Intn(2) == 0 {
			*args = (*args)[:3]
		}
	case "ESDTNFTCreate", "ESDTLocalMint", "ESDTLocalBurn":
		set(0, c.pick(toks))
		set(1, c.amount(3))
		*rcpt = caller
		if fn == "ESDTNFTCreate" {
			set(3, c.pick([][]byte{be(0), be(10000), be(10001), be(1<<32 + 1), nil}))
			set(6, c.pick(r.pool))
		}
	case "ESDTBurn":
		*args = [][]byte{c.pick(toks), c.amount(100)}
		*rcpt = u.SC
	case "SaveKeyValue":
		*rcpt = caller
	case "SetUserName":
		*args = [][]byte{c.pick(r.pool)}
	}
}

// mutate: a valid operation of the shared generator with one or two arguments replaced / dropped / duplicated / appended
func (r *c11Run) mutate(s *scn, g *gen) *worldOp {
	c := r.c
	var op *worldOp
	switch c.rng.Intn(4) {
	case 0, 1:
		op = g.transferOp()
	case 2:
		op = g.supplyOp()
	default:
		op = g.accountOp()
	}
	cs := op.Call
	if !(s.w.shardOf(cs.Caller) == cs.Shard && cs.Snd) {
		return op
	}
	args := cloneArgs(cs.Args)
	for k := 0; k < 1+c.rng.Intn(2); k++ {
		switch x := c.rng.Intn(5); {
		case x == 0 && len(args) > 0:
			i := c.rng.Intn(len(args))
			args = append(args[:i:i], args[i+1:]...)
		case x == 1 && len(args) > 0:
			i := c.rng.Intn(len(args))
			args = append(args[:i+1:i+1], args[i:]...)
		case x == 2:
			args = append(args, c.pick(r.pool))
		case len(args) > 0:
			args[c.rng.Intn(len(args))] = c.pick(r.pool)
		}
	}
	if len(args) > 12 {
		args = args[:12]
	}
	cs.Args = args
	if c.rng.Intn(3) == 0 {
		cs.Gas = r.anyGas(g, cs.Fn)
	}
	return op
}

// generated hostile history on a populated world; valid operations and deliveries keep the state moving
func (r *c11Run) famHostile(v, n int, emitProb int) {
	s := r.newScn("hostile", v, emitProb)
	r.u.populate(s.w)
	g := newGen(r.c, r.u, s.w)
	for i := 0; i < n; i++ {
		var op *worldOp
		switch x := r.c.rng.Intn(100); {
		case x < 55:
			op = r.hostile(s, g)
		case x < 80:
			op = r.mutate(s, g)
		case x < 86:
			op = g.transferOp()
		case x < 90:
			op = g.supplyOp()
		case x < 93:
			op = g.systemOp()
		default:
			op = g.deliverOp()
			if op.Kind == opDeliver || op.Kind == opRefund {
				op.Gas = r.anyGas(g, "ESDTTransfer") // any gas on the destination side
			}
		}
		s.do(op)
	}
}

// residues: transfer counts / nonces n with 3n+c small modulo 2^64 and neighbours, all argument-list lengths, extreme gas
func (r *c11Run) famResidues(v int) {
	s := r.newScn("residues", v, 2)
	u := r.u
	u.populate(s.w)
	a := u.U[0]
	counts := append([][]byte{}, wrapCounts...)
	for _, n := range []uint64{0x5555555555555554, 0x5555555555555558, 0xAAAAAAAAAAAAAAAC, 1 << 63, 1<<63 + 1, 1<<64 - 1, 1<<64 - 2, 1 << 62, 0x2AAAAAAAAAAAAAAB, 0x8000000000000001, 1 << 32, 1 << 31, 5, 4} {
		counts = append(counts, be(n))
	}
	for _, cnt := range counts {
		for n := 2; n <= 12; n++ {
			args := [][]byte{u.U[1], cnt}
			for len(args) < n {
				args = append(args, [][]byte{u.Fung[0], nil, be(1)}[(len(args)-2)%3])
			}
			for _, gas := range []uint64{1<<64 - 1, bigGas, 0} {
				if gas != 1<<64-1 && n%3 != 2 {
					continue
				}
				cs := s.w.mkCall(0, "MultiESDTNFTTransfer", a, a, args, gas)
				s.do(&worldOp{Kind: opTx, Call: cs})
			}
		}
		// the same numbers as nonce and quantity of the single transfer and of the role-gated functions
		s.tx(a, a, "ESDTNFTTransfer", 1<<64-1, u.NFTs[1], cnt, be(1), u.U[1])
		s.tx(a, a, "ESDTNFTTransfer", 1<<64-1, u.NFTs[1], be(1), cnt, u.U[2])
		s.tx(a, a, "ESDTNFTAddQuantity", 1<<64-1, u.NFTs[1], cnt, cnt)
		s.tx(a, a, "ESDTNFTBurn", 1<<64-1, u.NFTs[1], be(1), cnt)
		s.tx(a, a, "ESDTNFTAddURI", 1<<64-1, u.NFTs[1], cnt, cnt)
		s.tx(a, a, "ESDTNFTUpdateAttributes", 1<<64-1, u.NFTs[1], cnt, cnt)
		s.tx(a, a, fnCreate, 1<<64-1, u.NFTs[1], cnt, []byte("n"), cnt, []byte("h"), []byte("a"), cnt)
		s.tx(a, u.U[1], "ESDTTransfer", 1<<64-1, u.Fung[0], cnt)
		s.tx(a, a, "ESDTLocalMint", 1<<64-1, u.Fung[0], cnt)
	}
}

// aliasing: token ids whose concatenation with a nonce is the key of another entry (fungible: F4a shape, fixed; NFT: F4b shape)
func (r *c11Run) famAlias(v int) {
	s := r.newScn("aliasing", v, 1)
	u := r.u
	u.populate(s.w)
	a := [][]byte{u.U[0], u.U[2]}[v%2]
	ids := [][]byte{[]byte("A"), []byte("AB"), []byte("ABC"), []byte("ABCD"), []byte("ABC-12345"), []byte("ABC-123456"), []byte("ABC\x01"), []byte("ABC-123456\x01")}
	for _, id := range ids {
		s.sys(a, "ESDTSetRole", roleArgs(id, c07AllRoles...)...)
	}
	s.sys(a, "ESDTTransfer", []byte("ABCD"), be(100))
	s.sys(a, "ESDTTransfer", []byte("ABC-12345"), be(100))
	for i := 0; i < 3; i++ {
		s.tx(a, a, fnCreate, bigGas, createArgs([]byte("ABC"), 9, "abc")...)
		s.tx(a, a, fnCreate, bigGas, createArgs([]byte("ABC-123456"), 7, "v")...)
		s.tx(a, a, fnCreate, bigGas, createArgs([]byte("AB"), 5, "ab")...)
	}
	pairs := [][2][]byte{
		{[]byte("AB"), {0x43, 0x01}}, {[]byte("AB"), {0x43, 0x02}}, {[]byte("AB"), {0x43, 0x44}}, {[]byte("ABC"), {0x44}}, {[]byte("A"), {0x42, 0x43, 0x01}},
		{[]byte("ABC-12345"), {0x36, 0x01}}, {[]byte("ABC-12345"), {0x36, 0x03}}, {[]byte("A"), {0x42, 0x01}}, {[]byte("ABC-1234"), {0x35, 0x36, 0x02}},
	}
	same, cross := s.sameShard(a, v), s.other(a, v)
	for _, p := range pairs {
		tok, n := p[0], p[1]
		for _, q := range [][]byte{be(1), be(3), be(1000), nil} {
			for _, dst := range [][]byte{same, cross, u.K[0], u.K[1]} {
				s.deliverNew(s.tx(a, a, "ESDTNFTTransfer", bigGas, tok, n, q, dst))
				s.deliverNew(s.tx(a, a, "MultiESDTNFTTransfer", bigGas, dst, be(2), tok, n, q, []byte("ABCD"), nil, be(1)))
				s.deliverNew(s.tx(a, a, "MultiESDTNFTTransfer", bigGas, dst, be(1), tok, n, q, []byte("f"), []byte("x")))
			}
			s.tx(a, a, "ESDTNFTAddQuantity", bigGas, tok, n, q)
			s.tx(a, a, "ESDTNFTBurn", bigGas, tok, n, q)
		}
		s.tx(a, a, "ESDTNFTAddURI", bigGas, tok, n, []byte("uri"))
		s.tx(a, a, "ESDTNFTUpdateAttributes", bigGas, tok, n, []byte("attr"))
		// the fungible-key functions on the concatenated id
		cat := append(append([]byte{}, tok...), n...)
		s.tx(a, same, "ESDTTransfer", bigGas, cat, be(1))
		s.deliverNew(s.tx(a, cross, "ESDTTransfer", bigGas, cat, be(1)))
		s.tx(a, a, "ESDTLocalMint", bigGas, cat, be(1))
		s.tx(a, a, "ESDTLocalBurn", bigGas, cat, be(1))
		s.tx(a, u.SC, "ESDTBurn", bigGas, cat, be(1))
		s.sys(a, "ESDTFreeze", cat)
		s.tx(a, a, "ESDTNFTTransfer", bigGas, tok, n, be(1), same)
		s.sys(a, "ESDTUnFreeze", cat)
		s.sysOn(s.w.shardOf(a), u.SYS, "ESDTPause", cat)
		s.tx(a, a, "ESDTNFTTransfer", bigGas, tok, n, be(1), same)
		s.sysOn(s.w.shardOf(a), u.SYS, "ESDTUnPause", cat)
	}
	// a fungible token whose identifier is another token's id ‖ nonce, sent onto the account that holds that NFT (and the reverse)
	for _, cat := range [][]byte{[]byte("ABC\x01"), []byte("ABC-123456\x01"), []byte("AB\x02")} {
		for _, b := range [][]byte{same, cross} {
			s.sys(b, "ESDTTransfer", cat, be(100))
			s.deliverNew(s.tx(b, a, "ESDTTransfer", bigGas, cat, be(1)))
			s.deliverNew(s.tx(b, b, "MultiESDTNFTTransfer", bigGas, a, be(1), cat, nil, be(1))) // (the nil-metadata dereference of F11, fixed)
			s.deliverNew(s.tx(b, b, "MultiESDTNFTTransfer", bigGas, a, be(2), u.Fung[0], nil, be(1), cat, []byte{0}, be(2)))
			s.deliverNew(s.tx(b, b, "ESDTNFTTransfer", bigGas, cat, nil, be(1), a))
			// the NFT onto the holder of the fungible alias
			s.deliverNew(s.tx(a, a, "ESDTNFTTransfer", bigGas, cat[:len(cat)-1], cat[len(cat)-1:], be(1), b))
			s.deliverNew(s.tx(a, a, "MultiESDTNFTTransfer", bigGas, b, be(1), cat[:len(cat)-1], cat[len(cat)-1:], be(1)))
		}
	}
	// wipe an aliased entry, then use it
	s.sys(a, "ESDTFreeze", []byte("ABC\x01"))
	s.sys(a, "ESDTWipe", []byte("ABC\x01"))
	s.tx(a, a, "ESDTNFTTransfer", bigGas, []byte("AB"), []byte{0x43, 0x01}, be(1), same)
	// everything still in flight: refuse / refund
	for _, mm := range append([]*hMsg{}, s.w.inflight...) {
		if !srOK(s.deliver(mm.ID)) {
			s.refund(mm.ID)
		}
	}
}

const c11Proj = "{| p_gas := false; p_transfers := false; p_logs := false; p_retdata := false; p_state := false; p_deps := false |}"

func init() {
	runners["C11"] = func(c *ctx) {
		u := newUniverse()
		c.rep.Rule = "every transaction-reachable execution (user transactions on the caller's shard with the presence pattern of the shard table: caller = recipient, recipient on the same shard, on another shard, on the metachain; system-contract calls; deliveries, re-deliveries and refunds of real in-flight messages with any gas) is checked on the implementation: no panic (recover around the call), exactly (non-nil output, return code Ok, nil error) or (nil output, non-nil error), and bytes allocated during the call (runtime.MemStats.TotalAlloc delta) <= 64 KiB + 64 x argument bytes + 8 x state bytes of the shard (measured again twice on copies before reporting). Generators: any of the 23 functions with 0..12 arguments from the adversarial pool (empty, 0x00.., 8- and 9-byte integers, 2^31, 2^32, 2^63, 2^64-1, the residues n with 3n+c small mod 2^64 and neighbours, aliasing ids AB / ABC / ABCD / ABC-12345 / ABC-123456 with the nonces that complete another key, 31/32/33-byte and special addresses, marshalled entries, role names, protected keys), optionally with plausible leading arguments; valid operations with arguments dropped / duplicated / replaced / appended; any gas, call type (also out of range), gas locked, return-after-error flag, call value -1/0/1; residue sweeps over all argument-list lengths 2..12; aliasing family on entries created through built-in calls only (no injected storage), incl. freeze / pause / wipe / mint on the concatenated ids and delivery / refund of the resulting messages; the C10 families (attached calls, numbers, continuations, refused deliveries) under this monitor; random walks. States are reachable through built-in calls only. Every executed call of a sample is re-evaluated in the Coq model (ok / error / panic status and return code). distinct = distinct (shard state, call)."
		c.setExecStream(c11Proj)
		quick := !(c.thorough() || c.widen)
		r := &c11Run{c: c, u: u, budget: &caseBudget{max: 2000}, mon: &c11Mon{}, pool: c11Pool(u)}
		nv, nHost, hostOps, hostEmit, walkW, walkOps, walkEmit, walkMax := 2, 24, 1500, 34, 6, 300, 4, 450
		if !quick {
			r.budget.max = 12000
			nv, nHost, hostOps, hostEmit, walkW, walkOps, walkEmit, walkMax = 6, 300, 3000, 110, 40, 500, 5, 4000
		}
		for v := 0; v < nv; v++ {
			r.famAlias(v)
			r.famResidues(v)
		}
		for v := 0; v < nHost; v++ {
			r.famHostile(v, hostOps, hostEmit)
		}
		// destination-side executions of real messages: the C10 families under this monitor
		cr := &c10Run{c: c, u: u, budget: r.budget, mons: []monitor{r.mon.mon}, emitProb: 6}
		for v := 0; v < nv; v++ {
			cr.famAttached(v, append(append([]string{}, c10BadNames...), c10Names[:4]...), "c10:attached-call")
			cr.famNumbers(v)
			cr.famContinuations(v)
		}
		c.walk(u, walkOpts{Worlds: walkW, Ops: walkOps, Proj: c11Proj, MaxCases: walkMax, EmitProb: walkEmit, Monitors: []monitor{r.mon.mon},
			Tune: func(g *gen) {
				g.wTransfer, g.wSupply, g.wSystem, g.wAccount, g.wDeliver, g.wHostile = 22, 12, 8, 5, 13, 40
			}})
		c.rep.Extra = map[string]interface{}{"reachable_executions_checked": r.mon.checked, "allocation_failures": r.mon.allocOver,
			"largest_allocation_over_threshold_ratio": r.mon.maxRatio, "largest_allocation_bytes": r.mon.maxAlloc, "largest_allocation_call": r.mon.maxAllocOf}
		c.sample(map[string]interface{}{"families": []string{"hostile", "residues", "aliasing", "c10:attached-call", "numbers", "continuations+refusals", "walk"}})
	}
}
