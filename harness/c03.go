package main

// C03 — privileged operations require the right authority.
//   (1) role-gated functions succeed only if the CALLER's own role list for THAT token holds the role;
//   (2) role lists, frozen flags, pause flags, wipes and the create-role hand-over change only through calls of the
//       ESDT system contract (or the hand-over continuation, which refuses to run when the sender account is local);
//   (3) ChangeOwnerAddress / ClaimDeveloperRewards only for the current owner, SetUserName only for a DNS address.
// Shared helpers (deep pre-state, cell diff, scenario driver) live in c05.go.

import (
	"bytes"
	"fmt"
	"math/big"
	"runtime"
	"strings"

	vmcommon "github.com/ElrondNetwork/elrond-vm-common"
)

// required roles, from the property text
var c03RoleOf = map[string]string{
	"ESDTLocalMint":           "ESDTRoleLocalMint",
	"ESDTLocalBurn":           "ESDTRoleLocalBurn",
	"ESDTNFTCreate":           "ESDTRoleNFTCreate",
	"ESDTNFTAddQuantity":      "ESDTRoleNFTAddQuantity",
	"ESDTNFTBurn":             "ESDTRoleNFTBurn",
	"ESDTNFTAddURI":           "ESDTRoleNFTAddURI",
	"ESDTNFTUpdateAttributes": "ESDTRoleNFTUpdateAttributes",
}

func c03Required(cs *callSpec) []string {
	r, ok := c03RoleOf[cs.Fn]
	if !ok {
		return nil
	}
	req := []string{r}
	if cs.Fn == "ESDTNFTCreate" && len(cs.Args) >= 2 && new(big.Int).SetBytes(cs.Args[1]).Cmp(big.NewInt(1)) > 0 {
		req = append(req, "ESDTRoleNFTAddQuantity")
	}
	return req
}

// c03RolesHeld: decoded role list under ELRONDroleesdt+tok in the account (nil when absent or undecodable)
func c03RolesHeld(a *hAccount, tok []byte) [][]byte {
	raw, ok := a.storage[c05R+string(tok)]
	if !ok || len(raw) == 0 {
		return nil
	}
	r, err := c05DecodeRoles(raw)
	if err != nil {
		return nil
	}
	return r.Roles
}

func c03Has(list [][]byte, role string) bool {
	for _, r := range list {
		if string(r) == role {
			return true
		}
	}
	return false
}

// monitor (1)
func c03MonRole(c *ctx, w *hWorld, pre []map[string]*hAccount, sr *stepResult, hist []string) {
	cs := sr.Call
	req := c03Required(cs)
	if req == nil {
		return
	}
	if sr.Res.Status != 0 {
		c.count("c03/role/" + cs.Fn + "/rejected")
		return
	}
	var tok []byte
	if len(cs.Args) > 0 {
		tok = cs.Args[0]
	}
	held := c03RolesHeld(c05Acct(pre[cs.Shard], string(cs.Caller)), tok)
	for _, r := range req {
		if !c03Has(held, r) {
			c.fail("monitor", "role-missing/"+cs.Fn+"/"+r, fmt.Sprintf("%s succeeded although the caller's role list for token %q (%q) lacks %s", cs.Fn, tok, held, r), c05Replay(sr, hist))
			return
		}
	}
	c.count("c03/role/" + cs.Fn + "/ok-with-role")
}

func c03Frozen(v []byte) bool {
	if len(v) == 0 {
		return false
	}
	t, err := c05DecodeToken(v)
	if err != nil || t.TokenMetaData != nil {
		return false
	}
	return len(t.Properties) == 2 && t.Properties[0]&1 != 0
}

// c03Privileged: classes of system-only state that differ between pre and post
func c03Privileged(cs *callSpec, status int, forgedRAE bool, cells []c05Cell) []string {
	seen := map[string]bool{}
	var out []string
	add := func(s string) {
		if !seen[s] {
			seen[s] = true
			out = append(out, s)
		}
	}
	for _, x := range cells {
		if x.Field != "" {
			continue
		}
		switch {
		case strings.HasPrefix(x.Key, c05R):
			add("role-list")
		case strings.HasPrefix(x.Key, c05NP):
			// the creator's own counter moves with every successful ESDTNFTCreate; anything else is a hand-over
			ownCreate := cs.Fn == "ESDTNFTCreate" && x.Addr == string(cs.Caller) && len(cs.Args) > 0 && x.Key == c05NP+string(cs.Args[0])
			if !ownCreate {
				add("create-counter")
			}
		case strings.HasPrefix(x.Key, c05P):
			if x.Addr == string(vmcommon.SystemAccountAddress) && (len(x.Old) == 2 || len(x.New) == 2) {
				add("pause-flag")
			}
			if !forgedRAE && c03Frozen(x.Old) != c03Frozen(x.New) {
				add("frozen-flag")
			}
		}
	}
	if cs.Fn == "ESDTWipe" && status == 0 && len(cells) > 0 {
		add("wipe")
	}
	return out
}

// monitor (2)
func c03MonSystem(c *ctx, w *hWorld, pre []map[string]*hAccount, sr *stepResult, hist []string) {
	cs := sr.Call
	cells := c05WorldDiff(w, pre)
	if sr.Res.Status != 0 {
		if len(cells) > 0 {
			c.fail("monitor", "rejected-call-changed-state/"+cs.Fn, "a rejected call left a change: "+cells[0].String(), c05Replay(sr, hist))
		}
		return
	}
	// ReturnCallAfterError is set by the protocol on refunds only; a transaction carrying it is not reachable and
	// bypasses the frozen check by design (C04) — the frozen-flag class is not evaluated for such forged calls
	// — except for the four functions that only go through addToESDTBalance (ESDTTransfer, ESDTBurn, ESDTLocalMint, ESDTLocalBurn):
	// they keep every frozen flag even with the flag set (C03_fungible_functions_keep_frozen), e.g. when a frozen account spends exactly
	// its whole balance the zero-balance entry stays to carry the flag
	keepsFlags := cs.Fn == "ESDTTransfer" || cs.Fn == "ESDTBurn" || cs.Fn == "ESDTLocalMint" || cs.Fn == "ESDTLocalBurn"
	forgedRAE := cs.RAE && sr.Op.Kind != opRefund && !keepsFlags
	classes := c03Privileged(cs, sr.Res.Status, forgedRAE, cells)
	if len(classes) == 0 {
		return
	}
	bySC := bytes.Equal(cs.Caller, vmcommon.ESDTSCAddress)
	handover := cs.Fn == "ESDTNFTCreateRoleTransfer" && !cs.Snd
	for _, cl := range classes {
		switch {
		case bySC:
			c.count("c03/system/" + cl + "/by-system-contract")
		case handover && (sr.Op.Kind == opDeliver || sr.Op.Kind == opRedeliver):
			c.count("c03/system/" + cl + "/by-handover-delivery")
		case handover:
			// same call shape as a delivery (sender account not local) but no in-flight message behind it: not reachable
			// under the environment semantics (DESIGN 3.4); the function cannot tell the two apart
			c.count("c03/system/" + cl + "/handover-shape-without-message")
		default:
			c.fail("monitor", "system-only/"+cs.Fn+"/"+cl, fmt.Sprintf("%s by caller %x changed %s state", cs.Fn, cs.Caller, cl), c05Replay(sr, hist))
		}
	}
}

func c03IsDNS(w *hWorld, a []byte) bool {
	for _, d := range w.dns {
		if bytes.Equal(d, a) {
			return true
		}
	}
	return false
}

// monitor (3)
func c03MonOwner(c *ctx, w *hWorld, pre []map[string]*hAccount, sr *stepResult, hist []string) {
	cs := sr.Call
	cells := c05WorldDiff(w, pre)
	preOwner := c05Acct(pre[cs.Shard], string(cs.Rcpt)).owner
	isOwner := cs.Dst && bytes.Equal(cs.Caller, preOwner)
	for _, x := range cells {
		if x.Field == "" {
			continue
		}
		ok := false
		switch x.Field {
		case "owner":
			ok = cs.Fn == "ChangeOwnerAddress" && x.Addr == string(cs.Rcpt) && isOwner
		case "devReward":
			ok = cs.Fn == "ClaimDeveloperRewards" && x.Addr == string(cs.Rcpt) && isOwner
		case "balance":
			ok = cs.Fn == "ClaimDeveloperRewards" && x.Addr == string(cs.Caller) && isOwner
		case "username":
			ok = cs.Fn == "SetUserName" && x.Addr == string(cs.Rcpt) && c03IsDNS(w, cs.Caller)
		}
		if !ok || x.Shard != cs.Shard {
			c.fail("monitor", "account-field/"+cs.Fn+"/"+x.Field, fmt.Sprintf("%s by caller %x changed %s", cs.Fn, cs.Caller, x.String()), c05Replay(sr, hist))
		}
	}
	switch cs.Fn {
	case "ChangeOwnerAddress", "ClaimDeveloperRewards":
		switch {
		case isOwner && sr.Res.Status == 0:
			c.count("c03/owner/" + cs.Fn + "/by-owner-ok")
		case isOwner:
			c.count("c03/owner/" + cs.Fn + "/by-owner-rejected")
		default:
			// not the owner of a local recipient, or the recipient is not local (origin side: gas only)
			if len(cells) > 0 {
				c.fail("monitor", "not-owner-changed-state/"+cs.Fn, fmt.Sprintf("%s by %x (owner %x, recipient local=%v) changed state: %s", cs.Fn, cs.Caller, preOwner, cs.Dst, cells[0].String()), c05Replay(sr, hist))
			}
			if cs.Dst && sr.Res.Status == 0 {
				c.fail("monitor", "not-owner-accepted/"+cs.Fn, fmt.Sprintf("%s by %x accepted although the owner is %x", cs.Fn, cs.Caller, preOwner), c05Replay(sr, hist))
			}
			if cs.Dst {
				c.count("c03/owner/" + cs.Fn + "/not-owner-rejected")
			} else {
				c.count("c03/owner/" + cs.Fn + "/origin-side-only")
			}
		}
	case "SetUserName":
		if c03IsDNS(w, cs.Caller) {
			c.count("c03/dns/by-dns/" + statusName(sr.Res.Status))
		} else {
			if len(cells) > 0 || sr.Res.Status == 0 {
				c.fail("monitor", "not-dns-accepted/SetUserName", fmt.Sprintf("SetUserName by %x (not a DNS address) status %s", cs.Caller, statusName(sr.Res.Status)), c05Replay(sr, hist))
			}
			c.count("c03/dns/not-dns-rejected")
		}
	}
}

// ---------------------------------------------------------------------------------------------
// history-based expectation of every role list: the list each (shard, account, token) SHOULD hold according to the
// successful ESDTSetRole / ESDTUnSetRole / hand-over operations seen so far (set appends the given roles; unset removes
// one occurrence of each given role that is present, in argument order; hand-over removes / adds the create role as the
// code does).  The stored lists are compared with it after every call, and role-gated successes are judged against the
// expected list as well as the stored one — a revocation that returns Ok but leaves the role in storage is then seen.
// Baseline = the stored lists when a world is first observed.  c05Save / c05Restore carry the expectation along.
// ---------------------------------------------------------------------------------------------
type c03Expect struct {
	lists    map[string][][]byte // "shard/addr/token" -> roles
	reported map[string]string   // mismatches already reported (key -> stored list): the expectation keeps following the HISTORY
}

var c03Exp = map[*hWorld]*c03Expect{}

func c03ExpKey(shard uint32, addr, tok []byte) string {
	return fmt.Sprintf("%d/%x/%x", shard, addr, tok)
}

func (e *c03Expect) clone() *c03Expect {
	n := &c03Expect{lists: map[string][][]byte{}, reported: map[string]string{}}
	for k, v := range e.lists {
		n.lists[k] = append([][]byte(nil), v...)
	}
	for k, v := range e.reported {
		n.reported[k] = v
	}
	return n
}

func c03Baseline(pre []map[string]*hAccount) *c03Expect {
	e := &c03Expect{lists: map[string][][]byte{}, reported: map[string]string{}}
	for sh, m := range pre {
		for _, a := range m {
			for k, v := range a.storage {
				if strings.HasPrefix(k, c05R) {
					if r, err := c05DecodeRoles(v); err == nil && len(r.Roles) > 0 {
						e.lists[c03ExpKey(uint32(sh), a.addr, []byte(k[len(c05R):]))] = r.Roles
					}
				}
			}
		}
	}
	return e
}

func c03Remove1(l [][]byte, r []byte) [][]byte {
	for i, x := range l {
		if bytes.Equal(x, r) {
			return append(append([][]byte(nil), l[:i]...), l[i+1:]...)
		}
	}
	return l
}

func c03AddCreate(l [][]byte) [][]byte {
	if c03Has(l, "ESDTRoleNFTCreate") {
		return l
	}
	return append(append([][]byte(nil), l...), []byte("ESDTRoleNFTCreate"))
}

// apply: the effect a SUCCESSFUL call has on the expected lists
func (e *c03Expect) apply(w *hWorld, cs *callSpec) {
	if len(cs.Args) == 0 {
		return
	}
	tok := cs.Args[0]
	k := c03ExpKey(cs.Shard, cs.Rcpt, tok)
	switch cs.Fn {
	case "ESDTSetRole":
		e.lists[k] = append(append([][]byte(nil), e.lists[k]...), cs.Args[1:]...)
	case "ESDTUnSetRole":
		l := e.lists[k]
		for _, r := range cs.Args[1:] {
			l = c03Remove1(l, r)
		}
		e.lists[k] = l
	case "ESDTNFTCreateRoleTransfer":
		if bytes.Equal(cs.Caller, vmcommon.ESDTSCAddress) {
			e.lists[k] = c03Remove1(e.lists[k], []byte("ESDTRoleNFTCreate"))
			if len(cs.Args) >= 2 && w.shardOf(cs.Args[1]) == cs.Shard {
				k2 := c03ExpKey(cs.Shard, cs.Args[1], tok)
				e.lists[k2] = c03AddCreate(e.lists[k2])
			}
		} else {
			e.lists[k] = c03AddCreate(e.lists[k])
		}
	}
}

func c03SameList(a, b [][]byte) bool {
	if len(a) != len(b) {
		return false
	}
	for i := range a {
		if !bytes.Equal(a[i], b[i]) {
			return false
		}
	}
	return true
}

// monitor (1b): role lists follow the history of system-contract operations
func c03MonRoleHistory(c *ctx, w *hWorld, pre []map[string]*hAccount, sr *stepResult, hist []string) {
	e := c03Exp[w]
	if e == nil {
		e = c03Baseline(pre)
		c03Exp[w] = e
	}
	cs := sr.Call
	if sr.Res.Status != 0 {
		return
	}
	// role-gated success judged against the EXPECTED list (before this call)
	if req := c03Required(cs); req != nil && len(cs.Args) > 0 {
		held := e.lists[c03ExpKey(cs.Shard, cs.Caller, cs.Args[0])]
		for _, r := range req {
			if !c03Has(held, r) {
				c.fail("monitor", "role-missing-by-history/"+cs.Fn+"/"+r, fmt.Sprintf("%s succeeded although, by the history of ESDTSetRole / ESDTUnSetRole / hand-over operations, the caller's role list for token %q is %q (no %s)", cs.Fn, cs.Args[0], held, r), c05Replay(sr, hist))
				break
			}
		}
	}
	e.apply(w, cs)
	// stored lists of the executing shard == expected lists
	sh := cs.Shard
	seen := map[string]bool{}
	for _, ak := range sortedAccts(w.shards[sh].accounts) {
		a := w.shards[sh].accounts[ak]
		for _, k := range sortedKeys(a.storage) {
			if !strings.HasPrefix(k, c05R) {
				continue
			}
			ek := c03ExpKey(sh, a.addr, []byte(k[len(c05R):]))
			seen[ek] = true
			var got [][]byte
			if r, err := c05DecodeRoles(a.storage[k]); err == nil {
				got = r.Roles
			}
			if !c03SameList(got, e.lists[ek]) {
				if sig := fmt.Sprintf("%q/%q", got, e.lists[ek]); e.reported[ek] != sig {
					e.reported[ek] = sig
					c.fail("monitor", "role-list-mismatch/"+cs.Fn, fmt.Sprintf("after %s the role list of account %x for token %q is %q, the history of role operations gives %q", cs.Fn, a.addr, k[len(c05R):], got, e.lists[ek]), c05Replay(sr, hist))
				}
			}
		}
	}
	prefix := fmt.Sprintf("%d/", sh)
	for ek, l := range e.lists {
		if len(l) > 0 && !seen[ek] && strings.HasPrefix(ek, prefix) {
			if sig := fmt.Sprintf("absent/%q", l); e.reported[ek] != sig {
				e.reported[ek] = sig
				c.fail("monitor", "role-list-mismatch/"+cs.Fn, fmt.Sprintf("after %s a role list that the history gives as %q (%s) is absent from storage", cs.Fn, l, ek), c05Replay(sr, hist))
			}
		}
	}
	if cs.Fn == "ESDTSetRole" || cs.Fn == "ESDTUnSetRole" || cs.Fn == "ESDTNFTCreateRoleTransfer" {
		c.count("c03/role-history/compared-after/" + cs.Fn)
	}
}

var c03Mons = []c05Mon{c03MonRole, c03MonRoleHistory, c03MonSystem, c03MonOwner}

// ---------------------------------------------------------------------------------------------
// family 1: role matrix — every subset of the 7 roles x every gated function x placement of the list
// ---------------------------------------------------------------------------------------------
func c03RoleMatrix(c *ctx, u *universe, emitEvery int) {
	T := u.NFTs[1]  // the token every call names
	T2 := u.NFTs[0] // "a different token"
	A, B := u.U[0], u.U[1]
	meta := [][]byte{[]byte("name"), be(100), []byte("hash"), []byte("attr"), []byte("uri")}
	type gcall struct {
		fn   string
		args [][]byte
	}
	calls := []gcall{
		{"ESDTLocalMint", [][]byte{T, be(5)}},
		{"ESDTLocalBurn", [][]byte{T, be(1)}},
		{"ESDTNFTCreate", append([][]byte{T, be(1)}, meta...)},
		{"ESDTNFTCreate", append([][]byte{T, be(2)}, meta...)},
		{"ESDTNFTAddQuantity", [][]byte{T, be(1), be(1)}},
		{"ESDTNFTBurn", [][]byte{T, be(1), be(1)}},
		{"ESDTNFTAddURI", [][]byte{T, be(1), []byte("u")}},
		{"ESDTNFTUpdateAttributes", [][]byte{T, be(1), []byte("a")}},
	}
	okCount := map[string]int{}
	for mask := 0; mask < 128; mask++ {
		var subset [][]byte
		for i := 0; i < 7; i++ {
			if mask&(1<<uint(i)) != 0 {
				subset = append(subset, u.AllRoles[i])
			}
		}
		w := u.stdWorld(2, 1, distinctGas(uint64(10+mask%5), 3))
		s := &c05Scen{c: c, u: u, w: w, label: "role-matrix", mons: c03Mons, emitEvery: 0}
		// setup (not emitted): A holds T as a fungible balance and as SFT T#1
		c05Must(s.sys(A, "ESDTTransfer", T, be(1000)), "matrix issue")
		c05Must(s.sys(A, "ESDTSetRole", T, u.AllRoles[2], u.AllRoles[3]), "matrix temp roles")
		c05Must(s.tx(A, A, "ESDTNFTCreate", bigGas, append([][]byte{T, be(1000)}, meta...)...), "matrix create")
		c05Must(s.sys(A, "ESDTUnSetRole", T, u.AllRoles[2], u.AllRoles[3]), "matrix unset")
		if len(c03RolesHeld(w.shards[0].account(A), T)) != 0 {
			panic("role matrix: role list not empty after unset")
		}
		s.emitEvery = emitEvery
		runAll := func(place string) {
			for _, g := range calls {
				sr := s.tx(A, A, g.fn, bigGas, g.args...)
				c.count(fmt.Sprintf("c03/matrix/%s/%s/%s", place, g.fn, statusName(sr.Res.Status)))
				if sr.Res.Status == 0 {
					okCount[g.fn]++
				}
				if place != "same-token" && sr.Res.Status == 0 {
					c.fail("monitor", "role-missing/"+g.fn+"/"+place, g.fn+" succeeded with the role list placed as: "+place, c05Replay(sr, s.hist))
				}
			}
		}
		if mask%16 == 0 {
			runAll("no-list")
		}
		if len(subset) == 0 {
			continue
		}
		// the subset for THAT token
		s.emitEvery = 0
		c05Must(s.sys(A, "ESDTSetRole", append([][]byte{T}, subset...)...), "matrix set same")
		s.emitEvery = emitEvery
		runAll("same-token")
		s.emitEvery = 0
		c05Must(s.sys(A, "ESDTUnSetRole", append([][]byte{T}, subset...)...), "matrix unset same")
		// the same subset, but only for a different token
		c05Must(s.sys(A, "ESDTSetRole", append([][]byte{T2}, subset...)...), "matrix set other token")
		s.emitEvery = emitEvery
		runAll("other-token")
		s.emitEvery = 0
		c05Must(s.sys(A, "ESDTUnSetRole", append([][]byte{T2}, subset...)...), "matrix unset other token")
		// the subset for that token, but held by another account
		c05Must(s.sys(B, "ESDTSetRole", append([][]byte{T}, subset...)...), "matrix set other account")
		s.emitEvery = emitEvery
		runAll("other-account")
	}
	for _, g := range calls {
		if okCount[g.fn] == 0 {
			c.fail("harness", "setup/role-matrix-vacuous/"+g.fn, "the role matrix never saw a successful "+g.fn, nil)
		}
	}
}

// ---------------------------------------------------------------------------------------------
// family 1b: ESDTNFTCreate quantities around the "> 1" boundary AS BIG INTEGERS (an argument longer than 8 bytes whose
// low 64 bits are 0 or 1 must still need the AddQuantity role), for callers that hold NFTCreate with / without
// NFTAddQuantity (incl. AddQuantity only for a different token, or held by another account)
// ---------------------------------------------------------------------------------------------
func c03CreateQuantities(c *ctx, u *universe, emitEvery int) {
	T, T2 := u.NFTs[1], u.NFTs[0]
	A, B := u.U[0], u.U[1]
	meta := [][]byte{[]byte("name"), be(100), []byte("hash"), []byte("attr"), []byte("uri")}
	pow := func(n uint) *big.Int { return new(big.Int).Lsh(big.NewInt(1), n) }
	plus1 := func(x *big.Int) *big.Int { return new(big.Int).Add(x, big.NewInt(1)) }
	hundred := bytes.Repeat([]byte{0x7f}, 100)
	hundredLow1 := append(append([]byte{0x01}, make([]byte, 98)...), 0x01) // 100 bytes, low 64 bits = 1
	qs := [][]byte{nil, {0}, be(1), {0, 0, 1}, be(2), be(3), be(1<<64 - 1), pow(64).Bytes(), plus1(pow(64)).Bytes(), new(big.Int).Add(pow(64), big.NewInt(2)).Bytes(),
		pow(128).Bytes(), plus1(pow(128)).Bytes(), plus1(pow(72)).Bytes(), hundred, hundredLow1, append([]byte{0}, plus1(pow(64)).Bytes()...)}
	create, addq := u.AllRoles[2], u.AllRoles[3]
	var allButAdd [][]byte
	for _, r := range u.AllRoles {
		if !bytes.Equal(r, addq) {
			allButAdd = append(allButAdd, r)
		}
	}
	type setup struct {
		name  string
		roles func(s *c05Scen)
		both  bool // the caller holds both roles for T: every positive quantity is allowed
	}
	setups := []setup{
		{"create-only", func(s *c05Scen) { c05Must(s.sys(A, "ESDTSetRole", T, create), "q roles") }, false},
		{"all-but-addquantity", func(s *c05Scen) { c05Must(s.sys(A, "ESDTSetRole", append([][]byte{T}, allButAdd...)...), "q roles") }, false},
		{"addquantity-for-other-token", func(s *c05Scen) {
			c05Must(s.sys(A, "ESDTSetRole", T, create), "q roles")
			c05Must(s.sys(A, "ESDTSetRole", append([][]byte{T2}, u.AllRoles...)...), "q roles")
		}, false},
		{"addquantity-at-other-account", func(s *c05Scen) {
			c05Must(s.sys(A, "ESDTSetRole", T, create), "q roles")
			c05Must(s.sys(B, "ESDTSetRole", T, addq, create), "q roles")
		}, false},
		{"addquantity-only", func(s *c05Scen) { c05Must(s.sys(A, "ESDTSetRole", T, addq), "q roles") }, false},
		{"create-and-addquantity", func(s *c05Scen) { c05Must(s.sys(A, "ESDTSetRole", T, create, addq), "q roles") }, true},
	}
	one := big.NewInt(1)
	okBig, okOne := 0, 0
	for si, su := range setups {
		w := u.stdWorld(2, 1, distinctGas(uint64(11+si), 3))
		s := &c05Scen{c: c, u: u, w: w, label: "create-quantity", mons: c03Mons, emitEvery: 0}
		su.roles(s)
		s.emitEvery = emitEvery
		for _, q := range qs {
			sr := s.tx(A, A, "ESDTNFTCreate", bigGas, append([][]byte{T, q}, meta...)...)
			z := new(big.Int).SetBytes(q)
			class := "q<=0"
			switch {
			case z.Cmp(one) == 0:
				class = "q=1"
			case z.Cmp(one) > 0 && z.BitLen() > 64:
				class = "q>1-beyond-64-bits"
			case z.Cmp(one) > 0:
				class = "q>1"
			}
			c.count(fmt.Sprintf("c03/create-quantity/%s/%s/%s", su.name, class, statusName(sr.Res.Status)))
			if sr.Res.Status == 0 && z.Cmp(one) > 0 && !su.both {
				c.fail("monitor", "role-missing/ESDTNFTCreate/ESDTRoleNFTAddQuantity", fmt.Sprintf("ESDTNFTCreate with quantity %s (> 1) succeeded for a caller without ESDTRoleNFTAddQuantity for the token (%s)", z, su.name), c05Replay(sr, s.hist))
			}
			if sr.Res.Status == 0 && su.both && z.Cmp(one) > 0 {
				okBig++
			}
			if sr.Res.Status == 0 && z.Cmp(one) == 0 {
				okOne++
			}
		}
	}
	if okBig == 0 || okOne == 0 {
		c.fail("harness", "setup/create-quantity-vacuous", "the create-quantity family never saw a successful create (quantity 1 / quantity > 1 with both roles)", nil)
	}
}

// ---------------------------------------------------------------------------------------------
// family 1c: histories of multi-role sets and unsets in every order: not-held roles before / after / between held
// ones, duplicates in the argument list and in the stored list, unknown and empty role names, unset of all roles (the
// entry must disappear), each followed by every gated call (a revoked role must stop working)
// ---------------------------------------------------------------------------------------------
func c03RoleHistories(c *ctx, u *universe, emitEvery int, random int) {
	T, T2 := u.NFTs[1], u.NFTs[0]
	A := u.U[0]
	meta := [][]byte{[]byte("name"), be(100), []byte("hash"), []byte("attr"), []byte("uri")}
	gated := []struct {
		fn   string
		args [][]byte
	}{
		{"ESDTLocalMint", [][]byte{T, be(5)}},
		{"ESDTLocalBurn", [][]byte{T, be(1)}},
		{"ESDTNFTCreate", append([][]byte{T, be(1)}, meta...)},
		{"ESDTNFTCreate", append([][]byte{T, be(2)}, meta...)},
		{"ESDTNFTAddQuantity", [][]byte{T, be(1), be(1)}},
		{"ESDTNFTBurn", [][]byte{T, be(1), be(1)}},
		{"ESDTNFTAddURI", [][]byte{T, be(1), []byte("u")}},
		{"ESDTNFTUpdateAttributes", [][]byte{T, be(1), []byte("a")}},
	}
	names := append(append([][]byte{}, u.AllRoles...), []byte("ESDTRoleBogus"), nil, []byte("ESDTRoleNFTCreat"))
	newScen := func(seed int) *c05Scen {
		w := u.stdWorld(2, 1, distinctGas(uint64(10+seed%7), 3))
		s := &c05Scen{c: c, u: u, w: w, label: "role-history", mons: c03Mons, emitEvery: 0}
		c05Must(s.sys(A, "ESDTTransfer", T, be(100000)), "history issue")
		c05Must(s.sys(A, "ESDTSetRole", T, u.AllRoles[2], u.AllRoles[3]), "history temp roles")
		c05Must(s.tx(A, A, "ESDTNFTCreate", bigGas, append([][]byte{T, be(100000)}, meta...)...), "history create")
		c05Must(s.sys(A, "ESDTUnSetRole", T, u.AllRoles[3], u.AllRoles[2]), "history unset")
		s.emitEvery = emitEvery
		return s
	}
	probe := func(s *c05Scen) {
		for _, g := range gated {
			sr := s.tx(A, A, g.fn, bigGas, g.args...)
			c.count("c03/role-history/gated-call/" + statusName(sr.Res.Status))
		}
	}
	stored := func(s *c05Scen) [][]byte { return c03RolesHeld(s.w.shards[0].account(A), T) }
	set := func(s *c05Scen, tok []byte, rs ...[]byte) { s.sys(A, "ESDTSetRole", append([][]byte{tok}, rs...)...) }
	unset := func(s *c05Scen, tok []byte, rs ...[]byte) { s.sys(A, "ESDTUnSetRole", append([][]byte{tok}, rs...)...) }
	R := u.AllRoles
	bogus := []byte("ESDTRoleBogus")
	// structured: for every ordered pair of held roles (h1, h2) and a not-held role n
	for i := 0; i < 7; i++ {
		for j := 0; j < 7; j++ {
			if i == j {
				continue
			}
			h1, h2, n := R[i], R[j], R[(j+1+(i+6)%5)%7]
			if bytes.Equal(n, h1) || bytes.Equal(n, h2) {
				n = bogus
			}
			s := newScen(i*7 + j)
			set(s, T, h1, h2)
			probe(s)
			unset(s, T, n, h2) // a not-held role BEFORE a held one
			probe(s)
			unset(s, T, h1, n) // ... and AFTER a held one: the list is empty now
			if len(stored(s)) != 0 {
				c.count("c03/role-history/entry-left-after-unset-all")
			}
			probe(s)
			set(s, T, h2, h1, h2) // duplicate in the argument list
			unset(s, T, bogus, nil, h2, n, h1)
			probe(s) // one h2 is left
			unset(s, T, h2, h2)
			probe(s)
			set(s, T2, h1, h2) // the same roles for another token do not count
			probe(s)
		}
	}
	// all seven set, then removed in several orders with strangers interleaved, then unset of everything at once
	for variant := 0; variant < 6; variant++ {
		s := newScen(variant)
		set(s, T, R...)
		probe(s)
		switch variant {
		case 0:
			unset(s, T, bogus, R[6], R[5], R[4], R[3], R[2], R[1], R[0])
		case 1:
			unset(s, T, R[0], bogus, R[1], nil, R[2], bogus, R[3], R[4], R[5], R[6])
		case 2:
			unset(s, T, R[3], R[3], R[2]) // the second R[3] is not held any more when its turn comes
			probe(s)
			unset(s, T, R[0], R[1], R[4], R[5], R[6])
		case 3:
			for k := 0; k < 7; k++ {
				unset(s, T, bogus, R[k])
				probe(s)
			}
		case 4:
			unset(s, T2, R...) // another token: nothing may change for T
			probe(s)
			unset(s, T, R...)
		case 5:
			unset(s, T, append(append([][]byte{}, R...), R...)...)
		}
		probe(s)
		if len(stored(s)) != 0 {
			c.fail("monitor", "role-list-mismatch/ESDTUnSetRole", fmt.Sprintf("every role was unset but the entry still holds %q", stored(s)), c05Replay(s.last, s.hist))
		}
		if _, ok := s.w.shards[0].account(A).storage[c05R+string(T)]; ok {
			c.fail("monitor", "role-list-mismatch/ESDTUnSetRole", "every role was unset but the role entry did not disappear", c05Replay(s.last, s.hist))
		}
	}
	// random histories of sets / unsets with 1-4 role names each (duplicates, strangers, empty names), gated calls in between
	for h := 0; h < random; h++ {
		s := newScen(h)
		for k := 0; k < 10; k++ {
			var rs [][]byte
			for n := 1 + c.rng.Intn(4); n > 0; n-- {
				if c.rng.Intn(4) == 0 {
					rs = append(rs, names[c.rng.Intn(len(names))])
				} else {
					rs = append(rs, R[c.rng.Intn(7)])
				}
			}
			tok := T
			if c.rng.Intn(6) == 0 {
				tok = T2
			}
			if c.rng.Intn(5) < 2 {
				set(s, tok, rs...)
			} else {
				unset(s, tok, rs...)
			}
			if c.rng.Intn(2) == 0 {
				probe(s)
			}
		}
		probe(s)
	}
}

// ---------------------------------------------------------------------------------------------
// family 2: system-only functions with every caller identity and presence pattern
// ---------------------------------------------------------------------------------------------
func c03SystemOnly(c *ctx, u *universe, emitEvery int) {
	w := u.stdWorld(2, 0, distinctGas(14, 2))
	u.populate(w)
	s := &c05Scen{c: c, u: u, w: w, label: "system-only", mons: c03Mons, emitEvery: 0}
	F, G, N := u.Fung[0], u.Fung[1], u.NFTs[0]
	A, B := u.U[0], u.U[1]
	c05Must(s.sys(B, "ESDTFreeze", F), "freeze B")
	c05Must(s.sysOn(0, u.SYS, "ESDTPause", G), "pause G")
	base := c05Save(w)
	s.emitEvery = emitEvery
	type target struct {
		fn   string
		rcpt []byte
		args [][]byte
	}
	targets := []target{
		{"ESDTSetRole", B, [][]byte{N, u.AllRoles[4]}},
		{"ESDTUnSetRole", A, [][]byte{N, u.AllRoles[2]}},
		{"ESDTFreeze", A, [][]byte{F}},
		{"ESDTUnFreeze", B, [][]byte{F}},
		{"ESDTWipe", B, [][]byte{F}},
		{"ESDTPause", u.SYS, [][]byte{F}},
		{"ESDTUnPause", u.SYS, [][]byte{G}},
		{"ESDTNFTCreateRoleTransfer", A, [][]byte{N, B}},      // current-owner shape
		{"ESDTNFTCreateRoleTransfer", B, [][]byte{N, be(9)}},  // next-owner shape
		{"ESDTNFTCreateRoleTransfer", A, [][]byte{N, u.U[2]}}, // current-owner shape, new owner on another shard
		{"ESDTNFTCreateRoleTransfer", A, [][]byte{N, be(0)}},  // next-owner shape resetting the counter of the holder
	}
	callers := []struct {
		name string
		addr []byte
	}{{"user-holder", A}, {"user-other", B}, {"user-other-shard", u.U[3]}, {"contract", u.K[0]}, {"dns", u.DNS}, {"system-account", u.SYS},
		{"meta-user", u.MetaUser}, {"esdt-sc", u.SC}, {"esdt-sc-lookalike", append(append([]byte{}, u.SC[:31]...), 0xfe)}}
	for _, t := range targets {
		for _, cl := range append(callers, struct {
			name string
			addr []byte
		}{"recipient-itself", t.rcpt}) {
			for pat := 0; pat < 4; pat++ {
				for variant := 0; variant < 3; variant++ {
					cs := &callSpec{Shard: 0, Fn: t.fn, Caller: cl.addr, Rcpt: t.rcpt, Args: t.args, Value: big.NewInt(0), Gas: bigGas,
						Snd: pat&1 != 0, Dst: pat&2 != 0, FailAt: -1}
					switch variant {
					case 1:
						cs.RAE, cs.CallType = true, vmcommon.AsynchronousCallBack
					case 2:
						cs.CallType, cs.Gas = vmcommon.ESDTTransferAndExecute, 0
					}
					pre := c05StateDigest(shardMaps(w, false))
					sr := s.call(cs)
					isSC := bytes.Equal(cl.addr, u.SC)
					shape := t.fn == "ESDTNFTCreateRoleTransfer" && !cs.Snd && cs.Dst && !isSC
					c.count(fmt.Sprintf("c03/sysonly/%s/%s/%s", t.fn, cl.name, statusName(sr.Res.Status)))
					if !isSC && !shape {
						if sr.Res.Status == 0 {
							c.fail("monitor", "system-only/"+t.fn+"/accepted-non-system-caller", fmt.Sprintf("%s accepted from caller %s (snd=%v dst=%v)", t.fn, cl.name, cs.Snd, cs.Dst), c05Replay(sr, s.hist))
						}
						if post := c05StateDigest(shardMaps(w, false)); post != pre {
							c.fail("monitor", "system-only/"+t.fn+"/state-changed", fmt.Sprintf("%s from caller %s changed the world", t.fn, cl.name), c05Replay(sr, s.hist))
						}
					}
					if shape {
						c.count("c03/sysonly/handover-shape/" + statusName(sr.Res.Status))
					}
					if isSC && cs.Dst && !cs.Snd && variant == 0 {
						c.count("c03/sysonly/control-by-system-contract/" + t.fn + "/" + statusName(sr.Res.Status))
					}
					if sr.Res.Status == 0 {
						c05Restore(w, base)
					}
				}
			}
		}
	}
	// the genuine hand-over: system contract at the current owner, message delivered on the other shard
	c05Restore(w, base)
	s.label = "handover"
	c05Must(s.sys(A, "ESDTNFTCreateRoleTransfer", N, u.U[3]), "handover origin")
	if s.deliverAll() != 1 {
		panic("handover: expected one delivery")
	}
	if !c03Has(c03RolesHeld(w.shards[1].account(u.U[3]), N), "ESDTRoleNFTCreate") || c03Has(c03RolesHeld(w.shards[0].account(A), N), "ESDTRoleNFTCreate") {
		c.fail("harness", "setup/handover", "the delivered hand-over did not move the create role", nil)
	}
	meta := [][]byte{[]byte("name"), be(100), []byte("hash"), []byte("attr"), []byte("uri")}
	s.tx(A, A, "ESDTNFTCreate", bigGas, append([][]byte{N, be(1)}, meta...)...)           // old holder: rejected
	s.tx(u.U[3], u.U[3], "ESDTNFTCreate", bigGas, append([][]byte{N, be(1)}, meta...)...) // new holder: accepted
}

// ---------------------------------------------------------------------------------------------
// family 3: owner-only and DNS-only functions
// ---------------------------------------------------------------------------------------------
func c03OwnerDNS(c *ctx, u *universe, emitEvery int, enableChange bool) {
	w := u.stdWorld(2, 1, distinctGas(16, 3))
	dns2 := userAddr(0xd1)
	k2 := scAddr(0x33)
	w.shardTab[string(dns2)] = 1
	w.shardTab[string(k2)] = 0
	w.dns = append(w.dns, dns2)
	w.enableChg = enableChange
	if err := w.build(); err != nil {
		panic(err)
	}
	u.populate(w)
	A, B := u.U[0], u.U[1]
	K0, K1 := u.K[0], u.K[1]
	set := func(addr, owner []byte, reward int64) {
		a := w.shards[w.shardOf(addr)].account(addr)
		a.SetOwnerAddress(owner)
		a.devReward = big.NewInt(reward)
	}
	set(K0, A, 500)  // owner on the same shard
	set(K1, A, 300)  // owner on another shard
	set(k2, K0, 200) // owned by a contract
	w.shards[0].account(B).SetUserName([]byte("taken.elrond"))
	base := c05Save(w)
	s := &c05Scen{c: c, u: u, w: w, label: fmt.Sprintf("owner-dns-change=%v", enableChange), mons: c03Mons, emitEvery: emitEvery}
	callers := [][]byte{A, B, u.U[2], u.U[3], K0, K1, k2, u.DNS, dns2, u.SC, u.SYS, u.MetaUser}
	targets := [][]byte{K0, K1, k2, B}
	costs := w.gasMap["BuiltInCost"]
	for _, t := range targets {
		for _, cl := range callers {
			for _, fn := range []string{"ChangeOwnerAddress", "ClaimDeveloperRewards"} {
				for variant := 0; variant < 3; variant++ {
					var args [][]byte
					if fn == "ChangeOwnerAddress" {
						args = [][]byte{B}
					}
					gas := bigGas
					if variant == 2 {
						gas = costs[fn] - 1
					}
					cs := w.mkCall(w.shardOf(cl), fn, cl, t, args, gas)
					if int(cs.Shard) >= w.nShards { // callers on the metachain: executed as a continuation on the target's shard
						cs.Shard = w.shardOf(t)
						cs.Snd, cs.Dst = false, true
					}
					if variant == 1 {
						cs.CallType = vmcommon.AsynchronousCall
						cs.Locked = 7
					}
					s.call(cs)
					s.deliverAll()
					c05Restore(w, base)
				}
			}
		}
		// every presence pattern on the target's shard, for the owner and for a stranger
		for _, cl := range [][]byte{A, B, K0} {
			for pat := 0; pat < 4; pat++ {
				for _, fn := range []string{"ChangeOwnerAddress", "ClaimDeveloperRewards"} {
					var args [][]byte
					if fn == "ChangeOwnerAddress" {
						args = [][]byte{u.U[2]}
					}
					s.call(&callSpec{Shard: w.shardOf(t), Fn: fn, Caller: cl, Rcpt: t, Args: args, Value: big.NewInt(0), Gas: bigGas, Snd: pat&1 != 0, Dst: pat&2 != 0, FailAt: -1})
					c05Restore(w, base)
				}
			}
		}
	}
	// history: the previous owner loses its rights with the change, the new owner gains them (same and cross shard)
	for _, t := range [][]byte{K0, K1} {
		s.tx(A, t, "ChangeOwnerAddress", bigGas, u.U[2])
		s.deliverAll()
		s.tx(A, t, "ClaimDeveloperRewards", bigGas)
		s.deliverAll()
		s.tx(A, t, "ChangeOwnerAddress", bigGas, A)
		s.deliverAll()
		s.tx(u.U[2], t, "ClaimDeveloperRewards", bigGas)
		s.deliverAll()
		s.tx(u.U[2], t, "ChangeOwnerAddress", bigGas, A)
		s.deliverAll()
		s.tx(u.U[2], t, "ChangeOwnerAddress", bigGas, u.U[2])
		s.deliverAll()
		s.tx(A, t, "ChangeOwnerAddress", bigGas, B[:31]) // wrong length
		s.deliverAll()
		c05Restore(w, base)
	}
	// SetUserName
	dnsLike := append(append([]byte{}, u.DNS[:31]...), u.DNS[31]^1)
	for _, cl := range [][]byte{u.DNS, dns2, A, B, K0, u.SC, u.SYS, u.MetaUser, dnsLike, u.DNS[:31]} {
		for _, t := range [][]byte{A, B, u.U[2], K0, K1, u.DNS} {
			for variant := 0; variant < 2; variant++ {
				args := [][]byte{[]byte("alice.elrond")}
				if variant == 1 {
					args = append(args, []byte("extra"))
				}
				cs := w.mkCall(w.shardOf(cl), "SetUserName", cl, t, args, bigGas)
				if int(cs.Shard) >= w.nShards {
					cs.Shard = w.shardOf(t)
					cs.Snd, cs.Dst = false, true
				}
				s.call(cs)
				s.deliverAll()
				c05Restore(w, base)
			}
		}
		for pat := 0; pat < 4; pat++ {
			for _, ct := range []vmcommon.CallType{vmcommon.DirectCall, vmcommon.AsynchronousCall, vmcommon.AsynchronousCallBack, vmcommon.ESDTTransferAndExecute} {
				s.call(&callSpec{Shard: 0, Fn: "SetUserName", Caller: cl, Rcpt: A, Args: [][]byte{[]byte("carol.elrond")}, Value: big.NewInt(0), Gas: bigGas, CallType: ct,
					Snd: pat&1 != 0, Dst: pat&2 != 0, FailAt: -1})
				c05Restore(w, base)
			}
		}
	}
}

func init() {
	runners["C03"] = func(c *ctx) {
		c.stateProj = "sp_authority" // the part of the state this property's theorems speak about
		u := newUniverse()
		wide := c.thorough() || c.widen
		runtime.GOMAXPROCS(1) // sequential run; exec reads runtime.MemStats around every call (stop-the-world)
		c.rep.Rule = "Monitors on the real built-ins after every executed call, against the deep pre-state of all shards: (1) a successful role-gated call (LocalMint, LocalBurn, NFTCreate [+AddQuantity role when quantity > 1], AddQuantity, NFTBurn, AddURI, UpdateAttributes) implies that the caller's own decoded role list under ELRONDroleesdt+token in the pre-state holds the required role(s), AND that the list EXPECTED from the history of successful ESDTSetRole / ESDTUnSetRole / hand-over operations (set appends, unset removes one occurrence of each listed role, hand-over moves the create role) holds them; after every call every stored role list of the executing shard equals the expected one (role-list-mismatch); (2) any change of a role list, a fungible entry's frozen flag, a 2-byte pause flag in the system account, a wipe, or a create counter outside the creator's own ESDTNFTCreate implies caller = ESDT SC address, or the call has the hand-over continuation shape (ESDTNFTCreateRoleTransfer with the sender account not local); (3) owner / developer reward / balance fields change only by ChangeOwnerAddress / ClaimDeveloperRewards of the recipient's current owner, the user name only by SetUserName of a configured DNS address; any other attempt changes no cell on any shard (origin-side executions without a local recipient change nothing and may emit the travelling message); rejected calls change nothing. Families: role matrix (all 128 subsets of the 7 roles x 8 gated calls x {list for that token, only for a different token, held by another account, no list}, roles installed with the real ESDTSetRole / ESDTUnSetRole); ESDTNFTCreate quantities {0, 1, 2, 3, 2^64-1, 2^64, 2^64+1, 2^64+2, 2^72+1, 2^128, 2^128+1, 100-byte values incl. low 64 bits = 1, leading zeros} x callers holding NFTCreate with / without NFTAddQuantity (also AddQuantity only for a different token or at another account), compared as big integers; role histories (multi-role sets / unsets in every order, not-held roles before / after / between held ones, duplicates, unknown and empty names, unset of everything: the entry must disappear; structured for all ordered pairs of roles plus random histories), every gated call after each step; system-only functions x 10 caller identities x 4 presence patterns x 3 call variants (must fail and leave the world digest unchanged, control: the system contract); owner / DNS enumeration (12 callers x 4 targets x call types, gas, presence patterns, same and cross shard with delivery, ownership histories, user-name change enabled and disabled); random walks with raised system / account / hostile weights. Executed calls are re-evaluated in the Coq model (status + full post-state). distinct = distinct (world state, operation)."
		c05SetExecStream(c, c05ProjState)
		e := 5
		if wide {
			e = 2
		}
		c03RoleMatrix(c, u, e)
		c03CreateQuantities(c, u, 2)
		if wide {
			c03RoleHistories(c, u, 9, 400)
		} else {
			c03RoleHistories(c, u, 9, 40)
		}
		c03SystemOnly(c, u, e-1)
		c03OwnerDNS(c, u, e, false)
		c03OwnerDNS(c, u, e*2, true)
		n, ops, prob, max := 5, 240, 2, 600
		if wide {
			n, ops, prob, max = 160, 500, 16, 5000
		}
		c.walk(u, walkOpts{Worlds: n, Ops: ops, Proj: c05ProjState, Monitors: []monitor{c05Adapt(c03Mons...)}, EmitProb: prob, MaxCases: max,
			Tune: func(g *gen) {
				g.wTransfer, g.wSupply, g.wSystem, g.wAccount, g.wDeliver, g.wHostile = 14, 30, 22, 14, 8, 12
				// the standard creator loses AddQuantity for one NFT token: the generator's create quantities (incl. 2^64-1,
				// 2^64, 100-byte values) then meet a caller with NFTCreate only
				mustOK(g.w.sys(u, u.U[0], "ESDTUnSetRole", u.NFTs[c.rng.Intn(2)], u.AllRoles[3]), "walk unset addquantity")
				for i, k := range u.K {
					a := g.w.shards[g.w.shardOf(k)].account(k)
					a.SetOwnerAddress(u.U[(2*i)%4])
					a.devReward = big.NewInt(int64(400 + 50*i))
				}
			}})
		c.rep.Extra = map[string]interface{}{"scenario_cases_emitted": c05Emitted}
	}
}
