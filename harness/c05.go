package main

// C05 — protected storage namespace (SaveKeyValue) and bounded footprint (frame) of every other built-in.
// Also holds the helpers shared by the C03 / C05 / C15 runners (deep pre-states, cell diffs, scenario driver).

import (
	"bytes"
	"fmt"
	"hash/fnv"
	"math/big"
	"runtime"
	"sort"
	"strings"

	vmcommon "github.com/ElrondNetwork/elrond-vm-common"
	"github.com/ElrondNetwork/elrond-vm-common/data/esdt"
)

// projection shared by C03 / C05 / C15: status + complete post-state of the executing shard
const c05ProjState = "{| p_gas := false; p_transfers := false; p_logs := false; p_retdata := false; p_state := true; p_deps := false |}"

// ---------------------------------------------------------------------------------------------
// shared helpers
// ---------------------------------------------------------------------------------------------

// c05Mon: a monitor that sees the deep pre-state of EVERY shard (index = shard id)
type c05Mon func(c *ctx, w *hWorld, pre []map[string]*hAccount, sr *stepResult, hist []string)

func c05Replay(sr *stepResult, hist []string) map[string]interface{} {
	return map[string]interface{}{"op": sr.Op.String(), "call": describeCall(sr.Call), "pre": digestAccounts(sr.Res.Pre), "history": histReplay(hist)}
}

// c05Adapt turns rich monitors into a ledger.go monitor: the executing shard's pre-state is the deep snapshot
// taken by exec; the other shards cannot be touched by a step, which is verified against the pre-step digest.
func c05Adapt(ms ...c05Mon) monitor {
	return func(c *ctx, w *hWorld, pre *worldSnap, sr *stepResult, hist []string) {
		full := make([]map[string]*hAccount, len(w.shards))
		for i, sh := range w.shards {
			if uint32(i) == sr.Call.Shard {
				full[i] = sr.Res.Pre
				continue
			}
			full[i] = sh.accounts
			needle := fmt.Sprintf("S%d:%s;", sh.id, digestAccounts(sh.accounts))
			if !strings.Contains(pre.Digest, needle) {
				c.fail("monitor", "frame/"+sr.Call.Fn+"/other-shard-changed", fmt.Sprintf("%s executed on shard %d changed shard %d", sr.Call.Fn, sr.Call.Shard, i), c05Replay(sr, hist))
			}
		}
		for _, m := range ms {
			m(c, w, full, sr, hist)
		}
	}
}

func c05AcctEmpty(a *hAccount) bool {
	return a == nil || (len(a.storage) == 0 && a.balance.Sign() == 0 && len(a.owner) == 0 && len(a.username) == 0 && a.devReward.Sign() == 0)
}

// c05StateDigest: canonical digest of all shards that ignores empty account objects (a call creates the
// objects of caller / recipient even when it changes nothing)
func c05StateDigest(shards []map[string]*hAccount) string {
	var sb strings.Builder
	for i, m := range shards {
		fmt.Fprintf(&sb, "S%d:", i)
		for _, k := range sortedAccts(m) {
			a := m[k]
			if c05AcctEmpty(a) {
				continue
			}
			fmt.Fprintf(&sb, "%x{bal=%s own=%x usr=%x rew=%s", k, a.balance, a.owner, a.username, a.devReward)
			for _, sk := range sortedKeys(a.storage) {
				fmt.Fprintf(&sb, " %x=%x", sk, a.storage[sk])
			}
			sb.WriteString("}")
		}
		sb.WriteString(";")
	}
	return sb.String()
}

func c05Hash(parts ...string) string {
	h := fnv.New64a()
	for _, p := range parts {
		h.Write([]byte(p))
		h.Write([]byte{0})
	}
	return fmt.Sprintf("%016x", h.Sum64())
}

// one changed cell of the world: a storage key (Field == "") or an account field
type c05Cell struct {
	Shard    uint32
	Addr     string
	Key      string
	Field    string
	Old, New []byte
}

func (x c05Cell) String() string {
	if x.Field != "" {
		return fmt.Sprintf("shard %d account %x field %s: %s -> %s", x.Shard, x.Addr, x.Field, x.Old, x.New)
	}
	return fmt.Sprintf("shard %d account %x key %q (%x): %x -> %x", x.Shard, x.Addr, x.Key, x.Key, x.Old, x.New)
}

var c05NoAcct = &hAccount{storage: map[string][]byte{}, balance: big.NewInt(0), devReward: big.NewInt(0)}

func c05Acct(m map[string]*hAccount, addr string) *hAccount {
	if a, ok := m[addr]; ok {
		return a
	}
	return c05NoAcct
}

// c05Diff lists every cell of one shard that differs between pre and post (absent account = empty account)
func c05Diff(shard uint32, pre, post map[string]*hAccount) []c05Cell {
	var out []c05Cell
	addrs := map[string]bool{}
	for k := range pre {
		addrs[k] = true
	}
	for k := range post {
		addrs[k] = true
	}
	var al []string
	for k := range addrs {
		al = append(al, k)
	}
	sort.Strings(al)
	for _, ad := range al {
		a, b := c05Acct(pre, ad), c05Acct(post, ad)
		keys := map[string]bool{}
		for k := range a.storage {
			keys[k] = true
		}
		for k := range b.storage {
			keys[k] = true
		}
		var kl []string
		for k := range keys {
			kl = append(kl, k)
		}
		sort.Strings(kl)
		for _, k := range kl {
			if !bytes.Equal(a.storage[k], b.storage[k]) {
				out = append(out, c05Cell{Shard: shard, Addr: ad, Key: k, Old: a.storage[k], New: b.storage[k]})
			}
		}
		if a.balance.Cmp(b.balance) != 0 {
			out = append(out, c05Cell{Shard: shard, Addr: ad, Field: "balance", Old: []byte(a.balance.String()), New: []byte(b.balance.String())})
		}
		if !bytes.Equal(a.owner, b.owner) {
			out = append(out, c05Cell{Shard: shard, Addr: ad, Field: "owner", Old: []byte(fmt.Sprintf("%x", a.owner)), New: []byte(fmt.Sprintf("%x", b.owner))})
		}
		if !bytes.Equal(a.username, b.username) {
			out = append(out, c05Cell{Shard: shard, Addr: ad, Field: "username", Old: []byte(fmt.Sprintf("%x", a.username)), New: []byte(fmt.Sprintf("%x", b.username))})
		}
		if a.devReward.Cmp(b.devReward) != 0 {
			out = append(out, c05Cell{Shard: shard, Addr: ad, Field: "devReward", Old: []byte(a.devReward.String()), New: []byte(b.devReward.String())})
		}
	}
	return out
}

// c05WorldDiff: changed cells over all shards
func c05WorldDiff(w *hWorld, pre []map[string]*hAccount) []c05Cell {
	var out []c05Cell
	for i, sh := range w.shards {
		if i < len(pre) {
			out = append(out, c05Diff(uint32(i), pre[i], sh.accounts)...)
		}
	}
	return out
}

func c05U64(b []byte) uint64 { return new(big.Int).SetBytes(b).Uint64() }

// production-shaped decode: Reset + Unmarshal on a fresh object
func c05DecodeToken(b []byte) (*esdt.ESDigitalToken, error) {
	t := &esdt.ESDigitalToken{}
	t.Reset()
	if err := t.Unmarshal(b); err != nil {
		return nil, err
	}
	return t, nil
}
func c05DecodeRoles(b []byte) (*esdt.ESDTRoles, error) {
	r := &esdt.ESDTRoles{}
	r.Reset()
	if err := r.Unmarshal(b); err != nil {
		return nil, err
	}
	return r, nil
}

// saved mutable part of a world (the containers stay): used to run many calls against one state
type c05Saved struct {
	shards   []map[string]*hAccount
	inflight []*hMsg
	failed   map[int]bool
	nextID   int
	roleExp  *c03Expect // C03's history-based role expectation belongs to the state of the world
}

func c05Save(w *hWorld) *c05Saved {
	s := &c05Saved{shards: shardMaps(w, true), inflight: append([]*hMsg(nil), w.inflight...), failed: map[int]bool{}, nextID: w.nextID}
	if e := c03Exp[w]; e != nil {
		s.roleExp = e.clone()
	}
	for k, v := range w.failed {
		s.failed[k] = v
	}
	return s
}
func c05Restore(w *hWorld, s *c05Saved) {
	for i, sh := range w.shards {
		m := map[string]*hAccount{}
		for k, a := range s.shards[i] {
			m[k] = a.clone()
		}
		sh.accounts = m
	}
	w.inflight = append([]*hMsg(nil), s.inflight...)
	w.failed = map[int]bool{}
	for k, v := range s.failed {
		w.failed[k] = v
	}
	w.nextID = s.nextID
	if s.roleExp != nil {
		c03Exp[w] = s.roleExp.clone()
	} else {
		delete(c03Exp, w)
	}
}

// ---- scenario driver: scripted / enumerated calls with monitors and Coq-case emission ----
var c05Emitted int // Coq exec cases emitted by scenario drivers of this run
var c05Sampled = map[string]bool{}

type c05Scen struct {
	c         *ctx
	u         *universe
	w         *hWorld
	label     string
	hist      []string
	mons      []c05Mon
	emitEvery int // emit one of every emitEvery executed calls (0 = none)
	maxCases  int // global cap on scenario-emitted cases
	n         int
	last      *stepResult
}

func c05SetExecStream(c *ctx, proj string) {
	c.header = execHeader
	c.caseType = "xcase"
	c.mismatchExpr = "xmismatches (" + proj + ") cases"
	c.perFile = 250
}

func (s *c05Scen) step(op *worldOp) *stepResult {
	c, w := s.c, s.w
	pre := shardMaps(w, true)
	sr := w.step(op)
	s.hist = append(s.hist, op.String())
	s.last = sr
	if sr.Skipped {
		c.count("op/skipped")
		return sr
	}
	c.count(fmt.Sprintf("call/%s/%s", sr.Call.Fn, statusName(sr.Res.Status)))
	c.count("family/" + s.label)
	c.note(c05Hash(c05StateDigest(pre), op.String()), true)
	for _, m := range s.mons {
		m(c, w, pre, sr, s.hist)
	}
	if !c05Sampled[s.label] && sr.Res.Status == 0 && s.emitEvery > 0 {
		c05Sampled[s.label] = true
		c.sample(map[string]string{"family": s.label, "op": op.String(), "status": "ok"})
	}
	s.n++
	if s.emitEvery > 0 && s.n%s.emitEvery == 0 && (s.maxCases == 0 || c05Emitted < s.maxCases) {
		c.addExecCase(w, sr.Call, sr.Res)
		c05Emitted++
	}
	return sr
}

func (s *c05Scen) tx(caller, rcpt []byte, fn string, gas uint64, args ...[]byte) *stepResult {
	cs := s.w.mkCall(s.w.shardOf(caller), fn, caller, rcpt, args, gas)
	if int(cs.Shard) >= s.w.nShards {
		cs.Shard = 0
		cs.Snd, cs.Dst = false, s.w.shardOf(rcpt) == 0
	}
	return s.step(&worldOp{Kind: opTx, Call: cs})
}

// sys: system-contract call executed on the recipient's shard (pause functions: shard given by sysOn)
func (s *c05Scen) sys(rcpt []byte, fn string, args ...[]byte) *stepResult {
	sh := s.w.shardOf(rcpt)
	if int(sh) >= s.w.nShards {
		sh = 0
	}
	return s.sysOn(sh, rcpt, fn, args...)
}
func (s *c05Scen) sysOn(shard uint32, rcpt []byte, fn string, args ...[]byte) *stepResult {
	w := s.w
	cs := &callSpec{Shard: shard, Fn: fn, Caller: s.u.SC, Rcpt: rcpt, Args: args, Value: big.NewInt(0), Gas: 0, Snd: false,
		Dst: w.shardOf(rcpt) == shard || fn == "ESDTPause" || fn == "ESDTUnPause", FailAt: -1}
	return s.step(&worldOp{Kind: opSys, Call: cs})
}
func (s *c05Scen) call(cs *callSpec) *stepResult { return s.step(&worldOp{Kind: opTx, Call: cs}) }

// deliverAll delivers every in-flight message once (failed ones are refunded); returns the number of executions
func (s *c05Scen) deliverAll() int {
	n := 0
	for round := 0; round < 4 && len(s.w.inflight) > 0; round++ {
		ids := []int{}
		for _, m := range s.w.inflight {
			ids = append(ids, m.ID)
		}
		progress := false
		for _, id := range ids {
			m := s.w.findMsg(id)
			if m == nil {
				continue
			}
			var sr *stepResult
			if s.w.failed[id] {
				sr = s.step(&worldOp{Kind: opRefund, ID: id, Gas: m.GasLimit})
			} else {
				sr = s.step(&worldOp{Kind: opDeliver, ID: id, Gas: m.GasLimit})
			}
			if !sr.Skipped {
				n++
				progress = true
			}
		}
		if !progress {
			break
		}
	}
	return n
}

func c05OK(sr *stepResult) bool {
	return sr != nil && !sr.Skipped && sr.Res != nil && sr.Res.Status == 0
}

func c05Must(sr *stepResult, what string) {
	if !c05OK(sr) {
		msg := what + ": scenario setup step failed"
		if sr != nil && sr.Res != nil {
			msg += ": " + sr.Res.PanicMsg
			if sr.Res.Err != nil {
				msg += sr.Res.Err.Error()
			}
		}
		panic(msg)
	}
}

// ---------------------------------------------------------------------------------------------
// C05 monitors
// ---------------------------------------------------------------------------------------------

var c05Protected = []byte(vmcommon.ElrondProtectedKeyPrefix) // "ELROND" (pinned on the Coq side)

// c05IsContract: INDEPENDENT oracle for "the address is a contract address", written from the documented address layout
// (address.go on the unchanged tree): longer than the 10-byte contract identifier, and either the all-zero address or
// the first 8 bytes (identifier minus the 2 VM-type bytes) zero.  The VM-type bytes 8, 9 are NOT part of the test:
// production contracts carry 05 00 there.  Never calls vmcommon.IsSmartContractAddress.
func c05IsContract(a []byte) bool {
	const idLen, vmTypeLen = 10, 2
	if len(a) <= idLen {
		return false
	}
	for _, b := range a[:idLen-vmTypeLen] {
		if b != 0 {
			return false
		}
	}
	return true // covers the all-zero address as well
}

const (
	c05P  = "ELRONDesdt"
	c05R  = "ELRONDroleesdt"
	c05NP = "ELRONDnonce"
)

// monitor 1: SaveKeyValue — namespace, acceptance conditions, exact effect
func c05MonSaveKV(c *ctx, w *hWorld, pre []map[string]*hAccount, sr *stepResult, hist []string) {
	cs := sr.Call
	if cs.Fn != "SaveKeyValue" {
		return
	}
	cells := c05WorldDiff(w, pre)
	// (a) never creates / changes / deletes a protected key, in any account of any shard, whatever the outcome
	for _, x := range cells {
		if x.Field == "" && strings.HasPrefix(x.Key, string(c05Protected)) {
			c.fail("monitor", "protected-key-written/SaveKeyValue", "SaveKeyValue changed a protected key: "+x.String(), c05Replay(sr, hist))
		}
	}
	if sr.Res.Status != 0 {
		if len(cells) > 0 {
			c.fail("monitor", "rejected-call-changed-state/SaveKeyValue", "rejected SaveKeyValue left a change: "+cells[0].String(), c05Replay(sr, hist))
		}
		c.count("c05/savekv/rejected")
		return
	}
	// (b) accepted only when a non-contract account writes to itself (and the argument list is a list of pairs without a protected key)
	reason := ""
	switch {
	case !bytes.Equal(cs.Caller, cs.Rcpt):
		reason = "caller != recipient"
	case c05IsContract(cs.Caller):
		reason = "caller is a contract address"
	case !cs.Snd:
		reason = "caller account not local"
	case len(cs.Args) < 2 || len(cs.Args)%2 != 0:
		reason = "argument list is not a non-empty list of pairs"
	}
	for i := 0; reason == "" && i+1 < len(cs.Args); i += 2 {
		if bytes.HasPrefix(cs.Args[i], c05Protected) {
			reason = fmt.Sprintf("pair %d has the protected key %q", i/2, cs.Args[i])
		}
	}
	if reason != "" {
		c.fail("monitor", "accepted-but-not-allowed/SaveKeyValue", "SaveKeyValue accepted although "+reason, c05Replay(sr, hist))
		return
	}
	// (c) writes exactly the listed pairs: later pair wins, empty value deletes; nothing else in the world changes
	want := map[string][]byte{}
	for k, v := range c05Acct(pre[cs.Shard], string(cs.Caller)).storage {
		want[k] = v
	}
	for i := 0; i+1 < len(cs.Args); i += 2 {
		if len(cs.Args[i+1]) == 0 {
			delete(want, string(cs.Args[i]))
		} else {
			want[string(cs.Args[i])] = cs.Args[i+1]
		}
	}
	got := c05Acct(w.shards[cs.Shard].accounts, string(cs.Caller)).storage
	okExact := len(want) == len(got)
	for k, v := range want {
		if !bytes.Equal(got[k], v) {
			okExact = false
		}
	}
	if !okExact {
		c.fail("monitor", "wrong-effect/SaveKeyValue", "storage of the caller after SaveKeyValue is not the fold of the listed pairs", c05Replay(sr, hist))
	}
	for _, x := range cells {
		if x.Field != "" || x.Shard != cs.Shard || x.Addr != string(cs.Caller) {
			c.fail("monitor", "frame/SaveKeyValue", "SaveKeyValue changed something outside the caller's storage: "+x.String(), c05Replay(sr, hist))
		}
	}
	c.count("c05/savekv/accepted")
}

// c05Named: the (token, nonce) pairs with nonce > 0 that the origin side of a call names (F4b classification)
type c05TokNonce struct {
	tok   []byte
	nonce uint64
}

func c05NamedNFTs(cs *callSpec) []c05TokNonce {
	a := cs.Args
	var out []c05TokNonce
	switch cs.Fn {
	case "ESDTNFTAddQuantity", "ESDTNFTBurn", "ESDTNFTAddURI", "ESDTNFTUpdateAttributes":
		if len(a) >= 2 {
			out = append(out, c05TokNonce{a[0], c05U64(a[1])})
		}
	case "ESDTNFTTransfer":
		if bytes.Equal(cs.Caller, cs.Rcpt) && len(a) >= 2 {
			out = append(out, c05TokNonce{a[0], c05U64(a[1])})
		}
	case "MultiESDTNFTTransfer":
		if bytes.Equal(cs.Caller, cs.Rcpt) {
			for i := 2; i+2 < len(a); i += 3 {
				out = append(out, c05TokNonce{a[i], c05U64(a[i+1])})
			}
		}
	}
	return out
}

type c05Slot struct{ addr, key, field string }

// c05Footprint: the cells of the executing shard that a call may change, computed from the call's own
// arguments (and, for ESDTNFTCreate, the caller's counter in the pre-state): keys ELRONDesdt+tok+nonce,
// ELRONDroleesdt+tok, ELRONDnonce+tok of the tokens named in the input, in the caller, the recipient, the
// address argument of NFT / multi transfer / create-role hand-over, or the shard's system account;
// account-level functions: owner / user name / developer reward / balance of caller or recipient.
func c05Footprint(w *hWorld, cs *callSpec, pre map[string]*hAccount) func(x c05Cell) bool {
	set := map[c05Slot]bool{}
	addK := func(addr []byte, key string) { set[c05Slot{string(addr), key, ""}] = true }
	// an address ARGUMENT names an account of this shard only when the address lives here (otherwise the function must
	// leave it to the travelling message)
	addArgK := func(addr []byte, key string) {
		if w.shardOf(addr) == cs.Shard {
			addK(addr, key)
		}
	}
	addF := func(addr []byte, field string) { set[c05Slot{string(addr), "", field}] = true }
	a := cs.Args
	caller, rcpt := cs.Caller, cs.Rcpt
	origin := bytes.Equal(caller, rcpt)
	nk := func(tok []byte, nonce uint64) string { return c05P + string(tok) + string(be(nonce)) }
	payloadNonce := func(b []byte) (uint64, bool) {
		t, err := c05DecodeToken(b)
		if err != nil {
			return 0, false
		}
		if t.TokenMetaData == nil {
			return 0, true
		}
		return t.TokenMetaData.Nonce, true
	}
	switch cs.Fn {
	case "ESDTTransfer":
		if len(a) >= 1 {
			addK(caller, c05P+string(a[0]))
			addK(rcpt, c05P+string(a[0]))
		}
	case "ESDTBurn", "ESDTLocalMint", "ESDTLocalBurn":
		if len(a) >= 1 {
			addK(caller, c05P+string(a[0]))
		}
	case "ESDTFreeze", "ESDTUnFreeze", "ESDTWipe":
		if len(a) >= 1 {
			addK(rcpt, c05P+string(a[0]))
		}
	case "ESDTPause", "ESDTUnPause":
		if len(a) >= 1 {
			addK(vmcommon.SystemAccountAddress, c05P+string(a[0]))
		}
	case "ESDTSetRole", "ESDTUnSetRole":
		if len(a) >= 1 {
			addK(rcpt, c05R+string(a[0]))
		}
	case "ESDTNFTCreate":
		if len(a) >= 1 {
			counter := c05U64(c05Acct(pre, string(caller)).storage[c05NP+string(a[0])])
			addK(caller, c05NP+string(a[0]))
			addK(caller, nk(a[0], counter+1))
		}
	case "ESDTNFTAddQuantity", "ESDTNFTBurn", "ESDTNFTAddURI", "ESDTNFTUpdateAttributes":
		if len(a) >= 2 {
			addK(caller, nk(a[0], c05U64(a[1])))
		}
	case "ESDTNFTTransfer":
		if len(a) >= 4 {
			if origin {
				addK(caller, nk(a[0], c05U64(a[1])))
				addArgK(a[3], nk(a[0], c05U64(a[1])))
			} else {
				addK(rcpt, nk(a[0], c05U64(a[1])))
				if n, ok := payloadNonce(a[3]); ok {
					addK(rcpt, nk(a[0], n))
				}
			}
		}
	case "MultiESDTNFTTransfer":
		if origin {
			for i := 2; i+2 < len(a); i += 3 {
				addK(caller, nk(a[i], c05U64(a[i+1])))
				addArgK(a[0], nk(a[i], c05U64(a[i+1])))
			}
		} else {
			for i := 1; i+2 < len(a); i += 3 {
				addK(rcpt, nk(a[i], c05U64(a[i+1])))
				if c05U64(a[i+1]) > 0 {
					if n, ok := payloadNonce(a[i+2]); ok {
						addK(rcpt, nk(a[i], n))
					}
				}
			}
		}
	case "ESDTNFTCreateRoleTransfer":
		if len(a) >= 1 {
			addK(rcpt, c05NP+string(a[0]))
			addK(rcpt, c05R+string(a[0]))
			if bytes.Equal(caller, vmcommon.ESDTSCAddress) && len(a) >= 2 {
				addArgK(a[1], c05NP+string(a[0]))
				addArgK(a[1], c05R+string(a[0]))
			}
		}
	case "ChangeOwnerAddress":
		addF(rcpt, "owner")
	case "ClaimDeveloperRewards":
		addF(rcpt, "devReward")
		addF(caller, "balance")
	case "SetUserName":
		addF(rcpt, "username")
	case "SaveKeyValue":
		for i := 0; i+1 < len(a); i += 2 {
			if !bytes.HasPrefix(a[i], c05Protected) {
				addK(caller, string(a[i]))
			}
		}
	}
	return func(x c05Cell) bool { return set[c05Slot{x.Addr, x.Key, x.Field}] }
}

// c05IsF4b: the changed key is ELRONDesdt+tok+be(m) where m is the METADATA nonce of the entry the caller holds
// under tok‖be(requested nonce) and m differs from the requested nonce (DESIGN section 7, F4b)
func c05IsF4b(cs *callSpec, pre map[string]*hAccount, x c05Cell) bool {
	if x.Field != "" {
		return false
	}
	for _, tn := range c05NamedNFTs(cs) {
		if tn.nonce == 0 {
			continue
		}
		raw, ok := c05Acct(pre, string(cs.Caller)).storage[c05P+string(tn.tok)+string(be(tn.nonce))]
		if !ok {
			continue
		}
		t, err := c05DecodeToken(raw)
		if err != nil || t.TokenMetaData == nil {
			continue
		}
		m := t.TokenMetaData.Nonce
		if m != tn.nonce && x.Key == c05P+string(tn.tok)+string(be(m)) {
			return true
		}
	}
	return false
}

// monitor 2: frame — every changed cell of the world lies inside the call's footprint
func c05MonFrame(c *ctx, w *hWorld, pre []map[string]*hAccount, sr *stepResult, hist []string) {
	cs := sr.Call
	cells := c05WorldDiff(w, pre)
	if sr.Res.Status != 0 {
		if len(cells) > 0 {
			c.fail("monitor", "rejected-call-changed-state/"+cs.Fn, "a rejected call left a change: "+cells[0].String(), c05Replay(sr, hist))
		}
		return
	}
	if len(cells) == 0 {
		c.count("c05/frame/no-change")
		return
	}
	inFoot := c05Footprint(w, cs, pre[cs.Shard])
	c.count("c05/frame/checked-calls")
	for _, x := range cells {
		c.count("c05/frame/changed-cells")
		if x.Shard != cs.Shard {
			c.fail("monitor", "frame/"+cs.Fn+"/other-shard", cs.Fn+" changed a shard it did not execute on: "+x.String(), c05Replay(sr, hist))
			continue
		}
		// an account object appearing / changing on a shard where its address does not live (the system account exists on
		// every shard; a caller / recipient whose presence the call itself asserts is that call's own business)
		if x.Addr != string(vmcommon.SystemAccountAddress) && w.shardOf([]byte(x.Addr)) != x.Shard &&
			!(x.Addr == string(cs.Caller) && cs.Snd) && !(x.Addr == string(cs.Rcpt) && cs.Dst) {
			c.fail("monitor", "frame/"+cs.Fn+"/foreign-account", cs.Fn+" changed an account whose address does not live on the executing shard: "+x.String(), c05Replay(sr, hist))
			continue
		}
		if inFoot(x) {
			continue
		}
		if c05IsF4b(cs, pre[cs.Shard], x) {
			c.count("c05/frame/F4b-alias")
			c.fail("monitor", "F4b-alias-metadata-nonce", cs.Fn+": write landed under the metadata nonce key, outside the named (token, nonce): "+x.String(), c05Replay(sr, hist))
			continue
		}
		class := "storage-key"
		if x.Field != "" {
			class = "field-" + x.Field
		}
		c.fail("monitor", "frame/"+cs.Fn+"/"+class, cs.Fn+" changed a cell outside its footprint: "+x.String(), c05Replay(sr, hist))
	}
}

// ---------------------------------------------------------------------------------------------
// C05 scenario families
// ---------------------------------------------------------------------------------------------

// c05KeyPool: keys of every length 0..12 in every prefix relation to "ELROND", case variants, live protocol keys
func c05KeyPool() [][]byte {
	var keys [][]byte
	seen := map[string]bool{}
	add := func(k []byte) {
		if !seen[string(k)] {
			seen[string(k)] = true
			keys = append(keys, append([]byte{}, k...))
		}
	}
	bases := []string{
		"ELRONDxyzuvw0", // proper prefixes of ELROND, ELROND itself, ELROND + tail
		"elrondxyzuvw0", // lower case
		"ELROnDxyzuvw0", // one letter differs in case
		"ELRONdxyzuvw0",
		"eLRONDxyzuvw0",
		"xELRONDyzuvw0", // ELROND not at the start
		"ELRON\x00Dzuvw0",
		"ELRONDesdtTK0", // looks like a token key
		"ELRONEzzzzzz0", // differs in the last letter
		"k1k1k1k1k1k10",
	}
	for _, b := range bases {
		for l := 0; l <= 12; l++ {
			add([]byte(b[:l]))
		}
	}
	for _, k := range []string{"ELROND", "ELRONDx", "ELRON", "E", "", "elrond", "ELROnD",
		"ELRONDesdtTKA-a1b2c3", "ELRONDesdtTKB-0000ff", "ELRONDesdtSFT-445566\x01", "ELRONDesdtNFA-112233\x01",
		"ELRONDroleesdtNFA-112233", "ELRONDroleesdtTKA-a1b2c3", "ELRONDnonceNFA-112233", "ELRONDnonceSFT-445566",
		"ELRONDesdt", "ELRONDroleesdt", "ELRONDnonce", "ELRONDfresh-key", "ELROND\x00", "ELRONDELROND"} {
		add([]byte(k))
	}
	return keys
}

func c05SaveKVFamily(c *ctx, u *universe, mons []c05Mon, wide bool) {
	w := u.stdWorld(2, 1, distinctGas(20, 3))
	u.populate(w)
	s := &c05Scen{c: c, u: u, w: w, label: "savekv", mons: mons, emitEvery: 3, maxCases: 900}
	if wide {
		s.emitEvery, s.maxCases = 2, 0
	}
	// user keys that already exist in U[0] (unchanged-value and delete cases)
	c05Must(s.tx(u.U[0], u.U[0], "SaveKeyValue", bigGas, []byte("k1"), []byte("old"), []byte("E"), []byte("x"), []byte("elrond"), []byte("lower")), "savekv seed")
	base := c05Save(w)
	keys := c05KeyPool()
	vals := [][]byte{nil, []byte("v"), []byte("old"), bytes.Repeat([]byte{0xab}, 40)}
	cost := w.gasMap["BuiltInCost"]["SaveKeyValue"]
	run := func(caller, rcpt []byte, snd bool, gas uint64, args ...[]byte) {
		cs := w.mkCall(w.shardOf(caller), "SaveKeyValue", caller, rcpt, args, gas)
		if int(cs.Shard) >= w.nShards {
			cs.Shard, cs.Dst = 0, w.shardOf(rcpt) == 0
		}
		cs.Snd = snd
		sr := s.call(cs)
		if c05OK(sr) {
			c05Restore(w, base)
		}
	}
	// single pair: every key x every value x the accepted caller
	for _, k := range keys {
		for _, v := range vals {
			c.count(fmt.Sprintf("c05/savekv/keylen/%02d", len(k)))
			run(u.U[0], u.U[0], true, bigGas, k, v)
		}
		// other caller identities with the same key
		run(u.K[0], u.K[0], true, bigGas, k, []byte("v"))  // contract writing to itself
		run(u.U[0], u.U[1], true, bigGas, k, []byte("v"))  // writing to somebody else
		run(u.U[1], u.U[0], true, bigGas, k, []byte("v"))  // somebody else writing to the holder
		run(u.U[0], u.U[0], false, bigGas, k, []byte("v")) // caller account not local
		run(u.SC, u.SC, false, bigGas, k, []byte("v"))
		run(u.U[0], u.U[0], true, cost, k, []byte("v")) // gas exactly the base cost
	}
	// contract / near-contract caller shapes writing to themselves on their own shard (unknown addresses live on shard 0),
	// sender account local: 8 zero bytes + VM type 05 00 (production shape), other VM types, all-zero, 11 bytes,
	// and user look-alikes (10 bytes, only 7 leading zeros)
	shape := func(vm0, vm1 byte, n int, tail byte) []byte {
		a := make([]byte, n)
		if n > 9 {
			a[8], a[9] = vm0, vm1
		}
		for i := 10; i < n; i++ {
			a[i] = tail
		}
		return a
	}
	user7 := shape(5, 0, 32, 0x44)
	user7[7] = 1
	for si, cl := range [][]byte{u.K[0], shape(5, 0, 32, 0x77), shape(5, 0, 32, 0), shape(1, 0, 32, 0x55), shape(0xff, 0xff, 32, 0x66), shape(0, 5, 32, 0x21),
		shape(0, 0, 32, 0), shape(0, 0, 32, 0x31), shape(5, 0, 11, 0x41), shape(5, 0, 10, 0), shape(0, 0, 10, 0), user7} {
		for _, k := range [][]byte{[]byte("k1"), []byte("ELRON"), []byte("elrond"), []byte("ELROND"), []byte("ELRONDesdtTKA-a1b2c3"), nil} {
			for _, v := range [][]byte{[]byte("v"), nil} {
				c.count(fmt.Sprintf("c05/savekv/caller-shape-%02d/contract=%v", si, c05IsContract(cl)))
				run(cl, cl, true, bigGas, k, v)
				run(cl, cl, true, bigGas, []byte("a"), []byte("1"), k, v)
			}
		}
	}
	// several pairs: later pair wins, delete after write, a protected key in first / middle / last position, odd counts
	pick := func() []byte { return keys[c.rng.Intn(len(keys))] }
	free := [][]byte{[]byte("k1"), []byte("k2"), []byte("E"), []byte("ELRON"), []byte("elrond"), []byte("ELROnDx"), nil}
	prot := [][]byte{[]byte("ELROND"), []byte("ELRONDx"), []byte("ELRONDesdtTKA-a1b2c3"), []byte("ELRONDroleesdtNFA-112233"), []byte("ELRONDnonceNFA-112233")}
	n := 220
	if wide {
		n = 2500
	}
	for i := 0; i < n; i++ {
		np := 2 + c.rng.Intn(3)
		var args [][]byte
		for j := 0; j < np; j++ {
			var k []byte
			switch c.rng.Intn(6) {
			case 0:
				k = pick()
			case 1:
				if len(args) >= 2 {
					k = args[len(args)-2] // repeat the previous key: later pair wins
				} else {
					k = c.pick(free)
				}
			default:
				k = c.pick(free)
			}
			args = append(args, k, c.pick(vals))
		}
		switch c.rng.Intn(5) {
		case 0:
			args[2*c.rng.Intn(np)] = c.pick(prot) // one protected key somewhere
		case 1:
			args = args[:len(args)-1] // odd argument count
		}
		run(u.U[0], u.U[0], true, bigGas, args...)
	}
	for _, args := range [][][]byte{nil, {[]byte("k1")}, {[]byte("ELROND")}, {[]byte("k1"), []byte("a"), []byte("k2")},
		{[]byte("k1"), []byte("a"), []byte("k1"), nil},             // write then delete
		{[]byte("k1"), nil, []byte("k1"), []byte("b")},             // delete then write
		{[]byte("k9"), []byte("a"), []byte("ELROND"), []byte("b")}, // allowed pair first, protected second
		{[]byte("k1"), []byte("old")},                              // unchanged value
		{[]byte("k1"), []byte("old"), []byte("E"), []byte("x")},    // all unchanged
	} {
		run(u.U[0], u.U[0], true, bigGas, args...)
		run(u.U[0], u.U[0], true, 3, args...)
	}
}

// c05Tour: every function, origin side / destination side, same shard and cross shard, with bystander accounts
// that hold the same tokens and look-alike keys
func c05Tour(c *ctx, u *universe, mons []c05Mon, nShards int, sysShard uint32, emitEvery int) {
	w := u.stdWorld(nShards, sysShard, distinctGas(15, 2))
	u.populate(w)
	s := &c05Scen{c: c, u: u, w: w, label: fmt.Sprintf("tour-%dshards", nShards), mons: mons, emitEvery: emitEvery, maxCases: 1500}
	F, G, N, S := u.Fung[0], u.Fung[1], u.NFTs[0], u.NFTs[1]
	A, B, C, D, K0, K1 := u.U[0], u.U[1], u.U[2], u.U[3], u.K[0], u.K[1]
	// owners, rewards, look-alike user keys
	w.shards[w.shardOf(K0)].account(K0).SetOwnerAddress(A)
	w.shards[w.shardOf(K0)].account(K0).devReward = big.NewInt(700)
	w.shards[w.shardOf(K1)].account(K1).SetOwnerAddress(A) // owner on another shard (2+ shards)
	w.shards[w.shardOf(K1)].account(K1).devReward = big.NewInt(900)
	s.tx(B, B, "SaveKeyValue", bigGas, []byte("ELROnDesdt"+string(F)), []byte("user data"), []byte("esdt"+string(F)), []byte("x"))
	uri := [][]byte{[]byte("name"), be(100), []byte("hash"), []byte("attr"), []byte("uri")}
	for round := 0; round < 2; round++ {
		// fungible
		s.tx(A, B, "ESDTTransfer", bigGas, F, be(10))
		s.tx(A, C, "ESDTTransfer", bigGas, F, be(11))
		s.tx(A, K0, "ESDTTransfer", bigGas, G, be(5), []byte("fn"), []byte("arg"))
		s.tx(A, K1, "ESDTTransfer", bigGas, G, be(6), []byte("fn"))
		s.tx(A, u.SC, "ESDTBurn", bigGas, F, be(3))
		s.tx(A, A, "ESDTLocalMint", bigGas, F, be(40))
		s.tx(A, A, "ESDTLocalBurn", bigGas, F, be(4))
		s.tx(C, C, "ESDTLocalMint", bigGas, G, be(9))
		s.deliverAll()
		// NFT life cycle
		s.tx(A, A, "ESDTNFTCreate", bigGas, append([][]byte{S, be(20)}, uri...)...)
		s.tx(A, A, "ESDTNFTCreate", bigGas, append([][]byte{N, be(1)}, uri...)...)
		s.tx(A, A, "ESDTNFTAddQuantity", bigGas, S, be(1), be(5))
		s.tx(A, A, "ESDTNFTBurn", bigGas, S, be(1), be(2))
		s.tx(A, A, "ESDTNFTAddURI", bigGas, S, be(1), []byte("uri-x"), []byte("uri-y"))
		s.tx(A, A, "ESDTNFTUpdateAttributes", bigGas, S, be(2), []byte("attr-2"))
		s.tx(A, A, "ESDTNFTTransfer", bigGas, S, be(1), be(3), B)
		s.tx(A, A, "ESDTNFTTransfer", bigGas, S, be(1), be(4), C)
		s.tx(A, A, "ESDTNFTTransfer", bigGas, S, be(2), be(1), K0, []byte("fn"), []byte("a"))
		s.tx(A, A, "ESDTNFTTransfer", bigGas, S, be(2), be(1), K1, []byte("fn"))
		s.tx(B, B, "ESDTNFTTransfer", bigGas, S, be(1), be(1), A)
		s.deliverAll()
		s.tx(A, A, "MultiESDTNFTTransfer", bigGas, B, be(3), F, nil, be(7), S, be(1), be(1), G, nil, be(2))
		s.tx(A, A, "MultiESDTNFTTransfer", bigGas, C, be(2), F, nil, be(8), S, be(1), be(2))
		s.tx(A, A, "MultiESDTNFTTransfer", bigGas, D, be(1), S, be(2), be(1))
		s.tx(A, A, "MultiESDTNFTTransfer", bigGas, K1, be(1), F, nil, be(1), []byte("fn"), []byte("z"))
		s.tx(C, C, "MultiESDTNFTTransfer", bigGas, A, be(2), F, nil, be(1), S, be(1), be(1))
		s.deliverAll()
		// identifiers of DIFFERENT lengths in one multi-transfer (longer first, shorter first, mixed NFT / fungible), same
		// shard and cross shard with delivery: a key buffer reused across the transfers shows only here
		L := u.Fung[2]
		srL := s.tx(A, A, "ESDTNFTCreate", bigGas, append([][]byte{L, be(9)}, uri...)...)
		nL := []byte{1}
		if c05OK(srL) && len(srL.Res.Out.ReturnData) == 1 {
			nL = srL.Res.Out.ReturnData[0]
		}
		for _, dst := range [][]byte{C, B, D, K1} {
			var call [][]byte
			if bytes.Equal(dst, K1) {
				call = [][]byte{[]byte("fn"), []byte("arg")}
			}
			mt := func(args ...[]byte) {
				s.tx(A, A, "MultiESDTNFTTransfer", bigGas, append(append([][]byte{dst}, args...), call...)...)
			}
			mt(be(2), L, nil, be(3), F, nil, be(2))                              // long, short
			mt(be(2), F, nil, be(2), L, nil, be(3))                              // short, long
			mt(be(3), L, nL, be(1), F, nil, be(1), S, be(1), be(1))              // long NFT, short fungible, short NFT
			mt(be(3), S, be(1), be(1), L, nL, be(1), G, nil, be(1))              // short NFT, long NFT, short fungible
			mt(be(4), L, nil, be(1), G, nil, be(1), L, nL, be(1), F, nil, be(1)) // long, short, long, short
			s.deliverAll()
		}
		s.tx(C, C, "MultiESDTNFTTransfer", bigGas, A, be(3), L, nil, be(2), G, nil, be(1), L, nL, be(1))
		s.tx(C, C, "ESDTNFTTransfer", bigGas, L, nL, be(1), B)
		s.deliverAll()
		// system contract
		s.sys(B, "ESDTFreeze", F)
		s.tx(B, A, "ESDTTransfer", bigGas, F, be(1)) // rejected: frozen
		s.sys(B, "ESDTUnFreeze", F)
		s.sys(D, "ESDTFreeze", G) // freeze on an absent entry
		s.sys(D, "ESDTWipe", G)
		s.sys(B, "ESDTFreeze", append(append([]byte{}, S...), 1)) // an NFT key suffix
		s.sys(B, "ESDTUnFreeze", append(append([]byte{}, S...), 1))
		for sh := 0; sh < nShards; sh++ {
			s.sysOn(uint32(sh), u.SYS, "ESDTPause", G)
		}
		s.tx(A, B, "ESDTTransfer", bigGas, G, be(1)) // rejected: paused
		for sh := 0; sh < nShards; sh++ {
			s.sysOn(uint32(sh), u.SYS, "ESDTUnPause", G)
		}
		s.sys(B, "ESDTSetRole", S, u.AllRoles[4], u.AllRoles[5])
		s.sys(B, "ESDTUnSetRole", S, u.AllRoles[5])
		s.sys(B, "ESDTUnSetRole", S, u.AllRoles[4])
		// create-role hand-over: same shard, then cross shard, then back
		s.sys(A, "ESDTNFTCreateRoleTransfer", N, B)
		s.tx(B, B, "ESDTNFTCreate", bigGas, append([][]byte{N, be(1)}, uri...)...)
		s.sys(B, "ESDTNFTCreateRoleTransfer", N, D)
		s.deliverAll()
		s.tx(D, D, "ESDTNFTCreate", bigGas, append([][]byte{N, be(1)}, uri...)...)
		s.sys(D, "ESDTNFTCreateRoleTransfer", N, A)
		s.deliverAll()
		// account level
		s.tx(A, K0, "ChangeOwnerAddress", bigGas, B)
		s.tx(B, K0, "ClaimDeveloperRewards", bigGas)
		s.tx(B, K0, "ChangeOwnerAddress", bigGas, A)
		s.tx(A, K1, "ClaimDeveloperRewards", bigGas)
		s.tx(A, K1, "ChangeOwnerAddress", bigGas, C)
		s.deliverAll()
		s.tx(u.DNS, B, "SetUserName", bigGas, []byte("bob.elrond"))
		s.tx(u.DNS, D, "SetUserName", bigGas, []byte("dan.elrond"))
		s.deliverAll()
		s.tx(B, B, "SaveKeyValue", bigGas, []byte("note"), []byte(fmt.Sprintf("round %d", round)))
		w.shards[w.shardOf(K0)].account(K0).devReward = big.NewInt(55)
		w.shards[w.shardOf(K1)].account(K1).SetOwnerAddress(A)
		w.shards[w.shardOf(K1)].account(K1).devReward = big.NewInt(66)
	}
}

// c05AliasFamily: token id ‖ nonce aliasing (DESIGN section 7, F4a fixed / F4b known finding). The F4b scenario
// is built explicitly so that the known finding is exercised on every run.
func c05AliasFamily(c *ctx, u *universe, mons []c05Mon) {
	w := u.stdWorld(2, 1, distinctGas(12, 3))
	u.populate(w)
	s := &c05Scen{c: c, u: u, w: w, label: "alias", mons: mons, emitEvery: 1, maxCases: 0}
	A, B, C := u.U[0], u.U[1], u.U[2]
	V := []byte("ABC-123456") // the real token
	X := []byte("ABC-12345")  // X ‖ 0x36 0x44 = V ‖ 0x44
	reqNonce := be(0x3644)
	uri := [][]byte{[]byte("name"), be(100), []byte("hash"), []byte("attr"), []byte("uri")}
	c05Must(s.sys(A, "ESDTSetRole", append([][]byte{V}, u.AllRoles...)...), "alias roles V")
	c05Must(s.sys(A, "ESDTSetRole", append([][]byte{X}, u.AllRoles...)...), "alias roles X")
	// the counter of V stands at 0x43 (state after 67 earlier creates), so the next NFT is V#0x44
	w.shards[w.shardOf(A)].account(A).storage[c05NP+string(V)] = []byte{0x43}
	sr := s.tx(A, A, "ESDTNFTCreate", bigGas, append([][]byte{V, be(7)}, uri...)...)
	c05Must(sr, "alias create")
	if len(sr.Res.Out.ReturnData) != 1 || !bytes.Equal(sr.Res.Out.ReturnData[0], []byte{0x44}) {
		panic("alias scenario: expected nonce 0x44")
	}
	base := c05Save(w)
	try := func(name string, f func() *stepResult) {
		before := len(c.rep.Failures)
		sr := f()
		s.deliverAll()
		hit := false
		for _, fl := range c.rep.Failures[before:] {
			if fl.Sig == "F4b-alias-metadata-nonce" {
				hit = true
			}
		}
		c.count(fmt.Sprintf("c05/alias/%s/%s/f4b=%v", name, statusName(sr.Res.Status), hit))
		c05Restore(w, base)
	}
	// DESIGN section 7 row F4b: holder of V#0x44 calls ESDTNFTTransfer("ABC-12345", nonce 0x3644, 3, dst)
	try("nft-transfer-same-shard", func() *stepResult { return s.tx(A, A, "ESDTNFTTransfer", bigGas, X, reqNonce, be(3), B) })
	try("nft-transfer-cross-shard", func() *stepResult { return s.tx(A, A, "ESDTNFTTransfer", bigGas, X, reqNonce, be(3), C) })
	try("multi-transfer-same-shard", func() *stepResult {
		return s.tx(A, A, "MultiESDTNFTTransfer", bigGas, B, be(1), X, reqNonce, be(2))
	})
	try("multi-transfer-cross-shard", func() *stepResult {
		return s.tx(A, A, "MultiESDTNFTTransfer", bigGas, C, be(1), X, reqNonce, be(2))
	})
	try("add-quantity", func() *stepResult { return s.tx(A, A, "ESDTNFTAddQuantity", bigGas, X, reqNonce, be(5)) })
	try("burn", func() *stepResult { return s.tx(A, A, "ESDTNFTBurn", bigGas, X, reqNonce, be(2)) })
	try("add-uri", func() *stepResult { return s.tx(A, A, "ESDTNFTAddURI", bigGas, X, reqNonce, []byte("u2")) })
	try("update-attributes", func() *stepResult { return s.tx(A, A, "ESDTNFTUpdateAttributes", bigGas, X, reqNonce, []byte("a2")) })
	// control: the honest call on the real token stays inside its footprint
	try("honest-transfer", func() *stepResult { return s.tx(A, A, "ESDTNFTTransfer", bigGas, V, be(0x44), be(3), B) })
	// F4a family (fixed): id ‖ nonce aliasing a FUNGIBLE entry must be rejected without any write
	c05Must(s.sys(A, "ESDTTransfer", []byte("ABCD"), be(100)), "alias fungible")
	c05Must(s.sys(A, "ESDTSetRole", append([][]byte{[]byte("AB")}, u.AllRoles...)...), "alias roles AB")
	base = c05Save(w)
	try("f4a-nft-transfer", func() *stepResult { return s.tx(A, A, "ESDTNFTTransfer", bigGas, []byte("AB"), []byte("CD"), be(1), B) })
	try("f4a-multi", func() *stepResult {
		return s.tx(A, A, "MultiESDTNFTTransfer", bigGas, B, be(1), []byte("AB"), []byte("CD"), be(1))
	})
	try("f4a-add-quantity", func() *stepResult { return s.tx(A, A, "ESDTNFTAddQuantity", bigGas, []byte("AB"), []byte("CD"), be(1)) })
	try("f4a-burn", func() *stepResult { return s.tx(A, A, "ESDTNFTBurn", bigGas, []byte("AB"), []byte("CD"), be(1)) })
	try("f4a-add-uri", func() *stepResult {
		return s.tx(A, A, "ESDTNFTAddURI", bigGas, []byte("AB"), []byte("CD"), []byte("u"))
	})
	try("f4a-update-attributes", func() *stepResult {
		return s.tx(A, A, "ESDTNFTUpdateAttributes", bigGas, []byte("AB"), []byte("CD"), []byte("a"))
	})
	// fungible id that is a prefix of another fungible id: "AB" vs "ABCD" are different keys
	c05Must(s.sys(B, "ESDTTransfer", []byte("AB"), be(50)), "alias fungible AB")
	try("prefix-fungible", func() *stepResult { return s.tx(B, A, "ESDTTransfer", bigGas, []byte("AB"), be(5)) })
}

func init() {
	runners["C05"] = func(c *ctx) {
		u := newUniverse()
		wide := c.thorough() || c.widen
		runtime.GOMAXPROCS(1) // sequential run; exec reads runtime.MemStats around every call (stop-the-world)
		c.rep.Rule = "Monitors on the real built-ins, after every executed call, over the complete before/after diff of every account on every shard (storage cells and balance/owner/user-name/developer-reward fields): (1) SaveKeyValue never changes a key with prefix ELROND, is accepted only for caller = recipient, non-contract, local caller, pair list without protected key, and leaves the caller's storage equal to the fold of the listed pairs (later pair wins, empty value deletes) with nothing else changed; (2) frame: every changed cell lies in footprint(call) = keys ELRONDesdt+tok+nonce / ELRONDroleesdt+tok / ELRONDnonce+tok of tokens named in the arguments (or destination-side payload), in caller, recipient, address argument (NFT / multi transfer destination, new create-role owner — only when that address lives on the executing shard; an account object changing on a shard where its address does not live is a frame failure) or the shard's system account (pause flag), account-level functions only owner / user name / developer reward / balance; rejected calls change nothing. Families: SaveKeyValue enumeration (keys of every length 0..12 in every prefix relation to ELROND, case variants, live token / role / counter keys, values incl. empty and unchanged, 1-4 pairs with repeats, odd counts, 7 caller / presence / gas identities, 12 contract / near-contract caller shapes incl. VM-type bytes 05 00 judged by an oracle independent of IsSmartContractAddress); scripted tours of all 23 functions (origin and destination side, same and cross shard, deliveries; multi-transfers mixing 16-byte and 10-byte token identifiers in every order, fungible and NFT) on 1-3 shard worlds with bystander holdings; explicit id‖nonce aliasing scenarios (F4a fixed, F4b known finding); random walks (all generator families). Every executed call can be re-evaluated in the Coq model (status + full post-state). distinct = distinct (world state, operation)."
		c05SetExecStream(c, c05ProjState)
		mons := []c05Mon{c05MonSaveKV, c05MonFrame}
		c05SaveKVFamily(c, u, mons, wide)
		c05AliasFamily(c, u, mons)
		c05Tour(c, u, mons, 2, 1, 2)
		c05Tour(c, u, mons, 1, 0, 4)
		c05Tour(c, u, mons, 3, 2, 4)
		c05Tour(c, u, mons, 2, 0, 4)
		n, ops, prob, max := 5, 220, 2, 550
		if wide {
			n, ops, prob, max = 160, 500, 16, 5000
		}
		c.walk(u, walkOpts{Worlds: n, Ops: ops, Proj: c05ProjState, Monitors: []monitor{c05Adapt(mons...)}, EmitProb: prob, MaxCases: max,
			Tune: func(g *gen) {
				g.wTransfer, g.wSupply, g.wSystem, g.wAccount, g.wDeliver, g.wHostile = 30, 22, 14, 12, 12, 10
				for i, k := range u.K {
					a := g.w.shards[g.w.shardOf(k)].account(k)
					a.SetOwnerAddress(u.U[2*i%4])
					a.devReward = new(big.Int).SetInt64(int64(300 + 10*i))
				}
			}})
		c.rep.Extra = map[string]interface{}{"scenario_cases_emitted": c05Emitted}
	}
}
