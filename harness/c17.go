package main

// C17 — a failing dependency is never reported as success.
//
// FAULT ENUMERATION (exhaustive over (scenario, k)): a table of successful scenarios covering every
// built-in function x execution side (origin / destination) x same-shard / cross-shard x with / without
// an attached call.  Every scenario is a deterministic builder (fresh world + the call under test);
// it is run once fault-free to learn the number D of dependency calls and their kinds, then for every
// k in [0, D) on a fresh identical world with "the k-th dependency call fails": the call must return an
// error (not Ok, no panic), must stop right after the failed call, and must have made the same calls
// up to k as the fault-free run.  k = D (a fault the call never reaches) must change nothing.
// Every execution is also written as a Coq xcase: the model, run with the same plan, must agree on
// ok/err (and on the number of dependency calls for Ok runs).
//
// RANDOM WALKS: every successful call of a random walk is re-executed on its own pre-state with every k.

import (
	"bytes"
	"fmt"
	"math/big"
	"sort"
	"strings"

	vmcommon "github.com/ElrondNetwork/elrond-vm-common"
)

func init() { runners["C17"] = runC17 }

const c17Proj = "{| p_gas := false; p_transfers := false; p_logs := false; p_retdata := false; p_state := false; p_deps := true |}"

var c17FailSeen = map[string]int{}

func c17Fail(c *ctx, kind, sig, what string, replay interface{}) {
	c17FailSeen[sig]++
	if c17FailSeen[sig] == 1 {
		c.fail(kind, sig, what, replay)
	}
}

type c17Scenario struct {
	Name  string
	Build func(u *universe) (*hWorld, *callSpec)
}

// the standard two-shard world: U0,U1,K0,DNS on shard 0; U2,U3,K1 on shard 1; the system-account address on shard 0
func c17World(u *universe) *hWorld {
	w := u.stdWorld(2, 0, distinctGas(10, 3))
	u.populate(w)
	return w
}

// the call that delivers an in-flight message (what world.step does for opDeliver)
func c17Deliver(w *hWorld, m *hMsg) *callSpec {
	sh := w.shardOf(m.Dest)
	return &callSpec{Shard: sh, Fn: m.Fn, Caller: m.Caller, Rcpt: m.Dest, Args: cloneArgs(m.Args), Value: big.NewInt(0), Gas: m.GasLimit,
		Locked: m.Locked, CallType: m.CallType, Snd: w.shardOf(m.Caller) == sh, Dst: true, FailAt: -1}
}

func c17LastMsg(w *hWorld, what string) *hMsg {
	if len(w.inflight) == 0 {
		panic("c17: " + what + ": no in-flight message")
	}
	return w.inflight[len(w.inflight)-1]
}

func c17SysSpec(u *universe, shard uint32, rcpt []byte, fn string, args ...[]byte) *callSpec {
	return &callSpec{Shard: shard, Fn: fn, Caller: u.SC, Rcpt: rcpt, Args: args, Value: big.NewInt(0), Gas: 0, Snd: false, Dst: true, FailAt: -1}
}

func c17Scenarios() []c17Scenario {
	var l []c17Scenario
	add := func(name string, b func(u *universe) (*hWorld, *callSpec)) { l = append(l, c17Scenario{name, b}) }
	// a user transaction executed on the caller's shard
	tx := func(name, fn string, pick func(u *universe) (caller, rcpt []byte, args [][]byte), setup func(u *universe, w *hWorld), tweak func(cs *callSpec)) {
		add(name, func(u *universe) (*hWorld, *callSpec) {
			w := c17World(u)
			if setup != nil {
				setup(u, w)
			}
			caller, rcpt, args := pick(u)
			cs := w.mkCall(w.shardOf(caller), fn, caller, rcpt, args, bigGas)
			if tweak != nil {
				tweak(cs)
			}
			return w, cs
		})
	}
	// the destination side of a cross-shard transaction: run the origin side for real, deliver its message
	dest := func(name, fn string, pick func(u *universe) (caller, rcpt []byte, args [][]byte), setup func(u *universe, w *hWorld), tweak func(cs *callSpec)) {
		add(name, func(u *universe) (*hWorld, *callSpec) {
			w := c17World(u)
			if setup != nil {
				setup(u, w)
			}
			caller, rcpt, args := pick(u)
			mustOK(w.tx(caller, rcpt, fn, bigGas, args...), name+": origin side")
			cs := c17Deliver(w, c17LastMsg(w, name))
			if tweak != nil {
				tweak(cs)
			}
			return w, cs
		})
	}
	sys := func(name, fn string, shard uint32, pick func(u *universe) (rcpt []byte, args [][]byte), setup func(u *universe, w *hWorld)) {
		add(name, func(u *universe) (*hWorld, *callSpec) {
			w := c17World(u)
			if setup != nil {
				setup(u, w)
			}
			rcpt, args := pick(u)
			return w, c17SysSpec(u, shard, rcpt, fn, args...)
		})
	}
	fn1, arg1 := []byte("doSomething"), []byte{1, 2}

	// ---------------- ESDTTransfer ----------------
	T := "ESDTTransfer"
	tx(T+"/same-shard/user", T, func(u *universe) ([]byte, []byte, [][]byte) { return u.U[0], u.U[1], [][]byte{u.Fung[0], be(10)} }, nil, nil)
	tx(T+"/same-shard/contract-no-call(payable query)", T, func(u *universe) ([]byte, []byte, [][]byte) { return u.U[0], u.K[0], [][]byte{u.Fung[0], be(10)} }, nil, nil)
	tx(T+"/same-shard/attached-call", T, func(u *universe) ([]byte, []byte, [][]byte) {
		return u.U[0], u.K[0], [][]byte{u.Fung[0], be(10), fn1, arg1}
	}, nil, nil)
	tx(T+"/same-shard/whole-balance(entry deleted)", T, func(u *universe) ([]byte, []byte, [][]byte) { return u.U[1], u.U[0], [][]byte{u.Fung[0], be(1000)} }, nil, nil)
	tx(T+"/origin/cross-shard", T, func(u *universe) ([]byte, []byte, [][]byte) { return u.U[0], u.U[2], [][]byte{u.Fung[0], be(10)} }, nil, nil)
	tx(T+"/origin/cross-shard/attached-call", T, func(u *universe) ([]byte, []byte, [][]byte) {
		return u.U[0], u.K[1], [][]byte{u.Fung[0], be(10), fn1, arg1}
	}, nil, nil)
	tx(T+"/origin/cross-shard/from-contract", T, func(u *universe) ([]byte, []byte, [][]byte) { return u.K[0], u.U[2], [][]byte{u.Fung[1], be(10)} }, nil, nil)
	dest(T+"/destination/cross-shard", T, func(u *universe) ([]byte, []byte, [][]byte) { return u.U[0], u.U[2], [][]byte{u.Fung[0], be(10)} }, nil, nil)
	dest(T+"/destination/cross-shard/new-holder", T, func(u *universe) ([]byte, []byte, [][]byte) { return u.U[0], u.U[3], [][]byte{u.Fung[1], be(10)} }, nil, nil)
	dest(T+"/destination/cross-shard/contract-no-call(payable query)", T, func(u *universe) ([]byte, []byte, [][]byte) { return u.U[0], u.K[1], [][]byte{u.Fung[0], be(10)} }, nil, nil)
	dest(T+"/destination/cross-shard/attached-call", T, func(u *universe) ([]byte, []byte, [][]byte) {
		return u.U[0], u.K[1], [][]byte{u.Fung[0], be(10), fn1, arg1}
	}, nil, nil)
	dest(T+"/destination/cross-shard/callback", T, func(u *universe) ([]byte, []byte, [][]byte) { return u.U[0], u.U[2], [][]byte{u.Fung[0], be(10)} }, nil,
		func(cs *callSpec) { cs.CallType = vmcommon.AsynchronousCallBack })
	sys(T+"/system-issue", T, 1, func(u *universe) ([]byte, [][]byte) { return u.U[3], [][]byte{u.Fung[0], be(77)} }, nil)

	// ---------------- supply ----------------
	tx("ESDTBurn/user", "ESDTBurn", func(u *universe) ([]byte, []byte, [][]byte) { return u.U[0], u.SC, [][]byte{u.Fung[0], be(5)} }, nil, nil)
	tx("ESDTBurn/contract(emits message)", "ESDTBurn", func(u *universe) ([]byte, []byte, [][]byte) { return u.K[0], u.SC, [][]byte{u.Fung[0], be(5)} }, nil, nil)
	tx("ESDTLocalMint/origin", "ESDTLocalMint", func(u *universe) ([]byte, []byte, [][]byte) { return u.U[0], u.U[0], [][]byte{u.Fung[0], be(5)} }, nil, nil)
	tx("ESDTLocalMint/origin/shard1", "ESDTLocalMint", func(u *universe) ([]byte, []byte, [][]byte) { return u.U[2], u.U[2], [][]byte{u.Fung[1], be(5)} }, nil, nil)
	tx("ESDTLocalBurn/origin", "ESDTLocalBurn", func(u *universe) ([]byte, []byte, [][]byte) { return u.U[0], u.U[0], [][]byte{u.Fung[0], be(5)} }, nil, nil)
	tx("ESDTLocalBurn/origin/whole-balance", "ESDTLocalBurn", func(u *universe) ([]byte, []byte, [][]byte) { return u.U[0], u.U[0], [][]byte{u.Fung[0], be(1000)} }, nil, nil)
	createArgs := func(tok []byte, q uint64) [][]byte {
		return [][]byte{tok, be(q), []byte("nm"), be(250), []byte("hash-x"), []byte("attr"), []byte("uri1")}
	}
	tx("ESDTNFTCreate/quantity-1", "ESDTNFTCreate", func(u *universe) ([]byte, []byte, [][]byte) { return u.U[0], u.U[0], createArgs(u.NFTs[0], 1) }, nil, nil)
	tx("ESDTNFTCreate/quantity-5(second role lookup)", "ESDTNFTCreate", func(u *universe) ([]byte, []byte, [][]byte) { return u.U[0], u.U[0], createArgs(u.NFTs[1], 5) }, nil, nil)
	tx("ESDTNFTCreate/first-of-token/shard1", "ESDTNFTCreate", func(u *universe) ([]byte, []byte, [][]byte) { return u.U[2], u.U[2], createArgs(u.NFTs[0], 1) }, nil, nil)
	tx("ESDTNFTAddQuantity/origin", "ESDTNFTAddQuantity", func(u *universe) ([]byte, []byte, [][]byte) { return u.U[0], u.U[0], [][]byte{u.NFTs[1], be(1), be(3)} }, nil, nil)
	tx("ESDTNFTBurn/partial", "ESDTNFTBurn", func(u *universe) ([]byte, []byte, [][]byte) { return u.U[0], u.U[0], [][]byte{u.NFTs[1], be(1), be(3)} }, nil, nil)
	tx("ESDTNFTBurn/whole(entry deleted)", "ESDTNFTBurn", func(u *universe) ([]byte, []byte, [][]byte) { return u.U[0], u.U[0], [][]byte{u.NFTs[1], be(2), be(7)} }, nil, nil)
	tx("ESDTNFTAddURI/origin", "ESDTNFTAddURI", func(u *universe) ([]byte, []byte, [][]byte) {
		return u.U[0], u.U[0], [][]byte{u.NFTs[0], be(1), []byte("uriX"), []byte("uriY")}
	}, nil, nil)
	tx("ESDTNFTUpdateAttributes/origin", "ESDTNFTUpdateAttributes", func(u *universe) ([]byte, []byte, [][]byte) {
		return u.U[0], u.U[0], [][]byte{u.NFTs[0], be(1), []byte("new-attr")}
	}, nil, nil)

	// ---------------- system-contract functions ----------------
	freezeU0 := func(u *universe, w *hWorld) { mustOK(w.sys(u, u.U[0], "ESDTFreeze", u.Fung[0]), "freeze") }
	sys("ESDTFreeze/holder", "ESDTFreeze", 0, func(u *universe) ([]byte, [][]byte) { return u.U[0], [][]byte{u.Fung[0]} }, nil)
	sys("ESDTFreeze/non-holder(new entry)/shard1", "ESDTFreeze", 1, func(u *universe) ([]byte, [][]byte) { return u.U[3], [][]byte{u.Fung[0]} }, nil)
	sys("ESDTUnFreeze/holder", "ESDTUnFreeze", 0, func(u *universe) ([]byte, [][]byte) { return u.U[0], [][]byte{u.Fung[0]} }, freezeU0)
	sys("ESDTWipe/frozen-holder", "ESDTWipe", 0, func(u *universe) ([]byte, [][]byte) { return u.U[0], [][]byte{u.Fung[0]} }, freezeU0)
	sys("ESDTPause/shard0", "ESDTPause", 0, func(u *universe) ([]byte, [][]byte) { return u.SYS, [][]byte{u.Fung[0]} }, nil)
	sys("ESDTPause/shard1", "ESDTPause", 1, func(u *universe) ([]byte, [][]byte) { return u.SYS, [][]byte{u.Fung[0]} }, nil)
	sys("ESDTUnPause/after-pause", "ESDTUnPause", 0, func(u *universe) ([]byte, [][]byte) { return u.SYS, [][]byte{u.Fung[0]} },
		func(u *universe, w *hWorld) { mustOK(w.sys(u, u.SYS, "ESDTPause", u.Fung[0]), "pause") })
	sys("ESDTSetRole/new-list", "ESDTSetRole", 0, func(u *universe) ([]byte, [][]byte) { return u.U[1], [][]byte{u.Fung[0], u.AllRoles[0], u.AllRoles[1]} }, nil)
	sys("ESDTSetRole/existing-list/shard1", "ESDTSetRole", 1, func(u *universe) ([]byte, [][]byte) { return u.U[2], [][]byte{u.Fung[0], u.AllRoles[2]} }, nil)
	sys("ESDTUnSetRole/one-role", "ESDTUnSetRole", 0, func(u *universe) ([]byte, [][]byte) { return u.U[0], [][]byte{u.Fung[0], u.AllRoles[0]} }, nil)
	sys("ESDTUnSetRole/all-roles(entry emptied)", "ESDTUnSetRole", 0, func(u *universe) ([]byte, [][]byte) {
		return u.U[0], append([][]byte{u.Fung[1]}, u.AllRoles...)
	}, nil)
	R := "ESDTNFTCreateRoleTransfer"
	sys(R+"/current-owner/same-shard-new-owner", R, 0, func(u *universe) ([]byte, [][]byte) { return u.U[0], [][]byte{u.NFTs[1], u.U[1]} }, nil)
	sys(R+"/current-owner/cross-shard-new-owner", R, 0, func(u *universe) ([]byte, [][]byte) { return u.U[0], [][]byte{u.NFTs[1], u.U[3]} }, nil)
	add(R+"/next-owner/destination", func(u *universe) (*hWorld, *callSpec) {
		w := c17World(u)
		mustOK(w.sys(u, u.U[0], R, u.NFTs[1], u.U[3]), "role hand-over: origin side")
		return w, c17Deliver(w, c17LastMsg(w, R))
	})
	add(R+"/next-owner/destination/already-has-roles", func(u *universe) (*hWorld, *callSpec) {
		w := c17World(u)
		mustOK(w.sys(u, u.U[0], R, u.NFTs[1], u.U[2]), "role hand-over: origin side")
		return w, c17Deliver(w, c17LastMsg(w, R))
	})

	// ---------------- account-level functions ----------------
	own := func(owner func(u *universe) []byte, reward int64) func(u *universe, w *hWorld) {
		return func(u *universe, w *hWorld) {
			a := w.shards[0].account(u.K[0])
			a.owner = append([]byte(nil), owner(u)...)
			a.devReward = big.NewInt(reward)
		}
	}
	u0 := func(u *universe) []byte { return u.U[0] }
	u2 := func(u *universe) []byte { return u.U[2] }
	tx("ChangeOwnerAddress/same-shard", "ChangeOwnerAddress", func(u *universe) ([]byte, []byte, [][]byte) { return u.U[0], u.K[0], [][]byte{u.U[1]} }, own(u0, 0), nil)
	tx("ChangeOwnerAddress/origin/cross-shard(no dependency)", "ChangeOwnerAddress", func(u *universe) ([]byte, []byte, [][]byte) { return u.U[2], u.K[0], [][]byte{u.U[1]} }, own(u2, 0), nil)
	dest("ChangeOwnerAddress/destination/cross-shard", "ChangeOwnerAddress", func(u *universe) ([]byte, []byte, [][]byte) { return u.U[2], u.K[0], [][]byte{u.U[1]} }, own(u2, 0), nil)
	tx("ClaimDeveloperRewards/same-shard", "ClaimDeveloperRewards", func(u *universe) ([]byte, []byte, [][]byte) { return u.U[0], u.K[0], nil }, own(u0, 500), nil)
	tx("ClaimDeveloperRewards/same-shard/async", "ClaimDeveloperRewards", func(u *universe) ([]byte, []byte, [][]byte) { return u.U[0], u.K[0], nil }, own(u0, 500),
		func(cs *callSpec) { cs.CallType = vmcommon.AsynchronousCall; cs.Locked = 7 })
	// the owner is itself a contract living on the rewarded contract's shard (its own branch of ClaimDeveloperRewards)
	kOwner := func(u *universe) []byte { return scAddr(0x33) }
	tx("ClaimDeveloperRewards/same-shard/contract-owner", "ClaimDeveloperRewards", func(u *universe) ([]byte, []byte, [][]byte) { return scAddr(0x33), u.K[0], nil }, own(kOwner, 500), nil)
	tx("ClaimDeveloperRewards/same-shard/contract-owner/async", "ClaimDeveloperRewards", func(u *universe) ([]byte, []byte, [][]byte) { return scAddr(0x33), u.K[0], nil }, own(kOwner, 500),
		func(cs *callSpec) { cs.CallType = vmcommon.AsynchronousCall; cs.Locked = 7 })
	tx("ClaimDeveloperRewards/same-shard/contract-owner/callback", "ClaimDeveloperRewards", func(u *universe) ([]byte, []byte, [][]byte) { return scAddr(0x33), u.K[0], nil }, own(kOwner, 500),
		func(cs *callSpec) { cs.CallType = vmcommon.AsynchronousCallBack })
	tx("ChangeOwnerAddress/same-shard/contract-owner", "ChangeOwnerAddress", func(u *universe) ([]byte, []byte, [][]byte) { return scAddr(0x33), u.K[0], [][]byte{u.U[1]} }, own(kOwner, 0), nil)
	tx("ClaimDeveloperRewards/origin/cross-shard(no dependency)", "ClaimDeveloperRewards", func(u *universe) ([]byte, []byte, [][]byte) { return u.U[2], u.K[0], nil }, own(u2, 500), nil)
	dest("ClaimDeveloperRewards/destination/cross-shard", "ClaimDeveloperRewards", func(u *universe) ([]byte, []byte, [][]byte) { return u.U[2], u.K[0], nil }, own(u2, 500), nil)
	tx("SetUserName/destination-present(no dependency)", "SetUserName", func(u *universe) ([]byte, []byte, [][]byte) { return u.DNS, u.U[0], [][]byte{[]byte("alice.elrond")} }, nil, nil)
	tx("SetUserName/origin/cross-shard(no dependency)", "SetUserName", func(u *universe) ([]byte, []byte, [][]byte) { return u.DNS, u.U[2], [][]byte{[]byte("bob.elrond")} }, nil, nil)
	tx("SaveKeyValue/two-new-pairs", "SaveKeyValue", func(u *universe) ([]byte, []byte, [][]byte) {
		return u.U[0], u.U[0], [][]byte{[]byte("k1"), []byte("v1"), []byte("key2"), []byte("value2")}
	}, nil, nil)
	tx("SaveKeyValue/one-unchanged-one-changed", "SaveKeyValue", func(u *universe) ([]byte, []byte, [][]byte) {
		return u.U[0], u.U[0], [][]byte{[]byte("k1"), []byte("v1"), []byte("key2"), []byte("other")}
	}, func(u *universe, w *hWorld) {
		mustOK(w.tx(u.U[0], u.U[0], "SaveKeyValue", bigGas, []byte("k1"), []byte("v1"), []byte("key2"), []byte("value2")), "skv setup")
	}, nil)

	// ---------------- ESDTNFTTransfer ----------------
	N := "ESDTNFTTransfer"
	nft := func(from func(u *universe) []byte, tok int, nonce, q uint64, to func(u *universe) []byte, extra ...[]byte) func(u *universe) ([]byte, []byte, [][]byte) {
		return func(u *universe) ([]byte, []byte, [][]byte) {
			return from(u), from(u), append([][]byte{u.NFTs[tok], be(nonce), be(q), to(u)}, extra...)
		}
	}
	u1 := func(u *universe) []byte { return u.U[1] }
	u3 := func(u *universe) []byte { return u.U[3] }
	k0 := func(u *universe) []byte { return u.K[0] }
	k1 := func(u *universe) []byte { return u.K[1] }
	tx(N+"/sender/same-shard/nft", N, nft(u0, 0, 1, 1, u1), nil, nil)
	tx(N+"/sender/same-shard/sft-partial", N, nft(u0, 1, 1, 5, u1), nil, nil)
	tx(N+"/sender/same-shard/destination-already-holds", N, nft(u0, 1, 1, 5, u1),
		func(u *universe, w *hWorld) {
			mustOK(w.tx(u.U[0], u.U[0], N, bigGas, u.NFTs[1], be(1), be(4), u.U[1]), "first transfer")
		}, nil)
	tx(N+"/sender/same-shard/contract-no-call(payable query)", N, nft(u0, 1, 1, 5, k0), nil, nil)
	tx(N+"/sender/same-shard/attached-call", N, nft(u0, 1, 1, 5, k0, fn1, arg1), nil, nil)
	tx(N+"/sender/cross-shard/nft", N, nft(u0, 0, 1, 1, u2), nil, nil)
	tx(N+"/sender/cross-shard/sft-whole(entry deleted)", N, nft(u0, 1, 2, 7, u3), nil, nil)
	tx(N+"/sender/cross-shard/attached-call", N, nft(u0, 1, 1, 5, k1, fn1, arg1), nil, nil)
	dest(N+"/destination/cross-shard/new-holder", N, nft(u0, 0, 1, 1, u2), nil, nil)
	dest(N+"/destination/cross-shard/already-holds", N, nft(u0, 1, 1, 5, u2),
		func(u *universe, w *hWorld) {
			mustOK(w.tx(u.U[0], u.U[0], N, bigGas, u.NFTs[1], be(1), be(4), u.U[2]), "first transfer")
			mustOK(w.step(&worldOp{Kind: opDeliver, ID: c17LastMsg(w, "first").ID, Gas: c17LastMsg(w, "first").GasLimit}), "first delivery")
		}, nil)
	dest(N+"/destination/cross-shard/contract-no-call(payable query)", N, nft(u0, 1, 1, 5, k1), nil, nil)
	dest(N+"/destination/cross-shard/attached-call", N, nft(u0, 1, 1, 5, k1, fn1, arg1), nil, nil)

	// ---------------- MultiESDTNFTTransfer ----------------
	M := "MultiESDTNFTTransfer"
	multi := func(to func(u *universe) []byte, items func(u *universe) [][]byte, extra ...[]byte) func(u *universe) ([]byte, []byte, [][]byte) {
		return func(u *universe) ([]byte, []byte, [][]byte) {
			it := items(u)
			args := append([][]byte{to(u), be(uint64(len(it) / 3))}, it...)
			return u.U[0], u.U[0], append(args, extra...)
		}
	}
	fungSft := func(u *universe) [][]byte { return [][]byte{u.Fung[0], be(0), be(10), u.NFTs[1], be(1), be(5)} }
	fungOnly := func(u *universe) [][]byte { return [][]byte{u.Fung[1], be(0), be(10)} }
	sftOnly := func(u *universe) [][]byte { return [][]byte{u.NFTs[1], be(2), be(2)} }
	three := func(u *universe) [][]byte {
		return [][]byte{u.NFTs[0], be(1), be(1), u.Fung[0], be(0), be(3), u.NFTs[1], be(2), be(7)}
	}
	tx(M+"/sender/same-shard/fungible+sft", M, multi(u1, fungSft), nil, nil)
	tx(M+"/sender/same-shard/single-fungible", M, multi(u1, fungOnly), nil, nil)
	tx(M+"/sender/same-shard/contract-no-call(payable query)", M, multi(k0, fungSft), nil, nil)
	tx(M+"/sender/same-shard/attached-call", M, multi(k0, sftOnly, fn1, arg1), nil, nil)
	tx(M+"/sender/cross-shard/three-tokens", M, multi(u2, three), nil, nil)
	tx(M+"/sender/cross-shard/single-fungible", M, multi(u3, fungOnly), nil, nil)
	tx(M+"/sender/cross-shard/attached-call", M, multi(k1, fungSft, fn1, arg1), nil, nil)
	dest(M+"/destination/cross-shard/three-tokens", M, multi(u2, three), nil, nil)
	dest(M+"/destination/cross-shard/single-fungible/new-holder", M, multi(u3, fungOnly), nil, nil)
	dest(M+"/destination/cross-shard/single-sft", M, multi(u3, sftOnly), nil, nil)
	dest(M+"/destination/cross-shard/contract-no-call(payable query)", M, multi(k1, fungSft), nil, nil)
	dest(M+"/destination/cross-shard/attached-call", M, multi(k1, fungSft, fn1, arg1), nil, nil)
	return l
}

// ---------- monitors shared by the enumeration and the walks ----------

func c17Kind(kinds []string, k int) string {
	if k >= 0 && k < len(kinds) {
		return kinds[k]
	}
	return "none"
}

func c17Replay(name string, cs *callSpec, res *callResult, ref *callResult) map[string]interface{} {
	r := map[string]interface{}{"scenario": name, "call": describeCall(cs), "pre": digestAccounts(res.Pre), "fail_at": cs.FailAt,
		"status": statusName(res.Status), "dependency_calls": res.DepKinds}
	if ref != nil {
		r["fault_free_dependency_calls"] = ref.DepKinds
	}
	if res.Err != nil {
		r["error"] = res.Err.Error()
	}
	if res.PanicMsg != "" {
		r["panic"] = res.PanicMsg
	}
	return r
}

// checkFaulted: the call was run with "dependency call k fails"; ref is the fault-free run from the same state
func c17CheckFaulted(c *ctx, name string, cs *callSpec, res, ref *callResult) {
	k := cs.FailAt
	kind := c17Kind(ref.DepKinds, k)
	c.count("fault/" + cs.Fn + "/" + kind)
	c.count("fault-kind/" + kind)
	switch res.Status {
	case 0:
		c17Fail(c, "monitor", "ok-after-fault/"+cs.Fn+"/"+kind,
			fmt.Sprintf("%s returned Ok although its dependency call #%d (%s) failed [%s]", cs.Fn, k, kind, name), c17Replay(name, cs, res, ref))
	case 2:
		c17Fail(c, "panic", "panic-after-fault/"+cs.Fn+"/"+kind,
			fmt.Sprintf("%s panicked after its dependency call #%d (%s) failed: %s [%s]", cs.Fn, k, kind, res.PanicMsg, name), c17Replay(name, cs, res, ref))
	}
	// same dependency calls as the fault-free run up to and including call k (the runs coincide until the first fault)
	same := len(res.DepKinds) > k
	for j := 0; same && j <= k; j++ {
		same = res.DepKinds[j] == ref.DepKinds[j]
	}
	if !same {
		c17Fail(c, "monitor", "fault-not-reached/"+cs.Fn+"/"+kind,
			fmt.Sprintf("%s: the run with failAt=%d made dependency calls %v, the fault-free run %v [%s]", cs.Fn, k, res.DepKinds, ref.DepKinds, name), c17Replay(name, cs, res, ref))
	} else if res.DepCalls != k+1 {
		c17Fail(c, "monitor", "calls-after-fault/"+cs.Fn+"/"+kind,
			fmt.Sprintf("%s went on to call %v after its dependency call #%d (%s) failed [%s]", cs.Fn, res.DepKinds[k+1:], k, kind, name), c17Replay(name, cs, res, ref))
	}
}

// saved_if_modified on a successful fault-free run: an account that is neither of the two account objects handed to the call
// and whose content changed was obtained through LoadAccount and must have been given to SaveAccount afterwards;
// every LoadAccount (the pause lookup is not recorded) is matched by a later SaveAccount.
func c17CheckSaved(c *ctx, name string, w *hWorld, cs *callSpec, res *callResult) {
	if res.Status != 0 {
		return
	}
	sh := w.shards[cs.Shard]
	loads, saves, lastLoad, lastSave, lastWrite := 0, 0, -1, -1, -1
	for j, kd := range res.DepKinds {
		switch kd {
		case "LoadAccount":
			loads++
			lastLoad = j
		case "SaveAccount":
			saves++
			lastSave = j
		case "SaveKeyValue":
			lastWrite = j
		}
	}
	var foreign []string
	for _, k := range sortedAccts(sh.accounts) {
		if (cs.Snd && k == string(cs.Caller)) || (cs.Dst && k == string(cs.Rcpt)) {
			continue
		}
		b, ok := res.Pre[k]
		if ok && coqAcct(b) == coqAcct(sh.accounts[k]) {
			continue
		}
		if !ok && coqAcct(newAccount(w, []byte(k))) == coqAcct(sh.accounts[k]) {
			continue
		}
		foreign = append(foreign, fmt.Sprintf("%x", k))
	}
	if len(foreign) > 0 {
		c.count("saved_if_modified/loaded-account-modified/" + cs.Fn)
		if lastLoad < 0 || lastSave < lastLoad || lastSave < lastWrite {
			c17Fail(c, "monitor", "modified-not-saved/"+cs.Fn,
				fmt.Sprintf("%s returned Ok having modified account(s) %v obtained through LoadAccount without a SaveAccount after the last write (dependency calls %v) [%s]",
					cs.Fn, foreign, res.DepKinds, name), c17Replay(name, cs, res, nil))
		}
	}
	if loads != saves || (loads > 0 && lastSave < lastLoad) {
		c17Fail(c, "monitor", "load-without-save/"+cs.Fn,
			fmt.Sprintf("%s returned Ok with %d LoadAccount and %d SaveAccount calls (dependency calls %v) [%s]", cs.Fn, loads, saves, res.DepKinds, name), c17Replay(name, cs, res, nil))
	}
}

func c17OutDigest(r *callResult) string {
	if r.Out == nil {
		return statusName(r.Status)
	}
	return statusName(r.Status) + " " + coqOutput(r.Out)
}

// ---------- the enumeration ----------
func c17Enumerate(c *ctx, u *universe) {
	scs := c17Scenarios()
	table := map[string]interface{}{}
	fnSides := map[string]bool{}
	totalRuns, totalFaults := 0, 0
	for _, sc := range scs {
		fn := sc.Name[:strings.Index(sc.Name, "/")]
		fnSides[fn] = true
		w, cs := sc.Build(u)
		ref := w.exec(cs)
		totalRuns++
		c.note("enum/"+sc.Name+"/fault-free", true)
		c.count("scenario/" + fn)
		if ref.Status != 0 {
			c17Fail(c, "monitor", "scenario-not-ok/"+sc.Name,
				fmt.Sprintf("scenario %s no longer succeeds fault-free: %s %v %s", sc.Name, statusName(ref.Status), ref.Err, ref.PanicMsg), c17Replay(sc.Name, cs, ref, nil))
			continue
		}
		c.addExecCase(w, cs, ref)
		c17CheckSaved(c, sc.Name, w, cs, ref)
		D := ref.DepCalls
		table[sc.Name] = map[string]interface{}{"D": D, "kinds": strings.Join(ref.DepKinds, ",")}
		c.count(fmt.Sprintf("scenario-dependency-calls/%02d", D))
		if len(c.rep.Samples) < 6 && D >= 5 {
			c.sample(map[string]interface{}{"scenario": sc.Name, "call": describeCall(cs), "D": D, "kinds": ref.DepKinds})
		}
		for k := 0; k <= D; k++ {
			wk, csk := sc.Build(u)
			csk.FailAt = k
			if describeCall(cs) != strings.Replace(describeCall(csk), fmt.Sprintf("failAt=%d", k), "failAt=-1", 1) {
				panic("c17: scenario builder is not deterministic: " + sc.Name)
			}
			res := wk.exec(csk)
			totalRuns++
			c.note(fmt.Sprintf("enum/%s/k=%d", sc.Name, k), true)
			if digestAccounts(res.Pre) != digestAccounts(ref.Pre) && res.Status == 0 {
				panic("c17: scenario builder is not deterministic (pre-state): " + sc.Name)
			}
			if k < D {
				totalFaults++
				c17CheckFaulted(c, sc.Name, csk, res, ref)
			} else {
				// a fault planned for a call that is never made changes nothing
				c.count("unreached-fault/" + fn)
				if res.Status != 0 || res.DepCalls != D || c17OutDigest(res) != c17OutDigest(ref) ||
					digestAccounts(wk.shards[csk.Shard].accounts) != digestAccounts(w.shards[cs.Shard].accounts) {
					c17Fail(c, "monitor", "unreached-fault-changed-result/"+cs.Fn,
						fmt.Sprintf("%s: failAt=%d (never reached, D=%d) changed the result [%s]", cs.Fn, k, D, sc.Name), c17Replay(sc.Name, csk, res, ref))
				}
			}
			c.addExecCase(wk, csk, res)
		}
	}
	var missing []string
	for _, b := range builtinNames {
		if !fnSides[b] {
			missing = append(missing, b)
		}
	}
	if len(missing) > 0 {
		panic("c17: no scenario for " + strings.Join(missing, ","))
	}
	c.rep.Extra["enumeration"] = map[string]interface{}{
		"scenarios": len(scs), "functions_covered": len(fnSides), "executions": totalRuns, "fault_points": totalFaults,
		"exhaustive_over": "every (scenario, k) with 0 <= k < D(scenario), plus k = D (unreached)",
		"table":           table}
}

// ---------- random walks: every successful call is re-executed from its own pre-state with every k ----------
func c17CloneAccounts(m map[string]*hAccount) map[string]*hAccount {
	out := map[string]*hAccount{}
	for k, a := range m {
		out[k] = a.clone()
	}
	return out
}

type c17WalkStats struct{ calls, faults, maxD int }

func c17WalkMonitor(st *c17WalkStats, budget int) monitor {
	return func(c *ctx, w *hWorld, pre *worldSnap, sr *stepResult, hist []string) {
		if sr.Res.Status != 0 || sr.Call.FailAt >= 0 {
			return
		}
		ref := sr.Res
		name := "walk"
		c17CheckSaved(c, name, w, sr.Call, ref)
		D := ref.DepCalls
		if D == 0 || st.faults >= budget {
			return
		}
		st.calls++
		if D > st.maxD {
			st.maxD = D
		}
		sh := w.shards[sr.Call.Shard]
		saved := sh.accounts
		for k := 0; k < D; k++ {
			sh.accounts = c17CloneAccounts(ref.Pre)
			cs := *sr.Call
			cs.Args = cloneArgs(sr.Call.Args)
			cs.FailAt = k
			res := w.exec(&cs)
			st.faults++
			c.note(fmt.Sprintf("walk/%s/%s/k=%d", digestAccounts(ref.Pre), describeCall(sr.Call), k), true)
			if digestAccounts(res.Pre) != digestAccounts(ref.Pre) {
				panic("c17: walk re-execution did not start from the recorded pre-state")
			}
			c17CheckFaulted(c, name, &cs, res, ref)
			c.addExecCase(w, &cs, res)
		}
		sh.accounts = saved
	}
}

func runC17(c *ctx) {
	u := newUniverse()
	c.header = execHeader
	c.caseType = "xcase"
	c.mismatchExpr = "xmismatches (" + c17Proj + ") cases"
	c.perFile = 250
	c.rep.Extra = map[string]interface{}{}
	c.rep.Rule = "fault enumeration, exhaustive over (scenario, k): a fixed table of successful scenarios (every built-in function x origin/destination side x same-shard/cross-shard x with/without attached call, standard two-shard world rebuilt for every run); each is run fault-free to learn its D dependency calls and their kinds, then once for every k in [0, D) with the k-th dependency call failing (monitors: not Ok, no panic, stops right after the failed call, same calls as the fault-free run up to k) and once with k = D (no effect); plus random walks in which every successful call is re-executed from its own pre-state with every k. Every execution is re-evaluated in the Coq model with the same plan (status, and number of dependency calls of Ok runs). saved_if_modified is monitored on every successful run. distinct = distinct (pre-state, call, k)."
	c17Enumerate(c, u)
	enumEvals := c.rep.Evaluations
	// random walks
	worlds, ops, budget := 3, 200, 900
	if c.thorough() || c.widen {
		worlds, ops, budget = 40, 500, 30000
	}
	st := &c17WalkStats{}
	c.walk(u, walkOpts{Worlds: worlds, Ops: ops, Proj: c17Proj, Monitors: []monitor{c17WalkMonitor(st, budget)},
		EmitProb: 4, Tune: func(g *gen) { g.wHostile = 4; g.wDeliver = 20 }})
	c.rep.Extra["walks"] = map[string]interface{}{"worlds": worlds, "ops_per_world": ops, "successful_calls_with_dependencies": st.calls,
		"fault_runs": st.faults, "max_D": st.maxD, "evaluations": c.rep.Evaluations - enumEvals}
	sup := map[string]int{}
	for s, n := range c17FailSeen {
		if n > 1 {
			sup[s] = n - 1
		}
	}
	if len(sup) > 0 {
		c.rep.Extra["suppressed_repeats"] = sup
	}
	// exhaustive refers to the enumeration part: every (scenario, k) of the table was executed
	c.rep.Exhaustive = true
	_ = bytes.Equal
	_ = sort.Strings
}
