package main

// World operations on top of node.go: user transactions, system-contract calls, delivery and
// refund of in-flight cross-shard messages (DESIGN.md section 3.4), plus balance bookkeeping
// used by the monitors.

import (
	"bytes"
	"fmt"
	"math/big"
	"sort"
	"strings"

	vmcommon "github.com/ElrondNetwork/elrond-vm-common"
	"github.com/ElrondNetwork/elrond-vm-common/data/esdt"
	"github.com/ElrondNetwork/elrond-vm-common/parsers"
)

var builtinNames = []string{"ClaimDeveloperRewards", "ChangeOwnerAddress", "SetUserName", "SaveKeyValue", "ESDTPause", "ESDTUnPause",
	"ESDTTransfer", "ESDTBurn", "ESDTFreeze", "ESDTUnFreeze", "ESDTWipe", "ESDTUnSetRole", "ESDTSetRole", "ESDTLocalBurn", "ESDTLocalMint",
	"ESDTNFTAddQuantity", "ESDTNFTBurn", "ESDTNFTCreate", "ESDTNFTTransfer", "ESDTNFTCreateRoleTransfer", "ESDTNFTUpdateAttributes",
	"ESDTNFTAddURI", "MultiESDTNFTTransfer"}

func isBuiltin(n string) bool {
	for _, b := range builtinNames {
		if b == n {
			return true
		}
	}
	return false
}

type opKind int

const (
	opTx opKind = iota
	opSys
	opDeliver
	opRedeliver
	opRefund
)

type worldOp struct {
	DeliverGas *uint64 // walk hint: deliver the messages this operation emits with this gas instead of their own gas limit
	Kind opKind
	Call *callSpec // opTx / opSys
	ID   int       // message id for deliver / refund
	Gas  uint64
}

func (o *worldOp) String() string {
	switch o.Kind {
	case opTx:
		return "TX " + describeCall(o.Call)
	case opSys:
		return "SYS " + describeCall(o.Call)
	case opDeliver:
		return fmt.Sprintf("DELIVER %d gas=%d", o.ID, o.Gas)
	case opRedeliver:
		return fmt.Sprintf("REDELIVER %d gas=%d", o.ID, o.Gas)
	}
	return fmt.Sprintf("REFUND %d gas=%d", o.ID, o.Gas)
}

type stepResult struct {
	Op      *worldOp
	Call    *callSpec // the execution performed (nil if the op was skipped)
	Res     *callResult
	Skipped bool
	NewMsgs []*hMsg
}

func (w *hWorld) findMsg(id int) *hMsg {
	for _, m := range w.inflight {
		if m.ID == id {
			return m
		}
	}
	return nil
}
func (w *hWorld) dropMsg(id int) {
	for i, m := range w.inflight {
		if m.ID == id {
			w.inflight = append(w.inflight[:i:i], w.inflight[i+1:]...)
			return
		}
	}
}

var callParser = parsers.NewCallArgsParser()

// collect turns the output transfers of a successful origin-side execution into in-flight messages.
func (w *hWorld) collect(cs *callSpec, out *vmcommon.VMOutput) []*hMsg {
	var msgs []*hMsg
	emitted := false
	var keys []string
	for k := range out.OutputAccounts {
		keys = append(keys, k)
	}
	sort.Strings(keys)
	for _, k := range keys {
		oa := out.OutputAccounts[k]
		for _, t := range oa.OutputTransfers {
			if len(t.Data) == 0 {
				continue
			}
			fn, args, err := callParser.ParseData(string(t.Data))
			if err != nil || !isBuiltin(fn) {
				continue // a contract call, executed by the VM: outside this library
			}
			if w.shardOf(oa.Address) == cs.Shard && fn != "ESDTNFTCreateRoleTransfer" {
				continue // executed locally by the VM
			}
			caller := t.SenderAddress
			if w.shardOf(caller) != cs.Shard {
				caller = cs.Rcpt
			}
			if fn == "ESDTNFTCreateRoleTransfer" && w.shardOf(oa.Address) == cs.Shard {
				continue // the hand-over was completed on this shard
			}
			m := &hMsg{ID: w.nextID, Fn: fn, Caller: append([]byte(nil), caller...), Dest: append([]byte(nil), oa.Address...), Args: args,
				CallType: t.CallType, GasLimit: t.GasLimit, Locked: t.GasLocked, Origin: cs.Shard, Sender: append([]byte(nil), cs.Caller...)}
			w.nextID++
			msgs = append(msgs, m)
			emitted = true
		}
	}
	// a user transaction addressed to another shard travels there itself
	if !emitted && w.shardOf(cs.Rcpt) != cs.Shard && w.shardOf(cs.Rcpt) != metaShard && w.shardOf(cs.Caller) == cs.Shard {
		switch cs.Fn {
		case "ESDTTransfer", "ChangeOwnerAddress", "ClaimDeveloperRewards":
			m := &hMsg{ID: w.nextID, Fn: cs.Fn, Caller: append([]byte(nil), cs.Caller...), Dest: append([]byte(nil), cs.Rcpt...), Args: cloneArgs(cs.Args),
				CallType: cs.CallType, GasLimit: cs.Gas, Locked: cs.Locked, Origin: cs.Shard, Sender: append([]byte(nil), cs.Caller...)}
			w.nextID++
			msgs = append(msgs, m)
		}
	}
	return msgs
}

func (w *hWorld) step(op *worldOp) *stepResult {
	sr := &stepResult{Op: op}
	switch op.Kind {
	case opTx, opSys:
		cs := op.Call
		if int(cs.Shard) >= w.nShards {
			sr.Skipped = true
			return sr
		}
		sr.Call = cs
		sr.Res = w.exec(cs)
		if sr.Res.Status == 0 && sr.Res.Out != nil {
			sr.NewMsgs = w.collect(cs, sr.Res.Out)
			w.inflight = append(w.inflight, sr.NewMsgs...)
		}
	case opDeliver, opRedeliver:
		m := w.findMsg(op.ID)
		if m == nil || int(w.shardOf(m.Dest)) >= w.nShards {
			sr.Skipped = true
			return sr
		}
		sh := w.shardOf(m.Dest)
		cs := &callSpec{Shard: sh, Fn: m.Fn, Caller: m.Caller, Rcpt: m.Dest, Args: cloneArgs(m.Args), Value: big.NewInt(0), Gas: op.Gas,
			Locked: m.Locked, CallType: m.CallType, Snd: w.shardOf(m.Caller) == sh, Dst: true, FailAt: -1}
		sr.Call = cs
		sr.Res = w.exec(cs)
		if sr.Res.Status == 0 {
			if op.Kind == opDeliver {
				w.dropMsg(op.ID)
			}
			if sr.Res.Out != nil {
				sr.NewMsgs = w.collect(cs, sr.Res.Out)
				w.inflight = append(w.inflight, sr.NewMsgs...)
			}
		} else {
			w.failed[op.ID] = true
		}
	case opRefund:
		m := w.findMsg(op.ID)
		if m == nil || !w.failed[op.ID] || int(w.shardOf(m.Sender)) >= w.nShards {
			sr.Skipped = true
			return sr
		}
		sh := w.shardOf(m.Sender)
		cs := &callSpec{Shard: sh, Fn: m.Fn, Caller: m.Dest, Rcpt: m.Sender, Args: cloneArgs(m.Args), Value: big.NewInt(0), Gas: op.Gas,
			CallType: vmcommon.AsynchronousCallBack, RAE: true, Snd: w.shardOf(m.Dest) == sh, Dst: true, FailAt: -1}
		sr.Call = cs
		sr.Res = w.exec(cs)
		if sr.Res.Status == 0 {
			w.dropMsg(op.ID)
			delete(w.failed, op.ID)
		}
	}
	return sr
}

// ---------- decoded views used by monitors ----------
var esdtPrefix = []byte("ELRONDesdt")
var rolePrefix = []byte("ELRONDroleesdt")
var noncePrefix = []byte("ELRONDnonce")

func decodeToken(b []byte) (*esdt.ESDigitalToken, error) {
	t := &esdt.ESDigitalToken{}
	if err := t.Unmarshal(b); err != nil {
		return nil, err
	}
	return t, nil
}

// balanceOf: value of the decoded entry under ELRONDesdt‖k; 0 if absent, undecodable or nil value
func balanceOf(a *hAccount, k string) *big.Int {
	b, ok := a.storage[string(esdtPrefix)+k]
	if !ok {
		return big.NewInt(0)
	}
	t, err := decodeToken(b)
	if err != nil || t.Value == nil {
		return big.NewInt(0)
	}
	return new(big.Int).Set(t.Value)
}

// credits: what the destination side would credit for a message, per storage-level key suffix
func (m *hMsg) credits() map[string]*big.Int {
	out := map[string]*big.Int{}
	add := func(k string, v *big.Int) {
		if v == nil {
			return
		}
		if out[k] == nil {
			out[k] = big.NewInt(0)
		}
		out[k].Add(out[k], v)
	}
	switch m.Fn {
	case "ESDTTransfer":
		if len(m.Args) >= 2 {
			add(string(m.Args[0]), new(big.Int).SetBytes(m.Args[1]))
		}
	case "ESDTNFTTransfer":
		if len(m.Args) >= 4 {
			if t, err := decodeToken(m.Args[3]); err == nil && t.Value != nil {
				n := uint64(0)
				if t.TokenMetaData != nil {
					n = t.TokenMetaData.Nonce
				}
				add(string(m.Args[0])+string(new(big.Int).SetUint64(n).Bytes()), t.Value)
			}
		}
	case "MultiESDTNFTTransfer":
		if len(m.Args) >= 1 {
			n := new(big.Int).SetBytes(m.Args[0])
			if n.IsUint64() && n.Uint64() <= uint64(len(m.Args))/3 {
				for i := uint64(0); i < n.Uint64(); i++ {
					s := 1 + 3*i
					if s+2 >= uint64(len(m.Args)) {
						break
					}
					nonce := new(big.Int).SetBytes(m.Args[s+1]).Uint64()
					if nonce > 0 {
						if t, err := decodeToken(m.Args[s+2]); err == nil && t.Value != nil {
							mn := uint64(0)
							if t.TokenMetaData != nil {
								mn = t.TokenMetaData.Nonce
							}
							add(string(m.Args[s])+string(new(big.Int).SetUint64(mn).Bytes()), t.Value)
						}
					} else {
						add(string(m.Args[s]), new(big.Int).SetBytes(m.Args[s+2]))
					}
				}
			}
		}
	}
	return out
}

// totals: for every storage-level key suffix, sum of balances over all accounts on all shards + in-flight credits
func (w *hWorld) totals() map[string]*big.Int {
	tot := map[string]*big.Int{}
	for _, sh := range w.shards {
		for _, a := range sh.accounts {
			for k := range a.storage {
				if strings.HasPrefix(k, string(esdtPrefix)) {
					suf := k[len(esdtPrefix):]
					if tot[suf] == nil {
						tot[suf] = big.NewInt(0)
					}
					tot[suf].Add(tot[suf], balanceOf(a, suf))
				}
			}
		}
	}
	for _, m := range w.inflight {
		for k, v := range m.credits() {
			if tot[k] == nil {
				tot[k] = big.NewInt(0)
			}
			tot[k].Add(tot[k], v)
		}
	}
	for k, v := range tot {
		if v.Sign() == 0 {
			delete(tot, k)
		}
	}
	return tot
}

func totalsEqual(a, b map[string]*big.Int) (string, bool) {
	for k, v := range a {
		o := b[k]
		if o == nil {
			o = big.NewInt(0)
		}
		if v.Cmp(o) != 0 {
			return k, false
		}
	}
	for k, v := range b {
		if a[k] == nil && v.Sign() != 0 {
			return k, false
		}
	}
	return "", true
}

// allBalances: (shard, address, key suffix) -> balance, for frame monitors
func (w *hWorld) allBalances() map[string]*big.Int {
	out := map[string]*big.Int{}
	for _, sh := range w.shards {
		for ak, a := range sh.accounts {
			for k := range a.storage {
				if strings.HasPrefix(k, string(esdtPrefix)) {
					suf := k[len(esdtPrefix):]
					v := balanceOf(a, suf)
					if v.Sign() != 0 {
						out[fmt.Sprintf("%d/%x/%x", sh.id, ak, suf)] = v
					}
				}
			}
		}
	}
	return out
}

func (w *hWorld) digest() string {
	var sb strings.Builder
	for _, sh := range w.shards {
		fmt.Fprintf(&sb, "S%d:%s;", sh.id, digestAccounts(sh.accounts))
	}
	for _, m := range w.inflight {
		fmt.Fprintf(&sb, "M%d:%s:%x->%x:%x;", m.ID, m.Fn, m.Caller, m.Dest, bytes.Join(m.Args, []byte{'|'}))
	}
	return sb.String()
}
