package main

// C19 — the container, the atomics and gas reconfiguration are safe under concurrency.
//
// The REAL container.MutexMap, the REAL function container, the REAL atomic types and the REAL priced built-in
// functions (built by the real factory) are driven by 2–16 goroutines:
//   (a) random mixes of Get / Insert(Add) / Set(Replace) / Remove / Len / Keys; call/return histories with
//       timestamps from one global atomic counter are checked for linearizability against the sequential map
//       specification (porcupine); a sample of the linearizations found is re-checked by the Coq specification;
//   (b) atomics: single-thread scripts (every result), concurrent add / set / toggle / reset mixes (final value is
//       the sequential result of some order; for adds: the sum; Set() on an unset flag has exactly one winner;
//       increments hand out unique tickets; Reset loses nothing; loads never see a torn value);
//   (c) executions of ESDTNFTAddURI / ESDTNFTUpdateAttributes / ESDTNFTCreate / SaveKeyValue / ESDTNFTTransfer and
//       MultiESDTNFTTransfer (cross-shard sender side) racing with
//       GasScheduleChange (factory) and direct SetNewGasConfig between two schedules with pairwise distinct prices:
//       every successful execution's charge equals the formula under exactly ONE schedule; epoch notifications
//       race with IsActive;
//   (d) the same workloads under the race detector: a second binary is built with `go build -race` and run as a
//       subprocess for a time budget (runner C19RACE); any "WARNING: DATA RACE" is a monitor failure.
// PARTIAL by design: the Go scheduler, memory model, sync and sync/atomic are trusted; schedules are sampled.

import (
	"bytes"
	"crypto/sha1"
	"encoding/hex"
	"encoding/json"
	"errors"
	"fmt"
	"math"
	"math/big"
	"math/rand"
	"os"
	"os/exec"
	"path/filepath"
	"reflect"
	"runtime"
	"sort"
	"strings"
	"sync"
	gosync "sync/atomic"
	"time"

	vmcommon "github.com/ElrondNetwork/elrond-vm-common"
	vmatomic "github.com/ElrondNetwork/elrond-vm-common/atomic"
	"github.com/ElrondNetwork/elrond-vm-common/builtInFunctions"
	"github.com/ElrondNetwork/elrond-vm-common/container"
	"github.com/anishathalye/porcupine"
)

func init() {
	runners["C19"] = runC19
	runners["C19RACE"] = runC19Race
}

var c19FailSeen = map[string]int{}

func c19Fail(c *ctx, sig, what string, replay interface{}) {
	c19FailSeen[sig]++
	if c19FailSeen[sig] == 1 {
		c.fail("monitor", sig, what, replay)
	}
}

// ---------------------------------------------------------------- global clock

var c19Clock int64

func c19Tick() int64 { return gosync.AddInt64(&c19Clock, 1) }

// ---------------------------------------------------------------- map / container histories

const (
	c19Get = iota
	c19Insert
	c19Set
	c19Remove
	c19Len
	c19Keys
)

var c19KindNames = []string{"Get", "Insert", "Set", "Remove", "Len", "Keys"}
var c19KeyNames = []string{"a", "b", "c", "d"}

// error codes of the container
const (
	c19Ok = iota
	c19ErrInvalidKey
	c19ErrNilElement
	c19ErrEmptyName
	c19ErrExists
	c19ErrOther
)

type c19Op struct {
	Idx    int   `json:"idx"`
	Cont   bool  `json:"on_container"`
	Thread int   `json:"thread"`
	Kind   int   `json:"kind"`
	Key    int   `json:"key"` // index into c19KeyNames; -1 = "" (container only)
	Val    int   `json:"val"` // 1..; 0 = nil function (container only)
	Yield  bool  `json:"yield"`
	Spin   int   `json:"spin"` // busy iterations before the call (spreads the operations of a goroutine in time)
	Call   int64 `json:"call"`
	Ret    int64 `json:"ret"`
	ROk    bool  `json:"r_ok"`
	RVal   int   `json:"r_val"`
	RN     int   `json:"r_n"`
	RKeys  int   `json:"r_keys"` // bitmask over c19KeyNames
	RErr   int   `json:"r_err"`
}

func (o c19Op) String() string {
	k := "\"\""
	if o.Key >= 0 {
		k = c19KeyNames[o.Key]
	}
	call, res := "", ""
	errs := []string{"nil", "ErrInvalidContainerKey", "ErrNilContainerElement", "ErrEmptyFunctionName", "ErrContainerKeyAlreadyExists", "unexpected"}
	switch o.Kind {
	case c19Get:
		call = fmt.Sprintf("Get(%s)", k)
		if o.Cont {
			res = fmt.Sprintf("function #%d, err %s", o.RVal, errs[o.RErr])
		} else {
			res = fmt.Sprintf("(%d, %v)", o.RVal, o.ROk)
		}
	case c19Insert:
		if o.Cont {
			call, res = fmt.Sprintf("Add(%s, function #%d)", k, o.Val), "err "+errs[o.RErr]
		} else {
			call, res = fmt.Sprintf("Insert(%s, %d)", k, o.Val), fmt.Sprint(o.ROk)
		}
	case c19Set:
		if o.Cont {
			call, res = fmt.Sprintf("Replace(%s, function #%d)", k, o.Val), "err "+errs[o.RErr]
		} else {
			call, res = fmt.Sprintf("Set(%s, %d)", k, o.Val), "()"
		}
	case c19Remove:
		call, res = fmt.Sprintf("Remove(%s)", k), "()"
	case c19Len:
		call, res = "Len()", fmt.Sprintf("%d", o.RN)
	case c19Keys:
		var ks []string
		for i, n := range c19KeyNames {
			if o.RKeys&(1<<uint(i)) != 0 {
				ks = append(ks, n)
			}
		}
		call, res = "Keys()", "{"+strings.Join(ks, ",")+"}"
	}
	return fmt.Sprintf("goroutine %d: %s called@%d returned@%d -> %s", o.Thread, call, o.Call, o.Ret, res)
}

// c19Fn is a minimal built-in function object stored in the container
type c19Fn struct{ id int }

func (f *c19Fn) ProcessBuiltinFunction(_, _ vmcommon.UserAccountHandler, _ *vmcommon.ContractCallInput) (*vmcommon.VMOutput, error) {
	return &vmcommon.VMOutput{}, nil
}
func (f *c19Fn) SetNewGasConfig(*vmcommon.GasCost) {}
func (f *c19Fn) IsActive() bool                    { return true }
func (f *c19Fn) IsInterfaceNil() bool              { return f == nil }

var c19Fns = func() []*c19Fn {
	var l []*c19Fn
	for i := 0; i <= 8; i++ {
		l = append(l, &c19Fn{id: i})
	}
	return l
}()

func c19KeyString(k int) string {
	if k < 0 {
		return ""
	}
	return c19KeyNames[k]
}

// c19GenPrograms draws the programs of one round (deterministic in rng)
// c19GenPrograms returns the programs and whether the round runs in lockstep (the k-th calls of all goroutines
// are released together)
func c19GenPrograms(rng *rand.Rand, onContainer bool) ([][]c19Op, bool) {
	nThreads := 2 + rng.Intn(15) // 2..16
	if rng.Intn(3) == 0 {
		nThreads = 2 + rng.Intn(3)
	}
	maxOps := 6
	if nThreads > 8 {
		maxOps = 4
	}
	nKeys := 1 + rng.Intn(len(c19KeyNames))
	mode := rng.Intn(3) // 0: calls spread in time; 1: back-to-back calls; 2: lockstep
	dense := mode != 0
	if mode == 1 {
		maxOps += 2
	}
	progs := make([][]c19Op, nThreads)
	idx := 0
	for t := range progs {
		n := 1 + rng.Intn(maxOps)
		for j := 0; j < n; j++ {
			op := c19Op{Idx: idx, Cont: onContainer, Thread: t, Key: rng.Intn(nKeys), Val: 1 + rng.Intn(6)}
			if !dense {
				op.Yield, op.Spin = rng.Intn(6) == 0, rng.Intn(4)*rng.Intn(60)
			}
			switch r := rng.Intn(20); {
			case r < 5:
				op.Kind = c19Get
			case r < 9:
				op.Kind = c19Insert
			case r < 12:
				op.Kind = c19Set
			case r < 15:
				op.Kind = c19Remove
			case r < 17:
				op.Kind = c19Len
			default:
				op.Kind = c19Keys
			}
			if onContainer && rng.Intn(25) == 0 {
				op.Key = -1
			}
			if onContainer && rng.Intn(25) == 0 {
				op.Val = 0
			}
			progs[t] = append(progs[t], op)
			idx++
		}
	}
	return progs, mode == 2
}

func c19ContainerErr(err error) int {
	switch {
	case err == nil:
		return c19Ok
	case errors.Is(err, builtInFunctions.ErrInvalidContainerKey):
		return c19ErrInvalidKey
	case errors.Is(err, builtInFunctions.ErrNilContainerElement):
		return c19ErrNilElement
	case errors.Is(err, builtInFunctions.ErrEmptyFunctionName):
		return c19ErrEmptyName
	case errors.Is(err, builtInFunctions.ErrContainerKeyAlreadyExists):
		return c19ErrExists
	}
	return c19ErrOther
}

// c19RunMapRound executes the programs concurrently on a fresh real object and returns the recorded history
func c19RunMapRound(progs [][]c19Op, onContainer bool, lockstep bool) []c19Op {
	maxLen := 0
	for _, p := range progs {
		if len(p) > maxLen {
			maxLen = len(p)
		}
	}
	steps := make([]int32, maxLen+1)
	mm := container.NewMutexMap()
	fc := builtInFunctions.NewBuiltInFunctionContainer()
	var ready int32
	var wg sync.WaitGroup
	for t := range progs {
		wg.Add(1)
		go func(p []c19Op) {
			defer wg.Done()
			c19Barrier(&ready, int32(len(progs)))
			if lockstep {
				defer func(done int) {
					// keep the later barriers complete for the goroutines that still have calls
					for k := done; k < maxLen; k++ {
						gosync.AddInt32(&steps[k], 1)
					}
				}(len(p))
			}
			for i := range p {
				if lockstep {
					c19Barrier(&steps[i], int32(len(progs)))
				}
				o := &p[i]
				if o.Yield {
					runtime.Gosched()
				}
				for k := 0; k < o.Spin; k++ {
					gosync.LoadInt32(&ready)
				}
				key := c19KeyString(o.Key)
				o.Call = c19Tick()
				if !onContainer {
					switch o.Kind {
					case c19Get:
						v, ok := mm.Get(key)
						o.ROk = ok
						if ok {
							o.RVal = v.(int)
						}
					case c19Insert:
						o.ROk = mm.Insert(key, o.Val)
					case c19Set:
						mm.Set(key, o.Val)
					case c19Remove:
						mm.Remove(key)
					case c19Len:
						o.RN = mm.Len()
					case c19Keys:
						for _, k := range mm.Keys() {
							o.RKeys |= 1 << uint(strings.Index("abcd", k.(string)))
						}
					}
				} else {
					var fn vmcommon.BuiltinFunction
					if o.Val > 0 {
						fn = c19Fns[o.Val]
					}
					switch o.Kind {
					case c19Get:
						f, err := fc.Get(key)
						o.RErr = c19ContainerErr(err)
						if err == nil {
							if cf, ok := f.(*c19Fn); ok {
								o.RVal = cf.id
							} else {
								o.RErr = c19ErrOther
							}
						}
					case c19Insert:
						o.RErr = c19ContainerErr(fc.Add(key, fn))
					case c19Set:
						o.RErr = c19ContainerErr(fc.Replace(key, fn))
					case c19Remove:
						fc.Remove(key)
					case c19Len:
						o.RN = fc.Len()
					case c19Keys:
						for k := range fc.Keys() {
							if i := strings.Index("abcd", k); i >= 0 && k != "" {
								o.RKeys |= 1 << uint(i)
							} else {
								o.RErr = c19ErrOther
							}
						}
					}
				}
				o.Ret = c19Tick()
			}
		}(progs[t])
	}
	wg.Wait()
	var hist []c19Op
	for _, p := range progs {
		hist = append(hist, p...)
	}
	sort.Slice(hist, func(i, j int) bool { return hist[i].Idx < hist[j].Idx })
	return hist
}

// the sequential specification (Go side; the Coq side is spec / cspec of Concurrency/MutexMapLin.v).
// state: one byte per key of c19KeyNames, 0 = absent, else the value
func c19Model(onContainer bool) porcupine.Model {
	return porcupine.Model{
		Init: func() interface{} { return "\x00\x00\x00\x00" },
		Step: func(st interface{}, in interface{}, out interface{}) (bool, interface{}) {
			s := st.(string)
			o := in.(c19Op) // the recorded operation carries its own results
			present := func(k int) bool { return k >= 0 && s[k] != 0 }
			with := func(k int, v byte) string { b := []byte(s); b[k] = v; return string(b) }
			if onContainer && (o.Kind == c19Insert || o.Kind == c19Set) {
				if o.Val == 0 {
					return o.RErr == c19ErrNilElement, s
				}
				if o.Key < 0 {
					return o.RErr == c19ErrEmptyName, s
				}
			}
			switch o.Kind {
			case c19Get:
				if onContainer {
					if !present(o.Key) {
						return o.RErr == c19ErrInvalidKey, s
					}
					return o.RErr == c19Ok && o.RVal == int(s[o.Key]), s
				}
				if !present(o.Key) {
					return !o.ROk, s
				}
				return o.ROk && o.RVal == int(s[o.Key]), s
			case c19Insert:
				if present(o.Key) {
					if onContainer {
						return o.RErr == c19ErrExists, s
					}
					return !o.ROk, s
				}
				if onContainer {
					return o.RErr == c19Ok, with(o.Key, byte(o.Val))
				}
				return o.ROk, with(o.Key, byte(o.Val))
			case c19Set:
				return o.RErr == c19Ok, with(o.Key, byte(o.Val))
			case c19Remove:
				if o.Key < 0 {
					return true, s
				}
				return true, with(o.Key, 0)
			case c19Len:
				n := 0
				for i := 0; i < len(s); i++ {
					if s[i] != 0 {
						n++
					}
				}
				return o.RN == n && o.RErr == c19Ok, s
			case c19Keys:
				m := 0
				for i := 0; i < len(s); i++ {
					if s[i] != 0 {
						m |= 1 << uint(i)
					}
				}
				return o.RKeys == m && o.RErr == c19Ok, s
			}
			return false, s
		},
	}
}

func c19Overlaps(hist []c19Op) bool {
	for i := range hist {
		for j := range hist {
			if hist[i].Thread != hist[j].Thread && hist[i].Call < hist[j].Ret && hist[j].Call < hist[i].Ret {
				return true
			}
		}
	}
	return false
}

func c19HistKey(hist []c19Op) string {
	h := sha1.New()
	l := append([]c19Op(nil), hist...)
	sort.Slice(l, func(i, j int) bool { return l[i].Call < l[j].Call })
	base := int64(0)
	if len(l) > 0 {
		base = l[0].Call
	}
	// the history up to renaming of timestamps: order of all call/return events
	type ev struct {
		t   int64
		txt string
	}
	var evs []ev
	for _, o := range l {
		evs = append(evs, ev{o.Call - base, fmt.Sprintf("c%d/%d/%d/%d", o.Thread, o.Kind, o.Key, o.Val)})
		evs = append(evs, ev{o.Ret - base, fmt.Sprintf("r%d/%v/%d/%d/%d/%d", o.Thread, o.ROk, o.RVal, o.RN, o.RKeys, o.RErr)})
	}
	sort.Slice(evs, func(i, j int) bool { return evs[i].t < evs[j].t })
	for _, e := range evs {
		h.Write([]byte(e.txt + ";"))
	}
	return hex.EncodeToString(h.Sum(nil))
}

func c19CoqKey(k int) string {
	if k < 0 {
		return "[]"
	}
	return cBytes([]byte(c19KeyNames[k]))
}

func c19CoqKeys(mask int) string {
	var l []string
	for i := range c19KeyNames {
		if mask&(1<<uint(i)) != 0 {
			l = append(l, c19CoqKey(i))
		}
	}
	return cList(l)
}

func c19CoqMapOp(o c19Op) (string, string) {
	k := c19CoqKey(o.Key)
	switch o.Kind {
	case c19Get:
		if o.ROk {
			return "(Get " + k + ")", "(RVal (Some " + cN(uint64(o.RVal)) + "))"
		}
		return "(Get " + k + ")", "(RVal None)"
	case c19Insert:
		return fmt.Sprintf("(Insert %s %s)", k, cN(uint64(o.Val))), "(RBool " + cBool(o.ROk) + ")"
	case c19Set:
		return fmt.Sprintf("(Set_ %s %s)", k, cN(uint64(o.Val))), "RUnit"
	case c19Remove:
		return "(Remove " + k + ")", "RUnit"
	case c19Len:
		return "Len", "(RNat " + cNat(o.RN) + ")"
	}
	return "Keys", "(RKeys " + c19CoqKeys(o.RKeys) + ")"
}

func c19CoqErr(e int) string {
	switch e {
	case c19Ok:
		return "COk"
	case c19ErrInvalidKey:
		return "CErrInvalidKey"
	case c19ErrNilElement:
		return "CErrNilElement"
	case c19ErrEmptyName:
		return "CErrEmptyName"
	case c19ErrExists:
		return "CErrExists"
	}
	return "CImpossible"
}

func c19CoqContainerOp(o c19Op) (string, string) {
	k := c19CoqKey(o.Key)
	f := "None"
	if o.Val > 0 {
		f = "(Some " + cN(uint64(o.Val)) + ")"
	}
	switch o.Kind {
	case c19Get:
		if o.RErr == c19Ok {
			return "(MutexMapLin.CGet " + k + ")", "(CFun " + cN(uint64(o.RVal)) + ")"
		}
		return "(MutexMapLin.CGet " + k + ")", c19CoqErr(o.RErr)
	case c19Insert:
		return fmt.Sprintf("(MutexMapLin.CAdd %s %s)", k, f), c19CoqErr(o.RErr)
	case c19Set:
		return fmt.Sprintf("(CReplace %s %s)", k, f), c19CoqErr(o.RErr)
	case c19Remove:
		return "(CRemove " + k + ")", "COk"
	case c19Len:
		if o.RErr != c19Ok {
			return "CLen", "CImpossible"
		}
		return "CLen", "(CNat " + cNat(o.RN) + ")"
	}
	if o.RErr != c19Ok {
		return "CKeys", "CImpossible"
	}
	return "CKeys", "(CKeysR " + c19CoqKeys(o.RKeys) + ")"
}

type c19Stats struct {
	rounds, linOk, linTimeout, overlapping, maxThreads, ops, unchecked int
}

// c19CheckHistory: linearizability of one recorded history; optionally writes the linearization as a Coq case
func c19CheckHistory(c *ctx, hist []c19Op, onContainer bool, wantCase bool, st *c19Stats, timeout time.Duration) {
	what := "mutexmap"
	if onContainer {
		what = "container"
	}
	var ops []porcupine.Operation
	for _, o := range hist {
		ops = append(ops, porcupine.Operation{ClientId: o.Thread, Input: o, Call: o.Call, Output: o.Idx, Return: o.Ret})
	}
	st.rounds++
	st.ops += len(hist)
	ov := c19Overlaps(hist)
	if ov {
		st.overlapping++
	}
	c.note(what+"/"+c19HistKey(hist), ov)
	threads := 0
	for _, o := range hist {
		if o.Thread+1 > threads {
			threads = o.Thread + 1
		}
	}
	if threads > st.maxThreads {
		st.maxThreads = threads
	}
	c.count(fmt.Sprintf("%s-history-threads-%02d", what, threads))
	model := c19Model(onContainer)
	var res porcupine.CheckResult
	var order []c19Op
	if wantCase {
		var info porcupine.LinearizationInfo
		res, info = porcupine.CheckOperationsVerbose(model, ops, timeout)
		if res == porcupine.Ok {
			for _, part := range info.PartialLinearizationsOperations() {
				for _, lin := range part {
					if len(lin) == len(hist) {
						order = order[:0]
						for _, op := range lin {
							order = append(order, op.Input.(c19Op))
						}
					}
				}
			}
		}
	} else {
		res = porcupine.CheckOperationsTimeout(model, ops, timeout)
	}
	switch res {
	case porcupine.Ok:
		st.linOk++
	case porcupine.Unknown:
		st.linTimeout++ // not a violation: the search ran out of time
		c.count(what + "-linearizability-check-timeout")
		return
	case porcupine.Illegal:
		var lines []string
		for _, o := range hist {
			lines = append(lines, o.String())
		}
		c19Fail(c, "linearizability-"+what, fmt.Sprintf("a recorded history of %d operations by %d goroutines on the real %s has no linearization to the sequential map specification", len(hist), threads, what),
			map[string]interface{}{"object": what, "history": hist, "readable": lines})
		return
	}
	if wantCase && len(order) == len(hist) && c.prop == "C19" {
		var items []string
		for _, o := range order {
			var op, r string
			ctor := "LOp"
			if onContainer {
				op, r = c19CoqContainerOp(o)
				ctor = "CLOp"
			} else {
				op, r = c19CoqMapOp(o)
			}
			items = append(items, fmt.Sprintf("%s %d %s %s %s %s", ctor, o.Idx, cN(uint64(o.Call)), cN(uint64(o.Ret)), op, r))
		}
		k := "KLin"
		if onContainer {
			k = "KCLin"
		}
		c.addCase(fmt.Sprintf("%s %d [%s]", k, len(hist), strings.Join(items, ";\n   ")), fmt.Sprintf("linearization of a %s history: %d ops, %d goroutines", what, len(hist), threads))
		c.count(what + "-linearization-case")
		if ov && threads >= 3 && len(hist) >= 6 {
			var lines []string
			for _, o := range order {
				lines = append(lines, o.String())
			}
			c.sample(map[string]interface{}{"object": what, "goroutines": threads, "linearization_found": lines})
		}
	}
}

// ---------------------------------------------------------------- atomics

func c19RandInt64(rng *rand.Rand) int64 {
	switch rng.Intn(8) {
	case 0:
		return 0
	case 1:
		return 1
	case 2:
		return -1
	case 3:
		return math.MaxInt64
	case 4:
		return math.MinInt64
	case 5:
		return int64(rng.Intn(1000)) - 500
	}
	return int64(rng.Uint64())
}

type c19COp struct {
	kind int // 0 Set 1 Increment 2 Add 3 Decrement 4 Subtract 5 Get 6 Reset 7 GetUint64
	v    int64
}

func (o c19COp) coq() string {
	z := cZ(big.NewInt(o.v))
	switch o.kind {
	case 0:
		return "(CSet " + z + ")"
	case 1:
		return "CIncrement"
	case 2:
		return "(Atomics.CAdd " + z + ")"
	case 3:
		return "CDecrement"
	case 4:
		return "(CSubtract " + z + ")"
	case 5:
		return "Atomics.CGet"
	case 6:
		return "CReset"
	}
	return "CGetUint64"
}

// apply on the real counter; returns the Coq result term
func (o c19COp) apply(ct *vmatomic.Counter) string {
	switch o.kind {
	case 0:
		ct.Set(o.v)
		return "CUnit"
	case 1:
		return "(CInt " + cZ(big.NewInt(ct.Increment())) + ")"
	case 2:
		return "(CInt " + cZ(big.NewInt(ct.Add(o.v))) + ")"
	case 3:
		return "(CInt " + cZ(big.NewInt(ct.Decrement())) + ")"
	case 4:
		return "(CInt " + cZ(big.NewInt(ct.Subtract(o.v))) + ")"
	case 5:
		return "(CInt " + cZ(big.NewInt(ct.Get())) + ")"
	case 6:
		return "(CInt " + cZ(big.NewInt(ct.Reset())) + ")"
	}
	return "(CUint " + cZ(new(big.Int).SetUint64(ct.GetUint64())) + ")"
}

func (o c19COp) delta() uint64 {
	switch o.kind {
	case 1:
		return 1
	case 2:
		return uint64(o.v)
	case 3:
		return ^uint64(0)
	case 4:
		return uint64(-o.v)
	}
	return 0
}

func c19AtomicScripts(c *ctx, n int) {
	for i := 0; i < n; i++ {
		rng := c.rng
		l := 1 + rng.Intn(10)
		switch i % 6 {
		case 0: // Counter
			var ct vmatomic.Counter
			init := c19RandInt64(rng)
			ct.Set(init)
			var ops, res []string
			for j := 0; j < l; j++ {
				o := c19COp{kind: rng.Intn(8), v: c19RandInt64(rng)}
				ops = append(ops, o.coq())
				res = append(res, o.apply(&ct))
			}
			c.addCase(fmt.Sprintf("KCounterSeq %s %s %s %s", cZ(big.NewInt(init)), cList(ops), cList(res), cZ(big.NewInt(ct.Get()))), "Counter script "+strings.Join(ops, " "))
			c.note("counter-script/"+strings.Join(ops, ",")+fmt.Sprint(init), true)
			c.count("atomic-script-counter")
		case 1: // Flag
			var fl vmatomic.Flag
			var ops, res []string
			for j := 0; j < l; j++ {
				switch rng.Intn(5) {
				case 0:
					ops, res = append(ops, "FSet"), append(res, "(FBool "+cBool(fl.Set())+")")
				case 1:
					fl.Unset()
					ops, res = append(ops, "FUnset"), append(res, "FUnit")
				case 2:
					ops, res = append(ops, "FIsSet"), append(res, "(FBool "+cBool(fl.IsSet())+")")
				default:
					b := rng.Intn(2) == 0
					fl.Toggle(b)
					ops, res = append(ops, "(FToggle "+cBool(b)+")"), append(res, "FUnit")
				}
			}
			fin := uint64(0)
			if fl.IsSet() {
				fin = 1
			}
			c.addCase(fmt.Sprintf("KFlagSeq 0%%N %s %s %s", cList(ops), cList(res), cN(fin)), "Flag script "+strings.Join(ops, " "))
			c.note("flag-script/"+strings.Join(ops, ","), true)
			c.count("atomic-script-flag")
		case 2, 3, 4: // Int64 / Uint32 / Uint64
			var i64 vmatomic.Int64
			var u32 vmatomic.Uint32
			var u64 vmatomic.Uint64
			w := []string{"", "", "WI64", "W32", "W64"}[i%6]
			var ops, res []string
			final := big.NewInt(0)
			for j := 0; j < l; j++ {
				if rng.Intn(2) == 0 {
					raw := c19RandInt64(rng)
					var v *big.Int
					switch w {
					case "WI64":
						i64.Set(raw)
						v = big.NewInt(raw)
					case "W32":
						u32.Set(uint32(raw))
						v = new(big.Int).SetUint64(uint64(uint32(raw)))
					default:
						u64.Set(uint64(raw))
						v = new(big.Int).SetUint64(uint64(raw))
					}
					final = v
					ops, res = append(ops, "(SStore Z "+cZ(v)+")"), append(res, "(SUnit Z)")
				} else {
					var v *big.Int
					switch w {
					case "WI64":
						v = big.NewInt(i64.Get())
					case "W32":
						v = new(big.Int).SetUint64(uint64(u32.Get()))
					default:
						v = new(big.Int).SetUint64(u64.Get())
					}
					ops, res = append(ops, "(SLoad Z)"), append(res, "(SVal Z "+cZ(v)+")")
				}
			}
			c.addCase(fmt.Sprintf("KStoreSeq %s 0%%Z %s %s %s", w, cList(ops), cList(res), cZ(final)), w+" script "+strings.Join(ops, " "))
			c.note("store-script/"+w+strings.Join(ops, ","), true)
			c.count("atomic-script-" + w)
		case 5: // String
			var s vmatomic.String
			var ops, res []string
			for j := 0; j < l; j++ {
				if rng.Intn(2) == 0 {
					b := make([]byte, rng.Intn(5))
					rng.Read(b)
					s.Set(string(b))
					ops, res = append(ops, "(SStore bytes "+cBytes(b)+")"), append(res, "(SUnit bytes)")
				} else {
					ops, res = append(ops, "(SLoad bytes)"), append(res, "(SVal bytes "+cBytes([]byte(s.Get()))+")")
				}
			}
			c.addCase(fmt.Sprintf("KStringSeq %s %s %s", cList(ops), cList(res), cBytes([]byte(s.Get()))), "String script "+strings.Join(ops, " "))
			c.note("string-script/"+strings.Join(ops, ","), true)
			c.count("atomic-script-string")
		}
	}
}

// c19Go runs f(t) in n goroutines released together
func c19Go(n int, f func(t int)) {
	var ready int32
	var wg sync.WaitGroup
	for t := 0; t < n; t++ {
		wg.Add(1)
		go func(t int) {
			defer wg.Done()
			c19Barrier(&ready, int32(n))
			f(t)
		}(t)
	}
	wg.Wait()
}

// c19Barrier: all n goroutines leave together (spinning, so that they really run at the same time)
func c19Barrier(ready *int32, n int32) {
	gosync.AddInt32(ready, 1)
	for i := 0; gosync.LoadInt32(ready) < n; i++ {
		if i%64 == 63 {
			runtime.Gosched()
		}
	}
}

// c19AtomicRound: one concurrent round of a randomly chosen kind; emit says whether Coq cases may be written
func c19AtomicRound(c *ctx, emit bool) (emitted bool) {
	rng := c.rng
	n := 2 + rng.Intn(15)
	kind := rng.Intn(7)
	switch kind {
	case 0: // add-only mix: the sum
		var ct vmatomic.Counter
		init := c19RandInt64(rng)
		ct.Set(init)
		progs := make([][]c19COp, n)
		sum := uint64(init)
		for t := range progs {
			for j, l := 0, 1+rng.Intn(6); j < l; j++ {
				o := c19COp{kind: 1 + rng.Intn(4), v: c19RandInt64(rng)}
				progs[t] = append(progs[t], o)
				sum += o.delta()
			}
		}
		c19Go(n, func(t int) {
			for _, o := range progs[t] {
				switch o.kind {
				case 1:
					ct.Increment()
				case 2:
					ct.Add(o.v)
				case 3:
					ct.Decrement()
				case 4:
					ct.Subtract(o.v)
				}
			}
		})
		final := ct.Get()
		var ps []string
		for _, p := range progs {
			var l []string
			for _, o := range p {
				l = append(l, o.coq())
			}
			ps = append(ps, cList(l))
		}
		c.note(fmt.Sprintf("counter-sum/%d/%v", init, progs), true)
		c.count("atomic-concurrent-counter-sum")
		if final != int64(sum) {
			c19Fail(c, "atomic-counter-lost-update", fmt.Sprintf("Counter: %d goroutines of add-like calls from %d ended at %d, the sum is %d", n, init, final, int64(sum)), map[string]interface{}{"init": init, "programs": ps, "final": final})
		}
		if emit {
			emitted = true
			c.addCase(fmt.Sprintf("KCounterSum %s %s %s", cZ(big.NewInt(init)), cList(ps), cZ(big.NewInt(final))), fmt.Sprintf("Counter add-only mix, %d goroutines", n))
		}
	case 1: // tickets: increments return distinct consecutive values
		var ct vmatomic.Counter
		per := 1 + rng.Intn(50)
		got := make([][]int64, n)
		c19Go(n, func(t int) {
			for j := 0; j < per; j++ {
				got[t] = append(got[t], ct.Increment())
			}
		})
		seen := map[int64]bool{}
		okk := true
		for _, l := range got {
			prev := int64(0)
			for _, v := range l {
				if seen[v] || v < 1 || v > int64(n*per) || v <= prev {
					okk = false
				}
				seen[v] = true
				prev = v
			}
		}
		c.note(fmt.Sprintf("counter-tickets/%d/%d", n, per), true)
		c.count("atomic-concurrent-counter-tickets")
		if !okk || ct.Get() != int64(n*per) {
			c19Fail(c, "atomic-counter-lost-update", fmt.Sprintf("Counter: %d goroutines x %d Increment() did not return each of 1..%d exactly once (final %d)", n, per, n*per, ct.Get()), map[string]interface{}{"goroutines": n, "per": per, "returned": got})
		}
	case 2: // Reset (swap) loses nothing
		var ct vmatomic.Counter
		per := 1 + rng.Intn(200)
		resets := make([]int64, n)
		c19Go(n, func(t int) {
			if t%3 == 0 {
				for j := 0; j < 5; j++ {
					resets[t] += ct.Reset()
					runtime.Gosched()
				}
				return
			}
			for j := 0; j < per; j++ {
				ct.Increment()
			}
		})
		total := ct.Get()
		inc := 0
		for t := 0; t < n; t++ {
			total += resets[t]
			if t%3 != 0 {
				inc += per
			}
		}
		c.note(fmt.Sprintf("counter-reset/%d/%d", n, per), true)
		c.count("atomic-concurrent-counter-reset")
		if total != int64(inc) {
			c19Fail(c, "atomic-counter-lost-update", fmt.Sprintf("Counter: increments racing with Reset(): %d increments, Reset() results + final value = %d", inc, total), map[string]interface{}{"goroutines": n, "per": per})
		}
	case 3: // Set() on an unset flag: exactly one winner
		var fl vmatomic.Flag
		prev := make([]bool, n)
		c19Go(n, func(t int) { prev[t] = fl.Set() })
		winners := 0
		for _, p := range prev {
			if !p {
				winners++
			}
		}
		c.note(fmt.Sprintf("flag-winner/%d", n), true)
		c.count("atomic-concurrent-flag-one-winner")
		if winners != 1 || !fl.IsSet() {
			c19Fail(c, "atomic-flag-test-and-set", fmt.Sprintf("Flag: %d concurrent Set() on an unset flag: %d callers were told it was unset", n, winners), map[string]interface{}{"goroutines": n, "previous": prev})
		}
	case 4: // flag writers: the final state is some goroutine's last write
		var fl vmatomic.Flag
		progs := make([][]int, n) // 0 Set 1 Unset 2 IsSet 3 Toggle(true) 4 Toggle(false)
		for t := range progs {
			for j, l := 0, 1+rng.Intn(6); j < l; j++ {
				progs[t] = append(progs[t], rng.Intn(5))
			}
		}
		c19Go(n, func(t int) {
			for _, o := range progs[t] {
				switch o {
				case 0:
					fl.Set()
				case 1:
					fl.Unset()
				case 2:
					fl.IsSet()
				case 3:
					fl.Toggle(true)
				case 4:
					fl.Toggle(false)
				}
			}
		})
		final := fl.IsSet()
		possible, any := false, false
		var ps []string
		for _, p := range progs {
			last := -1
			var l []string
			for _, o := range p {
				l = append(l, []string{"FSet", "FUnset", "FIsSet", "(FToggle true)", "(FToggle false)"}[o])
				if o != 2 {
					last = o
				}
			}
			ps = append(ps, cList(l))
			if last >= 0 {
				any = true
				if (last == 0 || last == 3) == final {
					possible = true
				}
			}
		}
		if !any {
			possible = !final
		}
		c.note(fmt.Sprintf("flag-final/%v", progs), true)
		c.count("atomic-concurrent-flag-final")
		if !possible {
			c19Fail(c, "atomic-flag-final", fmt.Sprintf("Flag: final state %v is not the last write of any goroutine", final), map[string]interface{}{"programs": ps, "final": final})
		}
		if emit {
			f := uint64(0)
			if final {
				f = 1
			}
			emitted = true
			c.addCase(fmt.Sprintf("KFlagFinal 0%%N %s %s", cList(ps), cN(f)), fmt.Sprintf("Flag writer mix, %d goroutines", n))
		}
	case 5: // Int64 / Uint32 / Uint64: no tearing, final is some goroutine's last store
		w := []string{"WI64", "W32", "W64"}[rng.Intn(3)]
		var i64 vmatomic.Int64
		var u32 vmatomic.Uint32
		var u64 vmatomic.Uint64
		// every stored value has equal halves: a torn store would be visible
		pat := func(x uint32) uint64 {
			if w == "W32" {
				x16 := uint64(x & 0xffff)
				return x16<<16 | x16
			}
			return uint64(x)<<32 | uint64(x)
		}
		progs := make([][]int64, n) // >= 0: store pat(v); -1: load
		for t := range progs {
			for j, l := 0, 1+rng.Intn(8); j < l; j++ {
				if rng.Intn(3) == 0 {
					progs[t] = append(progs[t], -1)
				} else {
					progs[t] = append(progs[t], int64(rng.Uint32()>>1))
				}
			}
		}
		loads := make([][]uint64, n)
		c19Go(n, func(t int) {
			for _, o := range progs[t] {
				if o < 0 {
					switch w {
					case "WI64":
						loads[t] = append(loads[t], uint64(i64.Get()))
					case "W32":
						loads[t] = append(loads[t], uint64(u32.Get()))
					default:
						loads[t] = append(loads[t], u64.Get())
					}
					continue
				}
				v := pat(uint32(o))
				switch w {
				case "WI64":
					i64.Set(int64(v))
				case "W32":
					u32.Set(uint32(v))
				default:
					u64.Set(v)
				}
			}
		})
		var final uint64
		switch w {
		case "WI64":
			final = uint64(i64.Get())
		case "W32":
			final = uint64(u32.Get())
		default:
			final = u64.Get()
		}
		stored := map[uint64]bool{0: true}
		lasts := map[uint64]bool{}
		any := false
		var ps []string
		for _, p := range progs {
			var l []string
			last := int64(-1)
			for _, o := range p {
				if o < 0 {
					l = append(l, "(SLoad Z)")
					continue
				}
				v := pat(uint32(o))
				stored[v] = true
				last = o
				z := new(big.Int).SetUint64(v)
				if w == "WI64" {
					z = big.NewInt(int64(v))
				}
				l = append(l, "(SStore Z "+cZ(z)+")")
			}
			ps = append(ps, cList(l))
			if last >= 0 {
				any = true
				lasts[pat(uint32(last))] = true
			}
		}
		c.note(fmt.Sprintf("store-final/%s/%v", w, progs), true)
		c.count("atomic-concurrent-store-" + w)
		for _, l := range loads {
			for _, v := range l {
				if !stored[v] {
					c19Fail(c, "atomic-torn-value", fmt.Sprintf("%s: a Get() returned %#x which no Set() stored", w, v), map[string]interface{}{"width": w, "programs": ps, "loaded": v})
				}
			}
		}
		if (any && !lasts[final]) || (!any && final != 0) {
			c19Fail(c, "atomic-store-final", fmt.Sprintf("%s: final value %#x is not the last Set() of any goroutine", w, final), map[string]interface{}{"width": w, "programs": ps, "final": final})
		}
		if emit {
			z := new(big.Int).SetUint64(final)
			if w == "WI64" {
				z = big.NewInt(int64(final))
			}
			emitted = true
			c.addCase(fmt.Sprintf("KStoreFinal %s 0%%Z %s %s", w, cList(ps), cZ(z)), fmt.Sprintf("%s store mix, %d goroutines", w, n))
		}
	case 6: // String
		var s vmatomic.String
		mk := func(t, j int) string { return strings.Repeat(string(rune('A'+t%26)), 1+j%7) }
		per := 1 + rng.Intn(8)
		loads := make([][]string, n)
		c19Go(n, func(t int) {
			for j := 0; j < per; j++ {
				s.Set(mk(t, j))
				loads[t] = append(loads[t], s.Get())
			}
		})
		okk := true
		for _, l := range loads {
			for _, v := range l {
				if len(v) < 1 || len(v) > 7 || strings.Trim(v, v[:1]) != "" {
					okk = false
				}
			}
		}
		final := s.Get()
		lastOk := false
		for t := 0; t < n; t++ {
			if final == mk(t, per-1) {
				lastOk = true
			}
		}
		c.note(fmt.Sprintf("string/%d/%d", n, per), true)
		c.count("atomic-concurrent-string")
		if !okk || !lastOk {
			c19Fail(c, "atomic-string", fmt.Sprintf("String: a Get() returned a value no Set() stored, or the final value %q is not the last Set() of any goroutine", final), map[string]interface{}{"goroutines": n, "per": per, "final": final})
		}
	}
	return emitted
}

// ---------------------------------------------------------------- gas schedules vs executions, epochs vs IsActive

type c19Sched struct {
	m       map[string]map[string]uint64
	gc      *vmcommon.GasCost
	store   uint64
	persist uint64
	dcopy   uint64
}

func c19MakeSched(base uint64) *c19Sched {
	s := &c19Sched{m: c18GasMap(base), gc: &vmcommon.GasCost{}}
	set := func(v reflect.Value, mm map[string]uint64) {
		for i := 0; i < v.NumField(); i++ {
			v.Field(i).SetUint(mm[v.Type().Field(i).Name])
		}
	}
	set(reflect.ValueOf(&s.gc.BuiltInCost).Elem(), s.m[vmcommon.BuiltInCostString])
	set(reflect.ValueOf(&s.gc.BaseOperationCost).Elem(), s.m[vmcommon.BaseOperationCostString])
	s.store = s.m[vmcommon.BaseOperationCostString]["StorePerByte"]
	s.persist = s.m[vmcommon.BaseOperationCostString]["PersistPerByte"]
	s.dcopy = s.m[vmcommon.BaseOperationCostString]["DataCopyPerByte"]
	return s
}

var c19GasField = map[string]string{
	"ESDTNFTAddURI": "ESDTNFTAddURI", "ESDTNFTUpdateAttributes": "ESDTNFTUpdateAttributes",
	"ESDTNFTCreate": "ESDTNFTCreate", "SaveKeyValue": "SaveKeyValue",
	"ESDTNFTTransfer": "ESDTNFTTransfer", "MultiESDTNFTTransfer": "ESDTNFTMultiTransfer",
}

// c19Coordinator: two shards; addresses starting with 0xD5 live on shard 1, everything else on shard 0 (self)
type c19Coordinator struct{}

func (c19Coordinator) NumberOfShards() uint32 { return 2 }
func (c19Coordinator) ComputeId(a []byte) uint32 {
	if len(a) > 0 && a[0] == 0xD5 {
		return 1
	}
	return 0
}
func (c19Coordinator) SelfId() uint32                        { return 0 }
func (c19Coordinator) SameShard(_, _ []byte) bool            { return false }
func (c19Coordinator) CommunicationIdentifier(uint32) string { return "0_1" }
func (c19Coordinator) IsInterfaceNil() bool                  { return false }

// c19Build is c18Build with the two-shard coordinator (the NFT transfers are then cross-shard on the sender side)
func c19Build(gas map[string]map[string]uint64, activation uint32) (*c18World, error) {
	w := &c18World{notifier: &c18Notifier{}, accounts: c18NewAccounts()}
	f, err := builtInFunctions.NewBuiltInFunctionsFactory(builtInFunctions.ArgsCreateBuiltInFunctionContainer{
		GasMap:                              gas,
		MapDNSAddresses:                     map[string]struct{}{},
		Marshalizer:                         c18Marshalizer{},
		Accounts:                            w.accounts,
		ShardCoordinator:                    c19Coordinator{},
		EpochNotifier:                       w.notifier,
		ESDTNFTImprovementV1ActivationEpoch: activation,
	})
	if err != nil {
		return nil, err
	}
	w.factory = f
	w.container, err = f.CreateBuiltInFunctionContainer()
	if err != nil {
		return nil, err
	}
	return w, nil
}

// c19PayloadBytes: total length of the marshalled NFT payloads in the cross-shard message emitted by the sender side
// (ESDTNFTTransfer@tok@nonce@qty@PAYLOAD..., MultiESDTNFTTransfer@n@(tok@nonce@PAYLOAD)*)
func c19PayloadBytes(out *vmcommon.VMOutput, dst []byte, multi bool) (uint64, int, error) {
	oa := out.OutputAccounts[string(dst)]
	if oa == nil || len(oa.OutputTransfers) != 1 {
		return 0, 0, errors.New("no cross-shard message emitted")
	}
	parts := strings.Split(string(oa.OutputTransfers[0].Data), "@")
	dec := func(i int) ([]byte, error) {
		if i >= len(parts) {
			return nil, errors.New("short message")
		}
		return hex.DecodeString(parts[i])
	}
	if !multi {
		p, err := dec(4)
		return uint64(len(p)), 1, err
	}
	nb, err := dec(1)
	if err != nil {
		return 0, 0, err
	}
	n := int(new(big.Int).SetBytes(nb).Uint64())
	total := uint64(0)
	for i := 0; i < n; i++ {
		p, err := dec(4 + 3*i)
		if err != nil {
			return 0, 0, err
		}
		total += uint64(len(p))
	}
	return total, n, nil
}

func (s *c19Sched) base(fn string) uint64 { return s.m[vmcommon.BuiltInCostString][c19GasField[fn]] }

type c19Exec struct {
	Fn      string `json:"function"`
	Len     uint64 `json:"persisted_bytes"`
	Chg     uint64 `json:"stored_bytes"`
	N       uint64 `json:"base_cost_multiplier"`
	Copy    uint64 `json:"copied_payload_bytes"`
	Charge  uint64 `json:"charge"`
	Err     string `json:"error,omitempty"`
	Worker  int    `json:"worker"`
	Verdict string `json:"verdict"`
}

type c19GasStats struct {
	execs, underA, underB, roundsBothSchedules, rounds, isActiveReads, changes int
}

// c19GasRound: workers execute priced functions on their own accounts while the schedule flips between a and b
func c19GasRound(c *ctx, a, b *c19Sched, gs *c19GasStats, emitCases int) {
	rng := c.rng
	act := uint32(rng.Intn(4))
	w, err := c19Build(a.m, act)
	if err != nil {
		c19Fail(c, "factory-error", "factory failed: "+err.Error(), nil)
		return
	}
	// the system account is read by every NFT save (pause check): load it once, then freeze the adapter's map
	_, _ = w.accounts.LoadAccount(vmcommon.SystemAccountAddress)
	w.accounts.create = false
	fns := map[string]vmcommon.BuiltinFunction{}
	for _, n := range []string{"ESDTNFTAddURI", "ESDTNFTUpdateAttributes", "ESDTNFTCreate", "SaveKeyValue", "ESDTSetRole", "MultiESDTNFTTransfer", "ESDTNFTTransfer"} {
		f, err := w.container.Get(n)
		if err != nil {
			c19Fail(c, "registry-get", "Get("+n+"): "+err.Error(), nil)
			return
		}
		fns[n] = f
	}
	nWorkers := 1 + rng.Intn(12)
	perWorker := 3 + rng.Intn(10)
	tok := []byte("NFT-c19abc")
	// a semi-fungible token with a large quantity and LARGE metadata (load, save and marshal of it lie between the
	// read of the base cost and the read of the data-copy price of the transfer functions), sent 1 at a time to
	// another shard
	sft := []byte("SFT-c19def")
	dst := bytes.Repeat([]byte{0xD5}, 32)
	type job struct {
		fn   string
		args [][]byte
	}
	accs := make([]*c18Account, nWorkers)
	jobs := make([][]job, nWorkers)
	rb := func(n int) []byte { x := make([]byte, n); rng.Read(x); return x }
	for i := range accs {
		addr := bytes.Repeat([]byte{byte(0x20 + i)}, 32)
		accs[i] = c18NewAccount(addr)
		for _, role := range []string{vmcommon.ESDTRoleNFTCreate, vmcommon.ESDTRoleNFTAddURI, vmcommon.ESDTRoleNFTUpdateAttributes} {
			if _, err := fns["ESDTSetRole"].ProcessBuiltinFunction(nil, accs[i], c18Call(vmcommon.ESDTSCAddress, addr, tok, []byte(role))); err != nil {
				c19Fail(c, "gas-setup", "ESDTSetRole failed: "+err.Error(), nil)
				return
			}
		}
		for _, role := range []string{vmcommon.ESDTRoleNFTCreate, vmcommon.ESDTRoleNFTAddQuantity} {
			if _, err := fns["ESDTSetRole"].ProcessBuiltinFunction(nil, accs[i], c18Call(vmcommon.ESDTSCAddress, addr, sft, []byte(role))); err != nil {
				c19Fail(c, "gas-setup", "ESDTSetRole failed: "+err.Error(), nil)
				return
			}
		}
		sftArgs := [][]byte{sft, {1, 0, 0, 0, 0, 0}, []byte("big"), {0}, []byte("h"), rb(2000 + rng.Intn(6000))}
		for k, n := 0, 4+rng.Intn(8); k < n; k++ {
			sftArgs = append(sftArgs, rb(500+rng.Intn(1000)))
		}
		if _, err := fns["ESDTNFTCreate"].ProcessBuiltinFunction(accs[i], nil, c18Call(addr, addr, sftArgs...)); err != nil {
			c19Fail(c, "gas-setup", "ESDTNFTCreate (SFT) failed: "+err.Error(), nil)
			return
		}
		// nonce 1 exists before the race starts
		if _, err := fns["ESDTNFTCreate"].ProcessBuiltinFunction(accs[i], nil, c18Call(addr, addr, tok, []byte{1}, []byte("n"), []byte{0}, []byte("h"), []byte("at"), []byte("u"))); err != nil {
			c19Fail(c, "gas-setup", "ESDTNFTCreate failed: "+err.Error(), nil)
			return
		}
		for j := 0; j < perWorker; j++ {
			switch rng.Intn(7) {
			case 4, 5:
				jobs[i] = append(jobs[i], job{"ESDTNFTTransfer", [][]byte{sft, {1}, {1}, dst}})
			case 6:
				n := 1 + rng.Intn(3)
				args := [][]byte{dst, {byte(n)}}
				for k := 0; k < n; k++ {
					args = append(args, sft, []byte{1}, []byte{1})
				}
				jobs[i] = append(jobs[i], job{"MultiESDTNFTTransfer", args})
			case 0:
				args := [][]byte{tok, {1}}
				for k, n := 0, 1+rng.Intn(3); k < n; k++ {
					args = append(args, rb(1+rng.Intn(40)))
				}
				jobs[i] = append(jobs[i], job{"ESDTNFTAddURI", args})
			case 1:
				jobs[i] = append(jobs[i], job{"ESDTNFTUpdateAttributes", [][]byte{tok, {1}, rb(1 + rng.Intn(60))}})
			case 2:
				args := [][]byte{tok, {1}, rb(1 + rng.Intn(10)), {byte(rng.Intn(100))}, rb(rng.Intn(8)), rb(rng.Intn(20)), rb(1 + rng.Intn(20))}
				jobs[i] = append(jobs[i], job{"ESDTNFTCreate", args})
			default:
				var args [][]byte
				for k, n := 0, 1+rng.Intn(3); k < n; k++ {
					args = append(args, []byte(fmt.Sprintf("k%d", rng.Intn(4))), rb(rng.Intn(30)))
				}
				jobs[i] = append(jobs[i], job{"SaveKeyValue", args})
			}
		}
	}
	results := make([][]c19Exec, nWorkers)
	var stop int32
	var aux sync.WaitGroup
	changes := int64(0)
	// the node's gas-schedule notifier: one goroutine through the factory
	aux.Add(1)
	go func() {
		defer aux.Done()
		for i := 0; gosync.LoadInt32(&stop) == 0; i++ {
			if i%2 == 0 {
				w.factory.GasScheduleChange(b.m)
			} else {
				w.factory.GasScheduleChange(a.m)
			}
			gosync.AddInt64(&changes, 1)
			runtime.Gosched()
		}
	}()
	// direct re-pricing of single objects from two more goroutines (SetNewGasConfig is what takes the write lock)
	for g := 0; g < 2; g++ {
		aux.Add(1)
		go func(g int) {
			defer aux.Done()
			names := []string{"ESDTNFTAddURI", "ESDTNFTTransfer", "ESDTNFTUpdateAttributes", "MultiESDTNFTTransfer", "ESDTNFTCreate", "ESDTNFTTransfer", "SaveKeyValue", "MultiESDTNFTTransfer"}
			for i := g; gosync.LoadInt32(&stop) == 0; i++ {
				s := a
				if (i/len(names))%2 == 0 {
					s = b
				}
				fns[names[i%len(names)]].SetNewGasConfig(s.gc)
				if i%7 == 0 {
					fns[names[i%len(names)]].SetNewGasConfig(nil) // the guard path
				}
				gosync.AddInt64(&changes, 1)
				runtime.Gosched()
			}
		}(g)
	}
	// epoch notifications (one notifier goroutine, as in the node) racing with IsActive
	epochs := make([]uint32, 0, 64)
	for i := 0; i < 64; i++ {
		epochs = append(epochs, uint32(rng.Intn(6)))
	}
	var lastEpoch uint32
	var confirmed int32
	aux.Add(1)
	go func() {
		defer aux.Done()
		for i := 0; gosync.LoadInt32(&stop) == 0 || i == 0; i++ {
			e := epochs[i%len(epochs)]
			w.notifier.confirm(e, uint64(i))
			lastEpoch = e
			gosync.StoreInt32(&confirmed, 1)
			runtime.Gosched()
		}
	}()
	reads := int64(0)
	gated := []vmcommon.BuiltinFunction{fns["ESDTNFTAddURI"], fns["ESDTNFTUpdateAttributes"], fns["MultiESDTNFTTransfer"]}
	aux.Add(1)
	go func() {
		defer aux.Done()
		for gosync.LoadInt32(&stop) == 0 {
			for _, f := range gated {
				_ = f.IsActive()
			}
			gosync.AddInt64(&reads, 3)
			runtime.Gosched()
		}
	}()
	c19Go(nWorkers, func(t int) {
		acc := accs[t]
		for _, jb := range jobs[t] {
			ex := c19Exec{Fn: jb.fn, Worker: t, N: 1}
			switch jb.fn {
			case "ESDTNFTAddURI":
				for _, u := range jb.args[2:] {
					ex.Chg += uint64(len(u))
				}
			case "ESDTNFTUpdateAttributes":
				ex.Chg = uint64(len(jb.args[2]))
			case "ESDTNFTCreate":
				for _, x := range jb.args {
					ex.Chg += uint64(len(x))
				}
			case "SaveKeyValue":
				// the account is owned by this worker: the old values are known before the call
				shadow := map[string][]byte{}
				for k := 0; k < len(jb.args); k += 2 {
					key, val := jb.args[k], jb.args[k+1]
					ex.Len += uint64(len(key) + len(val))
					old, seen := shadow[string(key)]
					if !seen {
						old, _ = acc.RetrieveValue(key)
					}
					if bytes.Equal(old, val) {
						continue
					}
					if len(val) > len(old) {
						ex.Chg += uint64(len(val) - len(old))
					}
					shadow[string(key)] = val
				}
			}
			in := c18Call(acc.addr, acc.addr, jb.args...)
			out, err := fns[jb.fn].ProcessBuiltinFunction(acc, nil, in)
			if err != nil {
				ex.Err = err.Error()
			} else {
				ex.Charge = in.GasProvided - out.GasRemaining
				if jb.fn == "ESDTNFTTransfer" || jb.fn == "MultiESDTNFTTransfer" {
					cp, n, perr := c19PayloadBytes(out, dst, jb.fn == "MultiESDTNFTTransfer")
					if perr != nil {
						ex.Err = "sender side: " + perr.Error()
					}
					ex.Copy, ex.N = cp, uint64(n)
				}
			}
			results[t] = append(results[t], ex)
			if rand.Intn(3) == 0 {
				runtime.Gosched()
			}
		}
	})
	gosync.StoreInt32(&stop, 1)
	aux.Wait()
	gs.rounds++
	gs.changes += int(changes)
	gs.isActiveReads += int(reads)
	// epoch monitor: after the last notification IsActive is exactly (last epoch >= activation epoch)
	if gosync.LoadInt32(&confirmed) == 1 {
		for _, f := range gated {
			if f.IsActive() != (lastEpoch >= act) {
				c19Fail(c, "activation-after-concurrent-notifications", fmt.Sprintf("IsActive() = %v after the last EpochConfirmed(%d) with activation epoch %d (notifications raced with IsActive and executions)", f.IsActive(), lastEpoch, act), map[string]interface{}{"activation": act, "last_epoch": lastEpoch})
			}
		}
	}
	pure := func(s *c19Sched, ex c19Exec) uint64 {
		return ex.N*s.base(ex.Fn) + ex.Len*s.persist + ex.Chg*s.store + ex.Copy*s.dcopy
	}
	na, nb := 0, 0
	for t := range results {
		for _, ex := range results[t] {
			gs.execs++
			c.note(fmt.Sprintf("exec/%s/%d/%d/%d/%d/%d", ex.Fn, ex.N, ex.Len, ex.Chg, ex.Copy, ex.Charge), true)
			c.count("execution-" + ex.Fn)
			if ex.Err != "" {
				c19Fail(c, "gas-execution-error-"+ex.Fn, "an execution with valid arguments failed while schedules were changing: "+ex.Err, ex)
				continue
			}
			pa, pb := pure(a, ex), pure(b, ex)
			switch ex.Charge {
			case pa:
				ex.Verdict = "schedule-a"
				na++
			case pb:
				ex.Verdict = "schedule-b"
				nb++
			default:
				// which mixture, if any
				mix := ""
				for bi, sb := range []*c19Sched{a, b} {
					for pi, sp := range []*c19Sched{a, b} {
						for si, ss := range []*c19Sched{a, b} {
							for di, sd := range []*c19Sched{a, b} {
								if ex.N*sb.base(ex.Fn)+ex.Len*sp.persist+ex.Chg*ss.store+ex.Copy*sd.dcopy == ex.Charge {
									mix = fmt.Sprintf("base cost of schedule %c", 'a'+bi)
									if ex.Len > 0 {
										mix += fmt.Sprintf(", persist-per-byte price of schedule %c", 'a'+pi)
									}
									if ex.Chg > 0 {
										mix += fmt.Sprintf(", store-per-byte price of schedule %c", 'a'+si)
									}
									if ex.Copy > 0 {
										mix += fmt.Sprintf(", data-copy-per-byte price of schedule %c", 'a'+di)
									}
								}
							}
						}
					}
				}
				if mix == "" && ex.N > 1 && ex.Copy%ex.N == 0 {
					// several payloads of one size, each priced separately: k of them by schedule a, the rest by b
					per := ex.Copy / ex.N
					for bi, sb := range []*c19Sched{a, b} {
						for k := uint64(1); k < ex.N; k++ {
							if ex.N*sb.base(ex.Fn)+per*(k*a.dcopy+(ex.N-k)*b.dcopy) == ex.Charge {
								mix = fmt.Sprintf("base cost of schedule %c, data-copy-per-byte price of schedule a for %d payload(s) and of schedule b for %d", 'a'+bi, k, ex.N-k)
							}
						}
					}
				}
				ex.Verdict = "neither"
				if mix != "" {
					c19Fail(c, "gas-mixture-"+ex.Fn, fmt.Sprintf("%s was charged %d = a MIXTURE of two schedules (%s); schedule a gives %d, schedule b gives %d", ex.Fn, ex.Charge, mix, pa, pb),
						map[string]interface{}{"execution": ex, "schedule_a": a.m, "schedule_b": b.m})
				} else {
					c19Fail(c, "gas-charge-"+ex.Fn, fmt.Sprintf("%s was charged %d, which is the formula under neither schedule (a: %d, b: %d)", ex.Fn, ex.Charge, pa, pb),
						map[string]interface{}{"execution": ex, "schedule_a": a.m, "schedule_b": b.m})
				}
			}
			c.count("charged-under-" + ex.Verdict)
			if emitCases > 0 && c.prop == "C19" && ex.Copy > 0 {
				emitCases--
				c.addCase(fmt.Sprintf("KChargeCopy (%s, %s, %s, %s) (%s, %s, %s, %s) %s %s %s",
					cN(a.base(ex.Fn)), cN(a.store), cN(a.persist), cN(a.dcopy), cN(b.base(ex.Fn)), cN(b.store), cN(b.persist), cN(b.dcopy),
					cN(ex.N), cN(ex.Copy), cN(ex.Charge)), fmt.Sprintf("charge of %s sender side (%d transfer(s), %d payload bytes) while schedules changed", ex.Fn, ex.N, ex.Copy))
			} else if emitCases > 0 && c.prop == "C19" {
				emitCases--
				c.addCase(fmt.Sprintf("KCharge (%s, %s, %s, %s) (%s, %s, %s, %s) %s %s %s",
					cN(a.base(ex.Fn)), cN(a.store), cN(a.persist), cN(a.dcopy), cN(b.base(ex.Fn)), cN(b.store), cN(b.persist), cN(b.dcopy),
					cN(ex.Len), cN(ex.Chg), cN(ex.Charge)), fmt.Sprintf("charge of %s (persisted %d, stored %d bytes) while schedules changed", ex.Fn, ex.Len, ex.Chg))
			}
		}
	}
	gs.underA += na
	gs.underB += nb
	if na > 0 && nb > 0 {
		gs.roundsBothSchedules++
		if len(c.rep.Samples) < 8 && rng.Intn(4) == 0 {
			c.sample(map[string]interface{}{"gas_round": map[string]int{"workers": nWorkers, "executions_charged_by_schedule_a": na, "by_schedule_b": nb, "schedule_changes": int(changes)}})
		}
	}
}

// ---------------------------------------------------------------- the stress body (also what runs under -race)

type c19Totals struct {
	mapStats, contStats c19Stats
	gas                 c19GasStats
	atomicRounds        int
}

func c19Stress(c *ctx, budget time.Duration, mapRounds, atomicRounds, gasRounds int, caseBudget int, linTimeout time.Duration) *c19Totals {
	tot := &c19Totals{}
	a, b := c19MakeSched(1000), c19MakeSched(5000000)
	t0 := time.Now()
	// time-boxed runs last for the budget, and a little longer on a loaded machine until 1000 map rounds are done
	grace := budget
	if grace > 60*time.Second {
		grace = 60 * time.Second
	}
	expired := func() bool {
		el := time.Since(t0)
		return budget > 0 && el >= budget && (tot.mapStats.rounds >= 1000 || el >= budget+grace)
	}
	mapCases, contCases, atomCases, gasCases := caseBudget*35/100, caseBudget*35/100, caseBudget*10/100, caseBudget*20/100
	mapRound := func(round int) {
		for _, onC := range []bool{false, true} {
			progs, lockstep := c19GenPrograms(c.rng, onC)
			hist := c19RunMapRound(progs, onC, lockstep)
			st, left := &tot.mapStats, &mapCases
			if onC {
				st, left = &tot.contStats, &contCases
			}
			// prefer overlapping histories for the Coq sample
			want := *left > 0 && budget == 0 && (c19Overlaps(hist) || round%5 == 0)
			if want {
				*left--
			}
			if budget > 0 && len(hist) > 30 {
				// under the race detector the search is slow and not the point: long histories are only executed
				st.rounds++
				st.ops += len(hist)
				st.unchecked++
				c.note("unchecked-history", false)
				continue
			}
			c19CheckHistory(c, hist, onC, want, st, linTimeout)
		}
	}
	atomicRound := func() {
		if c19AtomicRound(c, atomCases > 0 && budget == 0) {
			atomCases--
		}
		tot.atomicRounds++
	}
	gasRound := func() {
		n := 0
		if budget == 0 && gasCases > 0 {
			n = 6
			gasCases -= n
		}
		c19GasRound(c, a, b, &tot.gas, n)
	}
	if budget > 0 {
		// time-boxed (the -race binary): many cheap map / atomic rounds per (expensive) gas round
		for round := 0; !expired(); round++ {
			for k := 0; k < 40 && !expired(); k++ {
				mapRound(round*40 + k)
			}
			for k := 0; k < 30 && !expired(); k++ {
				atomicRound()
			}
			if !expired() {
				gasRound()
			}
		}
		return tot
	}
	for round := 0; round < mapRounds || round < atomicRounds || round < gasRounds; round++ {
		if round < mapRounds {
			mapRound(round)
		}
		if round < atomicRounds {
			atomicRound()
		}
		if round < gasRounds {
			gasRound()
		}
	}
	return tot
}

func (t *c19Totals) extra() map[string]interface{} {
	return map[string]interface{}{
		"mutexmap_histories": t.mapStats.rounds, "mutexmap_linearizable": t.mapStats.linOk, "mutexmap_checker_timeouts": t.mapStats.linTimeout,
		"mutexmap_histories_with_overlap": t.mapStats.overlapping, "mutexmap_operations": t.mapStats.ops, "mutexmap_histories_executed_not_checked": t.mapStats.unchecked,
		"container_histories": t.contStats.rounds, "container_linearizable": t.contStats.linOk, "container_checker_timeouts": t.contStats.linTimeout,
		"container_histories_with_overlap": t.contStats.overlapping, "container_operations": t.contStats.ops, "container_histories_executed_not_checked": t.contStats.unchecked,
		"max_goroutines":           maxInt(t.mapStats.maxThreads, t.contStats.maxThreads),
		"atomic_concurrent_rounds": t.atomicRounds,
		"gas_rounds":               t.gas.rounds, "gas_executions": t.gas.execs, "charged_wholly_by_schedule_a": t.gas.underA, "charged_wholly_by_schedule_b": t.gas.underB,
		"gas_rounds_with_executions_under_both_schedules": t.gas.roundsBothSchedules, "schedule_changes_during_executions": t.gas.changes,
		"is_active_reads_during_notifications": t.gas.isActiveReads,
	}
}

func maxInt(a, b int) int {
	if a > b {
		return a
	}
	return b
}

const c19Rule = "Schedules are sampled, not enumerated (the property is partial by design). Each map/container round draws 2-16 goroutines with 1-6 random operations each (Get, Insert/Add, Set/Replace, Remove, Len, Keys over 1-4 keys; nil element and empty name on the container), runs them on a fresh real object released from a barrier with random yields, records call/return timestamps from one global atomic counter and checks the history against the sequential map specification with porcupine (a checker timeout is counted, not failed); a sample of the linearizations found is replayed by the Coq specification. Atomics: single-thread scripts over boundary values (every result compared with the model) and concurrent rounds (sum of adds, unique increment tickets, Reset loses nothing, one winner of Set, final value is some goroutine's last write, no torn loads). Gas: 1-12 workers execute ESDTNFTAddURI / ESDTNFTUpdateAttributes / ESDTNFTCreate / SaveKeyValue and the cross-shard sender side of ESDTNFTTransfer / MultiESDTNFTTransfer (a semi-fungible token with large metadata, 1 unit per transfer; charge = n x base + marshalled payload bytes x DataCopyPerByte, payload length read from the emitted message) on their own accounts while one goroutine flips the factory between two schedules with pairwise distinct prices, two more call SetNewGasConfig directly, one confirms epochs and one reads IsActive; every charge must equal the formula under exactly one schedule. The same workloads are then run in a second binary built with -race for a time budget; any data race report fails. A case is non-trivial when its history has operations of different goroutines overlapping in time (maps), or its programs/inputs are distinct (atomics, executions)."

func runC19(c *ctx) {
	c.header = "From Coq.Strings Require Import String.\nFrom EV Require Import Base.Bytes Concurrency.RWLock Concurrency.MutexMapLin Concurrency.Atomics Concurrency.GasScheduleAtomic Corr.C19.\n"
	c.perFile = 700
	c.rep.Rule = c19Rule
	runtime.GOMAXPROCS(maxInt(runtime.GOMAXPROCS(0), 4))
	mapRounds, atomicRounds, gasRounds, scripts, caseBudget := 4000, 3000, 200, 240, 1100
	raceBudget := 20 * time.Second
	if c.thorough() || c.widen {
		mapRounds, atomicRounds, gasRounds, scripts, caseBudget = 15000, 10000, 800, 600, 2400
		raceBudget = 240 * time.Second
	}
	if s := os.Getenv("C19_RACE_SECONDS"); s != "" {
		var n int
		if _, err := fmt.Sscan(s, &n); err == nil {
			raceBudget = time.Duration(n) * time.Second
		}
	}
	c19AtomicScripts(c, scripts)
	tot := c19Stress(c, 0, mapRounds, atomicRounds, gasRounds, caseBudget, 2*time.Second)
	extra := tot.extra()

	// the race-detector run: a separate process, after the timing-sensitive part (it would steal the cores)
	rr := c19SpawnRace(c.out, c.seed, raceBudget)
	extra["race_detector"] = rr.summary
	c.rep.Extra = extra
	if rr.buildErr != "" {
		c19Fail(c, "race-build-failed", "the harness could not be built with -race, so the data-race part of the property was not exercised: "+rr.buildErr, map[string]string{"output": rr.buildErr})
	}
	for _, r := range rr.races {
		c19Fail(c, "data-race", "the race detector reported a data race while the real code ran the C19 workloads", map[string]interface{}{"report": r, "rerun": "cd /verif/harness && go build -race -tags verif -o /tmp/harness_race . && /tmp/harness_race C19RACE -out /tmp/c19race"})
	}
	if rr.crashed != "" {
		c19Fail(c, "race-run-crashed", "the -race binary crashed: "+rr.crashed, map[string]string{"output": rr.crashed})
	}
	for _, f := range rr.failures {
		c19Fail(c, f.Sig, "(under the race detector) "+f.What, f.Replay)
	}
	c.rep.Evaluations += rr.evaluations
}

// ---------------------------------------------------------------- the -race subprocess

type c19RaceResult struct {
	summary     map[string]interface{}
	buildErr    string
	races       []string
	crashed     string
	failures    []failure
	evaluations int
}

func c19HarnessDir() string {
	if d := os.Getenv("VERIF_HARNESS_DIR"); d != "" {
		return d
	}
	if _, err := os.Stat("go.mod"); err == nil {
		if _, err := os.Stat("c19.go"); err == nil {
			wd, _ := os.Getwd()
			return wd
		}
	}
	return "/verif/harness"
}

func c19SpawnRace(out string, seed int64, budget time.Duration) c19RaceResult {
	res := c19RaceResult{summary: map[string]interface{}{"budget_s": budget.Seconds()}}
	if budget <= 0 {
		res.summary["skipped"] = "C19_RACE_SECONDS=0"
		return res
	}
	bin := filepath.Join(out, "harness_race")
	env := append(os.Environ(), "GOFLAGS=-mod=mod", "GOPROXY=off", "GOSUMDB=off", "GOTOOLCHAIN=local", "CGO_ENABLED=1")
	var buildOut []byte
	var err error
	t0 := time.Now()
	for attempt := 0; attempt < 2; attempt++ {
		cmd := exec.Command("go", "build", "-race", "-tags", "verif", "-o", bin, ".")
		cmd.Dir = c19HarnessDir()
		cmd.Env = env
		buildOut, err = cmd.CombinedOutput()
		if err == nil {
			break
		}
		time.Sleep(15 * time.Second)
	}
	res.summary["build_s"] = time.Since(t0).Seconds()
	if err != nil {
		res.buildErr = err.Error() + ": " + tail(string(buildOut), 1500)
		return res
	}
	rdir := filepath.Join(out, "race")
	_ = os.MkdirAll(rdir, 0o755)
	cmd := exec.Command(bin, "C19RACE", "-seed", fmt.Sprint(seed), "-out", rdir)
	cmd.Env = append(env, fmt.Sprintf("C19_RACE_SECONDS=%d", int(budget.Seconds())), "GORACE=halt_on_error=0 history_size=3")
	var stderr, stdout bytes.Buffer
	cmd.Stderr, cmd.Stdout = &stderr, &stdout
	done := make(chan error, 1)
	t0 = time.Now()
	if err := cmd.Start(); err != nil {
		res.crashed = err.Error()
		return res
	}
	go func() { done <- cmd.Wait() }()
	select {
	case err = <-done:
	case <-time.After(budget + 180*time.Second):
		_ = cmd.Process.Kill()
		err = <-done
		res.summary["killed_after_s"] = time.Since(t0).Seconds()
	}
	res.summary["run_s"] = time.Since(t0).Seconds()
	se := stderr.String()
	// split the race reports
	parts := strings.Split(se, "==================")
	for _, p := range parts {
		if strings.Contains(p, "WARNING: DATA RACE") {
			if len(res.races) < 5 {
				res.races = append(res.races, tail(strings.TrimSpace(p), 4000))
			}
		}
	}
	res.summary["data_races_reported"] = strings.Count(se, "WARNING: DATA RACE")
	data, rerr := os.ReadFile(filepath.Join(rdir, "report.json"))
	if rerr != nil {
		if len(res.races) == 0 {
			res.crashed = fmt.Sprintf("no report written (%v); stderr: %s", err, tail(se, 1500))
		}
		return res
	}
	var rep report
	if json.Unmarshal(data, &rep) == nil {
		res.failures = rep.Failures
		res.evaluations = rep.Evaluations
		res.summary["evaluations_under_race_detector"] = rep.Evaluations
		res.summary["workloads_under_race_detector"] = rep.Extra
	}
	_ = os.RemoveAll(rdir)
	_ = os.Remove(bin)
	return res
}

func tail(s string, n int) string {
	if len(s) <= n {
		return s
	}
	return s[len(s)-n:]
}

// runC19Race is the body executed by the -race binary: the same workloads for a time budget, no Coq cases
func runC19Race(c *ctx) {
	c.rep.Rule = c19Rule
	budget := 20 * time.Second
	if s := os.Getenv("C19_RACE_SECONDS"); s != "" {
		var n int
		if _, err := fmt.Sscan(s, &n); err == nil && n > 0 {
			budget = time.Duration(n) * time.Second
		}
	}
	runtime.GOMAXPROCS(maxInt(runtime.GOMAXPROCS(0), 4))
	// also touch Values(), which the container never calls
	mm := container.NewMutexMap()
	c19Go(8, func(t int) {
		for i := 0; i < 200; i++ {
			mm.Set(i%5, t)
			_ = mm.Values()
			_ = mm.Keys()
			mm.Remove((i + 1) % 5)
		}
	})
	tot := c19Stress(c, budget, 0, 0, 0, 0, 500*time.Millisecond)
	c.rep.Extra = tot.extra()
	c.cases, c.descs = nil, nil
}
