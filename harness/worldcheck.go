package main

// WORLD: self-test of the history-level correspondence (Go node simulator vs Coq Ledger/World.v).
func init() {
	runners["WORLD"] = func(c *ctx) {
		u := newUniverse()
		c.rep.Rule = "random walks; whole histories replayed by the Coq world model"
		c.walk(u, walkOpts{Worlds: 5, Ops: 120, Proj: "proj_all", Hist: true, MaxCases: 1})
	}
}
