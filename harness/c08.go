package main

// C08: NFT metadata travels intact with the tokens.  Monitors on the real code (every executed call) +
// scenario families (metadata pools, routes of 1..4 hops, hash mismatch, AddURI / UpdateAttributes) +
// random walks; every executed call is also re-evaluated by the Coq model (state, logs, transfers).

import (
	"bytes"
	"errors"
	"fmt"
	"math/big"
	"sort"
	"strings"

	"github.com/ElrondNetwork/elrond-vm-common/builtInFunctions"
	"github.com/ElrondNetwork/elrond-vm-common/data/esdt"
)

// ---------- decoded transfer calls (shared with c10.go) ----------
type xferItem struct {
	tok     []byte
	nonce   uint64 // as requested (argument)
	qtyArg  []byte // origin side, and fungible items on the destination side
	payload []byte // destination side, NFT items: the marshalled entry
	argIdx  int    // index of the token identifier in Args
}
type xferInfo struct {
	fn      string
	origin  bool // origin-side form (NFT / multi: caller = recipient; ESDTTransfer: the sender account is on the executing shard)
	dest    []byte
	items   []xferItem
	callIdx int // index of the attached function name (>= len(Args): none)
}

func isTransferFn(fn string) bool {
	return fn == "ESDTTransfer" || fn == "ESDTNFTTransfer" || fn == "MultiESDTNFTTransfer"
}

// parseTransferCall reads a transfer call the way the three functions index their arguments (nil when too short)
func parseTransferCall(cs *callSpec) *xferInfo {
	a := cs.Args
	u64 := func(b []byte) uint64 { return new(big.Int).SetBytes(b).Uint64() }
	switch cs.Fn {
	case "ESDTTransfer":
		if len(a) < 2 {
			return nil
		}
		return &xferInfo{fn: cs.Fn, origin: cs.Snd, dest: cs.Rcpt, items: []xferItem{{tok: a[0], qtyArg: a[1]}}, callIdx: 2}
	case "ESDTNFTTransfer":
		if len(a) < 4 {
			return nil
		}
		if bytes.Equal(cs.Caller, cs.Rcpt) {
			return &xferInfo{fn: cs.Fn, origin: true, dest: a[3], items: []xferItem{{tok: a[0], nonce: u64(a[1]), qtyArg: a[2]}}, callIdx: 4}
		}
		return &xferInfo{fn: cs.Fn, dest: cs.Rcpt, items: []xferItem{{tok: a[0], nonce: u64(a[1]), qtyArg: a[2], payload: a[3]}}, callIdx: 4}
	case "MultiESDTNFTTransfer":
		if len(a) < 4 {
			return nil
		}
		x := &xferInfo{fn: cs.Fn, dest: cs.Rcpt}
		start, cnt := 1, a[0]
		if bytes.Equal(cs.Caller, cs.Rcpt) {
			x.origin, x.dest, start, cnt = true, a[0], 2, a[1]
		}
		n := u64(cnt)
		if n == 0 || n > uint64(len(a))/3 || uint64(len(a)) < 3*n+uint64(start) {
			return nil
		}
		for i := 0; i < int(n); i++ {
			s := start + 3*i
			it := xferItem{tok: a[s], nonce: u64(a[s+1]), qtyArg: a[s+2], argIdx: s}
			if !x.origin && it.nonce > 0 {
				it.payload, it.qtyArg = a[s+2], nil
			}
			x.items = append(x.items, it)
		}
		x.callIdx = start + 3*int(n)
		return x
	}
	return nil
}

// ---------- metadata views ----------
func metaEq(a, b *esdt.MetaData) bool {
	if a == nil || b == nil {
		return a == b
	}
	if a.Nonce != b.Nonce || a.Royalties != b.Royalties || !bytes.Equal(a.Name, b.Name) || !bytes.Equal(a.Creator, b.Creator) ||
		!bytes.Equal(a.Hash, b.Hash) || !bytes.Equal(a.Attributes, b.Attributes) || len(a.URIs) != len(b.URIs) {
		return false
	}
	for i := range a.URIs {
		if !bytes.Equal(a.URIs[i], b.URIs[i]) {
			return false
		}
	}
	return true
}

func metaStr(m *esdt.MetaData) string {
	if m == nil {
		return "<none>"
	}
	short := func(b []byte) string {
		if len(b) > 12 {
			return fmt.Sprintf("%x..(%d bytes)", b[:12], len(b))
		}
		return fmt.Sprintf("%x", b)
	}
	var us []string
	for _, u := range m.URIs {
		us = append(us, short(u))
	}
	return fmt.Sprintf("{nonce %d name %s creator %s royalties %d hash %s attributes %s uris [%s]}", m.Nonce, short(m.Name), short(m.Creator), m.Royalties, short(m.Hash), short(m.Attributes), strings.Join(us, ","))
}

// nftEntries: every storage entry of the ELRONDesdt family that decodes and carries metadata, keyed by account ‖ 0 ‖ storage key
func nftEntries(m map[string]*hAccount) map[string]*esdt.ESDigitalToken {
	out := map[string]*esdt.ESDigitalToken{}
	for ak, a := range m {
		for k, v := range a.storage {
			if !strings.HasPrefix(k, string(esdtPrefix)) {
				continue
			}
			t, err := decodeToken(v)
			if err != nil || t.TokenMetaData == nil {
				continue
			}
			out[ak+"\x00"+k] = t
		}
	}
	return out
}
func entKey(addr []byte, tok []byte, nonce uint64) string {
	return string(addr) + "\x00" + nftKey(tok, nonce)
}
func entSuffix(k string) string { // storage-level token‖nonce of an entry key
	i := strings.IndexByte(k, 0)
	for i >= 0 && !strings.HasPrefix(k[i+1:], string(esdtPrefix)) {
		j := strings.IndexByte(k[i+1:], 0)
		if j < 0 {
			return ""
		}
		i += 1 + j
	}
	return k[i+1+len(esdtPrefix):]
}

// ---------- monitor ----------
type c08World struct {
	allowed map[string][]*esdt.MetaData // token‖nonce -> metadata values produced by creation / AddURI / UpdateAttributes
}
type c08Mon struct {
	worlds map[*hWorld]*c08World
}

func newC08Mon() *c08Mon { return &c08Mon{worlds: map[*hWorld]*c08World{}} }

func (st *c08World) allow(suffix string, m *esdt.MetaData) {
	for _, x := range st.allowed[suffix] {
		if metaEq(x, m) {
			return
		}
	}
	st.allowed[suffix] = append(st.allowed[suffix], m)
}
func (st *c08World) isAllowed(suffix string, m *esdt.MetaData) bool {
	for _, x := range st.allowed[suffix] {
		if metaEq(x, m) {
			return true
		}
	}
	return false
}

const sigF4b = "F4b-alias-metadata-nonce"

func (m *c08Mon) mon(c *ctx, w *hWorld, _ *worldSnap, sr *stepResult, hist []string) {
	cs, res := sr.Call, sr.Res
	st, ok := m.worlds[w]
	if !ok {
		// first sight of this world: whatever exists already counts as created (walk worlds are populated before the walk)
		st = &c08World{allowed: map[string][]*esdt.MetaData{}}
		m.worlds[w] = st
		for i, sh := range w.shards {
			accts := sh.accounts
			if uint32(i) == cs.Shard {
				accts = res.Pre
			}
			for k, e := range nftEntries(accts) {
				st.allow(entSuffix(k), e.TokenMetaData)
			}
		}
		for _, msg := range w.inflight {
			if x := parseTransferCall(&callSpec{Fn: msg.Fn, Caller: msg.Caller, Rcpt: msg.Dest, Args: msg.Args}); x != nil {
				for _, it := range x.items {
					if t, err := decodeToken(it.payload); it.payload != nil && err == nil && t.TokenMetaData != nil {
						st.allow(string(it.tok)+string(be(t.TokenMetaData.Nonce)), t.TokenMetaData)
					}
				}
			}
		}
	}
	fail := func(class, what string) {
		c.fail("monitor", class+"/"+cs.Fn, what, stdReplay(sr, hist))
	}
	if res.Status == 2 {
		c.fail("panic", "panic/"+cs.Fn, cs.Fn+" panics: "+res.PanicMsg, stdReplay(sr, hist))
		return
	}
	if res.Status != 0 || res.Out == nil {
		return
	}
	pre, post := res.Pre, w.shards[cs.Shard].accounts
	preE, postE := nftEntries(pre), nftEntries(post)
	explained := map[string]bool{}
	aliasing := false

	switch cs.Fn {
	case fnCreate:
		m.onCreate(c, st, cs, res, post, postE, explained, fail)
	case "ESDTNFTAddURI", "ESDTNFTUpdateAttributes":
		m.onUpdate(c, st, cs, pre, post, preE, postE, explained, fail)
	case "ESDTNFTTransfer", "MultiESDTNFTTransfer":
		x := parseTransferCall(cs)
		if x == nil {
			fail("transfer-shape", fmt.Sprintf("%s succeeded with an argument list the function cannot index (%d arguments)", cs.Fn, len(cs.Args)))
			break
		}
		local := w.shardOf(x.dest) == cs.Shard
		var msgArgs *xferInfo
		if x.origin && !local && len(sr.NewMsgs) == 1 {
			mm := sr.NewMsgs[0]
			msgArgs = parseTransferCall(&callSpec{Fn: mm.Fn, Caller: mm.Caller, Rcpt: mm.Dest, Args: mm.Args})
		}
		for i, it := range x.items {
			if it.nonce == 0 {
				continue
			}
			var in *esdt.MetaData
			var route string
			inQty := new(big.Int).SetBytes(it.qtyArg)
			if x.origin {
				se := preE[entKey(cs.Caller, it.tok, it.nonce)]
				if se == nil {
					fail("transfer-source", fmt.Sprintf("%s moved %q nonce %d from %x which held no such entry with metadata", cs.Fn, it.tok, it.nonce, cs.Caller))
					continue
				}
				in = se.TokenMetaData
				route = "same-shard"
			} else {
				t, err := decodeToken(it.payload)
				if err != nil || t.TokenMetaData == nil {
					fail("transfer-payload", fmt.Sprintf("%s accepted on the destination side with a payload without metadata for %q", cs.Fn, it.tok))
					continue
				}
				in = t.TokenMetaData
				inQty = new(big.Int)
				if t.Value != nil {
					inQty.Set(t.Value)
				}
				route = []string{"tx", "sys", "deliver", "redeliver", "refund"}[sr.Op.Kind]
			}
			if in.Nonce != it.nonce {
				aliasing = true
			}
			kind := "single"
			if cs.Fn == "MultiESDTNFTTransfer" {
				kind = "multi"
			}
			if !x.origin || local {
				dk := entKey(x.dest, it.tok, in.Nonce)
				explained[dk] = true
				c.count("C08/hop/" + kind + "/" + route)
				if old := preE[dk]; old != nil {
					if !bytes.Equal(old.TokenMetaData.Hash, in.Hash) {
						fail("hash-mismatch-accepted", fmt.Sprintf("%s into %x which holds %q nonce %d with hash %x accepted an incoming copy with hash %x", cs.Fn, x.dest, it.tok, in.Nonce, old.TokenMetaData.Hash, in.Hash))
					} else if !metaEq(old.TokenMetaData, in) {
						c.count("C08/destination-adopts-incoming-metadata (same hash)")
					} else {
						c.count("C08/destination-already-held-the-nonce")
					}
				}
				ne := postE[dk]
				if ne == nil && inQty.Sign() == 0 && preE[dk] == nil {
					c.count("C08/hop/zero-quantity-nothing-arrives")
					continue
				}
				if ne == nil || !metaEq(ne.TokenMetaData, in) {
					got := "<no entry>"
					if ne != nil {
						got = metaStr(ne.TokenMetaData)
					}
					fail("transfer-metadata", fmt.Sprintf("%s (%s, %s) of %q nonce %d to %x: metadata on arrival %s, metadata sent %s", cs.Fn, kind, route, it.tok, in.Nonce, x.dest, got, metaStr(in)))
				}
			} else {
				c.count("C08/hop/" + kind + "/cross-shard-emit")
				var pm *esdt.MetaData
				if msgArgs != nil && i < len(msgArgs.items) && msgArgs.items[i].payload != nil {
					if t, err := decodeToken(msgArgs.items[i].payload); err == nil {
						pm = t.TokenMetaData
						if t.Value == nil || t.Value.Cmp(new(big.Int).SetBytes(it.qtyArg)) != 0 {
							fail("transfer-message-value", fmt.Sprintf("%s cross-shard message for %q nonce %d carries value %v, requested %x", cs.Fn, it.tok, it.nonce, t.Value, it.qtyArg))
						}
					}
				}
				if pm == nil || !metaEq(pm, in) {
					fail("transfer-message-metadata", fmt.Sprintf("%s cross-shard message for %q nonce %d carries metadata %s, sender held %s", cs.Fn, it.tok, it.nonce, metaStr(pm), metaStr(in)))
				}
			}
		}
	}

	// frame: no other executed call (and no other cell of these calls) changes the metadata of an existing entry; no entry with metadata appears from nowhere
	var keys []string
	for k := range postE {
		keys = append(keys, k)
	}
	sort.Strings(keys)
	for _, k := range keys {
		ne := postE[k]
		if !explained[k] {
			oe := preE[k]
			switch {
			case oe == nil:
				if aliasing {
					c.fail("monitor", sigF4b, fmt.Sprintf("%s with a token id ‖ nonce aliasing another entry's key made an entry with metadata appear under %x", cs.Fn, entSuffix(k)), stdReplay(sr, hist))
				} else {
					fail("metadata-entry-appeared", fmt.Sprintf("%s made an entry with metadata %s appear under %x (not a creation, not a credited transfer)", cs.Fn, metaStr(ne.TokenMetaData), entSuffix(k)))
				}
				st.allow(entSuffix(k), ne.TokenMetaData)
				continue
			case !metaEq(oe.TokenMetaData, ne.TokenMetaData):
				fail("metadata-changed", fmt.Sprintf("%s changed the metadata of the existing entry %x: before %s, after %s", cs.Fn, entSuffix(k), metaStr(oe.TokenMetaData), metaStr(ne.TokenMetaData)))
				st.allow(entSuffix(k), ne.TokenMetaData) // reported here; do not blame later calls for the same copy
				continue
			}
		}
		// history level: every stored copy carries a metadata value produced by creation / AddURI / UpdateAttributes
		if !st.isAllowed(entSuffix(k), ne.TokenMetaData) && !aliasing {
			st.allow(entSuffix(k), ne.TokenMetaData) // report once
			fail("copy-differs-from-creation", fmt.Sprintf("after %s the copy of %x at account %x carries metadata %s that no creation / AddURI / UpdateAttributes produced", cs.Fn, entSuffix(k), k[:strings.IndexByte(k, 0)], metaStr(ne.TokenMetaData)))
		}
	}
	// ... and no entry LOSES its metadata while staying in storage (the loop above only sees entries that still carry metadata)
	var pkeys []string
	for k := range preE {
		if postE[k] == nil {
			pkeys = append(pkeys, k)
		}
	}
	sort.Strings(pkeys)
	for _, k := range pkeys {
		i := strings.IndexByte(k, 0)
		acc, ok := post[k[:i]]
		if !ok {
			continue
		}
		raw, still := acc.storage[k[i+1:]]
		if !still || len(raw) == 0 {
			continue // the entry left the account (transferred out, burnt, wiped): other monitors judge that
		}
		if t, err := decodeToken(raw); err == nil && t.TokenMetaData == nil {
			fail("metadata-erased", fmt.Sprintf("%s left the entry %x of account %x in storage (value %v) but WITHOUT its metadata; before: %s", cs.Fn, entSuffix(k), k[:i], t.Value, metaStr(preE[k].TokenMetaData)))
		}
	}
	c.count("C08/frame-checked-calls")
}

func (m *c08Mon) onCreate(c *ctx, st *c08World, cs *callSpec, res *callResult, post map[string]*hAccount, postE map[string]*esdt.ESDigitalToken, explained map[string]bool, fail func(class, what string)) {
	if len(cs.Args) < 7 || len(res.Out.ReturnData) != 1 {
		fail("create-shape", fmt.Sprintf("ESDTNFTCreate succeeded with %d arguments / %d return values", len(cs.Args), len(res.Out.ReturnData)))
		return
	}
	tok := cs.Args[0]
	nonce := new(big.Int).SetBytes(res.Out.ReturnData[0]).Uint64()
	k := entKey(cs.Caller, tok, nonce)
	explained[k] = true
	e := postE[k]
	if e == nil {
		fail("create-metadata", fmt.Sprintf("ESDTNFTCreate of %q returned nonce %d but no entry with metadata is stored under token‖nonce", tok, nonce))
		return
	}
	md := e.TokenMetaData
	want := &esdt.MetaData{Nonce: nonce, Name: cs.Args[2], Creator: cs.Caller, Royalties: md.Royalties, Hash: cs.Args[4], Attributes: cs.Args[5], URIs: cs.Args[6:]}
	if !metaEq(md, want) {
		fail("create-metadata", fmt.Sprintf("ESDTNFTCreate of %q nonce %d recorded %s, arguments say %s", tok, nonce, metaStr(md), metaStr(want)))
	}
	roy := new(big.Int).SetBytes(cs.Args[3])
	switch {
	case md.Royalties > 10000:
		fail("create-royalties", fmt.Sprintf("ESDTNFTCreate of %q stored royalties %d > 10000 (argument %x)", tok, md.Royalties, cs.Args[3]))
	case roy.Cmp(big.NewInt(10000)) <= 0 && roy.Uint64() != uint64(md.Royalties):
		fail("create-royalties", fmt.Sprintf("ESDTNFTCreate of %q stored royalties %d for the argument %s", tok, md.Royalties, roy))
	case roy.Cmp(big.NewInt(10000)) > 0:
		c.count(fmt.Sprintf("C08/create/royalties-argument-above-10000-accepted-after-uint32-truncation (stored %d)", md.Royalties))
	}
	c.count("C08/create-checked")
	if e.Value == nil || e.Value.Cmp(new(big.Int).SetBytes(cs.Args[1])) != 0 {
		fail("create-metadata", fmt.Sprintf("ESDTNFTCreate of %q nonce %d stored quantity %v for the argument %x", tok, nonce, e.Value, cs.Args[1]))
	}
	// the log topic carries the stored bytes
	stored := []byte(nil)
	if a := acctOf(post, cs.Caller); a != nil {
		stored = a.storage[nftKey(tok, nonce)]
	}
	logs := res.Out.Logs
	if len(logs) != 1 || logs[0] == nil || string(logs[0].Identifier) != fnCreate || !bytes.Equal(logs[0].Address, cs.Caller) || len(logs[0].Topics) != 3 ||
		!bytes.Equal(logs[0].Topics[0], tok) || !bytes.Equal(logs[0].Topics[1], be(nonce)) || !bytes.Equal(logs[0].Topics[2], stored) {
		fail("create-log", fmt.Sprintf("ESDTNFTCreate of %q nonce %d: the log entry does not carry (token, nonce, stored bytes) of the caller", tok, nonce))
	}
	st.allow(string(tok)+string(be(nonce)), md)
}

func storageEqualExcept(a, b *hAccount, key string) (string, bool) {
	if a == nil || b == nil {
		return "", a == b
	}
	for k, v := range a.storage {
		if k != key && !bytes.Equal(v, b.storage[k]) {
			return k, false
		}
	}
	for k := range b.storage {
		if _, ok := a.storage[k]; !ok && k != key {
			return k, false
		}
	}
	return "", true
}

func (m *c08Mon) onUpdate(c *ctx, st *c08World, cs *callSpec, pre, post map[string]*hAccount, preE, postE map[string]*esdt.ESDigitalToken, explained map[string]bool, fail func(class, what string)) {
	if len(cs.Args) < 3 {
		fail("update-shape", fmt.Sprintf("%s succeeded with %d arguments", cs.Fn, len(cs.Args)))
		return
	}
	tok := cs.Args[0]
	nonce := new(big.Int).SetBytes(cs.Args[1]).Uint64()
	k := entKey(cs.Caller, tok, nonce)
	oe := preE[k]
	if oe == nil {
		fail("update-target", fmt.Sprintf("%s succeeded on %q nonce %d which %x did not hold with metadata", cs.Fn, tok, nonce, cs.Caller))
		return
	}
	if oe.TokenMetaData.Nonce != nonce {
		// aliasing key (F4b shape): the write goes to the key of the metadata nonce
		c.fail("monitor", sigF4b, fmt.Sprintf("%s on %q nonce %d found an entry whose metadata nonce is %d", cs.Fn, tok, nonce, oe.TokenMetaData.Nonce), map[string]interface{}{"call": describeCall(cs), "pre": digestAccounts(pre)})
		explained[entKey(cs.Caller, tok, oe.TokenMetaData.Nonce)] = true
		return
	}
	explained[k] = true
	ne := postE[k]
	if ne == nil {
		fail("update-effect", fmt.Sprintf("%s on %q nonce %d: the entry is gone", cs.Fn, tok, nonce))
		return
	}
	role := map[string]string{"ESDTNFTAddURI": "ESDTRoleNFTAddURI", "ESDTNFTUpdateAttributes": "ESDTRoleNFTUpdateAttributes"}[cs.Fn]
	if !bytes.Equal(cs.Caller, cs.Rcpt) || roleCount(acctOf(pre, cs.Caller), tok, role) == 0 {
		fail("update-authority", fmt.Sprintf("%s on %q succeeded for %x which does not hold %s on that token (or not on its own account)", cs.Fn, tok, cs.Caller, role))
	}
	want := &esdt.MetaData{}
	*want = *oe.TokenMetaData
	if cs.Fn == "ESDTNFTAddURI" {
		want.URIs = append(append([][]byte{}, oe.TokenMetaData.URIs...), cs.Args[2:]...)
		c.count(fmt.Sprintf("C08/adduri/%d-uris", len(cs.Args)-2))
	} else {
		want.Attributes = cs.Args[2]
		c.count("C08/updateattributes")
	}
	if !metaEq(ne.TokenMetaData, want) {
		fail("update-effect", fmt.Sprintf("%s on %q nonce %d: metadata after %s, expected %s", cs.Fn, tok, nonce, metaStr(ne.TokenMetaData), metaStr(want)))
	}
	if ne.Type != oe.Type || !bytes.Equal(ne.Properties, oe.Properties) || !bytes.Equal(ne.Reserved, oe.Reserved) || (ne.Value == nil) != (oe.Value == nil) || (ne.Value != nil && ne.Value.Cmp(oe.Value) != 0) {
		fail("update-frame", fmt.Sprintf("%s on %q nonce %d changed type / value / properties of the entry", cs.Fn, tok, nonce))
	}
	// nothing else: every other cell of every account of the shard
	for ak, pa := range post {
		oa := pre[ak]
		if oa == nil {
			if len(pa.storage) != 0 || pa.balance.Sign() != 0 {
				fail("update-frame", fmt.Sprintf("%s created state in account %x", cs.Fn, ak))
			}
			continue
		}
		skip := ""
		if ak == string(cs.Caller) {
			skip = nftKey(tok, nonce)
		}
		if bad, ok := storageEqualExcept(oa, pa, skip); !ok {
			fail("update-frame", fmt.Sprintf("%s on %q nonce %d also changed the cell %x of account %x", cs.Fn, tok, nonce, bad, ak))
		}
		if oa.balance.Cmp(pa.balance) != 0 || !bytes.Equal(oa.owner, pa.owner) || !bytes.Equal(oa.username, pa.username) || oa.devReward.Cmp(pa.devReward) != 0 {
			fail("update-frame", fmt.Sprintf("%s changed balance / owner / user name / reward of account %x", cs.Fn, ak))
		}
	}
	st.allow(string(tok)+string(be(nonce)), ne.TokenMetaData)
}

// ---------- scenario families ----------
type c08Meta struct {
	name, hash, attr []byte
	uris             [][]byte
	roy              []byte
}

func (md c08Meta) args(tok []byte, q uint64) [][]byte {
	a := [][]byte{tok, be(q), md.name, md.roy, md.hash, md.attr}
	return append(a, md.uris...)
}

func c08Pool() (names, hashes, attrs [][]byte, uris [][][]byte, roys [][]byte) {
	names = [][]byte{nil, []byte("n"), []byte("a name"), bytes.Repeat([]byte{'N'}, 300)}
	hashes = [][]byte{nil, bytes.Repeat([]byte{0xab}, 32), []byte("h"), bytes.Repeat([]byte{0x00}, 4), bytes.Repeat([]byte{0x7e}, 200)}
	attrs = [][]byte{nil, []byte("a=b;c=d"), {0}, bytes.Repeat([]byte("attr;"), 300)}
	uris = [][][]byte{{nil}, {[]byte("u")}, {nil, nil}, {[]byte("uri1"), nil, []byte("uri3")},
		{[]byte("a"), []byte("b"), []byte("c"), nil, bytes.Repeat([]byte{'U'}, 400), []byte("f")}}
	two32 := uint64(1) << 32
	roys = [][]byte{nil, {0}, be(1), be(9999), be(10000), be(10001), be(two32 + 1), be(two32 + 10000), be(two32 + 10001), be(two32 - 1), be(1<<64 - 1),
		append([]byte{1}, make([]byte, 8)...), append([]byte{1, 0, 0, 0, 0, 0, 0, 0}, 5), {0, 0, 0x27, 0x10}}
	return
}

type c08Run struct {
	c      *ctx
	u      *universe
	budget *caseBudget
	mon    *c08Mon
}

func (r *c08Run) newScn(name string, v int) *scn {
	s := newScn(r.c, r.u, name, v, nil, r.budget)
	s.mons = []monitor{r.mon.mon}
	s.lite = true
	for _, a := range [][]byte{r.u.U[0], r.u.U[1], r.u.U[2], r.u.K[0]} {
		for _, t := range r.u.Fung {
			mustOK(s.w.sys(r.u, a, "ESDTTransfer", t, be(1000)), "issue")
		}
	}
	return s
}

func (r *c08Run) metaAt(s *scn, addr, tok []byte, nonce uint64) *esdt.MetaData {
	sh := s.w.shardOf(addr)
	if int(sh) >= s.w.nShards {
		return nil
	}
	a := s.w.shards[sh].accounts[string(addr)]
	if a == nil {
		return nil
	}
	t, err := decodeToken(a.storage[nftKey(tok, nonce)])
	if err != nil || len(a.storage[nftKey(tok, nonce)]) == 0 {
		return nil
	}
	return t.TokenMetaData
}

// every pool value of every field (others at a default), all royalties
func (r *c08Run) famCreatePool(v int) {
	s := r.newScn("create-pool", v)
	u := s.u
	a := [][]byte{u.U[0], u.U[2], u.K[0]}[v%3]
	tok := u.NFTs[v%2]
	s.expect(s.grantAll(a, tok), "grant")
	names, hashes, attrs, uris, roys := c08Pool()
	def := c08Meta{name: []byte("name"), hash: []byte("hash"), attr: []byte("attr"), uris: [][]byte{[]byte("uri")}, roy: be(250)}
	try := func(md c08Meta, q uint64) {
		sr := s.tx(a, a, fnCreate, bigGas, md.args(tok, q)...)
		roy := new(big.Int).SetBytes(md.roy)
		if roy.Cmp(big.NewInt(10000)) > 0 {
			s.c.count(fmt.Sprintf("C08/create/royalties-argument-%s/%s", roy, statusName(sr.Res.Status)))
		}
	}
	for _, x := range names {
		md := def
		md.name = x
		try(md, 1)
	}
	for _, x := range hashes {
		md := def
		md.hash = x
		try(md, 2)
	}
	for _, x := range attrs {
		md := def
		md.attr = x
		try(md, 1)
	}
	for _, x := range uris {
		md := def
		md.uris = x
		try(md, 3)
	}
	for _, x := range roys {
		md := def
		md.roy = x
		try(md, 1)
	}
	// everything empty / everything large; no URI argument at all (rejected: fewer than 7 arguments)
	try(c08Meta{uris: [][]byte{nil}}, 1)
	try(c08Meta{name: names[3], hash: hashes[4], attr: attrs[3], uris: uris[4], roy: be(10000)}, 1)
	s.tx(a, a, fnCreate, bigGas, tok, be(1), []byte("n"), be(1), []byte("h"), []byte("a"))
	for i := 0; i < 6; i++ {
		try(c08Meta{name: s.c.pick(names), hash: s.c.pick(hashes), attr: s.c.pick(attrs), uris: uris[s.c.rng.Intn(len(uris))], roy: s.c.pick(roys)}, uint64(1+s.c.rng.Intn(9)))
	}
}

// routes of 1..4 hops: same shard / cross shard (delivered at once or late), single / multi, partial / whole quantity, contracts on the way
func (r *c08Run) famRoutes(v int, n int) {
	s := r.newScn("routes", v)
	c, u := s.c, s.u
	names, hashes, attrs, uris, _ := c08Pool()
	creator := [][]byte{u.U[0], u.U[2], u.K[1]}[v%3]
	accts := [][]byte{u.U[0], u.U[1], u.U[2], u.U[3], u.K[0], u.K[1]}
	for _, t := range u.NFTs {
		s.expect(s.grantAll(creator, t), "grant")
	}
	for i := 0; i < n; i++ {
		tok := u.NFTs[i%len(u.NFTs)]
		md := c08Meta{name: c.pick(names), hash: c.pick(hashes), attr: c.pick(attrs), uris: uris[c.rng.Intn(len(uris))], roy: be(uint64(c.rng.Intn(10001)))}
		q := uint64(1)
		if i%2 == 1 {
			q = uint64(8 + c.rng.Intn(30))
		}
		cr := s.tx(creator, creator, fnCreate, bigGas, md.args(tok, q)...)
		nonce := createdNonce(cr)
		if nonce == 0 {
			s.expect(cr, "create")
			continue
		}
		orig := r.metaAt(s, creator, tok, nonce)
		hops := 1 + c.rng.Intn(4)
		cur, have := creator, q
		var pending []int
		desc := ""
		for h := 0; h < hops && have > 0; h++ {
			next := c.pick(accts)
			for bytes.Equal(next, cur) {
				next = c.pick(accts)
			}
			amt := have
			if have > 1 && c.rng.Intn(2) == 0 {
				amt = 1 + uint64(c.rng.Intn(int(have)))
			}
			var sr *stepResult
			kind := "single"
			var call [][]byte
			if builtInIsSC(next) && c.rng.Intn(2) == 0 {
				call = [][]byte{[]byte("onReceive"), {1}}
			}
			if c.rng.Intn(2) == 0 {
				args := append([][]byte{tok, be(nonce), be(amt), next}, call...)
				sr = s.tx(cur, cur, "ESDTNFTTransfer", bigGas, args...)
			} else {
				kind = "multi"
				args := [][]byte{next, be(2), u.Fung[0], nil, be(1), tok, be(nonce), be(amt)}
				if c.rng.Intn(3) == 0 { // the same NFT twice in one multi-transfer
					if amt >= 2 {
						args = [][]byte{next, be(2), tok, be(nonce), be(amt - 1), tok, be(nonce), be(1)}
					} else {
						args = [][]byte{next, be(1), tok, be(nonce), be(amt)}
					}
				}
				args = append(args, call...)
				sr = s.tx(cur, cur, "MultiESDTNFTTransfer", bigGas, args...)
			}
			if !srOK(sr) {
				c.count("C08/route/hop-rejected/" + kind)
				break
			}
			cross := len(sr.NewMsgs) > 0
			desc += fmt.Sprintf("/%s-%v", kind, cross)
			if cross {
				if c.rng.Intn(3) == 0 { // delivered late: after other operations
					pending = append(pending, sr.NewMsgs[0].ID)
					s.tx(u.U[1], u.U[1], "ESDTTransfer", bigGas, u.Fung[1], be(1), u.U[0])
					for _, id := range pending {
						s.deliver(id)
					}
					pending = nil
				} else {
					s.deliverNew(sr)
				}
			}
			cur, have = next, amt
		}
		c.count(fmt.Sprintf("C08/route/hops=%d", strings.Count(desc, "/")))
		if got := r.metaAt(s, cur, tok, nonce); desc != "" && !metaEq(got, orig) {
			c.fail("monitor", "route-metadata/"+[]string{"ESDTNFTTransfer", "MultiESDTNFTTransfer"}[strings.Count(desc, "multi")&1],
				fmt.Sprintf("route %s of %q nonce %d from %x to %x: metadata at the end %s, metadata at creation %s", desc, tok, nonce, creator, cur, metaStr(got), metaStr(orig)),
				map[string]interface{}{"history": histReplay(s.hist)})
		}
	}
}

func builtInIsSC(a []byte) bool { return len(a) == 32 && bytes.Equal(a[:8], make([]byte, 8)) }

// two creators of one token: equal nonce, different hash -> every way in must be rejected; equal hash, different attributes -> adopted
func (r *c08Run) famHashMismatch(v int) {
	s := r.newScn("hash-mismatch", v)
	u := s.u
	a := [][]byte{u.U[0], u.U[2]}[v%2]
	bs := [][]byte{s.sameShard(a, v), s.other(a, v)}
	tok := u.NFTs[v%2]
	s.expect(s.grantAll(a, tok), "grant")
	mk := func(who []byte, hash, attr string, q uint64) {
		s.tx(who, who, fnCreate, bigGas, tok, be(q), []byte("name"), be(100), []byte(hash), []byte(attr), []byte("uri"))
	}
	mk(a, "hash-A", "attr-A", 10) // a: nonce 1
	mk(a, "hash-S", "attr-A", 10) // a: nonce 2
	mk(a, "hash-E", "attr-A", 10) // a: nonce 3 (the other creator's nonce 3 has an EMPTY hash)
	for bi, b := range bs {
		s.expect(s.grantAll(b, tok), "grant-second-creator")
		mk(b, "hash-B", "attr-B", 10) // b: nonce 1, other hash
		mk(b, "hash-S", "attr-B", 10) // b: nonce 2, same hash, other attributes
		mk(b, "", "attr-B", 10)       // b: nonce 3, EMPTY hash (a's nonce 3 has one): different hashes, both directions must be rejected
		route := []string{"same-shard", "cross-shard"}[bi]
		note := func(sr *stepResult, how string) {
			st := "skipped"
			if !sr.Skipped {
				st = statusName(sr.Res.Status)
				if sr.Res.Status == 1 && errors.Is(sr.Res.Err, builtInFunctions.ErrWrongNFTOnDestination) {
					st = "rejected-wrong-nft"
				}
			}
			s.c.count("C08/hash-mismatch/" + route + "/" + how + "/" + st)
		}
		// nonce 1: different hash
		for _, how := range []string{"single", "multi"} {
			var sr *stepResult
			if how == "single" {
				sr = s.tx(b, b, "ESDTNFTTransfer", bigGas, tok, be(1), be(2), a)
			} else {
				sr = s.tx(b, b, "MultiESDTNFTTransfer", bigGas, a, be(2), tok, be(2), be(1), tok, be(1), be(2))
			}
			if srOK(sr) && len(sr.NewMsgs) > 0 {
				for _, d := range s.deliverNew(sr) {
					note(d, how+"-delivery")
				}
				for _, mm := range sr.NewMsgs {
					note(s.refund(mm.ID), how+"-refund")
				}
			} else {
				note(sr, how)
			}
		}
		// nonce 3: an empty hash on one side is still a different hash - both directions, single and multi
		for _, dir := range [][2][]byte{{b, a}, {a, b}} {
			for _, how := range []string{"single", "multi"} {
				var sr *stepResult
				if how == "single" {
					sr = s.tx(dir[0], dir[0], "ESDTNFTTransfer", bigGas, tok, be(3), be(1), dir[1])
				} else {
					sr = s.tx(dir[0], dir[0], "MultiESDTNFTTransfer", bigGas, dir[1], be(1), tok, be(3), be(1))
				}
				if srOK(sr) && len(sr.NewMsgs) > 0 {
					for _, d := range s.deliverNew(sr) {
						note(d, how+"-empty-hash-delivery")
					}
					for _, mm := range sr.NewMsgs {
						note(s.refund(mm.ID), how+"-empty-hash-refund")
					}
				} else {
					note(sr, how+"-empty-hash")
				}
			}
		}
		// the same with the return-after-error flag (the route of a refund): a different hash must still be rejected.
		// (a) sender-side execution flagged return-after-error; (b) destination-side execution of the real message with the flag
		// (= the refund of a rejected delivery whose ORIGINAL sender meanwhile holds another hash under that nonce)
		for _, how := range []string{"single", "multi"} {
			args := [][]byte{tok, be(1), be(2), a}
			fn := "ESDTNFTTransfer"
			if how == "multi" {
				fn, args = "MultiESDTNFTTransfer", [][]byte{a, be(1), tok, be(1), be(2)}
			}
			cs := s.w.mkCall(s.w.shardOf(b), fn, b, b, args, bigGas)
			cs.RAE = true
			cs.CallType = 2 /* AsynchronousCallBack */
			sr := s.do(&worldOp{Kind: opTx, Call: cs})
			if srOK(sr) && len(sr.NewMsgs) > 0 {
				for _, mm := range sr.NewMsgs {
					// deliver by hand with the flag set
					dcs := &callSpec{Shard: s.w.shardOf(mm.Dest), Fn: mm.Fn, Caller: mm.Caller, Rcpt: mm.Dest, Args: cloneArgs(mm.Args), Value: big.NewInt(0),
						Gas: mm.GasLimit, CallType: 2 /* AsynchronousCallBack */, RAE: true, Snd: false, Dst: true, FailAt: -1}
					note(s.do(&worldOp{Kind: opTx, Call: dcs}), how+"-rae-delivery")
				}
			} else {
				note(sr, how+"-rae")
			}
		}
		// nonce 2: same hash, different attributes: accepted, destination adopts the incoming copy
		sr := s.tx(b, b, "ESDTNFTTransfer", bigGas, tok, be(2), be(3), a)
		s.deliverNew(sr)
		// and back: a's (now adopted) copy to b
		s.deliverNew(s.tx(a, a, "ESDTNFTTransfer", bigGas, tok, be(2), be(1), b))
	}
}

// AddURI / UpdateAttributes by role holders on their own holdings, by others, on copies; then the copies meet
func (r *c08Run) famUpdate(v int) {
	s := r.newScn("adduri-updateattributes", v)
	c, u := s.c, s.u
	a := [][]byte{u.U[0], u.U[2], u.K[0]}[v%3]
	b, d := s.sameShard(a, v), s.other(a, v)
	tok := u.NFTs[(v+1)%2]
	s.expect(s.grantAll(a, tok), "grant")
	s.sys(d, "ESDTSetRole", roleArgs(tok, "ESDTRoleNFTAddURI", "ESDTRoleNFTUpdateAttributes")...)
	_, _, attrs, uris, _ := c08Pool()
	for i := 0; i < 3; i++ {
		s.tx(a, a, fnCreate, bigGas, tok, be(20), []byte(fmt.Sprintf("n%d", i)), be(uint64(i)), []byte("hash"), []byte("attr"), []byte("uri0"))
	}
	// copies of nonce 1 at b (same shard, no role) and d (other shard, role)
	s.tx(a, a, "ESDTNFTTransfer", bigGas, tok, be(1), be(5), b)
	s.deliverNew(s.tx(a, a, "ESDTNFTTransfer", bigGas, tok, be(1), be(5), d))
	for _, ul := range uris {
		s.tx(a, a, "ESDTNFTAddURI", bigGas, append([][]byte{tok, be(1)}, ul...)...)
	}
	for _, at := range attrs {
		s.tx(a, a, "ESDTNFTUpdateAttributes", bigGas, tok, be(2), at)
	}
	s.tx(b, b, "ESDTNFTAddURI", bigGas, tok, be(1), []byte("by-non-holder-of-role"))        // rejected
	s.tx(b, b, "ESDTNFTUpdateAttributes", bigGas, tok, be(1), []byte("by-non-holder"))      // rejected
	s.tx(d, d, "ESDTNFTUpdateAttributes", bigGas, tok, be(1), []byte("d's copy"))           // d has the role: its copy only
	s.tx(d, d, "ESDTNFTAddURI", bigGas, tok, be(1), []byte("d-uri"), nil)                   //
	s.tx(d, d, "ESDTNFTAddURI", bigGas, tok, be(3), []byte("not-held"))                     // rejected: d does not hold nonce 3
	s.tx(a, a, "ESDTNFTAddURI", bigGas, tok, be(1))                                         // too few arguments
	s.tx(a, a, "ESDTNFTUpdateAttributes", bigGas, tok, be(2), []byte("x"), []byte("extra")) // wrong arity
	s.tx(a, a, "ESDTNFTUpdateAttributes", bigGas-1, tok, be(3), c.pick(attrs))
	// the copies meet: same hash, different URIs / attributes -> adopted
	s.deliverNew(s.tx(d, d, "ESDTNFTTransfer", bigGas, tok, be(1), be(2), a))
	s.tx(a, a, "ESDTNFTTransfer", bigGas, tok, be(1), be(1), b)
	s.tx(a, a, "MultiESDTNFTTransfer", bigGas, b, be(2), tok, be(2), be(1), tok, be(3), be(1))
	// frozen holding, paused token: the two functions are refused (nothing changes)
	s.sys(a, "ESDTFreeze", append(append([]byte{}, tok...), be(2)...))
	s.tx(a, a, "ESDTNFTUpdateAttributes", bigGas, tok, be(2), []byte("frozen"))
	s.sysOn(s.w.shardOf(a), u.SYS, "ESDTPause", tok)
	s.tx(a, a, "ESDTNFTAddURI", bigGas, tok, be(1), []byte("paused"))
	s.sysOn(s.w.shardOf(a), u.SYS, "ESDTUnPause", tok)
	s.tx(a, a, "ESDTNFTAddURI", bigGas, tok, be(1), []byte("unpaused"))
}

// role patterns: {only AddURI, only UpdateAttributes, both, neither, both but for another token} x the two functions;
// roles installed and removed through the real ESDTSetRole / ESDTUnSetRole; success iff the caller holds THAT function's role for THAT token
func (r *c08Run) famRolePatterns(v int) {
	s := r.newScn("role-patterns", v)
	u := s.u
	const rURI, rAttr = "ESDTRoleNFTAddURI", "ESDTRoleNFTUpdateAttributes"
	tok, tok2 := u.NFTs[v%2], u.NFTs[(v+1)%2]
	all := [][]byte{u.U[0], u.U[1], u.U[2], u.U[3], u.K[0], u.K[1]}
	rot := func(i int) []byte { return all[(i+v)%len(all)] }
	creator := rot(0)
	s.expect(s.sys(creator, "ESDTSetRole", roleArgs(tok, "ESDTRoleNFTCreate", "ESDTRoleNFTAddQuantity")...), "grant-create")
	s.expect(s.sys(creator, "ESDTSetRole", roleArgs(tok2, "ESDTRoleNFTCreate", "ESDTRoleNFTAddQuantity")...), "grant-create")
	s.expect(s.tx(creator, creator, fnCreate, bigGas, createArgs(tok, 100, "rp")...), "create")
	s.expect(s.tx(creator, creator, fnCreate, bigGas, createArgs(tok2, 100, "rp2")...), "create")
	type pat struct {
		who  []byte
		name string
		uri  bool
		attr bool
	}
	pats := []*pat{{rot(1), "only-AddURI", true, false}, {rot(2), "only-UpdateAttributes", false, true}, {rot(3), "both", true, true},
		{rot(4), "neither", false, false}, {rot(5), "other-token-only", false, false}, {creator, "creator-without-either", false, false}}
	for _, p := range pats {
		if !bytes.Equal(p.who, creator) {
			s.deliverNew(s.tx(creator, creator, "ESDTNFTTransfer", bigGas, tok, be(1), be(5), p.who))
			s.deliverNew(s.tx(creator, creator, "ESDTNFTTransfer", bigGas, tok2, be(1), be(5), p.who))
		}
		var roles []string
		if p.uri {
			roles = append(roles, rURI)
		}
		if p.attr {
			roles = append(roles, rAttr)
		}
		if len(roles) > 0 {
			s.expect(s.sys(p.who, "ESDTSetRole", roleArgs(tok, roles...)...), "set-role")
		}
		if p.name == "other-token-only" {
			s.expect(s.sys(p.who, "ESDTSetRole", roleArgs(tok2, rURI, rAttr)...), "set-role-other-token")
		}
		if p.name == "neither" { // an unrelated role on the token: the role list exists but holds neither
			s.sys(p.who, "ESDTSetRole", roleArgs(tok, "ESDTRoleNFTBurn")...)
		}
	}
	round := 0
	probe := func(p *pat, when string) {
		round++
		for _, fn := range []string{"ESDTNFTAddURI", "ESDTNFTUpdateAttributes"} {
			want := p.uri
			arg := []byte(fmt.Sprintf("uri-%d", round))
			if fn == "ESDTNFTUpdateAttributes" {
				want, arg = p.attr, []byte(fmt.Sprintf("attr-%d", round))
			}
			sr := s.tx(p.who, p.who, fn, bigGas, tok, be(1), arg)
			got := srOK(sr)
			s.c.count(fmt.Sprintf("C08/role-pattern/%s/%s/holds-role=%v/%s", p.name, fn, want, statusName(sr.Res.Status)))
			if got != want {
				class := "update-refused-for-role-holder"
				if got {
					class = "update-authority"
				}
				s.c.fail("monitor", class+"/"+fn, fmt.Sprintf("%s by %x (%s, %s): holds the role of this function for %q = %v, call status %s (%v)", fn, p.who, p.name, when, tok, want, statusName(sr.Res.Status), sr.Res.Err), stdReplay(sr, s.hist))
			}
		}
	}
	for _, p := range pats {
		probe(p, "as installed")
	}
	// toggle: remove what is held, install what was missing (through the system contract), probe again; then remove everything
	for _, p := range pats {
		if p.uri {
			s.expect(s.sys(p.who, "ESDTUnSetRole", roleArgs(tok, rURI)...), "unset")
		} else {
			s.expect(s.sys(p.who, "ESDTSetRole", roleArgs(tok, rURI)...), "set")
		}
		p.uri = !p.uri
		probe(p, "after toggling AddURI")
		if p.attr {
			s.expect(s.sys(p.who, "ESDTUnSetRole", roleArgs(tok, rAttr)...), "unset")
		} else {
			s.expect(s.sys(p.who, "ESDTSetRole", roleArgs(tok, rAttr)...), "set")
		}
		p.attr = !p.attr
		probe(p, "after toggling UpdateAttributes")
	}
	for _, p := range pats {
		s.sys(p.who, "ESDTUnSetRole", roleArgs(tok, rURI, rAttr)...)
		p.uri, p.attr = false, false
		probe(p, "after removing both")
	}
}

const c08Proj = "{| p_gas := false; p_transfers := true; p_logs := true; p_retdata := false; p_state := true; p_deps := false |}"

func init() {
	runners["C08"] = func(c *ctx) {
		c.stateProj = "sp_metadata" // the part of the state this property's theorems speak about
		u := newUniverse()
		c.rep.Rule = "every executed call is checked on the implementation with the production protobuf encoder: (1) a successful ESDTNFTCreate stores exactly (nonce, name, creator = caller, royalties, hash, attributes, URIs) of its arguments, the stored royalties are <= 10000 (arguments above 2^32 are truncated to uint32 first: 2^32+1 stores 1, 2^32+10001 is rejected) and the log topic carries the stored bytes; (2) every hop of ESDTNFTTransfer / MultiESDTNFTTransfer (same shard, emitted cross-shard message, delivery, refund): decoded metadata on arrival / in the message deep-equals the sender's; an arrival on a held copy with another hash must not succeed; (3) ESDTNFTAddURI appends exactly its URI arguments, ESDTNFTUpdateAttributes replaces the attributes, both only for a caller holding the role on its own entry, and every other cell of every account of the shard is unchanged; (4) frame for all 23 functions: no other call changes the metadata of an existing entry, no entry with metadata appears except by creation or a credited transfer; (5) history level: every stored copy of a (token, nonce) carries a metadata value produced by its creation or by an AddURI / UpdateAttributes on some copy. Families: metadata pools (empty and large name / hash / attributes, URI lists with empty entries, royalties 0, 1, 9999, 10000, 10001, 2^32-1, 2^32+1, 2^32+10000, 2^32+10001, 2^64-1, 9-byte numbers, zero padded), routes of 1..4 hops over users and contracts on 1-3 shards (single / multi, partial quantities, the same NFT twice in one multi-transfer, late delivery) with an end-to-end comparison against the creation metadata, two creators with equal nonce and different / equal hash (all ways in, refund), the two update functions on own holdings, foreign holdings and copies, frozen and paused; role patterns {only AddURI, only UpdateAttributes, both, neither, both for another token only, creator without either} x the two functions, installed, toggled and removed through ESDTSetRole / ESDTUnSetRole: the call succeeds iff the caller holds the own role of that function for that token; plus random walks. Every executed call is re-evaluated in the Coq model (state, logs, transfers). distinct = distinct (shard state, call)."
		c.setExecStream(c08Proj)
		c.perFile = 90
		quick := !(c.thorough() || c.widen)
		r := &c08Run{c: c, u: u, budget: &caseBudget{max: 1300}, mon: newC08Mon()}
		nv, nRoute, routes, walkW, walkOps, walkMax := 4, 60, 16, 5, 160, 700
		if !quick {
			r.budget.max = 9000
			nv, nRoute, routes, walkW, walkOps, walkMax = 12, 1000, 40, 30, 300, 7000
		}
		for v := 0; v < nv; v++ {
			r.famCreatePool(v)
			r.famHashMismatch(v)
			r.famUpdate(v)
			r.famRolePatterns(v)
			r.famRolePatterns(v + nv)
		}
		for v := 0; v < nRoute; v++ {
			r.famRoutes(v, routes) // the first worlds are written as Coq cases until the budget is used, the others run on the implementation only
		}
		c.walk(u, walkOpts{Worlds: walkW, Ops: walkOps, Proj: c08Proj, MaxCases: walkMax,
			Monitors: []monitor{r.mon.mon},
			Tune: func(g *gen) {
				g.wTransfer, g.wSupply, g.wSystem, g.wAccount, g.wDeliver, g.wHostile = 40, 34, 8, 2, 16, 0
			}})
		c.sample(map[string]interface{}{"families": []string{"create-pool", "routes", "hash-mismatch", "adduri-updateattributes", "role-patterns", "walk"}})
	}
}
