package main

// C13 — execution is deterministic and does not modify its input (PARTIAL: aliasing inside
// math/big, the generated protobuf code and the Go runtime is observed only through its effects).
//
// Random walks over the standard universe (all 23 functions, structured + hostile operations,
// cross-shard deliveries and refunds, a few injected dependency failures).  EVERY call is executed
// three times, concurrently, on three worlds with equal configuration and equal (deep-copied) state:
//
//	A  the walk's world: function objects that served every earlier call of the walk (main goroutine)
//	B  a replica world that lives as long as the walk: its function objects also served every
//	   earlier call, its accounts are overwritten with a deep copy of A's before each call (goroutine)
//	C  a world built by the real factory for this one call: function objects that never ran (goroutine)
//
// This file has its own call path (node.go's exec copies the arguments first): the input structure is
// built over ONE backing array - CallerAddr, every argument, RecipientAddr carved next to each other
// with two-index slice expressions, so every slice has spare capacity reaching over its neighbours, and
// the Arguments slice itself has spare slots - so that an append to any of them would be visible.
//
// Monitors:
//	input-mutated           the backing array, every slice header (pointer, len, cap), the spare slots and
//	                        every other field of the input are equal to a copy taken before the call
//	nondeterministic        canonical serialisation of (status, error text, VMOutput with ReturnData, logs
//	                        in order, output accounts with transfers in order, gas, return code/message;
//	                        storage, balance, owner, user name, reward of every account of every shard)
//	                        is byte-identical across A, B, C
//	prefix-spare-capacity   every []byte field of every function object of every container (read by
//	                        reflection: keyPrefix of 16 functions) and the package variables roleKeyPrefix,
//	                        noncePrefix (go:linkname) have len == cap
//	prefix-changed          ... and still hold their constant, in the same array, after every call
//	monitor-selftest        the input frame does reveal an append / write done by a deliberately bad callee
//
// Every A execution is also written as a Coq xcase with projection proj_all: the model must reproduce
// the complete output and post-state ("equal to the model" half of determinism).

import (
	"bytes"
	"fmt"
	"math/big"
	"reflect"
	"runtime"
	"sort"
	"strings"
	"sync"
	"unsafe"

	vmcommon "github.com/ElrondNetwork/elrond-vm-common"
)

//go:linkname c13RoleKeyPrefix github.com/ElrondNetwork/elrond-vm-common/builtInFunctions.roleKeyPrefix
var c13RoleKeyPrefix []byte

//go:linkname c13NoncePrefix github.com/ElrondNetwork/elrond-vm-common/builtInFunctions.noncePrefix
var c13NoncePrefix []byte

func init() { runners["C13"] = runC13 }

var c13FailSeen = map[string]int{}

func c13Fail(c *ctx, sig, what string, replay interface{}) {
	c13FailSeen[sig]++
	if c13FailSeen[sig] == 1 {
		c.fail("monitor", sig, what, replay)
	}
}

// ---------------------------------------------------------------- the input frame

type c13Hdr struct {
	ptr      unsafe.Pointer
	len, cap int
	isNil    bool
}

// c13Data: the data pointer of a slice (first word of its header); p points to the slice variable
func c13Data(p unsafe.Pointer) unsafe.Pointer { return *(*unsafe.Pointer)(p) }

func c13Cut(s string, n int) string {
	if len(s) > n {
		return s[:n]
	}
	return s
}

func c13HdrOf(b []byte) c13Hdr {
	return c13Hdr{ptr: c13Data(unsafe.Pointer(&b)), len: len(b), cap: cap(b), isNil: b == nil}
}

const c13Tail = 48 // spare bytes behind the last carved slice
const c13SpareSlots = 3

type c13Frame struct {
	buf      []byte // the one backing array of every byte slice of the input
	bufCopy  []byte
	in       *vmcommon.ContractCallInput
	argsFull [][]byte // the Arguments array including its spare slots
	argsHdr  []c13Hdr // header of every slot of argsFull
	argsPtr  unsafe.Pointer
	callerH  c13Hdr
	rcptH    c13Hdr
	value    *big.Int                   // the CallValue pointer handed in
	snap     vmcommon.ContractCallInput // deep copy of the input
}

// carve returns buf[off:off+len(src)] (capacity to the end of buf) filled with src; nil stays nil
func c13Carve(buf []byte, off *int, src []byte) []byte {
	if src == nil {
		return nil
	}
	s := buf[*off : *off+len(src)]
	copy(s, src)
	*off += len(src)
	return s
}

func c13DeepCopyInput(in *vmcommon.ContractCallInput) vmcommon.ContractCallInput {
	cp := *in
	cp.CallerAddr = c13CloneBytes(in.CallerAddr)
	cp.RecipientAddr = c13CloneBytes(in.RecipientAddr)
	cp.Arguments = cloneArgs(in.Arguments)
	if in.Arguments != nil && cp.Arguments == nil {
		cp.Arguments = [][]byte{}
	}
	for i, a := range in.Arguments { // cloneArgs turns an empty non-nil element into an empty non-nil one: keep exactly
		if a != nil && len(a) == 0 {
			cp.Arguments[i] = []byte{}
		}
	}
	if in.CallValue != nil {
		cp.CallValue = new(big.Int).Set(in.CallValue)
	}
	cp.OriginalTxHash = c13CloneBytes(in.OriginalTxHash)
	cp.CurrentTxHash = c13CloneBytes(in.CurrentTxHash)
	cp.PrevTxHash = c13CloneBytes(in.PrevTxHash)
	return cp
}

func c13CloneBytes(b []byte) []byte {
	if b == nil {
		return nil
	}
	return append([]byte{}, b...)
}

// c13NewFrame builds the input of node.go's exec for cs, but over one backing array with spare capacity
// everywhere.  alias: hand the SAME slice as caller and recipient when the two addresses are equal.
func c13NewFrame(cs *callSpec, alias bool) *c13Frame {
	total := len(cs.Caller) + len(cs.Rcpt) + c13Tail + 3*8
	for _, a := range cs.Args {
		total += len(a)
	}
	f := &c13Frame{buf: make([]byte, total)}
	for i := range f.buf {
		f.buf[i] = 0xA5
	}
	off := 0
	caller := c13Carve(f.buf, &off, cs.Caller)
	var args [][]byte
	if cs.Args != nil {
		args = make([][]byte, len(cs.Args), len(cs.Args)+c13SpareSlots)
		for i, a := range cs.Args {
			args[i] = c13Carve(f.buf, &off, a)
		}
		full := args[:cap(args)]
		for i := len(args); i < len(full); i++ {
			full[i] = f.buf[len(f.buf)-8 : len(f.buf)-4] // sentinel slices in the spare slots
		}
		f.argsFull = full
		f.argsPtr = c13Data(unsafe.Pointer(&args))
	}
	var rcpt []byte
	if alias && cs.Caller != nil && bytes.Equal(cs.Caller, cs.Rcpt) {
		rcpt = caller
	} else {
		rcpt = c13Carve(f.buf, &off, cs.Rcpt)
	}
	txh := c13Carve(f.buf, &off, []byte("txhash-1"))
	f.value = new(big.Int).Set(cs.Value)
	f.in = &vmcommon.ContractCallInput{
		VMInput: vmcommon.VMInput{CallerAddr: caller, Arguments: args, CallValue: f.value, CallType: cs.CallType,
			GasProvided: cs.Gas, GasLocked: cs.Locked, ReturnCallAfterError: cs.RAE, CurrentTxHash: txh},
		RecipientAddr: rcpt, Function: cs.Fn,
	}
	f.bufCopy = append([]byte(nil), f.buf...)
	for _, a := range f.argsFull {
		f.argsHdr = append(f.argsHdr, c13HdrOf(a))
	}
	f.callerH, f.rcptH = c13HdrOf(caller), c13HdrOf(rcpt)
	f.snap = c13DeepCopyInput(f.in)
	return f
}

// check compares the input with what it was before the call; "" = untouched
func (f *c13Frame) check() string {
	if !bytes.Equal(f.buf, f.bufCopy) {
		for i := range f.buf {
			if f.buf[i] != f.bufCopy[i] {
				return fmt.Sprintf("backing array byte %d changed from %02x to %02x", i, f.bufCopy[i], f.buf[i])
			}
		}
	}
	in := f.in
	if c13HdrOf(in.CallerAddr) != f.callerH {
		return "CallerAddr slice header changed"
	}
	if c13HdrOf(in.RecipientAddr) != f.rcptH {
		return "RecipientAddr slice header changed"
	}
	if len(in.Arguments) != len(f.snap.Arguments) || (in.Arguments == nil) != (f.snap.Arguments == nil) {
		return fmt.Sprintf("len(Arguments) changed from %d to %d", len(f.snap.Arguments), len(in.Arguments))
	}
	if in.Arguments != nil {
		if c13Data(unsafe.Pointer(&in.Arguments)) != f.argsPtr || cap(in.Arguments) != len(f.argsFull) {
			return "Arguments slice header changed"
		}
	}
	for i, a := range f.argsFull {
		if c13HdrOf(a) != f.argsHdr[i] {
			return fmt.Sprintf("slot %d of the Arguments array changed (len(Arguments) = %d)", i, len(f.snap.Arguments))
		}
	}
	if in.CallValue != f.value {
		return "CallValue pointer replaced"
	}
	if !reflect.DeepEqual(*in, f.snap) {
		return fmt.Sprintf("input structure changed: %+v became %+v", f.snap, *in)
	}
	return ""
}

// ---------------------------------------------------------------- one execution (own call path)

// c13Exec is node.go's exec with the input built by c13NewFrame (no copy of the arguments).
func c13Exec(w *hWorld, cs *callSpec, alias bool) (*callResult, *c13Frame) {
	sh := w.shards[cs.Shard]
	res := &callResult{Pre: snapshotShard(sh)}
	fn, err := sh.container.Get(cs.Fn)
	if err != nil {
		res.Status, res.Err = 1, err
		return res, nil
	}
	fr := c13NewFrame(cs, alias)
	var snd, dst vmcommon.UserAccountHandler
	if cs.Snd {
		snd = sh.account(cs.Caller)
	}
	if cs.Dst {
		dst = sh.account(cs.Rcpt)
	}
	w.plan = &faultPlan{failAt: cs.FailAt}
	func() {
		defer func() {
			if r := recover(); r != nil {
				res.Status = 2
				res.PanicMsg = fmt.Sprint(r)
			}
		}()
		out, e := fn.ProcessBuiltinFunction(snd, dst, fr.in)
		res.Out, res.Err = out, e
		if e != nil {
			res.Status = 1
		}
	}()
	res.DepCalls = w.plan.count
	res.DepKinds = w.plan.kinds
	w.plan = nil
	if res.Status != 0 {
		sh.accounts = res.Pre // roll back
		res.Pre = snapshotShard(sh)
	}
	return res, fr
}

// ---------------------------------------------------------------- canonical serialisation

func c13Big(b *big.Int) string {
	if b == nil {
		return "nil"
	}
	return b.String()
}

func c13CanonOut(o *vmcommon.VMOutput) string {
	if o == nil {
		return "out=nil"
	}
	var sb strings.Builder
	fmt.Fprintf(&sb, "rc=%d msg=%q gas=%d refund=%s ret=[", o.ReturnCode, o.ReturnMessage, o.GasRemaining, c13Big(o.GasRefund))
	for _, r := range o.ReturnData {
		fmt.Fprintf(&sb, "%x,", r)
	}
	sb.WriteString("] accounts=[")
	var ks []string
	for k := range o.OutputAccounts {
		ks = append(ks, k)
	}
	sort.Strings(ks)
	for _, k := range ks {
		oa := o.OutputAccounts[k]
		if oa == nil {
			fmt.Fprintf(&sb, "%x:nil;", k)
			continue
		}
		fmt.Fprintf(&sb, "%x:{addr=%x nonce=%d bal=%s delta=%s code=%x meta=%x deployer=%x gasUsed=%d su=[", k, oa.Address, oa.Nonce,
			c13Big(oa.Balance), c13Big(oa.BalanceDelta), oa.Code, oa.CodeMetadata, oa.CodeDeployerAddress, oa.GasUsed)
		var sk []string
		for s := range oa.StorageUpdates {
			sk = append(sk, s)
		}
		sort.Strings(sk)
		for _, s := range sk {
			su := oa.StorageUpdates[s]
			if su == nil {
				fmt.Fprintf(&sb, "%x:nil,", s)
			} else {
				fmt.Fprintf(&sb, "%x:%x=%x,", s, su.Offset, su.Data)
			}
		}
		sb.WriteString("] transfers=[")
		for _, t := range oa.OutputTransfers {
			fmt.Fprintf(&sb, "(v=%s gl=%d glk=%d data=%x ct=%d snd=%x)", c13Big(t.Value), t.GasLimit, t.GasLocked, t.Data, t.CallType, t.SenderAddress)
		}
		sb.WriteString("]};")
	}
	sb.WriteString("] deleted=[")
	for _, d := range o.DeletedAccounts {
		fmt.Fprintf(&sb, "%x,", d)
	}
	sb.WriteString("] touched=[")
	for _, d := range o.TouchedAccounts {
		fmt.Fprintf(&sb, "%x,", d)
	}
	sb.WriteString("] logs=[")
	for _, l := range o.Logs {
		if l == nil {
			sb.WriteString("nil;")
			continue
		}
		fmt.Fprintf(&sb, "{id=%x addr=%x data=%x topics=", l.Identifier, l.Address, l.Data)
		for _, t := range l.Topics {
			fmt.Fprintf(&sb, "%x,", t)
		}
		sb.WriteString("};")
	}
	sb.WriteString("]")
	return sb.String()
}

func c13Canon(w *hWorld, res *callResult) string {
	var sb strings.Builder
	fmt.Fprintf(&sb, "status=%d", res.Status)
	if res.Err != nil {
		fmt.Fprintf(&sb, " err=%q", res.Err.Error())
	}
	if res.Status == 2 {
		fmt.Fprintf(&sb, " panic=%q", res.PanicMsg)
	}
	sb.WriteString(" ")
	if res.Status == 0 {
		sb.WriteString(c13CanonOut(res.Out))
	}
	sb.WriteString(" world=")
	for _, sh := range w.shards {
		fmt.Fprintf(&sb, "S%d:%s;", sh.id, digestAccounts(sh.accounts))
	}
	return sb.String()
}

func c13FirstDiff(a, b string) string {
	n := len(a)
	if len(b) < n {
		n = len(b)
	}
	i := 0
	for i < n && a[i] == b[i] {
		i++
	}
	lo := i - 60
	if lo < 0 {
		lo = 0
	}
	cut := func(s string) string {
		hi := i + 100
		if hi > len(s) {
			hi = len(s)
		}
		return s[lo:hi]
	}
	return fmt.Sprintf("at byte %d: ...%s... vs ...%s...", i, cut(a), cut(b))
}

// ---------------------------------------------------------------- cloned worlds

// c13CopyState overwrites dst's accounts (all shards) with a deep copy of src's
func c13CopyState(dst, src *hWorld) {
	for i, sh := range src.shards {
		m := map[string]*hAccount{}
		for k, a := range sh.accounts {
			b := a.clone()
			b.w = dst
			b.addr = append([]byte(nil), a.addr...)
			m[k] = b
		}
		dst.shards[i].accounts = m
	}
}

// ---------------------------------------------------------------- shared prefixes (reflection)

type c13Prefix struct {
	name string
	ptr  unsafe.Pointer
	len  int
	cap  int
	data []byte // copy of the full capacity
}

func c13ReadBytesField(f reflect.Value) []byte {
	return *(*[]byte)(unsafe.Pointer(f.UnsafeAddr()))
}

// c13Prefixes lists every []byte field of every function object of every container of w (embedded
// structs included) plus the two package-level prefixes
func c13Prefixes(w *hWorld) []c13Prefix {
	var out []c13Prefix
	add := func(name string, b []byte) {
		out = append(out, c13Prefix{name: name, ptr: c13Data(unsafe.Pointer(&b)), len: len(b), cap: cap(b),
			data: append([]byte(nil), b[:cap(b)]...)})
	}
	byteSlice := reflect.TypeOf([]byte(nil))
	var walk func(name string, v reflect.Value)
	walk = func(name string, v reflect.Value) {
		for i := 0; i < v.NumField(); i++ {
			f := v.Field(i)
			fn := name + "." + v.Type().Field(i).Name
			switch {
			case f.Type() == byteSlice:
				add(fn, c13ReadBytesField(f))
			case f.Kind() == reflect.Struct && strings.Contains(f.Type().PkgPath(), "builtInFunctions"):
				walk(fn, f)
			}
		}
	}
	for _, sh := range w.shards {
		var names []string
		for k := range sh.container.Keys() {
			names = append(names, k)
		}
		sort.Strings(names)
		for _, n := range names {
			fn, err := sh.container.Get(n)
			if err != nil {
				continue
			}
			v := reflect.ValueOf(fn)
			if v.Kind() == reflect.Ptr && v.Elem().Kind() == reflect.Struct {
				walk(fmt.Sprintf("shard%d/%s", sh.id, n), v.Elem())
			}
		}
	}
	add("roleKeyPrefix", c13RoleKeyPrefix)
	add("noncePrefix", c13NoncePrefix)
	return out
}

var c13PrefixConst = map[string]string{"keyPrefix": "ELRONDesdt", "roleKeyPrefix": "ELRONDroleesdt", "noncePrefix": "ELRONDnonce"}

// c13CheckPrefixes: len == cap, the expected constant, and (with base != nil) same array and same bytes as at construction
func c13CheckPrefixes(c *ctx, w *hWorld, base []c13Prefix, when string) []c13Prefix {
	cur := c13Prefixes(w)
	for i, p := range cur {
		short := p.name[strings.LastIndex(p.name, ".")+1:]
		fnName := p.name
		if j := strings.Index(fnName, "/"); j >= 0 {
			fnName = fnName[j+1:]
		}
		if p.len != p.cap {
			c13Fail(c, "prefix-spare-capacity/"+fnName, fmt.Sprintf("%s: shared prefix slice %s has len %d but cap %d: append(prefix, token...) writes the shared array in place", when, p.name, p.len, p.cap),
				map[string]interface{}{"prefix": p.name, "len": p.len, "cap": p.cap})
		}
		if want, ok := c13PrefixConst[short]; ok && string(p.data[:p.len]) != want {
			c13Fail(c, "prefix-changed/"+fnName, fmt.Sprintf("%s: shared prefix %s holds %q, expected %q", when, p.name, p.data[:p.len], want),
				map[string]interface{}{"prefix": p.name, "value": fmt.Sprintf("%x", p.data[:p.len])})
		}
		if base != nil && i < len(base) {
			b := base[i]
			if b.name != p.name || b.ptr != p.ptr || b.len != p.len || b.cap != p.cap || !bytes.Equal(b.data, p.data) {
				c13Fail(c, "prefix-changed/"+fnName, fmt.Sprintf("%s: shared prefix %s changed since construction: %x (len %d cap %d) became %x (len %d cap %d)", when, p.name, b.data, b.len, b.cap, p.data, p.len, p.cap),
					map[string]interface{}{"prefix": p.name})
			}
		}
	}
	if base != nil && len(base) != len(cur) {
		c13Fail(c, "prefix-changed/count", fmt.Sprintf("%s: number of prefix slices changed from %d to %d", when, len(base), len(cur)), nil)
	}
	return cur
}

// ---------------------------------------------------------------- self test of the input monitor

type c13BadFn struct{ mode int }

func (b *c13BadFn) ProcessBuiltinFunction(_, _ vmcommon.UserAccountHandler, in *vmcommon.ContractCallInput) (*vmcommon.VMOutput, error) {
	switch b.mode {
	case 0:
		_ = append(in.Arguments[0], 'x') // overwrites the first byte of the neighbour
	case 1:
		_ = append(in.CallerAddr, 'q', 'r')
	case 2:
		_ = append(in.Arguments, []byte("extra")) // fills a spare slot of the Arguments array
	case 3:
		in.Arguments[1][0] ^= 1
	case 4:
		in.CallValue.Add(in.CallValue, big.NewInt(1))
	case 5:
		in.Arguments = in.Arguments[:1]
	case 6:
		_ = append(in.RecipientAddr[:0], 'z')
	}
	return &vmcommon.VMOutput{}, nil
}

func c13SelfTest(c *ctx, u *universe) {
	cs := &callSpec{Fn: "x", Caller: u.U[0], Rcpt: u.U[1], Args: [][]byte{[]byte("TKA-a1b2c3"), {7, 7}, nil, {}}, Value: big.NewInt(5)}
	for mode := 0; mode <= 6; mode++ {
		fr := c13NewFrame(cs, false)
		if d := fr.check(); d != "" {
			c13Fail(c, "monitor-selftest", "input frame reported a change although nothing ran: "+d, nil)
		}
		_, _ = (&c13BadFn{mode: mode}).ProcessBuiltinFunction(nil, nil, fr.in)
		if fr.check() == "" {
			c13Fail(c, "monitor-selftest", fmt.Sprintf("input monitor did not notice the deliberate input mutation number %d", mode), nil)
		}
		c.count("selftest/detected")
	}
	// and a well-behaved callee that only reads (and appends to a full-capacity copy) is not flagged
	fr := c13NewFrame(cs, true)
	k := append([]byte("ELRONDesdt"), fr.in.Arguments[0]...)
	_ = append(k, fr.in.Arguments[1]...)
	if d := fr.check(); d != "" {
		c13Fail(c, "monitor-selftest", "input frame flagged a read-only callee: "+d, nil)
	}
}

// ---------------------------------------------------------------- the walk

// c13SpecOf: the execution that world.go's step would perform for op (nil = skipped)
func c13SpecOf(w *hWorld, op *worldOp) *callSpec {
	switch op.Kind {
	case opTx, opSys:
		if int(op.Call.Shard) >= w.nShards {
			return nil
		}
		return op.Call
	case opDeliver, opRedeliver:
		m := w.findMsg(op.ID)
		if m == nil || int(w.shardOf(m.Dest)) >= w.nShards {
			return nil
		}
		sh := w.shardOf(m.Dest)
		return &callSpec{Shard: sh, Fn: m.Fn, Caller: m.Caller, Rcpt: m.Dest, Args: cloneArgs(m.Args), Value: big.NewInt(0), Gas: op.Gas,
			Locked: m.Locked, CallType: m.CallType, Snd: w.shardOf(m.Caller) == sh, Dst: true, FailAt: -1}
	case opRefund:
		m := w.findMsg(op.ID)
		if m == nil || !w.failed[op.ID] || int(w.shardOf(m.Sender)) >= w.nShards {
			return nil
		}
		sh := w.shardOf(m.Sender)
		return &callSpec{Shard: sh, Fn: m.Fn, Caller: m.Dest, Rcpt: m.Sender, Args: cloneArgs(m.Args), Value: big.NewInt(0), Gas: op.Gas,
			CallType: vmcommon.AsynchronousCallBack, RAE: true, Snd: w.shardOf(m.Dest) == sh, Dst: true, FailAt: -1}
	}
	return nil
}

// c13Settle: the message bookkeeping of world.go's step after the execution
func c13Settle(w *hWorld, op *worldOp, cs *callSpec, res *callResult) {
	switch op.Kind {
	case opTx, opSys:
		if res.Status == 0 && res.Out != nil {
			w.inflight = append(w.inflight, w.collect(cs, res.Out)...)
		}
	case opDeliver, opRedeliver:
		if res.Status == 0 {
			if op.Kind == opDeliver {
				w.dropMsg(op.ID)
			}
			if res.Out != nil {
				w.inflight = append(w.inflight, w.collect(cs, res.Out)...)
			}
		} else {
			w.failed[op.ID] = true
		}
	case opRefund:
		if res.Status == 0 {
			w.dropMsg(op.ID)
			delete(w.failed, op.ID)
		}
	}
}

// c13Friendly repairs, for about half of the structured user transactions, the two things that make most
// generated calls fail early (gas below the charge, adversarial amounts), so that the success paths -
// which build keys, logs and output transfers from the input - are exercised as often as the guards
func c13Friendly(c *ctx, op *worldOp) {
	if op.Kind != opTx || op.Call == nil || c.rng.Intn(2) == 0 {
		return
	}
	cs := op.Call
	small := func() []byte { return be(uint64(1 + c.rng.Intn(3))) }
	cs.Gas = bigGas + uint64(c.rng.Intn(1000))
	cs.Value = big.NewInt(0)
	switch cs.Fn {
	case "ESDTTransfer", "ESDTLocalMint", "ESDTLocalBurn", "ESDTBurn":
		if len(cs.Args) >= 2 {
			cs.Args[1] = small()
		}
	case "ESDTNFTTransfer", "ESDTNFTAddQuantity", "ESDTNFTBurn":
		if len(cs.Args) >= 3 {
			cs.Args[2] = small()
		}
	case "MultiESDTNFTTransfer":
		for i := 4; i < len(cs.Args); i += 3 {
			if len(cs.Args[i-1]) <= 8 { // a nonce, i.e. still inside the triples
				cs.Args[i] = small()
			}
		}
	}
}

func runC13(c *ctx) {
	u := newUniverse()
	c.rep.Rule = "random walks (structured + hostile operations over all 23 functions, deliveries/refunds, 1 in 12 calls with an injected dependency failure) over 1-3 shard worlds; EVERY call runs three times concurrently on worlds with equal configuration and deep-copied state: A = the walk's world (function objects reused for the whole walk, main goroutine), B = a long-lived replica (reused objects, other goroutine), C = a world built by the real factory for this call (fresh objects, other goroutine); the input is built over ONE backing array (caller, arguments, recipient adjacent, every slice with spare capacity over its neighbours, Arguments with spare slots). Monitors on the implementation: input-mutated (backing array, all slice headers, spare slots, deep copy), nondeterministic (canonical serialisation of status/error text/VMOutput/all accounts of all shards identical across A,B,C), prefix-spare-capacity and prefix-changed (every []byte field of every function object by reflection + roleKeyPrefix/noncePrefix by linkname: len == cap, constant value, same array, after every call), monitor-selftest. Every A execution is re-evaluated in the Coq model (status: ok/error/panic and return code; determinism and purity themselves are judged by the monitors on the implementation, so observables that belong to other properties are not compared here). distinct = distinct (world state, operation). PARTIAL: aliasing inside math/big, generated protobuf code and the runtime is only observed through these effects."
	c.header = execHeader
	c.caseType = "xcase"
	c.mismatchExpr = "xmismatches ({| p_gas := false; p_transfers := false; p_logs := false; p_retdata := false; p_state := false; p_deps := false |}) cases"
	c.perFile = 250
	nWorlds, ops := 6, 250
	if c.thorough() || c.widen {
		nWorlds, ops = 24, 500
	}
	c13SelfTest(c, u)
	execs, prefixChecks, nPrefix := 0, 0, 0
	for wi := 0; wi < nWorlds; wi++ {
		nSh := []int{2, 2, 1, 3, 2}[wi%5]
		sysShard := uint32(wi % nSh)
		mkGas := func() map[string]map[string]uint64 { return distinctGas(uint64(10+7*wi), 3) }
		w := u.stdWorld(nSh, sysShard, mkGas())
		u.rich = false
		u.populate(w)
		var tour []func() *worldOp
		if wi%2 == 1 { // every other world: the rich holdings and the fixed tour of §4.2 (state shapes, flag combinations, reused objects)
			u.populateRich(w)
			tour = richTour(u, w)
		}
		// Sequential tour (rich worlds): the tour steps run one after the other on this goroutine with ONE processor and no garbage
		// collection in between (what a call leaves in a sync.Pool or a package-level cache is then what the next call finds); the
		// pre-state and the canonical result of every step are kept.  Afterwards every step is executed again on never used function
		// objects over its saved pre-state, each time after two garbage collections (which empty every pool): a result that depends on
		// what earlier calls left behind differs between the two runs, whatever the scheduler does.
		if tour != nil {
			type later struct {
				seq    *hWorld
				cs     *callSpec
				canonA string
				hist   []string
				pre    map[string]*hAccount
			}
			var ls []later
			old := runtime.GOMAXPROCS(1)
			var thist []string
			var tpend []*worldOp
			for ti := 0; ti < len(tour) || len(tpend) > 0; {
				var op *worldOp
				if len(tpend) > 0 {
					op, tpend = tpend[0], tpend[1:]
				} else {
					op = tour[ti]()
					ti++
				}
				cs := c13SpecOf(w, op)
				thist = append(thist, op.String())
				if cs == nil {
					continue
				}
				seq := u.stdWorld(nSh, sysShard, mkGas())
				c13CopyState(seq, w)
				preDigest := w.digest()
				had := map[int]bool{}
				for _, m := range w.inflight {
					had[m.ID] = true
				}
				resA, _ := c13Exec(w, cs, false)
				execs++
				ls = append(ls, later{seq: seq, cs: cs, canonA: c13Canon(w, resA), hist: append([]string(nil), thist...), pre: resA.Pre})
				// repetition: the same call at once again on an equal world (its own, never used objects), same goroutine, nothing in between
				rep2 := u.stdWorld(nSh, sysShard, mkGas())
				c13CopyState(rep2, seq)
				resR, _ := c13Exec(rep2, cs, false)
				execs++
				if cr := c13Canon(rep2, resR); cr != ls[len(ls)-1].canonA {
					c13Fail(c, "nondeterministic/"+cs.Fn, fmt.Sprintf("%s: executed twice in a row on equal worlds, the two results differ %s", cs.Fn, c13FirstDiff(ls[len(ls)-1].canonA, cr)),
						map[string]interface{}{"call": describeCall(cs), "pre": digestAccounts(resA.Pre), "history": histReplay(thist)})
				}
				c13Settle(w, op, cs, resA)
				if op.Kind == opTx || op.Kind == opSys {
					for _, m := range w.inflight {
						if !had[m.ID] {
							tpend = append(tpend, &worldOp{Kind: opDeliver, ID: m.ID, Gas: m.GasLimit})
						}
					}
				}
				c.count("tour/" + cs.Fn + "/" + statusName(resA.Status))
				c.note(fmt.Sprintf("%d/tour/%s/%s", wi, preDigest, op.String()), true)
				c.addExecCase(w, cs, resA)
			}
			runtime.GOMAXPROCS(old)
			for _, l := range ls {
				runtime.GC()
				runtime.GC()
				resD, _ := c13Exec(l.seq, l.cs, false)
				execs++
				if canonD := c13Canon(l.seq, resD); canonD != l.canonA {
					c13Fail(c, "nondeterministic/"+l.cs.Fn, fmt.Sprintf("%s: the result depends on what earlier calls left behind (function objects and package state used by the whole tour vs. never used objects after the pools were emptied) %s", l.cs.Fn, c13FirstDiff(l.canonA, canonD)),
						map[string]interface{}{"call": describeCall(l.cs), "pre": digestAccounts(l.pre), "history": histReplay(l.hist)})
				}
			}
		}
		rep := u.stdWorld(nSh, sysShard, mkGas()) // B: long-lived replica
		baseW := c13CheckPrefixes(c, w, nil, "after construction")
		baseR := c13CheckPrefixes(c, rep, nil, "after construction")
		nPrefix = len(baseW)
		g := newGen(c, u, w)
		var hist []string
		var pending []*worldOp
		for i := 0; i < ops; i++ {
			var op *worldOp
			if len(pending) > 0 {
				op, pending = pending[0], pending[1:]
			} else {
				op = g.randomOp()
				c13Friendly(c, op)
				if op.Kind == opSys && op.Call.Fn == "ESDTFreeze" && c.rng.Intn(2) == 0 { // freeze, then wipe the same holding
					wipe := *op.Call
					wipe.Fn = "ESDTWipe"
					pending = append(pending, &worldOp{Kind: opSys, Call: &wipe})
				}
			}
			cs := c13SpecOf(w, op)
			hist = append(hist, op.String())
			if cs == nil {
				c.count("op/skipped")
				continue
			}
			if c.rng.Intn(12) == 0 {
				cp := *cs
				cp.FailAt = c.rng.Intn(7)
				cs = &cp
			}
			alias := c.rng.Intn(2) == 0
			preDigest := w.digest()
			fresh := u.stdWorld(nSh, sysShard, mkGas()) // C: never used function objects
			c13CopyState(rep, w)
			c13CopyState(fresh, w)
			var resB, resC *callResult
			var frB, frC *c13Frame
			var wg sync.WaitGroup
			wg.Add(2)
			go func() { defer wg.Done(); resB, frB = c13Exec(rep, cs, alias) }()
			go func() { defer wg.Done(); resC, frC = c13Exec(fresh, cs, alias) }()
			resA, frA := c13Exec(w, cs, alias)
			wg.Wait()
			execs += 3
			replay := func() map[string]interface{} {
				return map[string]interface{}{"call": describeCall(cs), "pre": digestAccounts(resA.Pre), "history": histReplay(hist)}
			}
			// input untouched, in each of the three executions
			for _, x := range []struct {
				n  string
				fr *c13Frame
			}{{"A(reused objects)", frA}, {"B(replica, goroutine)", frB}, {"C(fresh objects, goroutine)", frC}} {
				if x.fr == nil {
					continue
				}
				if d := x.fr.check(); d != "" {
					c13Fail(c, "input-mutated/"+cs.Fn, fmt.Sprintf("%s modified its input in execution %s: %s", cs.Fn, x.n, d), replay())
				}
			}
			// identical results
			ca, cb, cc := c13Canon(w, resA), c13Canon(rep, resB), c13Canon(fresh, resC)
			if ca != cb {
				c13Fail(c, "nondeterministic/"+cs.Fn, fmt.Sprintf("%s: reused function objects on two goroutines disagree %s", cs.Fn, c13FirstDiff(ca, cb)), replay())
			}
			if ca != cc {
				c13Fail(c, "nondeterministic/"+cs.Fn, fmt.Sprintf("%s: reused and fresh function objects disagree %s", cs.Fn, c13FirstDiff(ca, cc)), replay())
			}
			if resA.DepCalls != resC.DepCalls || strings.Join(resA.DepKinds, ",") != strings.Join(resC.DepKinds, ",") {
				c.count("note/dependency-call-sequence-differs")
			}
			// shared prefixes: full, constant, in place
			c13CheckPrefixes(c, w, baseW, "after "+cs.Fn)
			c13CheckPrefixes(c, rep, baseR, "after "+cs.Fn)
			c13CheckPrefixes(c, fresh, nil, "after "+cs.Fn+" on fresh objects")
			prefixChecks += 3
			// bookkeeping of the walk, evidence, Coq case
			c13Settle(w, op, cs, resA)
			key := fmt.Sprintf("%s/%s", cs.Fn, statusName(resA.Status))
			c.count("call/" + key)
			if cs.FailAt >= 0 {
				c.count("fault-injected/" + statusName(resA.Status))
			}
			c.note(fmt.Sprintf("%d/%s/%s/%d", wi, preDigest, op.String(), cs.FailAt), true)
			c.addExecCase(w, cs, resA)
			if len(c.rep.Samples) < 4 && resA.Status == 0 {
				c.sample(map[string]string{"op": op.String(), "status": statusName(resA.Status), "canonical": c13Cut(ca, 300)})
			}
		}
	}
	suppressed := 0
	for _, n := range c13FailSeen {
		suppressed += n - 1
	}
	c.rep.Extra = map[string]interface{}{"executions": execs, "prefix_checks": prefixChecks, "prefix_slices_per_world": nPrefix,
		"repeated_failures_suppressed": suppressed,
		"go_prefix_caps":               fmt.Sprintf("roleKeyPrefix len=%d cap=%d, noncePrefix len=%d cap=%d", len(c13RoleKeyPrefix), cap(c13RoleKeyPrefix), len(c13NoncePrefix), cap(c13NoncePrefix))}
}
