package main

// Printers for Coq terms (case files evaluated by coqc with vm_compute).

import (
	"encoding/hex"
	"fmt"
	"math/big"
	"strings"
)

// byte strings are written as lists of byte constructors: the cheapest form for coqc to parse and check
func cBytes(b []byte) string {
	if len(b) == 0 {
		return "[]"
	}
	var sb strings.Builder
	sb.Grow(4*len(b) + 2)
	sb.WriteByte('[')
	for i, x := range b {
		if i > 0 {
			sb.WriteByte(';')
		}
		sb.WriteByte('x')
		sb.WriteString(hex.EncodeToString([]byte{x}))
	}
	sb.WriteByte(']')
	return sb.String()
}
func cBool(b bool) string {
	if b {
		return "true"
	}
	return "false"
}
func cN(n uint64) string { return fmt.Sprintf("%d%%N", n) }
func cNat(n int) string  { return fmt.Sprintf("%d%%nat", n) }
func cBigN(n *big.Int) string {
	return n.String() + "%N"
}
func cZ(z *big.Int) string {
	if z.Sign() < 0 {
		return "(" + z.String() + ")%Z"
	}
	return z.String() + "%Z"
}
func cOptZ(z *big.Int) string {
	if z == nil {
		return "None"
	}
	return "(Some " + cZ(z) + ")"
}
func cOptBytes(b []byte) string {
	if b == nil {
		return "None"
	}
	return "(Some " + cBytes(b) + ")"
}
func cList(items []string) string {
	return "[" + strings.Join(items, "; ") + "]"
}
func cBytesList(l [][]byte) string {
	var s []string
	for _, b := range l {
		s = append(s, cBytes(b))
	}
	return cList(s)
}
