package main

// Coq printers for one built-in execution (Corr/Exec.v: xcfg, acctl, input, output, xcase).

import (
	"fmt"
	"math/big"
	"sort"
	"strings"

	vmcommon "github.com/ElrondNetwork/elrond-vm-common"
)

const execHeader = "From EV Require Import Base.Bytes Ledger.Types Corr.Exec.\nFrom Coq.Strings Require Import String.\nLocal Open Scope string_scope.\n"

func (w *hWorld) gasList() []uint64 {
	var l []uint64
	for _, f := range builtInCostFields {
		l = append(l, w.gasMap["BuiltInCost"][f])
	}
	for _, f := range baseCostFields {
		l = append(l, w.gasMap["BaseOperationCost"][f])
	}
	return l
}

func (w *hWorld) coqCfg() string {
	var sh, pay []string
	var ks []string
	for k := range w.shardTab {
		ks = append(ks, k)
	}
	sort.Strings(ks)
	for _, k := range ks {
		sh = append(sh, fmt.Sprintf("(%s, %s)", cBytes([]byte(k)), cN(uint64(w.shardTab[k]))))
	}
	ks = nil
	for k := range w.payTab {
		ks = append(ks, k)
	}
	sort.Strings(ks)
	payN := func(b byte) uint64 {
		switch b {
		case 'Y':
			return 0
		case 'N':
			return 1
		}
		return 2
	}
	for _, k := range ks {
		pay = append(pay, fmt.Sprintf("(%s, %s)", cBytes([]byte(k)), cN(payN(w.payTab[k]))))
	}
	var gl []string
	for _, g := range w.gasList() {
		gl = append(gl, cN(g))
	}
	return fmt.Sprintf("{| xc_shards := %s; xc_shard_default := %s; xc_pay := %s; xc_pay_default := %s; xc_dns := %s; xc_enable := %s; xc_gas := %s |}",
		cList(sh), cN(uint64(w.shardDflt)), cList(pay), cN(payN(w.payDflt)), cBytesList(w.dns), cBool(w.enableChg), cList(gl))
}

func coqAcct(a *hAccount) string {
	var st []string
	for _, k := range sortedKeys(a.storage) {
		st = append(st, fmt.Sprintf("(%s, %s)", cBytes([]byte(k)), cBytes(a.storage[k])))
	}
	return fmt.Sprintf("{| al_store := %s; al_balance := %s; al_owner := %s; al_username := %s; al_reward := %s |}",
		cList(st), cZ(a.balance), cBytes(a.owner), cBytes(a.username), cZ(a.devReward))
}

// coqAccts lists accounts (address, shared listing name); with base != nil only those whose listing differs from base
func (c *ctx) coqAccts(m map[string]*hAccount, base map[string]*hAccount) string {
	var l []string
	for _, k := range sortedAccts(m) {
		t := coqAcct(m[k])
		if base != nil {
			if b, ok := base[k]; ok && coqAcct(b) == t {
				continue
			}
		}
		l = append(l, fmt.Sprintf("(%s, %s)", cBytes([]byte(k)), c.shared("a", "acctl", t)))
	}
	return cList(l)
}

func coqInput(cs *callSpec) string {
	return fmt.Sprintf("{| i_caller := %s; i_rcpt := %s; i_args := %s; i_value := %s; i_gas := %s; i_gasLocked := %s; i_callType := %s; i_rae := %s; i_snd := %s; i_dst := %s |}",
		cBytes(cs.Caller), cBytes(cs.Rcpt), cBytesList(cs.Args), cZ(cs.Value), cN(cs.Gas), cN(cs.Locked), cN(uint64(cs.CallType)), cBool(cs.RAE), cBool(cs.Snd), cBool(cs.Dst))
}

func coqTransfer(t vmcommon.OutputTransfer) string {
	v := t.Value
	if v == nil {
		v = big.NewInt(0)
	}
	return fmt.Sprintf("{| tr_value := %s; tr_gasLimit := %s; tr_gasLocked := %s; tr_data := %s; tr_callType := %s; tr_sender := %s |}",
		cZ(v), cN(t.GasLimit), cN(t.GasLocked), cBytes(t.Data), cN(uint64(t.CallType)), cBytes(t.SenderAddress))
}

func coqOutput(o *vmcommon.VMOutput) string {
	if o == nil {
		return "(mk_out 0 0)"
	}
	var ks []string
	for k := range o.OutputAccounts {
		ks = append(ks, k)
	}
	sort.Strings(ks)
	var oas []string
	for _, k := range ks {
		oa := o.OutputAccounts[k]
		var ts []string
		for _, t := range oa.OutputTransfers {
			ts = append(ts, coqTransfer(t))
		}
		d := oa.BalanceDelta
		if d == nil {
			d = big.NewInt(0)
		}
		oas = append(oas, fmt.Sprintf("{| oc_addr := %s; oc_delta := %s; oc_transfers := %s |}", cBytes(oa.Address), cZ(d), cList(ts)))
	}
	var logs []string
	for _, l := range o.Logs {
		if l == nil {
			logs = append(logs, "{| lg_id := []; lg_addr := []; lg_topics := [] |}")
			continue
		}
		logs = append(logs, fmt.Sprintf("{| lg_id := %s; lg_addr := %s; lg_topics := %s |}", cBytes(l.Identifier), cBytes(l.Address), cBytesList(l.Topics)))
	}
	return fmt.Sprintf("{| o_rc := %s; o_gasRemaining := %s; o_returnData := %s; o_accounts := %s; o_logs := %s |}",
		cN(uint64(o.ReturnCode)), cN(o.GasRemaining), cBytesList(o.ReturnData), cList(oas), cList(logs))
}

func (c *ctx) cfgName(w *hWorld) string { return c.shared("cfg", "xcfg", w.coqCfg()) }

func describeCall(cs *callSpec) string {
	var as []string
	for _, a := range cs.Args {
		as = append(as, fmt.Sprintf("%x", a))
	}
	return fmt.Sprintf("shard=%d fn=%s caller=%x rcpt=%x args=[%s] value=%s gas=%d locked=%d callType=%d rae=%v snd=%v dst=%v failAt=%d",
		cs.Shard, cs.Fn, cs.Caller, cs.Rcpt, strings.Join(as, ","), cs.Value, cs.Gas, cs.Locked, cs.CallType, cs.RAE, cs.Snd, cs.Dst, cs.FailAt)
}

// addExecCase writes one executed call as a Coq xcase (post state = the shard after the call).
func (c *ctx) addExecCase(w *hWorld, cs *callSpec, res *callResult) {
	sh := w.shards[cs.Shard]
	fa := "None"
	if cs.FailAt >= 0 {
		fa = fmt.Sprintf("(Some %s)", cNat(cs.FailAt))
	}
	term := fmt.Sprintf("{| x_cfg := %s; x_self := %s; x_failAt := %s; x_pre := %s; x_fn := %s; x_in := %s; x_status := %s; x_out := %s; x_post := %s; x_deps := %s |}",
		c.cfgName(w), cN(uint64(cs.Shard)), fa, c.coqAccts(res.Pre, nil), cBytes([]byte(cs.Fn)), coqInput(cs), cN(uint64(res.Status)), coqOutput(res.Out), c.coqAccts(sh.accounts, res.Pre), cNat(res.DepCalls))
	c.addCase(term, describeCall(cs)+" pre="+digestAccounts(res.Pre))
}
