package main

// Random operation generator over the standard universe: structured, mostly-valid operations plus
// a hostile stream; every choice comes from c.rng.

import (
	"bytes"
	"math/big"
	"strings"

	vmcommon "github.com/ElrondNetwork/elrond-vm-common"
)

type holding struct {
	Tok   []byte
	Nonce uint64
	Bal   *big.Int
	Raw   []byte
}

func holdingsOf(a *hAccount) []holding {
	var hs []holding
	for _, k := range sortedKeys(a.storage) {
		if !strings.HasPrefix(k, string(esdtPrefix)) {
			continue
		}
		t, err := decodeToken(a.storage[k])
		if err != nil || t.Value == nil {
			continue
		}
		suf := []byte(k[len(esdtPrefix):])
		n := uint64(0)
		if t.TokenMetaData != nil {
			n = t.TokenMetaData.Nonce
			nb := be(n)
			if bytes.HasSuffix(suf, nb) {
				suf = suf[:len(suf)-len(nb)]
			}
		}
		hs = append(hs, holding{Tok: suf, Nonce: n, Bal: new(big.Int).Set(t.Value), Raw: a.storage[k]})
	}
	return hs
}

// amountFor: a quantity argument around a holding of any size (holdings beyond 64 bits: exact, one less, one more, 2^64, 2^64+small)
func (c *ctx) amountFor(bal *big.Int, div uint64) []byte {
	if bal.IsUint64() {
		return c.amount(bal.Uint64() / div)
	}
	switch c.rng.Intn(7) {
	case 0:
		return new(big.Int).Set(bal).Bytes()
	case 1:
		return new(big.Int).Sub(bal, big.NewInt(1)).Bytes()
	case 2:
		return new(big.Int).Add(bal, big.NewInt(1)).Bytes()
	case 3:
		return big64(0)
	case 4:
		return big64(uint64(1 + c.rng.Intn(9)))
	case 5:
		return new(big.Int).Rsh(bal, 1).Bytes()
	}
	return c.amount(1000)
}

// richNonce: nonces around the byte boundaries (only meaningful in rich worlds)
func (g *gen) richNonce() uint64 {
	return []uint64{1, 2, 255, 256, 257, 512, 65536, 1 << 32, 3}[g.c.rng.Intn(9)]
}

type gen struct {
	c *ctx
	u *universe
	w *hWorld
	// weights
	wTransfer, wSupply, wSystem, wAccount, wDeliver, wHostile int
}

func newGen(c *ctx, u *universe, w *hWorld) *gen {
	return &gen{c: c, u: u, w: w, wTransfer: 40, wSupply: 20, wSystem: 10, wAccount: 6, wDeliver: 14, wHostile: 10}
}

func (g *gen) anyAddr() []byte {
	u := g.u
	pool := [][]byte{u.U[0], u.U[1], u.U[2], u.U[3], u.K[0], u.K[1], u.U[0], u.U[2]}
	if g.c.rng.Intn(12) == 0 {
		pool = [][]byte{u.SC, u.SYS, u.DNS, u.Short, u.Long, u.MetaUser}
		if u.rich {
			pool = append(pool, u.SysVar, u.MetaSCs[0], u.MetaSCs[1], u.MetaSCs[2])
		}
	}
	return g.c.pick(pool)
}
func (g *gen) holder() []byte {
	u := g.u
	return g.c.pick([][]byte{u.U[0], u.U[0], u.U[1], u.U[2], u.U[2], u.U[3], u.K[0], u.K[1]})
}
func (g *gen) anyTok() []byte {
	u := g.u
	switch g.c.rng.Intn(10) {
	case 0:
		return g.c.pick(u.Alias)
	case 1:
		return g.c.pick([][]byte{nil, {0}, []byte("X"), []byte("UNKNOWN-000000")})
	case 2, 3, 4:
		return g.c.pick(u.NFTs)
	}
	return g.c.pick(u.Fung)
}
func (g *gen) callSuffix(dst []byte) [][]byte {
	// optional attached call
	switch g.c.rng.Intn(6) {
	case 0:
		return [][]byte{[]byte("doSomething")}
	case 1:
		return [][]byte{[]byte("f"), {1, 2}, nil}
	case 2:
		return [][]byte{[]byte("ESDTTransfer"), []byte("x")}
	}
	return nil
}
func (g *gen) callType() vmcommon.CallType {
	if g.c.rng.Intn(5) == 0 {
		return vmcommon.CallType(g.c.rng.Intn(4))
	}
	return vmcommon.DirectCall
}

func (g *gen) cost(fn string) uint64 {
	m := g.w.gasMap["BuiltInCost"]
	switch fn {
	case "ESDTNFTMultiTransfer", "MultiESDTNFTTransfer":
		return m["ESDTNFTMultiTransfer"]
	case "SetUserName":
		return m["SaveUserName"]
	case "ESDTNFTCreateRoleTransfer":
		return 0
	}
	return m[fn]
}

func (g *gen) transferOp() *worldOp {
	c, w := g.c, g.w
	from := g.holder()
	to := g.anyAddr()
	acc := w.shards[w.shardOf(from)%uint32(w.nShards)].account(from)
	hs := holdingsOf(acc)
	var cs *callSpec
	switch c.rng.Intn(3) {
	case 0: // ESDTTransfer
		tok := g.anyTok()
		bal := big.NewInt(0)
		for _, h := range hs {
			if h.Nonce == 0 && bytes.Equal(h.Tok, tok) {
				bal = h.Bal
			}
		}
		args := [][]byte{tok, c.amountFor(bal, 1)}
		args = append(args, g.callSuffix(to)...)
		cs = w.mkCall(w.shardOf(from), "ESDTTransfer", from, to, args, c.gasAround(g.cost("ESDTTransfer")))
	case 1: // ESDTNFTTransfer
		tok, nonce, bal := g.anyTok(), uint64(1+c.rng.Intn(3)), big.NewInt(1)
		if g.u.rich && c.rng.Intn(3) == 0 {
			tok, nonce = g.u.HiTok, g.richNonce()
		}
		if len(hs) > 0 && c.rng.Intn(5) != 0 {
			h := hs[c.rng.Intn(len(hs))]
			tok, nonce, bal = h.Tok, h.Nonce, h.Bal
		}
		nb := be(nonce)
		if c.rng.Intn(15) == 0 {
			nb = c.pick(wrapCounts)
		}
		args := [][]byte{tok, nb, c.amountFor(bal, 1), to}
		args = append(args, g.callSuffix(to)...)
		cs = w.mkCall(w.shardOf(from), "ESDTNFTTransfer", from, from, args, c.gasAround(g.cost("ESDTNFTTransfer")+400))
	default: // MultiESDTNFTTransfer
		k := 1 + c.rng.Intn(3)
		var triples [][]byte
		dup := c.rng.Intn(8) == 0 // the same cell listed more than once, each quantity within the holding, the sum possibly above it
		var dupH *holding
		for i := 0; i < k; i++ {
			tok, nonce, bal := g.anyTok(), uint64(c.rng.Intn(3)), big.NewInt(5)
			div := uint64(k)
			if len(hs) > 0 && c.rng.Intn(6) != 0 {
				h := hs[c.rng.Intn(len(hs))]
				if dup {
					if dupH == nil {
						dupH = &h
					}
					h, div = *dupH, 1
				}
				tok, nonce, bal = h.Tok, h.Nonce, h.Bal
			}
			q := c.amountFor(bal, div)
			if dup && bal.IsUint64() && c.rng.Intn(2) == 0 {
				q = be(bal.Uint64()/2 + 1)
			}
			triples = append(triples, tok, be(nonce), q)
		}
		cnt := be(uint64(k))
		switch c.rng.Intn(14) {
		case 0:
			cnt = c.pick(wrapCounts)
		case 1:
			cnt = be(uint64(k + 1))
		case 2:
			cnt = nil
		}
		args := append([][]byte{to, cnt}, triples...)
		args = append(args, g.callSuffix(to)...)
		cs = w.mkCall(w.shardOf(from), "MultiESDTNFTTransfer", from, from, args, c.gasAround(uint64(k)*g.cost("MultiESDTNFTTransfer")+600))
	}
	cs.CallType = g.callType()
	if c.rng.Intn(25) == 0 || (g.u.rich && c.rng.Intn(8) == 0) {
		cs.RAE = true
	}
	if c.rng.Intn(30) == 0 {
		cs.Value = big.NewInt(1)
	}
	if cs.CallType == vmcommon.AsynchronousCall || c.rng.Intn(20) == 0 { // gas locked for the callback: nothing, little, the whole gas, more than the gas
		cs.Locked = []uint64{0, 1, 7, cs.Gas, cs.Gas + 1, 1 << 63}[c.rng.Intn(6)]
	}
	return &worldOp{Kind: opTx, Call: cs}
}

func (g *gen) supplyOp() *worldOp {
	c, w, u := g.c, g.w, g.u
	who := g.holder()
	acc := w.shards[w.shardOf(who)%uint32(w.nShards)].account(who)
	hs := holdingsOf(acc)
	pickNFT := func() (tok []byte, nonce uint64, bal uint64) {
		tok, nonce, bal = c.pick(u.NFTs), uint64(1+c.rng.Intn(3)), 1
		if u.rich && c.rng.Intn(3) == 0 {
			tok, nonce = u.HiTok, g.richNonce()
		}
		var nf []holding
		for _, h := range hs {
			if h.Nonce > 0 {
				nf = append(nf, h)
			}
		}
		if len(nf) > 0 && c.rng.Intn(5) != 0 {
			h := nf[c.rng.Intn(len(nf))]
			tok, nonce = h.Tok, h.Nonce
			if h.Bal.IsUint64() {
				bal = h.Bal.Uint64()
			}
		}
		return
	}
	var fn string
	var args [][]byte
	rcpt := who
	switch c.rng.Intn(8) {
	case 0:
		fn, args = "ESDTLocalMint", [][]byte{g.anyTok(), c.amount(100)}
	case 1:
		fn, args = "ESDTLocalBurn", [][]byte{g.anyTok(), c.amount(1000)}
	case 2:
		fn, args, rcpt = "ESDTBurn", [][]byte{g.anyTok(), c.amount(1000)}, u.SC
	case 3:
		roy := be(uint64(c.rng.Intn(10001)))
		switch c.rng.Intn(8) {
		case 0:
			roy = be(10001)
		case 1:
			roy = be(1<<32 + 1)
		case 2:
			roy = be(10000)
		}
		q := c.amount(3)
		if c.rng.Intn(2) == 0 {
			q = be(1)
		}
		ctok := c.pick(u.NFTs)
		if u.rich && c.rng.Intn(3) == 0 {
			ctok = u.HiTok
		}
		args = [][]byte{ctok, q, []byte("name"), roy, []byte("hash"), []byte("attributes")}
		for i := 0; i < 1+c.rng.Intn(3); i++ {
			args = append(args, bytes.Repeat([]byte{'u'}, c.rng.Intn(5)))
		}
		if c.rng.Intn(10) == 0 {
			args = args[:6]
		}
		fn = "ESDTNFTCreate"
	case 4:
		tok, n, _ := pickNFT()
		fn, args = "ESDTNFTAddQuantity", [][]byte{tok, be(n), c.amount(10)}
	case 5:
		tok, n, b := pickNFT()
		fn, args = "ESDTNFTBurn", [][]byte{tok, be(n), c.amount(b)}
	case 6:
		tok, n, _ := pickNFT()
		fn, args = "ESDTNFTAddURI", [][]byte{tok, be(n), []byte("uriX"), nil}
	default:
		tok, n, _ := pickNFT()
		fn, args = "ESDTNFTUpdateAttributes", [][]byte{tok, be(n), []byte("new-attr")}
	}
	cs := w.mkCall(w.shardOf(who), fn, who, rcpt, args, c.gasAround(g.cost(fn)+300))
	if c.rng.Intn(25) == 0 {
		cs.RAE = true
	}
	return &worldOp{Kind: opTx, Call: cs}
}

func (g *gen) systemOp() *worldOp {
	c, w, u := g.c, g.w, g.u
	target := g.holder()
	tok := g.anyTok()
	var fn string
	var args [][]byte
	switch c.rng.Intn(9) {
	case 0:
		fn, args = "ESDTFreeze", [][]byte{tok}
	case 1:
		fn, args = "ESDTUnFreeze", [][]byte{tok}
	case 2:
		fn, args = "ESDTWipe", [][]byte{tok}
	case 3, 4:
		fn, args, target = []string{"ESDTPause", "ESDTUnPause"}[c.rng.Intn(2)], [][]byte{tok}, u.SYS
	case 5:
		k := 1 + c.rng.Intn(3)
		args = [][]byte{tok}
		for i := 0; i < k; i++ {
			args = append(args, c.pick(u.AllRoles))
		}
		fn = "ESDTSetRole"
	case 6:
		args = [][]byte{tok, c.pick(u.AllRoles)}
		if c.rng.Intn(3) == 0 { // more roles, possibly the same one twice
			r := c.pick(u.AllRoles)
			args = append(args, r, c.pick(u.AllRoles), r)[:2+c.rng.Intn(3)]
		}
		fn = "ESDTUnSetRole"
	case 7:
		rt := c.pick(u.NFTs)
		if u.rich && c.rng.Intn(3) == 0 {
			rt = u.HiTok
		}
		fn, args = "ESDTNFTCreateRoleTransfer", [][]byte{rt, g.holder()}
	default:
		fn, args = "ESDTTransfer", [][]byte{c.pick(u.Fung), be(uint64(1 + c.rng.Intn(50)))}
	}
	sh := w.shardOf(target)
	if fn == "ESDTPause" || fn == "ESDTUnPause" {
		sh = uint32(c.rng.Intn(w.nShards))
	}
	if int(sh) >= w.nShards {
		sh = 0
	}
	cs := &callSpec{Shard: sh, Fn: fn, Caller: u.SC, Rcpt: target, Args: args, Value: big.NewInt(0), Gas: uint64(c.rng.Intn(3)) * 1000,
		Snd: false, Dst: true, FailAt: -1}
	if u.rich {
		switch c.rng.Intn(10) {
		case 0: // a metachain contract that is NOT the ESDT system contract tries a system-only operation
			cs.Caller = c.pick(u.MetaSCs)
		case 1: // a system operation addressed to the non-canonical system-account address
			if fn == "ESDTPause" || fn == "ESDTUnPause" {
				cs.Rcpt = u.SysVar
			}
		}
	}
	return &worldOp{Kind: opSys, Call: cs}
}

func (g *gen) accountOp() *worldOp {
	c, w, u := g.c, g.w, g.u
	who := g.anyAddr()
	var fn string
	var args [][]byte
	rcpt := g.c.pick(u.K)
	switch c.rng.Intn(4) {
	case 0:
		fn, args = "ChangeOwnerAddress", [][]byte{g.anyAddr()}
	case 1:
		fn = "ClaimDeveloperRewards"
	case 2:
		fn, args, who, rcpt = "SetUserName", [][]byte{[]byte("alice.elrond")}, u.DNS, g.anyAddr()
		if c.rng.Intn(5) == 0 {
			who = g.anyAddr()
		}
	default:
		fn, rcpt = "SaveKeyValue", who
		keys := [][]byte{[]byte("k1"), []byte("key2"), []byte("ELROND"), []byte("ELRONDesdtTKA-a1b2c3"), []byte("ELRON"), []byte("elrond"), []byte("ELRONd-x"), nil, []byte("ELRONDnonceNFA-112233")}
		for i := 0; i < 1+c.rng.Intn(3); i++ {
			args = append(args, c.pick(keys), bytes.Repeat([]byte{byte('a' + c.rng.Intn(3))}, c.rng.Intn(6)))
		}
		if c.rng.Intn(10) == 0 {
			args = args[:len(args)-1]
		}
	}
	cs := w.mkCall(w.shardOf(who), fn, who, rcpt, args, c.gasAround(g.cost(fn)+200))
	cs.CallType = g.callType()
	if int(cs.Shard) >= w.nShards {
		cs.Shard = 0
		cs.Snd, cs.Dst = w.shardOf(who) == 0, w.shardOf(rcpt) == 0
	}
	return &worldOp{Kind: opTx, Call: cs}
}

func (g *gen) deliverOp() *worldOp {
	c, w := g.c, g.w
	if len(w.inflight) == 0 {
		return g.transferOp()
	}
	m := w.inflight[c.rng.Intn(len(w.inflight))]
	if w.failed[m.ID] && c.rng.Intn(3) != 0 {
		return &worldOp{Kind: opRefund, ID: m.ID, Gas: m.GasLimit}
	}
	return &worldOp{Kind: opDeliver, ID: m.ID, Gas: m.GasLimit}
}

// hostile: any function, any argument count 0..12, adversarial items, any presence pattern reachable on the caller's shard
func (g *gen) hostileOp() *worldOp {
	c, w, u := g.c, g.w, g.u
	fn := builtinNames[c.rng.Intn(len(builtinNames))]
	items := [][]byte{nil, {0}, {0, 0}, be(1), be(2), be(3), be(0xffffffffffffffff), append([]byte{1}, make([]byte, 8)...),
		u.U[0], u.U[2], u.K[0], u.K[1], u.SC, u.SYS, u.Short, u.Long, u.Fung[0], u.NFTs[0], u.NFTs[1], u.Alias[0], u.Alias[2],
		[]byte("CD"), []byte("ESDTRoleNFTCreate"), bytes.Repeat([]byte{0xff}, 101), wrapCounts[0], wrapCounts[1], wrapCounts[3]}
	if u.rich {
		items = append(items, u.HiTok, big64(0), big64(7), be(256), be(255), be(65536), u.SysVar, u.MetaSCs[0], u.MetaSCs[2], u.Fung[1])
	}
	n := c.rng.Intn(13)
	var args [][]byte
	for i := 0; i < n; i++ {
		args = append(args, c.pick(items))
	}
	caller := g.anyAddr()
	rcpt := g.anyAddr()
	if c.rng.Intn(2) == 0 {
		rcpt = caller
	}
	sh := w.shardOf(caller)
	if int(sh) >= w.nShards {
		sh = 0
	}
	cs := w.mkCall(sh, fn, caller, rcpt, args, c.gasAround(g.cost(fn)))
	cs.CallType = vmcommon.CallType(c.rng.Intn(4))
	cs.RAE = c.rng.Intn(6) == 0
	cs.Locked = uint64(c.rng.Intn(3))
	return &worldOp{Kind: opTx, Call: cs}
}

func (g *gen) randomOp() *worldOp {
	tot := g.wTransfer + g.wSupply + g.wSystem + g.wAccount + g.wDeliver + g.wHostile
	r := g.c.rng.Intn(tot)
	switch {
	case r < g.wTransfer:
		return g.transferOp()
	case r < g.wTransfer+g.wSupply:
		return g.supplyOp()
	case r < g.wTransfer+g.wSupply+g.wSystem:
		return g.systemOp()
	case r < g.wTransfer+g.wSupply+g.wSystem+g.wAccount:
		return g.accountOp()
	case r < g.wTransfer+g.wSupply+g.wSystem+g.wAccount+g.wDeliver:
		return g.deliverOp()
	}
	return g.hostileOp()
}
