package main

// C15 — the token state is well-formed after every history: after EVERY step every account of every shard is
// scanned and decoded with the production decoder.  Histories: long random walks under system-contract discipline
// and an exhaustive enumeration of all operation sequences up to a small depth over a tiny universe.
// Shared helpers live in c05.go.

import (
	"bytes"
	"fmt"
	"math/big"
	"runtime"
	"sort"
	"strings"

	vmcommon "github.com/ElrondNetwork/elrond-vm-common"
)

const c15CreateRole = "ESDTRoleNFTCreate"

// ---------------------------------------------------------------------------------------------
// history variables and generator discipline
// ---------------------------------------------------------------------------------------------
type c15State struct {
	issued       map[string]uint64 // token -> highest nonce ever returned by a successful ESDTNFTCreate
	createGiven  map[string]bool   // token -> the create role has been set once (single-creator discipline)
	reported     map[string]bool   // violating cells already reported in this history (a violation is attributed to the step that introduced it)
	scans, cells int
}

func c15NewState() *c15State {
	return &c15State{issued: map[string]uint64{}, createGiven: map[string]bool{}, reported: map[string]bool{}}
}
func (st *c15State) clone() *c15State {
	n := c15NewState()
	for k, v := range st.issued {
		n.issued[k] = v
	}
	for k, v := range st.createGiven {
		n.createGiven[k] = v
	}
	for k, v := range st.reported {
		n.reported[k] = v
	}
	return n
}

// admit: "" when the operation respects the disciplines under which C15 is stated, otherwise the reason it is not issued
//   - system-contract discipline: a role is never set twice without being unset (per account and token);
//   - single-creator discipline (C07): per token the create role is set at most once and afterwards only moved by
//     ESDTNFTCreateRoleTransfer executed at its current holder;
//   - destination-side executions only for in-flight messages (DESIGN 3.4): no forged continuation of NFT / multi
//     transfer or hand-over, no re-delivery (F9 belongs to C07);
//   - the system-account ADDRESS takes no part in token traffic (F8 belongs to C02).
func (st *c15State) admit(w *hWorld, op *worldOp) string {
	switch op.Kind {
	case opRedeliver:
		return "redelivery"
	case opDeliver, opRefund:
		return ""
	}
	cs := op.Call
	sys := vmcommon.SystemAccountAddress
	pauseFn := cs.Fn == "ESDTPause" || cs.Fn == "ESDTUnPause"
	if bytes.Equal(cs.Caller, sys) || (bytes.Equal(cs.Rcpt, sys) && !pauseFn) {
		return "system-account-address-in-token-traffic"
	}
	for _, a := range cs.Args {
		if bytes.Equal(a, sys) {
			return "system-account-address-in-token-traffic"
		}
	}
	bySC := bytes.Equal(cs.Caller, vmcommon.ESDTSCAddress)
	if int(cs.Shard) >= w.nShards {
		return ""
	}
	switch cs.Fn {
	case "ESDTNFTTransfer", "MultiESDTNFTTransfer":
		if !cs.Snd && !bytes.Equal(cs.Caller, cs.Rcpt) {
			return "forged-destination-side-transfer"
		}
	case "ESDTNFTCreateRoleTransfer":
		if cs.Snd {
			return "" // rejected by the function
		}
		if !bySC {
			return "forged-handover-continuation"
		}
		if cs.Dst && len(cs.Args) == 2 {
			held := c03RolesHeld(w.shards[cs.Shard].account(cs.Rcpt), cs.Args[0])
			if !c03Has(held, c15CreateRole) {
				return "handover-not-at-current-holder"
			}
		}
	case "ESDTSetRole":
		if bySC && cs.Dst && len(cs.Args) >= 2 && cs.Value.Sign() == 0 {
			held := c03RolesHeld(w.shards[cs.Shard].account(cs.Rcpt), cs.Args[0])
			seen := map[string]bool{}
			for _, r := range held {
				seen[string(r)] = true
			}
			for _, r := range cs.Args[1:] {
				if seen[string(r)] {
					return "duplicate-role-set"
				}
				seen[string(r)] = true
				if string(r) == c15CreateRole && st.createGiven[string(cs.Args[0])] {
					return "create-role-set-twice"
				}
			}
		}
	}
	return ""
}

// after: history variables
func (st *c15State) after(sr *stepResult) {
	if sr.Skipped || sr.Res.Status != 0 {
		return
	}
	cs := sr.Call
	switch cs.Fn {
	case "ESDTNFTCreate":
		if sr.Res.Out != nil && len(sr.Res.Out.ReturnData) == 1 && len(cs.Args) > 0 {
			n := c05U64(sr.Res.Out.ReturnData[0])
			if n > st.issued[string(cs.Args[0])] {
				st.issued[string(cs.Args[0])] = n
			}
		}
	case "ESDTSetRole":
		for _, r := range cs.Args[1:] {
			if string(r) == c15CreateRole {
				st.createGiven[string(cs.Args[0])] = true
			}
		}
	}
}

// ---------------------------------------------------------------------------------------------
// the scan: the property evaluated directly on the real storage
// ---------------------------------------------------------------------------------------------
type c15Violation struct{ class, cell, what string }

func c15ScanAccount(shard uint32, a *hAccount, st *c15State) []c15Violation {
	var out []c15Violation
	cur := ""
	bad := func(class, f string, args ...interface{}) {
		out = append(out, c15Violation{class, fmt.Sprintf("%d/%x/%x/%s", shard, a.addr, cur, class), fmt.Sprintf("shard %d account %x: ", shard, a.addr) + fmt.Sprintf(f, args...)})
	}
	isSys := bytes.Equal(a.addr, vmcommon.SystemAccountAddress)
	for _, k := range sortedKeys(a.storage) {
		cur = k
		if !strings.HasPrefix(k, "ELROND") {
			continue
		}
		v := a.storage[k]
		st.cells++
		if len(v) == 0 {
			bad("empty-value-stored", "key %q holds an empty value", k)
			continue
		}
		switch {
		case strings.HasPrefix(k, c05P):
			if isSys && len(v) == 2 {
				// fourth entry kind: the pause flag of token k[len(P):] (raw 2 bytes)
				if !(v[1] == 0 && (v[0] == 0 || v[0] == 1)) {
					bad("pause-flag-value", "pause flag under %q is %x", k, v)
				}
				continue
			}
			t, err := c05DecodeToken(v)
			if err != nil {
				bad("entry-undecodable", "entry under %q (%x) does not decode: %v", k, v, err)
				continue
			}
			if t.Value == nil {
				bad("entry-value-missing", "entry under %q has no value", k)
				continue
			}
			frozen := len(t.Properties) == 2 && t.Properties[0]&1 != 0
			switch t.Value.Sign() {
			case -1:
				bad("entry-value-negative", "entry under %q has value %s", k, t.Value)
			case 0:
				if !(t.Type == 0 && t.TokenMetaData == nil && frozen) {
					bad("entry-zero-value", "entry under %q has value 0 (type %d, metadata %v, properties %x)", k, t.Type, t.TokenMetaData != nil, t.Properties)
				}
			}
			if (t.Type == 0) != (t.TokenMetaData == nil) {
				bad("entry-type-metadata", "entry under %q has type %d and metadata present=%v", k, t.Type, t.TokenMetaData != nil)
			}
			if t.TokenMetaData != nil {
				nb := be(t.TokenMetaData.Nonce)
				if t.TokenMetaData.Nonce == 0 || !strings.HasSuffix(k[len(c05P):], string(nb)) {
					bad("entry-nonce-key", "entry under %q carries metadata nonce %d", k, t.TokenMetaData.Nonce)
				}
			}
			p := t.Properties
			if !(len(p) == 0 || (len(p) == 2 && p[1] == 0 && (p[0] == 0 || p[0] == 1))) {
				bad("entry-properties", "entry under %q has properties %x", k, p)
			}
		case strings.HasPrefix(k, c05R):
			r, err := c05DecodeRoles(v)
			if err != nil {
				bad("roles-undecodable", "role list under %q (%x) does not decode: %v", k, v, err)
				continue
			}
			if len(r.Roles) == 0 {
				bad("roles-empty", "role list under %q is stored empty", k)
			}
			seen := map[string]bool{}
			for _, x := range r.Roles {
				if seen[string(x)] {
					bad("roles-duplicate", "role list under %q holds %q twice", k, x)
				}
				seen[string(x)] = true
			}
			tok := k[len(c05R):]
			if seen[c15CreateRole] {
				if hi, ok := st.issued[tok]; ok {
					ctr := c05U64(a.storage[c05NP+tok])
					if ctr < hi {
						bad("counter-below-issued", "holds the create role of %q with counter %d but nonce %d was issued", tok, ctr, hi)
					}
				}
			}
		case strings.HasPrefix(k, c05NP):
			n := new(big.Int).SetBytes(v)
			if len(v) > 8 || v[0] == 0 || n.Sign() == 0 {
				bad("counter-encoding", "counter under %q is %x", k, v)
			}
		default:
			bad("key-family", "protected key %q (%x) is in none of the three families", k, k)
		}
	}
	return out
}

func c15Scan(c *ctx, w *hWorld, st *c15State, sr *stepResult, hist []string) {
	st.scans++
	for _, sh := range w.shards {
		for _, ak := range sortedAccts(sh.accounts) {
			for _, v := range c15ScanAccount(sh.id, sh.accounts[ak], st) {
				if st.reported[v.cell] {
					continue
				}
				st.reported[v.cell] = true
				fn := "initial-state"
				var rp interface{}
				if sr != nil {
					fn = sr.Call.Fn
					rp = c05Replay(sr, hist)
				}
				c.fail("monitor", "inv-"+v.class+"/"+fn, v.what, rp)
			}
		}
	}
}

// self-test of the scan: it must accept the pause flag and reject hand-made ill-formed states
func c15SelfTest(c *ctx, u *universe) {
	w := u.stdWorld(2, 1, distinctGas(10, 3))
	c15Populate(u, w, c15NewState())
	st := c15NewState()
	mustOK(w.sysOn(u, 0, u.SYS, "ESDTPause", u.Fung[0]), "selftest pause")
	mustOK(w.sysOn(u, 1, u.SYS, "ESDTPause", u.NFTs[0]), "selftest pause")
	mustOK(w.sysOn(u, 1, u.SYS, "ESDTUnPause", u.NFTs[0]), "selftest unpause")
	n := 0
	for _, sh := range w.shards {
		for _, a := range sh.accounts {
			n += len(c15ScanAccount(sh.id, a, st))
		}
	}
	if n != 0 {
		c.fail("harness", "setup/c15-selftest-pause-flag", "the scan rejects a state with pause flags", nil)
	}
	c.count("c15/selftest/pause-flag-accepted")
	a := w.shards[0].account(u.U[0])
	raw := a.storage[c05P+string(u.NFTs[1])+"\x01"]
	bads := map[string][]byte{
		"ELRONDother":                     []byte("x"),
		c05P + "ZZZ-000000":               {0xff, 0xff, 0xff},
		c05P + string(u.NFTs[1]) + "\x09": raw,                      // metadata nonce 1 under key nonce 9
		c05P + "FUN-000000":               {0x12, 0x02, 0x00, 0x00}, // zero value, not frozen
		c05R + "ZZZ-000000":               {0x0a, 0x01, 'a', 0x0a, 0x01, 'a'},
		c05NP + "ZZZ-000000":              {0x00, 0x01},
		c05P + "PPP-000000":               {0x12, 0x02, 0x00, 0x05, 0x1a, 0x02, 0x02, 0x00},
		c05P + "TTT-000000":               {0x08, 0x01, 0x12, 0x02, 0x00, 0x05}, // type 1 without metadata
	}
	for k, v := range bads {
		b := newAccount(w, u.U[1])
		b.storage[k] = v
		if len(c15ScanAccount(0, b, st)) == 0 {
			c.fail("harness", "setup/c15-selftest-blind", fmt.Sprintf("the scan accepts the ill-formed cell %q = %x", k, v), nil)
		}
		c.count("c15/selftest/ill-formed-rejected")
	}
	st2 := c15NewState()
	st2.issued[string(u.NFTs[1])] = 9
	if len(c15ScanAccount(0, a, st2)) == 0 {
		c.fail("harness", "setup/c15-selftest-blind", "the scan accepts a counter below an issued nonce", nil)
	}
}

// c15Populate: the standard holdings, but with ONE holder of the create role per token
func c15Populate(u *universe, w *hWorld, st *c15State) {
	for _, a := range [][]byte{u.U[0], u.U[1], u.U[2], u.K[0]} {
		for _, t := range u.Fung {
			mustOK(w.sys(u, a, "ESDTTransfer", t, be(1000)), "issue")
		}
	}
	toks := append(append([][]byte{}, u.NFTs...), u.Fung...)
	for _, t := range toks {
		mustOK(w.sys(u, u.U[0], "ESDTSetRole", append([][]byte{t}, u.AllRoles...)...), "setrole")
		var rest [][]byte
		for _, r := range u.AllRoles {
			if string(r) != c15CreateRole {
				rest = append(rest, r)
			}
		}
		mustOK(w.sys(u, u.U[2], "ESDTSetRole", append([][]byte{t}, rest...)...), "setrole")
		st.createGiven[string(t)] = true
	}
	mk := func(cr []byte, tok []byte, q uint64, name string) {
		sr := w.tx(cr, cr, "ESDTNFTCreate", bigGas, tok, be(q), []byte(name), be(250), []byte("hash-"+name), []byte("attr"), []byte("uri1"), []byte("uri2"))
		mustOK(sr, "create")
		st.after(sr)
	}
	mk(u.U[0], u.NFTs[0], 1, "n1")
	mk(u.U[0], u.NFTs[1], 50, "s1")
	mk(u.U[0], u.NFTs[1], 7, "s2")
}

// ---------------------------------------------------------------------------------------------
// family 1: long random walks under discipline (own walker: ledger.go's walk has no operation filter and its
// populate installs two holders of the create role)
// ---------------------------------------------------------------------------------------------
func c15Walk(c *ctx, u *universe, worlds, ops, emitProb, maxCases int) {
	c05SetExecStream(c, c05ProjState)
	emitted := 0
	for wi := 0; wi < worlds; wi++ {
		nSh := []int{2, 3, 1, 2, 3}[wi%5]
		sysShard := uint32(wi % nSh)
		w := u.stdWorld(nSh, sysShard, distinctGas(uint64(10+7*wi), 3))
		st := c15NewState()
		c15Populate(u, w, st)
		u.rich = false
		var tour []func() *worldOp
		if wi%2 == 1 { // every other world: the rich holdings and the fixed tour of DESIGN 4.2, filtered by the same disciplines
			u.onStep = func(sr *stepResult) { st.after(sr) }
			u.populateRich(w)
			u.onStep = nil
			tour = richTour(u, w)
		}
		ti := 0
		var pending []*worldOp
		g := newGen(c, u, w)
		g.wTransfer, g.wSupply, g.wSystem, g.wAccount, g.wDeliver, g.wHostile = 34, 22, 16, 4, 14, 10
		c15Scan(c, w, st, nil, nil)
		var hist []string
		hrec := c.startHistory(w)
		done := 0
		total := ops
		for attempts := 0; done < total && attempts < 20*ops+4*len(tour); attempts++ {
			var op *worldOp
			fromTour := false
			switch {
			case len(pending) > 0:
				op, pending = pending[0], pending[1:]
				total++
			case ti < len(tour):
				op = tour[ti]()
				ti++
				total++
				fromTour = true
			default:
				op = g.randomOp()
			}
			if why := st.admit(w, op); why != "" {
				if fromTour {
					total--
				}
				c.count("c15/not-issued/" + why)
				continue
			}
			key := c05Hash(fmt.Sprint(wi), c05StateDigest(shardMaps(w, false)), op.String())
			sr := w.step(op)
			if fromTour {
				for _, m := range sr.NewMsgs {
					pending = append(pending, &worldOp{Kind: opDeliver, ID: m.ID, Gas: m.GasLimit})
				}
			}
			hist = append(hist, op.String())
			hrec.add(op)
			done++
			if done == 40 || done == total {
				c.emitHistory(hrec, w, fmt.Sprintf("C15 walk: history of world %d, first %d operations (seed %d)", wi, done, c.seed))
			}
			if sr.Skipped {
				c.count("op/skipped")
				continue
			}
			c.count(fmt.Sprintf("call/%s/%s", sr.Call.Fn, statusName(sr.Res.Status)))
			c.count("family/walk")
			c.note(key, true)
			st.after(sr)
			c15Scan(c, w, st, sr, hist)
			if (emitProb <= 1 || c.rng.Intn(emitProb) == 0) && (maxCases == 0 || emitted < maxCases) {
				c.addExecCase(w, sr.Call, sr.Res)
				emitted++
			}
			if len(c.rep.Samples) < 4 && sr.Res.Status == 0 {
				c.sample(map[string]string{"op": op.String(), "status": "ok"})
			}
		}
		c.count(fmt.Sprintf("c15/walk/length-%d", done))
	}
}

// ---------------------------------------------------------------------------------------------
// family 3: one creator, hundreds of consecutive ESDTNFTCreate calls of one token (nonces beyond one byte: 255, 256,
// 257, 512 ...), scan after each; then transfers / burns / quantity changes of the nonces around the byte boundaries,
// same shard and cross shard with delivery.  Every issued nonce must still be present under its own key afterwards.
// ---------------------------------------------------------------------------------------------
func c15ManyCreates(c *ctx, u *universe, creates int) {
	c05SetExecStream(c, c05ProjState)
	w := u.stdWorld(2, 1, distinctGas(13, 2))
	st := c15NewState()
	A, B, C := u.U[0], u.U[1], u.U[2]
	T := u.NFTs[1]
	var hist []string
	do := func(op *worldOp, emit bool) *stepResult {
		key := c05Hash("many-creates", fmt.Sprint(len(hist)), op.String())
		sr := w.step(op)
		hist = append(hist, op.String())
		if sr.Skipped {
			return sr
		}
		c.count(fmt.Sprintf("call/%s/%s", sr.Call.Fn, statusName(sr.Res.Status)))
		c.count("family/many-creates")
		c.note(key, true)
		st.after(sr)
		c15Scan(c, w, st, sr, hist)
		if emit {
			c.addExecCase(w, sr.Call, sr.Res)
		}
		return sr
	}
	sys := func(rcpt []byte, fn string, args ...[]byte) *stepResult {
		return do(&worldOp{Kind: opSys, Call: &callSpec{Shard: w.shardOf(rcpt), Fn: fn, Caller: u.SC, Rcpt: rcpt, Args: args, Value: big.NewInt(0), Dst: true, FailAt: -1}}, false)
	}
	tx := func(emit bool, caller, rcpt []byte, fn string, args ...[]byte) *stepResult {
		return do(&worldOp{Kind: opTx, Call: w.mkCall(w.shardOf(caller), fn, caller, rcpt, args, bigGas)}, emit)
	}
	mustOK(sys(A, "ESDTSetRole", append([][]byte{T}, u.AllRoles...)...), "many-creates roles")
	st.createGiven[string(T)] = true
	for i := 1; i <= creates; i++ {
		emit := i <= 2 || (i >= 255 && i <= 257)
		sr := tx(emit, A, A, "ESDTNFTCreate", T, be(3), []byte(fmt.Sprintf("n%d", i)), be(10), []byte(fmt.Sprintf("h%d", i)), []byte("at"), []byte("u"))
		mustOK(sr, "many-creates create")
		if got := c05U64(sr.Res.Out.ReturnData[0]); got != uint64(i) {
			c.fail("monitor", "inv-counter-below-issued/ESDTNFTCreate", fmt.Sprintf("create number %d returned nonce %d", i, got), c05Replay(sr, hist))
		}
	}
	// every issued nonce is present under its own key with its own metadata nonce and the created quantity
	present := func(stage string, except map[uint64]bool) {
		a := w.shards[0].account(A)
		for n := uint64(1); n <= uint64(creates); n++ {
			if except[n] {
				continue
			}
			raw, ok := a.storage[c05P+string(T)+string(be(n))]
			t, err := c05DecodeToken(raw)
			if !ok || err != nil || t.TokenMetaData == nil || t.TokenMetaData.Nonce != n || t.Value == nil || t.Value.Cmp(big.NewInt(3)) != 0 {
				c.fail("monitor", "inv-entry-nonce-key/ESDTNFTCreate", fmt.Sprintf("%s: NFT %q nonce %d is not intact under its own key (present=%v)", stage, T, n, ok), map[string]interface{}{"history": histReplay(hist)})
				return
			}
		}
	}
	present("after the creates", nil)
	touched := map[uint64]bool{}
	for _, n := range []uint64{1, 2, 255, 256, 257, 511, 512, 513, uint64(creates)} {
		if n > uint64(creates) {
			continue
		}
		touched[n] = true
		emit := n == 256
		tx(emit, A, A, "ESDTNFTTransfer", T, be(n), be(1), B)
		tx(false, A, A, "ESDTNFTTransfer", T, be(n), be(1), C)
		tx(false, A, A, "ESDTNFTAddQuantity", T, be(n), be(4))
		tx(false, A, A, "ESDTNFTBurn", T, be(n), be(1))
		tx(false, A, A, "ESDTNFTAddURI", T, be(n), []byte("u2"))
		tx(false, A, A, "MultiESDTNFTTransfer", C, be(1), T, be(n), be(1))
		for len(w.inflight) > 0 {
			m := w.inflight[0]
			if sr := do(&worldOp{Kind: opDeliver, ID: m.ID, Gas: m.GasLimit}, false); sr.Skipped || sr.Res.Status != 0 {
				break
			}
		}
		tx(false, B, B, "ESDTNFTTransfer", T, be(n), be(1), A)
	}
	present("after the transfers", touched)
	c.count(fmt.Sprintf("c15/many-creates/creates-%d", creates))
}

// ---------------------------------------------------------------------------------------------
// family 2: exhaustive enumeration of all operation sequences up to a depth over a tiny universe
// (2 shards, 3 accounts: A, B on shard 0 and C on shard 1, 2 tokens: F fungible and N semi-fungible, a few amounts)
// ---------------------------------------------------------------------------------------------
type c15Op struct {
	name string
	mk   func(w *hWorld) *worldOp // nil result: not applicable in this state
}

func c15Alphabet(u *universe) []c15Op {
	A, B, C := u.U[0], u.U[1], u.U[2]
	F, N := u.Fung[0], u.NFTs[1]
	N1 := append(append([]byte{}, N...), 1)
	meta := [][]byte{[]byte("nm"), be(5), []byte("h"), []byte("at"), []byte("u")}
	var ops []c15Op
	tx := func(name string, caller, rcpt []byte, fn string, args ...[]byte) {
		ops = append(ops, c15Op{name, func(w *hWorld) *worldOp {
			return &worldOp{Kind: opTx, Call: w.mkCall(w.shardOf(caller), fn, caller, rcpt, args, bigGas)}
		}})
	}
	sys := func(name string, shard int, rcpt []byte, fn string, args ...[]byte) {
		ops = append(ops, c15Op{name, func(w *hWorld) *worldOp {
			sh := uint32(shard)
			if shard < 0 {
				sh = w.shardOf(rcpt)
			}
			return &worldOp{Kind: opSys, Call: &callSpec{Shard: sh, Fn: fn, Caller: u.SC, Rcpt: rcpt, Args: args, Value: big.NewInt(0), Snd: false,
				Dst: w.shardOf(rcpt) == sh || fn == "ESDTPause" || fn == "ESDTUnPause", FailAt: -1}}
		}})
	}
	sys("issue F 10 -> A", -1, A, "ESDTTransfer", F, be(10))
	sys("issue F 10 -> C", -1, C, "ESDTTransfer", F, be(10))
	tx("A->B F 5", A, B, "ESDTTransfer", F, be(5))
	tx("A->B F 10", A, B, "ESDTTransfer", F, be(10))
	tx("A->C F 5", A, C, "ESDTTransfer", F, be(5))
	tx("C->A F 10", C, A, "ESDTTransfer", F, be(10))
	tx("B->A F 5", B, A, "ESDTTransfer", F, be(5))
	sys("roles N -> A (create, add, burn, uri, attr)", -1, A, "ESDTSetRole", N, u.AllRoles[2], u.AllRoles[3], u.AllRoles[4], u.AllRoles[5], u.AllRoles[6])
	sys("roles F -> A (mint, burn)", -1, A, "ESDTSetRole", F, u.AllRoles[0], u.AllRoles[1])
	sys("roles N -> C (add, burn)", -1, C, "ESDTSetRole", N, u.AllRoles[3], u.AllRoles[4])
	sys("unset N burn at A", -1, A, "ESDTUnSetRole", N, u.AllRoles[4])
	tx("A create N q5", A, A, "ESDTNFTCreate", append([][]byte{N, be(5)}, meta...)...)
	tx("A create N q1", A, A, "ESDTNFTCreate", append([][]byte{N, be(1)}, meta...)...)
	tx("B create N q1", B, B, "ESDTNFTCreate", append([][]byte{N, be(1)}, meta...)...)
	tx("C create N q2", C, C, "ESDTNFTCreate", append([][]byte{N, be(2)}, meta...)...)
	tx("A N#1 1 -> B", A, A, "ESDTNFTTransfer", N, be(1), be(1), B)
	tx("A N#1 5 -> B", A, A, "ESDTNFTTransfer", N, be(1), be(5), B)
	tx("A N#1 1 -> C", A, A, "ESDTNFTTransfer", N, be(1), be(1), C)
	tx("A N#1 5 -> C", A, A, "ESDTNFTTransfer", N, be(1), be(5), C)
	tx("A N#1 0 -> B", A, A, "ESDTNFTTransfer", N, be(1), nil, B)
	tx("B N#1 1 -> A", B, B, "ESDTNFTTransfer", N, be(1), be(1), A)
	tx("C N#1 1 -> A", C, C, "ESDTNFTTransfer", N, be(1), be(1), A)
	tx("C N#1 1 -> B", C, C, "ESDTNFTTransfer", N, be(1), be(1), B)
	tx("A multi F5,N#1x1 -> C", A, A, "MultiESDTNFTTransfer", C, be(2), F, nil, be(5), N, be(1), be(1))
	tx("A multi F10,N#1x5 -> B", A, A, "MultiESDTNFTTransfer", B, be(2), F, nil, be(10), N, be(1), be(5))
	tx("C multi N#1x1 -> A", C, C, "MultiESDTNFTTransfer", A, be(1), N, be(1), be(1))
	sys("freeze F at A", -1, A, "ESDTFreeze", F)
	sys("unfreeze F at A", -1, A, "ESDTUnFreeze", F)
	sys("wipe F at A", -1, A, "ESDTWipe", F)
	sys("freeze F at B", -1, B, "ESDTFreeze", F)
	sys("freeze F at C", -1, C, "ESDTFreeze", F)
	sys("unfreeze F at C", -1, C, "ESDTUnFreeze", F)
	sys("wipe F at C", -1, C, "ESDTWipe", F)
	sys("freeze N#1 at B", -1, B, "ESDTFreeze", N1)
	sys("unfreeze N#1 at B", -1, B, "ESDTUnFreeze", N1)
	sys("wipe N#1 at B", -1, B, "ESDTWipe", N1)
	sys("pause F shard 0", 0, u.SYS, "ESDTPause", F)
	sys("unpause F shard 0", 0, u.SYS, "ESDTUnPause", F)
	sys("pause F shard 1", 1, u.SYS, "ESDTPause", F)
	sys("pause N shard 1", 1, u.SYS, "ESDTPause", N)
	sys("unpause N shard 1", 1, u.SYS, "ESDTUnPause", N)
	tx("A mint F 5", A, A, "ESDTLocalMint", F, be(5))
	tx("A localburn F 5", A, A, "ESDTLocalBurn", F, be(5))
	tx("A localburn F 10", A, A, "ESDTLocalBurn", F, be(10))
	tx("A burn F 5", A, u.SC, "ESDTBurn", F, be(5))
	tx("A addqty N#1 2", A, A, "ESDTNFTAddQuantity", N, be(1), be(2))
	tx("C addqty N#1 1", C, C, "ESDTNFTAddQuantity", N, be(1), be(1))
	tx("A nftburn N#1 1", A, A, "ESDTNFTBurn", N, be(1), be(1))
	tx("A nftburn N#1 5", A, A, "ESDTNFTBurn", N, be(1), be(5))
	tx("C nftburn N#1 1", C, C, "ESDTNFTBurn", N, be(1), be(1))
	tx("A adduri N#1", A, A, "ESDTNFTAddURI", N, be(1), []byte("u2"))
	tx("A updattr N#1", A, A, "ESDTNFTUpdateAttributes", N, be(1), []byte("a2"))
	sys("handover N A->B", -1, A, "ESDTNFTCreateRoleTransfer", N, B)
	sys("handover N A->C", -1, A, "ESDTNFTCreateRoleTransfer", N, C)
	sys("handover N B->A", -1, B, "ESDTNFTCreateRoleTransfer", N, A)
	sys("handover N C->A", -1, C, "ESDTNFTCreateRoleTransfer", N, A)
	tx("A savekv", A, A, "SaveKeyValue", []byte("ELRONDesdt"+string(F)), []byte("x"), []byte("k"), []byte("v"))
	ops = append(ops, c15Op{"deliver oldest", func(w *hWorld) *worldOp {
		for _, m := range w.inflight {
			if !w.failed[m.ID] {
				return &worldOp{Kind: opDeliver, ID: m.ID, Gas: m.GasLimit}
			}
		}
		return nil
	}})
	ops = append(ops, c15Op{"deliver newest", func(w *hWorld) *worldOp {
		for i := len(w.inflight) - 1; i > 0; i-- {
			if m := w.inflight[i]; !w.failed[m.ID] {
				return &worldOp{Kind: opDeliver, ID: m.ID, Gas: m.GasLimit}
			}
		}
		return nil
	}})
	ops = append(ops, c15Op{"refund oldest failed", func(w *hWorld) *worldOp {
		for _, m := range w.inflight {
			if w.failed[m.ID] {
				return &worldOp{Kind: opRefund, ID: m.ID, Gas: m.GasLimit}
			}
		}
		return nil
	}})
	return ops
}

type c15Enum struct {
	c        *ctx
	u        *universe
	w        *hWorld
	ops      []c15Op
	root     string
	rootPre  []map[string]*hAccount
	depth    int
	path     []*worldOp
	hist     []string
	seqs     int // sequences (nodes) explored
	steps    int
	pruned   int
	emitExec int // emit one executed call in emitExec
	emitHist int // emit one leaf history in emitHist
}

// dfs explores every sequence of admitted operations of length <= depth.  An operation that is rejected by the
// built-in function is rolled back completely (world, in-flight set and failed set unchanged), so every sequence
// through it equals a shorter explored sequence: its subtree is not entered.  A failed DELIVERY changes the failed
// set and is explored further.
func (e *c15Enum) dfs(st *c15State, d int) {
	if d == e.depth {
		return
	}
	c, w := e.c, e.w
	saved := c05Save(w)
	for _, o := range e.ops {
		op := o.mk(w)
		if op == nil {
			continue
		}
		if why := st.admit(w, op); why != "" {
			c.count("c15/enum/not-issued/" + why)
			continue
		}
		st2 := st.clone()
		sr := w.step(op)
		if sr.Skipped {
			continue
		}
		e.steps++
		e.path = append(e.path, op)
		e.hist = append(e.hist, op.String())
		c.note(c05Hash(e.root, strings.Join(e.hist, "\n")), true)
		c.count(fmt.Sprintf("call/%s/%s", sr.Call.Fn, statusName(sr.Res.Status)))
		c.count(fmt.Sprintf("family/enum-%s/depth-%d", e.root, d+1))
		st2.after(sr)
		c15Scan(c, w, st2, sr, e.hist)
		if e.emitExec > 0 && c.rng.Intn(e.emitExec) == 0 {
			c.addExecCase(w, sr.Call, sr.Res)
		}
		changed := sr.Res.Status == 0 || op.Kind == opDeliver
		if changed {
			e.seqs++
			if d+1 == e.depth && e.emitHist > 0 && c.rng.Intn(e.emitHist) == 0 {
				h := &histRecorder{ok: true, pre: e.rootPre, ops: append([]*worldOp(nil), e.path...)}
				c.emitHistory(h, w, fmt.Sprintf("C15 enumeration from root %s: %s", e.root, strings.Join(e.hist, " ; ")))
			}
			e.dfs(st2, d+1)
			c05Restore(w, saved)
		} else {
			e.pruned++ // rolled back by the node: nothing to restore
		}
		e.path = e.path[:len(e.path)-1]
		e.hist = e.hist[:len(e.hist)-1]
	}
}

func c15Enumerate(c *ctx, u *universe, depth int, emitExec, emitHist int) {
	c05SetExecStream(c, c05ProjState)
	ops := c15Alphabet(u)
	A, B, C := u.U[0], u.U[1], u.U[2]
	F, N := u.Fung[0], u.NFTs[1]
	meta := [][]byte{[]byte("nm"), be(5), []byte("h"), []byte("at"), []byte("u")}
	roots := []struct {
		name  string
		build func(w *hWorld, st *c15State)
	}{
		{"empty", func(w *hWorld, st *c15State) {}},
		{"holdings", func(w *hWorld, st *c15State) {
			do := func(sr *stepResult) { mustOK(sr, "enum root"); st.after(sr) }
			do(w.sys(u, A, "ESDTTransfer", F, be(10)))
			do(w.sys(u, B, "ESDTTransfer", F, be(5)))
			do(w.sys(u, C, "ESDTTransfer", F, be(10)))
			do(w.sys(u, A, "ESDTSetRole", N, u.AllRoles[2], u.AllRoles[3], u.AllRoles[4], u.AllRoles[5], u.AllRoles[6]))
			do(w.sys(u, A, "ESDTSetRole", F, u.AllRoles[0], u.AllRoles[1]))
			do(w.sys(u, C, "ESDTSetRole", N, u.AllRoles[3], u.AllRoles[4]))
			do(w.tx(A, A, "ESDTNFTCreate", bigGas, append([][]byte{N, be(5)}, meta...)...))
			do(w.tx(A, A, "ESDTNFTTransfer", bigGas, N, be(1), be(1), B))
		}},
		{"in-flight", func(w *hWorld, st *c15State) {
			do := func(sr *stepResult) { mustOK(sr, "enum root"); st.after(sr) }
			do(w.sys(u, A, "ESDTTransfer", F, be(10)))
			do(w.sys(u, C, "ESDTTransfer", F, be(5)))
			do(w.sys(u, A, "ESDTSetRole", N, u.AllRoles[2], u.AllRoles[3], u.AllRoles[4], u.AllRoles[5], u.AllRoles[6]))
			do(w.sys(u, C, "ESDTSetRole", N, u.AllRoles[3], u.AllRoles[4]))
			do(w.tx(A, A, "ESDTNFTCreate", bigGas, append([][]byte{N, be(5)}, meta...)...))
			do(w.sys(u, C, "ESDTFreeze", F))
			do(w.sysOn(u, 1, u.SYS, "ESDTPause", N))
		}},
	}
	for ri, r := range roots {
		w := u.stdWorld(2, 1, distinctGas(11, 2))
		st := c15NewState()
		r.build(w, st)
		if len(w.inflight) != 0 || w.nextID != 0 {
			panic("enumeration root must have no in-flight messages")
		}
		d := depth
		if ri == 2 && depth > 3 {
			d = depth - 1
		}
		c15Scan(c, w, st, nil, nil)
		e := &c15Enum{c: c, u: u, w: w, ops: ops, root: r.name, rootPre: shardMaps(w, true), depth: d, emitExec: emitExec, emitHist: emitHist}
		e.dfs(st, 0)
		c.count(fmt.Sprintf("c15/enum/%s/depth-%d/sequences-%d", r.name, d, e.seqs))
		c.count(fmt.Sprintf("c15/enum/%s/steps-%d/pruned-rejected-%d", r.name, e.steps, e.pruned))
	}
	c.count(fmt.Sprintf("c15/enum/alphabet-%d", len(ops)))
}

func init() {
	runners["C15"] = func(c *ctx) {
		u := newUniverse()
		wide := c.thorough() || c.widen
		// the run is sequential; exec reads runtime.MemStats around every call (stop-the-world), which is 2-3x
		// cheaper with one P
		runtime.GOMAXPROCS(1)
		c.rep.Rule = "After EVERY step of every history every account of every shard is scanned on the real storage: each key with prefix ELROND is in exactly one of the families ELRONDesdt+token(+nonce), ELRONDroleesdt+token, ELRONDnonce+token; every ELRONDesdt entry decodes with the production decoder (Reset+Unmarshal), except the raw 2-byte pause flags 0000/0100 in the system account (fourth entry kind); value present and > 0, or fungible with value 0 and the frozen flag; type 0 iff no metadata; an entry with metadata has nonce > 0 and its key ends with the big-endian bytes of that nonce; properties in {empty, 0000, 0100}; role lists decode, are non-empty and hold no duplicates; counters are canonical big-endian 1..2^64-1; the counter of every holder of the create role is >= every nonce ever returned by ESDTNFTCreate for the token. Histories: (a) random walks of hundreds of admitted operations over 1-3 shard worlds (transfers, supply, system contract, account functions, deliveries / refunds, hostile calls) under the disciplines the property names: no role set twice without unset, one creator per token (create role set once, then only moved by hand-over at its current holder), no forged destination-side NFT / multi / hand-over execution, no re-delivery (F9 -> C07), system-account address not in token traffic (F8 -> C02); (b) one creator issuing 520 (thorough 1030) consecutive ESDTNFTCreate of one token, scan after each, then transfers / multi-transfers / burns / quantity and URI changes of nonces 1, 2, 255, 256, 257, 511, 512, 513 (same and cross shard, delivered) and a check that every issued nonce is still intact under its own key; (c) exhaustive enumeration of ALL sequences up to depth 3 (thorough 4) over an alphabet of ~58 operations in a tiny universe (2 shards, 3 accounts, 2 tokens) from three start states; a rejected call is rolled back entirely, so its subtree equals a shorter explored sequence and is not entered. The scan is self-tested on pause flags and on hand-made ill-formed cells. Executed calls and whole histories are replayed by the Coq model (status + full post-state; final world, in-flight and failed sets). distinct = distinct (world state, operation) / distinct sequence."
		c.rep.Exhaustive = false
		// history files are evaluated in parallel: keep them small
		c.withStream("hist", histHeader, "hcase", "hmismatches cases", 2, func() {})
		c15SelfTest(c, u)
		depth, emitExec, emitHist := 3, 140, 2500
		worlds, ops, prob, max := 6, 300, 2, 800
		if wide {
			depth, emitExec, emitHist = 4, 600, 40000
			worlds, ops, prob, max = 40, 600, 12, 3000
		}
		c15Walk(c, u, worlds, ops, prob, max)
		if wide {
			c15ManyCreates(c, u, 1030)
		} else {
			c15ManyCreates(c, u, 520)
		}
		c15Enumerate(c, u, depth, emitExec, emitHist)
		keys := make([]string, 0)
		for k := range c.rep.Dist {
			if strings.HasPrefix(k, "c15/not-issued/") {
				keys = append(keys, k)
			}
		}
		sort.Strings(keys)
		c.rep.Extra = map[string]interface{}{"disciplines_not_issued": keys}
	}
}
