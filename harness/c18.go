package main

// C18 — activation follows confirmed epochs; registry complete and correctly bound.
// Everything is driven through the REAL factory (NewBuiltInFunctionsFactory + CreateBuiltInFunctionContainer)
// with small collaborators defined here (also used by c19.go): a production-shaped protobuf marshaller,
// a map-backed account, an accounts adapter, a one-shard coordinator and an epoch notifier that only
// records the registered handlers.

import (
	"bytes"
	"errors"
	"fmt"
	"math/big"
	"reflect"
	"sort"
	"strings"
	"sync"

	vmcommon "github.com/ElrondNetwork/elrond-vm-common"
	"github.com/ElrondNetwork/elrond-vm-common/builtInFunctions"
	"github.com/ElrondNetwork/elrond-vm-common/data/esdt"
)

func init() { runners["C18"] = runC18 }

// c18Fail reports a monitor failure once per signature (the report keeps at most 50 failures; a systematic
// violation must not crowd out the others). The number of suppressed repeats goes to the evidence.
var c18FailSeen = map[string]int{}

func c18Fail(c *ctx, kind, sig, what string, replay interface{}) {
	c18FailSeen[sig]++
	if c18FailSeen[sig] == 1 {
		c.fail(kind, sig, what, replay)
	}
}

// ---------------------------------------------------------------- collaborators

// c18Marshalizer is the production-shaped marshaller: Reset + generated Unmarshal / generated Marshal.
type c18Marshalizer struct{}

func (c18Marshalizer) Marshal(obj interface{}) ([]byte, error) {
	m, ok := obj.(interface{ Marshal() ([]byte, error) })
	if !ok {
		return nil, errors.New("c18Marshalizer: not a protobuf object")
	}
	return m.Marshal()
}
func (c18Marshalizer) Unmarshal(obj interface{}, buff []byte) error {
	m, ok := obj.(interface {
		Reset()
		Unmarshal([]byte) error
	})
	if !ok {
		return errors.New("c18Marshalizer: not a protobuf object")
	}
	m.Reset()
	return m.Unmarshal(buff)
}
func (c18Marshalizer) IsInterfaceNil() bool { return false }

// c18Account is a plain map-backed user account (no internal synchronisation on purpose: an account object
// is owned by one execution at a time, as in the node).
type c18Account struct {
	addr     []byte
	nonce    uint64
	balance  *big.Int
	devRew   *big.Int
	owner    []byte
	userName []byte
	codeMeta []byte
	storage  map[string][]byte
}

func c18NewAccount(addr []byte) *c18Account {
	return &c18Account{addr: append([]byte(nil), addr...), balance: big.NewInt(0), devRew: big.NewInt(0), storage: map[string][]byte{}}
}
func (a *c18Account) GetCodeMetadata() []byte                         { return a.codeMeta }
func (a *c18Account) GetCodeHash() []byte                             { return nil }
func (a *c18Account) GetRootHash() []byte                             { return nil }
func (a *c18Account) AccountDataHandler() vmcommon.AccountDataHandler { return a }
func (a *c18Account) AddToBalance(v *big.Int) error {
	n := new(big.Int).Add(a.balance, v)
	if n.Sign() < 0 {
		return errors.New("insufficient funds")
	}
	a.balance = n
	return nil
}
func (a *c18Account) GetBalance() *big.Int { return new(big.Int).Set(a.balance) }
func (a *c18Account) ClaimDeveloperRewards(snd []byte) (*big.Int, error) {
	if !bytes.Equal(snd, a.owner) {
		return nil, errors.New("operation not permitted")
	}
	r := a.devRew
	a.devRew = big.NewInt(0)
	return r, nil
}
func (a *c18Account) GetDeveloperReward() *big.Int { return new(big.Int).Set(a.devRew) }
func (a *c18Account) ChangeOwnerAddress(snd []byte, newOwner []byte) error {
	if !bytes.Equal(snd, a.owner) {
		return errors.New("operation not permitted")
	}
	a.owner = append([]byte(nil), newOwner...)
	return nil
}
func (a *c18Account) SetOwnerAddress(o []byte) { a.owner = append([]byte(nil), o...) }
func (a *c18Account) GetOwnerAddress() []byte  { return a.owner }
func (a *c18Account) SetUserName(u []byte)     { a.userName = append([]byte(nil), u...) }
func (a *c18Account) GetUserName() []byte      { return a.userName }
func (a *c18Account) AddressBytes() []byte     { return a.addr }
func (a *c18Account) IncreaseNonce(n uint64)   { a.nonce += n }
func (a *c18Account) GetNonce() uint64         { return a.nonce }
func (a *c18Account) IsInterfaceNil() bool     { return a == nil }
func (a *c18Account) RetrieveValue(key []byte) ([]byte, error) {
	v, ok := a.storage[string(key)]
	if !ok {
		return nil, nil
	}
	return append([]byte(nil), v...), nil
}
func (a *c18Account) SaveKeyValue(key []byte, value []byte) error {
	if len(value) == 0 {
		delete(a.storage, string(key))
		return nil
	}
	a.storage[string(key)] = append([]byte(nil), value...)
	return nil
}

// c18Accounts: one shared object per address; LoadAccount creates on demand when create is set.
// With create == false the adapter never writes its map, so it may be shared by concurrent readers (C19).
type c18Accounts struct {
	accts  map[string]*c18Account
	create bool
}

func c18NewAccounts() *c18Accounts {
	return &c18Accounts{accts: map[string]*c18Account{}, create: true}
}
func (s *c18Accounts) GetExistingAccount(addr []byte) (vmcommon.AccountHandler, error) {
	a, ok := s.accts[string(addr)]
	if !ok {
		return nil, errors.New("account not found")
	}
	return a, nil
}
func (s *c18Accounts) LoadAccount(addr []byte) (vmcommon.AccountHandler, error) {
	a, ok := s.accts[string(addr)]
	if ok {
		return a, nil
	}
	if !s.create {
		return c18NewAccount(addr), nil
	}
	a = c18NewAccount(addr)
	s.accts[string(addr)] = a
	return a, nil
}
func (s *c18Accounts) SaveAccount(vmcommon.AccountHandler) error { return nil }
func (s *c18Accounts) RemoveAccount([]byte) error                { return nil }
func (s *c18Accounts) Commit() ([]byte, error)                   { return nil, nil }
func (s *c18Accounts) JournalLen() int                           { return 0 }
func (s *c18Accounts) RevertToSnapshot(int) error                { return nil }
func (s *c18Accounts) GetNumCheckpoints() uint32                 { return 0 }
func (s *c18Accounts) GetCode([]byte) []byte                     { return nil }
func (s *c18Accounts) RootHash() ([]byte, error)                 { return nil, nil }
func (s *c18Accounts) RecreateTrie([]byte) error                 { return nil }
func (s *c18Accounts) IsInterfaceNil() bool                      { return s == nil }

type c18Coordinator struct{}

func (c18Coordinator) NumberOfShards() uint32                { return 1 }
func (c18Coordinator) ComputeId([]byte) uint32               { return 0 }
func (c18Coordinator) SelfId() uint32                        { return 0 }
func (c18Coordinator) SameShard(_, _ []byte) bool            { return true }
func (c18Coordinator) CommunicationIdentifier(uint32) string { return "0" }
func (c18Coordinator) IsInterfaceNil() bool                  { return false }

// c18Notifier records the handlers the constructors register; it confirms nothing by itself unless asked
// (the repository's own stub confirms epoch 0 at registration).
type c18Notifier struct {
	handlers          []vmcommon.EpochSubscriberHandler
	confirmOnRegister bool
}

func (n *c18Notifier) RegisterNotifyHandler(h vmcommon.EpochSubscriberHandler) {
	n.handlers = append(n.handlers, h)
	if n.confirmOnRegister {
		h.EpochConfirmed(0, 0)
	}
}
func (n *c18Notifier) IsInterfaceNil() bool { return n == nil }
func (n *c18Notifier) confirm(epoch uint32, ts uint64) {
	for _, h := range n.handlers {
		h.EpochConfirmed(epoch, ts)
	}
}

// c18GasMap builds a schedule in which every field has a distinct non-zero value: base + index (BuiltInCost),
// base + 100 + index (BaseOperationCost). Keys are the struct field names, as mapstructure expects.
func c18GasMap(base uint64) map[string]map[string]uint64 {
	m := map[string]map[string]uint64{vmcommon.BuiltInCostString: {}, vmcommon.BaseOperationCostString: {}}
	t := reflect.TypeOf(vmcommon.BuiltInCost{})
	for i := 0; i < t.NumField(); i++ {
		m[vmcommon.BuiltInCostString][t.Field(i).Name] = base + uint64(i) + 1
	}
	t = reflect.TypeOf(vmcommon.BaseOperationCost{})
	for i := 0; i < t.NumField(); i++ {
		m[vmcommon.BaseOperationCostString][t.Field(i).Name] = base + 100 + uint64(i) + 1
	}
	return m
}

type c18World struct {
	factory interface {
		CreateBuiltInFunctionContainer() (vmcommon.BuiltInFunctionContainer, error)
		GasScheduleChange(map[string]map[string]uint64)
	}
	container vmcommon.BuiltInFunctionContainer
	notifier  *c18Notifier
	accounts  *c18Accounts
}

func c18Build(gas map[string]map[string]uint64, dns map[string]struct{}, enableUserName bool, activation uint32, confirmOnRegister bool) (*c18World, error) {
	w := &c18World{notifier: &c18Notifier{confirmOnRegister: confirmOnRegister}, accounts: c18NewAccounts()}
	f, err := builtInFunctions.NewBuiltInFunctionsFactory(builtInFunctions.ArgsCreateBuiltInFunctionContainer{
		GasMap:                              gas,
		MapDNSAddresses:                     dns,
		EnableUserNameChange:                enableUserName,
		Marshalizer:                         c18Marshalizer{},
		Accounts:                            w.accounts,
		ShardCoordinator:                    c18Coordinator{},
		EpochNotifier:                       w.notifier,
		ESDTNFTImprovementV1ActivationEpoch: activation,
	})
	if err != nil {
		return nil, err
	}
	w.factory = f
	w.container, err = f.CreateBuiltInFunctionContainer()
	if err != nil {
		return nil, err
	}
	return w, nil
}

// ---------------------------------------------------------------- the expectation (monitor side, in Go)

type c18Binding struct {
	typ     string
	flags   string // "freeze=true,wipe=false"
	enabled bool
	gas     string // own BuiltInCost field ("" = unpriced)
	base    bool   // holds a BaseOperationCost copy
}

var c18Expected = map[string]c18Binding{
	"ClaimDeveloperRewards":     {typ: "claimDeveloperRewards", gas: "ClaimDeveloperRewards"},
	"ChangeOwnerAddress":        {typ: "changeOwnerAddress", gas: "ChangeOwnerAddress"},
	"SetUserName":               {typ: "saveUserName", gas: "SaveUserName"},
	"SaveKeyValue":              {typ: "saveKeyValueStorage", gas: "SaveKeyValue", base: true},
	"ESDTTransfer":              {typ: "esdtTransfer", gas: "ESDTTransfer"},
	"ESDTBurn":                  {typ: "esdtBurn", gas: "ESDTBurn"},
	"ESDTFreeze":                {typ: "esdtFreezeWipe", flags: "freeze=true,wipe=false"},
	"ESDTUnFreeze":              {typ: "esdtFreezeWipe", flags: "freeze=false,wipe=false"},
	"ESDTWipe":                  {typ: "esdtFreezeWipe", flags: "freeze=false,wipe=true"},
	"ESDTPause":                 {typ: "esdtPause", flags: "pause=true"},
	"ESDTUnPause":               {typ: "esdtPause", flags: "pause=false"},
	"ESDTSetRole":               {typ: "esdtRoles", flags: "set=true"},
	"ESDTUnSetRole":             {typ: "esdtRoles", flags: "set=false"},
	"ESDTLocalMint":             {typ: "esdtLocalMint", gas: "ESDTLocalMint"},
	"ESDTLocalBurn":             {typ: "esdtLocalBurn", gas: "ESDTLocalBurn"},
	"ESDTNFTTransfer":           {typ: "esdtNFTTransfer", gas: "ESDTNFTTransfer", base: true},
	"ESDTNFTCreate":             {typ: "esdtNFTCreate", gas: "ESDTNFTCreate", base: true},
	"ESDTNFTAddQuantity":        {typ: "esdtNFTAddQuantity", gas: "ESDTNFTAddQuantity"},
	"ESDTNFTCreateRoleTransfer": {typ: "esdtNFTCreateRoleTransfer"},
	"ESDTNFTBurn":               {typ: "esdtNFTBurn", gas: "ESDTNFTBurn"},
	"ESDTNFTAddURI":             {typ: "esdtNFTAddUri", gas: "ESDTNFTAddURI", base: true, enabled: true},
	"ESDTNFTUpdateAttributes":   {typ: "esdtNFTupdate", gas: "ESDTNFTUpdateAttributes", base: true, enabled: true},
	"MultiESDTNFTTransfer":      {typ: "esdtNFTMultiTransfer", gas: "ESDTNFTMultiTransfer", base: true, enabled: true},
}

func c18Names() []string {
	var l []string
	for n := range c18Expected {
		l = append(l, n)
	}
	sort.Strings(l)
	return l
}

type c18Reflected struct {
	typ      string
	flags    [][2]string
	enabled  bool
	function string
	act      uint32
	gas      uint64 // funcGasCost / gasCost
	hasGas   bool
	base     map[string]uint64
	hasBase  bool
	hasMutex bool
}

func (r c18Reflected) flagString() string {
	var s []string
	for _, f := range r.flags {
		s = append(s, f[0]+"="+f[1])
	}
	return strings.Join(s, ",")
}

// c18Reflect reads the registered object by SHAPE, never by the name of an unexported field (a renamed field is not a
// changed binding): the embedded pointer to a struct carrying a string and a uint32 is the epoch base (function name,
// activation epoch); the direct uint64 field is the function's own price; the direct BaseOperationCost value its copy of
// the base costs; the direct sync.RWMutex its execution lock.  The literal flags are NOT read here: c18BehaviourFlags
// decides them by what the object does.
func c18Reflect(fn vmcommon.BuiltinFunction) c18Reflected {
	var r c18Reflected
	v := reflect.ValueOf(fn)
	if v.Kind() != reflect.Ptr || v.IsNil() {
		r.typ = fmt.Sprintf("%T", fn)
		return r
	}
	v = v.Elem()
	r.typ = v.Type().Name()
	if v.Kind() != reflect.Struct {
		return r
	}
	baseT := reflect.TypeOf(vmcommon.BaseOperationCost{})
	mutT := reflect.TypeOf(sync.RWMutex{})
	for i := 0; i < v.NumField(); i++ {
		f, sf := v.Field(i), v.Type().Field(i)
		switch {
		case sf.Anonymous && f.Kind() == reflect.Ptr && !f.IsNil() && f.Elem().Kind() == reflect.Struct:
			e := f.Elem()
			gotS, gotU := false, false
			for j := 0; j < e.NumField(); j++ {
				switch e.Field(j).Kind() {
				case reflect.String:
					if !gotS {
						r.function, gotS = e.Field(j).String(), true
					}
				case reflect.Uint32:
					if !gotU {
						r.act, gotU = uint32(e.Field(j).Uint()), true
					}
				}
			}
			r.enabled = gotS && gotU
		case f.Kind() == reflect.Uint64:
			r.gas, r.hasGas = f.Uint(), true
		case f.Type() == baseT:
			r.hasBase = true
			r.base = map[string]uint64{}
			for j := 0; j < f.NumField(); j++ {
				r.base[f.Type().Field(j).Name] = f.Field(j).Uint()
			}
		case f.Type() == mutT:
			r.hasMutex = true
		}
	}
	return r
}

var c18ProbeSeq int

// c18BehaviourFlags: the literal flags of the seven flag-built names, decided by what the registered object DOES on a
// scratch holding / token / role list (freeze: an unfrozen holding becomes frozen; wipe: a frozen holding disappears;
// un-freeze: a frozen holding stays and is no longer frozen; pause / set likewise).  "?" when the object does none of these.
func c18BehaviourFlags(w *c18World, name string, fn vmcommon.BuiltinFunction) [][2]string {
	c18ProbeSeq++
	tok := []byte(fmt.Sprintf("PRB%d-abcdef", c18ProbeSeq))
	key := append([]byte(vmcommon.ElrondProtectedKeyPrefix+vmcommon.ESDTKeyIdentifier), tok...)
	user := bytes.Repeat([]byte{0x12}, 32)
	call := func(dst vmcommon.UserAccountHandler, rcv []byte, args ...[]byte) (err error) {
		defer func() {
			if p := recover(); p != nil {
				err = fmt.Errorf("panic: %v", p)
			}
		}()
		_, err = fn.ProcessBuiltinFunction(nil, dst, c18Call(vmcommon.ESDTSCAddress, rcv, args...))
		return err
	}
	switch name {
	case "ESDTFreeze", "ESDTUnFreeze", "ESDTWipe":
		holding := func(frozen bool) *c18Account {
			a := c18NewAccount(user)
			b, _ := c18Marshalizer{}.Marshal(&esdt.ESDigitalToken{Value: big.NewInt(10), Properties: (&builtInFunctions.ESDTUserMetadata{Frozen: frozen}).ToBytes()})
			_ = a.SaveKeyValue(key, b)
			return a
		}
		state := func(a *c18Account) (present, frozen bool) {
			v, _ := a.RetrieveValue(key)
			if len(v) == 0 {
				return false, false
			}
			d := &esdt.ESDigitalToken{}
			_ = c18Marshalizer{}.Unmarshal(d, v)
			return true, builtInFunctions.ESDTUserMetadataFromBytes(d.Properties).Frozen
		}
		a := holding(false)
		if err := call(a, user, tok); err == nil {
			if p, f := state(a); p && f {
				return [][2]string{{"freeze", "true"}, {"wipe", "false"}}
			}
		}
		a = holding(true)
		if err := call(a, user, tok); err == nil {
			p, f := state(a)
			if !p {
				return [][2]string{{"freeze", "false"}, {"wipe", "true"}}
			}
			if !f {
				return [][2]string{{"freeze", "false"}, {"wipe", "false"}}
			}
		}
		return [][2]string{{"freeze", "?"}, {"wipe", "?"}}
	case "ESDTPause", "ESDTUnPause":
		sysH, err := w.accounts.LoadAccount(vmcommon.SystemAccountAddress)
		sys, _ := sysH.(vmcommon.UserAccountHandler)
		if err != nil || sys == nil {
			return [][2]string{{"pause", "?"}}
		}
		paused := func() bool {
			v, _ := sys.AccountDataHandler().RetrieveValue(key)
			return builtInFunctions.ESDTGlobalMetadataFromBytes(v).Paused
		}
		if err := call(nil, vmcommon.SystemAccountAddress, tok); err == nil && paused() {
			return [][2]string{{"pause", "true"}}
		}
		_ = sys.AccountDataHandler().SaveKeyValue(key, (&builtInFunctions.ESDTGlobalMetadata{Paused: true}).ToBytes())
		if err := call(nil, vmcommon.SystemAccountAddress, tok); err == nil && !paused() {
			return [][2]string{{"pause", "false"}}
		}
		return [][2]string{{"pause", "?"}}
	case "ESDTSetRole", "ESDTUnSetRole":
		role := []byte(vmcommon.ESDTRoleNFTBurn)
		rkey := append([]byte(vmcommon.ElrondProtectedKeyPrefix+vmcommon.ESDTRoleIdentifier+vmcommon.ESDTKeyIdentifier), tok...)
		has := func(a *c18Account) bool {
			v, _ := a.RetrieveValue(rkey)
			rs := &esdt.ESDTRoles{}
			if len(v) > 0 {
				_ = c18Marshalizer{}.Unmarshal(rs, v)
			}
			for _, x := range rs.Roles {
				if bytes.Equal(x, role) {
					return true
				}
			}
			return false
		}
		a := c18NewAccount(user)
		if err := call(a, user, tok, role); err == nil && has(a) {
			return [][2]string{{"set", "true"}}
		}
		a = c18NewAccount(user)
		b, _ := c18Marshalizer{}.Marshal(&esdt.ESDTRoles{Roles: [][]byte{role}})
		_ = a.SaveKeyValue(rkey, b)
		if err := call(a, user, tok, role); err == nil && !has(a) {
			return [][2]string{{"set", "false"}}
		}
		return [][2]string{{"set", "?"}}
	}
	return nil
}

func c18CoqString(s string) string { return "\"" + strings.ReplaceAll(s, "\"", "\"\"") + "\"" }

// ---------------------------------------------------------------- registry checks

func c18CheckRegistry(c *ctx, cfgName string, gas map[string]map[string]uint64, dns map[string]struct{}, enable bool, act uint32) {
	w, err := c18Build(gas, dns, enable, act, false)
	if err != nil {
		c18Fail(c, "monitor", "factory-error", "factory failed for configuration "+cfgName+": "+err.Error(), map[string]string{"config": cfgName})
		return
	}
	keys := w.container.Keys()
	var ks []string
	for k := range keys {
		ks = append(ks, k)
	}
	sort.Strings(ks)
	c.note("registry/"+cfgName, true)
	c.count("registry-config")
	want := c18Names()
	if strings.Join(ks, ",") != strings.Join(want, ",") || w.container.Len() != 23 || len(want) != 23 {
		c18Fail(c, "monitor", "registry-names", fmt.Sprintf("container.Keys() = %v (Len %d), expected exactly the 23 protocol names", ks, w.container.Len()), map[string]interface{}{"config": cfgName, "keys": ks})
	}
	var kb [][]byte
	for _, k := range ks {
		kb = append(kb, []byte(k))
	}
	c.addCase(fmt.Sprintf("KKeys %s %s", cBytesList(kb), cN(uint64(w.container.Len()))), "Keys()/Len() for configuration "+cfgName)
	if len(w.notifier.handlers) != 3 {
		c18Fail(c, "monitor", "registry-handlers", fmt.Sprintf("%d epoch handlers registered, expected 3", len(w.notifier.handlers)), map[string]string{"config": cfgName})
	}
	check := func(phase string, g map[string]map[string]uint64) {
		for _, name := range ks {
			fn, err := w.container.Get(name)
			if err != nil {
				c18Fail(c, "monitor", "registry-get", "Get("+name+") failed: "+err.Error(), map[string]string{"config": cfgName, "name": name})
				continue
			}
			r := c18Reflect(fn)
			r.flags = c18BehaviourFlags(w, name, fn)
			exp, known := c18Expected[name]
			ok := known && r.typ == exp.typ && r.flagString() == exp.flags && r.enabled == exp.enabled &&
				(!r.enabled || (r.function == name && r.act == act)) &&
				r.hasGas == (exp.gas != "") && r.hasBase == exp.base && r.hasMutex == (exp.gas != "")
			if ok && exp.gas != "" && r.gas != g[vmcommon.BuiltInCostString][exp.gas] {
				ok = false
			}
			if ok && exp.base {
				for k, v := range g[vmcommon.BaseOperationCostString] {
					if r.base[k] != v {
						ok = false
					}
				}
			}
			if !ok {
				c18Fail(c, "monitor", "registry-binding-"+name, fmt.Sprintf("%s (%s) is bound to %+v, expected %+v with its own gas field", name, phase, r, exp),
					map[string]string{"config": cfgName, "name": name, "phase": phase})
			}
			if phase == "created" {
				var fl []string
				for _, f := range r.flags {
					if f[1] == "?" {
						continue
					}
					fl = append(fl, fmt.Sprintf("(%s, %s)", c18CoqString(f[0]), f[1]))
				}
				c.addCase(fmt.Sprintf("KBound %s %s %s %s %s %s %s", cBytes([]byte(name)), c18CoqString(r.typ), cList(fl), cBool(r.enabled),
					cBytes([]byte(r.function)), cN(uint64(r.act)), cN(uint64(act))), "binding of "+name+" for configuration "+cfgName)
				c.count("binding")
			}
		}
	}
	check("created", gas)
	// the same objects after a schedule change through the factory: every function re-reads its OWN field
	g2 := c18GasMap(gas[vmcommon.BuiltInCostString]["ESDTBurn"] + 5000)
	w.factory.GasScheduleChange(g2)
	check("after GasScheduleChange", g2)
}

// ---------------------------------------------------------------- behaviour probes (flags act as named)

func c18Call(caller, rcv []byte, args ...[]byte) *vmcommon.ContractCallInput {
	return &vmcommon.ContractCallInput{
		VMInput:       vmcommon.VMInput{CallerAddr: caller, Arguments: args, CallValue: big.NewInt(0), GasProvided: 1 << 40},
		RecipientAddr: rcv,
	}
}

// c18TwoShards: a coordinator with two shards (the last byte of an address decides), executing shard 0
type c18TwoShards struct{}

func (c18TwoShards) NumberOfShards() uint32 { return 2 }
func (c18TwoShards) ComputeId(a []byte) uint32 {
	if len(a) == 0 {
		return 0
	}
	return uint32(a[len(a)-1] % 2)
}
func (c18TwoShards) SelfId() uint32                        { return 0 }
func (c18TwoShards) SameShard(a, b []byte) bool            { return c18TwoShards{}.ComputeId(a) == c18TwoShards{}.ComputeId(b) }
func (c18TwoShards) CommunicationIdentifier(uint32) string { return "0_1" }
func (c18TwoShards) IsInterfaceNil() bool                  { return false }

// c18ProbeDNS: "each name bound to the behaviour of that name" for SetUserName in a sharded configuration: every CONFIGURED DNS address is
// accepted as caller on the shard of the destination account, wherever the DNS contract itself lives; any other caller is refused
func c18ProbeDNS(c *ctx) {
	dnsHere := append(bytes.Repeat([]byte{0xd1}, 31), 2)  // lives on shard 0 (the executing shard)
	dnsThere := append(bytes.Repeat([]byte{0xd2}, 31), 3) // lives on shard 1
	stranger := append(bytes.Repeat([]byte{0xd3}, 31), 3)
	w := &c18World{notifier: &c18Notifier{}, accounts: c18NewAccounts()}
	f, err := builtInFunctions.NewBuiltInFunctionsFactory(builtInFunctions.ArgsCreateBuiltInFunctionContainer{
		GasMap: c18GasMap(10), MapDNSAddresses: map[string]struct{}{string(dnsHere): {}, string(dnsThere): {}}, EnableUserNameChange: true,
		Marshalizer: c18Marshalizer{}, Accounts: w.accounts, ShardCoordinator: c18TwoShards{}, EpochNotifier: w.notifier,
	})
	if err != nil {
		c18Fail(c, "monitor", "factory-error", err.Error(), nil)
		return
	}
	cont, err := f.CreateBuiltInFunctionContainer()
	if err != nil {
		c18Fail(c, "monitor", "factory-error", err.Error(), nil)
		return
	}
	fn, err := cont.Get("SetUserName")
	if err != nil {
		c18Fail(c, "monitor", "registry-behaviour", "Get(SetUserName): "+err.Error(), nil)
		return
	}
	for i, p := range []struct {
		who    string
		caller []byte
		ok     bool
	}{{"DNS address of the executing shard", dnsHere, true}, {"DNS address living on another shard", dnsThere, true}, {"an address that is not a DNS address", stranger, false}} {
		user := append(bytes.Repeat([]byte{0x21 + byte(i)}, 31), 4) // shard 0
		dst := c18NewAccount(user)
		in := c18Call(p.caller, user, []byte("name.elrond"))
		in.GasProvided = 1 << 30
		var callErr error
		func() {
			defer func() {
				if r := recover(); r != nil {
					callErr = fmt.Errorf("panic: %v", r)
				}
			}()
			_, callErr = fn.ProcessBuiltinFunction(nil, dst, in)
		}()
		c.note("dns-probe/"+p.who, true)
		c.count("registry/dns-probe")
		got := callErr == nil
		if got != p.ok {
			c18Fail(c, "monitor", "registry-behaviour-SetUserName", fmt.Sprintf("SetUserName in a 2-shard configuration, caller = %s: accepted = %v (error %v), expected %v", p.who, got, callErr, p.ok),
				map[string]string{"probe": "SetUserName/" + p.who})
		}
	}
}

// c18ProbeUserNameChange: the factory's configuration reaches the object registered as SetUserName - with EnableUserNameChange a DNS
// address replaces an existing name, without it the replacement is refused and a first name is still accepted (both configurations,
// empty and non-empty DNS maps: the function has no activation epoch and is active in every one of them)
func c18ProbeUserNameChange(c *ctx) {
	dnsAddr := bytes.Repeat([]byte{0xD1}, 32)
	for _, enable := range []bool{false, true} {
		for _, withDNS := range []bool{true, false} {
			dns := map[string]struct{}{}
			if withDNS {
				dns[string(dnsAddr)] = struct{}{}
			}
			cfg := fmt.Sprintf("userNameChange=%v/dns=%d", enable, len(dns))
			bad := func(what string) {
				c18Fail(c, "monitor", "registry-behaviour/SetUserName", cfg+": "+what, map[string]string{"config": cfg, "probe": what})
			}
			w, err := c18Build(c18GasMap(10), dns, enable, 0, false)
			if err != nil {
				c18Fail(c, "monitor", "factory-error", err.Error(), nil)
				continue
			}
			c.note("probe/username/"+cfg, true)
			f, err := w.container.Get("SetUserName")
			if err != nil {
				bad("Get(SetUserName): " + err.Error())
				continue
			}
			if !f.IsActive() {
				bad("SetUserName is not active (it has no activation epoch)")
			}
			if !withDNS {
				continue
			}
			acc := c18NewAccount(bytes.Repeat([]byte{0x13}, 32))
			if _, err := f.ProcessBuiltinFunction(nil, acc, c18Call(dnsAddr, acc.addr, []byte("first.elrond"))); err != nil || string(acc.GetUserName()) != "first.elrond" {
				bad(fmt.Sprintf("a first user name set by the DNS address must be accepted (err %v, name %q)", err, acc.GetUserName()))
			}
			_, err = f.ProcessBuiltinFunction(nil, acc, c18Call(dnsAddr, acc.addr, []byte("second.elrond")))
			switch {
			case enable && (err != nil || string(acc.GetUserName()) != "second.elrond"):
				bad(fmt.Sprintf("with user-name change enabled the DNS address must be able to replace the name (err %v, name %q)", err, acc.GetUserName()))
			case !enable && (err == nil || string(acc.GetUserName()) != "first.elrond"):
				bad(fmt.Sprintf("with user-name change disabled a second name must be refused (err %v, name %q)", err, acc.GetUserName()))
			}
		}
	}
}

// c18ProbeSecondContainer: every container the factory creates is complete and correctly bound by itself - also after an earlier one
// was edited by its owner (an entry removed, another replaced)
func c18ProbeSecondContainer(c *ctx) {
	w, err := c18Build(c18GasMap(10), map[string]struct{}{}, false, 0, false)
	if err != nil {
		c18Fail(c, "monitor", "factory-error", err.Error(), nil)
		return
	}
	c.note("probe/second-container", true)
	stub, _ := w.container.Get("ESDTBurn")
	w.container.Remove("ESDTWipe")
	_ = w.container.Replace("ESDTTransfer", stub)
	_ = w.container.Add("NotAProtocolFunction", stub)
	c2, err := w.factory.CreateBuiltInFunctionContainer()
	if err != nil {
		c18Fail(c, "monitor", "registry-behaviour/second-container", "a second CreateBuiltInFunctionContainer failed: "+err.Error(), nil)
		return
	}
	var ks []string
	for k := range c2.Keys() {
		ks = append(ks, k)
	}
	sort.Strings(ks)
	if strings.Join(ks, ",") != strings.Join(c18Names(), ",") {
		c18Fail(c, "monitor", "registry-behaviour/second-container", fmt.Sprintf("the second container of one factory holds %v, expected exactly the 23 protocol names (the first one was edited by its owner)", ks), map[string]interface{}{"keys": ks})
		return
	}
	for _, n := range ks {
		f, err := c2.Get(n)
		if err != nil {
			continue
		}
		if r := c18Reflect(f); r.typ != c18Expected[n].typ {
			c18Fail(c, "monitor", "registry-behaviour/second-container", fmt.Sprintf("in the second container %s is bound to a %s, expected a %s", n, r.typ, c18Expected[n].typ), map[string]string{"name": n})
		}
	}
}

func c18Probes(c *ctx) {
	c18ProbeDNS(c)
	c18ProbeSecondContainer(c)
	c18ProbeUserNameChange(c)
	w, err := c18Build(c18GasMap(10), map[string]struct{}{}, false, 0, false)
	if err != nil {
		c18Fail(c, "monitor", "factory-error", err.Error(), nil)
		return
	}
	bad := func(what string) {
		c18Fail(c, "monitor", "registry-behaviour", what, map[string]string{"probe": what})
	}
	get := func(n string) vmcommon.BuiltinFunction {
		f, err := w.container.Get(n)
		if err != nil {
			bad("Get(" + n + "): " + err.Error())
			return nil
		}
		return f
	}
	user := bytes.Repeat([]byte{0x11}, 32)
	tok := []byte("TKN-abcdef")
	key := append([]byte(vmcommon.ElrondProtectedKeyPrefix+vmcommon.ESDTKeyIdentifier), tok...)
	acc := c18NewAccount(user)
	tokBytes, _ := c18Marshalizer{}.Marshal(&esdt.ESDigitalToken{Value: big.NewInt(10)})
	_ = acc.SaveKeyValue(key, tokBytes)
	frozen := func() bool {
		d := &esdt.ESDigitalToken{}
		v, _ := acc.RetrieveValue(key)
		if len(v) == 0 {
			return false
		}
		_ = c18Marshalizer{}.Unmarshal(d, v)
		return builtInFunctions.ESDTUserMetadataFromBytes(d.Properties).Frozen
	}
	present := func() bool { v, _ := acc.RetrieveValue(key); return len(v) > 0 }
	run := func(name string, in *vmcommon.ContractCallInput, dst vmcommon.UserAccountHandler) error {
		f := get(name)
		if f == nil {
			return errors.New("missing")
		}
		_, err := f.ProcessBuiltinFunction(nil, dst, in)
		return err
	}
	c.note("probe/freeze-wipe", true)
	if err := run("ESDTWipe", c18Call(vmcommon.ESDTSCAddress, user, tok), acc); err == nil || !present() {
		bad("ESDTWipe on an unfrozen holding must fail and keep the holding")
	}
	if err := run("ESDTFreeze", c18Call(vmcommon.ESDTSCAddress, user, tok), acc); err != nil || !frozen() {
		bad("ESDTFreeze must freeze the holding")
	}
	if err := run("ESDTUnFreeze", c18Call(vmcommon.ESDTSCAddress, user, tok), acc); err != nil || frozen() || !present() {
		bad("ESDTUnFreeze must unfreeze the holding")
	}
	_ = run("ESDTFreeze", c18Call(vmcommon.ESDTSCAddress, user, tok), acc)
	if err := run("ESDTWipe", c18Call(vmcommon.ESDTSCAddress, user, tok), acc); err != nil || present() {
		bad("ESDTWipe on a frozen holding must remove it")
	}
	c.note("probe/pause", true)
	pf := get("ESDTPause")
	ph, _ := pf.(vmcommon.ESDTPauseHandler)
	if ph == nil {
		bad("ESDTPause object is not a pause handler")
	} else {
		if ph.IsPaused(key) {
			bad("token paused before ESDTPause")
		}
		if err := run("ESDTPause", c18Call(vmcommon.ESDTSCAddress, vmcommon.SystemAccountAddress, tok), nil); err != nil || !ph.IsPaused(key) {
			bad("ESDTPause must pause the token")
		}
		if err := run("ESDTUnPause", c18Call(vmcommon.ESDTSCAddress, vmcommon.SystemAccountAddress, tok), nil); err != nil || ph.IsPaused(key) {
			bad("ESDTUnPause must unpause the token")
		}
	}
	c.note("probe/roles", true)
	rf := get("ESDTSetRole")
	rh, _ := rf.(vmcommon.ESDTRoleHandler)
	role := []byte(vmcommon.ESDTRoleNFTCreate)
	if rh == nil {
		bad("ESDTSetRole object is not a role handler")
	} else {
		if rh.CheckAllowedToExecute(acc, tok, role) == nil {
			bad("role present before ESDTSetRole")
		}
		if err := run("ESDTSetRole", c18Call(vmcommon.ESDTSCAddress, user, tok, role), acc); err != nil || rh.CheckAllowedToExecute(acc, tok, role) != nil {
			bad("ESDTSetRole must grant the role")
		}
		if err := run("ESDTUnSetRole", c18Call(vmcommon.ESDTSCAddress, user, tok, role), acc); err != nil || rh.CheckAllowedToExecute(acc, tok, role) == nil {
			bad("ESDTUnSetRole must remove the role")
		}
	}
}

// ---------------------------------------------------------------- epoch sequences

var c18AlwaysNames []string
var c18EnabledNames []string

func c18RunSequence(c *ctx, act uint32, seq []uint32, class string, rot int) {
	w, err := c18Build(c18GasMap(10), map[string]struct{}{}, false, act, false)
	if err != nil {
		c18Fail(c, "monitor", "factory-error", err.Error(), nil)
		return
	}
	names := c18Names()
	fns := map[string]vmcommon.BuiltinFunction{}
	for _, n := range names {
		f, err := w.container.Get(n)
		if err != nil {
			c18Fail(c, "monitor", "registry-get", "Get("+n+") failed: "+err.Error(), map[string]string{"name": n})
			return
		}
		fns[n] = f
	}
	replay := map[string]interface{}{"activation": act, "epochs": seq}
	before := map[string]bool{}
	after := map[string][]bool{}
	observe := func(step int, last uint32) {
		for _, n := range names {
			got := fns[n].IsActive()
			want := true
			if c18Expected[n].enabled {
				want = step >= 0 && last >= act
			}
			if step < 0 {
				before[n] = got
			} else {
				after[n] = append(after[n], got)
			}
			if got != want {
				sig := "activation-" + n
				c18Fail(c, "monitor", sig, fmt.Sprintf("%s.IsActive() = %v after %d notification(s) of %v with activation epoch %d, expected %v", n, got, step+1, seq, act, want), replay)
			}
		}
	}
	// a gas schedule change between two notifications must not change what is active: the object registered under the name is asked
	// again (it may be the same object with new prices, or - if the factory rebuilt it - a new one, which must know the confirmed epoch)
	reschedule := func(step int, last uint32) {
		if rot%2 == 0 {
			return
		}
		w.factory.GasScheduleChange(c18GasMap(uint64(20 + 3*step)))
		for _, n := range names {
			f, err := w.container.Get(n)
			if err != nil {
				c18Fail(c, "monitor", "registry-get", "Get("+n+") failed after a gas schedule change: "+err.Error(), map[string]string{"name": n})
				continue
			}
			want := true
			if c18Expected[n].enabled {
				want = step >= 0 && last >= act
			}
			if got := f.IsActive(); got != want {
				c18Fail(c, "monitor", "activation-after-gas-schedule-change-"+n, fmt.Sprintf("%s.IsActive() = %v after %d notification(s) of %v with activation epoch %d AND a gas schedule change, expected %v (unchanged)", n, got, step+1, seq, act, want), replay)
			}
			fns[n] = f
		}
		c.count("epochs/with-gas-schedule-change")
	}
	observe(-1, 0)
	reschedule(-1, 0)
	for i, e := range seq {
		w.notifier.confirm(e, c.rng.Uint64())
		observe(i, e)
		reschedule(i, e)
	}
	c.note(fmt.Sprintf("epochs/%d/%v", act, seq), true)
	c.count(class)
	var es []string
	for _, e := range seq {
		es = append(es, cN(uint64(e)))
	}
	emit := func(n string) {
		var obs []string
		for _, b := range after[n] {
			obs = append(obs, cBool(b))
		}
		c.addCase(fmt.Sprintf("KEpochs %s %s %s %s %s", cBytes([]byte(n)), cN(uint64(act)), cList(es), cBool(before[n]), cList(obs)),
			fmt.Sprintf("IsActive of %s, activation %d, epochs %v", n, act, seq))
	}
	for _, n := range c18EnabledNames {
		emit(n)
	}
	emit(c18AlwaysNames[rot%len(c18AlwaysNames)])
	if obs := fmt.Sprint(after["ESDTNFTAddURI"]); len(seq) >= 3 && strings.Contains(obs, "true") && strings.Contains(obs, "false") {
		c.sample(map[string]interface{}{"activation": act, "epochs": seq, "ESDTNFTAddURI.IsActive": after["ESDTNFTAddURI"], "ESDTTransfer.IsActive": after["ESDTTransfer"]})
	}
}

func runC18(c *ctx) {
	c.header = "From Coq.Strings Require Import String.\nFrom EV Require Import Base.Bytes Corr.C18.\nLocal Open Scope string_scope.\n"
	c.perFile = 1500
	c.rep.Rule = "exhaustive: every sequence of at most 4 confirmed epochs over {0..3} for every activation epoch in {0..3} (1364 histories), plus 32-bit boundary histories (activation and epochs from {0,1,a-1,a,a+1,2^31-1,2^31,2^32-2,2^32-1}), each on fresh objects built by the real factory; IsActive of all 23 functions observed before the first and after every notification. Registry: Keys()/Len() and the reflected concrete type, literal flags, embedded activation base and own gas fields of every registered object, for a grid of factory configurations, before and after GasScheduleChange; behaviour probes for freeze/unfreeze/wipe, pause/unpause, set/unset role. A case is non-trivial when its (activation, history) or configuration is distinct."
	c.rep.Exhaustive = true
	for _, n := range c18Names() {
		if c18Expected[n].enabled {
			c18EnabledNames = append(c18EnabledNames, n)
		} else {
			c18AlwaysNames = append(c18AlwaysNames, n)
		}
	}
	// ---- registry over a grid of factory configurations ----
	acts := []uint32{0, 5, 1<<32 - 1}
	dnsSets := []map[string]struct{}{{}, {string(bytes.Repeat([]byte{1}, 32)): {}, string(bytes.Repeat([]byte{2}, 32)): {}}}
	for gi, gbase := range []uint64{10, 1 << 40} {
		for di, dns := range dnsSets {
			for _, en := range []bool{false, true} {
				for _, a := range acts {
					c18CheckRegistry(c, fmt.Sprintf("gas%d/dns%d/userNameChange=%v/activation=%d", gi, di, en, a), c18GasMap(gbase), dns, en, a)
				}
			}
		}
	}
	c18Probes(c)
	// the repository's stub notifier confirms epoch 0 at registration: then active iff activation == 0
	for _, a := range []uint32{0, 1, 1<<32 - 1} {
		w, err := c18Build(c18GasMap(10), map[string]struct{}{}, false, a, true)
		if err != nil {
			c18Fail(c, "monitor", "factory-error", err.Error(), nil)
			continue
		}
		c.note(fmt.Sprintf("confirm-on-register/%d", a), true)
		for _, n := range c18EnabledNames {
			f, _ := w.container.Get(n)
			if f == nil || f.IsActive() != (a == 0) {
				c18Fail(c, "monitor", "activation-"+n, fmt.Sprintf("%s with activation %d after registration-time EpochConfirmed(0): IsActive wrong", n, a), map[string]interface{}{"activation": a, "epochs": []uint32{0}})
			}
		}
	}
	// ---- exhaustive small domain ----
	rot := 0
	var rec func(act uint32, seq []uint32, depth int)
	rec = func(act uint32, seq []uint32, depth int) {
		c18RunSequence(c, act, seq, fmt.Sprintf("small-len%d", len(seq)), rot)
		rot++
		if depth == 0 {
			return
		}
		for e := uint32(0); e < 4; e++ {
			rec(act, append(append([]uint32(nil), seq...), e), depth-1)
		}
	}
	for act := uint32(0); act < 4; act++ {
		rec(act, nil, 4)
	}
	// ---- 32-bit boundaries ----
	bacts := []uint32{0, 1, 1<<31 - 1, 1 << 31, 1<<32 - 2, 1<<32 - 1}
	for _, a := range bacts {
		alpha := []uint32{0, 1, a - 1, a, a + 1, 1<<31 - 1, 1 << 31, 1<<32 - 2, 1<<32 - 1}
		// dedupe (a-1 / a+1 wrap around on purpose: uint32 arithmetic)
		seen := map[uint32]bool{}
		var al []uint32
		for _, e := range alpha {
			if !seen[e] {
				seen[e] = true
				al = append(al, e)
			}
		}
		maxLen := 2
		if c.thorough() || c.widen {
			maxLen = 3
		}
		var brec func(seq []uint32)
		brec = func(seq []uint32) {
			if len(seq) > 0 {
				c18RunSequence(c, a, seq, fmt.Sprintf("boundary-len%d", len(seq)), rot)
				rot++
			}
			if len(seq) == maxLen {
				return
			}
			for _, e := range al {
				brec(append(append([]uint32(nil), seq...), e))
			}
		}
		brec(nil)
		// longer random histories over the boundary alphabet
		n := 40
		if c.thorough() || c.widen {
			n = 400
		}
		for i := 0; i < n; i++ {
			l := 3 + c.rng.Intn(6)
			var seq []uint32
			for j := 0; j < l; j++ {
				if c.rng.Intn(4) == 0 {
					seq = append(seq, c.rng.Uint32())
				} else {
					seq = append(seq, al[c.rng.Intn(len(al))])
				}
			}
			c18RunSequence(c, a, seq, "boundary-random", rot)
			rot++
		}
	}
}
