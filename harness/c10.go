package main

// C10: emitted data strings parse back to what was encoded, continuations are accepted on the other
// shard, and the ESDT-transfer parser's report equals what the ledger debits and credits.

import (
	"bytes"
	"errors"
	"fmt"
	"math/big"
	"sort"
	"strings"

	vmcommon "github.com/ElrondNetwork/elrond-vm-common"
	"github.com/ElrondNetwork/elrond-vm-common/builtInFunctions"
	"github.com/ElrondNetwork/elrond-vm-common/data/esdt"
	"github.com/ElrondNetwork/elrond-vm-common/parsers"
)

const sigF10 = "F10-attached-function-name"

var c10Parser, _ = parsers.NewESDTTransferParser(&hMarshalizer{})

type c10Msg struct {
	fn   string
	cont bool // continuation of a built-in operation (from an output transfer, or a travelling ESDTTransfer)
	// the call type of the origin-side execution that emitted the message, when it is one that lifts the payability check
	// (callback, transfer-and-execute): the continuation must not be refused for payability then
	exempt bool
}
type c10World struct{ msgs map[int]*c10Msg }
type c10Mon struct {
	worlds map[*hWorld]*c10World
	f10    int
	cnt64  int
}

func newC10Mon() *c10Mon { return &c10Mon{worlds: map[*hWorld]*c10World{}} }

func c10AllowedReject(err error) string {
	for _, e := range []error{builtInFunctions.ErrESDTIsFrozenForAccount, builtInFunctions.ErrESDTTokenIsPaused, builtInFunctions.ErrAccountNotPayable,
		builtInFunctions.ErrWrongNFTOnDestination, builtInFunctions.ErrUserNameChangeIsDisabled, builtInFunctions.ErrOnlyFungibleTokensHaveBalanceTransfer, errOracle} {
		if errors.Is(err, e) {
			return e.Error()
		}
	}
	return ""
}

func badFname(f string) bool { return f == "" || strings.Contains(f, "@") }

func argsEq(a, b [][]byte) bool {
	if len(a) != len(b) {
		return false
	}
	for i := range a {
		if !bytes.Equal(a[i], b[i]) {
			return false
		}
	}
	return true
}
func argsStr(a [][]byte) string {
	var l []string
	for _, x := range a {
		if len(x) > 24 {
			l = append(l, fmt.Sprintf("%x..(%d)", x[:24], len(x)))
		} else {
			l = append(l, fmt.Sprintf("%x", x))
		}
	}
	return "[" + strings.Join(l, ",") + "]"
}

// c10Expect: what the data string of an output transfer of this successful call encodes.
// payload[i] = true: argument i is a marshalled entry (compared decoded: value and metadata), not byte-wise
type c10Exp struct {
	kind    string // attached | continuation
	fname   string
	args    [][]byte
	rcv     []byte
	payload map[int]*xferItem
}

func c10Expect(w *hWorld, cs *callSpec, res *callResult) *c10Exp {
	a := cs.Args
	attached := func(idx int, rcv []byte) *c10Exp {
		e := &c10Exp{kind: "attached", rcv: rcv}
		if idx < len(a) {
			e.fname = string(a[idx])
			e.args = a[idx+1:]
		}
		return e
	}
	switch cs.Fn {
	case "ESDTTransfer":
		if cs.Dst {
			return attached(2, cs.Rcpt)
		}
		return &c10Exp{kind: "continuation", fname: cs.Fn, args: a, rcv: cs.Rcpt}
	case "ESDTBurn":
		return &c10Exp{kind: "continuation", fname: cs.Fn, args: a, rcv: cs.Rcpt}
	case "SetUserName":
		return &c10Exp{kind: "continuation", fname: cs.Fn, args: a, rcv: cs.Rcpt}
	case fnHandover:
		if len(a) != 2 {
			return nil
		}
		return &c10Exp{kind: "continuation", fname: cs.Fn, args: [][]byte{a[0], be(counterOf(acctOf(res.Pre, cs.Rcpt), a[0]))}, rcv: a[1]}
	case "ESDTNFTTransfer", "MultiESDTNFTTransfer":
		x := parseTransferCall(cs)
		if x == nil {
			return nil
		}
		if !x.origin || w.shardOf(x.dest) == cs.Shard {
			return attached(x.callIdx, x.dest)
		}
		e := &c10Exp{kind: "continuation", fname: cs.Fn, rcv: x.dest, payload: map[int]*xferItem{}}
		if cs.Fn == "ESDTNFTTransfer" {
			e.args = append(append([][]byte{}, a[:3]...), nil)
			e.args = append(e.args, a[4:]...)
			e.payload[3] = &x.items[0]
			return e
		}
		e.args = [][]byte{big.NewInt(int64(len(x.items))).Bytes()}
		for i := range x.items {
			it := &x.items[i]
			if it.nonce == 0 {
				e.args = append(e.args, it.tok, []byte{0}, new(big.Int).SetBytes(it.qtyArg).Bytes())
				continue
			}
			mn := it.nonce
			if pa := acctOf(res.Pre, cs.Caller); pa != nil {
				if t, err := decodeToken(pa.storage[nftKey(it.tok, it.nonce)]); err == nil && t.TokenMetaData != nil {
					mn = t.TokenMetaData.Nonce
				}
			}
			e.args = append(e.args, it.tok, be(mn), nil)
			e.payload[len(e.args)-1] = it
		}
		if x.callIdx < len(a) {
			e.args = append(e.args, a[x.callIdx:]...)
		}
		return e
	}
	return nil
}

func (m *c10Mon) mon(c *ctx, w *hWorld, _ *worldSnap, sr *stepResult, hist []string) {
	cs, res := sr.Call, sr.Res
	st, ok := m.worlds[w]
	if !ok {
		st = &c10World{msgs: map[int]*c10Msg{}}
		m.worlds[w] = st
		for _, mm := range w.inflight {
			st.msgs[mm.ID] = &c10Msg{fn: mm.Fn, cont: mm.Fn != "ChangeOwnerAddress" && mm.Fn != "ClaimDeveloperRewards"}
		}
	}
	fail := func(class, what string) {
		c.fail("monitor", class+"/"+cs.Fn, what, stdReplay(sr, hist))
	}
	f10 := func(what string) {
		m.f10++
		c.count("known/" + sigF10 + "/" + cs.Fn)
		if m.f10 <= 4 {
			c.fail("monitor", sigF10, what, stdReplay(sr, hist))
		}
	}
	if res.Status == 2 {
		if txReachable(w, sr) {
			c.fail("panic", "panic/"+cs.Fn, cs.Fn+" panics: "+res.PanicMsg, stdReplay(sr, hist))
		} else {
			c.count("skipped/not-transaction-reachable/panic")
		}
		return
	}
	// ---- a continuation is accepted by the same-named function on the other shard ----
	if sr.Op.Kind == opDeliver || sr.Op.Kind == opRedeliver {
		if rec := st.msgs[sr.Op.ID]; rec != nil && rec.cont {
			switch {
			case res.Status == 0:
				c.count("C10/continuation/" + rec.fn + "/accepted")
			case rec.exempt && isTransferFn(rec.fn) && errors.Is(res.Err, builtInFunctions.ErrAccountNotPayable):
				fail("continuation-rejected", fmt.Sprintf("the %s message emitted by an origin-side execution whose call type lifts the payability check (callback / transfer-and-execute) is refused on the destination shard as not payable: the message does not carry what the destination side needs (call type %d)", rec.fn, cs.CallType))
			case c10AllowedReject(res.Err) != "":
				c.count("C10/continuation/" + rec.fn + "/refused: " + c10AllowedReject(res.Err))
			case bytes.Equal(cs.Rcpt, vmcommon.SystemAccountAddress):
				// the system account keeps the 2-byte pause flag in the ELRONDesdt‖token cell (F8 family): not a user destination
				c.count("C10/continuation/" + rec.fn + "/refused at the system account address (pause-flag cell)")
			default:
				fail("continuation-rejected", fmt.Sprintf("the %s message emitted by a successful origin-side execution is rejected on the destination shard: %v", rec.fn, res.Err))
			}
		}
	}
	if res.Status != 0 || res.Out == nil {
		return
	}
	for _, mm := range sr.NewMsgs {
		st.msgs[mm.ID] = &c10Msg{fn: mm.Fn, cont: mm.Fn != "ChangeOwnerAddress" && mm.Fn != "ClaimDeveloperRewards",
			exempt: (sr.Op.Kind == opTx || sr.Op.Kind == opSys) && (cs.CallType == vmcommon.AsynchronousCallBack || cs.CallType == vmcommon.ESDTTransferAndExecute)}
	}
	m.checkData(c, w, sr, hist, fail, f10)
	if isTransferFn(cs.Fn) {
		m.checkParser(c, w, sr, hist, fail, f10)
	}
}

// every non-empty data string parses into exactly the function name and arguments that were encoded
func (m *c10Mon) checkData(c *ctx, w *hWorld, sr *stepResult, hist []string, fail func(class, what string), f10 func(what string)) {
	cs, res := sr.Call, sr.Res
	var exp *c10Exp
	n := 0
	var keys []string
	for k := range res.Out.OutputAccounts {
		keys = append(keys, k)
	}
	sort.Strings(keys)
	for _, k := range keys {
		oa := res.Out.OutputAccounts[k]
		for _, t := range oa.OutputTransfers {
			if len(t.Data) == 0 {
				continue
			}
			n++
			if exp == nil {
				exp = c10Expect(w, cs, res)
			}
			if exp == nil || n > 1 {
				fail("unexpected-data", fmt.Sprintf("%s emits data %q that no documented message of this function explains", cs.Fn, t.Data))
				continue
			}
			c.count("C10/data/" + cs.Fn + "/" + exp.kind)
			pf, pa, err := callParser.ParseData(string(t.Data))
			okArgs := err == nil && pf == exp.fname && len(pa) == len(exp.args)
			if okArgs {
				for i := range pa {
					if it := exp.payload[i]; it != nil {
						tok, derr := decodeToken(pa[i])
						var sm *esdt.MetaData
						if pacc := acctOf(res.Pre, cs.Caller); pacc != nil {
							if st, e2 := decodeToken(pacc.storage[nftKey(it.tok, it.nonce)]); e2 == nil {
								sm = st.TokenMetaData
							}
						}
						if derr != nil || tok.Value == nil || tok.Value.Cmp(new(big.Int).SetBytes(it.qtyArg)) != 0 || tok.TokenMetaData == nil || !metaEq(tok.TokenMetaData, sm) {
							okArgs = false
						}
					} else if !bytes.Equal(pa[i], exp.args[i]) {
						okArgs = false
					}
				}
			}
			if okArgs && !bytes.Equal(oa.Address, exp.rcv) {
				fail("emitted-data-receiver", fmt.Sprintf("%s addresses its %s message to %x, expected %x", cs.Fn, exp.kind, oa.Address, exp.rcv))
			}
			if okArgs {
				continue
			}
			what := fmt.Sprintf("%s emits %q which parses to function %q args %s (error %v); encoded: function %q args %s", cs.Fn, clip(t.Data), pf, argsStr(pa), err, exp.fname, argsStr(exp.args))
			if exp.kind == "attached" && badFname(exp.fname) {
				f10(what)
			} else {
				c.fail("monitor", "emitted-data/"+cs.Fn+"/"+exp.kind, what, stdReplay(sr, hist))
			}
		}
	}
}

func clip(b []byte) string {
	if len(b) > 160 {
		return string(b[:160]) + "..."
	}
	return string(b)
}

func addTo(m map[string]*big.Int, k string, v *big.Int) {
	if m[k] == nil {
		m[k] = big.NewInt(0)
	}
	m[k].Add(m[k], v)
}

// diffs of all ELRONDesdt balances of one account between two shard states: post - pre per storage-level key suffix
func balanceDiff(pre, post map[string]*hAccount, addr []byte) map[string]*big.Int {
	out := map[string]*big.Int{}
	for sign, mm := range map[int]map[string]*hAccount{-1: pre, 1: post} {
		a := mm[string(addr)]
		if a == nil {
			continue
		}
		for k := range a.storage {
			if strings.HasPrefix(k, string(esdtPrefix)) {
				suf := k[len(esdtPrefix):]
				v := balanceOf(a, suf)
				if sign < 0 {
					v.Neg(v)
				}
				addTo(out, suf, v)
			}
		}
	}
	for k, v := range out {
		if v.Sign() == 0 {
			delete(out, k)
		}
	}
	return out
}

func mapsDiffer(want, got map[string]*big.Int) (string, bool) {
	var ks []string
	for k := range want {
		ks = append(ks, k)
	}
	for k := range got {
		if want[k] == nil {
			ks = append(ks, k)
		}
	}
	sort.Strings(ks)
	z := big.NewInt(0)
	for _, k := range ks {
		a, b := want[k], got[k]
		if a == nil {
			a = z
		}
		if b == nil {
			b = z
		}
		if a.Cmp(b) != 0 {
			return fmt.Sprintf("key %x: parser reports %s, ledger moved %s", k, a, b), true
		}
	}
	return "", false
}

// the ESDT-transfer parser's report equals what the ledger debits / credits / ships
func (m *c10Mon) checkParser(c *ctx, w *hWorld, sr *stepResult, hist []string, fail func(class, what string), f10 func(what string)) {
	cs, res := sr.Call, sr.Res
	x := parseTransferCall(cs)
	if x == nil {
		fail("transfer-shape", fmt.Sprintf("%s succeeded with an argument list the function cannot index (%d arguments)", cs.Fn, len(cs.Args)))
		return
	}
	side := "destination-side"
	if x.origin {
		side = "origin-side"
	}
	c.count("C10/parser/" + cs.Fn + "/" + side + fmt.Sprintf("/tokens=%d/call=%v", len(x.items), x.callIdx < len(cs.Args)))
	pt, err := c10Parser.ParseESDTTransfers(cs.Caller, cs.Rcpt, cs.Fn, cs.Args)
	if err != nil || pt == nil {
		class := "parser-rejects-accepted-call"
		what := fmt.Sprintf("the ledger accepted this %s call (%s) but the ESDT-transfer parser rejects it: %v", cs.Fn, side, err)
		if cs.Fn == "MultiESDTNFTTransfer" {
			cnt := cs.Args[0]
			if x.origin {
				cnt = cs.Args[1]
			}
			if !new(big.Int).SetBytes(cnt).IsUint64() {
				// the ledger reads the count with big.Int.Uint64() (low 64 bits), the parser requires IsUint64()
				m.cnt64++
				c.count("C10/parser-rejects-accepted-call/count-not-uint64")
				if m.cnt64 > 3 {
					return
				}
				c.fail("monitor", class+"/"+cs.Fn+"/count-not-uint64", what+fmt.Sprintf("; the transfer count argument %x does not fit 64 bits: the ledger uses its low 64 bits (%d) and moves the tokens", cnt, new(big.Int).SetBytes(cnt).Uint64()), stdReplay(sr, hist))
				return
			}
		}
		fail(class, what)
		return
	}
	if !bytes.Equal(pt.RcvAddr, x.dest) {
		fail("parser-receiver", fmt.Sprintf("%s (%s): parser reports receiver %x, the ledger's destination is %x", cs.Fn, side, pt.RcvAddr, x.dest))
	}
	rep := map[string]*big.Int{}
	for _, t := range pt.ESDTTransfers {
		if t == nil || t.ESDTValue == nil {
			fail("parser-report", "parser returns a nil transfer / value")
			return
		}
		k := string(t.ESDTTokenName)
		if t.ESDTTokenNonce > 0 {
			k += string(be(t.ESDTTokenNonce))
		}
		addTo(rep, k, t.ESDTValue)
	}
	for k, v := range rep {
		if v.Sign() == 0 {
			delete(rep, k)
		}
	}
	// aliasing (F4b shape): an item whose entry carries another metadata nonce than the one asked for
	alias := false
	for _, it := range x.items {
		if it.nonce == 0 {
			continue
		}
		var b []byte
		if x.origin {
			if pa := acctOf(res.Pre, cs.Caller); pa != nil {
				b = pa.storage[nftKey(it.tok, it.nonce)]
			}
		} else {
			b = it.payload
		}
		if t, e := decodeToken(b); e == nil && t.TokenMetaData != nil && t.TokenMetaData.Nonce != it.nonce {
			alias = true
		}
	}
	mismatch := func(class, what string) {
		if alias {
			c.fail("monitor", sigF4b, what+" (the entry's metadata nonce differs from the requested nonce: key aliasing)", map[string]interface{}{"call": describeCall(cs), "pre": digestAccounts(res.Pre)})
			return
		}
		fail(class, what)
	}
	pre, post := res.Pre, w.shards[cs.Shard].accounts
	local := w.shardOf(x.dest) == cs.Shard
	if cs.Fn == "ESDTTransfer" {
		local = cs.Dst
	}
	senderSide := x.origin && cs.Snd
	if senderSide && local && bytes.Equal(cs.Caller, x.dest) {
		c.count("C10/parser/transfer-to-self")
		if d, bad := mapsDiffer(map[string]*big.Int{}, balanceDiff(pre, post, cs.Caller)); bad {
			mismatch("parser-vs-ledger-self", fmt.Sprintf("%s to the caller itself changed its balances: %s", cs.Fn, d))
		}
		// debit and credit cancel on one account, but the debit must have been possible: what the contract is told it received was held
		if pa := acctOf(pre, cs.Caller); pa != nil {
			for k, v := range rep {
				if have := balanceOf(pa, k); have.Cmp(v) < 0 {
					mismatch("parser-vs-ledger-self", fmt.Sprintf("%s to the caller itself accepted: the parser reports %s of key %x received, the account held %s", cs.Fn, v, k, have))
				}
			}
		}
	} else {
		if senderSide {
			deb := balanceDiff(pre, post, cs.Caller)
			for _, v := range deb {
				v.Neg(v)
			}
			if d, bad := mapsDiffer(rep, deb); bad {
				mismatch("parser-vs-debit", fmt.Sprintf("%s (%s): %s on the sender %x", cs.Fn, side, d, cs.Caller))
			}
		}
		if local {
			if d, bad := mapsDiffer(rep, balanceDiff(pre, post, x.dest)); bad {
				mismatch("parser-vs-credit", fmt.Sprintf("%s (%s): %s on the destination %x", cs.Fn, side, d, x.dest))
			}
		} else if senderSide {
			var mm *hMsg
			for _, q := range sr.NewMsgs {
				if q.Fn == cs.Fn {
					mm = q
				}
			}
			if mm == nil {
				c.count("C10/parser/no-message (destination outside the world)")
			} else {
				cr := mm.credits()
				for k, v := range cr {
					if v.Sign() == 0 {
						delete(cr, k)
					}
				}
				if d, bad := mapsDiffer(rep, cr); bad {
					mismatch("parser-vs-message", fmt.Sprintf("%s (%s): %s in the in-flight message to %x", cs.Fn, side, d, x.dest))
				}
				// the destination-side report for the shipped message equals the origin-side report
				if pd, e := c10Parser.ParseESDTTransfers(mm.Caller, mm.Dest, mm.Fn, mm.Args); e != nil || pd == nil {
					mismatch("parser-rejects-message", fmt.Sprintf("%s: the parser rejects the emitted message on the destination side: %v", cs.Fn, e))
				} else if pd.CallFunction != pt.CallFunction || !argsEq(pd.CallArgs, pt.CallArgs) || !bytes.Equal(pd.RcvAddr, pt.RcvAddr) || len(pd.ESDTTransfers) != len(pt.ESDTTransfers) {
					mismatch("parser-origin-vs-destination", fmt.Sprintf("%s: parser report for the emitted message (call %q %s, %d transfers) differs from the origin-side report (call %q %s, %d transfers)", cs.Fn, pd.CallFunction, argsStr(pd.CallArgs), len(pd.ESDTTransfers), pt.CallFunction, argsStr(pt.CallArgs), len(pt.ESDTTransfers)))
				}
			}
		}
	}
	// attached call: compared with the call the ledger forwards, when the destination is a contract and is credited here
	if local && vmcommon.IsSmartContractAddress(x.dest) {
		var data []byte
		found := false
		for _, oa := range res.Out.OutputAccounts {
			for _, t := range oa.OutputTransfers {
				if bytes.Equal(oa.Address, x.dest) {
					data, found = t.Data, true
				}
			}
		}
		want := pt.CallFunction != "" || len(pt.CallArgs) > 0
		c.count(fmt.Sprintf("C10/parser/contract-destination/call-reported=%v/forwarded=%v", want, found && len(data) > 0))
		switch {
		case !want && len(data) == 0:
		case !want:
			fail("parser-call", fmt.Sprintf("%s forwards %q to the contract, the parser reports no call", cs.Fn, clip(data)))
		default:
			f, a, e := callParser.ParseData(string(data))
			if e != nil || f != pt.CallFunction || !argsEq(a, pt.CallArgs) {
				what := fmt.Sprintf("%s to contract %x: parser reports call %q %s, the ledger forwards %q = function %q args %s (error %v)", cs.Fn, x.dest, pt.CallFunction, argsStr(pt.CallArgs), clip(data), f, argsStr(a), e)
				if badFname(pt.CallFunction) {
					f10(what)
				} else {
					fail("parser-call", what)
				}
			}
		}
	}
}

// ---------- scenario families ----------
type c10Run struct {
	c        *ctx
	u        *universe
	budget   *caseBudget
	mon      *c10Mon
	mons     []monitor // when set: run the families under these monitors instead (C11 reuses the families)
	emitProb int
}

func (r *c10Run) newScn(name string, v int) *scn {
	mons := r.mons
	if mons == nil {
		mons = []monitor{r.mon.mon}
	}
	s := newScn(r.c, r.u, name, v, mons, r.budget)
	s.lite = true
	s.emitProb = r.emitProb
	u := r.u
	huge := new(big.Int).Lsh(big.NewInt(1), 200).Bytes()
	for _, a := range [][]byte{u.U[0], u.U[1], u.U[2], u.U[3], u.K[0], u.K[1]} {
		for _, t := range u.Fung {
			mustOK(s.w.sys(u, a, "ESDTTransfer", t, huge), "issue")
		}
	}
	for _, a := range [][]byte{u.U[0], u.U[2], u.K[0]} {
		for _, t := range u.NFTs {
			mustOK(s.w.sys(u, a, "ESDTSetRole", roleArgs(t, c07AllRoles...)...), "roles")
		}
		// nonce 1: a true NFT, nonce 2 and 3: semi-fungible
		mustOK(s.w.tx(a, a, fnCreate, bigGas, createArgs(u.NFTs[0], 1, "one")...), "create")
		for i := 0; i < 3; i++ {
			mustOK(s.w.tx(a, a, fnCreate, bigGas, createArgs(u.NFTs[1], 1000000, fmt.Sprintf("sft%d", i))...), "create")
		}
	}
	return s
}

// transferCall builds one of the three calls for the item list (fungible: nonce 0) from holder a to dst
func transferCall(kind int, a, dst []byte, items [][3][]byte, call [][]byte) (rcpt []byte, fn string, args [][]byte) {
	switch {
	case kind == 0 && len(items) == 1 && len(items[0][1]) == 0:
		return dst, "ESDTTransfer", append([][]byte{items[0][0], items[0][2]}, call...)
	case kind == 1 && len(items) == 1 && len(items[0][1]) != 0:
		return a, "ESDTNFTTransfer", append([][]byte{items[0][0], items[0][1], items[0][2], dst}, call...)
	}
	args = [][]byte{dst, be(uint64(len(items)))}
	for _, it := range items {
		args = append(args, it[0], it[1], it[2])
	}
	return a, "MultiESDTNFTTransfer", append(args, call...)
}

var c10Names = []string{"f", "doSomething", "ESDTTransfer", "ab", "0123", strings.Repeat("longName", 12), "caf\xc3\xa9", "x\x00y", "UPPER_lower-09"}
var c10BadNames = []string{"", "a@bb", "@", "f@", "@@x", "a@b@c", "@ab"}
var c10CallArgs = [][][]byte{nil, {nil}, {{0}}, {{0, 0, 1}}, {bytes.Repeat([]byte{0xfe}, 40)}, {[]byte("cc")}, {{1}, nil, {2, 3}}, {nil, nil}}

// all three functions x same shard / cross shard x contract / user destination x attached names and arguments
func (r *c10Run) famAttached(v int, names []string, fam string) {
	s := r.newScn(fam, v)
	c, u := s.c, s.u
	holders := [][]byte{u.U[0], u.U[2], u.K[0]}
	for ni, name := range names {
		for k := 0; k < 3; k++ {
			a := holders[(v+ni+k)%3]
			for _, dst := range [][]byte{u.K[0], u.K[1], u.U[1], u.U[3]} {
				if bytes.Equal(dst, a) {
					continue
				}
				ca := c10CallArgs[c.rng.Intn(len(c10CallArgs))]
				call := append([][]byte{[]byte(name)}, ca...)
				var items [][3][]byte
				switch k {
				case 0:
					items = [][3][]byte{{u.Fung[ni%2], nil, be(uint64(1 + ni))}}
				case 1:
					items = [][3][]byte{{u.NFTs[1], be(uint64(1 + ni%3)), be(2)}}
				default:
					items = [][3][]byte{{u.Fung[0], nil, be(3)}, {u.NFTs[1], be(2), be(1)}, {u.Fung[0], nil, be(4)}}[:1+c.rng.Intn(3)]
				}
				rcpt, fn, args := transferCall(k, a, dst, items, call)
				sr := s.tx(a, rcpt, fn, bigGas, args...)
				if srOK(sr) {
					for _, d := range s.deliverNew(sr) {
						if !srOK(d) && !d.Skipped {
							s.refund(d.Op.ID)
						}
					}
				}
			}
		}
	}
}

// numbers: leading zeros, multi-word values, nonces and counts; 1..k tokens with repeats; no attached call / empty arguments
func (r *c10Run) famNumbers(v int) {
	s := r.newScn("numbers", v)
	c, u := s.c, s.u
	a := [][]byte{u.U[0], u.U[2], u.K[0]}[v%3]
	dsts := [][]byte{s.sameShard(a, v), s.other(a, v), u.K[0], u.K[1]}
	lz := func(b []byte, n int) []byte { return append(make([]byte, n), b...) }
	qtys := [][]byte{be(1), lz(be(1), 1), lz(be(7), 9), be(1 << 40), new(big.Int).Lsh(big.NewInt(1), 70).Bytes(), lz(new(big.Int).Lsh(big.NewInt(3), 64).Bytes(), 2), {0}, nil, be(1<<64 - 1)}
	nonces := [][]byte{be(2), lz(be(2), 1), lz(be(3), 7), append([]byte{1, 0, 0, 0, 0, 0, 0, 0}, 2), append([]byte{0xff}, lz(be(1), 7)...)}
	for _, dst := range dsts {
		if bytes.Equal(dst, a) {
			continue
		}
		for _, q := range qtys {
			s.deliverNew(s.tx(a, dst, "ESDTTransfer", bigGas, u.Fung[0], q))
			s.deliverNew(s.tx(a, a, "MultiESDTNFTTransfer", bigGas, dst, be(1), u.Fung[1], nil, q))
			s.deliverNew(s.tx(a, a, "MultiESDTNFTTransfer", bigGas, dst, be(1), u.Fung[1], []byte{0, 0}, q, []byte("f"), q))
		}
		for _, n := range nonces {
			q := c.pick([][]byte{be(1), lz(be(2), 3), be(5)})
			s.deliverNew(s.tx(a, a, "ESDTNFTTransfer", bigGas, u.NFTs[1], n, q, dst))
			s.deliverNew(s.tx(a, a, "MultiESDTNFTTransfer", bigGas, dst, be(2), u.NFTs[1], n, q, u.NFTs[1], n, be(1)))
		}
		// counts: leading zeros, 9-byte numbers whose low 64 bits are a valid count, k tokens with repeats
		for _, cnt := range [][]byte{lz(be(2), 1), lz(be(2), 7), append([]byte{1, 0, 0, 0, 0, 0, 0, 0}, 2), append([]byte{1}, lz(be(2), 7)...)} {
			s.deliverNew(s.tx(a, a, "MultiESDTNFTTransfer", bigGas, dst, cnt, u.Fung[0], nil, be(1), u.NFTs[1], be(2), be(1)))
			s.deliverNew(s.tx(a, a, "MultiESDTNFTTransfer", bigGas, dst, cnt, u.Fung[0], nil, be(1), u.NFTs[1], be(2), be(1), []byte("call"), []byte{1}))
		}
		for k := 1; k <= 4; k++ {
			var items [][3][]byte
			for i := 0; i < k; i++ {
				if c.rng.Intn(2) == 0 {
					items = append(items, [3][]byte{u.Fung[c.rng.Intn(2)], nil, c.pick(qtys[:5])})
				} else {
					items = append(items, [3][]byte{u.NFTs[1], be(uint64(1 + c.rng.Intn(3))), be(uint64(1 + c.rng.Intn(4)))})
				}
			}
			_, fn, args := transferCall(2, a, dst, items, nil)
			s.deliverNew(s.tx(a, a, fn, bigGas, args...))
		}
		s.deliverNew(s.tx(a, a, "ESDTNFTTransfer", bigGas, u.NFTs[0], be(1), be(1), dst)) // the true NFT leaves
	}
}

// the other continuations (user name, role hand-over, transfer and burn by a contract) and refused deliveries
func (r *c10Run) famContinuations(v int) {
	s := r.newScn("continuations+refusals", v)
	u, w := s.u, s.w
	w.payTab[string(u.K[1])] = 'N'
	// user names
	for _, who := range [][]byte{u.U[2], u.U[3], u.U[0], u.K[1]} {
		for _, name := range [][]byte{[]byte("alice.elrond"), nil, bytes.Repeat([]byte{'z'}, 60)} {
			s.deliverNew(s.tx(u.DNS, who, "SetUserName", bigGas, name))
		}
	}
	// role hand-over with counters 0, 3 and a two-byte counter
	a := u.U[0]
	for i, t := range u.NFTs {
		for j := 0; j < i*260; j++ { // a two-byte counter; the entries are burnt again so that the state stays small
			if n := createdNonce(s.w.tx(a, a, fnCreate, bigGas, createArgs(t, 1, "x")...)); n > 0 {
				s.w.tx(a, a, "ESDTNFTBurn", bigGas, t, be(n), be(1))
			}
		}
		s.deliverNew(s.handover(a, s.other(a, i), t))
	}
	// a contract transfers and burns
	k := u.K[0]
	s.deliverNew(s.tx(k, u.U[2], "ESDTTransfer", bigGas, u.Fung[0], be(5)))
	s.deliverNew(s.tx(k, u.K[1], "ESDTTransfer", bigGas, u.Fung[0], be(5), []byte("fn"), []byte("arg")))
	s.deliverNew(s.tx(k, u.U[3], "ESDTTransfer", bigGas, u.Fung[0], be(5), []byte("a@b")))
	s.tx(k, u.SC, "ESDTBurn", bigGas, u.Fung[1], be(9))
	s.tx(u.U[0], u.SC, "ESDTBurn", bigGas, u.Fung[1], be(9))
	// refused deliveries: frozen, paused, not payable, wrong hash -> refund
	from := u.U[0]
	d := s.other(from, 0)
	try := func(prep func(), undo func(), fn string, rcpt []byte, args ...[]byte) {
		sr := s.tx(from, rcpt, fn, bigGas, args...)
		if !srOK(sr) || len(sr.NewMsgs) == 0 {
			return
		}
		prep()
		for _, x := range s.deliverNew(sr) {
			if !srOK(x) && !x.Skipped {
				s.refund(x.Op.ID)
			}
		}
		undo()
	}
	nop := func() {}
	try(func() { s.sys(d, "ESDTFreeze", u.Fung[0]) }, func() { s.sys(d, "ESDTUnFreeze", u.Fung[0]) }, "ESDTTransfer", d, u.Fung[0], be(3))
	try(func() { s.sys(d, "ESDTFreeze", u.Fung[0]) }, func() { s.sys(d, "ESDTUnFreeze", u.Fung[0]) }, "MultiESDTNFTTransfer", from, d, be(2), u.Fung[0], nil, be(3), u.NFTs[1], be(2), be(1))
	try(func() { s.sysOn(w.shardOf(d), u.SYS, "ESDTPause", u.NFTs[1]) }, func() { s.sysOn(w.shardOf(d), u.SYS, "ESDTUnPause", u.NFTs[1]) }, "ESDTNFTTransfer", from, u.NFTs[1], be(2), be(1), d)
	try(nop, nop, "ESDTNFTTransfer", from, u.NFTs[1], be(2), be(1), u.K[1]) // not payable
	try(nop, nop, "ESDTTransfer", u.K[1], u.Fung[0], be(1))                 // not payable
	try(nop, nop, "MultiESDTNFTTransfer", from, u.K[1], be(1), u.Fung[0], nil, be(2))
	try(nop, nop, "ESDTNFTTransfer", from, u.NFTs[1], be(1), be(1), u.U[2]) // U[2] holds its own SFT nonce 1 with another hash? (same hash text: accepted)
	w.payTab[string(u.K[1])] = 'E'
	try(nop, nop, "ESDTNFTTransfer", from, u.NFTs[1], be(2), be(1), u.K[1]) // oracle error
}

const c10Proj = "{| p_gas := false; p_transfers := true; p_logs := false; p_retdata := false; p_state := true; p_deps := false |}"

func init() {
	runners["C10"] = func(c *ctx) {
		c.stateProj = "sp_balances" // the part of the state this property's theorems speak about
		u := newUniverse()
		c.rep.Rule = "every successful call is checked on the implementation: (1) every non-empty OutputTransfer.Data is parsed with the real call-arguments parser and compared with what was encoded: for continuations (ESDTTransfer / ESDTBurn by a contract, cross-shard ESDTNFTTransfer and MultiESDTNFTTransfer, ESDTNFTCreateRoleTransfer, SetUserName) the function's own name and the documented argument list (marshalled entries compared decoded: value = requested quantity, metadata = the sender's), for attached calls the attached name and arguments; (2) every DELIVER of a continuation must be accepted unless the destination is frozen / paused / not payable (or the oracle fails) / holds another hash / already has a user name / holds an aliasing entry of another type; (3) the real ESDT-transfer parser is run on every accepted ESDTTransfer / ESDTNFTTransfer / MultiESDTNFTTransfer call, origin side, delivered side and refunds: receiver = the ledger's destination, per storage key the reported values = balance decrease of the sender = balance increase of the destination (same shard or at delivery) = quantity in the in-flight message, the destination-side report of the emitted message = the origin-side report, and for a contract destination the reported call function and arguments = parse of the call the ledger forwards. Families: attached names x argument pools x three functions x same/cross shard x contract/user destination; names that are empty or contain '@' (F10); numbers with leading zeros, multi-word quantities, nonces and counts, 1..4 tokens with repeats; the other continuations; refused deliveries and refunds; random walks. Every executed call is re-evaluated in the Coq model (transfers = the emitted data strings, state). distinct = distinct (shard state, call)."
		c.setExecStream(c10Proj)
		c.perFile = 100
		quick := !(c.thorough() || c.widen)
		r := &c10Run{c: c, u: u, budget: &caseBudget{max: 1300}, mon: newC10Mon()}
		nv, walkW, walkOps, walkMax, walkEmit := 3, 16, 400, 800, 6
		if !quick {
			r.budget.max = 9000
			nv, walkW, walkOps, walkMax, walkEmit = 12, 200, 500, 8000, 12
		}
		for v := 0; v < nv; v++ {
			r.famAttached(v, c10BadNames, "attached-call-bad-name (F10)")
			r.famAttached(v, c10Names, "attached-call")
			r.famNumbers(v)
			r.famContinuations(v)
		}
		c.rep.Extra = map[string]interface{}{"F10_failures_classified_in_families": r.mon.f10}
		c.walk(u, walkOpts{Worlds: walkW, Ops: walkOps, Proj: c10Proj, MaxCases: walkMax, EmitProb: walkEmit, Monitors: []monitor{r.mon.mon},
			Tune: func(g *gen) {
				g.wTransfer, g.wSupply, g.wSystem, g.wAccount, g.wDeliver, g.wHostile = 55, 8, 8, 5, 22, 4
			}})
		c.sample(map[string]interface{}{"families": []string{"attached-call", "attached-call-bad-name (F10)", "numbers", "continuations+refusals", "walk"}})
	}
}
