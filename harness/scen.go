package main

// Universe, world construction and operation generators shared by the ledger properties.

import (
	"bytes"
	"fmt"
	"math/big"

	vmcommon "github.com/ElrondNetwork/elrond-vm-common"
)

func userAddr(tag byte) []byte {
	a := bytes.Repeat([]byte{tag}, 32)
	a[0] = 'u'
	return a
}
func scAddr(tag byte) []byte {
	a := make([]byte, 32)
	a[8], a[9] = 5, 0
	for i := 10; i < 32; i++ {
		a[i] = tag
	}
	return a
}

// metaSC: 32-byte address of the shape of a metachain system contract: 29 zero bytes... index byte, then 0xffff
func metaSC(idx, a, b byte) []byte {
	x := make([]byte, 32)
	x[9] = 1
	x[29], x[30], x[31] = idx, a, b
	return x
}

type universe struct {
	U        [][]byte // users: U[0],U[1] on shard 0, U[2],U[3] on shard 1 (when 2+ shards)
	K        [][]byte // contracts: K[0] shard 0, K[1] shard 1
	DNS      []byte
	SC, SYS  []byte
	Short    []byte // 31 bytes
	Long     []byte // 33 bytes
	MetaUser []byte // an address on the metachain
	Fung     [][]byte
	NFTs     [][]byte
	Alias    [][]byte // token ids that alias each other's keys when concatenated with a nonce
	AllRoles [][]byte
	// "rich" features (populateRich): inputs that ordinary holdings never reach
	MetaSCs [][]byte // metachain system-contract-shaped addresses other than the ESDT system contract (staking, delegation manager, ...)
	SysVar  []byte   // 0xff*31 || 0x01: passes IsSystemAccountAddress (30-byte prefix) but is not the canonical system account
	HiTok   []byte   // an SFT identifier whose nonces run past 256 (nonces whose big-endian form ends in a zero byte)
	earlyGas []map[string]map[string]uint64 // handed to the next stdWorld (see hWorld.earlyGas)
	rich    bool     // set by populateRich: the generators then also draw from the rich pools
	onStep  func(sr *stepResult) // called after every set-up step of populateRich (runners that keep their own view of the history)
}

// amounts that do not fit 64 bits
func big64(extra uint64) []byte {
	return new(big.Int).Add(new(big.Int).Lsh(big.NewInt(1), 64), new(big.Int).SetUint64(extra)).Bytes()
}

func newUniverse() *universe {
	u := &universe{}
	for _, t := range []byte{1, 2, 3, 4} {
		u.U = append(u.U, userAddr(t))
	}
	u.K = [][]byte{scAddr(0x11), scAddr(0x22)}
	u.DNS = userAddr(0xd0)
	u.SC = vmcommon.ESDTSCAddress
	u.SYS = vmcommon.SystemAccountAddress
	u.Short = userAddr(7)[:31]
	u.Long = append(userAddr(8), 9)
	u.MetaUser = userAddr(0xee)
	u.Fung = [][]byte{[]byte("TKA-a1b2c3"), []byte("TKB-0000ff"), []byte("LONGTOKEN-0a1b2c")} // identifiers of different lengths (a stale key buffer shows only then)
	u.NFTs = [][]byte{[]byte("NFA-112233"), []byte("SFT-445566")}
	u.Alias = [][]byte{[]byte("AB"), []byte("ABC"), []byte("ABCD"), []byte("ABC-12345"), []byte("ABC-123456")}
	u.MetaSCs = [][]byte{metaSC(1, 0xff, 0xff), metaSC(4, 0xff, 0xff), metaSC(0xff, 0xff, 0xff), metaSC(3, 0xff, 0xff)}
	u.MetaSCs[2][28] = 0x02 // delegation-contract shape ...02ffffff
	u.SysVar = append(bytes.Repeat([]byte{0xff}, 31), 0x01)
	u.HiTok = []byte("HNC-778899")
	for _, r := range []string{"ESDTRoleLocalMint", "ESDTRoleLocalBurn", "ESDTRoleNFTCreate", "ESDTRoleNFTAddQuantity", "ESDTRoleNFTBurn", "ESDTRoleNFTAddURI", "ESDTRoleNFTUpdateAttributes"} {
		u.AllRoles = append(u.AllRoles, []byte(r))
	}
	return u
}

// stdWorld: nShards in {1,2,3}; sysShard = shard on which the system-account ADDRESS lives as an ordinary address
func (u *universe) stdWorld(nShards int, sysShard uint32, gas map[string]map[string]uint64) *hWorld {
	w, _ := newWorld(nShards, gas)
	place := func(a []byte, s int) {
		if s >= nShards {
			s = nShards - 1
		}
		w.shardTab[string(a)] = uint32(s)
	}
	place(u.U[0], 0)
	place(u.U[1], 0)
	place(u.U[2], 1)
	place(u.U[3], 1)
	place(u.K[0], 0)
	place(u.K[1], 1)
	place(u.DNS, 0)
	place(u.Short, 0)
	place(u.Long, 1)
	w.shardTab[string(u.SC)] = metaShard
	w.shardTab[string(u.MetaUser)] = metaShard
	w.shardTab[string(u.SYS)] = sysShard
	for _, a := range u.MetaSCs {
		w.shardTab[string(a)] = metaShard
	}
	w.shardTab[string(u.SysVar)] = sysShard
	place(userAddr(0x41), 1) // two users of shard 1 that hold nothing
	place(scAddr(0x44), 1)   // a contract of shard 1 that is NOT payable
	w.payTab[string(scAddr(0x44))] = 'N'
	place(userAddr(0x42), 1)
	w.shardDflt = 0
	w.dns = [][]byte{u.DNS}
	w.payTab[string(u.K[0])] = 'Y'
	w.payTab[string(u.K[1])] = 'Y'
	w.earlyGas = u.earlyGas
	if err := w.build(); err != nil {
		panic(err)
	}
	return w
}

func be(n uint64) []byte { return new(big.Int).SetUint64(n).Bytes() }

// ---- setup through real calls ----
func (w *hWorld) sys(u *universe, rcpt []byte, fn string, args ...[]byte) *stepResult {
	sh := w.shardOf(rcpt)
	if fn == "ESDTPause" || fn == "ESDTUnPause" {
		sh = 0
	}
	cs := &callSpec{Shard: sh, Fn: fn, Caller: u.SC, Rcpt: rcpt, Args: args, Value: big.NewInt(0), Gas: 0, Snd: false, Dst: true, FailAt: -1}
	return w.step(&worldOp{Kind: opSys, Call: cs})
}
func (w *hWorld) sysOn(u *universe, shard uint32, rcpt []byte, fn string, args ...[]byte) *stepResult {
	cs := &callSpec{Shard: shard, Fn: fn, Caller: u.SC, Rcpt: rcpt, Args: args, Value: big.NewInt(0), Gas: 0, Snd: false, Dst: w.shardOf(rcpt) == shard || fn == "ESDTPause" || fn == "ESDTUnPause", FailAt: -1}
	return w.step(&worldOp{Kind: opSys, Call: cs})
}
func (w *hWorld) tx(caller, rcpt []byte, fn string, gas uint64, args ...[]byte) *stepResult {
	cs := w.mkCall(w.shardOf(caller), fn, caller, rcpt, args, gas)
	return w.step(&worldOp{Kind: opTx, Call: cs})
}
func mustOK(sr *stepResult, what string) {
	if sr.Skipped || sr.Res == nil || sr.Res.Status != 0 {
		msg := what + ": setup step failed"
		if sr.Res != nil {
			msg += ": " + sr.Res.PanicMsg
			if sr.Res.Err != nil {
				msg += sr.Res.Err.Error()
			}
		}
		panic(msg)
	}
}

const bigGas = uint64(1) << 40

// populate gives the standard holdings: fungible tokens issued by the system contract, roles, NFTs created by U[0] and U[2]
func (u *universe) populate(w *hWorld) {
	for _, a := range [][]byte{u.U[0], u.U[1], u.U[2], u.K[0]} {
		for _, t := range u.Fung {
			mustOK(w.sys(u, a, "ESDTTransfer", t, be(1000)), "issue")
		}
	}
	for _, holder := range [][]byte{u.U[0], u.U[2]} {
		for _, t := range append(append([][]byte{}, u.NFTs...), u.Fung...) {
			args := append([][]byte{t}, u.AllRoles...)
			mustOK(w.sys(u, holder, "ESDTSetRole", args...), "setrole")
		}
	}
	// U[0] creates NFA#1 (qty 1), SFT#1 (qty 50), SFT#2 (qty 7)
	mk := func(cr []byte, tok []byte, q uint64, name string) {
		mustOK(w.tx(cr, cr, "ESDTNFTCreate", bigGas, tok, be(q), []byte(name), be(250), []byte("hash-"+name), []byte("attr"), []byte("uri1"), []byte("uri2")), "create")
	}
	mk(u.U[0], u.NFTs[0], 1, "n1")
	mk(u.U[0], u.NFTs[1], 50, "s1")
	mk(u.U[0], u.NFTs[1], 7, "s2")
}

// populateRich adds, on top of populate, the holdings that ordinary use never produces:
//   - balances that do not fit 64 bits (fungible Fung[1] at U[1] and U[2]; an SFT entry of NFTs[1] at U[0]),
//   - an SFT collection (HiTok, creator U[2]) whose counter has passed 256: U[2] keeps nonces 1, 2, 255, 256, 257 (the others are
//     burnt again), so that nonces whose big-endian form ends in a zero byte, and their small neighbours, are live,
//   - a destination (U[3]) that already holds part of HiTok#256 and of NFTs[1]#1.
//
// All through real calls of the library, so the resulting world is reachable.
func (u *universe) populateRich(w *hWorld) {
	u.rich = true
	mustOK := func(sr *stepResult, what string) {
		mustOK(sr, what)
		if u.onStep != nil {
			u.onStep(sr)
		}
	}
	mustOK(w.sys(u, u.U[1], "ESDTTransfer", u.Fung[1], big64(1000)), "whale issue")
	mustOK(w.sys(u, u.U[2], "ESDTTransfer", u.Fung[1], new(big.Int).Lsh(big.NewInt(1), 70).Bytes()), "whale issue")
	mustOK(w.tx(u.U[0], u.U[0], "ESDTNFTCreate", bigGas, u.NFTs[1], big64(77), []byte("whale"), be(250), []byte("hash-whale"), []byte("attr"), []byte("uri1")), "whale create")
	// contracts with an owner and developer rewards (the library has no deploy: set directly, as the node would have)
	for i, own := range [][]byte{u.U[0], u.U[2]} {
		k := w.shards[w.shardOf(u.K[i])%uint32(w.nShards)].account(u.K[i])
		k.owner = append([]byte(nil), own...)
		k.devReward = big.NewInt(int64(500 + 111*i))
	}
	args := append([][]byte{u.HiTok}, u.AllRoles...)
	mustOK(w.sys(u, u.U[2], "ESDTSetRole", args...), "setrole hi")
	for n := uint64(1); n <= 254; n++ {
		mustOK(w.tx(u.U[2], u.U[2], "ESDTNFTCreate", bigGas, u.HiTok, be(9), []byte("hi"), be(1), []byte(fmt.Sprintf("hash-hi-%d", n)), []byte("attr"), []byte("uri")), "hi create")
		if n > 2 && n < 254 {
			mustOK(w.tx(u.U[2], u.U[2], "ESDTNFTBurn", bigGas, u.HiTok, be(n), be(9)), "hi burn")
		}
	}
}

// richTour: a fixed sequence of operations executed UNDER THE MONITORS at the start of every walk over a rich world (each step is built
// from the world as it is then; messages emitted by a tour step are delivered right after it).  It crosses the 255/256 nonce boundary,
// moves entries whose nonce ends in a zero byte and quantities beyond 64 bits over every route, names nonces 512 / 65536 that do not
// exist (must be rejected and change nothing), lists one cell twice in a multi-transfer, lets metachain contracts other than the ESDT
// system contract try system-only operations and plain transfers, and addresses a pause to the non-canonical system-account address.
func richTour(u *universe, w *hWorld) []func() *worldOp {
	tx := func(caller, rcpt []byte, fn string, args ...[]byte) func() *worldOp {
		return func() *worldOp {
			return &worldOp{Kind: opTx, Call: w.mkCall(w.shardOf(caller), fn, caller, rcpt, args, bigGas)}
		}
	}
	sysAs := func(caller []byte, shardOfWho, rcpt []byte, fn string, args ...[]byte) func() *worldOp {
		return func() *worldOp {
			sh := w.shardOf(shardOfWho)
			if int(sh) >= w.nShards {
				sh = 0
			}
			return &worldOp{Kind: opSys, Call: &callSpec{Shard: sh, Fn: fn, Caller: caller, Rcpt: rcpt, Args: args, Value: big.NewInt(0), Gas: 0,
				Snd: false, Dst: true, FailAt: -1}}
		}
	}
	tweak := func(f func() *worldOp, t func(cs *callSpec)) func() *worldOp {
		return func() *worldOp { op := f(); t(op.Call); return op }
	}
	cr, hi := u.U[2], u.HiTok
	create := tx(cr, cr, "ESDTNFTCreate", hi, be(9), []byte("hi"), be(1), []byte("hash-hi-t"), []byte("attr"), []byte("uri"))
	var l []func() *worldOp
	l = append(l, create, create, create, create) // nonces 255, 256, 257, 258
	for _, n := range []uint64{256, 1, 255, 512, 65536, 2} {
		l = append(l,
			tx(cr, cr, "ESDTNFTTransfer", hi, be(n), be(2), u.U[3]), // same shard (2+ shards) or the only shard
			tx(cr, cr, "ESDTNFTTransfer", hi, be(n), be(1), u.U[0]), // towards shard 0
			tx(cr, cr, "ESDTNFTAddQuantity", hi, be(n), be(3)),
			tx(cr, cr, "ESDTNFTBurn", hi, be(n), be(1)),
			tx(cr, cr, "ESDTNFTAddURI", hi, be(n), []byte("uri-t")),
			tx(cr, cr, "ESDTNFTUpdateAttributes", hi, be(n), []byte("attr-t")),
			tx(cr, cr, "MultiESDTNFTTransfer", tkMulti(u.U[1], hi, be(n), be(1), u.Fung[1], nil, big64(3))...),
		)
	}
	l = append(l, tx(u.U[3], u.U[3], "ESDTNFTTransfer", hi, be(256), be(1), cr)) // back to a holder that still has part of it
	// quantities beyond 64 bits over every route
	l = append(l,
		tx(u.U[1], u.U[0], "ESDTTransfer", u.Fung[1], big64(5)),
		tx(u.U[1], u.U[2], "ESDTTransfer", u.Fung[1], big64(6)),
		tx(u.U[1], u.U[1], "MultiESDTNFTTransfer", tkMulti(u.U[2], u.Fung[1], nil, big64(7), u.Fung[0], nil, be(3))...),
		tx(u.U[1], u.U[1], "MultiESDTNFTTransfer", tkMulti(u.U[0], u.Fung[1], nil, big64(8))...),
		tx(u.U[0], u.U[0], "ESDTNFTTransfer", u.NFTs[1], be(3), big64(9), u.U[2]),
		tx(u.U[0], u.U[0], "ESDTNFTTransfer", u.NFTs[1], be(3), big64(2), u.U[1]),
		tx(u.U[0], u.U[0], "MultiESDTNFTTransfer", tkMulti(u.U[3], u.NFTs[1], be(3), big64(1), u.NFTs[1], be(1), be(2))...),
		tx(u.U[2], u.U[2], "ESDTLocalBurn", u.Fung[1], big64(1)),
		tx(u.U[2], u.U[2], "ESDTLocalMint", u.Fung[1], big64(2)),
		tx(u.U[2], u.SC, "ESDTBurn", u.Fung[1], big64(1)),
		tx(u.U[0], u.U[0], "ESDTNFTBurn", u.NFTs[1], be(3), big64(1)),
		tx(u.U[0], u.U[0], "ESDTNFTAddQuantity", u.NFTs[1], be(3), big64(4)),
	)
	// nonce arguments wider than 8 bytes (non-zero multiples of 2^64 and 2^64+1), on fungible tokens the caller holds with every role, and on NFTs
	for _, nb := range [][]byte{big64(0), new(big.Int).Lsh(big.NewInt(1), 72).Bytes(), big64(1)} {
		for _, tk := range [][]byte{u.Fung[0], u.NFTs[1]} {
			l = append(l,
				tx(u.U[0], u.U[0], "ESDTNFTUpdateAttributes", tk, nb, []byte("attr-w")),
				tx(u.U[0], u.U[0], "ESDTNFTAddURI", tk, nb, []byte("uri-w")),
				tx(u.U[0], u.U[0], "ESDTNFTAddQuantity", tk, nb, be(1)),
				tx(u.U[0], u.U[0], "ESDTNFTBurn", tk, nb, be(1)),
				tx(u.U[0], u.U[0], "ESDTNFTTransfer", tk, nb, be(1), u.U[1]),
				tx(u.U[0], u.U[0], "MultiESDTNFTTransfer", tkMulti(u.U[1], tk, nb, be(1))...),
			)
		}
	}
	// long fields (length prefixes of two bytes), many URIs, many entries in one multi-transfer
	long := func(b byte, n int) []byte { return bytes.Repeat([]byte{b}, n) }
	manyURIs := [][]byte{}
	for i := 0; i < 12; i++ {
		manyURIs = append(manyURIs, long(byte('a'+i), 1+i*23))
	}
	l = append(l,
		tx(u.U[0], u.U[0], "ESDTNFTCreate", append([][]byte{u.NFTs[1], be(40), long('n', 300), be(10000), long('h', 200), long('t', 700)}, manyURIs...)...), // NFTs[1] nonce 4 (populate: 1, 2; populateRich: 3)
		tx(u.U[0], u.U[0], "ESDTNFTTransfer", u.NFTs[1], be(4), be(3), u.U[1]),
		tx(u.U[0], u.U[0], "ESDTNFTTransfer", u.NFTs[1], be(4), be(4), u.U[2]),
		tx(u.U[0], u.U[0], "ESDTNFTAddURI", append([][]byte{u.NFTs[1], be(4)}, manyURIs[3:9]...)...),
		tx(u.U[0], u.U[0], "ESDTNFTUpdateAttributes", u.NFTs[1], be(4), long('A', 1000)),
		tx(u.U[0], u.U[0], "MultiESDTNFTTransfer", tkMulti(u.U[3],
			u.Fung[0], nil, be(1), u.NFTs[1], be(4), be(1), u.Fung[1], nil, be(2), u.NFTs[1], be(1), be(1), u.Fung[2], nil, be(3), u.NFTs[1], be(2), be(1),
			u.Fung[0], nil, be(4), u.NFTs[1], be(4), be(2), u.NFTs[0], be(1), be(1), u.Fung[1], nil, be(5), u.NFTs[1], be(3), be(6), u.Fung[2], nil, be(7))...),
		tx(u.U[0], u.U[0], "MultiESDTNFTTransfer", tkMulti(u.U[1],
			u.Fung[0], nil, be(1), u.NFTs[1], be(4), be(1), u.Fung[1], nil, be(2), u.NFTs[1], be(1), be(1), u.Fung[2], nil, be(3), u.NFTs[1], be(2), be(1),
			u.Fung[0], nil, be(4), u.NFTs[1], be(4), be(2), u.Fung[1], nil, be(5), u.NFTs[1], be(3), be(6), u.Fung[2], nil, be(7), []byte("fn"), []byte("arg"))...),
		tx(u.U[0], u.U[0], "SaveKeyValue", []byte("k1"), long('v', 300), []byte("key2"), nil, []byte("k3"), long('w', 5), []byte("k1"), long('x', 2), []byte("kk"), long('y', 129)),
	)
	// one cell listed twice: each quantity within the holding, the sum above it
	l = append(l,
		tx(u.U[0], u.U[0], "MultiESDTNFTTransfer", tkMulti(u.U[1], u.Fung[0], nil, be(600), u.Fung[0], nil, be(600))...),
		tx(u.U[0], u.U[0], "MultiESDTNFTTransfer", tkMulti(u.U[2], u.NFTs[1], be(1), be(30), u.NFTs[1], be(1), be(30))...),
		tx(u.U[0], u.U[0], "MultiESDTNFTTransfer", tkMulti(u.U[3], u.Fung[2], nil, be(400), u.Fung[2], nil, be(400), u.Fung[2], nil, be(400))...),
	)
	// metachain contracts other than the ESDT system contract: system-only operations and plain transfers on the destination side
	for _, m := range u.MetaSCs {
		l = append(l,
			sysAs(m, u.U[0], u.U[0], "ESDTSetRole", u.Fung[2], []byte("ESDTRoleLocalMint")),
			sysAs(m, u.U[0], u.U[0], "ESDTUnSetRole", u.Fung[0], []byte("ESDTRoleLocalMint")),
			sysAs(m, u.U[0], u.U[0], "ESDTFreeze", u.Fung[0]),
			sysAs(m, u.U[0], u.U[0], "ESDTWipe", u.Fung[0]),
			sysAs(m, u.U[0], u.SYS, "ESDTPause", u.Fung[0]),
			sysAs(m, u.U[0], u.U[0], "ESDTNFTCreateRoleTransfer", u.NFTs[0], u.U[1]),
			sysAs(m, u.U[3], u.U[3], "ESDTTransfer", u.Fung[0], be(3)),
			sysAs(m, u.K[1], u.K[1], "ESDTTransfer", u.Fung[0], be(3)),
			sysAs(m, u.K[0], u.K[0], "ESDTNFTTransfer", u.NFTs[1], be(1), be(1), validNFTPayload(1, 1, u.U[0])),
			sysAs(m, u.K[0], u.K[0], "MultiESDTNFTTransfer", be(1), u.Fung[0], []byte{0}, be(2)),
		)
	}
	// account-level functions that SUCCEED (owners and rewards exist in rich worlds): claim (async with locked gas, then direct),
	// change of owner, claim by the new owner, by the old one (refused), user name by the DNS address
	l = append(l,
		func() *worldOp {
			cs := w.mkCall(w.shardOf(u.U[2]), "ClaimDeveloperRewards", u.U[2], u.K[1], nil, bigGas)
			cs.CallType, cs.Locked = vmcommon.AsynchronousCall, 7
			return &worldOp{Kind: opTx, Call: cs}
		},
		tx(u.U[0], u.K[0], "ClaimDeveloperRewards"),
		tx(u.U[0], u.K[0], "ClaimDeveloperRewards"),
		tx(u.U[0], u.K[0], "ChangeOwnerAddress", u.U[1]),
		tx(u.U[0], u.K[0], "ClaimDeveloperRewards"),
		tx(u.U[1], u.K[0], "ClaimDeveloperRewards"),
		tx(u.U[1], u.K[0], "ChangeOwnerAddress", scAddr(0x33)), // the owner is now a contract of the same shard
		func() *worldOp {
			cs := w.mkCall(0, "ClaimDeveloperRewards", scAddr(0x33), u.K[0], nil, bigGas)
			cs.CallType, cs.Locked = vmcommon.AsynchronousCall, 3
			return &worldOp{Kind: opTx, Call: cs}
		},
		tx(scAddr(0x33), u.K[0], "ClaimDeveloperRewards"),
		tweak(tx(scAddr(0x33), u.K[0], "ClaimDeveloperRewards"), func(cs *callSpec) { cs.CallType = vmcommon.AsynchronousCallBack }),
		tx(scAddr(0x33), u.K[0], "ChangeOwnerAddress", u.U[3]), // new owner on another shard
		tx(u.U[3], u.K[0], "ClaimDeveloperRewards"),      // origin side only; the message is delivered
		tx(u.DNS, u.U[1], "SetUserName", []byte("carol.elrond")),
		tx(u.DNS, u.U[1], "SetUserName", []byte("carol2.elrond")),
		tx(u.DNS, u.U[3], "SetUserName", []byte("dave.elrond")),
	)
	// hand-over of the create role of the collection whose counter needs two bytes: across shards (message delivered), a create by
	// the new holder, hand-over back towards the other shard, creates by the old and the new holder
	l = append(l,
		sysAs(u.SC, cr, cr, "ESDTNFTCreateRoleTransfer", hi, u.U[0]),
		sysAs(u.SC, u.U[0], u.U[0], "ESDTSetRole", hi, []byte("ESDTRoleNFTAddQuantity"), []byte("ESDTRoleNFTBurn")),
		tx(u.U[0], u.U[0], "ESDTNFTCreate", hi, be(5), []byte("hi2"), be(2), []byte("hash-hi-u0"), []byte("attr"), []byte("uri")),
		tx(cr, cr, "ESDTNFTCreate", hi, be(5), []byte("hi3"), be(2), []byte("hash-hi-old"), []byte("attr"), []byte("uri")),
		sysAs(u.SC, u.U[0], u.U[0], "ESDTNFTCreateRoleTransfer", hi, u.U[3]),
		tx(u.U[3], u.U[3], "ESDTNFTCreate", hi, be(1), []byte("hi4"), be(2), []byte("hash-hi-u3"), []byte("attr"), []byte("uri")),
		tx(u.U[0], u.U[0], "ESDTNFTCreate", hi, be(1), []byte("hi5"), be(2), []byte("hash-hi-u0b"), []byte("attr"), []byte("uri")),
	)
	// ---- shapes of state and flag combinations (round 4) ----
	raeCB := func(cs *callSpec) { cs.RAE, cs.CallType = true, vmcommon.AsynchronousCallBack }
	raeDirect := func(cs *callSpec) { cs.RAE = true }
	whole := func(a, tok []byte) []byte { // the account's whole balance of a fungible token, at the time of the step
		acc := w.shards[w.shardOf(a)%uint32(w.nShards)].account(a)
		return balanceOf(acc, string(tok)).Bytes()
	}
	arrival := func(caller, rcpt []byte, fn string, args ...[]byte) func() *worldOp { // destination-side execution written by hand
		return func() *worldOp {
			sh := w.shardOf(rcpt)
			if int(sh) >= w.nShards {
				sh = 0
			}
			return &worldOp{Kind: opTx, Call: &callSpec{Shard: sh, Fn: fn, Caller: caller, Rcpt: rcpt, Args: args, Value: big.NewInt(0), Gas: bigGas,
				Snd: false, Dst: true, FailAt: -1}}
		}
	}
	fresh := userAddr(0x31) // holds nothing, lives on the default shard
	// (a) the new holder of a create role already holds that role (granted before), same shard and across shards: the counter must still move
	l = append(l,
		sysAs(u.SC, u.U[1], u.U[1], "ESDTSetRole", u.NFTs[1], []byte("ESDTRoleNFTCreate"), []byte("ESDTRoleNFTAddQuantity")),
		sysAs(u.SC, u.U[0], u.U[0], "ESDTNFTCreateRoleTransfer", u.NFTs[1], u.U[1]),
		tx(u.U[1], u.U[1], "ESDTNFTCreate", u.NFTs[1], be(2), []byte("after-handover"), be(1), []byte("hash-ah"), []byte("attr"), []byte("uri")),
		sysAs(u.SC, u.U[3], u.U[3], "ESDTSetRole", u.NFTs[1], []byte("ESDTRoleNFTAddQuantity"), []byte("ESDTRoleNFTCreate")),
		sysAs(u.SC, u.U[1], u.U[1], "ESDTNFTCreateRoleTransfer", u.NFTs[1], u.U[3]),
		tx(u.U[3], u.U[3], "ESDTNFTCreate", u.NFTs[1], be(2), []byte("after-handover-2"), be(1), []byte("hash-ah2"), []byte("attr"), []byte("uri")),
		tx(u.U[1], u.U[1], "ESDTNFTCreate", u.NFTs[1], be(1), []byte("old-holder"), be(1), []byte("hash-old"), []byte("attr"), []byte("uri")),
	)
	// (b) a frozen CONTRACT destination and a transfer that carries an attached call (the credit must still be refused), all three functions,
	//     sender side and arrival from the other shard; the same with the token paused
	l = append(l,
		sysAs(u.SC, u.K[0], u.K[0], "ESDTFreeze", u.Fung[2]),
		tx(u.U[0], u.K[0], "ESDTTransfer", u.Fung[2], be(5), []byte("fn"), []byte("a")),
		tx(u.U[0], u.U[0], "MultiESDTNFTTransfer", tkMulti(u.K[0], u.Fung[2], nil, be(5), []byte("fn"))...),
		arrival(u.U[2], u.K[0], "ESDTTransfer", u.Fung[2], be(5), []byte("fn"), []byte("a")),
		arrival(u.U[2], u.K[0], "MultiESDTNFTTransfer", be(1), u.Fung[2], []byte{0}, be(5), []byte("fn")),
		sysAs(u.SC, u.K[0], u.K[0], "ESDTUnFreeze", u.Fung[2]),
		sysAs(u.SC, u.K[0], u.SYS, "ESDTPause", u.Fung[2]),
		arrival(u.U[2], u.K[0], "ESDTTransfer", u.Fung[2], be(5), []byte("fn"), []byte("a")),
		tx(u.U[0], u.K[0], "ESDTTransfer", u.Fung[2], be(5), []byte("fn")),
		sysAs(u.SC, u.K[0], u.SYS, "ESDTUnPause", u.Fung[2]),
	)
	// (c) a frozen account spends EXACTLY its whole balance in a call flagged return-after-error (the only way it can be debited): the
	//     zero-balance entry must stay, with its flag; right after it, an account without any entry for the token receives some
	l = append(l,
		sysAs(u.SC, u.U[1], u.U[1], "ESDTFreeze", u.Fung[0]),
		func() *worldOp {
			op := tx(u.U[1], u.U[0], "ESDTTransfer", u.Fung[0], whole(u.U[1], u.Fung[0]))()
			raeCB(op.Call)
			return op
		},
		tx(u.U[0], fresh, "ESDTTransfer", u.Fung[0], be(1)),
		tx(u.U[0], u.U[1], "ESDTTransfer", u.Fung[0], be(1)), // still frozen: refused
		sysAs(u.SC, u.U[1], u.U[1], "ESDTFreeze", u.Fung[2]),
		func() *worldOp {
			op := tx(u.U[1], u.SC, "ESDTBurn", u.Fung[2], whole(u.U[1], u.Fung[2]))()
			raeDirect(op.Call)
			return op
		},
		tx(u.U[0], fresh, "ESDTTransfer", u.Fung[2], be(1)),
		tx(u.U[0], u.U[1], "ESDTTransfer", u.Fung[2], be(1)),                    // still frozen: refused
		tweak(arrival(u.U[2], u.U[1], "ESDTTransfer", u.Fung[2], be(3)), raeCB), // a refund onto the frozen zero-balance entry: accepted
		arrival(u.U[2], userAddr(0x32), "ESDTTransfer", u.Fung[2], be(1)),        // right after it: an arrival at an account without any entry
		tweak(arrival(u.U[2], u.U[1], "ESDTTransfer", u.Fung[2], be(2)), raeCB),
		arrival(u.U[2], userAddr(0x33), "MultiESDTNFTTransfer", be(1), u.Fung[2], []byte{0}, be(1)),
		tx(u.U[0], fresh, "ESDTTransfer", u.Fung[2], be(1)),
		sysAs(u.SC, u.U[1], u.U[1], "ESDTUnFreeze", u.Fung[0]),
	)
	// (d) the freeze gate on the DESTINATION's own entry when the payability check is not required: attached call, transfer-and-execute,
	//     callback, all for a fungible and an NFT entry through the multi-transfer and the two single transfers (U[1] is still frozen for Fung[2])
	for _, t := range []func(cs *callSpec){
		func(cs *callSpec) { cs.Args = append(cs.Args, []byte("fn")) },
		func(cs *callSpec) { cs.CallType = vmcommon.ESDTTransferAndExecute },
		func(cs *callSpec) { cs.CallType = vmcommon.AsynchronousCallBack },
		func(cs *callSpec) { cs.CallType = vmcommon.AsynchronousCall },
	} {
		l = append(l,
			tweak(tx(u.U[0], u.U[0], "MultiESDTNFTTransfer", tkMulti(u.U[1], u.Fung[2], nil, be(2))...), t),
			tweak(tx(u.U[0], u.U[1], "ESDTTransfer", u.Fung[2], be(2)), t),
			tweak(tx(u.U[0], u.U[0], "MultiESDTNFTTransfer", tkMulti(u.U[1], u.Fung[0], nil, be(1), u.Fung[2], nil, be(2))...), t),
		)
	}
	l = append(l, sysAs(u.SC, u.U[1], u.U[1], "ESDTUnFreeze", u.Fung[2]))
	// (e) role lists: the same role named twice in an unset, where it is the last one stored; set with duplicates; unset of everything
	rol := []byte("ROL-0a0b0c")
	l = append(l,
		sysAs(u.SC, u.U[1], u.U[1], "ESDTSetRole", u.Fung[2], []byte("ESDTRoleLocalBurn"), []byte("ESDTRoleLocalMint")),
		sysAs(u.SC, u.U[1], u.U[1], "ESDTUnSetRole", u.Fung[2], []byte("ESDTRoleLocalMint"), []byte("ESDTRoleLocalMint")),
		sysAs(u.SC, u.U[1], u.U[1], "ESDTSetRole", rol, []byte("ESDTRoleNFTCreate")),
		sysAs(u.SC, u.U[1], u.U[1], "ESDTUnSetRole", rol, []byte("ESDTRoleNFTCreate"), []byte("ESDTRoleNFTCreate")),
		sysAs(u.SC, u.U[1], u.U[1], "ESDTSetRole", rol, []byte("ESDTRoleNFTBurn"), []byte("ESDTRoleNFTBurn"), []byte("ESDTRoleNFTCreate")),
		sysAs(u.SC, u.U[1], u.U[1], "ESDTUnSetRole", rol, []byte("ESDTRoleNFTCreate"), []byte("ESDTRoleNFTBurn"), []byte("ESDTRoleNFTCreate"), []byte("x")),
	)
	// (f) freeze, then wipe, of keys of odd shapes (short identifiers, nothing or little after the last '-', an NFT key whose nonce byte is '-')
	for _, id := range [][]byte{[]byte("TKN-a1"), []byte("AB"), []byte("X-"), []byte("-"), nil, append(append([]byte{}, u.NFTs[1]...), 0x2d), append(append([]byte{}, u.HiTok...), 1)} {
		l = append(l,
			sysAs(u.SC, u.U[3], u.U[3], "ESDTFreeze", id),
			sysAs(u.SC, u.U[3], u.U[3], "ESDTWipe", id),
		)
	}
	// ---- round 5 ----
	// (g) byte-identical NFT payloads delivered to several accounts of the other shard, the first of which already holds the token
	f1, f2 := userAddr(0x41), userAddr(0x42)
	l = append(l,
		tx(u.U[0], u.U[0], "ESDTNFTTransfer", u.NFTs[1], be(4), be(2), u.U[2]),
		tx(u.U[0], u.U[0], "ESDTNFTTransfer", u.NFTs[1], be(4), be(2), f1),
		tx(u.U[0], u.U[0], "ESDTNFTTransfer", u.NFTs[1], be(4), be(2), f2),
		tx(u.U[0], u.U[0], "MultiESDTNFTTransfer", tkMulti(u.U[2], u.NFTs[1], be(1), be(1))...),
		tx(u.U[0], u.U[0], "MultiESDTNFTTransfer", tkMulti(f1, u.NFTs[1], be(1), be(1))...),
		tx(u.U[0], u.U[0], "MultiESDTNFTTransfer", tkMulti(f2, u.NFTs[1], be(1), be(1), u.NFTs[1], be(1), be(1))...),
	)
	// (h) freeze and unfreeze of ONE NFT instance (key = identifier ++ nonce) at its holder, then a transfer of it
	nftKey := append(append([]byte{}, u.NFTs[1]...), 2)
	l = append(l,
		sysAs(u.SC, u.U[0], u.U[0], "ESDTFreeze", nftKey),
		tx(u.U[0], u.U[0], "ESDTNFTTransfer", u.NFTs[1], be(2), be(1), u.U[1]), // frozen: refused
		sysAs(u.SC, u.U[0], u.U[0], "ESDTUnFreeze", nftKey),
		tx(u.U[0], u.U[0], "ESDTNFTTransfer", u.NFTs[1], be(2), be(1), u.U[1]),
		tx(u.U[0], u.U[0], "ESDTNFTAddURI", u.NFTs[1], be(2), []byte("uri-after-unfreeze")),
	)
	// (j) a call rejected AFTER it started charging, then the same function succeeds (nothing of the rejected call may be left behind)
	l = append(l,
		tx(u.U[0], u.U[0], "SaveKeyValue", []byte("k9"), []byte("v9"), []byte("ELRONDx"), []byte("v")),
		tx(u.U[0], u.U[0], "SaveKeyValue", []byte("k9"), []byte("v9")),
		tweak(tx(u.U[0], u.U[0], "SaveKeyValue", []byte("k8"), bytes.Repeat([]byte{'z'}, 200)), func(cs *callSpec) { cs.Gas = 50 }),
		tx(u.U[0], u.U[0], "SaveKeyValue", []byte("k8"), []byte("v8")),
		tweak(tx(u.U[0], u.U[0], "ESDTNFTCreate", u.NFTs[0], be(1), []byte("n"), be(1), []byte("h"), bytes.Repeat([]byte{'a'}, 300), []byte("u")), func(cs *callSpec) { cs.Gas = 60 }),
		tx(u.U[0], u.U[0], "ESDTNFTCreate", u.NFTs[0], be(1), []byte("n"), be(1), []byte("h"), []byte("a"), []byte("u")),
	)
	// (k) freeze, then wipe, of a collection identifier at the account that holds its create role and has issued nonces; then a create
	l = append(l,
		sysAs(u.SC, u.U[3], u.U[3], "ESDTFreeze", hi),
		sysAs(u.SC, u.U[3], u.U[3], "ESDTWipe", hi),
		tx(u.U[3], u.U[3], "ESDTNFTCreate", hi, be(1), []byte("after-wipe"), be(1), []byte("hash-aw"), []byte("attr"), []byte("uri")),
		sysAs(u.SC, u.U[0], u.U[0], "ESDTFreeze", u.NFTs[0]),
		sysAs(u.SC, u.U[0], u.U[0], "ESDTWipe", u.NFTs[0]),
		tx(u.U[0], u.U[0], "ESDTNFTCreate", u.NFTs[0], be(1), []byte("after-wipe"), be(1), []byte("hash-aw"), []byte("attr"), []byte("uri")),
	)
	// (l) call types that lift the payability check, WITHOUT an attached call, towards a non-payable contract of the other shard: the
	//     emitted message must carry what the destination side needs to accept it (and the same towards the payable contract)
	kn := scAddr(0x44)
	for _, ct := range []vmcommon.CallType{vmcommon.AsynchronousCallBack, vmcommon.ESDTTransferAndExecute, vmcommon.DirectCall} {
		ct := ct
		setCT := func(cs *callSpec) { cs.CallType = ct }
		l = append(l,
			tweak(tx(u.U[0], kn, "ESDTTransfer", u.Fung[0], be(2)), setCT),
			tweak(tx(u.U[0], u.U[0], "ESDTNFTTransfer", u.NFTs[1], be(1), be(1), kn), setCT),
			tweak(tx(u.U[0], u.U[0], "MultiESDTNFTTransfer", tkMulti(kn, u.Fung[0], nil, be(1), u.NFTs[1], be(1), be(1))...), setCT),
			tweak(tx(u.U[0], u.U[0], "ESDTNFTTransfer", u.NFTs[1], be(1), be(1), u.K[1]), setCT),
		)
	}
	// ---- round 6 ----
	// (m) arrivals and sender-side calls of every CALL TYPE (a contract's callback or asynchronous call moves tokens too) while the token is
	//     paused on the executing shard, then while the destination's entry is frozen: every one must be refused like a direct call
	cts := []vmcommon.CallType{vmcommon.AsynchronousCallBack, vmcommon.AsynchronousCall, vmcommon.ESDTTransferAndExecute}
	nftIn := validNFTPayload(1, 1, u.U[0])
	blockedSteps := func() []func() *worldOp {
		var b []func() *worldOp
		for _, ct := range cts {
			ct := ct
			setCT := func(cs *callSpec) { cs.CallType = ct }
			b = append(b,
				tweak(arrival(u.U[2], u.U[1], "ESDTNFTTransfer", u.NFTs[1], be(1), be(1), nftIn), setCT),
				tweak(arrival(u.U[2], u.U[1], "MultiESDTNFTTransfer", be(2), u.NFTs[1], be(1), nftIn, u.Fung[2], []byte{0}, be(2)), setCT),
				tweak(arrival(u.U[2], u.U[1], "ESDTTransfer", u.Fung[2], be(2)), setCT),
				tweak(arrival(u.U[2], u.K[0], "ESDTTransfer", u.Fung[2], be(2), []byte("fn"), []byte("a")), setCT),
				tweak(tx(u.U[0], u.U[0], "ESDTNFTTransfer", u.NFTs[1], be(1), be(1), u.U[1]), setCT),
				tweak(tx(u.U[0], u.U[1], "ESDTTransfer", u.Fung[2], be(1)), setCT),
				tweak(tx(u.U[0], u.U[0], "MultiESDTNFTTransfer", tkMulti(u.U[1], u.NFTs[1], be(1), be(1), u.Fung[2], nil, be(1))...), setCT),
			)
		}
		return b
	}
	l = append(l, sysAs(u.SC, u.U[1], u.SYS, "ESDTPause", u.Fung[2]), sysAs(u.SC, u.U[1], u.SYS, "ESDTPause", u.NFTs[1]))
	l = append(l, blockedSteps()...)
	l = append(l, sysAs(u.SC, u.U[1], u.SYS, "ESDTUnPause", u.Fung[2]), sysAs(u.SC, u.U[1], u.SYS, "ESDTUnPause", u.NFTs[1]))
	l = append(l, blockedSteps()...) // the same steps accepted: gas forwarded to an attached call under every call type (C06), messages of every call type
	l = append(l, sysAs(u.SC, u.U[1], u.U[1], "ESDTFreeze", u.Fung[2]), sysAs(u.SC, u.U[1], u.U[1], "ESDTFreeze", append(append([]byte{}, u.NFTs[1]...), 1)))
	l = append(l, blockedSteps()...)
	// (n) refunds flagged return-after-error through the MULTI transfer onto the frozen holder (fungible and NFT entry): accepted, and the
	//     flag must survive them - the ordinary transfers right after are still refused
	l = append(l,
		tweak(arrival(u.U[2], u.U[1], "MultiESDTNFTTransfer", be(1), u.Fung[2], []byte{0}, be(2)), raeCB),
		tx(u.U[0], u.U[1], "ESDTTransfer", u.Fung[2], be(1)),
		tx(u.U[1], u.U[0], "ESDTTransfer", u.Fung[2], be(1)),
		tweak(arrival(u.U[2], u.U[1], "MultiESDTNFTTransfer", be(2), u.Fung[2], []byte{0}, be(1), u.NFTs[1], be(1), nftIn), raeCB),
		tx(u.U[0], u.U[1], "ESDTTransfer", u.Fung[2], be(1)),
		tweak(arrival(u.U[2], u.U[1], "ESDTNFTTransfer", u.NFTs[1], be(1), be(1), nftIn), raeCB),
		tx(u.U[0], u.U[0], "ESDTNFTTransfer", u.NFTs[1], be(1), be(1), u.U[1]),
		tx(u.U[1], u.U[1], "ESDTNFTTransfer", u.NFTs[1], be(1), be(1), u.U[0]),
		sysAs(u.SC, u.U[1], u.U[1], "ESDTUnFreeze", u.Fung[2]),
		sysAs(u.SC, u.U[1], u.U[1], "ESDTUnFreeze", append(append([]byte{}, u.NFTs[1]...), 1)),
		tx(u.U[0], u.U[1], "ESDTTransfer", u.Fung[2], be(1)),
	)
	// (o) several tokens paused on one shard, one of them unpaused: the others stay paused; a first pause after a pause/unpause pair
	l = append(l,
		sysAs(u.SC, u.U[0], u.SYS, "ESDTPause", u.Fung[0]),
		sysAs(u.SC, u.U[0], u.SYS, "ESDTPause", u.Fung[2]),
		sysAs(u.SC, u.U[0], u.SYS, "ESDTUnPause", u.Fung[0]),
		tx(u.U[0], u.U[1], "ESDTTransfer", u.Fung[2], be(1)), // still paused: refused
		tx(u.U[0], u.U[1], "ESDTTransfer", u.Fung[0], be(1)),
		sysAs(u.SC, u.U[0], u.SYS, "ESDTPause", u.Fung[1]),
		tx(u.U[1], u.U[0], "ESDTTransfer", u.Fung[1], be(1)), // paused: refused
		sysAs(u.SC, u.U[0], u.SYS, "ESDTUnPause", u.Fung[2]),
		tx(u.U[1], u.U[0], "ESDTTransfer", u.Fung[1], be(1)), // still paused: refused
		sysAs(u.SC, u.U[0], u.SYS, "ESDTUnPause", u.Fung[1]),
		tx(u.U[1], u.U[0], "ESDTTransfer", u.Fung[1], be(1)),
	)
	// two tokens that were NEVER paused on this shard before (their flag entries are created by these calls), one unpaused again
	l = append(l,
		sysAs(u.SC, u.U[0], u.SYS, "ESDTPause", hi),
		sysAs(u.SC, u.U[0], u.SYS, "ESDTPause", u.NFTs[0]),
		sysAs(u.SC, u.U[0], u.SYS, "ESDTUnPause", hi),
		tx(u.U[0], u.U[0], "ESDTNFTTransfer", u.NFTs[0], be(1), be(1), u.U[1]), // still paused: refused
		tx(u.U[0], u.U[0], "ESDTNFTTransfer", hi, be(257), be(1), u.U[1]),
		sysAs(u.SC, u.U[0], u.SYS, "ESDTPause", []byte("NEW-a1a1a1")),
		sysAs(u.SC, u.U[0], u.SYS, "ESDTUnPause", u.NFTs[0]),
		sysAs(u.SC, u.U[0], u.SYS, "ESDTUnPause", []byte("NEW-a1a1a1")),
	)
	// (p) an account sends to ITSELF (both accounts of the call are the same object): within the balance, above it, from a contract with
	//     an attached call, while frozen
	l = append(l,
		tx(u.U[0], u.U[0], "ESDTTransfer", u.Fung[0], be(3)),
		tx(u.U[0], u.U[0], "ESDTTransfer", u.Fung[0], new(big.Int).Lsh(big.NewInt(1), 200).Bytes()),
		tx(u.K[0], u.K[0], "ESDTTransfer", u.Fung[0], new(big.Int).Lsh(big.NewInt(1), 200).Bytes(), []byte("fn")),
		tx(u.K[0], u.K[0], "ESDTTransfer", u.Fung[0], be(1), []byte("fn")),
		tx(fresh, fresh, "ESDTTransfer", u.Fung[1], be(1)),
		sysAs(u.SC, u.U[0], u.U[0], "ESDTFreeze", u.Fung[0]),
		tx(u.U[0], u.U[0], "ESDTTransfer", u.Fung[0], be(1)),
		sysAs(u.SC, u.U[0], u.U[0], "ESDTUnFreeze", u.Fung[0]),
	)
	// (q) account-level and system-only functions arriving from another shard under every call type, by callers without the authority
	for _, ct := range append([]vmcommon.CallType{vmcommon.DirectCall}, cts...) {
		ct := ct
		setCT := func(cs *callSpec) { cs.CallType = ct }
		l = append(l,
			tweak(arrival(u.U[2], userAddr(0x35), "SetUserName", []byte("mallory.elrond")), setCT), // an account without a name yet
			tweak(arrival(u.U[2], u.U[1], "SetUserName", []byte("mallory.elrond")), setCT),
			tweak(arrival(u.U[2], u.K[0], "ChangeOwnerAddress", u.U[2]), setCT),
			tweak(arrival(u.U[2], u.K[0], "ClaimDeveloperRewards"), setCT),
			tweak(arrival(u.U[2], u.U[1], "ESDTSetRole", u.Fung[0], []byte("ESDTRoleLocalMint")), setCT),
			tweak(arrival(u.U[2], u.U[1], "ESDTFreeze", u.Fung[0]), setCT),
		)
	}
	// (r) a value saved again unchanged (free of the per-byte charge), then changed; calls that carry a non-zero call value where the function
	//     forbids it, made by the caller who would otherwise be entitled
	withValue := func(cs *callSpec) { cs.Value = big.NewInt(1) }
	l = append(l,
		tx(u.U[0], u.U[0], "SaveKeyValue", []byte("k9"), []byte("v9")),
		tx(u.U[0], u.U[0], "SaveKeyValue", []byte("k9"), []byte("v9"), []byte("k8"), []byte("v8"), []byte("k7"), []byte("v7")),
		tx(u.U[0], u.U[0], "SaveKeyValue", []byte("k9"), []byte("v9x")),
		tweak(tx(u.U[3], u.K[0], "ChangeOwnerAddress", u.U[0]), withValue),
		tweak(tx(u.U[3], u.K[0], "ClaimDeveloperRewards"), withValue),
		tweak(tx(u.DNS, userAddr(0x36), "SetUserName", []byte("erin.elrond")), withValue),
		tweak(tx(u.U[0], u.U[1], "ESDTTransfer", u.Fung[0], be(1)), withValue),
		tweak(tx(u.U[0], u.U[0], "ESDTNFTTransfer", u.NFTs[1], be(1), be(1), u.U[1]), withValue),
		tweak(tx(u.U[0], u.U[0], "MultiESDTNFTTransfer", tkMulti(u.U[1], u.Fung[0], nil, be(1))...), withValue),
		tweak(tx(u.U[0], u.U[0], "ESDTLocalMint", u.Fung[0], be(1)), withValue),
		tweak(tx(u.U[0], u.U[0], "ESDTNFTCreate", u.NFTs[0], be(1), []byte("n"), be(1), []byte("h"), []byte("a"), []byte("u")), withValue),
		tweak(sysAs(u.SC, u.U[0], u.U[0], "ESDTFreeze", u.Fung[1]), withValue),
		tweak(sysAs(u.SC, u.U[0], u.SYS, "ESDTPause", u.Fung[1]), withValue),
		tx(u.U[3], u.K[0], "ChangeOwnerAddress", u.U[0]), // the same by the owner without a value: accepted (message towards shard 0)
	)
	// (s) messages that arrive with LESS gas than the function's own price (the destination side charges nothing, but computes with the
	//     gas it was given): every transfer function, to a contract with an attached call and to a user, gas 0 / 1 / 5
	for _, g := range []uint64{0, 1, 5} {
		g := g
		low := func(cs *callSpec) { cs.Gas = g }
		l = append(l,
			tweak(arrival(u.U[2], u.K[0], "ESDTTransfer", u.Fung[2], be(1), []byte("fn"), []byte("a")), low),
			tweak(arrival(u.U[2], u.U[1], "ESDTTransfer", u.Fung[2], be(1)), low),
			tweak(arrival(u.U[2], u.K[0], "ESDTNFTTransfer", u.NFTs[1], be(1), be(1), nftIn, []byte("fn")), low),
			tweak(arrival(u.U[2], u.U[1], "ESDTNFTTransfer", u.NFTs[1], be(1), be(1), nftIn), low),
			tweak(arrival(u.U[2], u.K[0], "MultiESDTNFTTransfer", be(2), u.NFTs[1], be(1), nftIn, u.Fung[2], []byte{0}, be(1), []byte("fn")), low),
			tweak(arrival(u.U[2], u.U[1], "MultiESDTNFTTransfer", be(1), u.Fung[2], []byte{0}, be(1)), low),
			tweak(tx(u.U[0], u.K[0], "ESDTTransfer", u.Fung[2], be(1), []byte("fn")), low), // sender side: refused for gas
		)
	}
	//     the same through the protocol: origin calls towards the contract and a user of the other shard whose messages are delivered with
	//     0 / 1 / 5 gas (what is left of a gas limit after the origin shard's own consumption), all three functions
	for _, g := range []uint64{0, 1, 5} {
		g := g
		dl := func(f func() *worldOp) func() *worldOp {
			return func() *worldOp { op := f(); op.DeliverGas = &g; return op }
		}
		l = append(l,
			dl(tx(u.U[0], u.K[1], "ESDTTransfer", u.Fung[0], be(1), []byte("fn"), []byte("a"))),
			dl(tx(u.U[0], u.U[2], "ESDTTransfer", u.Fung[0], be(1))),
			dl(tx(u.U[0], u.U[0], "ESDTNFTTransfer", u.NFTs[1], be(1), be(1), u.K[1], []byte("fn"))),
			dl(tx(u.U[0], u.U[0], "MultiESDTNFTTransfer", tkMulti(u.K[1], u.Fung[0], nil, be(1), u.NFTs[1], be(1), be(1), []byte("fn"))...)),
			dl(tx(u.U[0], u.U[0], "MultiESDTNFTTransfer", tkMulti(u.U[2], u.Fung[0], nil, be(1))...)),
		)
	}
	// ---- round 7 ----
	// (t) state a function object could keep between calls: a multi-transfer with many entries and then one with fewer towards the other
	//     shard; the same (token, nonce, quantity) shipped again after the sender changed the NFT's attributes and URIs; a token whose
	//     identifier is a suffix of the one moved just before, through every transfer function; a multi-transfer refused on its second entry
	//     and then an accepted one
	wtok := append([]byte("W"), u.Fung[0]...)
	l = append(l,
		tx(u.U[0], u.U[0], "MultiESDTNFTTransfer", tkMulti(u.U[2], u.Fung[0], nil, be(1), u.NFTs[1], be(1), be(1), u.Fung[2], nil, be(1), u.NFTs[1], be(4), be(1))...),
		tx(u.U[0], u.U[0], "MultiESDTNFTTransfer", tkMulti(u.U[3], u.Fung[0], nil, be(2))...),
		tx(u.U[0], u.U[0], "MultiESDTNFTTransfer", tkMulti(u.U[2], u.NFTs[1], be(4), be(1), u.Fung[0], nil, be(1))...),
		tx(u.U[0], u.U[0], "MultiESDTNFTTransfer", tkMulti(u.U[2], u.NFTs[1], be(1), be(1))...),
		tx(u.U[0], u.U[0], "ESDTNFTUpdateAttributes", u.NFTs[1], be(1), []byte("attributes-changed-between-two-shipments")),
		tx(u.U[0], u.U[0], "ESDTNFTAddURI", u.NFTs[1], be(1), []byte("uri-added-between-two-shipments")),
		tx(u.U[0], u.U[0], "MultiESDTNFTTransfer", tkMulti(u.U[2], u.NFTs[1], be(1), be(1))...),
		tx(u.U[0], u.U[0], "ESDTNFTTransfer", u.NFTs[1], be(1), be(1), u.U[2]),
		sysAs(u.SC, u.U[0], u.U[0], "ESDTTransfer", wtok, be(50)), // issue of the longer identifier
		tx(u.U[0], u.U[1], "ESDTTransfer", wtok, be(3)),
		tx(u.U[0], u.U[1], "ESDTTransfer", u.Fung[0], be(2)),
		tx(u.U[0], u.U[2], "ESDTTransfer", wtok, be(3)),
		tx(u.U[0], u.U[2], "ESDTTransfer", u.Fung[0], be(2)),
		tx(u.U[0], u.U[0], "MultiESDTNFTTransfer", tkMulti(u.U[1], wtok, nil, be(1), u.Fung[0], nil, be(1))...),
		tx(u.U[0], u.U[0], "ESDTLocalBurn", wtok, be(1)),
		tx(u.U[0], u.U[0], "ESDTLocalBurn", u.Fung[0], be(1)),
		tx(u.U[0], u.U[0], "MultiESDTNFTTransfer", tkMulti(u.U[1], u.Fung[0], nil, be(1), u.Fung[2], nil, new(big.Int).Lsh(big.NewInt(1), 220).Bytes())...), // second entry above the holding: refused
		tx(u.U[0], u.U[0], "MultiESDTNFTTransfer", tkMulti(u.U[1], u.Fung[2], nil, be(1))...),
		tx(u.U[0], u.U[0], "MultiESDTNFTTransfer", tkMulti(u.U[3], u.Fung[0], nil, be(1), u.NFTs[1], be(1), new(big.Int).Lsh(big.NewInt(1), 220).Bytes())...),
		tx(u.U[0], u.U[0], "MultiESDTNFTTransfer", tkMulti(u.U[3], u.Fung[2], nil, be(1))...),
	)
	// (u) a create whose URI list repeats an entry; the same create again (equal worlds give equal bytes)
	l = append(l,
		tx(u.U[0], u.U[0], "ESDTNFTCreate", u.NFTs[0], be(1), []byte("dup"), be(1), []byte("hash-dup"), []byte("a"), []byte("uri-x"), []byte("uri-y"), []byte("uri-x"), []byte("uri-z"), []byte("uri-y")),
		tx(u.U[0], u.U[0], "ESDTNFTCreate", u.NFTs[0], be(1), []byte("dup"), be(1), []byte("hash-dup"), []byte("a"), []byte("uri-x"), []byte("uri-y"), []byte("uri-x"), []byte("uri-z"), []byte("uri-y")),
	)
	// (v) a flagged (return-after-error) sender-side call right BEFORE an unflagged arrival on the same shard while the token is paused, and
	//     flagged sender-side calls with less gas than the price; arrivals at a contract with an attached call under every call type, all functions
	l = append(l,
		sysAs(u.SC, u.U[1], u.SYS, "ESDTPause", u.NFTs[1]),
		tweak(tx(u.U[0], u.U[0], "ESDTNFTTransfer", u.NFTs[1], be(1), be(1), u.U[1]), raeCB),
		arrival(u.U[2], u.U[1], "ESDTNFTTransfer", u.NFTs[1], be(1), be(1), nftIn),
		tweak(tx(u.U[0], u.U[0], "MultiESDTNFTTransfer", tkMulti(u.U[1], u.NFTs[1], be(1), be(1))...), raeCB),
		arrival(u.U[2], u.U[1], "MultiESDTNFTTransfer", be(1), u.NFTs[1], be(1), nftIn),
		sysAs(u.SC, u.U[1], u.SYS, "ESDTUnPause", u.NFTs[1]),
	)
	for _, g := range []uint64{0, 1, 5} {
		g := g
		l = append(l,
			tweak(tx(u.U[0], u.U[0], "ESDTNFTTransfer", u.NFTs[1], be(1), be(1), u.U[1]), func(cs *callSpec) { raeCB(cs); cs.Gas = g }),
			tweak(tx(u.U[0], u.U[0], "ESDTNFTTransfer", u.NFTs[1], be(1), be(1), u.U[2]), func(cs *callSpec) { raeDirect(cs); cs.Gas = g }),
			tweak(tx(u.U[0], u.U[0], "MultiESDTNFTTransfer", tkMulti(u.U[2], u.Fung[0], nil, be(1))...), func(cs *callSpec) { raeCB(cs); cs.Gas = g }),
			tweak(tx(u.U[0], u.U[1], "ESDTTransfer", u.Fung[0], be(1)), func(cs *callSpec) { raeCB(cs); cs.Gas = g }),
		)
	}
	for _, ct := range append([]vmcommon.CallType{vmcommon.DirectCall}, cts...) {
		ct := ct
		setCT := func(cs *callSpec) { cs.CallType = ct }
		l = append(l,
			tweak(arrival(u.U[2], u.K[0], "MultiESDTNFTTransfer", be(2), u.NFTs[1], be(1), nftIn, u.Fung[2], []byte{0}, be(1), []byte("fn"), []byte("a")), setCT),
			tweak(arrival(u.U[2], u.K[0], "ESDTNFTTransfer", u.NFTs[1], be(1), be(1), nftIn, []byte("fn"), []byte("a")), setCT),
			tweak(arrival(u.U[2], u.K[0], "MultiESDTNFTTransfer", be(1), u.Fung[2], []byte{0}, be(1), []byte("fn")), func(cs *callSpec) { setCT(cs); cs.Gas = 90000 }),
		)
	}
	// (w) quantities that are EMPTY or zero (an empty argument reads as 0): every transfer function, to a holder of the same shard, to the
	//     other shard; supply functions; then ordinary calls (whatever a zero-quantity call leaves behind in shared state shows in them)
	for _, q := range [][]byte{nil, {0}, {0, 0}} {
		l = append(l,
			tx(u.U[0], u.U[0], "ESDTNFTTransfer", u.NFTs[1], be(1), q, u.U[1]),
			tx(u.U[0], u.U[0], "ESDTNFTTransfer", u.NFTs[1], be(1), q, u.U[2]),
			tx(u.U[0], u.U[1], "ESDTTransfer", u.Fung[0], q),
			tx(u.U[0], u.U[2], "ESDTTransfer", u.Fung[0], q),
			tx(u.U[0], u.U[0], "MultiESDTNFTTransfer", tkMulti(u.U[1], u.Fung[0], nil, q, u.NFTs[1], be(1), q)...),
			tx(u.U[0], u.U[0], "MultiESDTNFTTransfer", tkMulti(u.U[2], u.NFTs[1], be(1), q)...),
			tx(u.U[0], u.U[0], "ESDTNFTAddQuantity", u.NFTs[1], be(1), q),
			tx(u.U[0], u.U[0], "ESDTNFTBurn", u.NFTs[1], be(1), q),
			tx(u.U[0], u.U[0], "ESDTLocalMint", u.Fung[0], q),
			tx(u.U[0], u.U[0], "ESDTLocalBurn", u.Fung[0], q),
			tx(u.U[0], u.U[1], "ESDTTransfer", u.Fung[0], be(1)),
			tx(u.U[0], u.U[0], "ESDTNFTTransfer", u.NFTs[1], be(1), be(1), u.U[1]),
		)
	}
	// a pause addressed to the non-canonical system-account address, a transfer of the token on that shard, the unpause
	l = append(l,
		sysAs(u.SC, u.U[0], u.SysVar, "ESDTPause", u.Fung[2]),
		tx(u.U[0], u.U[1], "ESDTTransfer", u.Fung[2], be(1)),
		tx(u.U[0], u.U[0], "ESDTLocalMint", u.Fung[2], be(1)),
		sysAs(u.SC, u.U[0], u.SysVar, "ESDTUnPause", u.Fung[2]),
		tx(u.U[0], u.U[1], "ESDTTransfer", u.Fung[2], be(1)),
	)
	return l
}

// ---- pools ----
func (c *ctx) pick(l [][]byte) []byte { return l[c.rng.Intn(len(l))] }

func (c *ctx) amount(bal uint64) []byte {
	switch c.rng.Intn(12) {
	case 0:
		return nil
	case 1:
		return []byte{0}
	case 2:
		return be(1)
	case 3:
		return be(bal)
	case 4:
		return be(bal + 1)
	case 5:
		if bal > 0 {
			return be(bal - 1)
		}
		return be(2)
	case 6:
		return be(1<<64 - 1)
	case 7:
		return new(big.Int).Lsh(big.NewInt(1), 64).Bytes()
	case 8:
		return append([]byte{0, 0}, be(uint64(1+c.rng.Intn(20)))...) // leading zeros
	case 9:
		b := bytes.Repeat([]byte{0x7f}, 100)
		if c.rng.Intn(2) == 0 {
			b = append(b, 1)
		}
		return b
	}
	return be(uint64(1 + c.rng.Intn(60)))
}

func (c *ctx) gasAround(cost uint64) uint64 {
	switch c.rng.Intn(10) {
	case 0:
		return 0
	case 1:
		if cost > 0 {
			return cost - 1
		}
		return 0
	case 2:
		return cost
	case 3:
		return cost + 1
	case 4:
		return 1 << 63
	case 5:
		return 1<<64 - 1
	case 6:
		return cost + uint64(c.rng.Intn(400))
	}
	return bigGas + uint64(c.rng.Intn(1000))
}

// residues n with 3n+c small modulo 2^64
var wrapCounts = [][]byte{
	be(0x5555555555555556), be(0x5555555555555557), be(0x5555555555555555), be(0xAAAAAAAAAAAAAAAB), be(0xAAAAAAAAAAAAAAAA),
	append([]byte{1}, be(1)...), // 9 bytes: 2^64+... truncated by Uint64()
	append([]byte{1, 0, 0, 0, 0, 0, 0, 0}, 2),
}
