package main

// Universe, world construction and operation generators shared by the ledger properties.

import (
	"bytes"
	"math/big"

	vmcommon "github.com/ElrondNetwork/elrond-vm-common"
)

func userAddr(tag byte) []byte {
	a := bytes.Repeat([]byte{tag}, 32)
	a[0] = 'u'
	return a
}
func scAddr(tag byte) []byte {
	a := make([]byte, 32)
	a[8], a[9] = 5, 0
	for i := 10; i < 32; i++ {
		a[i] = tag
	}
	return a
}

type universe struct {
	U        [][]byte // users: U[0],U[1] on shard 0, U[2],U[3] on shard 1 (when 2+ shards)
	K        [][]byte // contracts: K[0] shard 0, K[1] shard 1
	DNS      []byte
	SC, SYS  []byte
	Short    []byte // 31 bytes
	Long     []byte // 33 bytes
	MetaUser []byte // an address on the metachain
	Fung     [][]byte
	NFTs     [][]byte
	Alias    [][]byte // token ids that alias each other's keys when concatenated with a nonce
	AllRoles [][]byte
}

func newUniverse() *universe {
	u := &universe{}
	for _, t := range []byte{1, 2, 3, 4} {
		u.U = append(u.U, userAddr(t))
	}
	u.K = [][]byte{scAddr(0x11), scAddr(0x22)}
	u.DNS = userAddr(0xd0)
	u.SC = vmcommon.ESDTSCAddress
	u.SYS = vmcommon.SystemAccountAddress
	u.Short = userAddr(7)[:31]
	u.Long = append(userAddr(8), 9)
	u.MetaUser = userAddr(0xee)
	u.Fung = [][]byte{[]byte("TKA-a1b2c3"), []byte("TKB-0000ff"), []byte("LONGTOKEN-0a1b2c")} // identifiers of different lengths (a stale key buffer shows only then)
	u.NFTs = [][]byte{[]byte("NFA-112233"), []byte("SFT-445566")}
	u.Alias = [][]byte{[]byte("AB"), []byte("ABC"), []byte("ABCD"), []byte("ABC-12345"), []byte("ABC-123456")}
	for _, r := range []string{"ESDTRoleLocalMint", "ESDTRoleLocalBurn", "ESDTRoleNFTCreate", "ESDTRoleNFTAddQuantity", "ESDTRoleNFTBurn", "ESDTRoleNFTAddURI", "ESDTRoleNFTUpdateAttributes"} {
		u.AllRoles = append(u.AllRoles, []byte(r))
	}
	return u
}

// stdWorld: nShards in {1,2,3}; sysShard = shard on which the system-account ADDRESS lives as an ordinary address
func (u *universe) stdWorld(nShards int, sysShard uint32, gas map[string]map[string]uint64) *hWorld {
	w, _ := newWorld(nShards, gas)
	place := func(a []byte, s int) {
		if s >= nShards {
			s = nShards - 1
		}
		w.shardTab[string(a)] = uint32(s)
	}
	place(u.U[0], 0)
	place(u.U[1], 0)
	place(u.U[2], 1)
	place(u.U[3], 1)
	place(u.K[0], 0)
	place(u.K[1], 1)
	place(u.DNS, 0)
	place(u.Short, 0)
	place(u.Long, 1)
	w.shardTab[string(u.SC)] = metaShard
	w.shardTab[string(u.MetaUser)] = metaShard
	w.shardTab[string(u.SYS)] = sysShard
	w.shardDflt = 0
	w.dns = [][]byte{u.DNS}
	w.payTab[string(u.K[0])] = 'Y'
	w.payTab[string(u.K[1])] = 'Y'
	if err := w.build(); err != nil {
		panic(err)
	}
	return w
}

func be(n uint64) []byte { return new(big.Int).SetUint64(n).Bytes() }

// ---- setup through real calls ----
func (w *hWorld) sys(u *universe, rcpt []byte, fn string, args ...[]byte) *stepResult {
	sh := w.shardOf(rcpt)
	if fn == "ESDTPause" || fn == "ESDTUnPause" {
		sh = 0
	}
	cs := &callSpec{Shard: sh, Fn: fn, Caller: u.SC, Rcpt: rcpt, Args: args, Value: big.NewInt(0), Gas: 0, Snd: false, Dst: true, FailAt: -1}
	return w.step(&worldOp{Kind: opSys, Call: cs})
}
func (w *hWorld) sysOn(u *universe, shard uint32, rcpt []byte, fn string, args ...[]byte) *stepResult {
	cs := &callSpec{Shard: shard, Fn: fn, Caller: u.SC, Rcpt: rcpt, Args: args, Value: big.NewInt(0), Gas: 0, Snd: false, Dst: w.shardOf(rcpt) == shard || fn == "ESDTPause" || fn == "ESDTUnPause", FailAt: -1}
	return w.step(&worldOp{Kind: opSys, Call: cs})
}
func (w *hWorld) tx(caller, rcpt []byte, fn string, gas uint64, args ...[]byte) *stepResult {
	cs := w.mkCall(w.shardOf(caller), fn, caller, rcpt, args, gas)
	return w.step(&worldOp{Kind: opTx, Call: cs})
}
func mustOK(sr *stepResult, what string) {
	if sr.Skipped || sr.Res == nil || sr.Res.Status != 0 {
		msg := what + ": setup step failed"
		if sr.Res != nil {
			msg += ": " + sr.Res.PanicMsg
			if sr.Res.Err != nil {
				msg += sr.Res.Err.Error()
			}
		}
		panic(msg)
	}
}

const bigGas = uint64(1) << 40

// populate gives the standard holdings: fungible tokens issued by the system contract, roles, NFTs created by U[0] and U[2]
func (u *universe) populate(w *hWorld) {
	for _, a := range [][]byte{u.U[0], u.U[1], u.U[2], u.K[0]} {
		for _, t := range u.Fung {
			mustOK(w.sys(u, a, "ESDTTransfer", t, be(1000)), "issue")
		}
	}
	for _, holder := range [][]byte{u.U[0], u.U[2]} {
		for _, t := range append(append([][]byte{}, u.NFTs...), u.Fung...) {
			args := append([][]byte{t}, u.AllRoles...)
			mustOK(w.sys(u, holder, "ESDTSetRole", args...), "setrole")
		}
	}
	// U[0] creates NFA#1 (qty 1), SFT#1 (qty 50), SFT#2 (qty 7)
	mk := func(cr []byte, tok []byte, q uint64, name string) {
		mustOK(w.tx(cr, cr, "ESDTNFTCreate", bigGas, tok, be(q), []byte(name), be(250), []byte("hash-"+name), []byte("attr"), []byte("uri1"), []byte("uri2")), "create")
	}
	mk(u.U[0], u.NFTs[0], 1, "n1")
	mk(u.U[0], u.NFTs[1], 50, "s1")
	mk(u.U[0], u.NFTs[1], 7, "s2")
}

// ---- pools ----
func (c *ctx) pick(l [][]byte) []byte { return l[c.rng.Intn(len(l))] }

func (c *ctx) amount(bal uint64) []byte {
	switch c.rng.Intn(12) {
	case 0:
		return nil
	case 1:
		return []byte{0}
	case 2:
		return be(1)
	case 3:
		return be(bal)
	case 4:
		return be(bal + 1)
	case 5:
		if bal > 0 {
			return be(bal - 1)
		}
		return be(2)
	case 6:
		return be(1<<64 - 1)
	case 7:
		return new(big.Int).Lsh(big.NewInt(1), 64).Bytes()
	case 8:
		return append([]byte{0, 0}, be(uint64(1+c.rng.Intn(20)))...) // leading zeros
	case 9:
		b := bytes.Repeat([]byte{0x7f}, 100)
		if c.rng.Intn(2) == 0 {
			b = append(b, 1)
		}
		return b
	}
	return be(uint64(1 + c.rng.Intn(60)))
}

func (c *ctx) gasAround(cost uint64) uint64 {
	switch c.rng.Intn(10) {
	case 0:
		return 0
	case 1:
		if cost > 0 {
			return cost - 1
		}
		return 0
	case 2:
		return cost
	case 3:
		return cost + 1
	case 4:
		return 1 << 63
	case 5:
		return 1<<64 - 1
	case 6:
		return cost + uint64(c.rng.Intn(400))
	}
	return bigGas + uint64(c.rng.Intn(1000))
}

// residues n with 3n+c small modulo 2^64
var wrapCounts = [][]byte{
	be(0x5555555555555556), be(0x5555555555555557), be(0x5555555555555555), be(0xAAAAAAAAAAAAAAAB), be(0xAAAAAAAAAAAAAAAA),
	append([]byte{1}, be(1)...), // 9 bytes: 2^64+... truncated by Uint64()
	append([]byte{1, 0, 0, 0, 0, 0, 0, 0}, 2),
}
