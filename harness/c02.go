package main

// C02 — supply changes only by the stated amount; no overdraft, never negative.

import (
	"bytes"
	"fmt"
	"math/big"
	"strings"

	vmcommon "github.com/ElrondNetwork/elrond-vm-common"
)

const c02SigF4c = "F4c-create-overwrites-existing-entry"

func c02PreBalPost(w *hWorld, cs *callSpec, suf string) *big.Int {
	return c02PreBal(w.shards[cs.Shard].accounts, cs.Caller, suf)
}

func c02PreBal(pre map[string]*hAccount, addr []byte, suf string) *big.Int {
	a, ok := pre[string(addr)]
	if !ok {
		return big.NewInt(0)
	}
	return balanceOf(a, suf)
}

// monC02: exact supply effect of every executed call, overdraft, failed calls change no balance
func monC02(c *ctx, w *hWorld, pre *worldSnap, sr *stepResult, hist []string) {
	cs := sr.Call
	act := tkDiff(pre.Balances, w.allBalances())
	if sr.Res.Status != 0 {
		if len(act) != 0 {
			c.fail("monitor", "failed-call-changed-balance/"+cs.Fn, cs.Fn+": the call failed but balances changed: "+tkShowMap(act), tkReplay(sr, hist))
		}
		return
	}
	a := cs.Args
	S := cs.Shard
	exp := map[string]*big.Int{}
	amt := func(i int) *big.Int {
		if i < len(a) {
			return new(big.Int).SetBytes(a[i])
		}
		return big.NewInt(0)
	}
	overdraft := func(suf string, v *big.Int) bool {
		have := c02PreBal(sr.Res.Pre, cs.Caller, suf)
		if v.Cmp(have) > 0 {
			c.fail("monitor", "overdraft/"+cs.Fn, fmt.Sprintf("%s succeeded taking %s of key %x from an account holding %s", cs.Fn, v, suf, have), tkReplay(sr, hist))
			return true
		}
		return false
	}
	aliased := false
	class := "supply"
	if need := map[string]int{"ESDTLocalMint": 2, "ESDTNFTAddQuantity": 3, "ESDTNFTCreate": 2, "ESDTLocalBurn": 2, "ESDTBurn": 2, "ESDTNFTBurn": 3, "ESDTWipe": 1}[cs.Fn]; len(a) < need {
		c.fail("monitor", "supply/"+cs.Fn+"/accepted-too-few-arguments", fmt.Sprintf("%s succeeded with %d argument(s)", cs.Fn, len(a)), tkReplay(sr, hist))
		return
	}
	switch cs.Fn {
	case "ESDTTransfer", "ESDTNFTTransfer", "MultiESDTNFTTransfer":
		// transfers move balances (C01); here: the stated supply change of a transfer is 0 — per storage-level key the total over
		// all accounts of all shards + undelivered messages is unchanged (sender side, delivery, refund) — and no overdraft
		req, ok := tkParse(cs)
		if class := tkTransferClass(w, sr); class == "origin" || class == "deliver" || class == "refund" {
			if k, eq := totalsEqual(pre.Totals, w.totals()); !eq {
				sig := "supply/" + cs.Fn + "/total-changed-by-transfer"
				if ok && class == "origin" && tkAliased(sr.Res.Pre, cs.Caller, req.Items) {
					sig = tkSigF4b
				}
				c.fail("monitor", sig, fmt.Sprintf("%s (%s): the total supply of key %x (all accounts on all shards + undelivered messages) changed from %v to %v through a transfer", cs.Fn, class, k, pre.Totals[k], w.totals()[k]), tkReplay(sr, hist))
				return
			}
			c.count("c02/transfer-total-unchanged/" + cs.Fn + "/" + class)
		}
		if !ok || !req.Sender || !cs.Snd {
			return
		}
		want := map[string]*big.Int{}
		for _, it := range req.Items {
			tkAdd(want, it.key(), it.Qty)
		}
		for k, v := range want {
			if overdraft(k, v) {
				return
			}
		}
		c.count("c02/transfer-no-overdraft/" + cs.Fn)
		return
	case "ESDTLocalMint":
		tkAdd(exp, tkBK(S, cs.Caller, string(a[0])), amt(1))
	case "ESDTNFTAddQuantity":
		it := tkItem{Tok: a[0], Nonce: tkU64(a[1])}
		aliased = tkAliased(sr.Res.Pre, cs.Caller, []tkItem{it})
		tkAdd(exp, tkBK(S, cs.Caller, it.key()), amt(2))
	case "ESDTNFTCreate":
		var counter uint64
		if acc, ok := sr.Res.Pre[string(cs.Caller)]; ok {
			counter = tkU64(acc.storage[string(noncePrefix)+string(a[0])])
		}
		k := tkKey(a[0], counter+1)
		// "a fresh nonce": the creator's counter advances by exactly one, the returned nonce is that value, so the next create cannot
		// land on a nonce this creator has already issued
		if acc, ok := w.shards[cs.Shard].accounts[string(cs.Caller)]; ok {
			post := tkU64(acc.storage[string(noncePrefix)+string(a[0])])
			ret := uint64(0)
			if sr.Res.Out != nil && len(sr.Res.Out.ReturnData) > 0 {
				ret = tkU64(sr.Res.Out.ReturnData[0])
			}
			if post != counter+1 || ret != counter+1 {
				c.fail("monitor", "supply/ESDTNFTCreate/nonce-not-fresh",
					fmt.Sprintf("ESDTNFTCreate(%q) by %x with counter %d: returned nonce %d, stored counter afterwards %d (both must be %d): a later create re-issues an existing nonce", a[0], cs.Caller, counter, ret, post, counter+1),
					tkReplay(sr, hist))
				return
			}
		}
		had := c02PreBal(sr.Res.Pre, cs.Caller, k)
		if raw := tkRaw(sr.Res.Pre, cs.Caller, k); len(raw) > 0 {
			old := tkEntry(sr.Res.Pre, cs.Caller, k)
			if old != nil && old.TokenMetaData != nil && old.TokenMetaData.Nonce == counter+1 {
				// a copy of the SAME token and nonce (another creator of the token exists: outside the
				// single-creator discipline): the entry is replaced; recorded, not judged
				c.count("c02/create-replaces-foreign-copy(two creators)")
			} else {
				// F4c: the cell token ‖ (counter+1) belongs to ANOTHER token identifier (fungible / no metadata / other
				// metadata nonce / flag-only entry): create overwrites it without looking
				what := "an undecodable entry"
				if old != nil {
					what = fmt.Sprintf("an entry of type %d, value %v, properties %x, metadata %v", old.Type, old.Value, old.Properties, old.TokenMetaData != nil)
				}
				c.fail("monitor", c02SigF4c,
					fmt.Sprintf("ESDTNFTCreate(%q, quantity %s) by %x issued nonce %d and overwrote the cell %x that held %s: %s units destroyed, the cell now holds %s", a[0], amt(1), cs.Caller, counter+1, k, what, had, c02PreBalPost(w, cs, k)),
					tkReplay(sr, hist))
				return
			}
		}
		tkAdd(exp, tkBK(S, cs.Caller, k), new(big.Int).Sub(amt(1), had))
	case "ESDTLocalBurn", "ESDTBurn":
		if overdraft(string(a[0]), amt(1)) {
			return
		}
		tkAdd(exp, tkBK(S, cs.Caller, string(a[0])), tkNeg(amt(1)))
	case "ESDTNFTBurn":
		it := tkItem{Tok: a[0], Nonce: tkU64(a[1])}
		aliased = tkAliased(sr.Res.Pre, cs.Caller, []tkItem{it})
		if !aliased && overdraft(it.key(), amt(2)) {
			return
		}
		tkAdd(exp, tkBK(S, cs.Caller, it.key()), tkNeg(amt(2)))
	case "ESDTWipe":
		t := tkEntry(sr.Res.Pre, cs.Rcpt, string(a[0]))
		if t == nil || !tkFrozenProps(t.Properties) {
			c.fail("monitor", "supply/ESDTWipe/not-frozen", "ESDTWipe succeeded on an entry that is not frozen", tkReplay(sr, hist))
			return
		}
		tkAdd(exp, tkBK(S, cs.Rcpt, string(a[0])), tkNeg(c02PreBal(sr.Res.Pre, cs.Rcpt, string(a[0]))))
	case "ESDTNFTAddURI", "ESDTNFTUpdateAttributes":
		class = "non-supply"
		if len(a) >= 2 {
			aliased = tkAliased(sr.Res.Pre, cs.Caller, []tkItem{{Tok: a[0], Nonce: tkU64(a[1])}})
		}
	case "ESDTNFTCreateRoleTransfer":
		// no balance moves - but "a fresh nonce" of the NEXT create rests on the counter travelling with the role: at the current holder
		// (caller = system contract) a new holder on the same shard must end up with the old holder's counter; at the next holder
		// (delivery) with the counter the message carries - whatever roles it already had
		class = "non-supply"
		counterOf := func(accts map[string]*hAccount, addr []byte, tok []byte) uint64 {
			if acc, ok := accts[string(addr)]; ok {
				return tkU64(acc.storage[string(noncePrefix)+string(tok)])
			}
			return 0
		}
		if len(a) >= 2 {
			post := w.shards[S].accounts
			switch {
			case bytes.Equal(cs.Caller, vmcommon.ESDTSCAddress):
				if w.shardOf(a[1]) == S && !bytes.Equal(a[1], cs.Rcpt) {
					if was, now := counterOf(sr.Res.Pre, cs.Rcpt, a[0]), counterOf(post, a[1], a[0]); now != was {
						c.fail("monitor", "supply/ESDTNFTCreateRoleTransfer/counter-not-handed-over",
							fmt.Sprintf("hand-over of %q from %x (counter %d) to %x on the same shard: the new holder's counter is %d, its next create re-issues an existing nonce", a[0], cs.Rcpt, was, a[1], now), tkReplay(sr, hist))
						return
					}
				}
			case !cs.Snd:
				if carried, now := tkU64(a[1]), counterOf(post, cs.Rcpt, a[0]); now != carried {
					c.fail("monitor", "supply/ESDTNFTCreateRoleTransfer/counter-not-handed-over",
						fmt.Sprintf("delivery of the hand-over of %q to %x: the message carries counter %d, the new holder's counter is %d", a[0], cs.Rcpt, carried, now), tkReplay(sr, hist))
					return
				}
			}
		}
	default:
		class = "non-supply"
	}
	for k, v := range exp {
		if v.Sign() == 0 {
			delete(exp, k)
		}
	}
	k := tkFirstDiff(exp, act)
	if k == "" {
		c.count("c02/exact/" + cs.Fn)
		return
	}
	sig := class + "/" + cs.Fn
	if _, expected := exp[k]; expected {
		sig += "/wrong-amount"
	} else {
		sig += "/other-balance-changed"
	}
	if aliased {
		sig = tkSigF4b
	} else if (cs.Fn == "ESDTPause" || cs.Fn == "ESDTUnPause") && strings.HasPrefix(k, fmt.Sprintf("%d/%x/", S, vmcommon.SystemAccountAddress)) {
		sig = tkSigF8
	}
	c.fail("monitor", sig, fmt.Sprintf("%s: balance change at (shard/account/key) %s is %v, expected %v; all expected: %s; all observed: %s", cs.Fn, k, act[k], exp[k], tkShowMap(exp), tkShowMap(act)),
		tkReplay(sr, hist))
}

// monNonNeg: after every step no stored balance of the executing shard is negative, and a stored zero is a frozen fungible entry
func monNonNeg(c *ctx, w *hWorld, pre *worldSnap, sr *stepResult, hist []string) {
	sh := w.shards[sr.Call.Shard]
	for _, ak := range sortedAccts(sh.accounts) {
		acc := sh.accounts[ak]
		for _, k := range sortedKeys(acc.storage) {
			if !strings.HasPrefix(k, string(esdtPrefix)) {
				continue
			}
			t, err := decodeToken(acc.storage[k])
			if err != nil || t.Value == nil {
				continue
			}
			switch {
			case t.Value.Sign() < 0:
				c.fail("monitor", "negative-balance/"+sr.Call.Fn, fmt.Sprintf("after %s account %x stores %s under %x", sr.Call.Fn, ak, t.Value, k), tkReplay(sr, hist))
				return
			case t.Value.Sign() == 0 && !(tkIsFungibleEntry(t) && tkFrozenProps(t.Properties)):
				c.fail("monitor", "zero-balance-stored/"+sr.Call.Fn, fmt.Sprintf("after %s account %x stores a zero balance under %x that is not a frozen fungible entry", sr.Call.Fn, ak, k), tkReplay(sr, hist))
				return
			}
		}
	}
}

// ---------------------------------------------------------------------------------------------
// scenario families
// ---------------------------------------------------------------------------------------------

var c02F = []byte("SWF-0a0b0c")
var c02N = []byte("SWN-0d0e0f")

func c02Amounts(p *big.Int) [][]byte {
	one := big.NewInt(1)
	l := [][]byte{nil, {1}}
	if p.Sign() > 0 {
		l = append(l, new(big.Int).Sub(p, one).Bytes(), p.Bytes())
	}
	l = append(l, new(big.Int).Add(p, one).Bytes(), be(1<<64-1), new(big.Int).Lsh(one, 64).Bytes(), bytes.Repeat([]byte{0x7f}, 100), append(bytes.Repeat([]byte{0x7f}, 100), 1))
	var out [][]byte
	seen := map[string]bool{}
	for _, x := range l {
		if !seen[string(x)] {
			seen[string(x)] = true
			out = append(out, x)
		}
	}
	return out
}

func c02Base(c *ctx, u *universe, p *big.Int, b *tkBudget, tag string) *tkRun {
	w := u.stdWorld(2, 0, distinctGas(13, 3))
	u.populate(w)
	r := c.tkNewRun(u, w, tag, []monitor{monC02, monNonNeg}, b, false)
	r.quiet = true
	A := u.U[1]
	r.giveRoles(A, c02F)
	r.giveRoles(A, c02N)
	if p.Sign() > 0 {
		r.must(r.sys(A, "ESDTTransfer", c02F, p.Bytes()), "issue")
		r.must(r.tx(A, A, "ESDTNFTCreate", bigGas, c02N, p.Bytes(), []byte("nm"), be(5), []byte("hash"), []byte("attr"), []byte("uri")), "create")
	}
	r.quiet = false
	return r
}

func c02Sweep(c *ctx, u *universe, b *tkBudget) {
	priors := []*big.Int{big.NewInt(0), big.NewInt(1), big.NewInt(1000), new(big.Int).Add(new(big.Int).Lsh(big.NewInt(1), 64), big.NewInt(5)),
		new(big.Int).SetBytes(bytes.Repeat([]byte{0xc3}, 90))}
	A := u.U[1]
	for pi, p := range priors {
		base := c02Base(c, u, p, b, fmt.Sprintf("sweep/prior%d", pi))
		probe := func(name string, f func(r *tkRun) *stepResult) {
			r := base.fork(base.tag + "/" + name)
			sr := f(r)
			if !sr.Skipped {
				c.count(fmt.Sprintf("c02/sweep/%s/%s", strings.SplitN(name, "#", 2)[0], statusName(sr.Res.Status)))
			}
		}
		for ai, a := range c02Amounts(p) {
			a := a
			n := fmt.Sprintf("#prior%d-amount%d", pi, ai)
			probe("ESDTLocalMint"+n, func(r *tkRun) *stepResult { return r.tx(A, A, "ESDTLocalMint", bigGas, c02F, a) })
			probe("ESDTLocalBurn"+n, func(r *tkRun) *stepResult { return r.tx(A, A, "ESDTLocalBurn", bigGas, c02F, a) })
			probe("ESDTBurn"+n, func(r *tkRun) *stepResult { return r.tx(A, u.SC, "ESDTBurn", bigGas, c02F, a) })
			probe("ESDTNFTCreate"+n, func(r *tkRun) *stepResult {
				return r.tx(A, A, "ESDTNFTCreate", bigGas, c02N, a, []byte("nm"), be(5), []byte("hash"), []byte("attr"), []byte("uri"))
			})
			probe("ESDTNFTAddQuantity"+n, func(r *tkRun) *stepResult { return r.tx(A, A, "ESDTNFTAddQuantity", bigGas, c02N, be(1), a) })
			probe("ESDTNFTBurn"+n, func(r *tkRun) *stepResult { return r.tx(A, A, "ESDTNFTBurn", bigGas, c02N, be(1), a) })
			for di, dst := range [][]byte{u.U[0], u.U[2]} {
				dst := dst
				d := fmt.Sprintf("%s-dst%d", n, di)
				probe("ESDTTransfer"+d, func(r *tkRun) *stepResult { return r.tx(A, dst, "ESDTTransfer", bigGas, c02F, a) })
				probe("ESDTNFTTransfer"+d, func(r *tkRun) *stepResult { return r.tx(A, A, "ESDTNFTTransfer", bigGas, c02N, be(1), a, dst) })
				probe("MultiESDTNFTTransfer/fungible"+d, func(r *tkRun) *stepResult {
					return r.tx(A, A, "MultiESDTNFTTransfer", bigGas, tkMulti(dst, c02F, nil, a)...)
				})
				probe("MultiESDTNFTTransfer/sft"+d, func(r *tkRun) *stepResult {
					return r.tx(A, A, "MultiESDTNFTTransfer", bigGas, tkMulti(dst, c02N, be(1), a)...)
				})
				probe("MultiESDTNFTTransfer/repeat"+d, func(r *tkRun) *stepResult {
					return r.tx(A, A, "MultiESDTNFTTransfer", bigGas, tkMulti(dst, c02F, nil, a, c02N, be(1), be(1), c02F, nil, be(1))...)
				})
			}
			// non-supply functions that take a free-form argument
			probe("ESDTNFTUpdateAttributes"+n, func(r *tkRun) *stepResult { return r.tx(A, A, "ESDTNFTUpdateAttributes", bigGas, c02N, be(1), a) })
			probe("ESDTNFTAddURI"+n, func(r *tkRun) *stepResult { return r.tx(A, A, "ESDTNFTAddURI", bigGas, c02N, be(1), a) })
			probe("SaveKeyValue"+n, func(r *tkRun) *stepResult { return r.tx(A, A, "SaveKeyValue", bigGas, []byte("some-key"), a) })
			probe("SetUserName"+n, func(r *tkRun) *stepResult { return r.tx(u.DNS, A, "SetUserName", bigGas, a) })
		}
		n := fmt.Sprintf("#prior%d", pi)
		// wipe: only a frozen holding, and exactly that holding
		probe("ESDTWipe/not-frozen"+n, func(r *tkRun) *stepResult { return r.sys(A, "ESDTWipe", c02F) })
		probe("ESDTWipe/frozen"+n, func(r *tkRun) *stepResult {
			r.must(r.sys(A, "ESDTFreeze", c02F), "freeze")
			return r.sys(A, "ESDTWipe", c02F)
		})
		probe("ESDTWipe/frozen-sft-key"+n, func(r *tkRun) *stepResult {
			r.must(r.sys(A, "ESDTFreeze", []byte(tkKey(c02N, 1))), "freeze")
			return r.sys(A, "ESDTWipe", []byte(tkKey(c02N, 1)))
		})
		// the remaining non-supply functions
		probe("ESDTFreeze"+n, func(r *tkRun) *stepResult { return r.sys(A, "ESDTFreeze", c02F) })
		probe("ESDTUnFreeze"+n, func(r *tkRun) *stepResult {
			r.must(r.sys(A, "ESDTFreeze", c02F), "freeze")
			return r.sys(A, "ESDTUnFreeze", c02F)
		})
		probe("ESDTUnFreeze/never-frozen"+n, func(r *tkRun) *stepResult { return r.sys(A, "ESDTUnFreeze", c02F) })
		probe("ESDTPause"+n, func(r *tkRun) *stepResult { return r.sysOn(0, u.SYS, "ESDTPause", c02F) })
		probe("ESDTUnPause"+n, func(r *tkRun) *stepResult {
			r.must(r.sysOn(0, u.SYS, "ESDTPause", c02F), "pause")
			return r.sysOn(0, u.SYS, "ESDTUnPause", c02F)
		})
		probe("ESDTSetRole"+n, func(r *tkRun) *stepResult { return r.sys(A, "ESDTSetRole", c02F, []byte("ESDTRoleLocalMint")) })
		probe("ESDTUnSetRole"+n, func(r *tkRun) *stepResult { return r.sys(A, "ESDTUnSetRole", c02F, []byte("ESDTRoleLocalMint")) })
		probe("ESDTNFTCreateRoleTransfer"+n, func(r *tkRun) *stepResult { return r.sys(A, "ESDTNFTCreateRoleTransfer", c02N, u.U[0]) })
		probe("ChangeOwnerAddress"+n, func(r *tkRun) *stepResult {
			r.w.shards[0].account(u.K[0]).SetOwnerAddress(A)
			return r.tx(A, u.K[0], "ChangeOwnerAddress", bigGas, u.U[0])
		})
		probe("ClaimDeveloperRewards"+n, func(r *tkRun) *stepResult {
			k := r.w.shards[0].account(u.K[0])
			k.SetOwnerAddress(A)
			k.devReward = big.NewInt(77)
			return r.tx(A, u.K[0], "ClaimDeveloperRewards", bigGas)
		})
	}
}

// F8: the system-account address itself holds a token on the shard where it lives as an ordinary address
func c02PauseOverHolding(c *ctx, u *universe, b *tkBudget) {
	for vi, fn := range []string{"ESDTPause", "ESDTUnPause"} {
		w := u.stdWorld(2, 0, distinctGas(19, 3))
		u.populate(w)
		r := c.tkNewRun(u, w, "f8/"+fn, []monitor{monC02, monNonNeg}, b, false)
		r.must(r.tx(u.U[0], u.SYS, "ESDTTransfer", bigGas, u.Fung[vi], be(100)), "transfer to the system-account address")
		sr := r.sysOn(0, u.SYS, fn, u.Fung[vi])
		c.count("c02/f8/" + fn + "/" + statusName(sr.Res.Status))
		// on the other shard the system account holds nothing: pausing there must leave balances alone
		r.sysOn(1, u.SYS, fn, u.Fung[vi])
	}
}

// F4b through the supply functions: ESDTNFTAddQuantity / ESDTNFTBurn / AddURI / UpdateAttributes through an aliased key
func c02Alias(c *ctx, u *universe, b *tkBudget) {
	base := c01AliasWorld(c, u, []monitor{monC02, monNonNeg}, b)
	short, nonce := u.Alias[3], []byte{0x36, 0x44}
	for _, p := range []struct {
		fn   string
		args [][]byte
	}{
		{"ESDTNFTAddQuantity", [][]byte{short, nonce, be(5)}},
		{"ESDTNFTBurn", [][]byte{short, nonce, be(2)}},
		{"ESDTNFTAddURI", [][]byte{short, nonce, []byte("uri-x")}},
		{"ESDTNFTUpdateAttributes", [][]byte{short, nonce, []byte("attr-x")}},
		// honest calls on the real identifier
		{"ESDTNFTAddQuantity", [][]byte{u.Alias[4], {0x44}, be(5)}},
		{"ESDTNFTBurn", [][]byte{u.Alias[4], {0x44}, be(7)}},
		{"ESDTNFTBurn", [][]byte{u.Alias[4], {0x44}, be(8)}},
		// the repaired F4a shape
		{"ESDTNFTAddQuantity", [][]byte{u.Alias[0], []byte("CD"), be(5)}},
		{"ESDTNFTBurn", [][]byte{u.Alias[0], []byte("CD"), be(1)}},
	} {
		r := base.fork("alias/" + p.fn)
		if bytes.Equal(p.args[0], u.Alias[0]) {
			r.quiet = true
			r.giveRoles(u.U[0], u.Alias[0])
			r.quiet = false
		}
		sr := r.tx(u.U[0], u.U[0], p.fn, bigGas, p.args...)
		c.count(fmt.Sprintf("c02/alias/%s/%x/%s", p.fn, p.args[0], statusName(sr.Res.Status)))
	}
}

// F4c: ESDTNFTCreate writes token ‖ (counter+1) without looking: the creator holds the fungible token "TOK-a1b2c3\x0a"
// (7 units, optionally frozen) and its counter for "TOK-a1b2c3" is 9
func c02CreateOverwrite(c *ctx, u *universe, b *tkBudget) {
	w := u.stdWorld(2, 0, distinctGas(21, 3))
	u.populate(w)
	base := c.tkNewRun(u, w, "f4c", []monitor{monC02, monNonNeg}, b, false)
	A, T := u.U[1], []byte("TOK-a1b2c3")
	other := append(append([]byte(nil), T...), 0x0a)
	base.quiet = true
	base.must(base.sys(A, "ESDTTransfer", other, be(7)), "issue the fungible token TOK-a1b2c3 + 0x0a")
	base.giveRoles(A, T)
	for i := 1; i <= 8; i++ {
		base.must(base.create(A, T, 1, fmt.Sprintf("h%d", i)), "create")
	}
	base.quiet = false
	base.must(base.create(A, T, 1, "h9"), "create nonce 9 (control: fresh cell)")
	for _, variant := range []string{"plain", "frozen"} {
		r := base.fork("f4c/" + variant)
		if variant == "frozen" {
			r.must(r.sys(A, "ESDTFreeze", other), "freeze the fungible holding")
		}
		sr := r.create(A, T, 2, "h10")
		c.count("c02/f4c/" + variant + "/" + statusName(sr.Res.Status))
	}
}

// c02TransfersToHolders: transfers whose destination already holds the token (same shard, cross shard with delivery,
// refused delivery with refund): the total supply per key must not move
func c02TransfersToHolders(c *ctx, u *universe, b *tkBudget) {
	for wi := 0; wi < 2; wi++ {
		w := u.stdWorld(2, uint32(wi), distinctGas(uint64(25+wi), 3))
		u.populate(w)
		r := c.tkNewRun(u, w, fmt.Sprintf("to-holders/w%d", wi), []monitor{monC02, monNonNeg}, b, false)
		A, B, X := u.U[0], u.U[1], u.U[2]
		F, L, S := u.Fung[0], u.Fung[len(u.Fung)-1], u.NFTs[1]
		fin := func(sr *stepResult) {
			c.count("c02/to-holders/" + sr.Call.Fn + "/" + statusName(sr.Res.Status))
			for _, m := range sr.NewMsgs {
				if d := r.deliver(m); !tkOK(d) {
					r.refund(m)
				}
			}
		}
		for _, dst := range [][]byte{B, X} {
			// fungible, destination holds 1000 of each (populate)
			fin(r.tx(A, dst, "ESDTTransfer", bigGas, F, be(10)))
			fin(r.tx(A, A, "MultiESDTNFTTransfer", bigGas, tkMulti(dst, F, nil, be(10))...))
			fin(r.tx(A, A, "MultiESDTNFTTransfer", bigGas, tkMulti(dst, F, nil, be(10), L, nil, be(5), F, nil, be(5))...))
			// SFT: first transfer lands on an empty destination, the following ones on a holder
			fin(r.tx(A, A, "ESDTNFTTransfer", bigGas, S, be(1), be(5), dst))
			fin(r.tx(A, A, "ESDTNFTTransfer", bigGas, S, be(1), be(3), dst))
			fin(r.tx(A, A, "MultiESDTNFTTransfer", bigGas, tkMulti(dst, S, be(1), be(2))...))
			fin(r.tx(A, A, "MultiESDTNFTTransfer", bigGas, tkMulti(dst, S, be(1), be(2), F, nil, be(1), S, be(1), be(1), S, be(2), be(1))...))
			// and back from the holder to the original holder
			fin(r.tx(dst, dst, "MultiESDTNFTTransfer", bigGas, tkMulti(A, F, nil, be(7), S, be(1), be(4))...))
			fin(r.tx(dst, A, "ESDTTransfer", bigGas, L, be(9)))
		}
		// refused delivery (destination frozen after the origin call) and refund into a holder
		r.must(r.sysOn(1, X, "ESDTFreeze", F), "freeze")
		fin(r.tx(A, A, "MultiESDTNFTTransfer", bigGas, tkMulti(X, F, nil, be(10), S, be(1), be(1))...))
		fin(r.tx(A, X, "ESDTTransfer", bigGas, F, be(3)))
	}
}

func c02Tune(g *gen) {
	g.wSupply, g.wTransfer, g.wSystem, g.wDeliver, g.wHostile, g.wAccount = 50, 14, 14, 8, 9, 5
}

func init() {
	runners["C02"] = func(c *ctx) {
		c.stateProj = "sp_balances" // the part of the state this property's theorems speak about
		u := newUniverse()
		proj := tkProj(false, true)
		c.rep.Rule = "(1) amount sweep on clones of fresh 2-shard worlds: caller's prior holding in {absent, 1, 1000, 2^64+5, 90-byte value} (fungible token and SFT nonce 1) x amount in {0, 1, bal-1, bal, bal+1, 2^64-1, 2^64, 100-byte, 101-byte} x {ESDTLocalMint, ESDTLocalBurn, ESDTBurn, ESDTNFTCreate, ESDTNFTAddQuantity, ESDTNFTBurn, ESDTTransfer, ESDTNFTTransfer, MultiESDTNFTTransfer (fungible / SFT / repeated token; same and cross shard), UpdateAttributes, AddURI, SaveKeyValue, SetUserName}; per prior holding: ESDTWipe (frozen / not frozen / SFT key), Freeze, UnFreeze, Pause, UnPause, SetRole, UnSetRole, CreateRoleTransfer, ChangeOwnerAddress, ClaimDeveloperRewards; transfers of all three functions (fungible ids of two lengths, SFT, repeated items) to destinations that already hold the token, same shard and cross shard with delivery, refused delivery and refund; F8 world (system-account address holds a token, then ESDTPause / ESDTUnPause on that shard and on the other shard); F4c world (creator holds 7 units of the fungible token TOK-a1b2c3 followed by byte 0x0a, plain and frozen, counter of TOK-a1b2c3 at 9, then ESDTNFTCreate); F4b world (AddQuantity / NFTBurn / AddURI / UpdateAttributes through the aliased key, the honest identifier, the repaired F4a shape). " +
			"(2) random walks weighted to the supply functions. After EVERY executed call the monitor compares the change of every decoded balance of every account on every shard with the exact stated effect of the function (mint/add-quantity +v at the caller's key, create = quantity under counter+1, burns -v, wipe = minus the frozen holding, all other functions and all failed calls: nothing), checks for every executed transfer function (sender side, delivery, refund) that the total per storage-level key over all shards + undelivered messages is unchanged (the stated supply change of a transfer is 0), checks amount <= holding for every debit incl. accumulated multi-transfer items, and scans the executing shard for negative or stored-zero balances. " +
			"Every executed call is re-executed by the Coq model (projection: status + complete post-state of the shard). distinct = distinct (world state, operation)."
		c.tkBegin(proj)
		quick := !(c.thorough() || c.widen)
		budget := &tkBudget{max: 1400}
		if !quick {
			budget.max = 4000
		}
		c02PauseOverHolding(c, u, &tkBudget{max: 20})
		c02Alias(c, u, &tkBudget{max: 20})
		c02CreateOverwrite(c, u, &tkBudget{max: 10})
		c02TransfersToHolders(c, u, &tkBudget{max: 120})
		c02Sweep(c, u, budget)
		n, ops, prob, max := 8, 250, 2, 1000
		if !quick {
			n, ops, prob, max = 100, 600, 6, 10000
		}
		c.walk(u, walkOpts{Worlds: n, Ops: ops, Proj: proj, Monitors: []monitor{monC02, monNonNeg}, Tune: c02Tune, EmitProb: prob, MaxCases: max})
	}
}
