package main

// Coq printers for whole histories (Corr/World.v: hcase): initial world, operations, final world.

import (
	"fmt"
	"sort"
)

const histHeader = "From EV Require Import Base.Bytes Ledger.Types Ledger.World Corr.Exec Corr.World.\nFrom Coq.Strings Require Import String.\nLocal Open Scope string_scope.\n"

func coqOp(op *worldOp) string {
	switch op.Kind {
	case opTx, opSys:
		return fmt.Sprintf("OCall %s %s %s", cN(uint64(op.Call.Shard)), cBytes([]byte(op.Call.Fn)), coqInput(op.Call))
	case opDeliver:
		return fmt.Sprintf("ODeliver %s %s", cNat(op.ID), cN(op.Gas))
	case opRedeliver:
		return fmt.Sprintf("ORedeliver %s %s", cNat(op.ID), cN(op.Gas))
	}
	return fmt.Sprintf("ORefund %s %s", cNat(op.ID), cN(op.Gas))
}

// worldListing: one Coq listing (list (bytes * acctl)) per shard
func (c *ctx) worldListing(shards []map[string]*hAccount) []string {
	var l []string
	for _, m := range shards {
		l = append(l, c.coqAccts(m, nil))
	}
	return l
}

func shardMaps(w *hWorld, clone bool) []map[string]*hAccount {
	var l []map[string]*hAccount
	for _, sh := range w.shards {
		if clone {
			l = append(l, snapshotShard(sh))
		} else {
			l = append(l, sh.accounts)
		}
	}
	return l
}

// histRecorder remembers the start of a history (the world must have no in-flight messages then)
type histRecorder struct {
	ok  bool
	pre []map[string]*hAccount
	ops []*worldOp
}

func (c *ctx) startHistory(w *hWorld) *histRecorder {
	h := &histRecorder{ok: len(w.inflight) == 0 && w.nextID == 0 && len(w.failed) == 0}
	if h.ok {
		h.pre = shardMaps(w, true)
	}
	return h
}

func (h *histRecorder) add(op *worldOp) { h.ops = append(h.ops, op) }

// emit writes the history recorded so far as one Coq hcase (final world = w now)
func (c *ctx) emitHistory(h *histRecorder, w *hWorld, desc string) {
	if !h.ok {
		return
	}
	c.withStream("hist", histHeader, "hcase", "hmismatches cases", 12, func() {
		var ops []string
		for _, op := range h.ops {
			ops = append(ops, "("+coqOp(op)+")")
		}
		var ms []string
		for _, m := range w.inflight {
			ms = append(ms, fmt.Sprintf("{| ml_id := %s; ml_fn := %s; ml_caller := %s; ml_dest := %s; ml_args := %s; ml_sender := %s |}",
				cNat(m.ID), cBytes([]byte(m.Fn)), cBytes(m.Caller), cBytes(m.Dest), cBytesList(m.Args), cBytes(m.Sender)))
		}
		var fl []int
		for id, f := range w.failed {
			if f {
				fl = append(fl, id)
			}
		}
		sort.Ints(fl)
		var fs []string
		for _, id := range fl {
			fs = append(fs, cNat(id))
		}
		term := fmt.Sprintf("{| h_cfg := %s; h_nshards := %s; h_pre := %s; h_ops := %s; h_post := %s; h_inflight := %s; h_failed := %s |}",
			c.cfgName(w), cN(uint64(w.nShards)), cList(c.worldListing(h.pre)), cList(ops), cList(c.worldListing(shardMaps(w, false))), cList(ms), cList(fs))
		c.addCase(term, desc)
	})
}
