package main

import (
	"bytes"
	"encoding/hex"
	"fmt"
	"math/big"
	"reflect"
	"sort"

	vmcommon "github.com/ElrondNetwork/elrond-vm-common"
	"github.com/ElrondNetwork/elrond-vm-common/builtInFunctions"
)

func init() { runners["C20"] = runC20 }

func cloneXfers(l []vmcommon.OutputTransfer) []vmcommon.OutputTransfer {
	if l == nil {
		return nil
	}
	out := make([]vmcommon.OutputTransfer, len(l))
	for i, t := range l {
		out[i] = t
		if t.Value != nil {
			out[i].Value = new(big.Int).Set(t.Value)
		}
		out[i].Data = append([]byte(nil), t.Data...)
		out[i].SenderAddress = append([]byte(nil), t.SenderAddress...)
	}
	return out
}

func cloneOA(a *vmcommon.OutputAccount) *vmcommon.OutputAccount {
	b := *a
	if a.Balance != nil {
		b.Balance = new(big.Int).Set(a.Balance)
	}
	if a.BalanceDelta != nil {
		b.BalanceDelta = new(big.Int).Set(a.BalanceDelta)
	}
	if a.StorageUpdates != nil {
		b.StorageUpdates = map[string]*vmcommon.StorageUpdate{}
		for k, v := range a.StorageUpdates {
			c := *v
			c.Offset = append([]byte(nil), v.Offset...)
			c.Data = append([]byte(nil), v.Data...)
			b.StorageUpdates[k] = &c
		}
	}
	b.Address = append([]byte(nil), a.Address...)
	b.Code = append([]byte(nil), a.Code...)
	b.CodeMetadata = append([]byte(nil), a.CodeMetadata...)
	if a.CodeDeployerAddress != nil {
		b.CodeDeployerAddress = append([]byte{}, a.CodeDeployerAddress...)
	}
	b.OutputTransfers = cloneXfers(a.OutputTransfers)
	return &b
}

func cXfer(t vmcommon.OutputTransfer) string {
	v := t.Value
	if v == nil {
		v = big.NewInt(0)
	}
	return fmt.Sprintf("{| x_value := %s; x_gasLimit := %s; x_gasLocked := %s; x_data := %s; x_callType := %s; x_sender := %s |}",
		cZ(v), cN(t.GasLimit), cN(t.GasLocked), cBytes(t.Data), cN(uint64(t.CallType)), cBytes(t.SenderAddress))
}

func cOA(a *vmcommon.OutputAccount) string {
	var keys []string
	for k := range a.StorageUpdates {
		keys = append(keys, k)
	}
	sort.Strings(keys)
	var st []string
	for _, k := range keys {
		u := a.StorageUpdates[k]
		st = append(st, fmt.Sprintf("(%s, (%s, %s))", cBytes([]byte(k)), cBytes(u.Offset), cBytes(u.Data)))
	}
	var xs []string
	for _, t := range a.OutputTransfers {
		xs = append(xs, cXfer(t))
	}
	return fmt.Sprintf("{| oa_address := %s; oa_nonce := %s; oa_balance := %s; oa_delta := %s; oa_storage := %s; oa_code := %s; oa_codeMetadata := %s; oa_deployer := %s; oa_gasUsed := %s; oa_transfers := %s |}",
		cBytes(a.Address), cN(a.Nonce), cOptZ(a.Balance), cOptZ(a.BalanceDelta), cList(st), cBytes(a.Code),
		cBytes(a.CodeMetadata), cOptBytes(a.CodeDeployerAddress), cN(a.GasUsed), cList(xs))
}

func oaEqual(a, b *vmcommon.OutputAccount) bool {
	return cOA(a) == cOA(b)
}

func runC20(c *ctx) {
	c.header = "From EV Require Import Base.Bytes Helpers.Helpers Corr.C20.\nFrom Coq.Strings Require Import String.\nLocal Open Scope string_scope.\n"
	c.perFile = 1500
	c.rep.Rule = "exhaustive: all 65536 byte pairs and all inputs of length 0,1,3,4 over a 6-value byte alphabet for the code-metadata and flag codecs (direct law monitors on the implementation; every 17th pair plus all other lengths also go to the Coq model); structured addresses of length 0..40; safe-sub boundary pairs; generated pairs of independently built output accounts (nil/negative deltas, overlapping storage maps, prefix transfer lists) incl. chains of later merges. A case is non-trivial when its input bytes / account pair is distinct."
	// ---- code metadata and flags: exhaustive over byte pairs ----
	exh := 0
	stride := 97
	if c.thorough() || c.widen {
		stride = 3
	}
	for a := 0; a < 256; a++ {
		for b := 0; b < 256; b++ {
			in := []byte{byte(a), byte(b)}
			orig := append([]byte(nil), in...)
			cm := vmcommon.CodeMetadataFromBytes(in)
			tb := cm.ToBytes()
			cm2 := vmcommon.CodeMetadataFromBytes(tb)
			c.note(fmt.Sprintf("cm/%02x%02x", a, b), true)
			exh++
			if cm2 != cm || len(tb) != 2 || tb[0] != byte(a)&5 || tb[1] != byte(b)&2 ||
				cm.Upgradeable != (a&1 != 0) || cm.Readable != (a&4 != 0) || cm.Payable != (b&2 != 0) || !bytes.Equal(in, orig) {
				c.fail("monitor", "codemeta-roundtrip", fmt.Sprintf("code metadata law fails for bytes %02x %02x: from=%+v to=%x", a, b, cm, tb), map[string]string{"helper": "CodeMetadata", "input": hex.EncodeToString(orig)})
			}
			um := builtInFunctions.ESDTUserMetadataFromBytes(in)
			gm := builtInFunctions.ESDTGlobalMetadataFromBytes(in)
			ub, gb := um.ToBytes(), gm.ToBytes()
			um2, gm2 := builtInFunctions.ESDTUserMetadataFromBytes(ub), builtInFunctions.ESDTGlobalMetadataFromBytes(gb)
			if um2 != um || gm2 != gm || um.Frozen != (a&1 != 0) || gm.Paused != (a&1 != 0) ||
				!bytes.Equal(ub, []byte{byte(a) & 1, 0}) || !bytes.Equal(gb, []byte{byte(a) & 1, 0}) {
				c.fail("monitor", "esdtflags-roundtrip", fmt.Sprintf("ESDT flag law fails for bytes %02x %02x: frozen=%v paused=%v", a, b, um.Frozen, gm.Paused), map[string]string{"helper": "ESDTMetadata", "input": hex.EncodeToString(orig)})
			}
			if (a*256+b)%stride == 0 || (a < 8 && b < 8) {
				c.addCase(fmt.Sprintf("KCodeMeta %s %s %s %s %s", cBytes(in), cBool(cm.Payable), cBool(cm.Upgradeable), cBool(cm.Readable), cBytes(tb)), "CodeMetadata "+hex.EncodeToString(in))
				c.addCase(fmt.Sprintf("KFlags %s %s %s %s %s", cBytes(in), cBool(um.Frozen), cBool(gm.Paused), cBytes(ub), cBytes(gb)), "ESDTMetadata "+hex.EncodeToString(in))
			}
		}
	}
	c.count("codec/byte-pairs")
	c.rep.Dist["codec/byte-pairs"] = exh
	// other lengths 0,1,3,4 over a small alphabet
	alpha := []byte{0, 1, 2, 4, 7, 255}
	var gen func(n int, cur []byte)
	gen = func(n int, cur []byte) {
		if n == 0 {
			in := append([]byte(nil), cur...)
			cm := vmcommon.CodeMetadataFromBytes(in)
			um := builtInFunctions.ESDTUserMetadataFromBytes(in)
			gm := builtInFunctions.ESDTGlobalMetadataFromBytes(in)
			c.note("len/"+hex.EncodeToString(in), true)
			c.count("codec/other-lengths")
			if (cm != vmcommon.CodeMetadata{}) || um.Frozen || gm.Paused {
				c.fail("monitor", "other-length-not-empty", "input of length != 2 decodes to a non-empty value: "+hex.EncodeToString(in), map[string]string{"helper": "FromBytes", "input": hex.EncodeToString(in)})
			}
			c.addCase(fmt.Sprintf("KCodeMeta %s %s %s %s %s", cBytes(in), cBool(cm.Payable), cBool(cm.Upgradeable), cBool(cm.Readable), cBytes(cm.ToBytes())), "CodeMetadata "+hex.EncodeToString(in))
			c.addCase(fmt.Sprintf("KFlags %s %s %s %s %s", cBytes(in), cBool(um.Frozen), cBool(gm.Paused), cBytes(um.ToBytes()), cBytes(gm.ToBytes())), "ESDTMetadata "+hex.EncodeToString(in))
			return
		}
		for _, x := range alpha {
			gen(n-1, append(cur, x))
		}
	}
	for _, n := range []int{0, 1, 3, 4} {
		gen(n, nil)
	}
	// ---- addresses ----
	esdtSC := vmcommon.ESDTSCAddress
	sys := vmcommon.SystemAccountAddress
	var addrs [][]byte
	for l := 0; l <= 40; l++ {
		z := make([]byte, l)
		f := bytes.Repeat([]byte{255}, l)
		addrs = append(addrs, z, f)
		for _, pos := range []int{0, 7, 8, 9, 10, 11, 24, 25, 26, 29, 30, 31, l - 1} {
			if pos >= 0 && pos < l {
				x := make([]byte, l)
				x[pos] = 1
				y := bytes.Repeat([]byte{255}, l)
				y[pos] = 0
				addrs = append(addrs, x, y)
			}
		}
		if l <= 32 {
			addrs = append(addrs, append([]byte(nil), esdtSC[:l]...), append([]byte(nil), sys[:l]...))
		}
		k := append([]byte("ELROND"), bytes.Repeat([]byte{'x'}, 40)...)
		addrs = append(addrs, k[:l])
		k2 := append([]byte("ELRONd"), bytes.Repeat([]byte{'x'}, 40)...)
		addrs = append(addrs, k2[:l], bytes.ToLower(k[:l]))
		r := make([]byte, l)
		c.rng.Read(r)
		addrs = append(addrs, r)
	}
	ids := [][]byte{nil, {255}, {255, 255}, {255, 0}, {0}, {1, 255}}
	for _, a := range addrs {
		for _, id := range ids {
			var res [6]bool
			func() {
				defer func() {
					if r := recover(); r != nil {
						c.fail("panic", "address-panic", fmt.Sprintf("address classification panics on %x (id %x): %v", a, id, r), map[string]string{"helper": "address", "input": hex.EncodeToString(a), "id": hex.EncodeToString(id)})
					}
				}()
				res[0] = vmcommon.IsSystemAccountAddress(a)
				res[1] = vmcommon.IsSmartContractAddress(a)
				res[2] = vmcommon.IsEmptyAddress(a)
				res[3] = vmcommon.IsMetachainIdentifier(id)
				res[4] = vmcommon.IsSmartContractOnMetachain(id, a)
				res[5] = vmcommon.IsAllowedToSaveUnderKey(a)
			}()
			c.note(fmt.Sprintf("addr/%x/%x", a, id), true)
			c.count(fmt.Sprintf("address/len%02d", len(a)))
			// independent oracle: the documented classification rules, written out on the bytes
			allEq := func(x []byte, v byte) bool {
				for _, b := range x {
					if b != v {
						return false
					}
				}
				return true
			}
			var want [5]bool
			want[0] = len(a) >= 30 && allEq(a[:30], 255)
			want[2] = allEq(a, 0)
			want[1] = len(a) > 10 && (want[2] || allEq(a[:8], 0))
			want[3] = len(id) > 0 && allEq(id, 255)
			want[4] = len(a) > 25 && want[3] && want[1] && allEq(a[10:25], 0)
			for k, nm := range []string{"IsSystemAccountAddress", "IsSmartContractAddress", "IsEmptyAddress", "IsMetachainIdentifier", "IsSmartContractOnMetachain"} {
				if res[k] != want[k] {
					c.fail("monitor", "address-rule-"+nm, fmt.Sprintf("%s(%x, id %x) = %v, the documented rule gives %v", nm, a, id, res[k], want[k]), map[string]string{"helper": nm, "input": hex.EncodeToString(a), "id": hex.EncodeToString(id)})
				}
			}
			if res[4] && !res[1] {
				c.fail("monitor", "meta-sc-not-sc", fmt.Sprintf("metachain contract address %x is not a contract address", a), map[string]string{"helper": "address", "input": hex.EncodeToString(a)})
			}
			if res[5] == bytes.HasPrefix(a, []byte("ELROND")) {
				c.fail("monitor", "protected-prefix", fmt.Sprintf("IsAllowedToSaveUnderKey(%x) = %v", a, res[5]), map[string]string{"helper": "IsAllowedToSaveUnderKey", "input": hex.EncodeToString(a)})
			}
			c.addCase(fmt.Sprintf("KAddr %s %s %s %s %s %s %s %s", cBytes(a), cBytes(id), cBool(res[0]), cBool(res[1]), cBool(res[2]), cBool(res[3]), cBool(res[4]), cBool(res[5])),
				fmt.Sprintf("address %x id %x", a, id))
		}
	}
	if !vmcommon.IsSystemAccountAddress(sys) || vmcommon.IsSmartContractAddress(sys) || !vmcommon.IsSmartContractAddress(esdtSC) ||
		!vmcommon.IsSmartContractOnMetachain([]byte{255, 255}, esdtSC) || vmcommon.IsSystemAccountAddress(esdtSC) {
		c.fail("monitor", "documented-classification", "system account / ESDT system contract address are not classified as documented", map[string]string{"helper": "address"})
	}
	// ---- safe sub ----
	vals := []uint64{0, 1, 2, 1 << 31, 1<<32 - 1, 1 << 32, 1<<63 - 1, 1 << 63, 1<<64 - 2, 1<<64 - 1}
	for i := 0; i < 40; i++ {
		vals = append(vals, c.rng.Uint64())
	}
	for _, a := range vals {
		for _, b := range vals {
			r, err := vmcommon.SafeSubUint64(a, b)
			c.note(fmt.Sprintf("sub/%d/%d", a, b), true)
			c.count("safesub")
			if (err != nil) != (a < b) || (err == nil && r+b != a) || (err != nil && r != 0) {
				c.fail("monitor", "safesub", fmt.Sprintf("SafeSubUint64(%d,%d) = %d, %v", a, b, r, err), map[string]string{"helper": "SafeSubUint64", "a": fmt.Sprint(a), "b": fmt.Sprint(b)})
			}
			rs := "None"
			if err == nil {
				rs = "(Some " + cN(r) + ")"
			}
			c.addCase(fmt.Sprintf("KSafeSub %s %s %s", cN(a), cN(b), rs), fmt.Sprintf("SafeSubUint64 %d %d", a, b))
		}
	}
	// ---- merge ----
	nMerge := 300
	if c.thorough() {
		nMerge = 5000
	}
	for i := 0; i < nMerge; i++ {
		o := genOA(c)
		a := genOA(c)
		if c.rng.Intn(3) == 0 { // one transfer list a prefix of the other
			base := genXfers(c, 4)
			k := c.rng.Intn(len(base) + 1)
			if c.rng.Intn(2) == 0 {
				o.OutputTransfers, a.OutputTransfers = cloneXfers(base[:k]), cloneXfers(base)
			} else {
				o.OutputTransfers, a.OutputTransfers = cloneXfers(base), cloneXfers(base[:k])
			}
		}
		o0, a0 := cloneOA(o), cloneOA(a)
		if c.rng.Intn(2) == 0 && len(o.OutputTransfers) > 0 {
			// give o's transfer slice spare capacity (appends then write in place)
			sp := make([]vmcommon.OutputTransfer, len(o.OutputTransfers), len(o.OutputTransfers)+8)
			copy(sp, o.OutputTransfers)
			o.OutputTransfers = sp
		}
		o.MergeOutputAccounts(a)
		res := cloneOA(o)
		c.note("merge/"+cOA(o0)+"/"+cOA(a0), true)
		c.count("merge/pairs")
		if !oaEqual(a, a0) {
			c.fail("monitor", "merge-mutates-argument", "MergeOutputAccounts modified the account merged in", map[string]string{"helper": "MergeOutputAccounts", "o": cOA(o0), "a": cOA(a0), "a_after": cOA(a)})
		}
		// later merges into the same result must not reach a either
		for j := 0; j < 3; j++ {
			b := genOA(c)
			o.MergeOutputAccounts(b)
			c.count("merge/later")
			if !oaEqual(a, a0) {
				c.fail("monitor", "merge-mutates-argument-later", "a later merge into the same result modified an account merged in earlier", map[string]string{"helper": "MergeOutputAccounts", "o": cOA(o0), "a": cOA(a0), "a_after": cOA(a), "later": cOA(b)})
				break
			}
		}
		// direct law monitors
		d := new(big.Int)
		if o0.BalanceDelta != nil {
			d.Add(d, o0.BalanceDelta)
		}
		if a0.BalanceDelta != nil {
			d.Add(d, a0.BalanceDelta)
		}
		mx := o0.Nonce
		if a0.Nonce > mx {
			mx = a0.Nonce
		}
		wantX := cloneXfers(o0.OutputTransfers)
		if len(a0.OutputTransfers) > len(o0.OutputTransfers) {
			wantX = append(wantX, cloneXfers(a0.OutputTransfers[len(o0.OutputTransfers):])...)
		}
		okLaw := res.BalanceDelta != nil && res.BalanceDelta.Cmp(d) == 0 && res.Nonce == mx && len(res.OutputTransfers) == len(wantX)
		if okLaw {
			for k := range wantX {
				if cXfer(wantX[k]) != cXfer(res.OutputTransfers[k]) {
					okLaw = false
				}
			}
			for k, v := range a0.StorageUpdates {
				if res.StorageUpdates[k] == nil || !reflect.DeepEqual(*res.StorageUpdates[k], *v) {
					okLaw = false
				}
			}
			for k, v := range o0.StorageUpdates {
				if _, over := a0.StorageUpdates[k]; !over && (res.StorageUpdates[k] == nil || !reflect.DeepEqual(*res.StorageUpdates[k], *v)) {
					okLaw = false
				}
			}
		}
		if !okLaw {
			c.fail("monitor", "merge-law", "MergeOutputAccounts result violates delta/nonce/storage/transfer law", map[string]string{"helper": "MergeOutputAccounts", "o": cOA(o0), "a": cOA(a0), "result": cOA(res)})
		}
		c.addCase(fmt.Sprintf("KMerge %s %s %s", cOA(o0), cOA(a0), cOA(res)), "merge o="+cOA(o0)+" a="+cOA(a0))
		if i < 2 {
			c.sample(map[string]string{"merge_o": cOA(o0), "merge_a": cOA(a0), "result": cOA(res)})
		}
	}
	c.sample(map[string]string{"codemeta_input": "0502", "to_bytes": hex.EncodeToString((&vmcommon.CodeMetadata{Payable: true, Upgradeable: true, Readable: true}).ToBytes())})
	c.sample(map[string]string{"address": hex.EncodeToString(esdtSC), "is_sc": fmt.Sprint(vmcommon.IsSmartContractAddress(esdtSC))})
	c.rep.Exhaustive = false
}

func genXfers(c *ctx, max int) []vmcommon.OutputTransfer {
	n := c.rng.Intn(max + 1)
	var l []vmcommon.OutputTransfer
	for i := 0; i < n; i++ {
		d := make([]byte, c.rng.Intn(4))
		c.rng.Read(d)
		l = append(l, vmcommon.OutputTransfer{Value: big.NewInt(int64(c.rng.Intn(5))), GasLimit: uint64(c.rng.Intn(100)), GasLocked: uint64(c.rng.Intn(3)),
			Data: d, CallType: vmcommon.CallType(c.rng.Intn(4)), SenderAddress: []byte{byte(c.rng.Intn(3))}})
	}
	return l
}

// genSparseOA: an account in which only one or two fields carry a change (e.g. ONLY a higher nonce, ONLY a zero delta, ONLY an empty
// storage map, ONLY a clearing storage update): the merge must still apply that one change
func genSparseOA(c *ctx) *vmcommon.OutputAccount {
	a := &vmcommon.OutputAccount{}
	for n := 1 + c.rng.Intn(2); n > 0; n-- {
		switch c.rng.Intn(9) {
		case 0:
			a.Nonce = uint64(1 + c.rng.Intn(9))
		case 1:
			a.BalanceDelta = big.NewInt(0)
		case 2:
			a.BalanceDelta = big.NewInt(int64(c.rng.Intn(7) - 3))
		case 3:
			a.Balance = big.NewInt(int64(c.rng.Intn(3)))
		case 4:
			a.StorageUpdates = map[string]*vmcommon.StorageUpdate{}
		case 5: // a clearing update (empty data) and an update with data
			k := []byte{byte('a' + c.rng.Intn(3))}
			a.StorageUpdates = map[string]*vmcommon.StorageUpdate{string(k): {Offset: k, Data: nil}}
			if c.rng.Intn(2) == 0 {
				k2 := []byte{byte('a' + c.rng.Intn(3))}
				a.StorageUpdates[string(k2)] = &vmcommon.StorageUpdate{Offset: k2, Data: []byte{byte(c.rng.Intn(3))}}
			}
		case 6:
			a.Address = []byte{byte(1 + c.rng.Intn(3))}
		case 7:
			a.CodeMetadata = []byte{byte(c.rng.Intn(8)), byte(c.rng.Intn(4))}
		default:
			a.GasUsed = uint64(c.rng.Intn(5))
		}
	}
	return a
}

func genOA(c *ctx) *vmcommon.OutputAccount {
	if c.rng.Intn(5) == 0 {
		return genSparseOA(c)
	}
	a := &vmcommon.OutputAccount{}
	if c.rng.Intn(4) != 0 {
		a.Address = []byte{byte(1 + c.rng.Intn(3))}
	}
	a.Nonce = uint64(c.rng.Intn(4))
	switch c.rng.Intn(4) {
	case 0:
	case 1:
		a.Balance = big.NewInt(int64(c.rng.Intn(10)))
	default:
		a.Balance = new(big.Int).Lsh(big.NewInt(int64(c.rng.Intn(5)+1)), uint(c.rng.Intn(130)))
	}
	switch c.rng.Intn(5) {
	case 0:
	case 1:
		a.BalanceDelta = big.NewInt(-int64(c.rng.Intn(1000)))
	case 2:
		a.BalanceDelta = big.NewInt(0)
	default:
		a.BalanceDelta = new(big.Int).Lsh(big.NewInt(int64(c.rng.Intn(5)+1)), uint(c.rng.Intn(130)))
	}
	switch c.rng.Intn(3) {
	case 0:
	case 1:
		a.StorageUpdates = map[string]*vmcommon.StorageUpdate{}
	default:
		a.StorageUpdates = map[string]*vmcommon.StorageUpdate{}
		for i := 0; i < 1+c.rng.Intn(3); i++ {
			k := []byte{byte('a' + c.rng.Intn(3))}
			d := make([]byte, c.rng.Intn(3))
			c.rng.Read(d)
			a.StorageUpdates[string(k)] = &vmcommon.StorageUpdate{Offset: k, Data: d}
		}
	}
	if c.rng.Intn(2) == 0 {
		a.Code = []byte{1, 2, byte(c.rng.Intn(3))}
	}
	if c.rng.Intn(2) == 0 {
		a.CodeMetadata = []byte{byte(c.rng.Intn(8)), byte(c.rng.Intn(4))}
	}
	if c.rng.Intn(3) == 0 {
		a.CodeDeployerAddress = []byte{byte(c.rng.Intn(3))}
	}
	a.GasUsed = uint64(c.rng.Intn(1000))
	a.OutputTransfers = genXfers(c, 3)
	return a
}
