package main

// C07: NFT nonces are unique and strictly increasing per token; the create-role hand-over moves the
// counter together with the role.  This file also holds the scenario infrastructure (scn) shared by
// c08.go, c10.go and c11.go: step-wise execution of hand-written and generated histories through the
// node simulator with monitors, Coq case emission, history recording and replay / minimisation.

import (
	"bytes"
	"encoding/hex"
	"fmt"
	"hash/fnv"
	"math/big"
	"sort"
	"strings"

	vmcommon "github.com/ElrondNetwork/elrond-vm-common"
	"github.com/ElrondNetwork/elrond-vm-common/data/esdt"
)

// ---------------------------------------------------------------------------------------------
// shared scenario infrastructure
// ---------------------------------------------------------------------------------------------

// caseBudget bounds the number of executed calls written as Coq cases by the scenario families
type caseBudget struct{ max, used int }

func (b *caseBudget) take() bool {
	if b == nil {
		return true
	}
	if b.used >= b.max {
		return false
	}
	b.used++
	return true
}

// scn: one world driven step by step; every executed call goes to the monitors and (budget permitting)
// to the Coq case file; all operations are remembered so that the history can be replayed on a fresh world.
type scn struct {
	c        *ctx
	u        *universe
	w        *hWorld
	name     string
	variant  int
	mons     []monitor
	hist     []string
	ops      []*worldOp
	newIDs   [][]int // ids of the messages emitted by operation i
	hrec     *histRecorder
	budget   *caseBudget
	emitProb int  // emit one of every emitProb executed calls (<=1: all)
	quiet    bool // replay mode: no counts, no cases, no notes
	lite     bool // do not compute the full pre-snapshot (monitors that only need sr.Res.Pre)
}

func scnWorld(u *universe, variant int) *hWorld {
	nSh := []int{2, 3, 1, 2, 2, 3}[variant%6]
	sysShard := uint32(variant % nSh)
	return u.stdWorld(nSh, sysShard, distinctGas(uint64(10+7*(variant%5)), 3))
}

func newScn(c *ctx, u *universe, name string, variant int, mons []monitor, budget *caseBudget) *scn {
	return &scn{c: c, u: u, w: scnWorld(u, variant), name: name, variant: variant, mons: mons, budget: budget}
}

func (s *scn) record() { s.hrec = s.c.startHistory(s.w) }

func hashKey(parts ...string) string {
	h := fnv.New128a()
	for _, p := range parts {
		h.Write([]byte(p))
		h.Write([]byte{0})
	}
	return hex.EncodeToString(h.Sum(nil))
}

func (s *scn) do(op *worldOp) *stepResult {
	var pre *worldSnap
	if s.lite || s.quiet {
		pre = &worldSnap{}
	} else {
		pre = s.w.snap()
	}
	sr := s.w.step(op)
	s.hist = append(s.hist, op.String())
	s.ops = append(s.ops, op)
	var ids []int
	for _, m := range sr.NewMsgs {
		ids = append(ids, m.ID)
	}
	s.newIDs = append(s.newIDs, ids)
	if s.hrec != nil {
		s.hrec.add(op)
	}
	if sr.Skipped {
		if !s.quiet {
			s.c.count("op/skipped")
		}
		return sr
	}
	if !s.quiet {
		c := s.c
		c.count(fmt.Sprintf("call/%s/%s", sr.Call.Fn, statusName(sr.Res.Status)))
		c.count("family/" + s.name)
		c.note(hashKey(digestAccounts(sr.Res.Pre), describeCall(sr.Call)), true)
		if sr.Res.Status == 1 && sr.Res.Err != nil {
			e := sr.Res.Err.Error()
			if i := strings.Index(e, ","); i > 0 {
				e = e[:i]
			}
			if len(e) > 48 {
				e = e[:48]
			}
			c.count("error/" + e)
		}
	}
	for _, m := range s.mons {
		m(s.c, s.w, pre, sr, s.hist)
	}
	if !s.quiet && len(s.c.rep.Samples) < 5 && sr.Res.Status == 0 && len(s.ops)%7 == 3 {
		s.c.sample(map[string]string{"family": s.name, "op": op.String(), "status": statusName(sr.Res.Status)})
	}
	if !s.quiet && (s.emitProb <= 1 || s.c.rng.Intn(s.emitProb) == 0) && s.budget.take() {
		s.c.addExecCase(s.w, sr.Call, sr.Res)
	}
	return sr
}

func (s *scn) tx(caller, rcpt []byte, fn string, gas uint64, args ...[]byte) *stepResult {
	return s.do(&worldOp{Kind: opTx, Call: s.w.mkCall(s.w.shardOf(caller), fn, caller, rcpt, args, gas)})
}

// sys: a call of the ESDT system contract, executed on the shard of the recipient
func (s *scn) sys(rcpt []byte, fn string, args ...[]byte) *stepResult {
	sh := s.w.shardOf(rcpt)
	if int(sh) >= s.w.nShards {
		sh = 0
	}
	return s.sysOn(sh, rcpt, fn, args...)
}
func (s *scn) sysOn(sh uint32, rcpt []byte, fn string, args ...[]byte) *stepResult {
	cs := &callSpec{Shard: sh, Fn: fn, Caller: s.u.SC, Rcpt: rcpt, Args: args, Value: big.NewInt(0), Gas: 0, Snd: false, Dst: true, FailAt: -1}
	return s.do(&worldOp{Kind: opSys, Call: cs})
}
func (s *scn) deliver(id int) *stepResult {
	g := uint64(0)
	if m := s.w.findMsg(id); m != nil {
		g = m.GasLimit
	}
	return s.do(&worldOp{Kind: opDeliver, ID: id, Gas: g})
}
func (s *scn) redeliver(id int) *stepResult {
	g := uint64(0)
	if m := s.w.findMsg(id); m != nil {
		g = m.GasLimit
	}
	return s.do(&worldOp{Kind: opRedeliver, ID: id, Gas: g})
}
func (s *scn) refund(id int) *stepResult {
	return s.do(&worldOp{Kind: opRefund, ID: id, Gas: 0})
}

// deliverNew delivers the messages a step emitted (cross-shard continuation), in order
func (s *scn) deliverNew(sr *stepResult) []*stepResult {
	var out []*stepResult
	for _, m := range sr.NewMsgs {
		out = append(out, s.deliver(m.ID))
	}
	return out
}

func (s *scn) emitHist(desc string) {
	if s.hrec != nil && !s.quiet {
		s.c.emitHistory(s.hrec, s.w, desc)
	}
}

func srOK(sr *stepResult) bool {
	return sr != nil && !sr.Skipped && sr.Res != nil && sr.Res.Status == 0
}

// expect notes a generator-side expectation (not a property): when a scenario step that should have
// succeeded did not, the family does not reach what it is meant to reach; this is counted, never hidden.
func (s *scn) expect(sr *stepResult, what string) bool {
	if srOK(sr) {
		return true
	}
	if !s.quiet {
		s.c.count("scenario-step-not-ok/" + s.name + "/" + what)
	}
	return false
}

// replaySubset runs the kept operations of a recorded history on a fresh world; message ids are
// remapped through the operation that emitted them, deliveries of messages that no longer exist are dropped.
func (s *scn) replaySubset(keep []bool, mons []monitor) *scn {
	r := &scn{c: s.c, u: s.u, w: scnWorld(s.u, s.variant), name: s.name, variant: s.variant, mons: mons, quiet: true, lite: true}
	idmap := map[int]int{}
	for i, op := range s.ops {
		if keep != nil && !keep[i] {
			continue
		}
		op2 := *op
		if op.Kind == opDeliver || op.Kind == opRedeliver || op.Kind == opRefund {
			nid, ok := idmap[op.ID]
			if !ok {
				continue
			}
			op2.ID = nid
		}
		sr := r.do(&op2)
		for j, m := range sr.NewMsgs {
			if j < len(s.newIDs[i]) {
				idmap[s.newIDs[i][j]] = m.ID
			}
		}
	}
	return r
}

// minimise: greedy delta debugging over the recorded operations; pred(keep) says whether the failure is still there
func (s *scn) minimise(pred func(keep []bool) bool) []bool {
	n := len(s.ops)
	keep := make([]bool, n)
	for i := range keep {
		keep[i] = true
	}
	if !pred(keep) {
		return keep
	}
	for _, blk := range []int{32, 16, 8, 4, 2, 1} {
		for changed := true; changed; {
			changed = false
			for end := n; end > 0; end -= blk {
				start := end - blk
				if start < 0 {
					start = 0
				}
				var idx []int
				for i := start; i < end; i++ {
					if keep[i] {
						idx = append(idx, i)
					}
				}
				if len(idx) == 0 {
					continue
				}
				for _, i := range idx {
					keep[i] = false
				}
				if pred(keep) {
					changed = blk == 1
				} else {
					for _, i := range idx {
						keep[i] = true
					}
				}
			}
		}
	}
	return keep
}

func (s *scn) keptOps(keep []bool) []string {
	var l []string
	for i, op := range s.ops {
		if keep[i] {
			l = append(l, op.String())
		}
	}
	return l
}

// setExecStream selects the exec-level case stream (Corr/Exec.v) with a projection
func (c *ctx) setExecStream(proj string) {
	c.header = execHeader
	c.caseType = "xcase"
	c.mismatchExpr = "xmismatches (" + proj + ") cases"
	c.perFile = 250
}

// smallHistFiles makes the history stream (created lazily by emitHistory) use small files so that coqc runs them in parallel
func (c *ctx) smallHistFiles(n int) {
	c.withStream("hist", histHeader, "hcase", "hmismatches cases", n, func() {})
}

func stdReplay(sr *stepResult, hist []string) map[string]interface{} {
	return map[string]interface{}{"call": describeCall(sr.Call), "op": sr.Op.String(), "pre": digestAccounts(sr.Res.Pre), "history": histReplay(hist)}
}

// ---- decoded views ----
func counterRaw(a *hAccount, tok []byte) []byte {
	if a == nil {
		return nil
	}
	return a.storage[string(noncePrefix)+string(tok)]
}
func counterOf(a *hAccount, tok []byte) uint64 {
	return new(big.Int).SetBytes(counterRaw(a, tok)).Uint64()
}
func rolesOf(a *hAccount, tok []byte) [][]byte {
	if a == nil {
		return nil
	}
	b := a.storage[string(rolePrefix)+string(tok)]
	if len(b) == 0 {
		return nil
	}
	r := &esdt.ESDTRoles{}
	if err := r.Unmarshal(b); err != nil {
		return nil
	}
	return r.Roles
}
func roleCount(a *hAccount, tok []byte, role string) int {
	n := 0
	for _, r := range rolesOf(a, tok) {
		if string(r) == role {
			n++
		}
	}
	return n
}
func acctOf(m map[string]*hAccount, addr []byte) *hAccount { return m[string(addr)] }

func nftKey(tok []byte, nonce uint64) string {
	return string(esdtPrefix) + string(tok) + string(be(nonce))
}

// ---------------------------------------------------------------------------------------------
// C07 monitors
// ---------------------------------------------------------------------------------------------

const roleCreate = "ESDTRoleNFTCreate"
const fnCreate = "ESDTNFTCreate"
const fnHandover = "ESDTNFTCreateRoleTransfer"

type c07Fail struct {
	kind  string // monitor | panic
	class string
	fn    string
	what  string
	tok   string
}

func (f c07Fail) uniqueness() bool {
	return f.class == "nonce-reused" || f.class == "role-outside-holder" || f.class == "handover-counter"
}

type c07Tok struct {
	declared bool
	broken   string // non-empty: the history left the single-creator discipline (generator side) or was already reported
	holder   []byte // nil while the role is in transit
	transit  int
	issued   map[uint64]string
	max      uint64
}

type c07HO struct {
	tok       string
	n         uint64
	delivered int
}

type c07World struct {
	track    bool
	toks     map[string]*c07Tok
	handover map[int]*c07HO
	step     int
	redeliv  int // number of second-or-later deliveries of hand-over messages executed
}

type c07Mon struct {
	worlds map[*hWorld]*c07World
	track  bool // follow the single-creator discipline from the first ESDTSetRole (own generators); walks: false
	report func(f c07Fail, c *ctx, w *hWorld, sr *stepResult, hist []string)
}

func newC07Mon(track bool) *c07Mon {
	m := &c07Mon{worlds: map[*hWorld]*c07World{}, track: track}
	m.report = func(f c07Fail, c *ctx, w *hWorld, sr *stepResult, hist []string) {
		c.fail(f.kind, f.class+"/"+f.fn, f.what, stdReplay(sr, hist))
	}
	return m
}

func (m *c07Mon) state(w *hWorld) *c07World {
	st, ok := m.worlds[w]
	if !ok {
		st = &c07World{track: m.track, toks: map[string]*c07Tok{}, handover: map[int]*c07HO{}}
		m.worlds[w] = st
	}
	return st
}
func (st *c07World) tok(t []byte) *c07Tok {
	x, ok := st.toks[string(t)]
	if !ok {
		x = &c07Tok{transit: -1, issued: map[uint64]string{}}
		st.toks[string(t)] = x
	}
	return x
}

func containsRole(args [][]byte, role string) bool {
	for _, a := range args {
		if string(a) == role {
			return true
		}
	}
	return false
}

func (m *c07Mon) mon(c *ctx, w *hWorld, _ *worldSnap, sr *stepResult, hist []string) {
	st := m.state(w)
	st.step++
	cs, res := sr.Call, sr.Res
	fail := func(class, tok, what string) {
		m.report(c07Fail{kind: "monitor", class: class, fn: cs.Fn, what: what, tok: tok}, c, w, sr, hist)
	}
	if res.Status == 2 {
		m.report(c07Fail{kind: "panic", class: "panic", fn: cs.Fn, what: cs.Fn + " panics: " + res.PanicMsg}, c, w, sr, hist)
		return
	}
	if res.Status != 0 || res.Out == nil {
		return
	}
	pre, post := res.Pre, w.shards[cs.Shard].accounts
	switch cs.Fn {
	case fnCreate:
		m.onCreate(c, st, cs, res, pre, post, fail)
	case fnHandover:
		m.onHandover(c, w, st, sr, pre, post, fail)
	case "ESDTSetRole", "ESDTUnSetRole":
		if st.track && len(cs.Args) >= 2 && containsRole(cs.Args[1:], roleCreate) {
			t := st.tok(cs.Args[0])
			if cs.Fn == "ESDTSetRole" && !t.declared {
				t.declared, t.holder = true, append([]byte(nil), cs.Rcpt...)
				t.max = counterOf(acctOf(post, cs.Rcpt), cs.Args[0])
			} else if t.broken == "" {
				t.broken = cs.Fn + " of the create role after the first assignment"
			}
		}
	}
	if st.track {
		m.invariant(c, w, st, fail)
	}
}

func (m *c07Mon) onCreate(c *ctx, st *c07World, cs *callSpec, res *callResult, pre, post map[string]*hAccount, fail func(class, tok, what string)) {
	tok := cs.Args[0]
	prev := counterOf(acctOf(pre, cs.Caller), tok)
	if prev == 1<<64-1 {
		c.count("C07/create-at-counter-2^64-1 (wrap: excluded by the explicit hypothesis)")
		return
	}
	next := prev + 1
	c.count("C07/create-checked")
	out := res.Out
	if len(out.ReturnData) != 1 || !bytes.Equal(out.ReturnData[0], be(next)) {
		fail("create-return", string(tok), fmt.Sprintf("ESDTNFTCreate of %q by %x: counter before = %d, ReturnData = %x, expected [%x]", tok, cs.Caller, prev, out.ReturnData, be(next)))
		return
	}
	pa := acctOf(post, cs.Caller)
	if !bytes.Equal(counterRaw(pa, tok), be(next)) {
		fail("create-counter", string(tok), fmt.Sprintf("ESDTNFTCreate of %q by %x returned nonce %d but the counter under ELRONDnonce‖token is %x", tok, cs.Caller, next, counterRaw(pa, tok)))
	}
	var ent *esdt.ESDigitalToken
	if pa != nil {
		if b, ok := pa.storage[nftKey(tok, next)]; ok {
			ent, _ = decodeToken(b)
		}
	}
	q := new(big.Int).SetBytes(cs.Args[1])
	if ent == nil || ent.TokenMetaData == nil || ent.TokenMetaData.Nonce != next || ent.Value == nil || ent.Value.Cmp(q) != 0 {
		fail("create-entry", string(tok), fmt.Sprintf("ESDTNFTCreate of %q by %x returned nonce %d but no entry with that metadata nonce and quantity %s is stored under token‖nonce", tok, cs.Caller, next, q))
	}
	if !st.track {
		return
	}
	t := st.tok(tok)
	if !t.declared || t.broken != "" {
		return
	}
	c.count("C07/create-under-discipline")
	if where, dup := t.issued[next]; dup || next <= t.max {
		t.broken = "reported"
		fail("nonce-reused", string(tok), fmt.Sprintf("token %q: nonce %d issued again by %x at step %d (first issued: %s; highest nonce ever issued: %d)", tok, next, cs.Caller, st.step, where, t.max))
		return
	}
	t.issued[next] = fmt.Sprintf("step %d by %x", st.step, cs.Caller)
	if next > t.max {
		t.max = next
	}
}

func (m *c07Mon) onHandover(c *ctx, w *hWorld, st *c07World, sr *stepResult, pre, post map[string]*hAccount, fail func(class, tok, what string)) {
	cs := sr.Call
	if len(cs.Args) != 2 {
		fail("handover-arity", "", fmt.Sprintf("ESDTNFTCreateRoleTransfer succeeded with %d arguments", len(cs.Args)))
		return
	}
	tok := cs.Args[0]
	if bytes.Equal(cs.Caller, vmcommon.ESDTSCAddress) {
		// at the current owner
		old, nw := cs.Rcpt, cs.Args[1]
		p := counterOf(acctOf(pre, old), tok)
		dupRole := roleCount(acctOf(pre, old), tok, roleCreate) > 1
		sameAcct := bytes.Equal(old, nw)
		local := w.shardOf(nw) == cs.Shard
		c.count(fmt.Sprintf("C07/handover/current-owner/same-shard=%v", local))
		if !sameAcct {
			if len(counterRaw(acctOf(post, old), tok)) != 0 {
				fail("handover-old-holder", string(tok), fmt.Sprintf("after the hand-over of %q the old holder %x still has the counter %x", tok, old, counterRaw(acctOf(post, old), tok)))
			}
			if dupRole {
				c.count("C07/handover/old-holder-had-duplicate-role-entries (outside the set-once discipline, role check skipped)")
			} else if roleCount(acctOf(post, old), tok, roleCreate) != 0 {
				fail("handover-old-holder", string(tok), fmt.Sprintf("after the hand-over of %q the old holder %x still has the create role", tok, old))
			}
		}
		if local {
			na := acctOf(post, nw)
			if counterOf(na, tok) != p || (p == 0) != (len(counterRaw(na, tok)) == 0) {
				fail("handover-new-holder", string(tok), fmt.Sprintf("same-shard hand-over of %q: old holder's counter was %d, new holder %x has %x", tok, p, nw, counterRaw(na, tok)))
			}
			if roleCount(na, tok, roleCreate) == 0 {
				fail("handover-new-holder", string(tok), fmt.Sprintf("same-shard hand-over of %q: new holder %x does not have the create role", tok, nw))
			}
		}
		// the message
		want := fnHandover + "@" + hex.EncodeToString(tok) + "@" + hex.EncodeToString(be(p))
		got, n := "", 0
		for _, oa := range sr.Res.Out.OutputAccounts {
			for _, t := range oa.OutputTransfers {
				n++
				got = string(t.Data)
				if !bytes.Equal(oa.Address, nw) {
					got = "(addressed to " + hex.EncodeToString(oa.Address) + ") " + got
				}
			}
		}
		if n != 1 || got != want {
			fail("handover-message", string(tok), fmt.Sprintf("hand-over of %q with counter %d emits %d transfers, data %q, expected %q to the new holder", tok, p, n, got, want))
		}
		if !local && int(w.shardOf(nw)) < w.nShards {
			if len(sr.NewMsgs) != 1 || sr.NewMsgs[0].Fn != fnHandover || len(sr.NewMsgs[0].Args) != 2 || !bytes.Equal(sr.NewMsgs[0].Args[0], tok) || !bytes.Equal(sr.NewMsgs[0].Args[1], be(p)) {
				fail("handover-message", string(tok), fmt.Sprintf("cross-shard hand-over of %q: no in-flight message (token, counter %d) to %x", tok, p, nw))
			}
		}
		for _, mm := range sr.NewMsgs {
			if mm.Fn == fnHandover {
				st.handover[mm.ID] = &c07HO{tok: string(tok), n: p}
			}
		}
		if st.track {
			t := st.tok(tok)
			if t.declared && t.broken == "" {
				switch {
				case t.holder == nil || !bytes.Equal(t.holder, old):
					t.broken = "hand-over requested at an account that is not the current holder"
				case local:
					t.holder = append([]byte(nil), nw...)
				default:
					t.holder, t.transit = nil, -2
					if len(sr.NewMsgs) == 1 {
						t.transit = sr.NewMsgs[0].ID
					}
				}
			}
		}
		return
	}
	// at the next owner: a delivered hand-over message
	n := new(big.Int).SetBytes(cs.Args[1]).Uint64()
	na := acctOf(post, cs.Rcpt)
	c.count("C07/handover/next-owner/" + []string{"tx", "sys", "deliver", "redeliver", "refund"}[sr.Op.Kind])
	// the counter after a delivery is the shipped one; an implementation that keeps a higher counter the account already
	// has (a repeated delivery after creates) also continues after the highest nonce: both are accepted here, the regression
	// of F9 shows up as a re-issued nonce
	had := counterOf(acctOf(pre, cs.Rcpt), tok)
	got := counterOf(na, tok)
	if !(got == n || (had > n && got == had)) || (got == 0) != (len(counterRaw(na, tok)) == 0) || roleCount(na, tok, roleCreate) == 0 {
		fail("handover-delivery", string(tok), fmt.Sprintf("delivered hand-over of %q with counter %d: new holder %x had counter %d, now has %x, create role %v", tok, n, cs.Rcpt, had, counterRaw(na, tok), roleCount(na, tok, roleCreate) > 0))
	}
	// re-delivery with no create in between (counter still as shipped, role still there) changes nothing
	pa := acctOf(pre, cs.Rcpt)
	if pa != nil && counterOf(pa, tok) == n && roleCount(pa, tok, roleCreate) > 0 {
		c.count("C07/redelivery-without-create-in-between")
		if a, b := c07Digest(pre), c07Digest(post); a != b {
			fail("redelivery-not-idempotent", string(tok), fmt.Sprintf("delivering the hand-over of %q (counter %d) to %x again with no create in between changed the state", tok, n, cs.Rcpt))
		}
	}
	ho := st.handover[sr.Op.ID]
	isDelivery := (sr.Op.Kind == opDeliver || sr.Op.Kind == opRedeliver) && ho != nil
	if isDelivery {
		ho.delivered++
		if ho.delivered > 1 {
			st.redeliv++
			c.count("C07/handover/delivered-again")
		}
	}
	if st.track {
		t := st.tok(tok)
		if t.declared && t.broken == "" {
			switch {
			case !isDelivery:
				t.broken = "hand-over continuation executed without an in-flight message"
			case ho.delivered == 1 && t.transit == sr.Op.ID:
				t.holder, t.transit = append([]byte(nil), cs.Rcpt...), -1
				if n != t.max {
					t.broken = "reported"
					fail("handover-counter", string(tok), fmt.Sprintf("first delivery of the hand-over of %q ships counter %d but the highest nonce ever issued is %d", tok, n, t.max))
				}
			}
		}
	}
}

// c07Digest: digest of a shard that ignores empty account objects (LoadAccount creates them on first touch)
func c07Digest(m map[string]*hAccount) string {
	mm := map[string]*hAccount{}
	for k, a := range m {
		if len(a.storage) == 0 && a.balance.Sign() == 0 && len(a.owner) == 0 && len(a.username) == 0 && a.devReward.Sign() == 0 {
			continue
		}
		mm[k] = a
	}
	return digestAccounts(mm)
}

// invariant under single-creator discipline and at-most-once delivery: the create role and a non-zero counter
// of a token live only at its tracked holder (nowhere while the role is in transit)
func (m *c07Mon) invariant(c *ctx, w *hWorld, st *c07World, fail func(class, tok, what string)) {
	var names []string
	for k, t := range st.toks {
		if t.declared && t.broken == "" {
			names = append(names, k)
		}
	}
	sort.Strings(names)
	for _, k := range names {
		t := st.toks[k]
		tok := []byte(k)
		for _, sh := range w.shards {
			for _, ak := range sortedAccts(sh.accounts) {
				a := sh.accounts[ak]
				isHolder := t.holder != nil && bytes.Equal(a.addr, t.holder)
				if isHolder {
					continue
				}
				if roleCount(a, tok, roleCreate) > 0 || len(counterRaw(a, tok)) != 0 {
					t.broken = "reported"
					holder := "in transit"
					if t.holder != nil {
						holder = hex.EncodeToString(t.holder)
					}
					fail("role-outside-holder", k, fmt.Sprintf("token %q: account %x has create role = %v and counter %x but the role was handed to %s (single creator broken by the implementation)", k, a.addr, roleCount(a, tok, roleCreate) > 0, counterRaw(a, tok), holder))
					break
				}
			}
			if t.broken != "" {
				break
			}
		}
	}
}

// ---------------------------------------------------------------------------------------------
// C07 scenario driver: classification of uniqueness failures (F9) by minimisation
// ---------------------------------------------------------------------------------------------

type c07Run struct {
	c         *ctx
	u         *universe
	budget    *caseBudget
	minimised int
	f9        int
}

const sigF9 = "F9-handover-redelivery"

// attach wires a tracking monitor to a scenario; uniqueness failures are minimised and classified
func (r *c07Run) attach(s *scn) *c07Mon {
	m := newC07Mon(true)
	s.mons = []monitor{m.mon}
	m.report = func(f c07Fail, c *ctx, w *hWorld, sr *stepResult, hist []string) {
		if !f.uniqueness() {
			c.fail(f.kind, f.class+"/"+f.fn, f.what, stdReplay(sr, hist))
			return
		}
		// does a replay still show a uniqueness failure for this token?
		pred := func(keep []bool) bool {
			found := false
			pm := newC07Mon(true)
			pm.report = func(g c07Fail, _ *ctx, _ *hWorld, _ *stepResult, _ []string) {
				if g.uniqueness() && g.tok == f.tok {
					found = true
				}
			}
			s.replaySubset(keep, []monitor{pm.mon})
			return found
		}
		rep := stdReplay(sr, hist)
		needsRedelivery := false
		if r.minimised < 3 {
			r.minimised++
			keep := s.minimise(pred)
			// replay the minimal history once more to see whether it contains a second delivery of a hand-over message
			pm := newC07Mon(true)
			pm.report = func(c07Fail, *ctx, *hWorld, *stepResult, []string) {}
			rr := s.replaySubset(keep, []monitor{pm.mon})
			needsRedelivery = pm.state(rr.w).redeliv > 0
			rep["minimal_history"] = rr.hist
			rep["minimal_length"] = len(rr.hist)
		} else {
			// quick classification: the failure disappears when every second-or-later delivery of a hand-over message is removed
			keep := make([]bool, len(s.ops))
			seen := map[int]bool{}
			st := m.state(s.w)
			for i, op := range s.ops {
				keep[i] = true
				if (op.Kind == opDeliver || op.Kind == opRedeliver) && st.handover[op.ID] != nil {
					if seen[op.ID] {
						keep[i] = false
					}
					seen[op.ID] = true
				}
			}
			needsRedelivery = !pred(keep)
			rep["classification"] = "the failure disappears when every repeated delivery of a hand-over message is removed from the history"
		}
		if needsRedelivery {
			r.f9++
			c.count("known/" + sigF9 + "/" + s.name)
			if r.f9 <= 4 {
				c.fail("monitor", sigF9, f.what, rep)
			}
			return
		}
		c.fail("monitor", f.class+"/"+f.fn, f.what, rep)
	}
	return m
}

func (r *c07Run) newScn(name string, variant int) *scn {
	s, _ := r.newScnMon(name, variant)
	return s
}
func (r *c07Run) newScnMon(name string, variant int) (*scn, *c07Mon) {
	s := newScn(r.c, r.u, name, variant, nil, r.budget)
	m := r.attach(s)
	s.record()
	return s, m
}

// ---- building blocks ----
var c07AllRoles = []string{"ESDTRoleLocalMint", "ESDTRoleLocalBurn", "ESDTRoleNFTCreate", "ESDTRoleNFTAddQuantity", "ESDTRoleNFTBurn", "ESDTRoleNFTAddURI", "ESDTRoleNFTUpdateAttributes"}

func roleArgs(tok []byte, roles ...string) [][]byte {
	a := [][]byte{tok}
	for _, r := range roles {
		a = append(a, []byte(r))
	}
	return a
}

func (s *scn) grantAll(holder, tok []byte) *stepResult {
	return s.sys(holder, "ESDTSetRole", roleArgs(tok, c07AllRoles...)...)
}

func createArgs(tok []byte, q uint64, name string, uris ...string) [][]byte {
	a := [][]byte{tok, be(q), []byte(name), be(250), []byte("hash-" + name), []byte("attr-" + name)}
	if len(uris) == 0 {
		uris = []string{"uri"}
	}
	for _, x := range uris {
		a = append(a, []byte(x))
	}
	return a
}

func (s *scn) create(who, tok []byte, q uint64, name string) *stepResult {
	return s.tx(who, who, fnCreate, bigGas, createArgs(tok, q, name)...)
}

// returned nonce of a successful create (0 otherwise)
func createdNonce(sr *stepResult) uint64 {
	if !srOK(sr) || len(sr.Res.Out.ReturnData) != 1 {
		return 0
	}
	return new(big.Int).SetBytes(sr.Res.Out.ReturnData[0]).Uint64()
}

func (s *scn) handover(from, to, tok []byte) *stepResult {
	return s.sys(from, fnHandover, tok, to)
}

// other: an account on another shard than a (when the world has one), else another account on the same shard
func (s *scn) other(a []byte, k int) []byte {
	u := s.u
	pool := [][]byte{u.U[0], u.U[2], u.U[1], u.U[3], u.K[0], u.K[1]}
	var cross, same [][]byte
	for _, p := range pool {
		if bytes.Equal(p, a) {
			continue
		}
		if s.w.shardOf(p) != s.w.shardOf(a) {
			cross = append(cross, p)
		} else {
			same = append(same, p)
		}
	}
	if len(cross) > 0 {
		return cross[k%len(cross)]
	}
	return same[k%len(same)]
}
func (s *scn) sameShard(a []byte, k int) []byte {
	u := s.u
	var same [][]byte
	for _, p := range [][]byte{u.U[0], u.U[1], u.U[2], u.U[3], u.K[0], u.K[1]} {
		if !bytes.Equal(p, a) && s.w.shardOf(p) == s.w.shardOf(a) {
			same = append(same, p)
		}
	}
	return same[k%len(same)]
}

// ---- families ----

// create / burn the latest / create again; transfer the latest away (same shard, cross shard) / create again
func (r *c07Run) famBurnTransfer(v int) {
	s := r.newScn("burn-latest+transfer-away", v)
	u := s.u
	a := [][]byte{u.U[0], u.U[2], u.K[0]}[v%3]
	tok, tok2 := u.NFTs[v%len(u.NFTs)], u.NFTs[(v+1)%len(u.NFTs)]
	s.expect(s.grantAll(a, tok), "grant")
	s.expect(s.grantAll(a, tok2), "grant")
	var last uint64
	for i := 0; i < 3; i++ {
		last = createdNonce(s.create(a, tok, uint64(1+i*4), fmt.Sprintf("n%d", i)))
		createdNonce(s.create(a, tok2, 1, fmt.Sprintf("m%d", i)))
	}
	// burn the latest completely, create again
	s.expect(s.tx(a, a, "ESDTNFTBurn", bigGas, tok, be(last), be(9)), "burn")
	s.create(a, tok, 2, "after-burn")
	// burn an older one, create again
	s.tx(a, a, "ESDTNFTBurn", bigGas, tok, be(1), be(1))
	last = createdNonce(s.create(a, tok, 1, "after-burn-old"))
	// transfer the latest away on the same shard, create again
	s.expect(s.tx(a, a, "ESDTNFTTransfer", bigGas, tok, be(last), be(1), s.sameShard(a, v)), "transfer-same")
	last = createdNonce(s.create(a, tok, 3, "after-transfer"))
	// transfer the latest away to another shard (delivered late), create again, deliver
	tr := s.tx(a, a, "ESDTNFTTransfer", bigGas, tok, be(last), be(3), s.other(a, v))
	last = createdNonce(s.create(a, tok, 1, "after-cross-transfer"))
	s.deliverNew(tr)
	// multi-transfer of everything of the second token, create again on both
	s.tx(a, a, "MultiESDTNFTTransfer", bigGas, s.other(a, v+1), be(2), tok2, be(1), be(1), tok2, be(3), be(1))
	s.create(a, tok2, 1, "m-after")
	s.create(a, tok, 1, "n-after")
	// receiving a copy back does not touch the counter
	s.tx(s.sameShard(a, v), s.sameShard(a, v), "ESDTNFTTransfer", bigGas, tok, be(last-1), be(1), a)
	s.create(a, tok, 1, "n-after-return")
	s.emitHist("C07 family burn-latest+transfer-away, variant " + fmt.Sprint(v))
}

// hand-over on one shard / across shards, delivered late, old holder tries again, hand back, several tokens per creator
func (r *c07Run) famHandover(v int) {
	s := r.newScn("handover", v)
	u := s.u
	a := [][]byte{u.U[0], u.U[2], u.K[1], u.U[1]}[v%4]
	toks := u.NFTs
	for _, t := range toks {
		s.expect(s.grantAll(a, t), "grant")
	}
	pre := v % 3 // creates before the hand-over (0: hand-over with an empty counter)
	for i := 0; i < pre; i++ {
		for _, t := range toks[:3] {
			s.create(a, t, 1, fmt.Sprintf("a%d", i))
		}
	}
	b := s.sameShard(a, v)
	d := s.other(a, v)
	// token 0: same shard a -> b; token 1: cross shard a -> d (late); token 2 stays
	s.expect(s.handover(a, b, toks[0]), "handover-same")
	ho := s.handover(a, d, toks[1])
	s.expect(ho, "handover-cross")
	s.create(a, toks[0], 1, "old-holder-after-handover")  // must fail: no role
	s.create(a, toks[1], 1, "old-holder-in-transit")      // must fail
	s.create(d, toks[1], 1, "new-holder-before-delivery") // must fail on a 2+ shard world
	s.create(b, toks[0], 1, "b1")
	s.create(b, toks[0], 2, "b2")
	s.create(a, toks[2], 1, "a-other-token")
	s.tx(b, b, "ESDTNFTTransfer", bigGas, toks[0], be(uint64(pre)+1), be(1), d)
	s.deliverNew(ho) // delivered late
	s.create(d, toks[1], 1, "d1")
	s.create(d, toks[1], 5, "d2")
	s.tx(d, d, "ESDTNFTBurn", bigGas, toks[1], be(uint64(pre)+2), be(5))
	s.create(d, toks[1], 1, "d3")
	// hand back across shards and on: d -> a, then a -> b
	s.deliverNew(s.handover(d, a, toks[1]))
	s.create(a, toks[1], 1, "a-again")
	s.handover(a, b, toks[1])
	s.create(b, toks[1], 1, "b-on-second-token")
	// hand-over to the holder itself, and a chain b -> d -> b for token 0
	s.handover(b, b, toks[0])
	s.create(b, toks[0], 1, "b-after-self")
	s.deliverNew(s.handover(b, d, toks[0]))
	s.create(d, toks[0], 1, "d-on-first-token")
	s.deliverNew(s.handover(d, b, toks[0]))
	s.create(b, toks[0], 1, "b-back")
	s.create(a, toks[3], 1, "a-fourth-token")
	s.emitHist("C07 family handover, variant " + fmt.Sprint(v))
}

// F9: the hand-over message is delivered, the new holder creates, the message is delivered again, the new holder creates
func (r *c07Run) famRedelivery(v int) {
	s := r.newScn("handover-redelivery", v)
	u := s.u
	a := [][]byte{u.U[0], u.U[2]}[v%2]
	tok := u.NFTs[v%len(u.NFTs)]
	d := s.other(a, v)
	s.expect(s.grantAll(a, tok), "grant")
	for i := 0; i < 2+v%2; i++ {
		s.create(a, tok, 1, fmt.Sprintf("a%d", i))
	}
	ho := s.handover(a, d, tok)
	if !s.expect(ho, "handover") || len(ho.NewMsgs) != 1 {
		s.emitHist("C07 family handover-redelivery (one-shard world: no message), variant " + fmt.Sprint(v))
		return
	}
	id := ho.NewMsgs[0].ID
	s.redeliver(id) // first delivery, the message stays available (at-least-once transport)
	s.redeliver(id) // again, nothing created in between: changes nothing
	s.create(d, tok, 1, "d1")
	s.redeliver(id) // regresses the counter
	s.create(d, tok, 1, "d1-again")
	s.emitHist("C07 family handover-redelivery (F9), variant " + fmt.Sprint(v))
}

// F9, second shape: the role has moved on to a third account when the first hand-over message is delivered again
func (r *c07Run) famRedeliveryMovedOn(v int) {
	s := r.newScn("handover-redelivery-after-moving-on", v)
	u := s.u
	a := [][]byte{u.U[0], u.U[2]}[v%2]
	tok := u.NFTs[(v+1)%len(u.NFTs)]
	d := s.other(a, v)
	e := s.sameShard(d, v)
	s.expect(s.grantAll(a, tok), "grant")
	s.create(a, tok, 1, "a1")
	ho := s.handover(a, d, tok)
	if !s.expect(ho, "handover") || len(ho.NewMsgs) != 1 {
		s.emitHist("C07 family handover-redelivery-after-moving-on (one-shard world: no message), variant " + fmt.Sprint(v))
		return
	}
	id := ho.NewMsgs[0].ID
	s.redeliver(id)
	s.create(d, tok, 1, "d1")
	s.handover(d, e, tok) // same shard: e continues at 2
	s.create(e, tok, 1, "e1")
	s.deliver(id) // second delivery of the first message: d has role and counter 1 again
	s.create(d, tok, 1, "d-again")
	s.emitHist("C07 family handover-redelivery-after-moving-on (F9), variant " + fmt.Sprint(v))
}

// re-delivery with no create in between, then normal life
func (r *c07Run) famRedeliveryIdle(v int) {
	s := r.newScn("redelivery-idempotent", v)
	u := s.u
	a := [][]byte{u.U[0], u.U[2]}[v%2]
	tok := u.NFTs[(v+2)%len(u.NFTs)]
	d := s.other(a, v)
	s.expect(s.grantAll(a, tok), "grant")
	for i := 0; i < v%3; i++ {
		s.create(a, tok, 2, fmt.Sprintf("a%d", i))
	}
	ho := s.handover(a, d, tok)
	if s.expect(ho, "handover") && len(ho.NewMsgs) == 1 {
		id := ho.NewMsgs[0].ID
		s.redeliver(id)
		s.redeliver(id)
		s.tx(a, a, "ESDTTransfer", bigGas, u.Fung[0], be(1), d)
		s.redeliver(id)
		s.deliver(id)   // consumed now
		s.redeliver(id) // skipped: gone
	}
	s.create(d, tok, 1, "d1")
	s.create(d, tok, 1, "d2")
	s.emitHist("C07 family redelivery-idempotent, variant " + fmt.Sprint(v))
}

// multi-byte counters: the creator issues n >= 255 NFTs (burnt again at once so that the state stays small), hands the role over
// (same shard or cross shard), the new holder must continue at n+1; then on to a third account and back
func (r *c07Run) famBigCounter(v int, n int, cross bool, withHist bool) {
	route := "same-shard"
	if cross {
		route = "cross-shard"
	}
	s := r.newScn("multi-byte-counter/"+route, v)
	if !withHist {
		s.hrec = nil
	}
	u := s.u
	a := [][]byte{u.U[0], u.U[2], u.K[0]}[v%3]
	tok := u.NFTs[(v+n)%len(u.NFTs)]
	b := s.sameShard(a, v+n)
	if cross {
		b = s.other(a, v+n)
	}
	s.expect(s.grantAll(a, tok), "grant")
	s.emitProb = 1 << 30 // the bulk is checked by the monitors only
	for i := 0; i < n; i++ {
		if k := createdNonce(s.create(a, tok, 1, "bulk")); k > 0 && i < n-2 {
			s.tx(a, a, "ESDTNFTBurn", bigGas, tok, be(k), be(1))
		}
	}
	s.emitProb = 1
	check := func(who []byte, want uint64, when string) {
		s.c.count("C07/multi-byte-counter/checked/" + route)
		sh := s.w.shardOf(who)
		got := counterOf(s.w.shards[sh].accounts[string(who)], tok)
		if got != want {
			s.c.fail("monitor", "handover-counter/"+fnHandover+"/multi-byte", fmt.Sprintf("%s hand-over of %q with counter %d (%x): %s the new holder %x has counter %d (%x)", route, tok, want, be(want), when, who, got, be(got)),
				map[string]interface{}{"history": histReplay(s.hist)})
		}
	}
	ho := s.handover(a, b, tok)
	s.expect(ho, "handover")
	s.create(a, tok, 1, "old-holder") // refused
	s.deliverNew(ho)
	check(b, uint64(n), "after delivery")
	for i := 1; i <= 3; i++ {
		if k := createdNonce(s.create(b, tok, 1, "new-holder")); k != uint64(n+i) {
			s.c.count("C07/multi-byte-counter/new-holder-create-not-ok")
		}
	}
	check(b, uint64(n+3), "after three creates")
	// on to a third account on the other kind of route, and back to the first creator
	d := s.other(b, v)
	if cross {
		d = s.sameShard(b, v)
	}
	s.deliverNew(s.handover(b, d, tok))
	check(d, uint64(n+3), "after the second hand-over")
	s.create(d, tok, 1, "third-holder")
	s.deliverNew(s.handover(d, a, tok))
	check(a, uint64(n+4), "back at the first creator")
	s.create(a, tok, 1, "first-creator-again")
	if withHist {
		s.emitHist(fmt.Sprintf("C07 family multi-byte-counter %s, n=%d, variant %d", route, n, v))
	}
}

// generated histories under single-creator discipline
func (r *c07Run) famRandom(v, nOps int, redeliver, withHist bool, emitProb int) {
	name := "generated-disciplined"
	if redeliver {
		name = "generated-disciplined+redelivery"
	}
	s, m := r.newScnMon(name, v)
	s.emitProb = emitProb
	if !withHist {
		s.hrec = nil
	}
	c, u, w := s.c, s.u, s.w
	g := newGen(c, u, w)
	creators := [][]byte{u.U[0], u.U[1], u.U[2], u.U[3], u.K[0], u.K[1]}
	for _, a := range [][]byte{u.U[0], u.U[1], u.U[2], u.K[0]} {
		for _, t := range u.Fung {
			s.sys(a, "ESDTTransfer", t, be(1000))
		}
	}
	// several tokens per creator; the other roles also go to a second account
	for i, t := range u.NFTs {
		h := creators[(v+i/2)%len(creators)]
		s.grantAll(h, t)
		s.sys(creators[(v+i+3)%len(creators)], "ESDTSetRole", roleArgs(t, "ESDTRoleNFTAddQuantity", "ESDTRoleNFTBurn", "ESDTRoleNFTAddURI", "ESDTRoleNFTUpdateAttributes")...)
	}
	st := m.state(w)
	for i := 0; i < nOps; i++ {
		tok := c.pick(u.NFTs)
		t := st.tok(tok)
		var op *worldOp
		switch x := c.rng.Intn(100); {
		case x < 28: // create, mostly by the holder
			who := t.holder
			if who == nil || c.rng.Intn(8) == 0 {
				who = c.pick(creators)
			}
			q := uint64(1)
			if c.rng.Intn(3) == 0 {
				q = uint64(2 + c.rng.Intn(20))
			}
			op = &worldOp{Kind: opTx, Call: w.mkCall(w.shardOf(who), fnCreate, who, who, createArgs(tok, q, fmt.Sprintf("g%d", i), "u1", ""), bigGas)}
		case x < 40: // hand-over from the current holder
			if t.holder == nil {
				op = g.deliverOp()
				break
			}
			to := c.pick(creators)
			op = &worldOp{Kind: opSys, Call: &callSpec{Shard: w.shardOf(t.holder), Fn: fnHandover, Caller: u.SC, Rcpt: t.holder, Args: [][]byte{tok, to}, Value: big.NewInt(0), Snd: false, Dst: true, FailAt: -1}}
		case x < 58: // deliveries (late, any order), refunds; with at-least-once transport some hand-over deliveries do not consume the message
			if len(w.inflight) == 0 {
				op = g.supplyOp()
				break
			}
			mm := w.inflight[c.rng.Intn(len(w.inflight))]
			switch {
			case w.failed[mm.ID] && c.rng.Intn(3) != 0:
				op = &worldOp{Kind: opRefund, ID: mm.ID, Gas: mm.GasLimit}
			case redeliver && mm.Fn == fnHandover && c.rng.Intn(2) == 0:
				op = &worldOp{Kind: opRedeliver, ID: mm.ID, Gas: mm.GasLimit}
			default:
				op = &worldOp{Kind: opDeliver, ID: mm.ID, Gas: mm.GasLimit}
			}
		case x < 76:
			op = g.transferOp()
		case x < 90:
			op = g.supplyOp()
		case x < 96: // system operations that do not touch the create role
			target := g.holder()
			switch c.rng.Intn(6) {
			case 0:
				op = &worldOp{Kind: opSys, Call: &callSpec{Shard: w.shardOf(target), Fn: "ESDTFreeze", Caller: u.SC, Rcpt: target, Args: [][]byte{tok}, Value: big.NewInt(0), Dst: true, FailAt: -1}}
			case 1:
				op = &worldOp{Kind: opSys, Call: &callSpec{Shard: w.shardOf(target), Fn: "ESDTUnFreeze", Caller: u.SC, Rcpt: target, Args: [][]byte{tok}, Value: big.NewInt(0), Dst: true, FailAt: -1}}
			case 2, 3:
				op = &worldOp{Kind: opSys, Call: &callSpec{Shard: uint32(c.rng.Intn(w.nShards)), Fn: []string{"ESDTPause", "ESDTUnPause"}[c.rng.Intn(2)], Caller: u.SC, Rcpt: u.SYS, Args: [][]byte{tok}, Value: big.NewInt(0), Dst: true, FailAt: -1}}
			case 4:
				op = &worldOp{Kind: opSys, Call: &callSpec{Shard: w.shardOf(target), Fn: "ESDTSetRole", Caller: u.SC, Rcpt: target, Args: roleArgs(tok, "ESDTRoleNFTBurn", "ESDTRoleNFTAddQuantity"), Value: big.NewInt(0), Dst: true, FailAt: -1}}
			default:
				op = &worldOp{Kind: opSys, Call: &callSpec{Shard: w.shardOf(target), Fn: "ESDTUnSetRole", Caller: u.SC, Rcpt: target, Args: roleArgs(tok, "ESDTRoleNFTAddURI"), Value: big.NewInt(0), Dst: true, FailAt: -1}}
			}
		default:
			op = g.accountOp()
		}
		s.do(op)
		if i+1 == 40 && nOps > 60 {
			s.emitHist(fmt.Sprintf("C07 %s, variant %d, first 40 generated operations (seed %d)", name, v, c.seed))
		}
	}
	s.emitHist(fmt.Sprintf("C07 %s, variant %d, %d generated operations (seed %d)", name, v, nOps, c.seed))
	n := 0
	for _, t := range st.toks {
		if t.declared && t.broken == "" {
			n++
		}
		if t.declared && t.broken != "" && t.broken != "reported" {
			c.count("C07/generator-left-discipline: " + t.broken)
		}
	}
	c.count(fmt.Sprintf("C07/tokens-under-discipline-at-end=%d", n))
}

const c07Proj = "{| p_gas := false; p_transfers := true; p_logs := false; p_retdata := true; p_state := true; p_deps := false |}"

func init() {
	runners["C07"] = func(c *ctx) {
		c.stateProj = "sp_nonces" // the part of the state this property's theorems speak about
		u := newUniverse()
		u.NFTs = append(u.NFTs, []byte("NFC-778899"), []byte("SFD-aabbcc"))
		c.rep.Rule = "every executed call is checked on the implementation: a successful ESDTNFTCreate returns big-endian(counter under ELRONDnonce‖token in the caller's pre-state + 1), stores the entry under that nonce and persists the counter; a successful ESDTNFTCreateRoleTransfer removes counter and role at the old holder, installs them at the new holder (same shard) or ships exactly (token, counter) in the message and installs them at delivery; re-delivery with the counter still as shipped changes nothing. Histories under single-creator discipline (role set once by the system contract, then only handed over from the current holder; several tokens per creator): hand-written families (create / burn the latest / transfer away / hand-over same shard, cross shard, delivered late, to itself, back and forth; collections of 255 / 256 / 300 / 511 / 512 (thorough: up to 65537) NFTs handed over same shard and cross shard so that two- and three-byte counters travel, with the counter at every new holder compared with the number issued) and generated histories mixing creates, hand-overs, deliveries in any order, transfers, burns, freezes, pauses; the set of issued (token, nonce) is tracked over the whole history: no nonce twice, each create above the highest nonce ever issued, role and counter only at the tracked holder. Histories with repeated delivery of the hand-over message (REDELIVER) exercise F9; a uniqueness failure is minimised by delta debugging and gets the F9 signature only if the minimal history still needs a repeated delivery. Plus random walks of the shared generator (per-call checks). Every executed call and every whole history (incl. REDELIVER) is re-evaluated in the Coq model (return data, transfers, state / final world). distinct = distinct (shard state, call)."
		c.setExecStream(c07Proj)
		c.smallHistFiles(4)
		quick := !(c.thorough() || c.widen)
		r := &c07Run{c: c, u: u, budget: &caseBudget{max: 1500}}
		nv, nRand, nHist, nOps, walkW, walkOps := 4, 80, 8, 120, 3, 120
		if !quick {
			r.budget.max = 12000
			nv, nRand, nHist, nOps, walkW, walkOps = 12, 1500, 60, 160, 20, 300
		}
		for v := 0; v < nv; v++ {
			r.famBurnTransfer(v)
			r.famHandover(v)
			r.famRedelivery(v)
			r.famRedeliveryIdle(v)
			r.famRedeliveryMovedOn(v)
		}
		// counters of two and three bytes (big-endian in storage and in the message)
		sizes := []int{255, 256, 300, 511, 512}
		if !quick {
			sizes = append(sizes, 257, 1000, 4095, 4096, 65535, 65536, 65537)
		}
		for i, n := range sizes {
			r.famBigCounter(i, n, true, n == 256)
			r.famBigCounter(i+1, n, false, false)
		}
		for v := 0; v < nRand; v++ {
			r.famRandom(v, nOps, v%2 == 1, v < nHist, 1+v/nHist*3)
		}
		c.rep.Extra = map[string]interface{}{"F9_failures_classified": r.f9, "minimised": r.minimised}
		// random walks of the shared generator: per-call checks (its standard worlds have two creators per token, so no uniqueness tracking)
		wm := newC07Mon(false)
		c.walk(u, walkOpts{Worlds: walkW, Ops: walkOps, Proj: c07Proj, Monitors: []monitor{wm.mon}, Hist: true,
			MaxCases: map[bool]int{true: 500, false: 6000}[quick],
			Tune: func(g *gen) {
				g.wSupply, g.wSystem, g.wTransfer, g.wDeliver, g.wHostile, g.wAccount = 40, 22, 18, 14, 0, 2
			}})
		c.sample(map[string]interface{}{"families": []string{"burn-latest+transfer-away", "handover", "handover-redelivery", "redelivery-idempotent", "multi-byte-counter", "generated-disciplined", "generated-disciplined+redelivery", "walk"}})
	}
}
