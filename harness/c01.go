package main

// C01 — transfers conserve tokens, on one shard and across shards.
//
// This file also holds the helpers shared by the runners of C01, C02, C04 and C09 (prefix tk):
// scripted runs with monitors and case emission, world cloning, decoded views of the storage,
// decoding of transfer requests (sender-side and destination-side shapes).

import (
	"bytes"
	"fmt"
	"math/big"
	"sort"
	"strings"

	vmcommon "github.com/ElrondNetwork/elrond-vm-common"
	"github.com/ElrondNetwork/elrond-vm-common/data/esdt"
)

// ---------------------------------------------------------------------------------------------
// shared helpers
// ---------------------------------------------------------------------------------------------

const tkSigF4b = "F4b-alias-metadata-nonce"
const tkSigF8 = "F8-pause-overwrites-system-account-holding"

func tkProj(transfers, state bool) string {
	return fmt.Sprintf("{| p_gas := false; p_transfers := %s; p_logs := false; p_retdata := false; p_state := %s; p_deps := false |}",
		cBool(transfers), cBool(state))
}

var tkTransferFns = map[string]bool{"ESDTTransfer": true, "ESDTNFTTransfer": true, "MultiESDTNFTTransfer": true}

func tkBK(shard uint32, addr []byte, suf string) string {
	return fmt.Sprintf("%d/%x/%x", shard, addr, suf)
}

func tkU64(b []byte) uint64 { return new(big.Int).SetBytes(b).Uint64() }

// tkKey: storage-level key suffix of (token id, nonce): id ‖ big-endian nonce (nothing for nonce 0)
func tkKey(tok []byte, nonce uint64) string { return string(tok) + string(be(nonce)) }

func tkRaw(accts map[string]*hAccount, addr []byte, suf string) []byte {
	a, ok := accts[string(addr)]
	if !ok {
		return nil
	}
	return a.storage[string(esdtPrefix)+suf]
}

// tkEntry: decoded entry under ELRONDesdt‖suf; nil if absent or undecodable
func tkEntry(accts map[string]*hAccount, addr []byte, suf string) *esdt.ESDigitalToken {
	raw := tkRaw(accts, addr, suf)
	if len(raw) == 0 {
		return nil
	}
	t, err := decodeToken(raw)
	if err != nil {
		return nil
	}
	return t
}

func tkFrozenProps(p []byte) bool { return len(p) == 2 && p[0]&1 != 0 }

// tkPausedOn: the pause flag of key suffix suf in the system account of the shard whose accounts are given
func tkPausedOn(accts map[string]*hAccount, suf string) bool {
	v := tkRaw(accts, vmcommon.SystemAccountAddress, suf)
	return len(v) == 2 && v[0]&1 != 0
}

// tkIsFungibleEntry: a decoded entry of fungible type without metadata
func tkIsFungibleEntry(t *esdt.ESDigitalToken) bool {
	return t != nil && t.Type == uint32(vmcommon.Fungible) && t.TokenMetaData == nil
}

func tkAdd(m map[string]*big.Int, k string, v *big.Int) {
	if m[k] == nil {
		m[k] = big.NewInt(0)
	}
	m[k].Add(m[k], v)
}

func tkNeg(v *big.Int) *big.Int { return new(big.Int).Neg(v) }

// tkDiff: post - pre, zero entries dropped
func tkDiff(pre, post map[string]*big.Int) map[string]*big.Int {
	d := map[string]*big.Int{}
	for k, v := range post {
		tkAdd(d, k, v)
	}
	for k, v := range pre {
		tkAdd(d, k, tkNeg(v))
	}
	for k, v := range d {
		if v.Sign() == 0 {
			delete(d, k)
		}
	}
	return d
}

// tkFirstDiff: smallest key on which the two signed maps differ ("" if equal; zero = absent)
func tkFirstDiff(a, b map[string]*big.Int) string {
	var ks []string
	for k := range a {
		ks = append(ks, k)
	}
	for k := range b {
		if _, ok := a[k]; !ok {
			ks = append(ks, k)
		}
	}
	sort.Strings(ks)
	z := big.NewInt(0)
	for _, k := range ks {
		x, y := a[k], b[k]
		if x == nil {
			x = z
		}
		if y == nil {
			y = z
		}
		if x.Cmp(y) != 0 {
			return k
		}
	}
	return ""
}

func tkShowMap(m map[string]*big.Int) string {
	var ks []string
	for k := range m {
		ks = append(ks, k)
	}
	sort.Strings(ks)
	var sb strings.Builder
	for _, k := range ks {
		fmt.Fprintf(&sb, "%s:%s ", k, m[k])
	}
	return sb.String()
}

func tkReplay(sr *stepResult, hist []string) map[string]interface{} {
	return map[string]interface{}{"op": sr.Op.String(), "call": describeCall(sr.Call), "pre": digestAccounts(sr.Res.Pre), "history": histReplay(hist)}
}

// ---- transfer requests -------------------------------------------------------------------------

type tkItem struct {
	Tok   []byte
	Nonce uint64 // sender side: the nonce asked for; destination side: the metadata nonce of the payload
	Qty   *big.Int
	Hash  []byte // destination side, NFT payload
	Props []byte // destination side, NFT payload
	NFT   bool   // destination side: credited through the NFT path
}

func (it tkItem) key() string { return tkKey(it.Tok, it.Nonce) }

type tkReq struct {
	Sender  bool // sender-side shape
	Dst     []byte
	Items   []tkItem
	MinArgs int
}

// tkParse decodes the arguments of a transfer call the way the function will read them.
// Sender-side shape iff ESDTTransfer executed with the caller's account, or caller == recipient for the NFT functions.
func tkParse(cs *callSpec) (*tkReq, bool) {
	a := cs.Args
	switch cs.Fn {
	case "ESDTTransfer":
		if len(a) < 2 {
			return nil, false
		}
		return &tkReq{Sender: cs.Snd, Dst: cs.Rcpt, MinArgs: 2, Items: []tkItem{{Tok: a[0], Qty: new(big.Int).SetBytes(a[1])}}}, true
	case "ESDTNFTTransfer":
		if len(a) < 4 {
			return nil, false
		}
		if bytes.Equal(cs.Caller, cs.Rcpt) {
			return &tkReq{Sender: true, Dst: a[3], MinArgs: 4, Items: []tkItem{{Tok: a[0], Nonce: tkU64(a[1]), Qty: new(big.Int).SetBytes(a[2])}}}, true
		}
		t, err := decodeToken(a[3])
		if err != nil || t.Value == nil {
			return nil, false
		}
		it := tkItem{Tok: a[0], Qty: new(big.Int).Set(t.Value), Props: t.Properties, NFT: true}
		if t.TokenMetaData != nil {
			it.Nonce, it.Hash = t.TokenMetaData.Nonce, t.TokenMetaData.Hash
		}
		return &tkReq{Dst: cs.Rcpt, MinArgs: 4, Items: []tkItem{it}}, true
	case "MultiESDTNFTTransfer":
		if len(a) < 4 {
			return nil, false
		}
		sender := bytes.Equal(cs.Caller, cs.Rcpt)
		off := 1
		if sender {
			off = 2
		}
		n := tkU64(a[off-1])
		if n == 0 || n > uint64(len(a))/3 || uint64(len(a)) < 3*n+uint64(off) {
			return nil, false
		}
		r := &tkReq{Sender: sender, Dst: cs.Rcpt, MinArgs: int(3*n) + off}
		if sender {
			r.Dst = a[0]
		}
		for i := 0; i < int(n); i++ {
			s := off + 3*i
			nonce := tkU64(a[s+1])
			if sender || nonce == 0 {
				r.Items = append(r.Items, tkItem{Tok: a[s], Nonce: nonce, Qty: new(big.Int).SetBytes(a[s+2])})
				continue
			}
			t, err := decodeToken(a[s+2])
			if err != nil || t.Value == nil {
				return nil, false
			}
			it := tkItem{Tok: a[s], Qty: new(big.Int).Set(t.Value), Props: t.Properties, NFT: true}
			if t.TokenMetaData != nil {
				it.Nonce, it.Hash = t.TokenMetaData.Nonce, t.TokenMetaData.Hash
			}
			r.Items = append(r.Items, it)
		}
		return r, true
	}
	return nil, false
}

// tkMustVerify: the admissibility rule of the property (C09): the oracle has to be asked
func tkMustVerify(cs *callSpec, minArgs int) bool {
	if cs.CallType == vmcommon.AsynchronousCallBack || cs.CallType == vmcommon.ESDTTransferAndExecute {
		return false
	}
	if bytes.Equal(cs.Caller, vmcommon.ESDTSCAddress) {
		return false
	}
	return len(cs.Args) <= minArgs
}

// tkAliased: some listed (token, nonce>0) finds, in the caller's account, an entry whose metadata nonce differs (F4b)
func tkAliased(pre map[string]*hAccount, caller []byte, items []tkItem) bool {
	for _, it := range items {
		if it.Nonce == 0 {
			continue
		}
		if t := tkEntry(pre, caller, it.key()); t != nil && t.TokenMetaData != nil && t.TokenMetaData.Nonce != it.Nonce {
			return true
		}
	}
	return false
}

// ---- world cloning -----------------------------------------------------------------------------

func tkCloneWorld(w *hWorld) *hWorld {
	n := &hWorld{nShards: w.nShards, shardTab: map[string]uint32{}, shardDflt: w.shardDflt, payTab: map[string]byte{}, payDflt: w.payDflt,
		dns: w.dns, enableChg: w.enableChg, activation: w.activation, gasMap: w.gasMap, failed: map[int]bool{}, nextID: w.nextID}
	for k, v := range w.shardTab {
		n.shardTab[k] = v
	}
	for k, v := range w.payTab {
		n.payTab[k] = v
	}
	for k, v := range w.failed {
		n.failed[k] = v
	}
	if err := n.build(); err != nil {
		panic(err)
	}
	for i, sh := range w.shards {
		for k, a := range sh.accounts {
			b := a.clone()
			b.w = n
			n.shards[i].accounts[k] = b
		}
	}
	for _, m := range w.inflight {
		c := *m
		c.Caller, c.Dest, c.Sender = append([]byte(nil), m.Caller...), append([]byte(nil), m.Dest...), append([]byte(nil), m.Sender...)
		c.Args = cloneArgs(m.Args)
		n.inflight = append(n.inflight, &c)
	}
	return n
}

// ---- scripted runs -----------------------------------------------------------------------------

// tkBudget: at most max exec cases; with every > 1 only one of every `every` executed calls is emitted
type tkBudget struct{ max, n, every, seen int }

func (b *tkBudget) take() bool {
	if b == nil {
		return true
	}
	b.seen++
	if b.every > 1 && b.seen%b.every != 0 {
		return false
	}
	if b.n >= b.max {
		return false
	}
	b.n++
	return true
}

type tkRun struct {
	c      *ctx
	u      *universe
	w      *hWorld
	tag    string
	mons   []monitor
	hist   []string
	hrec   *histRecorder
	budget *tkBudget
	quiet  bool // setup phase: execute and monitor, do not emit exec cases
}

// tkBegin sets the case-file settings of the exec-level correspondence (same as c.walk)
func (c *ctx) tkBegin(proj string) {
	c.header = execHeader
	c.caseType = "xcase"
	c.mismatchExpr = "xmismatches (" + proj + ") cases"
	c.perFile = 250
}

func (c *ctx) tkNewRun(u *universe, w *hWorld, tag string, mons []monitor, b *tkBudget, hist bool) *tkRun {
	r := &tkRun{c: c, u: u, w: w, tag: tag, mons: mons, budget: b}
	if hist {
		r.hrec = c.startHistory(w)
	}
	return r
}

// fork continues on a clone of the world (no history: the clone does not start from an empty message pool)
// tkForkHooks: monitors that keep per-world history state copy it to the clone here
var tkForkHooks []func(from, to *hWorld)

func (r *tkRun) fork(tag string) *tkRun {
	n := &tkRun{c: r.c, u: r.u, w: tkCloneWorld(r.w), tag: tag, mons: r.mons, budget: r.budget, hist: append([]string(nil), r.hist...)}
	for _, h := range tkForkHooks {
		h(r.w, n.w)
	}
	if p, ok := c01Prov[r.w]; ok {
		q := map[int]bool{}
		for k, v := range p {
			q[k] = v
		}
		c01Prov[n.w] = q
	}
	return n
}

func (r *tkRun) do(op *worldOp) *stepResult {
	c, w := r.c, r.w
	pre := w.snap()
	sr := w.step(op)
	r.hist = append(r.hist, op.String())
	if r.hrec != nil {
		r.hrec.add(op)
	}
	if sr.Skipped {
		c.count("op/skipped")
		return sr
	}
	c.count("call/" + sr.Call.Fn + "/" + statusName(sr.Res.Status))
	c.note(r.tag+"/"+op.String()+"/"+pre.Digest, true)
	for _, m := range r.mons {
		m(c, w, pre, sr, r.hist)
	}
	if !r.quiet && r.budget.take() {
		c.addExecCase(w, sr.Call, sr.Res)
	}
	return sr
}

func (r *tkRun) tx(caller, rcpt []byte, fn string, gas uint64, args ...[]byte) *stepResult {
	return r.do(&worldOp{Kind: opTx, Call: r.w.mkCall(r.w.shardOf(caller), fn, caller, rcpt, args, gas)})
}

func (r *tkRun) call(cs *callSpec) *stepResult { return r.do(&worldOp{Kind: opTx, Call: cs}) }

// sysOn: a call by the ESDT system contract executed on the given shard
func (r *tkRun) sysOn(shard uint32, rcpt []byte, fn string, args ...[]byte) *stepResult {
	cs := &callSpec{Shard: shard, Fn: fn, Caller: r.u.SC, Rcpt: rcpt, Args: args, Value: big.NewInt(0), Snd: false,
		Dst: r.w.shardOf(rcpt) == shard || fn == "ESDTPause" || fn == "ESDTUnPause", FailAt: -1}
	return r.do(&worldOp{Kind: opSys, Call: cs})
}

func (r *tkRun) sys(rcpt []byte, fn string, args ...[]byte) *stepResult {
	return r.sysOn(r.w.shardOf(rcpt), rcpt, fn, args...)
}

func (r *tkRun) deliver(m *hMsg) *stepResult {
	return r.do(&worldOp{Kind: opDeliver, ID: m.ID, Gas: m.GasLimit})
}
func (r *tkRun) refund(m *hMsg) *stepResult {
	return r.do(&worldOp{Kind: opRefund, ID: m.ID, Gas: m.GasLimit})
}

func (r *tkRun) emitHist(desc string) {
	if r.hrec != nil {
		r.c.emitHistory(r.hrec, r.w, desc)
	}
}

func tkOK(sr *stepResult) bool { return !sr.Skipped && sr.Res != nil && sr.Res.Status == 0 }

func (r *tkRun) must(sr *stepResult, what string) *stepResult {
	if !tkOK(sr) {
		msg := r.tag + ": " + what + ": setup step failed"
		if sr.Res != nil && sr.Res.Err != nil {
			msg += ": " + sr.Res.Err.Error()
		}
		if sr.Res != nil {
			msg += sr.Res.PanicMsg
		}
		panic(msg)
	}
	return sr
}

// balances of one account: key suffix -> value (non-zero entries)
func tkAcctBalances(w *hWorld, addr []byte) map[string]*big.Int {
	out := map[string]*big.Int{}
	sh := w.shardOf(addr)
	if int(sh) >= w.nShards {
		return out
	}
	a, ok := w.shards[sh].accounts[string(addr)]
	if !ok {
		return out
	}
	for k := range a.storage {
		if strings.HasPrefix(k, string(esdtPrefix)) {
			suf := k[len(esdtPrefix):]
			if v := balanceOf(a, suf); v.Sign() != 0 {
				out[fmt.Sprintf("%x", suf)] = v
			}
		}
	}
	return out
}

func tkMulti(dst []byte, items ...[]byte) [][]byte {
	return append([][]byte{dst, be(uint64(len(items) / 3))}, items...)
}

func (r *tkRun) giveRoles(addr, tok []byte) {
	r.must(r.sys(addr, "ESDTSetRole", append([][]byte{tok}, r.u.AllRoles...)...), "setrole")
}

func (r *tkRun) create(creator, tok []byte, qty uint64, hash string) *stepResult {
	return r.tx(creator, creator, "ESDTNFTCreate", bigGas, tok, be(qty), []byte("nm"), be(100), []byte(hash), []byte("attr"), []byte("uri"))
}

// ---------------------------------------------------------------------------------------------
// C01 monitor
// ---------------------------------------------------------------------------------------------

// tkOpClass: origin (sender-side execution of a user transaction on the caller's shard), deliver, refund, other
func tkOpClass(w *hWorld, sr *stepResult) string {
	cs := sr.Call
	switch sr.Op.Kind {
	case opDeliver:
		return "deliver"
	case opRefund:
		return "refund"
	case opTx:
		if !cs.Snd || w.shardOf(cs.Caller) != cs.Shard {
			return "other"
		}
		if cs.Fn == "ESDTTransfer" && cs.Dst != (w.shardOf(cs.Rcpt) == cs.Shard) {
			return "other"
		}
		return "origin"
	}
	return "other"
}

// tkRejectReasons: the admissible reasons (property text) for which the destination side may refuse the call,
// read off the pre-state of the destination shard
func tkRejectReasons(w *hWorld, pre map[string]*hAccount, cs *callSpec, refund bool) []string {
	var rs []string
	add := func(s string) {
		for _, x := range rs {
			if x == s {
				return
			}
		}
		rs = append(rs, s)
	}
	req, ok := tkParse(cs)
	if !ok || req.Sender && cs.Fn != "ESDTTransfer" {
		return []string{"malformed"}
	}
	for _, it := range req.Items {
		k := it.key()
		raw := tkRaw(pre, cs.Rcpt, k)
		cur := tkEntry(pre, cs.Rcpt, k)
		if !refund && (tkPausedOn(pre, string(it.Tok)) || tkPausedOn(pre, k)) {
			add("paused")
		}
		if len(raw) > 0 && cur == nil {
			add("undecodable-destination-entry")
			continue
		}
		if !refund {
			if cur != nil && tkFrozenProps(cur.Properties) {
				add("frozen")
			}
			if it.NFT && tkFrozenProps(it.Props) {
				add("frozen-payload")
			}
		}
		if it.NFT {
			if cur != nil && cur.TokenMetaData != nil && !bytes.Equal(cur.TokenMetaData.Hash, it.Hash) {
				add("wrong-nft-on-destination")
			}
		} else if cur != nil && cur.Type != uint32(vmcommon.Fungible) {
			add("type-mismatch")
		}
	}
	if tkMustVerify(cs, req.MinArgs) {
		switch w.payOf(cs.Rcpt) {
		case 'N':
			add("not-payable")
		case 'Y':
		default:
			add("oracle-error")
		}
	}
	return rs
}

// c01Prov: per world, the ids of the messages emitted by successful sender-side executions of user transactions
// (the messages the property speaks about; a message emitted by any other execution — e.g. a call executed on
// behalf of a metachain caller — is delivered without being judged)
var c01Prov = map[*hWorld]map[int]bool{}

// tkTransferClass: origin / deliver / refund / foreign-message / other for an executed transfer function; records the
// provenance of the messages emitted by origin-side executions (idempotent: several monitors may call it)
func tkTransferClass(w *hWorld, sr *stepResult) string {
	class := tkOpClass(w, sr)
	if class == "origin" && sr.Res.Status == 0 {
		for _, m := range sr.NewMsgs {
			if c01Prov[w] == nil {
				c01Prov[w] = map[int]bool{}
			}
			c01Prov[w][m.ID] = true
		}
	}
	if (class == "deliver" || class == "refund") && !c01Prov[w][sr.Op.ID] {
		class = "foreign-message"
	}
	return class
}

func monC01(c *ctx, w *hWorld, pre *worldSnap, sr *stepResult, hist []string) {
	cs := sr.Call
	if !tkTransferFns[cs.Fn] || sr.Op.Kind == opRedeliver {
		return
	}
	class := tkTransferClass(w, sr)
	c.count("c01/" + class + "/" + cs.Fn + "/" + statusName(sr.Res.Status))
	if sr.Res.Status != 0 {
		if w.digest() != pre.Digest {
			c.fail("monitor", "failed-call-changed-state/"+cs.Fn+"/"+class, cs.Fn+": the call failed but the world changed", tkReplay(sr, hist))
		}
		switch class {
		case "deliver":
			rs := tkRejectReasons(w, sr.Res.Pre, cs, false)
			if bytes.Equal(cs.Rcpt, vmcommon.SystemAccountAddress) {
				why := "no-admissible-reason"
				if len(rs) > 0 {
					why = rs[0]
				}
				c.count("c01/deliver-rejected/destination-is-system-account(excluded)/" + why)
			} else if len(rs) == 0 {
				c.fail("monitor", "delivery-rejected/"+cs.Fn+"/no-admissible-reason",
					fmt.Sprintf("%s: the destination shard refused a message emitted by a successful sender-side execution (%v) although the destination is not frozen, the token not paused, the account payable and no other NFT / entry type sits under the key", cs.Fn, sr.Res.Err),
					tkReplay(sr, hist))
			} else {
				c.count("c01/deliver-rejected/" + rs[0])
			}
		case "refund":
			rs := tkRejectReasons(w, sr.Res.Pre, cs, true)
			ok := false
			for _, r := range rs {
				if r == "wrong-nft-on-destination" || r == "type-mismatch" || r == "undecodable-destination-entry" {
					ok = true
				}
			}
			if !ok {
				c.fail("monitor", "refund-rejected/"+cs.Fn+"/no-admissible-reason",
					fmt.Sprintf("%s: the return-after-error refund of a refused message was itself refused (%v); the debited quantity stays lost (a refund ignores frozen / paused / payability; only another NFT or entry type under the key may stop it)", cs.Fn, sr.Res.Err),
					tkReplay(sr, hist))
			} else {
				c.count("c01/refund-rejected/" + rs[0])
			}
		}
		return
	}
	if class == "other" || class == "foreign-message" {
		return
	}
	req, ok := tkParse(cs)
	if !ok {
		c.count("c01/unparsed-success/" + cs.Fn)
		return
	}
	aliased := class == "origin" && tkAliased(sr.Res.Pre, cs.Caller, req.Items)
	sigOr := func(s string) string {
		if aliased {
			return tkSigF4b
		}
		return s
	}
	post := w.allBalances()
	// expected effects
	exp := map[string]*big.Int{}
	want := map[string]*big.Int{} // per key suffix: quantity moved
	dstLocal := false
	if class == "origin" {
		dstLocal = w.shardOf(req.Dst) == cs.Shard
		for _, it := range req.Items {
			tkAdd(exp, tkBK(cs.Shard, cs.Caller, it.key()), tkNeg(it.Qty))
			if dstLocal {
				tkAdd(exp, tkBK(cs.Shard, req.Dst, it.key()), it.Qty)
			}
			tkAdd(want, it.key(), it.Qty)
		}
	} else {
		for _, it := range req.Items {
			tkAdd(exp, tkBK(cs.Shard, cs.Rcpt, it.key()), it.Qty)
		}
	}
	for k, v := range exp {
		if v.Sign() == 0 {
			delete(exp, k)
		}
	}
	for k, v := range want {
		if v.Sign() == 0 {
			delete(want, k)
		}
	}
	// 1. conservation per storage-level key
	if k, eq := totalsEqual(pre.Totals, w.totals()); !eq {
		a, b := pre.Totals[k], w.totals()[k]
		c.fail("monitor", sigOr("conservation/"+cs.Fn+"/"+class),
			fmt.Sprintf("%s (%s): total of key %x (all accounts on all shards + undelivered messages) changed from %v to %v", cs.Fn, class, k, a, b), tkReplay(sr, hist))
		return
	}
	// 2. exact effects and frame
	act := tkDiff(pre.Balances, post)
	if k := tkFirstDiff(exp, act); k != "" {
		cls := "frame"
		if strings.HasPrefix(k, fmt.Sprintf("%d/%x/", cs.Shard, cs.Caller)) && class == "origin" {
			cls = "debit-mismatch"
		} else if strings.HasPrefix(k, fmt.Sprintf("%d/%x/", cs.Shard, req.Dst)) {
			cls = "credit-mismatch"
		}
		c.fail("monitor", sigOr(cls+"/"+cs.Fn+"/"+class),
			fmt.Sprintf("%s (%s): balance change at (shard/account/key) %s is %v, expected %v; all expected: %s; all observed: %s", cs.Fn, class, k, act[k], exp[k], tkShowMap(exp), tkShowMap(act)),
			tkReplay(sr, hist))
		return
	}
	// 3. the emitted message carries what was debited
	if class == "origin" && !dstLocal {
		got := map[string]*big.Int{}
		n := 0
		for _, m := range sr.NewMsgs {
			if m.Fn == cs.Fn {
				n++
				for k, v := range m.credits() {
					if v.Sign() != 0 {
						tkAdd(got, k, v)
					}
				}
			}
		}
		if n != 1 || tkFirstDiff(want, got) != "" {
			c.fail("monitor", sigOr("message-mismatch/"+cs.Fn), fmt.Sprintf("%s: %d message(s) emitted carrying %s, debited %s", cs.Fn, n, tkShowMap(got), tkShowMap(want)), tkReplay(sr, hist))
		}
	}
}

// ---------------------------------------------------------------------------------------------
// C01 scenario families
// ---------------------------------------------------------------------------------------------

type c01Scen struct {
	kind    int // 0 fungible, 1 semi-fungible, 2 non-fungible
	shape   int // 0 single, 1 multi/1, 2 multi/2, 3 multi/3 with a repeated token
	holds   bool
	blocker string
	cross   bool
	huge    bool // quantities and holdings that do not fit 64 bits (fungible and semi-fungible kinds)
}

var c01Kinds = []string{"fungible", "sft", "nft"}
var c01Shapes = []string{"single", "multi1", "multi2", "multi3-repeat"}

func (s c01Scen) name() string {
	pl := "same-shard"
	if s.cross {
		pl = "cross-shard"
	}
	h := "dest-empty"
	if s.holds {
		h = "dest-holds"
	}
	hg := ""
	if s.huge {
		hg = "/huge"
	}
	return fmt.Sprintf("%s/%s/%s/%s/%s%s", c01Kinds[s.kind], c01Shapes[s.shape], h, s.blocker, pl, hg)
}

func c01RunScenario(c *ctx, u *universe, s c01Scen, b *tkBudget, idx int, extra map[string]int) {
	sysShard := uint32(idx % 2)
	w := u.stdWorld(2, sysShard, distinctGas(uint64(11+idx%13), 3))
	fresh := userAddr(0x31) // not in the shard table: default shard 0, holds nothing
	snd := u.U[0]
	var dst []byte
	switch {
	case s.cross && s.holds:
		dst = u.U[2]
	case s.cross:
		dst = u.U[3]
	case s.holds:
		dst = u.U[1]
	default:
		dst = fresh
	}
	switch s.blocker {
	case "not-payable":
		w.payTab[string(dst)] = 'N'
	case "oracle-error":
		w.payTab[string(dst)] = 'E'
	}
	u.populate(w)
	r := c.tkNewRun(u, w, "c01/"+s.name(), []monitor{monC01}, b, true)
	dsh := w.shardOf(dst)
	// primary token of the scenario
	tok, nonce, qty := u.Fung[0], uint64(0), uint64(10)
	switch s.kind {
	case 1:
		tok, nonce, qty = u.NFTs[1], 1, 3
	case 2:
		tok, nonce, qty = u.NFTs[0], 1, 1
	}
	qtyB, qtyB1 := be(qty), be(qty+1)
	if s.huge && s.kind < 2 {
		// the sender's holding and the moved quantity exceed 64 bits (a quantity truncated anywhere on the way shows as a lost or created amount)
		if s.kind == 0 {
			r.must(r.sys(snd, "ESDTTransfer", tok, big64(1000)), "huge issue")
		} else {
			r.must(r.tx(snd, snd, "ESDTNFTAddQuantity", bigGas, tok, be(nonce), big64(1000)), "huge add quantity")
		}
		qtyB, qtyB1 = big64(5), big64(6)
	}
	moveTo := func(args ...[]byte) { // one NFT transfer from snd to dst (with an attached argument: no oracle query), delivered if cross-shard
		sr := r.must(r.tx(snd, snd, "ESDTNFTTransfer", bigGas, append(args, []byte("seed"))...), "seed transfer")
		for _, m := range sr.NewMsgs {
			r.must(r.deliver(m), "seed delivery")
		}
	}
	if s.blocker == "wrong-hash" {
		// the destination creates its own copy of the same (token, nonce) with another hash
		r.giveRoles(dst, tok)
		r.must(r.create(dst, tok, 2, "another-hash"), "foreign create")
	} else if s.holds {
		switch s.kind {
		case 1:
			moveTo(tok, be(1), be(5), dst)
		case 2: // the destination holds another nonce of the same token
			r.must(r.create(snd, tok, 1, "hash-n2"), "create #2")
			moveTo(tok, be(2), be(1), dst)
		}
	}
	switch s.blocker {
	case "frozen":
		r.must(r.sysOn(dsh, dst, "ESDTFreeze", []byte(tkKey(tok, nonce))), "freeze")
	case "paused":
		r.must(r.sysOn(dsh, u.SYS, "ESDTPause", tok), "pause")
	case "paused-sender-shard":
		r.must(r.sysOn(0, u.SYS, "ESDTPause", tok), "pause on the sender's shard")
	case "paused-both-shards":
		r.must(r.sysOn(0, u.SYS, "ESDTPause", tok), "pause on the sender's shard")
		r.must(r.sysOn(dsh, u.SYS, "ESDTPause", tok), "pause on the destination shard")
	case "frozen-sender":
		r.must(r.sysOn(0, snd, "ESDTFreeze", []byte(tkKey(tok, nonce))), "freeze the sender's entry")
	}
	before := tkAcctBalances(w, snd)
	// the transfer
	var sr *stepResult
	switch s.shape {
	case 0:
		if s.kind == 0 {
			sr = r.tx(snd, dst, "ESDTTransfer", bigGas, tok, qtyB)
		} else {
			sr = r.tx(snd, snd, "ESDTNFTTransfer", bigGas, tok, be(nonce), qtyB, dst)
		}
	case 1:
		sr = r.tx(snd, snd, "MultiESDTNFTTransfer", bigGas, tkMulti(dst, tok, be(nonce), qtyB)...)
	case 2:
		if s.kind == 0 {
			sr = r.tx(snd, snd, "MultiESDTNFTTransfer", bigGas, tkMulti(dst, tok, be(nonce), qtyB, u.NFTs[1], be(2), be(2))...)
		} else {
			sr = r.tx(snd, snd, "MultiESDTNFTTransfer", bigGas, tkMulti(dst, u.Fung[1], nil, be(7), tok, be(nonce), qtyB)...)
		}
	default:
		if s.kind == 2 {
			sr = r.tx(snd, snd, "MultiESDTNFTTransfer", bigGas, tkMulti(dst, tok, be(nonce), qtyB, u.NFTs[1], be(1), be(2), u.NFTs[1], be(1), be(3))...)
		} else {
			sr = r.tx(snd, snd, "MultiESDTNFTTransfer", bigGas, tkMulti(dst, tok, be(nonce), qtyB, u.Fung[1], nil, be(4), tok, be(nonce), qtyB1)...)
		}
	}
	outcome := "origin-" + statusName(sr.Res.Status)
	if tkOK(sr) && s.cross {
		if len(sr.NewMsgs) != 1 {
			outcome = fmt.Sprintf("origin-ok-%d-messages", len(sr.NewMsgs))
		} else {
			m := sr.NewMsgs[0]
			d := r.deliver(m)
			if tkOK(d) {
				outcome = "delivered"
			} else {
				f := r.refund(m)
				if tkOK(f) {
					outcome = "rejected-refunded"
					after := tkAcctBalances(w, snd)
					if k := tkFirstDiff(before, after); k != "" {
						c.fail("monitor", "refund-not-restoring/"+sr.Call.Fn,
							fmt.Sprintf("%s: after rejected delivery and refund the sender's balance of key %s is %v, before the transfer %v", sr.Call.Fn, k, after[k], before[k]),
							map[string]interface{}{"scenario": s.name(), "call": describeCall(sr.Call), "pre": digestAccounts(sr.Res.Pre), "history": histReplay(r.hist)})
					}
				} else {
					outcome = "rejected-refund-failed"
				}
			}
		}
	}
	blk := "blocked"
	if s.blocker == "none" {
		blk = "free"
	}
	extra[blk+"/"+outcome]++
	c.count("c01/scenario/" + blk + "/" + outcome)
	r.emitHist("C01 scenario " + s.name())
	if idx%40 == 0 {
		c.sample(map[string]interface{}{"scenario": s.name(), "transfer": describeCall(sr.Call), "outcome": outcome})
	}
}

// c01AliasWorld: U[0] holds the NFT "ABC-123456" nonce 0x44 (quantity 7) — its key is also "ABC-12345" ‖ 0x3644
func c01AliasWorld(c *ctx, u *universe, mons []monitor, b *tkBudget) *tkRun {
	w := u.stdWorld(2, 0, distinctGas(17, 3))
	u.populate(w)
	r := c.tkNewRun(u, w, "alias", mons, b, false)
	r.quiet = true
	long, short := u.Alias[4], u.Alias[3]
	r.giveRoles(u.U[0], long)
	r.giveRoles(u.U[0], short)
	for i := 1; i <= 0x44; i++ {
		q := uint64(1)
		if i == 0x44 {
			q = 7
		}
		r.must(r.create(u.U[0], long, q, fmt.Sprintf("h%d", i)), "alias create")
	}
	// a fungible holding "ABCD" whose key is also "AB" ‖ "CD" (F4a shape, repaired: must be rejected)
	r.must(r.sys(u.U[0], "ESDTTransfer", u.Alias[2], be(500)), "issue ABCD")
	r.quiet = false
	return r
}

func c01AliasFamily(c *ctx, u *universe, b *tkBudget) {
	base := c01AliasWorld(c, u, []monitor{monC01}, b)
	short := u.Alias[3]
	probes := []struct {
		name string
		fn   string
		args [][]byte
	}{
		{"nft-same-shard", "ESDTNFTTransfer", [][]byte{short, {0x36, 0x44}, be(3), u.U[1]}},
		{"nft-cross-shard", "ESDTNFTTransfer", [][]byte{short, {0x36, 0x44}, be(3), u.U[2]}},
		{"multi-same-shard", "MultiESDTNFTTransfer", tkMulti(u.U[1], short, []byte{0x36, 0x44}, be(2))},
		{"multi-cross-shard", "MultiESDTNFTTransfer", tkMulti(u.U[2], u.Fung[0], nil, be(5), short, []byte{0x36, 0x44}, be(2))},
		// honest use of the real identifier: must conserve
		{"honest-nft", "ESDTNFTTransfer", [][]byte{u.Alias[4], {0x44}, be(3), u.U[2]}},
		// F4a shape (repaired): the fungible entry ABCD read as NFT AB nonce 0x4344
		{"fungible-as-nft", "ESDTNFTTransfer", [][]byte{u.Alias[0], []byte("CD"), be(3), u.U[1]}},
		{"fungible-as-nft-multi", "MultiESDTNFTTransfer", tkMulti(u.U[2], u.Alias[0], []byte("CD"), be(3))},
		// unknown and malformed identifiers
		{"unknown-id", "ESDTNFTTransfer", [][]byte{[]byte("UNKNOWN-000000"), be(1), be(1), u.U[1]}},
		{"empty-id", "MultiESDTNFTTransfer", tkMulti(u.U[2], nil, nil, be(1))},
	}
	for _, p := range probes {
		r := base.fork("alias/" + p.name)
		sr := r.tx(u.U[0], u.U[0], p.fn, bigGas, p.args...)
		c.count("c01/alias/" + p.name + "/" + statusName(sr.Res.Status))
		for _, m := range sr.NewMsgs {
			d := r.deliver(m)
			c.count("c01/alias/" + p.name + "/deliver-" + statusName(d.Res.Status))
		}
	}
	f := base.fork("alias/esdt-transfer-of-nft-key")
	f.tx(u.U[0], u.U[1], "ESDTTransfer", bigGas, []byte(tkKey(u.Alias[4], 0x44)), be(1))
}

// c01Orders: three messages in flight, every delivery order
func c01Orders(c *ctx, u *universe, b *tkBudget) {
	w := u.stdWorld(2, 1, distinctGas(23, 3))
	u.populate(w)
	base := c.tkNewRun(u, w, "orders", []monitor{monC01}, b, false)
	var msgs []*hMsg
	for _, sr := range []*stepResult{
		base.tx(u.U[0], u.U[2], "ESDTTransfer", bigGas, u.Fung[0], be(10)),
		base.tx(u.U[0], u.U[0], "ESDTNFTTransfer", bigGas, u.NFTs[1], be(1), be(3), u.U[2]),
		base.tx(u.U[0], u.U[0], "MultiESDTNFTTransfer", bigGas, tkMulti(u.U[2], u.Fung[0], nil, be(5), u.NFTs[1], be(1), be(4), u.NFTs[1], be(2), be(1))...),
	} {
		base.must(sr, "orders origin")
		msgs = append(msgs, sr.NewMsgs...)
	}
	perms := [][]int{{0, 1, 2}, {0, 2, 1}, {1, 0, 2}, {1, 2, 0}, {2, 0, 1}, {2, 1, 0}}
	var finals []string
	for _, p := range perms {
		r := base.fork(fmt.Sprintf("orders/%v", p))
		for _, i := range p {
			r.deliver(msgs[i])
		}
		finals = append(finals, tkShowMap(r.w.allBalances()))
	}
	for i := 1; i < len(finals); i++ {
		if finals[i] != finals[0] {
			c.fail("monitor", "delivery-order-dependent/transfers", "final balances depend on the delivery order of three in-flight messages",
				map[string]interface{}{"order_a": perms[0], "balances_a": finals[0], "order_b": perms[i], "balances_b": finals[i], "history": histReplay(base.hist)})
		}
	}
	c.count("c01/orders/permutations")
}

// c01SystemAccountDest: the system-account address as destination of a token whose pause flag was set and cleared on
// that shard (the flag shares the key of the balance entry: DESIGN F8 family).  The delivery is refused although the
// token is not paused; excluded from the liveness judgement, counted, and the refund must restore the sender.
func c01SystemAccountDest(c *ctx, u *universe, b *tkBudget) {
	for _, flag := range []string{"never-flagged", "paused-and-unpaused", "paused"} {
		w := u.stdWorld(2, 1, distinctGas(27, 3))
		u.populate(w)
		r := c.tkNewRun(u, w, "system-account-destination/"+flag, []monitor{monC01}, b, true)
		if flag != "never-flagged" {
			r.must(r.sysOn(1, u.SYS, "ESDTPause", u.Fung[0]), "pause")
		}
		if flag == "paused-and-unpaused" {
			r.must(r.sysOn(1, u.SYS, "ESDTUnPause", u.Fung[0]), "unpause")
		}
		before := tkAcctBalances(w, u.U[0])
		sr := r.must(r.tx(u.U[0], u.SYS, "ESDTTransfer", bigGas, u.Fung[0], be(10)), "transfer to the system-account address")
		d := r.deliver(sr.NewMsgs[0])
		out := "delivered"
		if !tkOK(d) {
			out = "refused"
			if f := r.refund(sr.NewMsgs[0]); tkOK(f) && tkFirstDiff(before, tkAcctBalances(w, u.U[0])) == "" {
				out += "-refunded"
			} else {
				c.fail("monitor", "refund-not-restoring/ESDTTransfer", "refund of a transfer refused by the system-account address does not restore the sender",
					map[string]interface{}{"scenario": r.tag, "history": histReplay(r.hist)})
			}
		}
		c.count("c01/system-account-destination/" + flag + "/" + out)
		r.emitHist("C01 scenario " + r.tag)
	}
}

// c01LateBlock: the blocking condition appears AFTER the successful sender-side execution and BEFORE the delivery:
// the delivery must be refused, and the return-after-error refund must succeed although the token is still paused on the
// sender's shard and / or the sender's own entries are frozen, and must restore the sender's balances.
func c01LateBlock(c *ctx, u *universe, b *tkBudget, extra map[string]int) {
	A, X := u.U[0], u.U[2]
	F, F2, S := u.Fung[0], u.Fung[1], u.NFTs[1]
	type item struct {
		tok   []byte
		nonce uint64
	}
	kinds := []struct {
		name  string
		fn    string
		rcpt  []byte
		args  [][]byte
		items []item
	}{
		{"ESDTTransfer", "ESDTTransfer", X, [][]byte{F, be(10)}, []item{{F, 0}}},
		{"ESDTTransfer-whole-balance", "ESDTTransfer", X, [][]byte{F, be(1000)}, []item{{F, 0}}},
		{"ESDTNFTTransfer", "ESDTNFTTransfer", A, [][]byte{S, be(1), be(3), X}, []item{{S, 1}}},
		{"ESDTNFTTransfer-whole-balance", "ESDTNFTTransfer", A, [][]byte{S, be(2), be(7), X}, []item{{S, 2}}},
		{"multi-fungible-1", "MultiESDTNFTTransfer", A, tkMulti(X, F, nil, be(10)), []item{{F, 0}}},
		{"multi-fungible-2", "MultiESDTNFTTransfer", A, tkMulti(X, F, nil, be(10), F2, nil, be(1000)), []item{{F, 0}, {F2, 0}}},
		{"multi-nft", "MultiESDTNFTTransfer", A, tkMulti(X, S, be(1), be(3), S, be(2), be(7)), []item{{S, 1}, {S, 2}}},
		{"multi-mixed", "MultiESDTNFTTransfer", A, tkMulti(X, S, be(1), be(3), F, nil, be(10), S, be(1), be(2)), []item{{S, 1}, {F, 0}}},
		{"multi-mixed-fungible-first", "MultiESDTNFTTransfer", A, tkMulti(X, F, nil, be(10), S, be(1), be(3)), []item{{F, 0}, {S, 1}}},
	}
	blocks := []string{"pause-both-shards", "pause-destination-shard", "freeze-destination", "freeze-destination-and-sender", "pause-both-shards-and-freeze-both"}
	idx := 0
	for _, k := range kinds {
		for _, blk := range blocks {
			for _, seeded := range []bool{false, true} {
				idx++
				w := u.stdWorld(2, uint32(idx%2), distinctGas(uint64(15+idx%11), 3))
				u.populate(w)
				tag := fmt.Sprintf("late-block/%s/%s/dest-holds=%v", k.name, blk, seeded)
				r := c.tkNewRun(u, w, tag, []monitor{monC01}, b, true)
				args := k.args
				if seeded { // the destination already holds the NFT entries (the fungible ones it holds anyway)
					for _, it := range k.items {
						if it.nonce > 0 {
							sr := r.must(r.tx(A, A, "ESDTNFTTransfer", bigGas, it.tok, be(it.nonce), be(1), X), "seed")
							r.must(r.deliver(sr.NewMsgs[0]), "seed delivery")
						}
					}
					switch k.name { // one unit of nonce 2 has been moved already
					case "ESDTNFTTransfer-whole-balance":
						args = [][]byte{S, be(2), be(6), X}
					case "multi-nft":
						args = tkMulti(X, S, be(1), be(3), S, be(2), be(6))
					}
				}
				before := tkAcctBalances(w, A)
				cs := w.mkCall(0, k.fn, A, k.rcpt, args, bigGas)
				sr := r.call(cs)
				if !tkOK(sr) || len(sr.NewMsgs) != 1 {
					extra["late-block/origin-not-accepted"]++
					c.count("c01/late-block/origin-not-accepted")
					continue
				}
				m := sr.NewMsgs[0]
				for _, it := range k.items {
					key := []byte(tkKey(it.tok, it.nonce))
					if strings.HasPrefix(blk, "pause") {
						r.must(r.sysOn(1, u.SYS, "ESDTPause", it.tok), "pause on the destination shard")
						if strings.HasPrefix(blk, "pause-both") {
							r.must(r.sysOn(0, u.SYS, "ESDTPause", it.tok), "pause on the sender's shard")
						}
					}
					if strings.Contains(blk, "freeze") {
						r.must(r.sysOn(1, X, "ESDTFreeze", key), "freeze the destination")
						if strings.Contains(blk, "sender") || strings.Contains(blk, "freeze-both") {
							r.must(r.sysOn(0, A, "ESDTFreeze", key), "freeze the sender")
						}
					}
				}
				outcome := "delivered(unexpected)"
				if d := r.deliver(m); !tkOK(d) {
					outcome = "refused-refund-failed"
					if f := r.refund(m); tkOK(f) {
						outcome = "refused-refunded"
						after := tkAcctBalances(w, A)
						if kk := tkFirstDiff(before, after); kk != "" {
							c.fail("monitor", "refund-not-restoring/"+k.fn,
								fmt.Sprintf("%s: after refused delivery and refund the sender's balance of key %s is %v, before the transfer %v", k.fn, kk, after[kk], before[kk]),
								map[string]interface{}{"scenario": tag, "call": describeCall(cs), "pre": digestAccounts(sr.Res.Pre), "history": histReplay(r.hist)})
						}
					}
				}
				extra["late-block/"+outcome]++
				c.count("c01/late-block/" + blk + "/" + outcome)
				r.emitHist("C01 scenario " + tag)
			}
		}
	}
}

func c01Tune(g *gen) {
	g.wTransfer, g.wDeliver, g.wSystem, g.wSupply, g.wHostile, g.wAccount = 50, 26, 9, 8, 7, 0
}

func init() {
	runners["C01"] = func(c *ctx) {
		c.stateProj = "sp_balances" // the part of the state this property's theorems speak about
		u := newUniverse()
		proj := tkProj(true, true)
		c.rep.Rule = "(1) scenario families on fresh 2-shard worlds: {fungible, SFT, NFT} x {ESDTTransfer/ESDTNFTTransfer, multi with 1, 2, 3 tokens incl. a repeated token} x {destination already holds the token / holds nothing} x {none, frozen, paused, not payable, oracle error, other NFT with the same key; cross shard also: token paused on the SENDER shard, on both shards, sender entry frozen} x {same shard, cross shard}: transfer, delivery, and after a rejected delivery the return-after-error refund (sender's balances must be back); the same transfers (ESDTTransfer, ESDTNFTTransfer, multi fungible-only / NFT-only / mixed, partial and whole balance) with the blocking condition installed AFTER the successful sender-side execution (token paused on the destination shard or on both shards, destination frozen, sender frozen too): delivery refused, refund must succeed despite pause / freeze on the sender side and restore the sender; three in-flight messages delivered in all 6 orders; aliasing identifiers (F4b world: holder of ABC-123456 nonce 0x44 names ABC-12345 nonce 0x3644), repaired F4a shape, unknown / empty ids. " +
			"(2) random walks over 1-3 shard worlds weighted to transfers, deliveries, refunds, freeze/pause, hostile argument lists. " +
			"After EVERY executed ESDTTransfer / ESDTNFTTransfer / MultiESDTNFTTransfer (sender side, delivery, refund) the monitor recomputes on the real storage: per storage-level key the sum over all accounts of all shards + undelivered messages is unchanged; failed call = identical world; exact debit per (token, nonce) with repeats accumulated; exact credit; no other (account, key) changes; the emitted message carries the debit; a refused delivery must have an admissible reason in the destination's pre-state. " +
			"Every executed call is re-executed by the Coq model (projection: status, output transfers, complete post-state of the shard) and every scenario / walk as a whole history by the Coq world model. distinct = distinct (world state, operation)."
		c.tkBegin(proj)
		quick := !(c.thorough() || c.widen)
		budget := &tkBudget{max: 1250, every: 2}
		if !quick {
			budget = &tkBudget{max: 6000}
		}
		extra := map[string]int{}
		idx := 0
		reps := 1
		if !quick {
			reps = 3 // other gas schedules / system-account placements
		}
		for rep := 0; rep < reps; rep++ {
			for kind := 0; kind < 3; kind++ {
				for shape := 0; shape < 4; shape++ {
					for _, holds := range []bool{false, true} {
						for _, cross := range []bool{true, false} {
							bl := []string{"none", "frozen", "paused", "not-payable", "oracle-error"}
							if cross { // blocking condition on the SENDER's side of a cross-shard transfer: the origin must fail (or conserve)
								bl = append(bl, "paused-sender-shard", "paused-both-shards", "frozen-sender")
							}
							if kind > 0 && holds {
								bl = append(bl, "wrong-hash")
							}
							for _, blocker := range bl {
								c01RunScenario(c, u, c01Scen{kind: kind, shape: shape, holds: holds, blocker: blocker, cross: cross}, budget, idx, extra)
								idx++
								if kind < 2 && rep == 0 && (blocker == "none" || blocker == "paused" || blocker == "frozen") {
									c01RunScenario(c, u, c01Scen{kind: kind, shape: shape, holds: holds, blocker: blocker, cross: cross, huge: true}, budget, idx, extra)
									idx++
								}
							}
						}
					}
				}
			}
			idx += 7
		}
		c01AliasFamily(c, u, &tkBudget{max: 60})
		c01Orders(c, u, &tkBudget{max: 40})
		c01SystemAccountDest(c, u, &tkBudget{max: 20})
		lb := &tkBudget{max: 450}
		if !quick {
			lb.max = 2000
		}
		c01LateBlock(c, u, lb, extra)
		c.rep.Extra = map[string]interface{}{"scenario_outcomes": extra, "scenarios": idx}
		n, ops, prob, max := 8, 250, 2, 1000
		if !quick {
			n, ops, prob, max = 100, 600, 6, 10000
		}
		c.walk(u, walkOpts{Worlds: n, Ops: ops, Proj: proj, Monitors: []monitor{monC01}, Tune: c01Tune, EmitProb: prob, MaxCases: max, Hist: true})
	}
}
