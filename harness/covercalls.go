package main

// Calls that reach guard branches the generators rarely or never hit (found with `go build -cover` over all
// property runners): every one of them is REJECTED by a guard on the unchanged tree.  They are executed at
// the start of every walk, judged by the property's monitors like any other call and re-evaluated in the
// model (status must agree), so a change to one of these guards is seen by the correspondence run.

import (
	"math/big"

	vmcommon "github.com/ElrondNetwork/elrond-vm-common"
	"github.com/ElrondNetwork/elrond-vm-common/data/esdt"
)

// validNFTPayload is what a sender side would put into the 4th argument: a decodable entry with value and metadata
func validNFTPayload(nonce uint64, qty int64, creator []byte) []byte {
	t := &esdt.ESDigitalToken{Type: uint32(vmcommon.NonFungible), Value: big.NewInt(qty),
		TokenMetaData: &esdt.MetaData{Nonce: nonce, Name: []byte("s1"), Creator: creator, Royalties: 250, Hash: []byte("hash-s1"),
			URIs: [][]byte{[]byte("uri1"), []byte("uri2")}, Attributes: []byte("attr")}}
	b, err := t.Marshal()
	if err != nil {
		panic(err)
	}
	return b
}

func coverCalls(u *universe, w *hWorld) []*callSpec {
	mk := func(shard uint32, fn string, caller, rcpt []byte, snd, dst bool, args ...[]byte) *callSpec {
		return &callSpec{Shard: shard, Fn: fn, Caller: caller, Rcpt: rcpt, Args: args, Value: big.NewInt(0), Gas: bigGas,
			Snd: snd, Dst: dst, FailAt: -1}
	}
	a, b := u.U[0], u.U[1] // both on shard 0
	tok, nft := u.Fung[0], u.NFTs[1]
	one := be(1)
	var l []*callSpec
	// destination-side guards of the multi transfer
	l = append(l,
		mk(0, "MultiESDTNFTTransfer", a, b, true, true, one, tok, nil, one),                   // sender account local on the destination side
		mk(0, "MultiESDTNFTTransfer", u.U[2], b, false, false, one, tok, nil, one),            // no destination account
		mk(0, "MultiESDTNFTTransfer", u.U[2], b, false, true, nil, tok, nil, one),             // zero transfers
		mk(0, "MultiESDTNFTTransfer", u.U[2], b, false, true, be(2), tok, nil, one),           // count above len/3
		mk(0, "MultiESDTNFTTransfer", u.U[2], b, false, true, be(2), tok, nil, one, tok, nil), // fewer arguments than 3n+1
		mk(0, "MultiESDTNFTTransfer", u.U[2], b, false, true, wrapCounts[1], tok, nil, one),   // wrap residue on the destination side
	)
	// destination-side guards of the single NFT transfer
	l = append(l,
		mk(0, "ESDTNFTTransfer", a, b, true, true, nft, one, one, []byte{1}),
		mk(0, "ESDTNFTTransfer", u.U[2], b, false, false, nft, one, one, []byte{1}),
		mk(0, "ESDTNFTTransfer", u.U[2], b, false, true, nft, one, one, []byte{0xff, 0xff}), // undecodable payload
	)
	// delivery-SHAPED calls by a LOCAL user with a perfectly valid payload: the sender account is present, so the
	// destination side must refuse them (a transaction can carry this shape; accepting it credits from nothing)
	pay := validNFTPayload(1, 5, a)
	l = append(l,
		mk(0, "ESDTNFTTransfer", a, b, true, true, nft, one, be(5), pay),
		mk(0, "ESDTNFTTransfer", a, b, true, true, nft, one, be(5), pay, []byte("f")),
		mk(0, "MultiESDTNFTTransfer", a, b, true, true, one, nft, one, pay),
		mk(0, "MultiESDTNFTTransfer", a, b, true, true, be(2), tok, nil, be(3), nft, one, pay),
	)
	// system-contract functions with a wrong shape
	l = append(l,
		mk(0, "ESDTPause", u.SC, a, false, true, tok), // recipient is not the system account
		mk(0, "ESDTUnPause", u.SC, a, false, true, tok),
		mk(0, "ESDTNFTCreateRoleTransfer", u.SC, a, false, true, nft, b, one),     // three arguments at the current owner
		mk(0, "ESDTNFTCreateRoleTransfer", u.U[2], a, false, true, nft, one, one), // three arguments at the next owner
		mk(0, "ESDTNFTCreateRoleTransfer", u.SC, a, false, true, nft, u.Short),    // new owner of another length
		mk(0, "ESDTNFTCreateRoleTransfer", u.SC, a, true, true, nft, b),           // sender account local
		mk(0, "ESDTNFTCreateRoleTransfer", u.SC, a, false, false, nft, b),         // no destination account
		mk(0, "ESDTBurn", a, u.SC, false, false, tok, one),                        // no sender account
		mk(0, "ESDTFreeze", u.SC, a, false, false, tok),                           // no destination account
		mk(0, "ESDTSetRole", u.SC, a, false, false, tok, []byte("ESDTRoleLocalMint")),
	)
	for _, cs := range l {
		cs.CallType = vmcommon.DirectCall
	}
	return l
}
