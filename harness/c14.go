package main

// C14 — token-data serialisation is lossless, canonical and format-stable.
// Runs the real data.BigIntCaster and the generated Marshal / Size / Reset+Unmarshal of
// esdt.ESDigitalToken, esdt.ESDTRoles and esdt.MetaData; evaluates round trip, size, determinism,
// documented format (against an independent reference encoder written here) and "decode never panics"
// directly on the implementation, and writes every sampled input with the observed result as a Coq case
// for the model (coq/Corr/C14.v).

import (
	"bytes"
	"encoding/hex"
	"fmt"
	"math/big"
	"strings"

	"github.com/ElrondNetwork/elrond-vm-common/data"
	"github.com/ElrondNetwork/elrond-vm-common/data/esdt"
)

func init() { runners["C14"] = runC14 }

// ---------- Coq printers (nil and empty slices are not distinguished) ----------

// big integers as hexadecimal numerals: coqc converts a decimal numeral of several hundred digits in seconds
func c14OptZ(z *big.Int) string {
	if z == nil {
		return "None"
	}
	if z.BitLen() <= 64 {
		return cOptZ(z)
	}
	if z.Sign() < 0 {
		return "(Some (-0x" + new(big.Int).Abs(z).Text(16) + ")%Z)"
	}
	return "(Some 0x" + z.Text(16) + "%Z)"
}

func c14Md(m *esdt.MetaData) string {
	return fmt.Sprintf("{| md_nonce := %s; md_name := %s; md_creator := %s; md_royalties := %s; md_hash := %s; md_uris := %s; md_attributes := %s |}",
		cN(m.Nonce), cBytes(m.Name), cBytes(m.Creator), cN(uint64(m.Royalties)), cBytes(m.Hash), cBytesList(m.URIs), cBytes(m.Attributes))
}
func c14Tok(t *esdt.ESDigitalToken) string {
	md := "None"
	if t.TokenMetaData != nil {
		md = "(Some " + c14Md(t.TokenMetaData) + ")"
	}
	return fmt.Sprintf("{| t_type := %s; t_value := %s; t_props := %s; t_meta := %s; t_reserved := %s |}",
		cN(uint64(t.Type)), c14OptZ(t.Value), cBytes(t.Properties), md, cBytes(t.Reserved))
}
func c14Roles(r *esdt.ESDTRoles) string { return cBytesList(r.Roles) }

func c14Outcome(class, val string) string {
	switch class {
	case "value":
		return "(OVal " + val + ")"
	case "error":
		return "OErr"
	}
	return "OPanic"
}

// ---------- clones ----------

func c14CloneMd(m *esdt.MetaData) *esdt.MetaData {
	if m == nil {
		return nil
	}
	c := &esdt.MetaData{Nonce: m.Nonce, Royalties: m.Royalties}
	cp := func(b []byte) []byte {
		if b == nil {
			return nil
		}
		return append([]byte{}, b...)
	}
	c.Name, c.Creator, c.Hash, c.Attributes = cp(m.Name), cp(m.Creator), cp(m.Hash), cp(m.Attributes)
	if m.URIs != nil {
		c.URIs = make([][]byte, len(m.URIs))
		for i, u := range m.URIs {
			c.URIs[i] = cp(u)
		}
	}
	return c
}
func c14CloneTok(t *esdt.ESDigitalToken) *esdt.ESDigitalToken {
	c := &esdt.ESDigitalToken{Type: t.Type, TokenMetaData: c14CloneMd(t.TokenMetaData)}
	if t.Value != nil {
		c.Value = new(big.Int).Set(t.Value)
	}
	if t.Properties != nil {
		c.Properties = append([]byte{}, t.Properties...)
	}
	if t.Reserved != nil {
		c.Reserved = append([]byte{}, t.Reserved...)
	}
	return c
}
func c14CloneRoles(r *esdt.ESDTRoles) *esdt.ESDTRoles {
	c := &esdt.ESDTRoles{}
	if r.Roles != nil {
		c.Roles = make([][]byte, len(r.Roles))
		for i, u := range r.Roles {
			if u != nil {
				c.Roles[i] = append([]byte{}, u...)
			}
		}
	}
	return c
}

// ---------- independent reference encoder (the documented format) ----------

func c14RefVarint(v uint64) []byte {
	var out []byte
	for v >= 0x80 {
		out = append(out, byte(v&0x7f)|0x80)
		v >>= 7
	}
	return append(out, byte(v))
}
func c14RefAmount(v *big.Int) []byte {
	if v == nil {
		return []byte{0}
	}
	if v.Sign() == 0 {
		return []byte{0, 0}
	}
	sign := byte(0)
	if v.Sign() < 0 {
		sign = 1
	}
	return append([]byte{sign}, new(big.Int).Abs(v).Bytes()...)
}
func c14RefLen(tag byte, p []byte) []byte {
	out := append([]byte{tag}, c14RefVarint(uint64(len(p)))...)
	return append(out, p...)
}
func c14RefBytes(tag byte, p []byte) []byte {
	if len(p) == 0 {
		return nil
	}
	return c14RefLen(tag, p)
}
func c14RefScalar(tag byte, v uint64) []byte {
	if v == 0 {
		return nil
	}
	return append([]byte{tag}, c14RefVarint(v)...)
}
func c14RefMd(m *esdt.MetaData) []byte {
	var out []byte
	out = append(out, c14RefScalar(0x08, m.Nonce)...)
	out = append(out, c14RefBytes(0x12, m.Name)...)
	out = append(out, c14RefBytes(0x1a, m.Creator)...)
	out = append(out, c14RefScalar(0x20, uint64(m.Royalties))...)
	out = append(out, c14RefBytes(0x2a, m.Hash)...)
	for _, u := range m.URIs {
		out = append(out, c14RefLen(0x32, u)...)
	}
	out = append(out, c14RefBytes(0x3a, m.Attributes)...)
	return out
}
func c14RefTok(t *esdt.ESDigitalToken) []byte {
	var out []byte
	out = append(out, c14RefScalar(0x08, uint64(t.Type))...)
	out = append(out, c14RefLen(0x12, c14RefAmount(t.Value))...)
	out = append(out, c14RefBytes(0x1a, t.Properties)...)
	if t.TokenMetaData != nil {
		out = append(out, c14RefLen(0x22, c14RefMd(t.TokenMetaData))...)
	}
	out = append(out, c14RefBytes(0x2a, t.Reserved)...)
	return out
}
func c14RefRoles(r *esdt.ESDTRoles) []byte {
	var out []byte
	for _, u := range r.Roles {
		out = append(out, c14RefLen(0x0a, u)...)
	}
	return out
}

// ---------- the three message types behind one interface ----------

type c14Msg interface {
	Marshal() ([]byte, error)
	Size() int
	Unmarshal([]byte) error
	Reset()
}

type c14Kind struct {
	name  string // Tok | Roles | Md (Coq constructor infix)
	fresh func() c14Msg
	coq   func(c14Msg) string
	ref   func(c14Msg) []byte
	clone func(c14Msg) c14Msg
}

var c14Kinds = map[string]*c14Kind{
	"Tok": {name: "Tok", fresh: func() c14Msg { return &esdt.ESDigitalToken{} },
		coq:   func(m c14Msg) string { return c14Tok(m.(*esdt.ESDigitalToken)) },
		ref:   func(m c14Msg) []byte { return c14RefTok(m.(*esdt.ESDigitalToken)) },
		clone: func(m c14Msg) c14Msg { return c14CloneTok(m.(*esdt.ESDigitalToken)) }},
	"Roles": {name: "Roles", fresh: func() c14Msg { return &esdt.ESDTRoles{} },
		coq:   func(m c14Msg) string { return c14Roles(m.(*esdt.ESDTRoles)) },
		ref:   func(m c14Msg) []byte { return c14RefRoles(m.(*esdt.ESDTRoles)) },
		clone: func(m c14Msg) c14Msg { return c14CloneRoles(m.(*esdt.ESDTRoles)) }},
	"Md": {name: "Md", fresh: func() c14Msg { return &esdt.MetaData{} },
		coq:   func(m c14Msg) string { return c14Md(m.(*esdt.MetaData)) },
		ref:   func(m c14Msg) []byte { return c14RefMd(m.(*esdt.MetaData)) },
		clone: func(m c14Msg) c14Msg { return c14CloneMd(m.(*esdt.MetaData)) }},
}

// c14Decode: the production adapter Reset + Unmarshal (or Unmarshal into `into` when given), with recover
func c14Decode(k *c14Kind, into c14Msg, b []byte) (class string, m c14Msg, info string) {
	m = into
	if m == nil {
		m = k.fresh()
		m.Reset()
	}
	defer func() {
		if r := recover(); r != nil {
			class, info = "panic", fmt.Sprint(r)
		}
	}()
	if err := m.Unmarshal(b); err != nil {
		return "error", m, err.Error()
	}
	return "value", m, ""
}

func c14Marshal(m c14Msg) (b []byte, size int, class string, info string) {
	defer func() {
		if r := recover(); r != nil {
			class, info = "panic", fmt.Sprint(r)
		}
	}()
	size = m.Size()
	b, err := m.Marshal()
	if err != nil {
		return nil, size, "error", err.Error()
	}
	return b, size, "value", ""
}

type c14Run struct {
	c       *ctx
	decSeen map[string]bool
}

// encode side: one value through Marshal / Size / Unmarshal; monitors + Coq case
func (r *c14Run) encodeValue(k *c14Kind, m c14Msg, coqCase bool, tag string) []byte {
	c := r.c
	orig := k.coq(m)
	rp := map[string]string{"message": k.name, "value": orig}
	b, size, class, info := c14Marshal(m)
	c.note("enc/"+k.name+"/"+orig, true)
	c.count("encode/" + k.name + "/" + tag)
	if class != "value" {
		c.fail(class, "marshal-"+class+"-"+k.name, fmt.Sprintf("%s.Marshal %s on %s: %s", k.name, class, orig, info), rp)
		return nil
	}
	if k.coq(m) != orig {
		c.fail("monitor", "marshal-mutates-"+k.name, "Marshal modified its receiver: "+orig+" -> "+k.coq(m), rp)
	}
	if size != len(b) {
		c.fail("monitor", "size-mismatch-"+k.name, fmt.Sprintf("%s.Size() = %d but len(Marshal()) = %d for %s", k.name, size, len(b), orig), rp)
	}
	b2, _, class2, _ := c14Marshal(m)
	b3, _, class3, _ := c14Marshal(k.clone(m))
	if class2 != "value" || class3 != "value" || !bytes.Equal(b, b2) || !bytes.Equal(b, b3) {
		c.fail("monitor", "marshal-nondeterministic-"+k.name, fmt.Sprintf("%s.Marshal twice / on an equal copy gives different bytes for %s: %x / %x / %x", k.name, orig, b, b2, b3), rp)
	}
	if ref := k.ref(m); !bytes.Equal(ref, b) {
		c.fail("monitor", "format-"+k.name, fmt.Sprintf("%s.Marshal(%s) = %x, documented format gives %x", k.name, orig, b, ref), rp)
	}
	dclass, dm, dinfo := c14Decode(k, nil, b)
	if dclass != "value" {
		c.fail(map[string]string{"panic": "panic", "error": "monitor"}[dclass], "roundtrip-"+dclass+"-"+k.name,
			fmt.Sprintf("Unmarshal(Marshal(%s)) of %s: %s %s", orig, k.name, dclass, dinfo), rp)
	} else {
		if k.coq(dm) != orig {
			c.fail("monitor", "roundtrip-"+k.name, fmt.Sprintf("Unmarshal(Marshal(x)) != x for %s: x = %s, got %s (bytes %x)", k.name, orig, k.coq(dm), b), rp)
		}
		if eq, ok := m.(interface{ Equal(interface{}) bool }); ok && !eq.Equal(dm) {
			c.fail("monitor", "roundtrip-equal-"+k.name, fmt.Sprintf("generated Equal says Unmarshal(Marshal(x)) != x for %s", orig), rp)
		}
		b4, size4, class4, _ := c14Marshal(dm)
		if class4 != "value" || !bytes.Equal(b4, b) || size4 != len(b) {
			c.fail("monitor", "reencode-"+k.name, fmt.Sprintf("decode/encode cycle changes the bytes of %s: %x -> %x", orig, b, b4), rp)
		}
	}
	if coqCase {
		c.addCase(fmt.Sprintf("K%sEnc %s %s %s", k.name, orig, cN(uint64(size)), cBytes(b)), fmt.Sprintf("%s Marshal %s", k.name, orig))
	}
	// the encoding is a function of the CURRENT value: update the amount of the very same object in place (as every balance update
	// does) and encode it again - on a copy, so that the caller's value is untouched
	if t, ok := k.clone(m).(*esdt.ESDigitalToken); ok && t.Value != nil {
		if _, _, cl0, _ := c14Marshal(t); cl0 == "value" {
			t.Value.Add(t.Value, big.NewInt(5))
			b5, size5, cl5, _ := c14Marshal(t)
			if ref := k.ref(t); cl5 != "value" || !bytes.Equal(b5, ref) || size5 != len(ref) {
				c.fail("monitor", "marshal-stale-after-update-"+k.name, fmt.Sprintf("%s.Marshal after the amount of the same object was updated in place (+5) gives %x (size %d), the documented format of the updated value is %x", k.name, b5, size5, ref), rp)
			}
		}
	}
	return b
}

// decode side: one byte string through Reset+Unmarshal; monitors + Coq case
func (r *c14Run) decodeBytes(k *c14Kind, b []byte, coqCase bool, tag string) {
	c := r.c
	key := k.name + "/" + string(b)
	if r.decSeen[key] {
		return
	}
	r.decSeen[key] = true
	in := append([]byte(nil), b...)
	class, m, info := c14Decode(k, nil, b)
	c.note("dec/"+k.name+"/"+hex.EncodeToString(in), true)
	c.count("decode/" + k.name + "/" + tag)
	c.count("decode-result/" + k.name + "/" + class)
	rp := map[string]string{"message": k.name, "bytes": hex.EncodeToString(in)}
	if !bytes.Equal(in, b) {
		c.fail("monitor", "unmarshal-mutates-input-"+k.name, "Unmarshal modified its input "+hex.EncodeToString(in), rp)
	}
	val := ""
	switch class {
	case "panic":
		c.fail("panic", "unmarshal-panic-"+k.name, fmt.Sprintf("%s.Unmarshal panics on %x: %s", k.name, in, info), rp)
	case "value":
		val = k.coq(m)
		// whatever decodes re-encodes to a canonical form that decodes to the same value, with Size = length
		b2, size2, class2, info2 := c14Marshal(m)
		if class2 != "value" {
			c.fail(class2, "marshal-"+class2+"-"+k.name, fmt.Sprintf("%s.Marshal %s on the value decoded from %x: %s", k.name, class2, in, info2), rp)
		} else {
			if size2 != len(b2) {
				c.fail("monitor", "size-mismatch-"+k.name, fmt.Sprintf("Size() = %d, len(Marshal()) = %d for the value decoded from %x", size2, len(b2), in), rp)
			}
			if ref := k.ref(m); !bytes.Equal(ref, b2) {
				c.fail("monitor", "format-"+k.name, fmt.Sprintf("Marshal of the value decoded from %x = %x, documented format gives %x", in, b2, ref), rp)
			}
			class3, m3, _ := c14Decode(k, nil, b2)
			if class3 != "value" || k.coq(m3) != val {
				c.fail("monitor", "canonical-form-"+k.name, fmt.Sprintf("value decoded from %x re-encodes to %x which decodes to %s %s instead of %s", in, b2, class3, k.coq(m3), val), rp)
			} else if b4, _, _, _ := c14Marshal(m3); !bytes.Equal(b4, b2) {
				c.fail("monitor", "reencode-"+k.name, fmt.Sprintf("decode/encode cycle changes the canonical bytes %x -> %x", b2, b4), rp)
			}
		}
	}
	if coqCase {
		c.addCase(fmt.Sprintf("K%sDec %s %s", k.name, cBytes(in), c14Outcome(class, val)), fmt.Sprintf("%s Unmarshal %x", k.name, in))
	}
	// decoded values are independent of each other and of the input: update the decoded amount IN PLACE (as the ledger does with
	// Value.Add), overwrite the decoded byte fields, then decode the same bytes again
	if class == "value" {
		if t, ok := m.(*esdt.ESDigitalToken); ok {
			if t.Value != nil {
				t.Value.Add(t.Value, big.NewInt(777))
				t.Value.Neg(t.Value)
			}
			for i := range t.Properties {
				t.Properties[i] ^= 0xff
			}
			if t.TokenMetaData != nil {
				for i := range t.TokenMetaData.Hash {
					t.TokenMetaData.Hash[i] ^= 0xff
				}
			}
			if !bytes.Equal(in, b) {
				c.fail("monitor", "unmarshal-aliases-input-"+k.name, fmt.Sprintf("updating the value decoded from %x in place changed the input buffer to %x", in, b), rp)
			}
			class5, m5, _ := c14Decode(k, nil, in)
			if class5 != "value" || k.coq(m5) != val {
				c.fail("monitor", "decode-not-independent-"+k.name, fmt.Sprintf("after an earlier decoded value was updated in place, decoding %x again gives %s %s instead of %s", in, class5, k.coq(m5), val), rp)
			}
		}
	}
}

// merge: Unmarshal WITHOUT Reset into a receiver that already holds a value
func (r *c14Run) mergeBytes(k *c14Kind, m0 c14Msg, b []byte) {
	c := r.c
	before := k.coq(m0)
	class, m, info := c14Decode(k, k.clone(m0), b)
	c.note("merge/"+k.name+"/"+before+"/"+hex.EncodeToString(b), true)
	c.count("merge/" + k.name)
	c.count("merge-result/" + k.name + "/" + class)
	rp := map[string]string{"message": k.name, "receiver": before, "bytes": hex.EncodeToString(b)}
	val := ""
	if class == "panic" {
		c.fail("panic", "unmarshal-panic-"+k.name, fmt.Sprintf("%s.Unmarshal (merge into %s) panics on %x: %s", k.name, before, b, info), rp)
	} else if class == "value" {
		val = k.coq(m)
	}
	c.addCase(fmt.Sprintf("K%sFrom %s %s %s", k.name, before, cBytes(b), c14Outcome(class, val)), fmt.Sprintf("%s Unmarshal into %s of %x", k.name, before, b))
}

// ---------- amount codec ----------

func c14CasterDecode(buf []byte) (class string, v *big.Int, info string) {
	defer func() {
		if r := recover(); r != nil {
			class, info = "panic", fmt.Sprint(r)
		}
	}()
	cst := &data.BigIntCaster{}
	v, err := cst.Unmarshal(buf)
	if err != nil {
		return "error", nil, err.Error()
	}
	return "value", v, ""
}

// c14CasterTo: MarshalTo into a zeroed buffer of blen bytes
func c14CasterTo(v *big.Int, blen int) (class string, n int, out []byte, info string) {
	defer func() {
		if r := recover(); r != nil {
			class, info = "panic", fmt.Sprint(r)
		}
	}()
	cst := &data.BigIntCaster{}
	buf := make([]byte, blen)
	n, err := cst.MarshalTo(v, buf)
	if err != nil {
		return "error", 0, nil, err.Error()
	}
	if n < blen {
		return "value", n, buf[:n], ""
	}
	return "value", n, buf, ""
}

// monitors for one buffer through BigIntCaster.Unmarshal; returns class and value
func (r *c14Run) casterDecode(buf []byte, coqCase bool) {
	c := r.c
	class, v, info := c14CasterDecode(buf)
	if class == "panic" {
		c.fail("panic", "caster-unmarshal-panic", fmt.Sprintf("BigIntCaster.Unmarshal panics on %x: %s", buf, info), map[string]string{"bytes": hex.EncodeToString(buf)})
	}
	// oracle: the documented acceptance rule
	want := "value"
	var wv *big.Int
	switch {
	case len(buf) == 0:
		want = "error"
	case len(buf) == 1:
	case len(buf) == 2 && buf[1] == 0:
		wv = big.NewInt(0)
	case buf[0] == 0:
		wv = new(big.Int).SetBytes(buf[1:])
	case buf[0] == 1:
		wv = new(big.Int).Neg(new(big.Int).SetBytes(buf[1:]))
	default:
		want = "error"
	}
	if class != "panic" && (class != want || (class == "value" && ((v == nil) != (wv == nil) || (v != nil && v.Cmp(wv) != 0)))) {
		c.fail("monitor", "caster-unmarshal-rule", fmt.Sprintf("BigIntCaster.Unmarshal(%x) = %s %v, documented rule gives %s %v", buf, class, v, want, wv), map[string]string{"bytes": hex.EncodeToString(buf)})
	}
	if class == "value" {
		// decoded value re-encodes canonically and comes back
		cst := &data.BigIntCaster{}
		size := cst.Size(v)
		cl, n, out, _ := c14CasterTo(v, size)
		if cl != "value" || n != size || !bytes.Equal(out, c14RefAmount(v)) {
			c.fail("monitor", "caster-format", fmt.Sprintf("value %v decoded from %x re-encodes to %s %x (n=%d, Size=%d), documented %x", v, buf, cl, out, n, size, c14RefAmount(v)), map[string]string{"bytes": hex.EncodeToString(buf)})
		} else {
			cl2, v2, _ := c14CasterDecode(out)
			if cl2 != "value" || !cst.Equal(v, v2) || !cst.Equal(v2, v) {
				c.fail("monitor", "caster-roundtrip", fmt.Sprintf("Unmarshal(Marshal(%v)) = %s %v", v, cl2, v2), map[string]string{"bytes": hex.EncodeToString(buf)})
			}
			// a canonical buffer is reproduced exactly
			canonical := len(buf) == 1 && buf[0] == 0 || len(buf) == 2 && buf[0] == 0 && buf[1] == 0 || len(buf) >= 2 && buf[0] <= 1 && buf[1] != 0
			if canonical && !bytes.Equal(out, buf) {
				c.fail("monitor", "caster-canonical", fmt.Sprintf("canonical buffer %x is re-encoded as %x", buf, out), map[string]string{"bytes": hex.EncodeToString(buf)})
			}
		}
	}
	if coqCase {
		c.addCase(fmt.Sprintf("KCasterDec %s %s", cBytes(buf), c14Outcome(class, c14OptZ(v))), fmt.Sprintf("BigIntCaster.Unmarshal %x", buf))
	}
	// every decoded amount is its own number: update it in place, decode the same bytes again
	if class == "value" && v != nil {
		orig := new(big.Int).Set(v)
		v.Add(v, big.NewInt(12345))
		v.Neg(v)
		cl3, v3, _ := c14CasterDecode(buf)
		if cl3 != "value" || v3 == nil || v3.Cmp(orig) != 0 {
			c.fail("monitor", "caster-decode-not-independent", fmt.Sprintf("after an earlier decoded amount was updated in place, BigIntCaster.Unmarshal(%x) = %s %v instead of %v", buf, cl3, v3, orig), map[string]string{"bytes": hex.EncodeToString(buf)})
		}
	}
}

func (r *c14Run) casterEncode(v *big.Int, coqCase bool, tag string) {
	c := r.c
	cst := &data.BigIntCaster{}
	var orig *big.Int
	if v != nil {
		orig = new(big.Int).Set(v)
	}
	desc := "nil"
	if v != nil {
		desc = v.Text(16)
		if len(desc) > 80 {
			desc = desc[:40] + fmt.Sprintf("...(%d hex digits)", len(desc))
		}
	}
	rp := map[string]string{"value": desc}
	c.note("caster-enc/"+desc+"/"+tag, true)
	c.count("amount-encode/" + tag)
	size := cst.Size(v)
	cl, n, out, info := c14CasterTo(v, size)
	if cl != "value" {
		c.fail(map[string]string{"panic": "panic", "error": "monitor"}[cl], "caster-marshal-"+cl, fmt.Sprintf("BigIntCaster.MarshalTo(%s) into Size() bytes: %s %s", desc, cl, info), rp)
		return
	}
	if n != size || len(out) != size {
		c.fail("monitor", "caster-size-mismatch", fmt.Sprintf("BigIntCaster.Size(%s) = %d but MarshalTo wrote %d", desc, size, n), rp)
	}
	if !bytes.Equal(out, c14RefAmount(v)) {
		c.fail("monitor", "caster-format", fmt.Sprintf("BigIntCaster.MarshalTo(%s) = %x, documented format %x", desc, out, c14RefAmount(v)), rp)
	}
	if (v == nil) != (orig == nil) || (v != nil && v.Cmp(orig) != 0) {
		c.fail("monitor", "caster-marshal-mutates", "MarshalTo modified the value "+desc, rp)
	}
	_, _, out2, _ := c14CasterTo(v, size)
	if !bytes.Equal(out, out2) {
		c.fail("monitor", "caster-marshal-nondeterministic", "MarshalTo twice gives different bytes for "+desc, rp)
	}
	cl2, v2, _ := c14CasterDecode(out)
	if cl2 != "value" || !cst.Equal(v, v2) || (v == nil) != (v2 == nil) {
		c.fail("monitor", "caster-roundtrip", fmt.Sprintf("Unmarshal(Marshal(%s)) = %s %v", desc, cl2, v2), rp)
	}
	if v != nil { // Size / MarshalTo follow an in-place update of the same object
		w := new(big.Int).Set(v)
		_ = cst.Size(w)
		_, _, _, _ = c14CasterTo(w, cst.Size(w))
		w.Add(w, big.NewInt(5))
		w.Lsh(w, 9)
		sz := cst.Size(w)
		cl6, n6, out6, _ := c14CasterTo(w, sz)
		if ref := c14RefAmount(w); cl6 != "value" || n6 != len(ref) || !bytes.Equal(out6, ref) {
			c.fail("monitor", "caster-stale-after-update", fmt.Sprintf("after %s was encoded, updated in place and encoded again: Size %d, MarshalTo %s %x, documented format of the updated value %x", desc, sz, cl6, out6, ref), rp)
		}
	}
	if coqCase {
		c.addCase(fmt.Sprintf("KCasterEnc %s %s %s", c14OptZ(v), cN(uint64(size)), cBytes(out)), "BigIntCaster Size/MarshalTo "+desc)
		// MarshalTo into buffers of other lengths: error / panic classes
		for _, bl := range []int{0, 1, 2, size - 1, size + 1, size + 3} {
			if bl < 0 || bl == size || size > 40 && c.rng.Intn(6) != 0 || size > 300 {
				continue
			}
			cl, n, out, _ := c14CasterTo(v, bl)
			c.count("amount-marshalto-other-buffer/" + cl)
			val := ""
			if cl == "value" {
				val = fmt.Sprintf("(%s, %s)", cN(uint64(n)), cBytes(out))
			}
			c.addCase(fmt.Sprintf("KCasterTo %s %s %s", c14OptZ(v), cN(uint64(bl)), c14Outcome(cl, val)), fmt.Sprintf("BigIntCaster.MarshalTo %s into %d bytes", desc, bl))
		}
	}
}

// ---------- generators ----------

func (r *c14Run) genBytes(maxLen int) []byte {
	c := r.c
	switch c.rng.Intn(6) {
	case 0:
		return nil
	case 1:
		return []byte{}
	case 2:
		return []byte{0}
	}
	n := 1 + c.rng.Intn(maxLen)
	if c.rng.Intn(12) == 0 {
		n = 120 + c.rng.Intn(40) // length needs a 2-byte varint at 128
	}
	b := make([]byte, n)
	c.rng.Read(b)
	if c.rng.Intn(4) == 0 {
		b[0] = 0
	}
	return b
}

func (r *c14Run) genAmount(huge bool) *big.Int {
	c := r.c
	var v *big.Int
	switch c.rng.Intn(9) {
	case 0:
		return nil
	case 1:
		v = big.NewInt(0)
	case 2:
		v = big.NewInt(int64(c.rng.Intn(300)))
	case 3:
		v = new(big.Int).Lsh(big.NewInt(1), uint(8*c.rng.Intn(40)))
		if c.rng.Intn(2) == 0 {
			v.Sub(v, big.NewInt(1))
		}
	case 4:
		v = new(big.Int).SetUint64(c.rng.Uint64())
	default:
		n := 1 + c.rng.Intn(40)
		if huge && c.rng.Intn(4) == 0 {
			n = 40 + c.rng.Intn(90) // up to 2^1040
			if c.rng.Intn(12) == 0 {
				n = 300 + c.rng.Intn(300) // evaluating the model on such magnitudes costs ~0.1 s each
			}
		}
		b := make([]byte, n)
		c.rng.Read(b)
		v = new(big.Int).SetBytes(b)
	}
	if c.rng.Intn(3) == 0 {
		v.Neg(v)
	}
	return v
}

func (r *c14Run) genU64() uint64 {
	c := r.c
	switch c.rng.Intn(8) {
	case 0:
		return 0
	case 1:
		return 1
	case 2:
		return 127 + uint64(c.rng.Intn(3))
	case 3:
		return ^uint64(0)
	case 4:
		return 1 << uint(c.rng.Intn(64))
	case 5:
		return (1 << uint(7*(1+c.rng.Intn(9)))) - uint64(c.rng.Intn(2))
	}
	return c.rng.Uint64() >> uint(c.rng.Intn(64))
}

func (r *c14Run) genList(maxN, maxLen int) [][]byte {
	c := r.c
	switch c.rng.Intn(5) {
	case 0:
		return nil
	case 1:
		return [][]byte{}
	case 2:
		return [][]byte{nil}
	}
	n := 1 + c.rng.Intn(maxN)
	l := make([][]byte, n)
	for i := range l {
		l[i] = r.genBytes(maxLen)
	}
	return l
}

func (r *c14Run) genMd() *esdt.MetaData {
	c := r.c
	if c.rng.Intn(8) == 0 {
		return &esdt.MetaData{}
	}
	return &esdt.MetaData{Nonce: r.genU64(), Name: r.genBytes(12), Creator: r.genBytes(32), Royalties: uint32(r.genU64()),
		Hash: r.genBytes(32), URIs: r.genList(4, 20), Attributes: r.genBytes(24)}
}

func (r *c14Run) genTok() *esdt.ESDigitalToken {
	c := r.c
	t := &esdt.ESDigitalToken{Type: uint32(r.genU64()), Value: r.genAmount(true), Reserved: r.genBytes(6)}
	switch c.rng.Intn(5) {
	case 0:
	case 1:
		t.Properties = []byte{}
	case 2:
		t.Properties = []byte{byte(c.rng.Intn(2)), 0}
	default:
		t.Properties = r.genBytes(5)
	}
	if c.rng.Intn(5) >= 2 {
		t.TokenMetaData = r.genMd()
	}
	if c.rng.Intn(3) == 0 {
		t.Type = uint32(c.rng.Intn(3))
	}
	return t
}

func (r *c14Run) genRoles() *esdt.ESDTRoles {
	c := r.c
	names := []string{"ESDTRoleLocalMint", "ESDTRoleLocalBurn", "ESDTRoleNFTCreate", "ESDTRoleNFTAddQuantity", "ESDTRoleNFTBurn"}
	ro := &esdt.ESDTRoles{}
	switch c.rng.Intn(6) {
	case 0:
		return ro
	case 1:
		ro.Roles = [][]byte{}
		return ro
	case 2:
		ro.Roles = r.genList(5, 30)
		return ro
	}
	n := 1 + c.rng.Intn(6)
	for i := 0; i < n; i++ {
		switch c.rng.Intn(6) {
		case 0:
			ro.Roles = append(ro.Roles, nil)
		case 1:
			ro.Roles = append(ro.Roles, r.genBytes(200))
		default:
			ro.Roles = append(ro.Roles, []byte(names[c.rng.Intn(len(names))])) // duplicates allowed
		}
	}
	return ro
}

// ---------- byte-string mutations ----------

var c14Varints = [][]byte{
	{0x00}, {0x01}, {0x7f}, {0x80, 0x01}, {0x80, 0x00}, {0xff, 0x7f}, {0x80},
	{0xff, 0xff, 0xff, 0xff, 0x0f}, {0xff, 0xff, 0xff, 0xff, 0x07}, {0x80, 0x80, 0x80, 0x80, 0x10}, {0x85, 0x80, 0x80, 0x80, 0x10},
	{0xff, 0xff, 0xff, 0xff, 0xff, 0xff, 0xff, 0xff, 0x7f},             // 2^63-1
	{0x80, 0x80, 0x80, 0x80, 0x80, 0x80, 0x80, 0x80, 0x80, 0x01},       // 2^63
	{0xff, 0xff, 0xff, 0xff, 0xff, 0xff, 0xff, 0xff, 0xff, 0x01},       // 2^64-1
	{0x85, 0x80, 0x80, 0x80, 0x80, 0x80, 0x80, 0x80, 0x80, 0x02},       // 10th byte with bits beyond 64: reads as 5
	{0x81, 0x80, 0x80, 0x80, 0x80, 0x80, 0x80, 0x80, 0x80, 0x7e},       // junk high bits, reads as 1
	{0x80, 0x80, 0x80, 0x80, 0x80, 0x80, 0x80, 0x80, 0x80, 0x80, 0x00}, // 11 bytes: overflow
	{0xff, 0xff, 0xff, 0xff, 0xff, 0xff, 0xff, 0xff, 0xff, 0xff},       // 10 bytes, continuation set
	{0xfb, 0xff, 0xff, 0xff, 0xff, 0xff, 0xff, 0xff, 0x7f},             // 2^63-5: post index wraps negative
}

func c14Tag(field uint64, wt int) []byte { return c14RefVarint(field<<3 | uint64(wt)) }

// c14Item: one field occurrence with arbitrary field number and wire type
func (r *c14Run) genItem(depth int) []byte {
	c := r.c
	fields := []uint64{1, 2, 3, 4, 5, 6, 7, 8, 9, 15, 16, 100, 1 << 28, 1<<29 - 1, 0, 1<<32 + 1, 1<<32 + 2, 1 << 31, 1<<31 + 4, 1<<61 - 1}
	f := fields[c.rng.Intn(len(fields))]
	if c.rng.Intn(2) == 0 {
		f = uint64(1 + c.rng.Intn(8))
	}
	wt := c.rng.Intn(8)
	if c.rng.Intn(2) == 0 {
		wt = []int{0, 2}[c.rng.Intn(2)]
	}
	out := c14Tag(f, wt)
	if c.rng.Intn(20) == 0 { // non-minimal / overlong tag
		out = append([]byte{out[0] | 0x80}, append(bytes.Repeat([]byte{0x80}, c.rng.Intn(9)), 0x00)...)
		if len(out) > 1 {
			out[1] |= byte(f>>4) & 0x7f
		}
	}
	switch wt {
	case 0:
		if c.rng.Intn(3) == 0 {
			out = append(out, c14Varints[c.rng.Intn(len(c14Varints))]...)
		} else {
			out = append(out, c14RefVarint(r.genU64())...)
		}
	case 1:
		p := make([]byte, 8)
		c.rng.Read(p)
		out = append(out, p[:8-c.rng.Intn(2)*c.rng.Intn(8)]...)
	case 2:
		var p []byte
		switch c.rng.Intn(6) {
		case 0:
			p = c14RefAmount(r.genAmount(false))
		case 1:
			if depth < 2 {
				n := c.rng.Intn(4)
				for i := 0; i < n; i++ {
					p = append(p, r.genItem(depth+1)...)
				}
			}
		case 2:
			p = c14RefMd(r.genMd())
		default:
			p = r.genBytes(10)
		}
		switch c.rng.Intn(8) {
		case 0: // wrong length
			out = append(out, c14Varints[c.rng.Intn(len(c14Varints))]...)
		case 1:
			out = append(out, c14RefVarint(uint64(len(p)+1+c.rng.Intn(3)))...)
		default:
			out = append(out, c14RefVarint(uint64(len(p)))...)
		}
		out = append(out, p...)
	case 3:
		if depth < 3 {
			n := c.rng.Intn(3)
			for i := 0; i < n; i++ {
				out = append(out, r.genItem(depth+1)...)
			}
		}
		if c.rng.Intn(4) != 0 {
			out = append(out, c14Tag(f, 4)...)
		}
	case 5:
		p := make([]byte, 4)
		c.rng.Read(p)
		out = append(out, p[:4-c.rng.Intn(2)*c.rng.Intn(4)]...)
	}
	return out
}

func (r *c14Run) mutate(b []byte) []byte {
	c := r.c
	out := append([]byte(nil), b...)
	switch c.rng.Intn(9) {
	case 0: // truncation
		if len(out) > 0 {
			out = out[:c.rng.Intn(len(out))]
		}
	case 1: // bit flip
		if len(out) > 0 {
			out[c.rng.Intn(len(out))] ^= 1 << uint(c.rng.Intn(8))
		}
	case 2: // byte replaced
		if len(out) > 0 {
			out[c.rng.Intn(len(out))] = []byte{0, 1, 0x7f, 0x80, 0xff, 0x0a, 0x12, 0x22, 0x0b, 0x0c}[c.rng.Intn(10)]
		}
	case 3: // insert an arbitrary item at a random position (maybe inside a field)
		p := c.rng.Intn(len(out) + 1)
		out = append(out[:p:p], append(r.genItem(0), out[p:]...)...)
	case 4: // append an item
		out = append(out, r.genItem(0)...)
	case 5: // a varint spliced in
		p := c.rng.Intn(len(out) + 1)
		out = append(out[:p:p], append(append([]byte(nil), c14Varints[c.rng.Intn(len(c14Varints))]...), out[p:]...)...)
	case 6: // delete a byte
		if len(out) > 0 {
			p := c.rng.Intn(len(out))
			out = append(out[:p:p], out[p+1:]...)
		}
	case 7: // duplicate the whole message (merge semantics)
		out = append(out, out...)
	case 8: // set the continuation bit somewhere
		if len(out) > 0 {
			out[c.rng.Intn(len(out))] |= 0x80
		}
	}
	return out
}

func runC14(c *ctx) {
	r := &c14Run{c: c, decSeen: map[string]bool{}}
	c.header = "From EV Require Import Base.Bytes Base.Monad Codec.Types Codec.Varint Codec.BigIntCaster Codec.Proto Corr.C14.\n"
	c.perFile = 900
	thorough := c.thorough() || c.widen
	kinds := []*c14Kind{c14Kinds["Tok"], c14Kinds["Roles"], c14Kinds["Md"]}

	// ===== 1. amount codec: exhaustive buffers up to 3 bytes on the implementation =====
	exh := 0
	for l := 0; l <= 3; l++ {
		total := 1 << uint(8*l)
		buf := make([]byte, l)
		for x := 0; x < total; x++ {
			for i := 0; i < l; i++ {
				buf[i] = byte(x >> uint(8*(l-1-i)))
			}
			coq := false
			switch l {
			case 0, 1:
				coq = true
			case 2:
				s, b1 := buf[0], buf[1]
				coq = thorough || s <= 2 || s == 7 || s >= 254 || b1 <= 1 || b1 == 127 || b1 == 128 || b1 == 255 || x%97 == 0
			case 3:
				if thorough {
					coq = x%419 == 0
				} else {
					coq = x%16411 == 0
				}
				g := func(v byte) bool { return v == 0 || v == 1 || v == 128 || v == 255 }
				if buf[0] <= 2 && g(buf[1]) && g(buf[2]) {
					coq = true
				}
			}
			r.casterDecode(append([]byte(nil), buf...), coq)
			exh++
		}
	}
	c.rep.Evaluations += exh
	c.rep.Distinct += exh
	c.rep.Dist["amount-decode/exhaustive-len0-3"] = exh
	// 4 bytes and longer: sampled
	n4 := 200000
	if thorough {
		n4 = 5000000
	}
	for i := 0; i < n4; i++ {
		l := 4
		if i%8 == 0 {
			l = 5 + c.rng.Intn(60)
		}
		buf := make([]byte, l)
		c.rng.Read(buf)
		if i%3 != 0 {
			buf[0] = byte(c.rng.Intn(3))
		}
		if i%5 == 0 {
			buf[1] = 0
		}
		r.casterDecode(buf, i%(n4/400) == 0)
	}
	c.rep.Evaluations += n4
	c.rep.Distinct += n4
	c.rep.Dist["amount-decode/sampled-len4plus"] = n4
	// encode side: boundary values and random ones
	var amounts []*big.Int
	amounts = append(amounts, nil, big.NewInt(0), big.NewInt(1), big.NewInt(-1), big.NewInt(255), big.NewInt(-255), big.NewInt(256), big.NewInt(-256))
	for _, k := range []uint{7, 8, 15, 16, 31, 32, 63, 64, 65, 127, 128, 255, 256, 512, 1024, 4096} {
		p := new(big.Int).Lsh(big.NewInt(1), k)
		amounts = append(amounts, p, new(big.Int).Neg(p), new(big.Int).Sub(p, big.NewInt(1)), new(big.Int).Neg(new(big.Int).Sub(p, big.NewInt(1))), new(big.Int).Add(p, big.NewInt(1)))
	}
	for i, v := range amounts {
		// the model's N_to_be is quadratic: above 2^1100 only the power of two itself goes to the Coq side
		r.casterEncode(v, v == nil || v.BitLen() <= 1100 || (i-8)%5 == 0, "boundary")
	}
	nAm := 300
	if thorough {
		nAm = 3000
	}
	for i := 0; i < nAm; i++ {
		r.casterEncode(r.genAmount(true), true, "random")
	}
	// very large magnitudes: implementation monitors only (the decimal numeral would dominate the Coq run)
	for _, bits := range []uint{1 << 16, 1<<18 + 7, 1 << 20, 1 << 23} {
		p := new(big.Int).Lsh(big.NewInt(1), bits)
		r.casterEncode(p, false, "huge")
		r.casterEncode(new(big.Int).Neg(new(big.Int).Sub(p, big.NewInt(1))), false, "huge")
		if bits > 1<<18+7 {
			continue
		}
		tk := &esdt.ESDigitalToken{Type: 1, Value: new(big.Int).Neg(p), TokenMetaData: &esdt.MetaData{Nonce: 1, URIs: [][]byte{bytes.Repeat([]byte{7}, int(bits/64))}}}
		r.encodeValue(c14Kinds["Tok"], tk, false, "huge")
	}

	// ===== 2. structured values through Marshal / Size / Unmarshal =====
	// the example pinned in coq/Codec/ExamplesC14.v
	exTok := &esdt.ESDigitalToken{Type: 1, Value: new(big.Int).Neg(new(big.Int).Lsh(big.NewInt(1), 200)), Properties: []byte{1, 0},
		TokenMetaData: &esdt.MetaData{Nonce: ^uint64(0), Name: []byte("nft"), Creator: bytes.Repeat([]byte{0xff}, 32), Royalties: 10000,
			Hash: []byte{0, 0xff}, URIs: [][]byte{{}, []byte("u")}}}
	exHex := "0801121b0101" + strings.Repeat("00", 25) + "1a020100223e08ffffffffffffffffff0112036e66741a20" + strings.Repeat("ff", 32) + "20904e2a0200ff3200320175"
	if b := r.encodeValue(c14Kinds["Tok"], exTok, true, "pinned-example"); hex.EncodeToString(b) != exHex {
		c.fail("monitor", "format-pinned-example", fmt.Sprintf("the pinned example token encodes to %x, documented %s", b, exHex), map[string]string{"value": c14Tok(exTok)})
	}
	c.sample(map[string]string{"token": c14Tok(exTok), "marshal": exHex, "size": "99"})
	fixedToks := []*esdt.ESDigitalToken{
		{}, {Value: big.NewInt(0)}, esdt.New(), {Value: big.NewInt(-5)}, {Type: 1, Value: big.NewInt(1), TokenMetaData: &esdt.MetaData{}},
		{Type: ^uint32(0), Value: big.NewInt(10), Properties: []byte{}, Reserved: []byte{}, TokenMetaData: &esdt.MetaData{URIs: [][]byte{}}},
		{Type: 2, Value: big.NewInt(1), Properties: []byte{1, 0}, TokenMetaData: &esdt.MetaData{Nonce: 1, URIs: [][]byte{nil, {}, []byte("a")}}},
		{Type: 128, Properties: bytes.Repeat([]byte{9}, 127), Reserved: bytes.Repeat([]byte{9}, 128)},
		{Type: 1, Value: big.NewInt(1), TokenMetaData: &esdt.MetaData{Nonce: 1 << 63, Royalties: ^uint32(0), Name: bytes.Repeat([]byte{'n'}, 16384), Attributes: []byte{0}}},
	}
	for _, t := range fixedToks {
		r.encodeValue(c14Kinds["Tok"], t, true, "fixed")
	}
	nVal := 500
	if thorough {
		nVal = 6000
	}
	var validEnc = map[string][][]byte{}
	for i := 0; i < nVal; i++ {
		t := r.genTok()
		if b := r.encodeValue(c14Kinds["Tok"], t, true, "random"); b != nil && len(b) < 220 {
			validEnc["Tok"] = append(validEnc["Tok"], b)
		}
		if i < 2 {
			b, _, _, _ := c14Marshal(t)
			c.sample(map[string]string{"token": c14Tok(t), "marshal": hex.EncodeToString(b)})
		}
		if i%2 == 0 {
			m := r.genMd()
			if b := r.encodeValue(c14Kinds["Md"], m, true, "random"); b != nil && len(b) < 220 {
				validEnc["Md"] = append(validEnc["Md"], b)
			}
			ro := r.genRoles()
			if b := r.encodeValue(c14Kinds["Roles"], ro, true, "random"); b != nil && len(b) < 220 {
				validEnc["Roles"] = append(validEnc["Roles"], b)
			}
			if i == 0 {
				b, _, _, _ := c14Marshal(ro) // recovering wrapper: a panicking encoder is a monitor failure above, not a crash of the run
				c.sample(map[string]string{"roles": c14Roles(ro), "marshal": hex.EncodeToString(b)})
			}
		}
	}
	r.encodeValue(c14Kinds["Roles"], &esdt.ESDTRoles{}, true, "fixed")
	r.encodeValue(c14Kinds["Roles"], &esdt.ESDTRoles{Roles: [][]byte{nil, {}, []byte("ESDTRoleLocalMint"), []byte("ESDTRoleLocalMint")}}, true, "fixed")
	r.encodeValue(c14Kinds["Md"], &esdt.MetaData{}, true, "fixed")

	// ===== 3. decode: arbitrary and mutated byte strings =====
	// 3a. exhaustive short strings on the implementation; the model sees length <= 1 and a grid of length 2
	for _, k := range kinds {
		n := 0
		for l := 0; l <= 2; l++ {
			total := 1 << uint(8*l)
			for x := 0; x < total; x++ {
				buf := make([]byte, l)
				for i := 0; i < l; i++ {
					buf[i] = byte(x >> uint(8*(l-1-i)))
				}
				coq := l < 2 || thorough && x%5 == 0
				if l == 2 {
					b1 := buf[1]
					if b1 <= 2 || b1 == 0x7f || b1 == 0x80 || b1 == 0xff || b1 == buf[0] || b1 == buf[0]+1 {
						coq = true
					}
				}
				r.decodeBytes(k, buf, coq, "exhaustive-len0-2")
				n++
			}
		}
		_ = n
	}
	// 3b. the malformed inputs pinned in coq/Codec/ExamplesC14.v and hand-written protocol edge cases
	for _, h := range []string{"08", "0880808080808080808080", "12ffffffffffffffffff01", "12ffffffffffffffff7f", "1205", "0a00", "00", "0c", "1200",
		"3b3c", "3b", "3e", "39", "88808080800105", "1201002200", "120100220208012202100a", "1201001201051a001a0101", "080508002a002a0141",
		"12020700", "12020701", "1203000001", "120201ff", "12", "1280", "3a05", "3d01020304", "3d010203", "390102030405060708", "3901020304050607",
		"3b3b3c3c", "3b3c3c", "3b0801123c", "3b3a0212343c", "3a8080808080808080800100", "3afbffffffffffffff7f", "3a8180808080808080807e41",
		"0a000a0141", "0a", "0a01", "08c803", "2205080112016e", "220408011205", "22023205", "2204320161", "120100" + "2202" + "0805" + "2202" + "2001",
		"8201", "f8ffffffff0f00", "80808080800800", "fa0100", "1a8580808080808080800268656c6c6f"} {
		b, _ := hex.DecodeString(h)
		for _, k := range kinds {
			r.decodeBytes(k, b, true, "hand-written")
		}
	}
	// 3c. every truncation and every single-bit flip of a few valid encodings
	exB, _ := hex.DecodeString(exHex)
	systematic := map[string][][]byte{"Tok": {exB}, "Md": {exB[37:]}, "Roles": {c14RefRoles(&esdt.ESDTRoles{Roles: [][]byte{[]byte("ESDTRoleLocalMint"), {}, []byte("x")}})}}
	for _, k := range kinds {
		encs := systematic[k.name]
		for i := 0; i < 3 && i < len(validEnc[k.name]); i++ {
			encs = append(encs, validEnc[k.name][i])
		}
		for ei, e := range encs {
			for cut := 0; cut <= len(e); cut++ {
				r.decodeBytes(k, e[:cut], true, "truncation")
			}
			for pos := 0; pos < len(e); pos++ {
				for bit := 0; bit < 8; bit++ {
					if ei > 0 && !thorough && (pos*8+bit)%3 != 0 {
						continue
					}
					m := append([]byte(nil), e...)
					m[pos] ^= 1 << uint(bit)
					r.decodeBytes(k, m, true, "bit-flip")
				}
			}
			// every varint pattern in place of every byte position
			for pos := 0; pos < len(e); pos += 1 + len(e)/24 {
				for _, v := range c14Varints {
					m := append(append(append([]byte(nil), e[:pos]...), v...), e[pos+1:]...)
					r.decodeBytes(k, m, ei == 0 || thorough, "varint-splice")
				}
			}
		}
	}
	// 3d. wrong wire types / unknown fields / groups: every (field 0..9, wire type 0..7) with plausible payloads
	for f := uint64(0); f <= 9; f++ {
		for wt := 0; wt < 8; wt++ {
			for _, payload := range [][]byte{nil, {0x00}, {0x01, 0x00}, {0x02, 0x00, 0x00}, {0x05}, {1, 2, 3, 4, 5, 6, 7, 8}, {0x80}, {0xff, 0xff, 0xff, 0xff, 0xff, 0xff, 0xff, 0xff, 0xff, 0x01}} {
				b := append(c14Tag(f, wt), payload...)
				for _, k := range kinds {
					r.decodeBytes(k, b, true, "field-x-wiretype")
					r.decodeBytes(k, append(append([]byte(nil), b...), 0x12, 0x01, 0x00), len(payload) < 3, "field-x-wiretype")
				}
			}
		}
	}
	// 3e. random mutations of valid encodings and random item sequences
	nMut := 2500
	if thorough {
		nMut = 40000
	}
	for i := 0; i < nMut; i++ {
		for _, k := range kinds {
			var b []byte
			tag := "mutated-valid"
			switch {
			case i%4 == 3:
				tag = "random-items"
				n := c.rng.Intn(5)
				for j := 0; j < n; j++ {
					b = append(b, r.genItem(0)...)
				}
			case i%16 == 5:
				tag = "random-bytes"
				b = make([]byte, c.rng.Intn(24))
				c.rng.Read(b)
			default:
				src := validEnc[k.name]
				b = src[c.rng.Intn(len(src))]
				n := 1 + c.rng.Intn(3)
				for j := 0; j < n; j++ {
					b = r.mutate(b)
				}
			}
			if len(b) > 600 {
				b = b[:600]
			}
			r.decodeBytes(k, b, i%3 == 0 || thorough && i%2 == 0, tag)
		}
	}
	// 3f. merge semantics: Unmarshal without Reset into a populated receiver
	nMerge := 150
	if thorough {
		nMerge = 1500
	}
	for i := 0; i < nMerge; i++ {
		var b []byte
		pick := func(name string) []byte {
			src := validEnc[name]
			x := src[c.rng.Intn(len(src))]
			if c.rng.Intn(3) == 0 {
				x = r.mutate(x)
			}
			if len(x) > 300 {
				x = x[:300]
			}
			return x
		}
		b = pick("Tok")
		r.mergeBytes(c14Kinds["Tok"], r.genTok(), b)
		r.mergeBytes(c14Kinds["Md"], r.genMd(), pick("Md"))
		r.mergeBytes(c14Kinds["Roles"], r.genRoles(), pick("Roles"))
	}

	c.sample(map[string]string{"amount_nil": hex.EncodeToString(c14RefAmount(nil)), "amount_zero": hex.EncodeToString(c14RefAmount(big.NewInt(0))),
		"amount_minus_256": hex.EncodeToString(c14RefAmount(big.NewInt(-256)))})
	c.sample(map[string]string{"decode": "0880808080808080808080", "result": func() string {
		cl, _, info := c14Decode(c14Kinds["Tok"], nil, []byte{8, 0x80, 0x80, 0x80, 0x80, 0x80, 0x80, 0x80, 0x80, 0x80, 0x80})
		return cl + ": " + info
	}()})
	c.rep.Rule = "amount codec: EVERY buffer of length 0..3 (16843009) plus sampled buffers of length 4..64 through the real BigIntCaster.Unmarshal with the documented acceptance rule as oracle, re-encoding and canonical-buffer monitors; boundary (nil, 0, +/-1, +/-(2^k-1), +/-2^k, 2^k+1 for k up to 4096), random and very large (up to 2^(2^23)) values through Size/MarshalTo/Unmarshal and MarshalTo into buffers of other lengths. Messages: a pinned example, fixed edge values and generated ESDigitalToken / MetaData / ESDTRoles values (nil vs empty vs non-empty for every bytes field, nil / empty / present sub-message, empty list elements, duplicate roles, nil / zero / negative / huge Value, scalar boundary values 0, 1, 127..129, 2^7k, 2^32-1, 2^64-1) through Marshal, Size, Reset+Unmarshal with monitors round trip (field-wise and generated Equal), Size()==len(Marshal()), Marshal twice / on an equal copy / after a decode-encode cycle, bytes == an independent reference encoder of the documented format. Decoding: every byte string of length 0..2 for each of the three decoders; hand-written protocol edge cases; every truncation, every single-bit flip and every varint-pattern splice of valid encodings; every (field 0..9, wire type 0..7) pair with several payloads; random mutations (truncate, flip, replace, insert/append arbitrary items incl. groups, fixed32/64, overlong tags, field numbers 0, 2^31.., 2^32+1, lengths 2^63-5 .. 2^64-1, 11-byte varints, duplicate the message) and random item sequences; Unmarshal without Reset into populated receivers. Monitors: never panics (recover), a decoded value re-encodes to a canonical form with the documented format that decodes to the same value, input not modified. Every sampled input is also evaluated by the Coq model (bytes, Size, decoded value field by field, or class error/panic). A case is non-trivial when its input is distinct."
	c.rep.Exhaustive = false
	c.rep.Extra = map[string]interface{}{"amount_buffers_exhaustive": exh, "amount_buffers_sampled": n4}
}
