package main

// C16 — every function is priced by its own entry of the current gas schedule.
//
// (A) schedule acceptance: two-level maps (valid, each of the 22 fields zero / missing in turn, missing or
//     empty sections, unknown extra keys, case variants, random) are handed to the REAL
//     NewBuiltInFunctionsFactory; monitor: accepted iff all 22 entries are present and non-zero.
// (B) sequences of accepted/rejected GasScheduleChange calls on the real factories of a two-shard world,
//     schedules with pairwise distinct costs; then every priced function (origin side, several argument
//     sizes) is executed: monitor  GasProvided - GasRemaining - sum(GasLimit) == the function's OWN field
//     (+ per-byte components) of the schedule that must be in force (the last accepted one).
// Every executed call is also an xcase for the Coq model (gas projection, x_cfg = schedule in force); the
// maps of (A) and the sequences of (B) are re-evaluated by the model's create_gas_config / in_force.

import (
	"bytes"
	"fmt"
	"math/big"
	"sort"
	"strings"

	vmcommon "github.com/ElrondNetwork/elrond-vm-common"
	"github.com/ElrondNetwork/elrond-vm-common/data/esdt"
)

const schedHeader = "From EV Require Import Base.Bytes Ledger.Types LedgerProofs.GasSchedule Corr.C16.\nFrom Coq.Strings Require Import String.\nLocal Open Scope string_scope.\n"

type gasMapT = map[string]map[string]uint64

func cloneGasMap(m gasMapT) gasMapT {
	if m == nil {
		return nil
	}
	out := gasMapT{}
	for k, sec := range m {
		if sec == nil {
			out[k] = nil
			continue
		}
		out[k] = map[string]uint64{}
		for f, v := range sec {
			out[k][f] = v
		}
	}
	return out
}

func cSmap(m gasMapT) string {
	var secs []string
	var ks []string
	for k := range m {
		ks = append(ks, k)
	}
	sort.Strings(ks)
	for _, k := range ks {
		var fs []string
		var fk []string
		for f := range m[k] {
			fk = append(fk, f)
		}
		sort.Strings(fk)
		for _, f := range fk {
			fs = append(fs, fmt.Sprintf("(%s, %s)", cBytes([]byte(f)), cN(m[k][f])))
		}
		secs = append(secs, fmt.Sprintf("(%s, %s)", cBytes([]byte(k)), cList(fs)))
	}
	return cList(secs)
}

// readField: what the decoder finds for a struct field: the exact key, else the (unique) key equal up to case, else 0
func readField(sec map[string]uint64, name string) uint64 {
	if v, ok := sec[name]; ok {
		return v
	}
	for k, v := range sec {
		if strings.EqualFold(k, name) {
			return v
		}
	}
	return 0
}

// scheduleValues: the 16 + 6 values a schedule map denotes, and whether the property says it must be accepted
func scheduleValues(m gasMapT) ([]uint64, bool) {
	var vals []uint64
	ok := true
	for _, f := range builtInCostFields {
		v := readField(m["BuiltInCost"], f)
		vals = append(vals, v)
		ok = ok && v != 0
	}
	for _, f := range baseCostFields {
		v := readField(m["BaseOperationCost"], f)
		vals = append(vals, v)
		ok = ok && v != 0
	}
	return vals, ok
}

func canonicalSchedule(vals []uint64) gasMapT {
	m := gasMapT{"BuiltInCost": {}, "BaseOperationCost": {}}
	for i, f := range builtInCostFields {
		m["BuiltInCost"][f] = vals[i]
	}
	for i, f := range baseCostFields {
		m["BaseOperationCost"][f] = vals[len(builtInCostFields)+i]
	}
	return m
}

// realAccepts: does the real factory constructor (createGasConfig) accept the map?
func realAccepts(m gasMapT) bool {
	w, _ := newWorld(1, m)
	return w.build() == nil
}

// distinctSchedule: pairwise distinct values over all 22 fields
func distinctSchedule(base, step, byteBase uint64) gasMapT {
	m := distinctGas(base, step)
	for i, f := range baseCostFields {
		m["BaseOperationCost"][f] = byteBase + uint64(i)
	}
	return m
}

type namedMap struct {
	Name string
	M    gasMapT
}

// rejectedVariants: one map per field with that field zero, and one with it missing
func rejectedVariants(valid gasMapT) []namedMap {
	var out []namedMap
	secs := []struct {
		sec    string
		fields []string
	}{{"BuiltInCost", builtInCostFields}, {"BaseOperationCost", baseCostFields}}
	for _, s := range secs {
		for _, f := range s.fields {
			z := cloneGasMap(valid)
			z[s.sec][f] = 0
			out = append(out, namedMap{"zero:" + s.sec + "." + f, z})
			d := cloneGasMap(valid)
			delete(d[s.sec], f)
			out = append(out, namedMap{"missing:" + s.sec + "." + f, d})
		}
	}
	return out
}

func (c *ctx) scheduleMaps(valid gasMapT) []namedMap {
	out := []namedMap{{"valid", cloneGasMap(valid)}, {"nil-map", nil}, {"empty-map", gasMapT{}}}
	out = append(out, rejectedVariants(valid)...)
	for _, sec := range []string{"BuiltInCost", "BaseOperationCost"} {
		d := cloneGasMap(valid)
		delete(d, sec)
		out = append(out, namedMap{"missing-section:" + sec, d})
		e := cloneGasMap(valid)
		e[sec] = map[string]uint64{}
		out = append(out, namedMap{"empty-section:" + sec, e})
		n := cloneGasMap(valid)
		n[sec] = nil
		out = append(out, namedMap{"nil-section:" + sec, n})
		// the section under a differently-cased name is a different key of the outer map
		r := cloneGasMap(valid)
		r[strings.ToLower(sec)] = r[sec]
		delete(r, sec)
		out = append(out, namedMap{"section-name-lowercased:" + sec, r})
	}
	x := cloneGasMap(valid)
	x["BuiltInCost"]["SomethingElse"] = 0
	x["BaseOperationCost"]["Unknown"] = 7
	x["MetaChainSystemSCsCost"] = map[string]uint64{"Stake": 0}
	out = append(out, namedMap{"unknown-extra-keys", x})
	// field names are matched up to case when the exact key is absent
	cv := cloneGasMap(valid)
	cv["BaseOperationCost"]["storeperbyte"] = cv["BaseOperationCost"]["StorePerByte"]
	delete(cv["BaseOperationCost"], "StorePerByte")
	cv["BuiltInCost"]["ESDTNFTCREATE"] = cv["BuiltInCost"]["ESDTNFTCreate"]
	delete(cv["BuiltInCost"], "ESDTNFTCreate")
	out = append(out, namedMap{"case-variant-keys", cv})
	ez := cloneGasMap(valid)
	ez["BuiltInCost"]["esdttransfer"] = 99 // the exact key wins: zero
	ez["BuiltInCost"]["ESDTTransfer"] = 0
	out = append(out, namedMap{"exact-zero-beats-case-variant", ez})
	en := cloneGasMap(valid)
	en["BuiltInCost"]["esdttransfer"] = 0 // the exact key wins: non-zero
	out = append(out, namedMap{"exact-nonzero-beats-zero-case-variant", en})
	vz := cloneGasMap(valid)
	vz["BuiltInCost"]["saveusername"] = 0
	delete(vz["BuiltInCost"], "SaveUserName")
	out = append(out, namedMap{"case-variant-zero", vz})
	big := cloneGasMap(valid)
	for i, f := range builtInCostFields {
		big["BuiltInCost"][f] = 1<<64 - 1 - uint64(i)
	}
	out = append(out, namedMap{"values-near-2^64", big})
	one := cloneGasMap(valid)
	for _, f := range builtInCostFields {
		one["BuiltInCost"][f] = 1
	}
	for _, f := range baseCostFields {
		one["BaseOperationCost"][f] = 1
	}
	out = append(out, namedMap{"all-ones", one})
	// random maps
	n := 60
	if c.thorough() || c.widen {
		n = 1500
	}
	for i := 0; i < n; i++ {
		m := cloneGasMap(valid)
		for _, sec := range []string{"BuiltInCost", "BaseOperationCost"} {
			for f := range valid[sec] {
				switch c.rng.Intn(40) {
				case 0:
					m[sec][f] = 0
				case 1:
					delete(m[sec], f)
				case 2:
					m[sec][strings.ToUpper(f)] = m[sec][f]
					delete(m[sec], f)
				case 3:
					m[sec][f] = c.rng.Uint64()
				}
			}
			if c.rng.Intn(6) == 0 {
				m[sec][fmt.Sprintf("Extra%d", c.rng.Intn(5))] = uint64(c.rng.Intn(3))
			}
		}
		if c.rng.Intn(25) == 0 {
			delete(m, []string{"BuiltInCost", "BaseOperationCost"}[c.rng.Intn(2)])
		}
		out = append(out, namedMap{fmt.Sprintf("random-%d", i), m})
	}
	return out
}

func (c *ctx) schedStream(f func()) {
	c.withStream("sched", schedHeader, "scase", "smismatches cases", 300, f)
}

// ---------------------------------------------------------------- (A) acceptance
func (c *ctx) acceptance(valid gasMapT) {
	for _, nm := range c.scheduleMaps(valid) {
		_, want := scheduleValues(nm.M)
		got := realAccepts(nm.M)
		c.note("accept/"+nm.Name+"/"+cSmap(nm.M), true)
		c.count(fmt.Sprintf("acceptance/%s", map[bool]string{true: "accepted", false: "rejected"}[got]))
		if got != want {
			sig := "schedule-with-zero-or-missing-entry-accepted"
			if want {
				sig = "complete-nonzero-schedule-rejected"
			}
			c.fail("monitor", sig, fmt.Sprintf("schedule %q: all 22 entries present and non-zero = %v, but the factory accepted = %v", nm.Name, want, got),
				map[string]interface{}{"schedule": nm.M, "name": nm.Name})
		}
		m := nm.M
		c.schedStream(func() {
			c.addCase(fmt.Sprintf("SchedCase %s %s", cSmap(m), cBool(got)), "schedule "+nm.Name+" "+fmt.Sprint(m))
		})
	}
}

// ---------------------------------------------------------------- (B) charges after sequences of changes

// payloadLen: length of the marshalled entry that travels when `caller` sends quantity q of (tok, nonce) to dst
func payloadLen(w *hWorld, shard uint32, caller, tok []byte, nonce uint64, q *big.Int, dst []byte) (int, error) {
	sh := w.shards[shard]
	key := string(esdtPrefix) + string(tok) + string(new(big.Int).SetUint64(nonce).Bytes())
	raw, ok := sh.account(caller).storage[key]
	if !ok {
		return 0, fmt.Errorf("sender holds no entry under %q", key)
	}
	t := &esdt.ESDigitalToken{}
	if err := t.Unmarshal(raw); err != nil {
		return 0, err
	}
	t.Value = new(big.Int).Set(q)
	if w.shardOf(dst) == shard {
		if draw, ok := sh.account(dst).storage[key]; ok {
			d := &esdt.ESDigitalToken{}
			if err := d.Unmarshal(draw); err != nil {
				return 0, err
			}
			if d.Value != nil {
				t.Value.Add(t.Value, d.Value)
			}
		}
	}
	b, err := t.Marshal()
	return len(b), err
}

func argBytes(args [][]byte) uint64 {
	n := uint64(0)
	for _, a := range args {
		n += uint64(len(a))
	}
	return n
}

// expectedCharge: the property's formula for a successful origin-side execution under schedule g (evaluated on the
// pre-state); ok=false for the paths the property does not price (destination side, system functions, forwarding of everything)
func expectedCharge(sc *gasScenario, g gasMapT) (uint64, bool, error) {
	cs, w := sc.Call, sc.W
	bc, bo := g["BuiltInCost"], g["BaseOperationCost"]
	origin := cs.Snd
	switch cs.Fn {
	case "ClaimDeveloperRewards":
		if strings.Contains(sc.Name, "contract caller") {
			return 0, false, nil // the remaining gas is dropped (see C06): not a priced path
		}
		return bc["ClaimDeveloperRewards"], origin, nil
	case "ChangeOwnerAddress":
		return bc["ChangeOwnerAddress"], origin, nil
	case "SetUserName":
		return bc["SaveUserName"], cs.Dst, nil // charged where the name is written
	case "ESDTTransfer":
		return bc["ESDTTransfer"], origin, nil
	case "ESDTBurn", "ESDTLocalMint", "ESDTLocalBurn", "ESDTNFTAddQuantity", "ESDTNFTBurn":
		return bc[cs.Fn], origin, nil
	case "ESDTNFTCreate":
		return bc["ESDTNFTCreate"] + argBytes(cs.Args)*bo["StorePerByte"], true, nil
	case "ESDTNFTAddURI":
		return bc["ESDTNFTAddURI"] + argBytes(cs.Args[2:])*bo["StorePerByte"], true, nil
	case "ESDTNFTUpdateAttributes":
		return bc["ESDTNFTUpdateAttributes"] + uint64(len(cs.Args[2]))*bo["StorePerByte"], true, nil
	case "SaveKeyValue":
		use := bc["SaveKeyValue"]
		st := map[string][]byte{}
		for k, v := range w.shards[cs.Shard].account(cs.Caller).storage {
			st[k] = v
		}
		for i := 0; i+1 < len(cs.Args); i += 2 {
			k, v := cs.Args[i], cs.Args[i+1]
			use += uint64(len(k)+len(v)) * bo["PersistPerByte"]
			old := st[string(k)]
			if bytes.Equal(old, v) {
				continue
			}
			if len(v) > len(old) {
				use += uint64(len(v)-len(old)) * bo["StorePerByte"]
			}
			st[string(k)] = v
		}
		return use, true, nil
	case "ESDTNFTTransfer":
		if !bytes.Equal(cs.Caller, cs.Rcpt) {
			return 0, false, nil
		}
		n, err := payloadLen(w, cs.Shard, cs.Caller, cs.Args[0], new(big.Int).SetBytes(cs.Args[1]).Uint64(), new(big.Int).SetBytes(cs.Args[2]), cs.Args[3])
		return bc["ESDTNFTTransfer"] + uint64(n)*bo["DataCopyPerByte"], true, err
	case "MultiESDTNFTTransfer":
		if !bytes.Equal(cs.Caller, cs.Rcpt) {
			return 0, false, nil
		}
		cnt := new(big.Int).SetBytes(cs.Args[1]).Uint64()
		use := cnt * bc["ESDTNFTMultiTransfer"]
		for i := uint64(0); i < cnt; i++ {
			tok, nonce, q := cs.Args[2+3*i], new(big.Int).SetBytes(cs.Args[3+3*i]).Uint64(), new(big.Int).SetBytes(cs.Args[4+3*i])
			if nonce == 0 {
				continue
			}
			n, err := payloadLen(w, cs.Shard, cs.Caller, tok, nonce, q, cs.Args[0])
			if err != nil {
				return 0, true, err
			}
			use += uint64(n) * bo["DataCopyPerByte"]
		}
		return use, true, nil
	}
	return 0, false, nil
}

type changeSeq struct {
	Name    string
	Init    gasMapT
	Changes []namedMap
	Reduced bool // run one scenario per priced function instead of the whole set
}

var c16Toggle int

func (c *ctx) chargesAfter(u *universe, seq changeSeq, sizes []int) {
	// the schedule that must be in force
	vals, ok := scheduleValues(seq.Init)
	if !ok {
		panic("C16: initial schedule of a sequence must be valid")
	}
	var changes []gasMapT
	for _, ch := range seq.Changes {
		v, acc := scheduleValues(ch.M)
		if acc {
			vals = v
		}
		changes = append(changes, ch.M)
		c.count(fmt.Sprintf("change/%s", map[bool]string{true: "to-be-accepted", false: "to-be-rejected"}[acc]))
	}
	inForce := canonicalSchedule(vals)
	// every other sequence: its first change reaches the factories between their construction and the creation of their containers
	c16Toggle++
	early := 0
	if len(changes) > 0 && c16Toggle%2 == 0 {
		early = 1
		c.count("change/delivered-before-container-creation")
	}
	sameObject := len(changes) > 0 && c16Toggle%3 == 0
	if sameObject {
		c.count("change/announced-through-one-map-object-edited-in-place")
	}
	mk := func() *hWorld {
		u.earlyGas = nil
		for _, ch := range changes[:early] {
			u.earlyGas = append(u.earlyGas, cloneGasMap(ch))
		}
		first := cloneGasMap(seq.Init)
		w := u.stdWorld(2, 0, first)
		u.earlyGas = nil
		u.populate(w)
		for _, ch := range changes[early:] {
			if sameObject {
				// the node announces every schedule through ONE map object that it edits in place (the object the factory was built with)
				for k := range first {
					delete(first, k)
				}
				for k, v := range cloneGasMap(ch) {
					first[k] = v
				}
			}
			for _, sh := range w.shards {
				if sameObject {
					sh.factory.GasScheduleChange(first)
				} else {
					sh.factory.GasScheduleChange(cloneGasMap(ch))
				}
			}
		}
		w.gasMap = inForce // what the Coq case carries as the schedule in force
		return w
	}
	var vl []string
	for _, v := range vals {
		vl = append(vl, cN(v))
	}
	var cl []string
	for _, ch := range changes {
		cl = append(cl, cSmap(ch))
	}
	c.schedStream(func() {
		c.addCase(fmt.Sprintf("ChangeCase %s %s %s", cSmap(seq.Init), cList(cl), cList(vl)), "sequence "+seq.Name)
	})
	c.header = execHeader
	c.caseType = "xcase"
	c.mismatchExpr = "xmismatches (" + projGas + ") cases"
	c.perFile = 250
	seenFn := map[string]bool{}
	for _, sc := range gasScenarios(u, mk, sizes) {
		want, priced, err := expectedCharge(sc, inForce)
		if err != nil {
			panic(fmt.Sprintf("C16: scenario %q: %v", sc.Name, err))
		}
		if !priced {
			continue
		}
		if seq.Reduced {
			if seenFn[sc.Call.Fn] {
				continue
			}
			seenFn[sc.Call.Fn] = true
		}
		name := seq.Name + " | " + sc.Name
		replay := func(g uint64) map[string]interface{} {
			var chn []interface{}
			for _, ch := range seq.Changes {
				chn = append(chn, map[string]interface{}{"name": ch.Name, "map": ch.M})
			}
			cs := *sc.Call
			cs.Gas = g
			return map[string]interface{}{"sequence": seq.Name, "initial_schedule": seq.Init, "changes": chn, "schedule_in_force": inForce,
				"scenario": sc.Name, "call": describeCall(&cs), "pre": digestAccounts(snapshotShard(sc.W.shards[sc.Call.Shard]))}
		}
		c.count("priced/" + sc.Call.Fn)
		for _, g := range []uint64{learnGas, want, want - 1} {
			if g == want-1 && want == 0 {
				continue
			}
			res := c.runOn(sc, g, true)
			c.note(fmt.Sprintf("%s/gas=%d", name, g), true)
			if res.Status == 2 {
				c.fail("panic", "panic/"+sc.Call.Fn, fmt.Sprintf("%s with gas %d panicked: %s", name, g, res.PanicMsg), replay(g))
				continue
			}
			if g >= want {
				if res.Status != 0 || res.Out == nil {
					msg := ""
					if res.Err != nil {
						msg = res.Err.Error()
					}
					c.fail("monitor", "priced-call-rejected/"+sc.Call.Fn,
						fmt.Sprintf("%s: formula under the schedule in force = %d, GasProvided = %d, but the call failed: %s", name, want, g, msg), replay(g))
					continue
				}
				spent := new(big.Int).Sub(new(big.Int).SetUint64(g), gasOut(res.Out))
				if spent.Cmp(new(big.Int).SetUint64(want)) != 0 {
					c.fail("monitor", "wrong-charge/"+sc.Call.Fn,
						fmt.Sprintf("%s: spent %s, the function's own entry (+ per-byte components) of the schedule in force gives %d", name, spent, want), replay(g))
				}
				if len(c.rep.Samples) < 8 && g == learnGas {
					c.sample(map[string]interface{}{"sequence": seq.Name, "scenario": sc.Name, "charge": want})
				}
				// the price does not depend on the call type: the same sender-side execution as an asynchronous call, a callback and a
				// transfer-and-execute call (only where the caller's account is local: a callback without it is the returning leg, not priced)
				if g == learnGas && sc.Call.Snd && sc.Call.CallType == vmcommon.DirectCall {
					for _, ct := range []vmcommon.CallType{vmcommon.AsynchronousCall, vmcommon.AsynchronousCallBack, vmcommon.ESDTTransferAndExecute} {
						call := *sc.Call
						call.CallType = ct
						sc2 := &gasScenario{Name: sc.Name, W: sc.W, Call: &call}
						res2 := c.runOn(sc2, g, ct == vmcommon.AsynchronousCallBack)
						c.note(fmt.Sprintf("%s/calltype=%d", name, ct), true)
						if res2.Status != 0 || res2.Out == nil {
							c.count(fmt.Sprintf("priced-calltype/%d/rejected/%s", ct, sc.Call.Fn))
							continue
						}
						c.count(fmt.Sprintf("priced-calltype/%d/ok/%s", ct, sc.Call.Fn))
						if spent2 := new(big.Int).Sub(new(big.Int).SetUint64(g), gasOut(res2.Out)); spent2.Cmp(new(big.Int).SetUint64(want)) != 0 {
							r := replay(g)
							r["call_type"] = int(ct)
							c.fail("monitor", "wrong-charge/"+sc.Call.Fn, fmt.Sprintf("%s as call type %d: spent %s, the function's own entry (+ per-byte components) gives %d", name, ct, spent2, want), r)
						}
					}
				}
			} else if res.Status == 0 && res.Out != nil && gasOut(res.Out).Sign() != 0 {
				c.fail("monitor", "underfunded-keeps-gas/"+sc.Call.Fn,
					fmt.Sprintf("%s: formula %d, GasProvided %d: succeeded with something left", name, want, g), replay(g))
			}
		}
	}
}

func init() {
	runners["C16"] = func(c *ctx) {
		u := newUniverse()
		c.rep.Rule = "(A) two-level schedule maps (valid; each of the 22 fields zero / missing in turn; missing, empty, nil, renamed sections; unknown keys; case variants; values near 2^64; random) " +
			"given to the real NewBuiltInFunctionsFactory: accepted iff all 22 entries present and non-zero; re-evaluated by the model's create_gas_config. " +
			"(B) sequences of accepted/rejected GasScheduleChange calls (schedules with pairwise distinct values) on the real factories of a 2-shard world, then every priced function " +
			"(origin side; SetUserName where the name is written) at several argument sizes with gas {2^62, formula, formula-1}: spent == own cost + per-byte components of the schedule in force " +
			"(last accepted); each call re-evaluated by the Coq model with the schedule in force; each sequence by the model's in_force. distinct = distinct (sequence, scenario, gas) resp. schedule map."
		A := distinctSchedule(100, 7, 2)
		B := distinctSchedule(1000, 13, 11)
		D := distinctSchedule(1<<32-400, 17, 1<<32-40) // costs near the top of the 32-bit range
		c.header = execHeader
		c.acceptance(A)
		sizes := []int{0, 3, 40}
		if c.thorough() || c.widen {
			sizes = []int{0, 1, 3, 17, 40, 300, 5000}
		}
		rejA := rejectedVariants(B)
		seqs := []changeSeq{
			{Name: "no change", Init: A},
			{Name: "accept B", Init: A, Changes: []namedMap{{"B", B}}},
			{Name: "accept B, accept D", Init: A, Changes: []namedMap{{"B", B}, {"D", D}}},
			{Name: "accept B, reject nil, reject empty, accept A", Init: A, Changes: []namedMap{{"B", B}, {"nil", nil}, {"empty", gasMapT{}}, {"A", A}}},
			{Name: "reject(zero), accept B, reject(missing)", Init: A, Changes: []namedMap{rejA[0], {"B", B}, rejA[3]}},
			{Name: "accept D, reject(zero StorePerByte), reject(missing section)", Init: A,
				Changes: []namedMap{{"D", D}, rejA[32], {"no-base", gasMapT{"BuiltInCost": B["BuiltInCost"]}}}},
		}
		for _, s := range seqs {
			c.chargesAfter(u, s, sizes)
		}
		// each field in turn: a change with that field zero / missing is rejected and leaves A in force
		rej := rejectedVariants(B)
		for i, r := range rej {
			if !(c.thorough() || c.widen) && i%2 == 1 && i%6 != 1 {
				continue // quick tier: every zero variant, a third of the missing variants
			}
			c.chargesAfter(u, changeSeq{Name: "reject " + r.Name, Init: A, Changes: []namedMap{r}, Reduced: true}, []int{3})
		}
		// random sequences
		n := 4
		if c.thorough() || c.widen {
			n = 60
		}
		pool := append([]namedMap{{"A", A}, {"B", B}, {"D", D}, {"nil", nil}}, rej...)
		for i := 0; i < n; i++ {
			var chs []namedMap
			var names []string
			for k := 0; k < 1+c.rng.Intn(5); k++ {
				p := pool[c.rng.Intn(len(pool))]
				if c.rng.Intn(3) == 0 {
					p = namedMap{fmt.Sprintf("S%d", c.rng.Intn(1000)), distinctSchedule(uint64(50+c.rng.Intn(5000)), uint64(1+c.rng.Intn(30)), uint64(1+c.rng.Intn(50)))}
				}
				chs = append(chs, p)
				names = append(names, p.Name)
			}
			c.chargesAfter(u, changeSeq{Name: "random: " + strings.Join(names, ", "), Init: A, Changes: chs, Reduced: i%2 == 1}, sizes[:2])
		}
	}
}
