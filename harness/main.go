// harness: runs the real elrond-vm-common code on generated inputs, evaluates the properties
// directly on the implementation (monitors) and writes Coq case files for the correspondence
// check. One sub-command per property: harness <ID> -tier quick|thorough -seed N -out DIR
package main

import (
	"encoding/json"
	"flag"
	"fmt"
	"math/rand"
	"os"
	"path/filepath"
	"runtime/debug"
	"sort"
	"strings"
)

type failure struct {
	Kind   string      `json:"kind"`   // monitor | panic
	What   string      `json:"what"`   // human-readable
	Sig    string      `json:"sig"`    // signature used to match known findings
	Replay interface{} `json:"replay"` // the failing input / history
}

type report struct {
	Property    string                 `json:"property"`
	Tier        string                 `json:"tier"`
	Seed        int64                  `json:"seed"`
	Evaluations int                    `json:"evaluations"`
	Distinct    int                    `json:"distinct_nontrivial"`
	Rule        string                 `json:"rule"`
	Exhaustive  bool                   `json:"exhaustive"`
	Samples     []interface{}          `json:"samples"`
	Dist        map[string]int         `json:"distribution"`
	Extra       map[string]interface{} `json:"extra,omitempty"`
	Failures    []failure              `json:"failures"`
	CaseFiles   []string               `json:"case_files"`
	CaseIndex   map[string][]string    `json:"case_index"` // file -> description of each case (replay text)
}

type ctx struct {
	prop         string
	tier         string
	seed         int64
	out          string
	rng          *rand.Rand
	rep          *report
	seen         map[string]bool
	cases        []string // Coq terms
	descs        []string
	shard        int
	header       string // Coq header for case files
	perFile      int
	widen        bool
	replay       string
	caseType     string            // Coq type of a case (default "case")
	mismatchExpr string            // Coq expression computing the mismatch index list (default "mismatches cases")
	defs         map[string]string // Coq term -> name of a shared definition
	defText      map[string]string // name -> "Definition name : ty := term."
	fileDefs     []string          // names used by the cases of the current file, in first-use order
	fileDefSet   map[string]bool
	streams      map[string]*caseStream // parked case streams (see withStream)
	stateProj    string                 // Coq term of type sproj (Corr/Exec.v): which part of the state the model comparison looks at ("" = all)
}

// caseStream: a second kind of Coq case (own header / case type / mismatch expression) written to its own files
type caseStream struct {
	header, caseType, mismatchExpr string
	cases, descs                   []string
	fileDefs                       []string
	fileDefSet                     map[string]bool
	perFile                        int
}

// withStream runs f with the case-file settings and buffers of the named stream, then restores the current ones.
func (c *ctx) withStream(name, header, caseType, mismatchExpr string, perFile int, f func()) {
	if c.streams == nil {
		c.streams = map[string]*caseStream{}
	}
	st, ok := c.streams[name]
	if !ok {
		st = &caseStream{header: header, caseType: caseType, mismatchExpr: mismatchExpr, perFile: perFile}
		c.streams[name] = st
	}
	saved := &caseStream{c.header, c.caseType, c.mismatchExpr, c.cases, c.descs, c.fileDefs, c.fileDefSet, c.perFile}
	c.header, c.caseType, c.mismatchExpr, c.cases, c.descs, c.fileDefs, c.fileDefSet, c.perFile =
		st.header, st.caseType, st.mismatchExpr, st.cases, st.descs, st.fileDefs, st.fileDefSet, st.perFile
	f()
	st.cases, st.descs, st.fileDefs, st.fileDefSet = c.cases, c.descs, c.fileDefs, c.fileDefSet
	c.header, c.caseType, c.mismatchExpr, c.cases, c.descs, c.fileDefs, c.fileDefSet, c.perFile =
		saved.header, saved.caseType, saved.mismatchExpr, saved.cases, saved.descs, saved.fileDefs, saved.fileDefSet, saved.perFile
}

func (c *ctx) thorough() bool { return c.tier == "thorough" }

func (c *ctx) count(key string) { c.rep.Dist[key]++ }

// note records one evaluation; key identifies a distinct case, nontrivial says whether it counts.
func (c *ctx) note(key string, nontrivial bool) {
	c.rep.Evaluations++
	if nontrivial && !c.seen[key] {
		c.seen[key] = true
		c.rep.Distinct++
	}
}

func (c *ctx) sample(v interface{}) {
	if len(c.rep.Samples) < 8 {
		c.rep.Samples = append(c.rep.Samples, v)
	}
}

func (c *ctx) fail(kind, sig, what string, replay interface{}) {
	if len(c.rep.Failures) < 50 {
		c.rep.Failures = append(c.rep.Failures, failure{Kind: kind, What: what, Sig: sig, Replay: replay})
	}
}

// addCase appends one Coq case term; desc is what goes into a replay file when the model disagrees.
func (c *ctx) addCase(term, desc string) {
	c.cases = append(c.cases, term)
	c.descs = append(c.descs, desc)
	if len(c.cases) >= c.perFile {
		c.flush()
	}
}

// shared returns the name of a definition holding term (defined once per case file that uses it)
func (c *ctx) shared(prefix, ty, term string) string {
	if c.defs == nil {
		c.defs = map[string]string{}
		c.defText = map[string]string{}
	}
	n, ok := c.defs[term]
	if !ok {
		n = fmt.Sprintf("%s%d", prefix, len(c.defs))
		c.defs[term] = n
		c.defText[n] = fmt.Sprintf("Definition %s : %s := %s.", n, ty, term)
	}
	if c.fileDefSet == nil {
		c.fileDefSet = map[string]bool{}
	}
	if !c.fileDefSet[n] {
		c.fileDefSet[n] = true
		c.fileDefs = append(c.fileDefs, n)
	}
	return n
}

func (c *ctx) flush() {
	if len(c.cases) == 0 {
		return
	}
	name := fmt.Sprintf("cases_%s_%03d.v", c.prop, c.shard)
	c.shard++
	var sb strings.Builder
	sb.WriteString(c.header)
	ct, me := c.caseType, c.mismatchExpr
	if ct == "" {
		ct = "case"
	}
	if me == "" {
		me = "mismatches cases"
	}
	if c.stateProj != "" {
		// narrow state projection: xmismatches (pr) cases -> xmismatches_s (pr) (sp) cases; hmismatches cases -> hmismatches_s (sp) cases
		if strings.HasPrefix(me, "xmismatches (") && strings.HasSuffix(me, ") cases") {
			me = "xmismatches_s (" + strings.TrimSuffix(strings.TrimPrefix(me, "xmismatches ("), ") cases") + ") (" + c.stateProj + ") cases"
		} else if me == "hmismatches cases" {
			me = "hmismatches_s (" + c.stateProj + ") cases"
		}
	}
	for _, n := range c.fileDefs {
		sb.WriteString(c.defText[n])
		sb.WriteString("\n")
	}
	c.fileDefs = nil
	c.fileDefSet = nil
	sb.WriteString("Definition cases : list " + ct + " := [\n")
	sb.WriteString(strings.Join(c.cases, ";\n"))
	sb.WriteString("\n].\nDefinition M := Eval vm_compute in (" + me + ").\nPrint M.\n")
	if err := os.WriteFile(filepath.Join(c.out, name), []byte(sb.String()), 0o644); err != nil {
		panic(err)
	}
	c.rep.CaseFiles = append(c.rep.CaseFiles, name)
	c.rep.CaseIndex[name] = c.descs
	c.cases = nil
	c.descs = nil
}

func (c *ctx) finish() {
	c.flush()
	for name, st := range c.streams {
		c.withStream(name, st.header, st.caseType, st.mismatchExpr, st.perFile, func() { c.flush() })
	}
	keys := make([]string, 0, len(c.rep.Dist))
	for k := range c.rep.Dist {
		keys = append(keys, k)
	}
	sort.Strings(keys)
	data, err := json.MarshalIndent(c.rep, "", " ")
	if err != nil {
		panic(err)
	}
	if err := os.WriteFile(filepath.Join(c.out, "report.json"), data, 0o644); err != nil {
		panic(err)
	}
}

var runners = map[string]func(*ctx){}

func main() {
	if len(os.Args) < 2 {
		fmt.Fprintln(os.Stderr, "usage: harness <ID> [-tier quick|thorough] [-seed N] [-out DIR] [-replay FILE]")
		os.Exit(2)
	}
	prop := os.Args[1]
	fs := flag.NewFlagSet("harness", flag.ExitOnError)
	tier := fs.String("tier", "quick", "")
	seed := fs.Int64("seed", 1, "")
	out := fs.String("out", ".", "")
	widen := fs.Bool("widen", false, "widen the search (a proof obligation or the correspondence is broken)")
	replay := fs.String("replay", "", "replay file")
	_ = fs.Parse(os.Args[2:])
	run, ok := runners[prop]
	if !ok {
		fmt.Fprintln(os.Stderr, "unknown property", prop)
		os.Exit(2)
	}
	c := &ctx{prop: prop, tier: *tier, seed: *seed, out: *out, rng: rand.New(rand.NewSource(*seed)),
		seen: map[string]bool{}, perFile: 400, widen: *widen, replay: *replay,
		rep: &report{Property: prop, Tier: *tier, Seed: *seed, Dist: map[string]int{}, CaseIndex: map[string][]string{},
			Samples: []interface{}{}, Failures: []failure{}, CaseFiles: []string{}}}
	// a runner that panics (a step the scenario relies on was refused, a monitor dereferenced something the library no longer returns) is a
	// finding with a replay, not a crash: the message names the step, the stack the place
	func() {
		defer func() {
			if r := recover(); r != nil {
				c.fail("monitor", "runner-stopped", fmt.Sprintf("the %s runner could not go on: %v", prop, r),
					map[string]interface{}{"panic": fmt.Sprint(r), "stack": string(debug.Stack())})
			}
		}()
		run(c)
	}()
	c.finish()
}
