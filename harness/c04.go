package main

// C04 — frozen accounts and paused tokens cannot move funds.

import (
	"bytes"
	"encoding/hex"
	"errors"
	"fmt"
	"math/big"
	"sort"
	"strings"

	vmcommon "github.com/ElrondNetwork/elrond-vm-common"
	"github.com/ElrondNetwork/elrond-vm-common/builtInFunctions"
)

// c04Named: the token identifiers a call names (the pause lookup is made for the identifier and for identifier ‖ nonce)
func c04Named(cs *callSpec) [][]byte {
	a := cs.Args
	if len(a) == 0 {
		return nil
	}
	if cs.Fn != "MultiESDTNFTTransfer" {
		return [][]byte{a[0]}
	}
	off := 1
	if bytes.Equal(cs.Caller, cs.Rcpt) {
		off = 2
	}
	var l [][]byte
	for i := off; i < len(a); i += 3 {
		l = append(l, a[i])
	}
	return l
}

// c04Exp: the flags as the HISTORY says they must be: set / cleared only by successful operations of the ESDT system
// contract (Freeze -> frozen, UnFreeze / Wipe -> not frozen, Pause / UnPause).  The stored flags are compared with it
// after every such operation, and the "no balance change" rule uses both views (a flag lost in storage does not unfreeze).
type c04Exp struct {
	frozen map[string]bool // shard/account/key suffix
	paused map[string]bool // shard/key suffix
}

var c04State = map[*hWorld]*c04Exp{}

func c04Of(w *hWorld) *c04Exp {
	st, ok := c04State[w]
	if !ok {
		st = &c04Exp{frozen: map[string]bool{}, paused: map[string]bool{}}
		c04State[w] = st
	}
	return st
}

func c04PK(shard uint32, suf string) string { return fmt.Sprintf("%d/%x", shard, suf) }

func init() {
	tkForkHooks = append(tkForkHooks, func(from, to *hWorld) {
		if st, ok := c04State[from]; ok {
			n := c04Of(to)
			for k, v := range st.frozen {
				n.frozen[k] = v
			}
			for k, v := range st.paused {
				n.paused[k] = v
			}
		}
	})
}

// monC04: no successful call changes a balance that is frozen (fungible entry of the account) or paused
// (flag of the token, or of the full key, in the executing shard's system account) — in the stored pre-state OR according
// to the history of system-contract operations — except wipe / unfreeze / unpause by the system contract,
// return-after-error calls, and the system contract's own account; and every successful Freeze / UnFreeze / Wipe /
// Pause / UnPause leaves the stored flag in the state the operation names
func monC04(c *ctx, w *hWorld, pre *worldSnap, sr *stepResult, hist []string) {
	cs := sr.Call
	if sr.Res.Status != 0 {
		return
	}
	st := c04Of(w)
	isSC := bytes.Equal(cs.Caller, vmcommon.ESDTSCAddress)
	act := tkDiff(pre.Balances, w.allBalances())
	exemptCall := cs.RAE || isSC && (cs.Fn == "ESDTWipe" || cs.Fn == "ESDTUnFreeze" || cs.Fn == "ESDTUnPause")
	named := c04Named(cs)
	var ks []string
	for k := range act {
		ks = append(ks, k)
	}
	sort.Strings(ks)
	post := w.shards[cs.Shard].accounts
	for _, k := range ks {
		parts := strings.SplitN(k, "/", 3)
		if len(parts) != 3 || parts[0] != fmt.Sprint(cs.Shard) {
			continue // another shard: not touched by this execution (C01/C05 frame)
		}
		addr, _ := hex.DecodeString(parts[1])
		sufB, _ := hex.DecodeString(parts[2])
		suf := string(sufB)
		frozen, how := false, "stored flag"
		t := tkEntry(sr.Res.Pre, addr, suf)
		if tkIsFungibleEntry(t) && tkFrozenProps(t.Properties) {
			frozen = true
		} else if st.frozen[k] && (t == nil || tkIsFungibleEntry(t)) {
			frozen, how = true, "frozen by the system contract earlier in the history and never unfrozen; the stored flag is gone"
		}
		paused := tkPausedOn(sr.Res.Pre, suf)
		if !paused && st.paused[c04PK(cs.Shard, suf)] {
			paused, how = true, "paused by the system contract earlier in the history and never unpaused; the stored flag is gone"
		}
		for _, tn := range named {
			if bytes.HasPrefix(sufB, tn) {
				if tkPausedOn(sr.Res.Pre, string(tn)) {
					paused = true
				} else if st.paused[c04PK(cs.Shard, string(tn))] {
					paused, how = true, "paused by the system contract earlier in the history and never unpaused; the stored flag is gone"
				}
			}
		}
		if !frozen && !paused {
			continue
		}
		state := "paused"
		if frozen {
			state = "frozen"
		}
		if exemptCall || bytes.Equal(addr, vmcommon.ESDTSCAddress) {
			c.count("c04/exempt-change/" + state + "/" + cs.Fn)
			// an exempt call may take the whole entry away (wipe, unfreeze, an NFT save at zero): follow the storage from here on - except
			// for the four functions that only go through addToESDTBalance: flagged return-after-error they may debit a frozen entry, but a
			// zero balance is kept as an entry that carries the flag (C03_fungible_functions_keep_frozen), so the account STAYS frozen
			keepsFlag := cs.RAE && !(isSC && (cs.Fn == "ESDTWipe" || cs.Fn == "ESDTUnFreeze")) &&
				(cs.Fn == "ESDTTransfer" || cs.Fn == "ESDTBurn" || cs.Fn == "ESDTLocalMint" || cs.Fn == "ESDTLocalBurn" ||
					// the fungible branch of the multi-transfer goes through the same helper on both sides
					cs.Fn == "MultiESDTNFTTransfer" && tkIsFungibleEntry(t))
			if st.frozen[k] && !keepsFlag {
				nt := tkEntry(post, addr, suf)
				st.frozen[k] = nt != nil && tkFrozenProps(nt.Properties)
			} else if frozen && keepsFlag {
				st.frozen[k] = true
			}
			continue
		}
		sig := state + "-balance-changed/" + cs.Fn
		if (cs.Fn == "ESDTPause" || cs.Fn == "ESDTUnPause") && bytes.Equal(addr, vmcommon.SystemAccountAddress) {
			sig = tkSigF8
		}
		c.fail("monitor", sig, fmt.Sprintf("%s changed the balance of account %x, key %x on shard %d by %v while it was %s (%s)", cs.Fn, addr, sufB, cs.Shard, act[k], state, how), tkReplay(sr, hist))
		break
	}
	// the system contract's flag operations: history view updated, stored flag must agree
	if !isSC || len(cs.Args) != 1 {
		return
	}
	key := string(cs.Args[0])
	switch cs.Fn {
	case "ESDTFreeze", "ESDTUnFreeze", "ESDTWipe":
		fk := tkBK(cs.Shard, cs.Rcpt, key)
		nt := tkEntry(post, cs.Rcpt, key)
		stored := nt != nil && tkFrozenProps(nt.Properties)
		want := cs.Fn == "ESDTFreeze"
		st.frozen[fk] = want
		if stored != want {
			sig := "flag-not-set/" + cs.Fn
			if !want {
				sig = "flag-not-cleared/" + cs.Fn
			}
			c.fail("monitor", sig, fmt.Sprintf("after a successful %s of key %x on account %x the stored frozen flag is %v", cs.Fn, key, cs.Rcpt, stored), tkReplay(sr, hist))
		}
		c.count("c04/flag-checked/" + cs.Fn)
	case "ESDTPause", "ESDTUnPause":
		want := cs.Fn == "ESDTPause"
		st.paused[c04PK(cs.Shard, key)] = want
		if stored := tkPausedOn(post, key); stored != want {
			sig := "flag-not-set/" + cs.Fn
			if !want {
				sig = "flag-not-cleared/" + cs.Fn
			}
			c.fail("monitor", sig, fmt.Sprintf("after a successful %s of key %x on shard %d the stored pause flag is %v", cs.Fn, key, cs.Shard, stored), tkReplay(sr, hist))
		}
		c.count("c04/flag-checked/" + cs.Fn)
	}
}

// monC04Count: how often the gate is met in walks (distribution only)
func monC04Count(c *ctx, w *hWorld, pre *worldSnap, sr *stepResult, hist []string) {
	if sr.Res.Status == 1 && sr.Res.Err != nil {
		switch {
		case errors.Is(sr.Res.Err, builtInFunctions.ErrESDTIsFrozenForAccount):
			c.count("c04/walk/rejected-frozen/" + sr.Call.Fn)
		case errors.Is(sr.Res.Err, builtInFunctions.ErrESDTTokenIsPaused):
			c.count("c04/walk/rejected-paused/" + sr.Call.Fn)
		}
	}
}

// ---------------------------------------------------------------------------------------------
// scenario families: one per call site of checkFrozeAndPause x function x side x placement x kind of block
// ---------------------------------------------------------------------------------------------

type c04Block struct {
	kind  string // "frozen" or "paused"
	acct  []byte // frozen: the account
	shard uint32 // the shard on which the flag is set
	key   string // key suffix given to ESDTFreeze / ESDTPause
	prop  bool   // the block is one the property speaks about (fungible entry frozen, or pause flag)
}

func (b c04Block) apply(r *tkRun) {
	if b.kind == "frozen" {
		r.must(r.sysOn(b.shard, b.acct, "ESDTFreeze", []byte(b.key)), "freeze")
	} else {
		r.must(r.sysOn(b.shard, r.u.SYS, "ESDTPause", []byte(b.key)), "pause")
	}
}
func (b c04Block) undo(r *tkRun) {
	if b.kind == "frozen" {
		r.must(r.sysOn(b.shard, b.acct, "ESDTUnFreeze", []byte(b.key)), "unfreeze")
	} else {
		r.must(r.sysOn(b.shard, r.u.SYS, "ESDTUnPause", []byte(b.key)), "unpause")
	}
}

type c04Site struct {
	label string
	block c04Block
	seed  func(r *tkRun)
	probe func(r *tkRun, rae bool) *stepResult
	cross bool // the decisive step is the delivery on the destination shard
}

func c04TxRAE(r *tkRun, rae bool, caller, rcpt []byte, fn string, args ...[]byte) *stepResult {
	cs := r.w.mkCall(r.w.shardOf(caller), fn, caller, rcpt, args, bigGas)
	cs.RAE = rae
	return r.call(cs)
}

func c04Deliver(r *tkRun, origin *stepResult) *stepResult {
	r.must(origin, "origin of a delivery probe")
	if len(origin.NewMsgs) != 1 {
		panic(r.tag + ": origin emitted no message")
	}
	return r.deliver(origin.NewMsgs[0])
}

func c04Sites(u *universe) []c04Site {
	A, B, X := u.U[0], u.U[1], u.U[2] // A sender (shard 0), B same shard, X other shard
	F, S := u.Fung[0], u.NFTs[1]
	S1 := tkKey(S, 1)
	frz := func(acct []byte, sh uint32, key string, prop bool) c04Block {
		return c04Block{kind: "frozen", acct: acct, shard: sh, key: key, prop: prop}
	}
	pau := func(sh uint32, key string) c04Block { return c04Block{kind: "paused", shard: sh, key: key, prop: true} }
	seedSFT := func(dst []byte) func(r *tkRun) {
		return func(r *tkRun) {
			sr := r.must(r.tx(A, A, "ESDTNFTTransfer", bigGas, S, be(1), be(5), dst), "seed")
			for _, m := range sr.NewMsgs {
				r.must(r.deliver(m), "seed delivery")
			}
		}
	}
	var l []c04Site
	add := func(label string, b c04Block, cross bool, seed func(r *tkRun), probe func(r *tkRun, rae bool) *stepResult) {
		l = append(l, c04Site{label: label + "/" + b.kind, block: b, seed: seed, probe: probe, cross: cross})
	}
	// ---- addToESDTBalance ----
	xferSame := func(r *tkRun, rae bool) *stepResult { return c04TxRAE(r, rae, A, B, "ESDTTransfer", F, be(10)) }
	xferCrossOrigin := func(r *tkRun, rae bool) *stepResult { return c04TxRAE(r, rae, A, X, "ESDTTransfer", F, be(10)) }
	xferCross := func(r *tkRun, rae bool) *stepResult {
		return c04Deliver(r, c04TxRAE(r, false, A, X, "ESDTTransfer", F, be(10)))
	}
	for _, b := range []c04Block{frz(A, 0, string(F), true), pau(0, string(F))} {
		add("addToESDTBalance/ESDTTransfer/sender/same-shard", b, false, nil, xferSame)
		add("addToESDTBalance/ESDTTransfer/sender/cross-shard", b, false, nil, xferCrossOrigin)
		for _, fn := range []string{"ESDTLocalMint", "ESDTLocalBurn"} {
			fn := fn
			add("addToESDTBalance/"+fn, b, false, nil, func(r *tkRun, rae bool) *stepResult { return c04TxRAE(r, rae, A, A, fn, F, be(7)) })
		}
		add("addToESDTBalance/ESDTBurn", b, false, nil, func(r *tkRun, rae bool) *stepResult { return c04TxRAE(r, rae, A, u.SC, "ESDTBurn", F, be(7)) })
	}
	add("addToESDTBalance/ESDTTransfer/destination/same-shard", frz(B, 0, string(F), true), false, nil, xferSame)
	multiFungCross := func(r *tkRun, rae bool) *stepResult {
		return c04Deliver(r, c04TxRAE(r, false, A, A, "MultiESDTNFTTransfer", tkMulti(X, F, nil, be(5))...))
	}
	for _, b := range []c04Block{frz(X, 1, string(F), true), pau(1, string(F))} {
		add("addToESDTBalance/ESDTTransfer/destination/cross-shard", b, true, nil, xferCross)
		add("addToESDTBalance/MultiESDTNFTTransfer/destination/cross-shard", b, true, nil, multiFungCross)
	}
	// ---- saveESDTNFTToken (caller's own entry) ----
	for _, b := range []c04Block{pau(0, string(S)), pau(0, S1), frz(A, 0, S1, false)} {
		for _, fn := range []string{"ESDTNFTAddQuantity", "ESDTNFTBurn"} {
			fn := fn
			add("saveESDTNFTToken/"+fn, b, false, nil, func(r *tkRun, rae bool) *stepResult { return c04TxRAE(r, rae, A, A, fn, S, be(1), be(2)) })
		}
		add("saveESDTNFTToken/ESDTNFTAddURI", b, false, nil, func(r *tkRun, rae bool) *stepResult {
			return c04TxRAE(r, rae, A, A, "ESDTNFTAddURI", S, be(1), []byte("u"))
		})
		add("saveESDTNFTToken/ESDTNFTUpdateAttributes", b, false, nil, func(r *tkRun, rae bool) *stepResult {
			return c04TxRAE(r, rae, A, A, "ESDTNFTUpdateAttributes", S, be(1), []byte("a"))
		})
		add("saveESDTNFTToken/ESDTNFTTransfer/sender/same-shard", b, false, nil, func(r *tkRun, rae bool) *stepResult {
			return c04TxRAE(r, rae, A, A, "ESDTNFTTransfer", S, be(1), be(2), B)
		})
		add("saveESDTNFTToken/ESDTNFTTransfer/sender/cross-shard", b, false, nil, func(r *tkRun, rae bool) *stepResult {
			return c04TxRAE(r, rae, A, A, "ESDTNFTTransfer", S, be(1), be(2), X)
		})
		add("saveESDTNFTToken/MultiESDTNFTTransfer/sender/nft-item", b, false, nil, func(r *tkRun, rae bool) *stepResult {
			return c04TxRAE(r, rae, A, A, "MultiESDTNFTTransfer", tkMulti(X, F, nil, be(3), S, be(1), be(2))...)
		})
	}
	// the next nonce of SFT-445566 on U[0] is 3
	for _, b := range []c04Block{pau(0, string(S)), pau(0, tkKey(S, 3))} {
		add("saveESDTNFTToken/ESDTNFTCreate", b, false, nil, func(r *tkRun, rae bool) *stepResult {
			return c04TxRAE(r, rae, A, A, "ESDTNFTCreate", S, be(4), []byte("nm"), be(1), []byte("h"), []byte("a"), []byte("u"))
		})
	}
	for _, b := range []c04Block{frz(A, 0, string(F), true), pau(0, string(F))} {
		add("saveESDTNFTToken/MultiESDTNFTTransfer/sender/fungible-item/same-shard", b, false, nil, func(r *tkRun, rae bool) *stepResult {
			return c04TxRAE(r, rae, A, A, "MultiESDTNFTTransfer", tkMulti(B, F, nil, be(3))...)
		})
		add("saveESDTNFTToken/MultiESDTNFTTransfer/sender/fungible-item/cross-shard", b, false, nil, func(r *tkRun, rae bool) *stepResult {
			return c04TxRAE(r, rae, A, A, "MultiESDTNFTTransfer", tkMulti(X, F, nil, be(3))...)
		})
	}
	// ---- debits of EXACTLY the whole holding (the entry is deleted, not rewritten: the gate must still be passed first) ----
	S2 := tkKey(S, 2) // U[0] holds 7 of nonce 2, 1000 of every fungible token
	for _, b := range []c04Block{pau(0, string(S)), pau(0, S2), frz(A, 0, S2, false)} {
		add("saveESDTNFTToken/ESDTNFTBurn/whole-holding", b, false, nil, func(r *tkRun, rae bool) *stepResult { return c04TxRAE(r, rae, A, A, "ESDTNFTBurn", S, be(2), be(7)) })
		add("saveESDTNFTToken/ESDTNFTTransfer/sender/cross-shard/whole-holding", b, false, nil, func(r *tkRun, rae bool) *stepResult {
			return c04TxRAE(r, rae, A, A, "ESDTNFTTransfer", S, be(2), be(7), X)
		})
		add("saveESDTNFTToken/ESDTNFTTransfer/sender/same-shard/whole-holding", b, false, nil, func(r *tkRun, rae bool) *stepResult {
			return c04TxRAE(r, rae, A, A, "ESDTNFTTransfer", S, be(2), be(7), B)
		})
		add("saveESDTNFTToken/MultiESDTNFTTransfer/sender/nft-item/cross-shard/whole-holding", b, false, nil, func(r *tkRun, rae bool) *stepResult {
			return c04TxRAE(r, rae, A, A, "MultiESDTNFTTransfer", tkMulti(X, S, be(2), be(7))...)
		})
		add("saveESDTNFTToken/MultiESDTNFTTransfer/sender/nft-item/cross-shard/whole-holding-in-two-items", b, false, nil, func(r *tkRun, rae bool) *stepResult {
			return c04TxRAE(r, rae, A, A, "MultiESDTNFTTransfer", tkMulti(X, S, be(2), be(3), S, be(2), be(4))...)
		})
	}
	for _, b := range []c04Block{frz(A, 0, string(F), true), pau(0, string(F))} {
		add("saveESDTNFTToken/MultiESDTNFTTransfer/sender/fungible-item/cross-shard/whole-holding", b, false, nil, func(r *tkRun, rae bool) *stepResult {
			return c04TxRAE(r, rae, A, A, "MultiESDTNFTTransfer", tkMulti(X, F, nil, be(1000))...)
		})
		add("saveESDTNFTToken/MultiESDTNFTTransfer/sender/fungible-item/same-shard/whole-holding", b, false, nil, func(r *tkRun, rae bool) *stepResult {
			return c04TxRAE(r, rae, A, A, "MultiESDTNFTTransfer", tkMulti(B, F, nil, be(1000))...)
		})
		add("addToESDTBalance/ESDTTransfer/sender/cross-shard/whole-holding", b, false, nil, func(r *tkRun, rae bool) *stepResult {
			return c04TxRAE(r, rae, A, X, "ESDTTransfer", F, be(1000))
		})
		add("addToESDTBalance/ESDTLocalBurn/whole-holding", b, false, nil, func(r *tkRun, rae bool) *stepResult { return c04TxRAE(r, rae, A, A, "ESDTLocalBurn", F, be(1000)) })
		add("addToESDTBalance/ESDTBurn/whole-holding", b, false, nil, func(r *tkRun, rae bool) *stepResult { return c04TxRAE(r, rae, A, u.SC, "ESDTBurn", F, be(1000)) })
	}
	// ---- esdtNFTTransfer.addNFTToDestination ----
	nftSame := func(r *tkRun, rae bool) *stepResult {
		return c04TxRAE(r, rae, A, A, "ESDTNFTTransfer", S, be(1), be(2), B)
	}
	nftCross := func(r *tkRun, rae bool) *stepResult {
		return c04Deliver(r, c04TxRAE(r, false, A, A, "ESDTNFTTransfer", S, be(1), be(2), X))
	}
	add("esdtNFTTransfer.addNFTToDestination/same-shard/destination-holds-nothing", frz(B, 0, S1, true), false, nil, nftSame)
	add("esdtNFTTransfer.addNFTToDestination/same-shard/destination-holds-copy", frz(B, 0, S1, false), false, seedSFT(B), nftSame)
	add("esdtNFTTransfer.addNFTToDestination/cross-shard/destination-holds-nothing", frz(X, 1, S1, true), true, nil, nftCross)
	add("esdtNFTTransfer.addNFTToDestination/cross-shard/destination-holds-copy", frz(X, 1, S1, false), true, seedSFT(X), nftCross)
	add("esdtNFTTransfer.addNFTToDestination/cross-shard/token-flag", pau(1, string(S)), true, nil, nftCross)
	add("esdtNFTTransfer.addNFTToDestination/cross-shard/token-flag/destination-holds-copy", pau(1, string(S)), true, seedSFT(X), nftCross)
	add("saveESDTNFTToken(in esdtNFTTransfer.addNFTToDestination)/cross-shard/full-key-flag", pau(1, S1), true, nil, nftCross)
	// ---- esdtNFTMultiTransfer.addNFTToDestination ----
	multiFungSame := func(r *tkRun, rae bool) *stepResult {
		return c04TxRAE(r, rae, A, A, "MultiESDTNFTTransfer", tkMulti(B, F, nil, be(3))...)
	}
	multiNftSame := func(r *tkRun, rae bool) *stepResult {
		return c04TxRAE(r, rae, A, A, "MultiESDTNFTTransfer", tkMulti(B, S, be(1), be(2), F, nil, be(1))...)
	}
	multiNftCross := func(r *tkRun, rae bool) *stepResult {
		return c04Deliver(r, c04TxRAE(r, false, A, A, "MultiESDTNFTTransfer", tkMulti(X, S, be(1), be(2), S, be(2), be(1))...))
	}
	add("esdtNFTMultiTransfer.addNFTToDestination/same-shard/fungible-item", frz(B, 0, string(F), true), false, nil, multiFungSame)
	add("esdtNFTMultiTransfer.addNFTToDestination/same-shard/nft-item/destination-holds-nothing", frz(B, 0, S1, true), false, nil, multiNftSame)
	add("esdtNFTMultiTransfer.addNFTToDestination/same-shard/nft-item/destination-holds-copy", frz(B, 0, S1, false), false, seedSFT(B), multiNftSame)
	add("esdtNFTMultiTransfer.addNFTToDestination/cross-shard/nft-item/destination-holds-nothing", frz(X, 1, S1, true), true, nil, multiNftCross)
	add("esdtNFTMultiTransfer.addNFTToDestination/cross-shard/nft-item/destination-holds-copy", frz(X, 1, S1, false), true, seedSFT(X), multiNftCross)
	add("esdtNFTMultiTransfer.addNFTToDestination/cross-shard/nft-item/token-flag", pau(1, string(S)), true, nil, multiNftCross)
	add("saveESDTNFTToken(in esdtNFTMultiTransfer.addNFTToDestination)/cross-shard/full-key-flag", pau(1, S1), true, nil, multiNftCross)
	return l
}

func c04Status(sr *stepResult) string {
	if sr.Skipped {
		return "skipped"
	}
	return statusName(sr.Res.Status)
}

func c04RunSites(c *ctx, u *universe, b *tkBudget, hits, misses map[string]int) {
	mons := []monitor{monC04}
	for wi, sysShard := range []uint32{0, 1} {
		w := u.stdWorld(2, sysShard, distinctGas(uint64(29+wi), 3))
		u.populate(w)
		base := c.tkNewRun(u, w, fmt.Sprintf("sites/w%d", wi), mons, b, false)
		for _, s := range c04Sites(u) {
			run := func(variant string, blocked, undone, rae bool) (*stepResult, map[string]*big.Int, *tkRun) {
				r := base.fork(fmt.Sprintf("sites/w%d/%s/%s", wi, s.label, variant))
				if s.seed != nil {
					r.quiet = true
					s.seed(r)
					r.quiet = false
				}
				b0 := r.w.allBalances()
				if blocked {
					s.block.apply(r)
				}
				if undone {
					s.block.undo(r)
				}
				if blocked {
					if k := tkFirstDiff(b0, r.w.allBalances()); k != "" {
						c.fail("monitor", "toggle-changed-balance/"+s.block.kind, "setting"+map[bool]string{true: " and clearing", false: ""}[undone]+" the "+s.block.kind+" flag changed the balance "+k,
							map[string]interface{}{"site": s.label, "history": histReplay(r.hist)})
					}
				}
				before := r.w.allBalances()
				sr := s.probe(r, rae)
				return sr, tkDiff(before, r.w.allBalances()), r
			}
			ctl, dCtl, _ := run("control", false, false, false)
			blk, _, rBlk := run("blocked", true, false, false)
			tgl, dTgl, rTgl := run("set-and-cleared", true, true, false)
			key := s.label
			switch {
			case c04Status(ctl) != "ok":
				misses[key+"/control-not-accepted"]++
			case c04Status(blk) == "ok":
				// the gate did not stop the call: judged by the monitor (property-level blocks); recorded here
				misses[key+"/not-stopped"]++
			case s.block.kind == "frozen" && !errors.Is(blk.Res.Err, builtInFunctions.ErrESDTIsFrozenForAccount),
				s.block.kind == "paused" && !errors.Is(blk.Res.Err, builtInFunctions.ErrESDTTokenIsPaused):
				misses[key+"/stopped-for-another-reason"]++
			default:
				hits[key]++
			}
			// set-and-cleared flag: same decision and same balance effects as never set
			if c04Status(tgl) != c04Status(ctl) || tkFirstDiff(dCtl, dTgl) != "" {
				c.fail("monitor", "toggle-not-restoring/"+s.block.kind+"/"+tgl.Call.Fn,
					fmt.Sprintf("%s after %s set and cleared: status %s, balance effects %s; never set: status %s, effects %s", tgl.Call.Fn, s.block.kind, c04Status(tgl), tkShowMap(dTgl), c04Status(ctl), tkShowMap(dCtl)),
					map[string]interface{}{"site": s.label, "call": describeCall(tgl.Call), "pre": digestAccounts(tgl.Res.Pre), "history": histReplay(rTgl.hist)})
			}
			// exemptions
			if !s.cross {
				ex, _, _ := run("blocked-return-after-error", true, false, true)
				c.count("c04/exempt/return-after-error/" + c04Status(ex))
			} else if c04Status(blk) == "err" && len(rBlk.w.inflight) > 0 {
				// the refused message is refunded into a sender that has meanwhile been frozen and paused
				m := rBlk.w.inflight[len(rBlk.w.inflight)-1]
				rBlk.sysOn(0, m.Sender, "ESDTFreeze", u.Fung[0])
				rBlk.sysOn(0, u.SYS, "ESDTPause", u.NFTs[1])
				ex := rBlk.refund(m)
				c.count("c04/exempt/refund-into-frozen-or-paused-sender/" + c04Status(ex))
			}
		}
	}
}

// wipe / unfreeze / unpause by the system contract, and by anybody else
func c04SystemOnly(c *ctx, u *universe, b *tkBudget) {
	w := u.stdWorld(2, 0, distinctGas(31, 3))
	u.populate(w)
	base := c.tkNewRun(u, w, "system-only", []monitor{monC04}, b, false)
	A, F := u.U[0], u.Fung[0]
	base.must(base.sys(A, "ESDTFreeze", F), "freeze")
	base.must(base.sysOn(0, u.SYS, "ESDTPause", F), "pause")
	for _, fn := range []string{"ESDTWipe", "ESDTUnFreeze", "ESDTUnPause"} {
		rcpt := A
		if fn == "ESDTUnPause" {
			rcpt = u.SYS
		}
		r := base.fork("system-only/" + fn)
		sr := r.sysOn(0, rcpt, fn, F)
		c.count("c04/system-only/" + fn + "/by-system-contract/" + c04Status(sr))
		for _, who := range [][]byte{A, u.U[1], u.K[0]} {
			r2 := base.fork("system-only/" + fn + "/user")
			cs := &callSpec{Shard: 0, Fn: fn, Caller: who, Rcpt: rcpt, Args: [][]byte{F}, Value: big.NewInt(0), Gas: bigGas, Snd: true, Dst: true, FailAt: -1}
			sr2 := r2.call(cs)
			c.count("c04/system-only/" + fn + "/by-user/" + c04Status(sr2))
		}
	}
}

// F8 seen through the freeze gate: the system-account address holds a token, the holding is frozen, then ESDTPause on that shard
// overwrites it (ESDTUnPause does the same but is on the property's exception list)
func c04SystemAccountHolding(c *ctx, u *universe, b *tkBudget) {
	w := u.stdWorld(2, 0, distinctGas(33, 3))
	u.populate(w)
	base := c.tkNewRun(u, w, "system-account-holding", []monitor{monC04}, b, false)
	F := u.Fung[0]
	base.must(base.tx(u.U[0], u.SYS, "ESDTTransfer", bigGas, F, be(100)), "transfer to the system-account address")
	base.must(base.sysOn(0, u.SYS, "ESDTFreeze", F), "freeze the system-account address")
	for _, fn := range []string{"ESDTPause", "ESDTUnPause"} {
		r := base.fork("system-account-holding/" + fn)
		sr := r.sysOn(0, u.SYS, fn, F)
		c.count("c04/system-account-holding/" + fn + "/" + c04Status(sr))
	}
}

// c04Repeats: repeated and alternating flag operations — a second Freeze / Pause must not release, a second UnFreeze /
// UnPause must not block, Freeze after UnFreeze blocks again
func c04Repeats(c *ctx, u *universe, b *tkBudget) {
	A, B, X := u.U[0], u.U[1], u.U[2]
	F, S := u.Fung[0], u.NFTs[1]
	w := u.stdWorld(2, 1, distinctGas(35, 3))
	u.populate(w)
	base := c.tkNewRun(u, w, "repeats", []monitor{monC04}, b, false)
	seqs := [][]string{
		{"ESDTFreeze", "ESDTFreeze"},
		{"ESDTFreeze", "ESDTFreeze", "ESDTFreeze"},
		{"ESDTUnFreeze", "ESDTUnFreeze"},
		{"ESDTFreeze", "ESDTUnFreeze", "ESDTUnFreeze"},
		{"ESDTFreeze", "ESDTUnFreeze", "ESDTFreeze"},
		{"ESDTFreeze", "ESDTFreeze", "ESDTUnFreeze"},
		{"ESDTFreeze", "ESDTWipe", "ESDTFreeze"},
		{"ESDTPause", "ESDTPause"},
		{"ESDTPause", "ESDTPause", "ESDTPause"},
		{"ESDTUnPause", "ESDTUnPause"},
		{"ESDTPause", "ESDTUnPause", "ESDTUnPause"},
		{"ESDTPause", "ESDTUnPause", "ESDTPause"},
		{"ESDTPause", "ESDTPause", "ESDTUnPause"},
	}
	for _, seq := range seqs {
		// (account whose flag is toggled, shard, key) x probes around it
		for _, tgt := range []struct {
			name  string
			acct  []byte
			shard uint32
			key   []byte
			tok   []byte
		}{
			{"sender/fungible", A, 0, F, F},
			{"same-shard-destination/fungible", B, 0, F, F},
			{"cross-shard-destination/fungible", X, 1, F, F},
			{"sender/sft-key", A, 0, []byte(tkKey(S, 1)), S},
			{"cross-shard-destination/sft-key", X, 1, []byte(tkKey(S, 1)), S},
		} {
			r := base.fork("repeats/" + strings.Join(seq, ";") + "/" + tgt.name)
			for _, fn := range seq {
				var sr *stepResult
				if strings.Contains(fn, "Pause") {
					sr = r.sysOn(tgt.shard, u.SYS, fn, tgt.tok)
				} else {
					sr = r.sysOn(tgt.shard, tgt.acct, fn, tgt.key)
				}
				c.count("c04/repeats/" + fn + "/" + c04Status(sr))
			}
			probe := func(sr *stepResult) {
				if !sr.Skipped {
					c.count("c04/repeats/after-" + strings.Join(seq, ";") + "/" + sr.Call.Fn + "/" + c04Status(sr))
				}
			}
			probe(r.tx(A, B, "ESDTTransfer", bigGas, F, be(3)))
			probe(r.tx(B, A, "ESDTTransfer", bigGas, F, be(2)))
			probe(r.tx(A, A, "ESDTLocalMint", bigGas, F, be(5)))
			probe(r.tx(A, A, "ESDTNFTTransfer", bigGas, S, be(1), be(2), B))
			probe(r.tx(A, A, "ESDTNFTAddQuantity", bigGas, S, be(1), be(1)))
			probe(r.tx(A, A, "MultiESDTNFTTransfer", bigGas, tkMulti(B, F, nil, be(1), S, be(1), be(1))...))
			for _, o := range []*stepResult{
				r.tx(A, X, "ESDTTransfer", bigGas, F, be(4)),
				r.tx(A, A, "ESDTNFTTransfer", bigGas, S, be(1), be(2), X),
				r.tx(A, A, "MultiESDTNFTTransfer", bigGas, tkMulti(X, F, nil, be(1), S, be(1), be(1))...),
			} {
				probe(o)
				for _, m := range o.NewMsgs {
					probe(r.deliver(m))
				}
			}
		}
	}
}

func c04Tune(g *gen) {
	g.wSystem, g.wTransfer, g.wSupply, g.wDeliver, g.wHostile, g.wAccount = 26, 32, 20, 12, 8, 2
}

func init() {
	runners["C04"] = func(c *ctx) {
		c.stateProj = "sp_balances_flags" // the part of the state this property's theorems speak about
		u := newUniverse()
		proj := tkProj(false, true)
		c.rep.Rule = "(1) one scenario family per call site of checkFrozeAndPause (addToESDTBalance; saveESDTNFTToken incl. its second, full-key lookup; esdtNFTTransfer.addNFTToDestination; esdtNFTMultiTransfer.addNFTToDestination) x function x sender / destination side x same / cross shard (destination side through delivery of the real message) x {account frozen, token paused, full key paused}, each incl. debits of exactly the whole holding (ESDTNFTBurn, NFT / multi transfers same and cross shard, fungible legs, burns), each on four clones of one world: never blocked (control), blocked, flag set and cleared again (must decide and move balances exactly like the control), blocked with ReturnCallAfterError or refund into a frozen+paused sender (exemptions); on two worlds (system-account address living on shard 0 / shard 1); wipe / unfreeze / unpause by the system contract and by users; repeated and alternating flag operations (freeze;freeze / pause;pause / unfreeze;unfreeze / freeze;unfreeze;freeze / freeze;wipe;freeze / ... on the sender, a same-shard and a cross-shard destination, fungible key and SFT key) each followed by transfers in both directions, mint, add-quantity, NFT and multi transfers and deliveries; the frozen holding of the system-account address itself followed by ESDTPause / ESDTUnPause (known finding F8). extra.site_hits counts, per site, the scenarios in which the control was accepted and the blocked call was refused with the frozen / paused error. " +
			"(2) random walks weighted to freeze / unfreeze / pause / unpause / wipe interleaved with transfers, deliveries, refunds, supply functions and hostile calls. The monitor also keeps, per world, the flags as the HISTORY of successful system-contract operations says they must be (Freeze -> frozen; UnFreeze, Wipe -> not frozen; Pause / UnPause), checks after each such operation that the stored flag agrees (flag-not-set / flag-not-cleared), and uses the history view in addition to the stored one below. After EVERY executed call the monitor reads the flags from the pre-state of the executing shard (frozen bit of the account's fungible entry; 2-byte pause value under ELRONDesdt‖token and ELRONDesdt‖token‖nonce in the shard's system account) and fails if a successful call changed such a balance, except wipe/unfreeze/unpause by the system contract, ReturnCallAfterError calls and the ESDT system contract's own account. " +
			"Every executed call is re-executed by the Coq model (projection: status + complete post-state). distinct = distinct (world state, operation)."
		c.tkBegin(proj)
		quick := !(c.thorough() || c.widen)
		budget := &tkBudget{max: 1000, every: 2}
		if !quick {
			budget = &tkBudget{max: 5000}
		}
		hits, misses := map[string]int{}, map[string]int{}
		c04RunSites(c, u, budget, hits, misses)
		c04SystemOnly(c, u, &tkBudget{max: 40})
		c04SystemAccountHolding(c, u, &tkBudget{max: 10})
		c04Repeats(c, u, &tkBudget{max: 400, every: 3})
		perSite := map[string]int{}
		for k, v := range hits {
			perSite[strings.SplitN(k, "/", 2)[0]] += v
		}
		c.rep.Extra = map[string]interface{}{"site_hits": hits, "site_misses": misses, "hits_per_call_site": perSite}
		n, ops, prob, max := 8, 250, 2, 1000
		if !quick {
			n, ops, prob, max = 100, 600, 6, 10000
		}
		c.walk(u, walkOpts{Worlds: n, Ops: ops, Proj: proj, Monitors: []monitor{monC04, monC04Count}, Tune: c04Tune, EmitProb: prob, MaxCases: max})
	}
}
