package main

// C09 — tokens are only credited to admissible destinations.

import (
	"bytes"
	"fmt"
	"math/big"
	"strings"

	vmcommon "github.com/ElrondNetwork/elrond-vm-common"
)

func c09OracleName(b byte) string {
	switch b {
	case 'Y':
		return "payable"
	case 'N':
		return "not-payable"
	}
	return "oracle-error"
}

// monC09: after every executed transfer function, on either side
func monC09(c *ctx, w *hWorld, pre *worldSnap, sr *stepResult, hist []string) {
	cs := sr.Call
	if !tkTransferFns[cs.Fn] || sr.Res.Status != 0 {
		return
	}
	req, ok := tkParse(cs)
	if !ok {
		c.count("c09/unparsed-success/" + cs.Fn)
		return
	}
	side := "destination-side"
	if req.Sender {
		side = "sender-side"
	}
	dst := req.Dst
	// rejections demanded whatever the oracle says
	if cs.Fn == "ESDTTransfer" && w.shardOf(cs.Rcpt) == metaShard {
		c.fail("monitor", "metachain-destination-accepted/ESDTTransfer", "ESDTTransfer addressed to the metachain succeeded", tkReplay(sr, hist))
		return
	}
	if cs.Fn != "ESDTTransfer" && req.Sender {
		switch {
		case w.shardOf(dst) == metaShard:
			c.fail("monitor", "metachain-destination-accepted/"+cs.Fn, cs.Fn+" towards an address on the metachain succeeded", tkReplay(sr, hist))
			return
		case bytes.Equal(dst, cs.Caller):
			c.fail("monitor", "self-transfer-accepted/"+cs.Fn, cs.Fn+" to the sender itself succeeded", tkReplay(sr, hist))
			return
		case len(dst) != len(cs.Caller):
			c.fail("monitor", "wrong-length-destination-accepted/"+cs.Fn, fmt.Sprintf("%s to a %d-byte address by a %d-byte caller succeeded", cs.Fn, len(dst), len(cs.Caller)), tkReplay(sr, hist))
			return
		}
	}
	// is the destination account on the executing shard?
	local := true
	switch {
	case cs.Fn == "ESDTTransfer":
		local = cs.Dst
	case req.Sender:
		local = w.shardOf(dst) == cs.Shard
	}
	if !local {
		c.count("c09/" + side + "/destination-on-another-shard")
		return
	}
	mv := tkMustVerify(cs, req.MinArgs)
	pay := w.payOf(dst)
	prefix := fmt.Sprintf("%d/%x/", cs.Shard, dst)
	credited := false
	for k, v := range tkDiff(pre.Balances, w.allBalances()) {
		if strings.HasPrefix(k, prefix) && v.Sign() > 0 {
			credited = true
		}
	}
	why := "oracle"
	switch {
	case cs.CallType == vmcommon.AsynchronousCallBack:
		why = "callback"
	case cs.CallType == vmcommon.ESDTTransferAndExecute:
		why = "transfer-and-execute"
	case bytes.Equal(cs.Caller, vmcommon.ESDTSCAddress):
		why = "from-system-contract"
	case len(cs.Args) > req.MinArgs:
		why = "attached-call"
	}
	c.count(fmt.Sprintf("c09/%s/%s/%s/decided-by-%s/credited=%v", side, cs.Fn, c09OracleName(pay), why, credited))
	if !mv {
		return
	}
	if pay != 'Y' && pay != 'N' {
		c.fail("monitor", "oracle-error-ignored/"+cs.Fn+"/"+side, fmt.Sprintf("%s (%s) succeeded although the payability oracle fails for destination %x and had to be asked", cs.Fn, side, dst), tkReplay(sr, hist))
		return
	}
	if credited && pay != 'Y' {
		c.fail("monitor", "credit-to-non-payable/"+cs.Fn+"/"+side, fmt.Sprintf("%s (%s) credited destination %x which the oracle reports as not payable (no attached call, call type %d, caller %x)", cs.Fn, side, dst, cs.CallType, cs.Caller), tkReplay(sr, hist))
	}
}

// ---------------------------------------------------------------------------------------------
// scenario families
// ---------------------------------------------------------------------------------------------

// payload of a destination-side NFT transfer: the holder's stored entry with the transferred quantity
func c09Payload(w *hWorld, holder []byte, tok []byte, nonce uint64, qty uint64) []byte {
	t := tkEntry(w.shards[w.shardOf(holder)].accounts, holder, tkKey(tok, nonce))
	if t == nil {
		panic("c09: holder has no such entry")
	}
	t.Value = new(big.Int).SetUint64(qty)
	b, err := t.Marshal()
	if err != nil {
		panic(err)
	}
	return b
}

var c09Kinds = []string{"ESDTTransfer", "ESDTNFTTransfer", "multi-fungible", "multi-nft", "multi-mixed"}

func c09Extra(n int) [][]byte {
	return [][]byte{[]byte("doSomething"), {1, 2}}[:n]
}

func c09Sweep(c *ctx, u *universe, b *tkBudget, quick bool) {
	A, F, F2, S := u.U[0], u.Fung[0], u.Fung[1], u.NFTs[1]
	callTypes := []vmcommon.CallType{vmcommon.DirectCall, vmcommon.AsynchronousCall, vmcommon.AsynchronousCallBack, vmcommon.ESDTTransferAndExecute}
	for _, oracle := range []byte{'Y', 'N', 'E'} {
		w := u.stdWorld(2, 0, distinctGas(uint64(37+oracle%5), 3))
		for _, d := range [][]byte{u.U[1], u.U[2], u.U[3], u.K[0], u.K[1]} {
			w.payTab[string(d)] = oracle
		}
		u.populate(w)
		base := c.tkNewRun(u, w, "sweep/"+c09OracleName(oracle), []monitor{monC09}, b, false)
		// sender-side argument lists per kind (destination filled in)
		senderArgs := func(kind int, dst []byte, extra int) (string, []byte, [][]byte) {
			var fn string
			var args [][]byte
			rcpt := A
			switch kind {
			case 0:
				fn, rcpt, args = "ESDTTransfer", dst, [][]byte{F, be(10)}
			case 1:
				fn, args = "ESDTNFTTransfer", [][]byte{S, be(1), be(2), dst}
			case 2:
				fn, args = "MultiESDTNFTTransfer", tkMulti(dst, F, nil, be(4), F2, nil, be(5))
			case 3:
				fn, args = "MultiESDTNFTTransfer", tkMulti(dst, S, be(1), be(2), S, be(2), be(1))
			default:
				fn, args = "MultiESDTNFTTransfer", tkMulti(dst, F, nil, be(4), S, be(1), be(2))
			}
			return fn, rcpt, append(args, c09Extra(extra)...)
		}
		// destination-side argument lists per kind (what the sender side would emit, written by hand)
		destArgs := func(kind int, extra int) (string, [][]byte) {
			var fn string
			var args [][]byte
			switch kind {
			case 0:
				fn, args = "ESDTTransfer", [][]byte{F, be(10)}
			case 1:
				fn, args = "ESDTNFTTransfer", [][]byte{S, be(1), be(2), c09Payload(w, A, S, 1, 2)}
			case 2:
				fn, args = "MultiESDTNFTTransfer", [][]byte{be(2), F, {0}, be(4), F2, {0}, be(5)}
			case 3:
				fn, args = "MultiESDTNFTTransfer", [][]byte{be(2), S, be(1), c09Payload(w, A, S, 1, 2), S, be(2), c09Payload(w, A, S, 2, 1)}
			default:
				fn, args = "MultiESDTNFTTransfer", [][]byte{be(2), F, {0}, be(4), S, be(1), c09Payload(w, A, S, 1, 2)}
			}
			return fn, append(args, c09Extra(extra)...)
		}
		for kind := range c09Kinds {
			for _, ct := range callTypes {
				for extra := 0; extra <= 2; extra++ {
					for _, contract := range []bool{false, true} {
						same, other := u.U[1], u.U[2]
						if contract {
							same, other = u.K[0], u.K[1]
						}
						tag := fmt.Sprintf("%s/ct%d/extra%d/contract=%v", c09Kinds[kind], ct, extra, contract)
						// (a) sender side, destination on the same shard
						{
							r := base.fork(base.tag + "/same-shard/" + tag)
							fn, rcpt, args := senderArgs(kind, same, extra)
							cs := r.w.mkCall(0, fn, A, rcpt, args, bigGas)
							cs.CallType = ct
							sr := r.call(cs)
							c.count(fmt.Sprintf("c09/sweep/%s/same-shard/%s", c09OracleName(oracle), statusName(sr.Res.Status)))
							if extra == 0 { // the same flagged return-after-error: the flag lifts the freeze/pause gate, NOT the payability check
								r2 := base.fork(base.tag + "/same-shard-rae/" + tag)
								cs2 := r2.w.mkCall(0, fn, A, rcpt, cloneArgs(args), bigGas)
								cs2.CallType, cs2.RAE = ct, true
								sr2 := r2.call(cs2)
								c.count(fmt.Sprintf("c09/sweep/%s/same-shard-rae/%s", c09OracleName(oracle), statusName(sr2.Res.Status)))
							}
						}
						// (b) sender side towards the other shard, then delivery of the real message (and refund when refused)
						{
							r := base.fork(base.tag + "/deliver/" + tag)
							fn, rcpt, args := senderArgs(kind, other, extra)
							cs := r.w.mkCall(0, fn, A, rcpt, args, bigGas)
							cs.CallType = ct
							sr := r.call(cs)
							if tkOK(sr) && len(sr.NewMsgs) == 1 {
								d := r.deliver(sr.NewMsgs[0])
								c.count(fmt.Sprintf("c09/sweep/%s/deliver/%s", c09OracleName(oracle), statusName(d.Res.Status)))
								if !tkOK(d) {
									f := r.refund(sr.NewMsgs[0])
									c.count("c09/sweep/refund/" + statusName(f.Res.Status))
								}
							} else {
								c.count(fmt.Sprintf("c09/sweep/%s/deliver/origin-%s", c09OracleName(oracle), statusName(sr.Res.Status)))
							}
						}
						// (c) crafted destination-side inputs on shard 1: by a user of the other shard, and by the ESDT system contract
						for _, caller := range [][]byte{A, u.SC} {
							if quick && bytes.Equal(caller, u.SC) && (extra == 2 || ct == vmcommon.AsynchronousCall) {
								continue
							}
							r := base.fork(base.tag + "/crafted/" + tag)
							fn, args := destArgs(kind, extra)
							cs := &callSpec{Shard: 1, Fn: fn, Caller: caller, Rcpt: other, Args: args, Value: big.NewInt(0), Gas: bigGas, CallType: ct, Snd: false, Dst: true, FailAt: -1}
							sr := r.call(cs)
							if extra == 0 {
								r2 := base.fork(base.tag + "/crafted-rae/" + tag)
								cs2 := *cs
								cs2.Args, cs2.RAE = cloneArgs(args), true
								sr2 := r2.call(&cs2)
								c.count(fmt.Sprintf("c09/sweep/%s/crafted-rae/%s", c09OracleName(oracle), statusName(sr2.Res.Status)))
							}
							who := "user"
							if bytes.Equal(caller, u.SC) {
								who = "system-contract"
							}
							c.count(fmt.Sprintf("c09/sweep/%s/crafted-by-%s/%s", c09OracleName(oracle), who, statusName(sr.Res.Status)))
						}
					}
				}
			}
		}
		// contract as sender (its ESDTTransfer travels as an output transfer)
		for extra := 0; extra <= 1; extra++ {
			for _, dst := range [][]byte{u.U[2], u.K[1]} {
				r := base.fork(base.tag + "/contract-sender")
				sr := r.tx(u.K[0], dst, "ESDTTransfer", bigGas, append([][]byte{F, be(3)}, c09Extra(extra)...)...)
				for _, m := range sr.NewMsgs {
					r.deliver(m)
				}
			}
		}
	}
}

// metachain, self, wrong length
func c09Structural(c *ctx, u *universe, b *tkBudget) {
	w := u.stdWorld(2, 1, distinctGas(41, 3))
	u.populate(w)
	base := c.tkNewRun(u, w, "structural", []monitor{monC09}, b, false)
	A, F, S := u.U[0], u.Fung[0], u.NFTs[1]
	names := []string{"metachain-user", "system-contract-address", "self", "31-byte", "33-byte", "empty"}
	dests := [][]byte{u.MetaUser, u.SC, A, u.Short, u.Long, nil}
	for di, d := range dests {
		name := names[di]
		for _, ct := range []vmcommon.CallType{vmcommon.DirectCall, vmcommon.AsynchronousCallBack, vmcommon.ESDTTransferAndExecute} {
			for extra := 0; extra <= 1; extra++ {
				try := func(fn string, rcpt []byte, args [][]byte) {
					r := base.fork("structural/" + name)
					cs := r.w.mkCall(0, fn, A, rcpt, append(args, c09Extra(extra)...), bigGas)
					cs.CallType = ct
					sr := r.call(cs)
					c.count(fmt.Sprintf("c09/structural/%s/%s/%s", name, fn, statusName(sr.Res.Status)))
					for _, m := range sr.NewMsgs {
						r.deliver(m)
					}
				}
				try("ESDTTransfer", d, [][]byte{F, be(3)})
				try("ESDTNFTTransfer", A, [][]byte{S, be(1), be(2), d})
				try("MultiESDTNFTTransfer", A, tkMulti(d, F, nil, be(3)))
				try("MultiESDTNFTTransfer", A, tkMulti(d, S, be(1), be(2), F, nil, be(1)))
			}
		}
	}
	// destination-side inputs written by hand whose RECIPIENT maps to the metachain, executed with the destination account
	// present (Snd=false, Dst=true), sent by a user of the other shard and by the ESDT system contract: ESDTTransfer checks the
	// recipient's shard on both sides and must refuse
	pay := c09Payload(w, A, S, 1, 2)
	for mi, meta := range [][]byte{u.MetaUser, u.SC} {
		for _, caller := range [][]byte{u.U[2], u.SC} {
			for _, ct := range []vmcommon.CallType{vmcommon.DirectCall, vmcommon.AsynchronousCall, vmcommon.AsynchronousCallBack, vmcommon.ESDTTransferAndExecute} {
				for extra := 0; extra <= 1; extra++ {
					for _, p := range []struct {
						fn   string
						args [][]byte
					}{
						{"ESDTTransfer", [][]byte{F, be(3)}},
						{"ESDTNFTTransfer", [][]byte{S, be(1), be(2), pay}},
						{"MultiESDTNFTTransfer", [][]byte{be(1), F, {0}, be(3)}},
						{"MultiESDTNFTTransfer", [][]byte{be(2), S, be(1), pay, F, {0}, be(3)}},
					} {
						r := base.fork("structural/destination-side-metachain-recipient")
						cs := &callSpec{Shard: 0, Fn: p.fn, Caller: caller, Rcpt: meta, Args: append(append([][]byte{}, p.args...), c09Extra(extra)...),
							Value: big.NewInt(0), Gas: bigGas, CallType: ct, Snd: false, Dst: true, FailAt: -1}
						sr := r.call(cs)
						c.count(fmt.Sprintf("c09/structural/destination-side-metachain-recipient-%d/%s/%s", mi, p.fn, statusName(sr.Res.Status)))
					}
				}
			}
		}
	}
}

func c09Tune(g *gen) {
	g.wTransfer, g.wDeliver, g.wHostile, g.wSystem, g.wSupply, g.wAccount = 56, 24, 10, 4, 5, 1
	u := g.u
	for _, a := range [][]byte{u.U[0], u.U[1], u.U[2], u.U[3], u.K[0], u.K[1], u.Short, u.Long, u.SYS} {
		switch g.c.rng.Intn(5) {
		case 0, 1:
			g.w.payTab[string(a)] = 'N'
		case 2:
			g.w.payTab[string(a)] = 'E'
		default:
			g.w.payTab[string(a)] = 'Y'
		}
	}
}

func init() {
	runners["C09"] = func(c *ctx) {
		c.stateProj = "sp_balances" // the part of the state this property's theorems speak about
		u := newUniverse()
		proj := tkProj(true, true)
		c.rep.Rule = "(1) sweep on clones of three 2-shard worlds (oracle answers payable / not payable / error for every destination): token kind {ESDTTransfer, ESDTNFTTransfer, multi fungible-only, multi NFT-only, multi mixed} x call type {direct, async, callback, transfer-and-execute} x argument count {minimum, +1, +2} x destination {user, contract} x side {sender side with the destination on the same shard; sender side towards the other shard followed by delivery of the real message (refund when refused); destination-side inputs written by hand with Snd=false, Dst=true, sent by a user and by the ESDT system contract}; a contract as sender; structural family: destination on the metachain (user address, ESDT system contract address), the sender itself, 31-byte, 33-byte and empty destination x call types x argument counts; destination-side inputs (Snd=false, Dst=true, by a user and by the system contract) whose recipient maps to the metachain, for all three functions. " +
			"(2) random walks with a random oracle table (40% not payable, 20% error), weighted to transfers, deliveries and hostile calls. After EVERY executed transfer function the monitor compares the destination account's balances before/after with the oracle: an increase requires payable, or more arguments than the minimum (3n+2 / 3n+1 for the multi-transfer), or call type callback / transfer-and-execute, or caller = ESDT system contract; a success with an erroring oracle that had to be asked, with a metachain destination, with destination = sender or of another length (NFT, multi) is a failure. " +
			"Every executed call is re-executed by the Coq model (projection: status, output transfers, complete post-state). distinct = distinct (world state, operation)."
		c.tkBegin(proj)
		quick := !(c.thorough() || c.widen)
		budget := &tkBudget{max: 1300, every: 2}
		if !quick {
			budget = &tkBudget{max: 5000}
		}
		c09Sweep(c, u, budget, quick)
		c09Structural(c, u, &tkBudget{max: 220, every: 2})
		n, ops, prob, max := 8, 250, 2, 1000
		if !quick {
			n, ops, prob, max = 100, 600, 6, 10000
		}
		c.walk(u, walkOpts{Worlds: n, Ops: ops, Proj: proj, Monitors: []monitor{monC09}, Tune: c09Tune, EmitProb: prob, MaxCases: max})
	}
}
