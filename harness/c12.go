package main

// C12 — transaction-data parsers are total and inverse to the builders.
// Runs the real parsers (call arguments, deploy arguments, storage updates, ESDT transfers), the real
// txDataBuilder and the built-in functions' own message encoder; evaluates totality and the round
// trips directly on the implementation and writes every input with the observed result as a Coq
// case for the model (coq/Corr/C12.v).

import (
	"bytes"
	"encoding/hex"
	"errors"
	"fmt"
	"math/big"
	"strings"

	vmcommon "github.com/ElrondNetwork/elrond-vm-common"
	"github.com/ElrondNetwork/elrond-vm-common/builtInFunctions"
	"github.com/ElrondNetwork/elrond-vm-common/data/esdt"
	"github.com/ElrondNetwork/elrond-vm-common/mock"
	"github.com/ElrondNetwork/elrond-vm-common/parsers"
	"github.com/ElrondNetwork/elrond-vm-common/txDataBuilder"
)

func init() { runners["C12"] = runC12 }

// production-shaped marshaller: Reset + generated Unmarshal / Marshal
type c12Marshalizer struct{}

func (c12Marshalizer) Marshal(obj interface{}) ([]byte, error) {
	m, ok := obj.(interface{ Marshal() ([]byte, error) })
	if !ok {
		return nil, errors.New("c12: not a marshaler")
	}
	return m.Marshal()
}
func (c12Marshalizer) Unmarshal(obj interface{}, b []byte) error {
	m, ok := obj.(interface {
		Reset()
		Unmarshal([]byte) error
	})
	if !ok {
		return errors.New("c12: not an unmarshaler")
	}
	m.Reset()
	return m.Unmarshal(b)
}
func (c12Marshalizer) IsInterfaceNil() bool { return false }

func c12ErrCode(err error) uint64 {
	switch err {
	case parsers.ErrTokenizeFailed:
		return 1
	case parsers.ErrInvalidDeployArguments:
		return 2
	case parsers.ErrNilFunction:
		return 3
	case parsers.ErrInvalidDataString:
		return 4
	case parsers.ErrInvalidVMType:
		return 5
	case parsers.ErrInvalidCode:
		return 6
	case parsers.ErrInvalidCodeMetadata:
		return 7
	case parsers.ErrNotESDTTransferInput:
		return 8
	case parsers.ErrNotEnoughArguments:
		return 9
	case parsers.ErrNilMarshalizer:
		return 10
	}
	return 11
}

// outcome of one call: class (ok / err / panic) plus the Coq term of the value
type c12Out struct {
	class string // "ok" | "err" | "panic"
	code  uint64
	term  string // Coq term of the value when ok
	pval  interface{}
}

func (o c12Out) coq() string {
	switch o.class {
	case "ok":
		return "(OOk " + o.term + ")"
	case "err":
		return "(OErr " + cN(o.code) + ")"
	}
	return "OPanic"
}

func c12Pair(a, b string) string { return "(" + a + ", " + b + ")" }

// compact Coq literal: printable ASCII as (str "..."), anything else as (hx "...")
func c12Bytes(b []byte) string {
	if len(b) == 0 {
		return "[]"
	}
	for _, x := range b {
		if x < 0x20 || x > 0x7e || x == '"' {
			return "(hx \"" + hex.EncodeToString(b) + "\")"
		}
	}
	return "(str \"" + string(b) + "\")"
}
func c12BytesList(l [][]byte) string {
	s := make([]string, 0, len(l))
	for _, b := range l {
		s = append(s, c12Bytes(b))
	}
	return cList(s)
}

type c12CallRes struct {
	f    string
	args [][]byte
}

var c12SharedCallParser = parsers.NewCallArgsParser()
var c12HeldArgs, c12HeldCopy [][]byte
var c12HeldLate string

func c12ParseCall(data string) (out c12Out, res c12CallRes) {
	defer func() {
		if r := recover(); r != nil {
			out = c12Out{class: "panic", pval: r}
		}
	}()
	// ONE long-lived parser object; the result of the previous call is kept by reference and must still read the same after this call
	// (a parser that hands out slices of a buffer it reuses fails here)
	f, args, err := c12SharedCallParser.ParseData(data)
	if c12HeldArgs != nil && !c12SameArgs(c12HeldArgs, c12HeldCopy) && c12HeldLate == "" {
		c12HeldLate = fmt.Sprintf("the arguments returned for an earlier ParseData read %s then and %s after ParseData(%q) on the same parser object", c12BytesList(c12HeldCopy), c12BytesList(c12HeldArgs), data)
	}
	c12HeldArgs, c12HeldCopy = nil, nil
	if err != nil {
		return c12Out{class: "err", code: c12ErrCode(err)}, res
	}
	c12HeldArgs, c12HeldCopy = args, cloneArgs(args)
	res = c12CallRes{f, args}
	return c12Out{class: "ok", term: c12Pair(c12Bytes([]byte(f)), c12BytesList(args))}, res
}

func c12ParseDeploy(data string) (out c12Out, res *parsers.DeployArgs) {
	defer func() {
		if r := recover(); r != nil {
			out = c12Out{class: "panic", pval: r}
		}
	}()
	d, err := parsers.NewDeployArgsParser().ParseData(data)
	if err != nil {
		return c12Out{class: "err", code: c12ErrCode(err)}, nil
	}
	cm := d.CodeMetadata
	term := fmt.Sprintf("(%s, %s, (%s, %s, %s), %s)", c12Bytes(d.Code), c12Bytes(d.VMType), cBool(cm.Payable), cBool(cm.Upgradeable), cBool(cm.Readable), c12BytesList(d.Arguments))
	return c12Out{class: "ok", term: term}, d
}

func c12SUList(l []*vmcommon.StorageUpdate) string {
	var s []string
	for _, u := range l {
		s = append(s, c12Pair(c12Bytes(u.Offset), c12Bytes(u.Data)))
	}
	return cList(s)
}

func c12ParseStorage(data string) (out c12Out, res []*vmcommon.StorageUpdate) {
	defer func() {
		if r := recover(); r != nil {
			out = c12Out{class: "panic", pval: r}
		}
	}()
	l, err := parsers.NewStorageUpdatesParser().GetStorageUpdates(data)
	if err != nil {
		return c12Out{class: "err", code: c12ErrCode(err)}, nil
	}
	return c12Out{class: "ok", term: c12SUList(l)}, l
}

// lower-case the ASCII letters A-F only in the part after position `from`
func c12LowerHexFrom(s string, from int) string {
	b := []byte(s)
	for i := from; i < len(b); i++ {
		if b[i] >= 'A' && b[i] <= 'F' {
			b[i] += 'a' - 'A'
		}
	}
	return string(b)
}

func c12BuildCall(f string, args [][]byte) string {
	b := txDataBuilder.NewBuilder()
	b.Func(f)
	for _, a := range args {
		b.Bytes(a)
	}
	return b.ToString()
}

func c12HexList(l [][]byte) string {
	s := make([]string, 0, len(l))
	for _, b := range l {
		s = append(s, hex.EncodeToString(b))
	}
	return "[" + strings.Join(s, ",") + "]"
}

func c12SameArgs(a, b [][]byte) bool {
	if len(a) != len(b) {
		return false
	}
	for i := range a {
		if !bytes.Equal(a[i], b[i]) {
			return false
		}
	}
	return true
}

// one data string through the three string parsers: totality + parse/build/parse monitors + Coq case
func c12String(c *ctx, data string, class string, toCoq bool) {
	call, cres := c12ParseCall(data)
	dep, dres := c12ParseDeploy(data)
	su, sres := c12ParseStorage(data)
	c.note("str/"+data, true)
	c.count(class)
	rp := map[string]string{"parser": "string parsers", "data_hex": hex.EncodeToString([]byte(data))}
	if c12HeldLate != "" {
		c.fail("monitor", "parser-result-changed-later", "callArgs parser: "+c12HeldLate, rp)
		c12HeldLate = ""
	}
	for i, o := range []c12Out{call, dep, su} {
		name := []string{"callArgs", "deployArgs", "storageUpdates"}[i]
		if o.class == "panic" {
			c.fail("panic", "parser-panic-"+name, fmt.Sprintf("%s parser panics on %q: %v", name, data, o.pval), rp)
		}
	}
	if call.class == "ok" {
		at := strings.IndexByte(data, '@')
		if at < 0 {
			at = len(data)
		}
		rebuilt := c12BuildCall(cres.f, cres.args)
		if cres.f == "" || strings.Contains(cres.f, "@") || rebuilt != c12LowerHexFrom(data, at) {
			c.fail("monitor", "call-parse-build", fmt.Sprintf("call-args parser: build(parse(%q)) = %q", data, rebuilt), rp)
		}
	}
	if su.class == "ok" {
		trimmed := data
		if len(trimmed) > 0 && trimmed[0] == '@' {
			trimmed = trimmed[1:]
		}
		rebuilt := parsers.NewStorageUpdatesParser().CreateDataFromStorageUpdate(sres)
		if rebuilt != c12LowerHexFrom(trimmed, 0) || len(sres) == 0 {
			c.fail("monitor", "storage-parse-build", fmt.Sprintf("storage-updates parser: build(parse(%q)) = %q", data, rebuilt), rp)
		}
	}
	if dep.class == "ok" {
		if len(dres.Code) == 0 || len(dres.VMType) == 0 {
			c.fail("monitor", "deploy-empty-accepted", fmt.Sprintf("deploy parser accepts empty code / VM type in %q", data), rp)
		}
		b := txDataBuilder.NewBuilder().Func(hex.EncodeToString(dres.Code)).Bytes(dres.VMType).Bytes(dres.CodeMetadata.ToBytes())
		for _, a := range dres.Arguments {
			b.Bytes(a)
		}
		_, again := c12ParseDeploy(b.ToString())
		if again == nil || !bytes.Equal(again.Code, dres.Code) || !bytes.Equal(again.VMType, dres.VMType) ||
			again.CodeMetadata != dres.CodeMetadata || !c12SameArgs(again.Arguments, dres.Arguments) {
			c.fail("monitor", "deploy-parse-build", fmt.Sprintf("deploy parser: parse(build(parse(%q))) differs", data), rp)
		}
	}
	if toCoq {
		c.addCase(fmt.Sprintf("KParse %s %s %s %s", c12Bytes([]byte(data)), call.coq(), dep.coq(), su.coq()), fmt.Sprintf("parse %q (hex %x)", data, data))
	}
}

var c12Reps = [5][]byte{
	{'x', 'G', 'z', 'g', 'T'},      // letter, not a hex digit
	{'@'},                          // separator
	{'6', 'a', '0', 'f', '9', 'c'}, // hex digit (lower case)
	{'B', 'A', 'F', 'D'},           // upper-case hex digit
	{' ', '/', ':', '`', 0x00, 0xff, '?', '\n', '"'}, // neither hex nor letter (incl. the neighbours of the ranges)
}
var c12ClassNames = [5]string{"L", "@", "h", "H", "n"}

// ---- the built-in functions' own encoder, reached through the public API ----
type c12Encoder struct {
	fn vmcommon.BuiltinFunction
	// the message bytes the previous call returned (kept by reference) and what they read then: a message must still parse
	// to the same function and arguments after later calls ran
	lastData []byte
	lastStr  string
	late     string // set when an earlier message changed under a later call
}

func (e *c12Encoder) remember(d []byte) string {
	if e.lastData != nil && string(e.lastData) != e.lastStr && e.late == "" {
		e.late = fmt.Sprintf("a message read %q when it was returned and %q after the next built-in call", e.lastStr, string(e.lastData))
	}
	e.lastData, e.lastStr = d, string(d)
	return e.lastStr
}

func c12NewEncoder() *c12Encoder {
	f, err := builtInFunctions.NewESDTTransferFunc(0, c12Marshalizer{}, &mock.PauseHandlerStub{}, &mock.ShardCoordinatorStub{})
	if err != nil {
		panic(err)
	}
	return &c12Encoder{fn: f}
}

func c12SCAddress(tag byte) []byte {
	a := make([]byte, 32)
	a[10] = 5
	a[31] = tag
	return a
}

// cross-shard transfer issued by a contract: data = "ESDTTransfer" + "@"hex(arg)... for all args
func (e *c12Encoder) crossShard(args [][]byte) (string, bool) {
	rcv := bytes.Repeat([]byte{7}, 32)
	in := &vmcommon.ContractCallInput{VMInput: vmcommon.VMInput{CallerAddr: c12SCAddress(1), Arguments: args, CallValue: big.NewInt(0), GasProvided: 1000}, RecipientAddr: rcv}
	out, err := e.fn.ProcessBuiltinFunction(nil, nil, in)
	if err != nil || out == nil {
		return "", false
	}
	oa := out.OutputAccounts[string(rcv)]
	if oa == nil || len(oa.OutputTransfers) != 1 {
		return "", false
	}
	return e.remember(oa.OutputTransfers[0].Data), true
}

// same-shard transfer to a contract with an attached call: data = fn + "@"hex(callArg)...
func (e *c12Encoder) attachedCall(f string, callArgs [][]byte) (string, bool) {
	rcv := c12SCAddress(2)
	args := append([][]byte{[]byte("TOK-abcdef"), {1}, []byte(f)}, callArgs...)
	in := &vmcommon.ContractCallInput{VMInput: vmcommon.VMInput{CallerAddr: bytes.Repeat([]byte{9}, 32), Arguments: args, CallValue: big.NewInt(0), GasProvided: 1000}, RecipientAddr: rcv}
	out, err := e.fn.ProcessBuiltinFunction(nil, mock.NewUserAccount(rcv), in)
	if err != nil || out == nil {
		return "", false
	}
	oa := out.OutputAccounts[string(rcv)]
	if oa == nil || len(oa.OutputTransfers) != 1 {
		return "", false
	}
	return e.remember(oa.OutputTransfers[0].Data), true
}

func c12RandBytes(c *ctx, n int) []byte {
	b := make([]byte, n)
	c.rng.Read(b)
	return b
}

// argument values: empty, leading zeros, single bytes, long
func c12RandArg(c *ctx) []byte {
	switch c.rng.Intn(8) {
	case 0:
		return []byte{}
	case 1:
		return append(make([]byte, 1+c.rng.Intn(3)), c12RandBytes(c, c.rng.Intn(4))...)
	case 2:
		return []byte{byte(c.rng.Intn(256))}
	case 3:
		if c.thorough() {
			return c12RandBytes(c, 33+c.rng.Intn(300))
		}
		return c12RandBytes(c, 33+c.rng.Intn(60))
	case 4:
		return []byte("@@")
	default:
		return c12RandBytes(c, 1+c.rng.Intn(12))
	}
}

func c12RandArgs(c *ctx) [][]byte {
	n := c.rng.Intn(6)
	if c.rng.Intn(10) == 0 {
		n = 12 + c.rng.Intn(10)
		if c.thorough() {
			n = 20 + c.rng.Intn(30)
		}
	}
	args := make([][]byte, 0, n)
	for i := 0; i < n; i++ {
		args = append(args, c12RandArg(c))
	}
	return args
}

// '@'-free, non-empty function names: identifiers, hex-looking, spaces, arbitrary bytes
func c12RandFunc(c *ctx) string {
	var b []byte
	switch c.rng.Intn(6) {
	case 0:
		b = []byte([]string{"transfer", "ESDTTransfer", "f", "ABBA", "00", "deadbeef", "issue", "a b", "é"}[c.rng.Intn(9)])
	case 1:
		b = c12RandBytes(c, 1+c.rng.Intn(40))
	case 2:
		b = []byte(hex.EncodeToString(c12RandBytes(c, 1+c.rng.Intn(5))))
	default:
		const al = "abcdefghijklmnopqrstuvwxyzABCDEFGHIJKLMNOPQRSTUVWXYZ0123456789_"
		n := 1 + c.rng.Intn(12)
		for i := 0; i < n; i++ {
			b = append(b, al[c.rng.Intn(len(al))])
		}
	}
	for i := range b {
		if b[i] == '@' {
			b[i] = 'A'
		}
	}
	return string(b)
}

func c12OptBytes(s string, ok bool) string {
	if !ok {
		return "None"
	}
	return "(Some " + c12Bytes([]byte(s)) + ")"
}

// builder -> parser round trip for call data, on the real code
func c12CallRoundTrip(c *ctx, enc *c12Encoder, f string, args [][]byte, class string) {
	data := c12BuildCall(f, args)
	var encOut string
	var encOK bool
	func() {
		defer func() {
			if r := recover(); r != nil {
				c.fail("panic", "encoder-panic", fmt.Sprintf("message encoder panics for function %q: %v", f, r), map[string]string{"function_hex": hex.EncodeToString([]byte(f))})
			}
		}()
		if f == vmcommon.BuiltInFunctionESDTTransfer && len(args) >= 2 && new(big.Int).SetBytes(args[1]).Sign() > 0 {
			encOut, encOK = enc.crossShard(args)
		} else if f != "" {
			encOut, encOK = enc.attachedCall(f, args)
		}
	}()
	c.note("rt/"+data, true)
	c.count(class)
	if enc.late != "" {
		c.fail("monitor", "encoder-output-changed-later", "the built-in functions' message encoder: "+enc.late, map[string]string{"what": "message kept across calls"})
		enc.late = ""
	}
	valid := f != "" && !strings.Contains(f, "@")
	rp := map[string]string{"what": "call round trip", "function_hex": hex.EncodeToString([]byte(f)), "args_hex": c12HexList(args), "data_hex": hex.EncodeToString([]byte(data))}
	if encOK && encOut != data {
		c.fail("monitor", "encoder-differs-from-builder", fmt.Sprintf("built-in encoder emits %q, tx-data builder %q", encOut, data), rp)
	}
	out, res := c12ParseCall(data)
	if out.class == "panic" {
		c.fail("panic", "parser-panic-callArgs", fmt.Sprintf("callArgs parser panics on %q: %v", data, out.pval), rp)
	}
	if valid {
		if out.class != "ok" || res.f != f || !c12SameArgs(res.args, args) {
			c.fail("monitor", "call-roundtrip", fmt.Sprintf("parse(build(%q, %d args)) = class %s, function %q, %d args", f, len(args), out.class, res.f, len(res.args)), rp)
		}
	} else if f == "" && out.class != "err" {
		c.fail("monitor", "empty-function-accepted", fmt.Sprintf("call data with an empty function name is accepted: %q", data), rp)
	}
	c.addCase(fmt.Sprintf("KBuildCall %s %s %s %s", c12Bytes([]byte(f)), c12BytesList(args), c12Bytes([]byte(data)), c12OptBytes(encOut, encOK)), fmt.Sprintf("build call f=%x args=%s", f, c12BytesList(args)))
	// the three parsers on the built string go to the model as well
	c12String(c, data, "built-strings", true)
}

func c12DeployRoundTrip(c *ctx, code, vm []byte, cm vmcommon.CodeMetadata, args [][]byte) {
	b := txDataBuilder.NewBuilder().Func(hex.EncodeToString(code)).Bytes(vm).Bytes(cm.ToBytes())
	for _, a := range args {
		b.Bytes(a)
	}
	data := b.ToString()
	c.note("deploy/"+data, true)
	c.count("roundtrip/deploy")
	rp := map[string]string{"what": "deploy round trip", "code": hex.EncodeToString(code), "vmtype": hex.EncodeToString(vm), "data_hex": hex.EncodeToString([]byte(data))}
	out, d := c12ParseDeploy(data)
	if out.class == "panic" {
		c.fail("panic", "parser-panic-deployArgs", fmt.Sprintf("deployArgs parser panics on %q: %v", data, out.pval), rp)
	}
	if len(code) > 0 && len(vm) > 0 {
		if out.class != "ok" || !bytes.Equal(d.Code, code) || !bytes.Equal(d.VMType, vm) || d.CodeMetadata != cm || !c12SameArgs(d.Arguments, args) {
			c.fail("monitor", "deploy-roundtrip", fmt.Sprintf("parse(build deploy) differs for %q (class %s)", data, out.class), rp)
		}
	} else if out.class != "err" {
		c.fail("monitor", "deploy-empty-accepted", fmt.Sprintf("deploy data with empty code / VM type accepted: %q", data), rp)
	}
	c.addCase(fmt.Sprintf("KBuildDeploy %s %s %s %s %s %s %s", c12Bytes(code), c12Bytes(vm), cBool(cm.Payable), cBool(cm.Upgradeable), cBool(cm.Readable), c12BytesList(args), c12Bytes([]byte(data))), "build deploy "+data)
	c12String(c, data, "built-strings", true)
}

func c12StorageRoundTrip(c *ctx, l []*vmcommon.StorageUpdate) {
	p := parsers.NewStorageUpdatesParser()
	data := p.CreateDataFromStorageUpdate(l)
	c.note("su/"+data, true)
	c.count("roundtrip/storage")
	rp := map[string]string{"what": "storage-update round trip", "list": c12SUList(l), "data_hex": hex.EncodeToString([]byte(data))}
	out, res := c12ParseStorage(data)
	if out.class == "panic" {
		c.fail("panic", "parser-panic-storageUpdates", fmt.Sprintf("storageUpdates parser panics on %q: %v", data, out.pval), rp)
	}
	same := out.class == "ok" && len(res) == len(l)
	if same {
		for i := range l {
			if !bytes.Equal(res[i].Offset, l[i].Offset) || !bytes.Equal(res[i].Data, l[i].Data) {
				same = false
			}
		}
	}
	if len(l) > 0 && len(l[0].Offset) > 0 {
		if !same {
			c.fail("monitor", "storage-roundtrip", fmt.Sprintf("parse(build(%s)) differs (class %s)", c12SUList(l), out.class), rp)
		}
	} else if out.class == "ok" { // excluded shapes: an error is fine, another list is not
		c.fail("monitor", "storage-wrong-list", fmt.Sprintf("parse(build(%s)) returns a list for an excluded shape: %s", c12SUList(l), c12SUList(res)), rp)
	}
	c.addCase(fmt.Sprintf("KBuildStorage %s %s", c12SUList(l), c12Bytes([]byte(data))), "build storage "+c12SUList(l))
	c12String(c, data, "built-strings", true)
}

// ---- txDataBuilder scripts ----
func c12CByte(b byte) string { return fmt.Sprintf("(n2b %d%%N)", b) }
func c12CInt(v int64) string { return cZ(big.NewInt(v)) }

func c12BuilderScript(c *ctx) {
	b := txDataBuilder.NewBuilder()
	b2 := txDataBuilder.NewBuilder() // the same script without interleaved reads: reading a builder must not change what it builds later
	reads := 0
	cur := b
	act := func(f func()) {
		cur = b
		f()
		cur = b2
		f()
		switch c.rng.Intn(4) { // interleaved read-only observations
		case 0:
			_ = b.ToString()
			reads++
		case 1:
			_ = b.ToBytes()
			_ = b.GetLast()
			reads++
		}
	}
	var ops []string
	ints := []int64{0, 1, -1, 255, 256, -256, 65535, 1 << 31, -(1 << 31), 1<<63 - 1, -(1 << 63), 1000000007}
	toks := []string{"", "TOK", "ALC-6258d2", "a@b", "\x00\xff"}
	n := 1 + c.rng.Intn(7)
	for i := 0; i < n; i++ {
		switch c.rng.Intn(17) {
		case 0:
			act(func() { cur.Clear() })
			ops = append(ops, "OpClear")
		case 1:
			f := c12RandFunc(c)
			act(func() { cur.Func(f) })
			ops = append(ops, "OpFunc "+c12Bytes([]byte(f)))
		case 2:
			v := byte(c.rng.Intn(256))
			act(func() { cur.Byte(v) })
			ops = append(ops, "OpByte "+c12CByte(v))
		case 3:
			v := c12RandArg(c)
			act(func() { cur.Bytes(v) })
			ops = append(ops, "OpBytes "+c12Bytes(v))
		case 4:
			v := toks[c.rng.Intn(len(toks))]
			act(func() { cur.Str(v) })
			ops = append(ops, "OpStr "+c12Bytes([]byte(v)))
		case 5:
			v := ints[c.rng.Intn(len(ints))]
			act(func() { cur.Int(int(v)) })
			ops = append(ops, "OpInt "+c12CInt(v))
		case 6:
			v := ints[c.rng.Intn(len(ints))]
			act(func() { cur.Int64(v) })
			ops = append(ops, "OpInt64 "+c12CInt(v))
		case 7:
			act(func() { cur.True() })
			ops = append(ops, "OpTrue")
		case 8:
			act(func() { cur.False() })
			ops = append(ops, "OpFalse")
		case 9:
			v := c.rng.Intn(2) == 0
			act(func() { cur.Bool(v) })
			ops = append(ops, "OpBool "+cBool(v))
		case 10:
			v := new(big.Int).Lsh(big.NewInt(int64(c.rng.Intn(1000))), uint(c.rng.Intn(100)))
			if c.rng.Intn(3) == 0 {
				v.Neg(v)
			}
			act(func() { cur.BigInt(v) })
			ops = append(ops, "OpBigInt "+cZ(v))
		case 11:
			v := []string{"", "zz", "0a", "@"}[c.rng.Intn(4)]
			act(func() { cur.SetLast(v) })
			ops = append(ops, "OpSetLast "+c12Bytes([]byte(v)))
		case 12:
			t, k, s, d := toks[c.rng.Intn(len(toks))], toks[c.rng.Intn(len(toks))], ints[c.rng.Intn(len(ints))], byte(c.rng.Intn(20))
			act(func() { cur.IssueESDT(t, k, s, d) })
			ops = append(ops, fmt.Sprintf("OpIssue %s %s %s %s", c12Bytes([]byte(t)), c12Bytes([]byte(k)), c12CInt(s), c12CByte(d)))
		case 13:
			t, v := toks[c.rng.Intn(len(toks))], ints[c.rng.Intn(len(ints))]
			act(func() { cur.TransferESDT(t, v) })
			ops = append(ops, fmt.Sprintf("OpTransferESDT %s %s", c12Bytes([]byte(t)), c12CInt(v)))
		case 14:
			t, nn, v := toks[c.rng.Intn(len(toks))], ints[c.rng.Intn(len(ints))], ints[c.rng.Intn(len(ints))]
			act(func() { cur.TransferESDTNFT(t, int(nn), v) })
			ops = append(ops, fmt.Sprintf("OpTransferESDTNFT %s %s %s", c12Bytes([]byte(t)), c12CInt(nn), c12CInt(v)))
		case 15:
			t, v := toks[c.rng.Intn(len(toks))], ints[c.rng.Intn(len(ints))]
			act(func() { cur.BurnESDT(t, v) })
			ops = append(ops, fmt.Sprintf("OpBurnESDT %s %s", c12Bytes([]byte(t)), c12CInt(v)))
		default:
			w, v := c.rng.Intn(7), c.rng.Intn(2) == 0
			switch w {
			case 0:
				act(func() { cur.CanFreeze(v) })
			case 1:
				act(func() { cur.CanWipe(v) })
			case 2:
				act(func() { cur.CanPause(v) })
			case 3:
				act(func() { cur.CanMint(v) })
			case 4:
				act(func() { cur.CanBurn(v) })
			case 5:
				act(func() { cur.CanTransferNFTCreateRole(v) })
			default:
				act(func() { cur.CanAddSpecialRoles(v) })
			}
			ops = append(ops, fmt.Sprintf("OpCan %d%%N %s", w, cBool(v)))
		}
	}
	out, last := b.ToString(), b.GetLast()
	if out2 := b2.ToString(); out2 != out || b2.GetLast() != last {
		c.fail("monitor", "builder-read-not-pure", fmt.Sprintf("a builder that was read (ToString/ToBytes/GetLast, %d times) while being filled builds %q, the same script without reads builds %q", reads, out, out2),
			map[string]string{"ops": strings.Join(ops, "; ")})
	}
	if string(b.ToBytes()) != out {
		c.fail("monitor", "builder-tobytes", "ToBytes differs from ToString", map[string]string{"ops": strings.Join(ops, "; ")})
	}
	c.note("builder/"+strings.Join(ops, ";"), true)
	c.count("builder/scripts")
	c.addCase(fmt.Sprintf("KBuilder %s %s %s", cList(ops), c12Bytes([]byte(out)), c12Bytes([]byte(last))), "builder script "+strings.Join(ops, "; "))
	c12String(c, out, "built-strings", true)
}

// c12BuilderReuse: use a builder, Clear it, build function + arguments again and parse the string with the real
// call-arguments parser: the result must be exactly (function, arguments), as for a fresh builder.
func c12BuilderReuse(c *ctx) {
	b := txDataBuilder.NewBuilder()
	b.Func("first").Bytes([]byte{1, 2}).Int(7)
	rounds := 2 + c.rng.Intn(3)
	first := b.ToBytes()
	keptBytes := []struct {
		b   []byte
		was string
	}{{first, string(first)}}
	for r := 0; r < rounds; r++ {
		b.Clear()
		f := "fn" + string(rune('A'+c.rng.Intn(26)))
		args := c12RandArgs(c)
		b.Func(f)
		for _, a := range args {
			b.Bytes(a)
		}
		out := b.ToString()
		// the messages a reused builder handed out earlier (as bytes, kept by the caller) must still read what they read then
		for _, k := range keptBytes {
			if string(k.b) != k.was {
				c.fail("monitor", "builder-bytes-changed-later", fmt.Sprintf("the bytes a builder returned earlier (%q) read %q after the builder was cleared and used for another message", k.was, k.b),
					map[string]interface{}{"earlier": k.was, "now": string(k.b), "rounds_of_clear": r + 1})
				return
			}
		}
		kb := b.ToBytes()
		keptBytes = append(keptBytes, struct {
			b   []byte
			was string
		}{kb, string(kb)})
		c.note("builder-reuse/"+out, true)
		c.count("builder/reused-roundtrips")
		pf, pa, err := parsers.NewCallArgsParser().ParseData(out)
		ok := err == nil && pf == f && len(pa) == len(args)
		if ok {
			for i := range args {
				if !bytes.Equal(pa[i], args[i]) {
					ok = false
				}
			}
		}
		if !ok {
			c.fail("monitor", "builder-roundtrip-after-clear", fmt.Sprintf("builder reused after Clear(): built %q for function %q with %d arguments; the call-arguments parser returned function %q, %d arguments, err=%v", out, f, len(args), pf, len(pa), err),
				map[string]interface{}{"function": f, "args": fmt.Sprintf("%x", args), "built": out, "rounds_of_clear": r + 1})
			return
		}
	}
}

// ---- ESDT transfer parser ----
type c12EsdtIn struct {
	snd, rcv []byte
	fn       string
	args     [][]byte
}

func c12TokenPayloads(c *ctx) [][]byte {
	var l [][]byte
	add := func(t *esdt.ESDigitalToken) {
		b, err := t.Marshal()
		if err == nil {
			l = append(l, b)
		}
	}
	add(&esdt.ESDigitalToken{Type: 1, Value: big.NewInt(5), TokenMetaData: &esdt.MetaData{Nonce: 7, Name: []byte("nft"), Creator: []byte("me"), URIs: [][]byte{[]byte("u")}}})
	add(&esdt.ESDigitalToken{Type: 1, Value: big.NewInt(0)})
	add(&esdt.ESDigitalToken{Type: 1, Value: new(big.Int).Lsh(big.NewInt(3), 90)})
	add(&esdt.ESDigitalToken{Type: 1, Value: big.NewInt(-4)})
	add(&esdt.ESDigitalToken{Type: 1})                                          // nil Value, as marshalled
	add(&esdt.ESDigitalToken{Type: 2, TokenMetaData: &esdt.MetaData{Nonce: 7}}) // nil Value with metadata
	add(&esdt.ESDigitalToken{Properties: []byte{1, 0}, Reserved: []byte{1}})    // no Value
	l = append(l, []byte{}, []byte{5}, []byte{0x08, 0x01}, []byte{0x12, 0x01, 0x00}, []byte{0x12, 0x02, 0x00, 0x09}, []byte{0x12, 0x02, 0x01, 0x09},
		[]byte{0x12, 0x00}, []byte{0x12, 0x02, 0x07, 0x01}, []byte{0x12, 0x05, 0x00}, []byte{0xff, 0xff, 0xff}, []byte{0x0a}, []byte{0x08, 0x01, 0x12, 0x02, 0x00, 0x2a, 0x12, 0x01, 0x00})
	if len(l) > 0 {
		v := append([]byte(nil), l[0]...)
		if len(v) > 3 {
			l = append(l, v[:len(v)-2]) // truncated
			w := append([]byte(nil), v...)
			w[c.rng.Intn(len(w))] ^= byte(1 << uint(c.rng.Intn(8)))
			l = append(l, w) // one flipped bit
		}
	}
	return l
}

func c12Esdt(c *ctx, p vmcommon.ESDTTransferParser, in c12EsdtIn, class string) {
	var res *vmcommon.ParsedESDTTransfers
	var err error
	var pv interface{}
	func() {
		defer func() {
			if r := recover(); r != nil {
				pv = r
			}
		}()
		res, err = p.ParseESDTTransfers(in.snd, in.rcv, in.fn, in.args)
	}()
	key := fmt.Sprintf("esdt/%x/%x/%s/%s", in.snd, in.rcv, in.fn, c12BytesList(in.args))
	c.note(key, true)
	c.count(class)
	rp := map[string]string{"parser": "ESDT transfers", "snd": hex.EncodeToString(in.snd), "rcv": hex.EncodeToString(in.rcv), "function": in.fn, "args_hex": c12HexList(in.args)}
	out := c12Out{}
	switch {
	case pv != nil:
		out.class = "panic"
		c.fail("panic", "parser-panic-esdtTransfers", fmt.Sprintf("ESDT transfer parser panics (%s, %d args, sender side %v): %v", in.fn, len(in.args), bytes.Equal(in.snd, in.rcv), pv), rp)
	case err != nil:
		out.class, out.code = "err", c12ErrCode(err)
		if res != nil {
			c.fail("monitor", "esdt-result-with-error", "ESDT transfer parser returns a result together with an error", rp)
		}
	default:
		out.class = "ok"
		var ts []string
		nilField := res == nil
		if !nilField {
			for _, t := range res.ESDTTransfers {
				if t == nil || t.ESDTValue == nil {
					nilField = true
					break
				}
				ts = append(ts, fmt.Sprintf("(%s, %s, %s, %s)", c12Bytes(t.ESDTTokenName), cN(t.ESDTTokenNonce), cZ(t.ESDTValue), cN(uint64(t.ESDTTokenType))))
			}
		}
		if nilField {
			c.fail("monitor", "esdt-nil-in-result", "ESDT transfer parser returns success with a nil transfer / value", rp)
			return
		}
		if len(res.ESDTTransfers) > len(in.args) {
			c.fail("monitor", "esdt-more-transfers-than-args", "more transfers than arguments", rp)
		}
		out.term = fmt.Sprintf("(%s, %s, %s, %s)", cList(ts), c12Bytes(res.RcvAddr), c12Bytes([]byte(res.CallFunction)), c12BytesList(res.CallArgs))
	}
	// the marshaller's answer on every argument, as a finite table for the model
	var table []string
	if in.fn == vmcommon.BuiltInFunctionMultiESDTNFTTransfer && !bytes.Equal(in.snd, in.rcv) {
		seen := map[string]bool{}
		for _, a := range in.args {
			if seen[string(a)] {
				continue
			}
			seen[string(a)] = true
			entry := "None"
			func() {
				defer func() {
					if r := recover(); r != nil {
						c.fail("panic", "unmarshal-panic", fmt.Sprintf("Unmarshal panics on %x: %v", a, r), map[string]string{"payload": hex.EncodeToString(a)})
					}
				}()
				tok := &esdt.ESDigitalToken{}
				if e := (c12Marshalizer{}).Unmarshal(tok, a); e == nil {
					entry = "(Some " + cOptZ(tok.Value) + ")"
				}
			}()
			table = append(table, c12Pair(c12Bytes(a), entry))
		}
	}
	c.addCase(fmt.Sprintf("KEsdt %s %s %s %s %s %s", c12Bytes(in.snd), c12Bytes(in.rcv), c12Bytes([]byte(in.fn)), c12BytesList(in.args), cList(table), out.coq()),
		fmt.Sprintf("ParseESDTTransfers snd=%x rcv=%x fn=%s args=%s", in.snd, in.rcv, in.fn, c12BytesList(in.args)))
	if len(c.rep.Samples) < 8 && (class == "esdt/multi/residue" || out.class == "ok") && c.rng.Intn(40) == 0 {
		c.sample(map[string]string{"esdt_function": in.fn, "args": c12BytesList(in.args), "result": out.coq()})
	}
}

func c12U64Bytes(n uint64) []byte { return new(big.Int).SetUint64(n).Bytes() }

func runC12(c *ctx) {
	c.header = "From EV Require Import Base.Bytes Base.Monad Codec.Types Parsers.Tokenize Parsers.Builder Corr.C12.\nFrom Coq.Strings Require Import String.\nLocal Open Scope string_scope.\n"
	c.perFile = 450
	if c.thorough() {
		c.perFile = 1200
	}
	maxLen := 5
	if c.thorough() || c.widen {
		maxLen = 7
	}
	c.rep.Rule = fmt.Sprintf("exhaustive: every string of length 0..%d over the five character classes {non-hex letter, '@', lower-case hex digit, upper-case hex digit, other byte} (one representative per position, rotating through the neighbours of the hex ranges) through the call-args, deploy-args and storage-updates parsers; generated '@'-free function names and argument lists (empty, leading zeros, long, many) through the real tx-data builder, the built-in functions' own encoder and back through the parser; deploy data and storage-update lists incl. the excluded shapes; random txDataBuilder scripts; hex strings of either case / odd length; the ESDT-transfer parser on all three functions and foreign names, both sides, argument counts 0..14, transfer counts {0,1,2,3, 2^63, 2^64-1, the residues with 3n+1 / 3n+2 small mod 2^64, 9-byte numbers, zero-padded}, marshalled / value-less / malformed NFT payloads. Every input is also evaluated by the Coq model. A case is non-trivial when its input is distinct.", maxLen)

	// ---- 1. exhaustive class strings ----
	total := 0
	var rec func(n int, cur []byte, cls []byte)
	rec = func(n int, cur []byte, cls []byte) {
		if n == 0 {
			total++
			c12String(c, string(cur), fmt.Sprintf("strings/len%d", len(cur)), true)
			return
		}
		for k := 0; k < 5; k++ {
			reps := c12Reps[k]
			var ch byte
			if c.thorough() || c.widen {
				ch = reps[c.rng.Intn(len(reps))]
			} else {
				ch = reps[(len(cur)+total)%len(reps)]
			}
			rec(n-1, append(cur, ch), append(cls, byte(k)))
		}
	}
	for n := 0; n <= maxLen; n++ {
		rec(n, nil, nil)
	}
	c.rep.Extra = map[string]interface{}{"class_strings": total}
	// the literals of the repository's own tests and the documented shapes
	for _, s := range []string{"ABBA@0123@0000", "ABBA@0123@0100@64@0A", "XYZY@A@A", "ABBA@A@A", "ABBA@@A", "ABBA@ABBA@A", "ABBA@ABBA@ABBA@A", "@aaaa",
		"func@1234@abcd", "func@", "func@@", "@", "@@", "aa@bb", "@aa@bb", "@@aa@bb", "aa@bb@", "AA@BB", "aA@Bb@cC@Dd", "a@b", "0@0", "ESDTTransfer@544f4b@05",
		"a@bb@cc", "@cc", "aaaa@0000@0102@", "aaaa@00@0502", "aaaa@00@050200", "aaaa@00@05", "ff@ff@ff@ff@ff@fg"} {
		c12String(c, s, "strings/literals", true)
	}

	// ---- 2. hex codec: either case, odd length ----
	nHex := 150
	if c.thorough() {
		nHex = 1500
	}
	for i := 0; i < nHex; i++ {
		b := c12RandBytes(c, c.rng.Intn(6))
		lower := hex.EncodeToString(b)
		mixed := []byte(lower)
		for j := range mixed {
			if c.rng.Intn(2) == 0 && mixed[j] >= 'a' {
				mixed[j] -= 'a' - 'A'
			}
		}
		up, e1 := hex.DecodeString(strings.ToUpper(lower))
		mx, e2 := hex.DecodeString(string(mixed))
		if e1 != nil || e2 != nil || !bytes.Equal(up, b) || !bytes.Equal(mx, b) {
			c.fail("monitor", "hex-upper-case", "hex decoder does not accept upper / mixed case of "+lower, map[string]string{"hex": lower})
		}
		s := string(mixed)
		switch c.rng.Intn(4) {
		case 0:
			s += string("0123456789abcdefABCDEF"[c.rng.Intn(22)]) // odd length
			if _, e := hex.DecodeString(s); e == nil {
				c.fail("monitor", "hex-odd-length", "hex decoder accepts the odd-length string "+s, map[string]string{"hex": s})
			}
		case 1:
			if len(s) > 0 {
				bs := []byte(s)
				bs[c.rng.Intn(len(bs))] = "gG@/:`\x00\xff "[c.rng.Intn(9)]
				s = string(bs)
			}
		}
		d, e := hex.DecodeString(s)
		c.note("hex/"+s, true)
		c.count("hex")
		if e != nil {
			c.addCase(fmt.Sprintf("KHex %s None", c12Bytes([]byte(s))), "hex.DecodeString "+s)
		} else {
			c.addCase(fmt.Sprintf("KHex %s (Some %s)", c12Bytes([]byte(s)), c12Bytes(d)), "hex.DecodeString "+s)
		}
		c.addCase(fmt.Sprintf("KHexEnc %s %s", c12Bytes(b), c12Bytes([]byte(lower))), "hex.EncodeToString "+lower)
	}

	// ---- 3. builder / encoder -> parser round trips ----
	enc := c12NewEncoder()
	nRT := 250
	if c.thorough() {
		nRT = 2500
	}
	for i := 0; i < nRT; i++ {
		c12CallRoundTrip(c, enc, c12RandFunc(c), c12RandArgs(c), "roundtrip/call")
	}
	for i := 0; i < nRT/5; i++ { // the encoder's cross-shard form: ESDTTransfer@token@value@...
		args := append([][]byte{[]byte("TOK-" + hex.EncodeToString(c12RandBytes(c, 3))), c12U64Bytes(1 + uint64(c.rng.Intn(1000)))}, c12RandArgs(c)...)
		c12CallRoundTrip(c, enc, vmcommon.BuiltInFunctionESDTTransfer, args, "roundtrip/encoder-cross-shard")
	}
	// excluded names: empty, or containing '@' (documented: not recovered)
	c12CallRoundTrip(c, enc, "", nil, "roundtrip/excluded-names")
	c12CallRoundTrip(c, enc, "", [][]byte{{1}, {}}, "roundtrip/excluded-names")
	c12CallRoundTrip(c, enc, "a@bb", [][]byte{{0xcc}}, "roundtrip/excluded-names")
	c12CallRoundTrip(c, enc, "@", nil, "roundtrip/excluded-names")
	// deploy
	for i := 0; i < nRT/3; i++ {
		code := c12RandBytes(c, 1+c.rng.Intn(40))
		vm := c12RandBytes(c, 1+c.rng.Intn(3))
		switch c.rng.Intn(12) {
		case 0:
			code = nil
		case 1:
			vm = nil
		}
		cm := vmcommon.CodeMetadata{Payable: c.rng.Intn(2) == 0, Upgradeable: c.rng.Intn(2) == 0, Readable: c.rng.Intn(2) == 0}
		c12DeployRoundTrip(c, code, vm, cm, c12RandArgs(c))
	}
	// storage updates
	for i := 0; i < nRT/3; i++ {
		n := c.rng.Intn(5)
		var l []*vmcommon.StorageUpdate
		for j := 0; j < n; j++ {
			l = append(l, &vmcommon.StorageUpdate{Offset: c12RandArg(c), Data: c12RandArg(c)})
		}
		if n > 0 && c.rng.Intn(3) != 0 && len(l[0].Offset) == 0 {
			l[0].Offset = []byte{byte(c.rng.Intn(256))}
		}
		c12StorageRoundTrip(c, l)
	}
	c12StorageRoundTrip(c, nil)
	c12StorageRoundTrip(c, []*vmcommon.StorageUpdate{{Offset: nil, Data: nil}})
	c12StorageRoundTrip(c, []*vmcommon.StorageUpdate{{Offset: nil, Data: []byte{1}}})
	c12StorageRoundTrip(c, []*vmcommon.StorageUpdate{{Offset: nil, Data: []byte{1}}, {Offset: []byte{2}, Data: []byte{3}}})
	c12StorageRoundTrip(c, []*vmcommon.StorageUpdate{{Offset: nil, Data: nil}, {Offset: nil, Data: nil}})
	c12StorageRoundTrip(c, []*vmcommon.StorageUpdate{{Offset: []byte{1}, Data: nil}, {Offset: nil, Data: nil}})
	// builder scripts
	for i := 0; i < nRT/2; i++ {
		c12BuilderScript(c)
	}
	// a REUSED builder (used, cleared, used again) must round-trip like a fresh one
	for i := 0; i < nRT/4+8; i++ {
		c12BuilderReuse(c)
	}

	// ---- 4. ESDT transfer parser ----
	p, err := parsers.NewESDTTransferParser(c12Marshalizer{})
	if err != nil {
		panic(err)
	}
	if _, e := parsers.NewESDTTransferParser(nil); e != parsers.ErrNilMarshalizer {
		c.fail("monitor", "nil-marshalizer", "NewESDTTransferParser(nil) does not return ErrNilMarshalizer", map[string]string{})
	}
	me, other := bytes.Repeat([]byte{1}, 32), bytes.Repeat([]byte{2}, 32)
	sides := [][2][]byte{{me, me}, {other, me}, {nil, nil}, {{}, me}}
	payloads := c12TokenPayloads(c)
	pick := func() []byte { return payloads[c.rng.Intn(len(payloads))] }
	nums := [][]byte{{}, {0}, {1}, {2}, {3}, {0, 0, 2}, {5}, {0xff}, c12U64Bytes(1 << 63), c12U64Bytes(1<<64 - 1),
		{1, 0, 0, 0, 0, 0, 0, 0, 0}, {1, 0, 0, 0, 0, 0, 0, 0, 1}, {1, 0, 0, 0, 0, 0, 0, 0, 2}, {0, 0, 0, 0, 0, 0, 0, 0, 0, 1}, {2, 0, 0, 0, 0, 0, 0, 0, 5}}
	fns := []string{vmcommon.BuiltInFunctionESDTTransfer, vmcommon.BuiltInFunctionESDTNFTTransfer, vmcommon.BuiltInFunctionMultiESDTNFTTransfer}
	// 4a. single transfers and foreign names: every argument count 0..8
	for _, fn := range append(fns[:2:2], "", "ESDTTransferX", "esdttransfer", "MultiESDTNFTTransfe", vmcommon.BuiltInFunctionESDTNFTCreate) {
		for _, sd := range sides {
			for n := 0; n <= 8; n++ {
				reps := 2
				if c.thorough() {
					reps = 8
				}
				for r := 0; r < reps; r++ {
					args := make([][]byte, n)
					for i := range args {
						switch c.rng.Intn(3) {
						case 0:
							args[i] = nums[c.rng.Intn(len(nums))]
						case 1:
							args[i] = []byte("TOK-" + hex.EncodeToString(c12RandBytes(c, 2)))
						default:
							args[i] = c12RandArg(c)
						}
					}
					c12Esdt(c, p, c12EsdtIn{sd[0], sd[1], fn, args}, "esdt/single+foreign")
				}
			}
		}
	}
	// 4b. multi transfer: counts x list lengths x sides
	residues := []uint64{0x5555555555555555, 0x5555555555555556, 0x5555555555555557, 0xAAAAAAAAAAAAAAAA, 0xAAAAAAAAAAAAAAAB, 0xAAAAAAAAAAAAAAAC,
		0x5555555555555554, 1 << 63, 1<<64 - 1, 1<<64 - 2, 0x2AAAAAAAAAAAAAAB, 0x8000000000000001}
	multi := vmcommon.BuiltInFunctionMultiESDTNFTTransfer
	mkArgs := func(sender bool, count []byte, n int) [][]byte {
		var args [][]byte
		if sender {
			args = append(args, other)
		}
		args = append(args, count)
		for len(args) < n {
			k := len(args)
			if sender {
				k--
			}
			switch (k - 1) % 3 {
			case 0:
				args = append(args, []byte("TOK-"+hex.EncodeToString(c12RandBytes(c, 2))))
			case 1: // nonce
				args = append(args, [][]byte{{}, {0}, {1}, {7}, {1, 0, 0, 0, 0, 0, 0, 0, 0}, {1, 0, 0, 0, 0, 0, 0, 0, 3}}[c.rng.Intn(6)])
			default: // value or marshalled token
				if c.rng.Intn(2) == 0 {
					args = append(args, pick())
				} else {
					args = append(args, nums[c.rng.Intn(len(nums))])
				}
			}
		}
		return args[:n]
	}
	for _, sender := range []bool{true, false} {
		snd := other
		if sender {
			snd = me
		}
		for _, r := range residues {
			for n := 4; n <= 13; n++ {
				c12Esdt(c, p, c12EsdtIn{snd, me, multi, mkArgs(sender, c12U64Bytes(r), n)}, "esdt/multi/residue")
			}
		}
		for _, cnt := range nums {
			for n := 0; n <= 14; n++ {
				reps := 1
				if c.thorough() {
					reps = 6
				}
				for k := 0; k < reps; k++ {
					if n == 0 {
						c12Esdt(c, p, c12EsdtIn{snd, me, multi, nil}, "esdt/multi/counts")
					} else {
						c12Esdt(c, p, c12EsdtIn{snd, me, multi, mkArgs(sender, cnt, n)}, "esdt/multi/counts")
					}
				}
			}
		}
	}
	// 4c. destination side, every payload in the NFT slot, with and without an attached call
	for _, pl := range payloads {
		for _, nonce := range [][]byte{{0}, {1}, {1, 0, 0, 0, 0, 0, 0, 0, 0}} {
			c12Esdt(c, p, c12EsdtIn{other, me, multi, [][]byte{{1}, []byte("NFT-aaaaaa"), nonce, pl}}, "esdt/multi/payloads")
			c12Esdt(c, p, c12EsdtIn{other, me, multi, [][]byte{{2}, []byte("NFT-aaaaaa"), nonce, pl, []byte("FT-bbbbbb"), {}, {9}, []byte("fn"), {1}, {}}}, "esdt/multi/payloads")
			c12Esdt(c, p, c12EsdtIn{me, me, multi, [][]byte{other, {1}, []byte("NFT-aaaaaa"), nonce, pl, []byte("fn")}}, "esdt/multi/payloads")
		}
	}
	// the two inputs that panicked on the pinned tree
	c12Esdt(c, p, c12EsdtIn{me, me, multi, [][]byte{other, c12U64Bytes(0x5555555555555556), []byte("T"), {1}}}, "esdt/multi/residue")
	c12Esdt(c, p, c12EsdtIn{other, me, multi, [][]byte{{1}, []byte("T"), {1}, {}}}, "esdt/multi/payloads")

	c.sample(map[string]string{"call_data": "func@1234@ABcd", "parsed": func() string { o, _ := c12ParseCall("func@1234@ABcd"); return o.coq() }()})
	c.sample(map[string]string{"storage_data": "@aa@bb", "parsed": func() string { o, _ := c12ParseStorage("@aa@bb"); return o.coq() }()})
	c.sample(map[string]string{"deploy_data": "ABBA@0123@0100@64@0A", "parsed": func() string { o, _ := c12ParseDeploy("ABBA@0123@0100@64@0A"); return o.coq() }()})
	c.rep.Exhaustive = false
}
