package main

// C06 — built-in functions never create gas.
//
// Two input streams on the REAL container:
//   1. random walks (ledger.go) with gas drawn around each function's cost: monitor
//      GasRemaining + sum(GasLimit) <= GasProvided on every successful call;
//   2. a scenario sweep: for every one of the 23 functions (origin side, destination side, forwarding
//      paths, several argument sizes, the no-op SaveKeyValue of defect F7) a call that succeeds is first run
//      with huge gas to LEARN its charge, then re-run on the same pre-state with
//      GasProvided in {0, charge-1, charge, charge+1, 2^63, 2^64-1}; monitors: no gas created; below the
//      charge the call fails or returns/forwards nothing; whenever it succeeds with something left the
//      amount spent equals the learned charge (the charge does not depend on the gas provided).
// Every executed call is also written as a Coq xcase and re-evaluated by the model (gas triple + status).

import (
	"bytes"
	"fmt"
	"math/big"

	vmcommon "github.com/ElrondNetwork/elrond-vm-common"
)

const projGas = "{| p_gas := true; p_transfers := false; p_logs := false; p_retdata := false; p_state := false; p_deps := false |}"

func sumGasLimit(out *vmcommon.VMOutput) *big.Int {
	sum := new(big.Int)
	for _, oa := range out.OutputAccounts {
		for _, t := range oa.OutputTransfers {
			sum.Add(sum, new(big.Int).SetUint64(t.GasLimit))
		}
	}
	return sum
}

// gasOut = GasRemaining + sum of the gas limits of the emitted transfers
func gasOut(out *vmcommon.VMOutput) *big.Int {
	return new(big.Int).Add(new(big.Int).SetUint64(out.GasRemaining), sumGasLimit(out))
}

func monGas(c *ctx, w *hWorld, pre *worldSnap, sr *stepResult, hist []string) {
	if sr.Res.Status != 0 || sr.Res.Out == nil {
		return
	}
	sum := gasOut(sr.Res.Out)
	if sum.Cmp(new(big.Int).SetUint64(sr.Call.Gas)) > 0 {
		c.fail("monitor", "gas-created/"+sr.Call.Fn, fmt.Sprintf("%s: GasRemaining + sum(GasLimit) = %s > GasProvided = %d", sr.Call.Fn, sum, sr.Call.Gas),
			map[string]interface{}{"call": describeCall(sr.Call), "pre": digestAccounts(sr.Res.Pre), "history": histReplay(hist)})
	}
}

// ---------------------------------------------------------------- scenarios

// gasScenario: a world prepared so that Call succeeds when given enough gas
type gasScenario struct {
	Name string
	W    *hWorld
	Call *callSpec
}

// deliverSpec builds the destination-side execution of an in-flight message (as world.step does)
func deliverSpec(w *hWorld, m *hMsg) *callSpec {
	sh := w.shardOf(m.Dest)
	return &callSpec{Shard: sh, Fn: m.Fn, Caller: m.Caller, Rcpt: m.Dest, Args: cloneArgs(m.Args), Value: big.NewInt(0), Gas: m.GasLimit,
		Locked: m.Locked, CallType: m.CallType, Snd: w.shardOf(m.Caller) == sh, Dst: true, FailAt: -1}
}

func sysSpec(w *hWorld, u *universe, shard uint32, rcpt []byte, fn string, args ...[]byte) *callSpec {
	return &callSpec{Shard: shard, Fn: fn, Caller: u.SC, Rcpt: rcpt, Args: args, Value: big.NewInt(0), Snd: false, Dst: true, FailAt: -1}
}

// gasScenarios builds every scenario on its own fresh two-shard world with the standard holdings:
// U[0] (shard 0) and U[2] (shard 1) hold every role; U[0] owns NFA#1 (1), SFT#1 (50), SFT#2 (7); U[0],U[1],U[2],K[0] hold 1000 of each fungible.
// mkWorld builds the populated two-shard world (C16 passes worlds whose factories went through schedule changes).
func gasScenarios(u *universe, mkWorld func() *hWorld, sizes []int) []*gasScenario {
	var out []*gasScenario
	fresh := func() *hWorld {
		w := mkWorld()
		// K[0] (shard 0) and K[1] (shard 1) are owned by U[0] and carry developer rewards
		for i, k := range u.K {
			a := w.shards[i].account(k)
			a.owner = append([]byte(nil), u.U[0]...)
			a.devReward = big.NewInt(500 + int64(i))
		}
		return w
	}
	add := func(name string, w *hWorld, cs *callSpec) {
		out = append(out, &gasScenario{Name: name, W: w, Call: cs})
	}
	// origin-side message -> destination-side scenario
	addDelivered := func(name string, w *hWorld, origin *callSpec) {
		origin.Gas = setupGas
		sr := w.step(&worldOp{Kind: opTx, Call: origin})
		mustOK(sr, name+": origin step")
		if len(sr.NewMsgs) != 1 {
			panic(fmt.Sprintf("%s: expected one in-flight message, got %d", name, len(sr.NewMsgs)))
		}
		add(name, w, deliverSpec(w, sr.NewMsgs[0]))
	}
	U, K := u.U, u.K
	tka, nfa, sft := u.Fung[0], u.NFTs[0], u.NFTs[1]
	rep := func(b byte, n int) []byte { return bytes.Repeat([]byte{b}, n) }

	// ---- account-level functions
	{
		w := fresh()
		add("ClaimDeveloperRewards/same-shard", w, w.mkCall(0, "ClaimDeveloperRewards", U[0], K[0], nil, 0))
		w = fresh()
		add("ClaimDeveloperRewards/origin-side(contract on other shard)", w, w.mkCall(0, "ClaimDeveloperRewards", U[0], K[1], nil, 0))
		w = fresh()
		add("ClaimDeveloperRewards/destination-side", w, w.mkCall(1, "ClaimDeveloperRewards", U[0], K[1], nil, 0))
		w = fresh()
		cs := w.mkCall(0, "ClaimDeveloperRewards", U[0], K[0], nil, 0)
		cs.CallType = vmcommon.AsynchronousCall
		cs.Locked = 7
		add("ClaimDeveloperRewards/same-shard-async(user)", w, cs)
		// a contract that owns another contract on its shard claims asynchronously: the remaining gas goes into a
		// call-back transfer which is then dropped (gas lost, not created)
		w = fresh()
		w.shards[0].account(K[0]).owner = append([]byte(nil), scAddr(0x33)...)
		w.shardTab[string(scAddr(0x33))] = 0
		cs = w.mkCall(0, "ClaimDeveloperRewards", scAddr(0x33), K[0], nil, 0)
		cs.CallType = vmcommon.AsynchronousCall
		add("ClaimDeveloperRewards/same-shard-async(contract caller)", w, cs)

		w = fresh()
		add("ChangeOwnerAddress/same-shard", w, w.mkCall(0, "ChangeOwnerAddress", U[0], K[0], [][]byte{U[1]}, 0))
		w = fresh()
		add("ChangeOwnerAddress/origin-side", w, w.mkCall(0, "ChangeOwnerAddress", U[0], K[1], [][]byte{U[1]}, 0))
		w = fresh()
		add("ChangeOwnerAddress/destination-side", w, w.mkCall(1, "ChangeOwnerAddress", U[0], K[1], [][]byte{U[1]}, 0))

		for _, n := range sizes {
			w = fresh()
			add(fmt.Sprintf("SetUserName/same-shard/len=%d", n), w, w.mkCall(0, "SetUserName", u.DNS, U[1], [][]byte{rep('n', n)}, 0))
		}
		w = fresh()
		add("SetUserName/origin-side(forwards all gas)", w, w.mkCall(0, "SetUserName", u.DNS, U[2], [][]byte{[]byte("alice.elrond")}, 0))
		w = fresh()
		addDelivered("SetUserName/destination-side", w, w.mkCall(0, "SetUserName", u.DNS, U[2], [][]byte{[]byte("alice.elrond")}, 0))
	}
	// ---- SaveKeyValue, including the no-op call of defect F7
	{
		for _, n := range sizes {
			w := fresh()
			add(fmt.Sprintf("SaveKeyValue/new-key/len=%d", n), w, w.mkCall(0, "SaveKeyValue", U[0], U[0], [][]byte{[]byte("k1"), rep('v', n+1)}, 0))
			w = fresh()
			mustOK(w.tx(U[0], U[0], "SaveKeyValue", setupGas, []byte("k1"), rep('v', n+1)), "skv setup")
			add(fmt.Sprintf("SaveKeyValue/unchanged-value(F7)/len=%d", n), w, w.mkCall(0, "SaveKeyValue", U[0], U[0], [][]byte{[]byte("k1"), rep('v', n+1)}, 0))
			w = fresh()
			mustOK(w.tx(U[0], U[0], "SaveKeyValue", setupGas, []byte("k1"), rep('v', n+1)), "skv setup")
			add(fmt.Sprintf("SaveKeyValue/growing-value/len=%d", n), w, w.mkCall(0, "SaveKeyValue", U[0], U[0], [][]byte{[]byte("k1"), rep('w', 2*n+3)}, 0))
			w = fresh()
			mustOK(w.tx(U[0], U[0], "SaveKeyValue", setupGas, []byte("k1"), rep('v', 2*n+3)), "skv setup")
			add(fmt.Sprintf("SaveKeyValue/shrinking-value/len=%d", n), w, w.mkCall(0, "SaveKeyValue", U[0], U[0], [][]byte{[]byte("k1"), rep('w', n+1)}, 0))
		}
		w := fresh()
		mustOK(w.tx(U[0], U[0], "SaveKeyValue", setupGas, []byte("k1"), []byte("same"), []byte("k2"), []byte("old")), "skv setup")
		add("SaveKeyValue/three-pairs(unchanged,changed,new)", w, w.mkCall(0, "SaveKeyValue", U[0], U[0],
			[][]byte{[]byte("k1"), []byte("same"), []byte("k2"), []byte("newer-value"), []byte("k3"), []byte("x")}, 0))
		w = fresh()
		mustOK(w.tx(U[0], U[0], "SaveKeyValue", setupGas, []byte("k1"), []byte("same"), []byte("k2"), []byte("same2")), "skv setup")
		add("SaveKeyValue/two-pairs-all-unchanged(F7)", w, w.mkCall(0, "SaveKeyValue", U[0], U[0],
			[][]byte{[]byte("k1"), []byte("same"), []byte("k2"), []byte("same2")}, 0))
		w = fresh()
		add("SaveKeyValue/same-key-twice", w, w.mkCall(0, "SaveKeyValue", U[0], U[0],
			[][]byte{[]byte("k1"), []byte("aa"), []byte("k1"), []byte("aa")}, 0))
	}
	// ---- system-contract functions
	{
		w := fresh()
		add("ESDTPause", w, sysSpec(w, u, 0, u.SYS, "ESDTPause", tka))
		w = fresh()
		add("ESDTUnPause", w, sysSpec(w, u, 0, u.SYS, "ESDTUnPause", tka))
		w = fresh()
		add("ESDTFreeze", w, sysSpec(w, u, 0, U[0], "ESDTFreeze", tka))
		w = fresh()
		mustOK(w.sys(u, U[0], "ESDTFreeze", tka), "freeze")
		add("ESDTUnFreeze", w, sysSpec(w, u, 0, U[0], "ESDTUnFreeze", tka))
		w = fresh()
		mustOK(w.sys(u, U[0], "ESDTFreeze", tka), "freeze")
		add("ESDTWipe", w, sysSpec(w, u, 0, U[0], "ESDTWipe", tka))
		w = fresh()
		add("ESDTSetRole", w, sysSpec(w, u, 0, U[1], "ESDTSetRole", tka, u.AllRoles[0], u.AllRoles[1]))
		w = fresh()
		add("ESDTUnSetRole", w, sysSpec(w, u, 0, U[0], "ESDTUnSetRole", tka, u.AllRoles[0]))
		w = fresh()
		add("ESDTNFTCreateRoleTransfer/at-current-owner(same shard)", w, sysSpec(w, u, 0, U[0], "ESDTNFTCreateRoleTransfer", nfa, U[1]))
		w = fresh()
		add("ESDTNFTCreateRoleTransfer/at-current-owner(cross shard)", w, sysSpec(w, u, 0, U[0], "ESDTNFTCreateRoleTransfer", nfa, U[2]))
		w = fresh()
		sr := w.step(&worldOp{Kind: opSys, Call: sysSpec(w, u, 0, U[0], "ESDTNFTCreateRoleTransfer", nfa, U[2])})
		mustOK(sr, "role transfer origin")
		if len(sr.NewMsgs) == 1 {
			add("ESDTNFTCreateRoleTransfer/at-next-owner", w, deliverSpec(w, sr.NewMsgs[0]))
		}
		// the system contract issuing tokens: ESDTTransfer with the system contract as caller (destination side)
		w = fresh()
		add("ESDTTransfer/issue-by-system-contract", w, sysSpec(w, u, 0, U[1], "ESDTTransfer", tka, be(5)))
	}
	// ---- ESDTTransfer
	{
		w := fresh()
		add("ESDTTransfer/same-shard-user", w, w.mkCall(0, "ESDTTransfer", U[0], U[1], [][]byte{tka, be(10)}, 0))
		w = fresh()
		add("ESDTTransfer/origin-side", w, w.mkCall(0, "ESDTTransfer", U[0], U[2], [][]byte{tka, be(10)}, 0))
		w = fresh()
		add("ESDTTransfer/destination-side(no call)", w, w.mkCall(1, "ESDTTransfer", U[0], U[2], [][]byte{tka, be(10)}, 0))
		w = fresh()
		add("ESDTTransfer/destination-side(contract call)", w, w.mkCall(1, "ESDTTransfer", U[0], K[1], [][]byte{tka, be(10), []byte("deposit"), {1}}, 0))
		w = fresh()
		cs := w.mkCall(1, "ESDTTransfer", U[0], U[2], [][]byte{tka, be(10)}, 0)
		cs.CallType = vmcommon.AsynchronousCallBack
		add("ESDTTransfer/destination-side(call-back: gas returned)", w, cs)
		w = fresh()
		add("ESDTTransfer/same-shard-contract-call(forwards)", w, w.mkCall(0, "ESDTTransfer", U[0], K[0], [][]byte{tka, be(10), []byte("deposit"), {1}}, 0))
		w = fresh()
		add("ESDTTransfer/origin-side-from-contract(forwards)", w, w.mkCall(0, "ESDTTransfer", K[0], U[2], [][]byte{tka, be(10)}, 0))
		w = fresh()
		add("ESDTBurn/user", w, w.mkCall(0, "ESDTBurn", U[0], u.SC, [][]byte{tka, be(10)}, 0))
		w = fresh()
		add("ESDTBurn/contract(forwards)", w, w.mkCall(0, "ESDTBurn", K[0], u.SC, [][]byte{tka, be(10)}, 0))
	}
	// ---- supply functions
	{
		w := fresh()
		add("ESDTLocalMint", w, w.mkCall(0, "ESDTLocalMint", U[0], U[0], [][]byte{tka, be(10)}, 0))
		w = fresh()
		add("ESDTLocalBurn", w, w.mkCall(0, "ESDTLocalBurn", U[0], U[0], [][]byte{tka, be(10)}, 0))
		w = fresh()
		add("ESDTNFTAddQuantity", w, w.mkCall(0, "ESDTNFTAddQuantity", U[0], U[0], [][]byte{sft, be(1), be(5)}, 0))
		w = fresh()
		add("ESDTNFTBurn", w, w.mkCall(0, "ESDTNFTBurn", U[0], U[0], [][]byte{sft, be(1), be(5)}, 0))
		for _, n := range sizes {
			w = fresh()
			add(fmt.Sprintf("ESDTNFTCreate/len=%d", n), w, w.mkCall(0, "ESDTNFTCreate", U[0], U[0],
				[][]byte{sft, be(3), rep('n', n), be(100), rep('h', n), rep('a', 2*n), rep('u', n), rep('v', n/2)}, 0))
			w = fresh()
			add(fmt.Sprintf("ESDTNFTAddURI/len=%d", n), w, w.mkCall(0, "ESDTNFTAddURI", U[0], U[0], [][]byte{sft, be(1), rep('u', n), rep('w', n/3)}, 0))
			w = fresh()
			add(fmt.Sprintf("ESDTNFTUpdateAttributes/len=%d", n), w, w.mkCall(0, "ESDTNFTUpdateAttributes", U[0], U[0], [][]byte{sft, be(1), rep('a', n)}, 0))
		}
	}
	// ---- ESDTNFTTransfer
	{
		w := fresh()
		add("ESDTNFTTransfer/same-shard-user", w, w.mkCall(0, "ESDTNFTTransfer", U[0], U[0], [][]byte{sft, be(1), be(5), U[1]}, 0))
		w = fresh()
		mustOK(w.tx(U[0], U[0], "ESDTNFTTransfer", setupGas, sft, be(1), be(5), U[1]), "nft setup")
		add("ESDTNFTTransfer/same-shard-user(destination already holds)", w, w.mkCall(0, "ESDTNFTTransfer", U[0], U[0], [][]byte{sft, be(1), be(7), U[1]}, 0))
		// the destination's holding grows past a byte boundary (255 + 1): the stored entry is longer than the one that is sent
		w = fresh()
		mustOK(w.tx(U[0], U[0], "ESDTNFTAddQuantity", setupGas, sft, be(1), be(1000)), "nft setup")
		mustOK(w.tx(U[0], U[0], "ESDTNFTTransfer", setupGas, sft, be(1), be(255), U[1]), "nft setup")
		add("ESDTNFTTransfer/same-shard-user(destination holding grows a byte)", w, w.mkCall(0, "ESDTNFTTransfer", U[0], U[0], [][]byte{sft, be(1), be(1), U[1]}, 0))
		w = fresh()
		mustOK(w.tx(U[0], U[0], "ESDTNFTAddQuantity", setupGas, sft, be(1), be(1000)), "nft setup")
		mustOK(w.tx(U[0], U[0], "ESDTNFTTransfer", setupGas, sft, be(1), be(255), K[0], []byte("x")), "nft setup")
		add("ESDTNFTTransfer/same-shard-contract-call(destination holding grows a byte, forwards)", w, w.mkCall(0, "ESDTNFTTransfer", U[0], U[0], [][]byte{sft, be(1), be(1), K[0], []byte("deposit")}, 0))
		w = fresh()
		mustOK(w.tx(U[0], U[0], "ESDTNFTAddQuantity", setupGas, sft, be(1), be(1000)), "nft setup")
		mustOK(w.tx(U[0], U[0], "ESDTNFTTransfer", setupGas, sft, be(1), be(255), U[1]), "nft setup")
		add("MultiESDTNFTTransfer/same-shard(destination holding grows a byte)", w, w.mkCall(0, "MultiESDTNFTTransfer", U[0], U[0], [][]byte{U[1], be(1), sft, be(1), be(1)}, 0))
		w = fresh()
		add("ESDTNFTTransfer/same-shard-contract-call(forwards)", w, w.mkCall(0, "ESDTNFTTransfer", U[0], U[0], [][]byte{sft, be(1), be(5), K[0], []byte("deposit"), {9}}, 0))
		w = fresh()
		add("ESDTNFTTransfer/origin-side", w, w.mkCall(0, "ESDTNFTTransfer", U[0], U[0], [][]byte{sft, be(1), be(5), U[2]}, 0))
		w = fresh()
		add("ESDTNFTTransfer/origin-side-contract-call(forwards)", w, w.mkCall(0, "ESDTNFTTransfer", U[0], U[0], [][]byte{nfa, be(1), be(1), K[1], []byte("deposit")}, 0))
		w = fresh()
		addDelivered("ESDTNFTTransfer/destination-side", w, w.mkCall(0, "ESDTNFTTransfer", U[0], U[0], [][]byte{sft, be(1), be(5), U[2]}, 0))
		w = fresh()
		addDelivered("ESDTNFTTransfer/destination-side(contract call)", w, w.mkCall(0, "ESDTNFTTransfer", U[0], U[0], [][]byte{sft, be(2), be(3), K[1], []byte("deposit"), {1, 2}}, 0))
	}
	// ---- MultiESDTNFTTransfer
	{
		w := fresh()
		add("MultiESDTNFTTransfer/same-shard(1 fungible)", w, w.mkCall(0, "MultiESDTNFTTransfer", U[0], U[0], [][]byte{U[1], be(1), tka, nil, be(10)}, 0))
		w = fresh()
		add("MultiESDTNFTTransfer/same-shard(fungible+2 NFT)", w, w.mkCall(0, "MultiESDTNFTTransfer", U[0], U[0],
			[][]byte{U[1], be(3), tka, nil, be(10), sft, be(1), be(5), nfa, be(1), be(1)}, 0))
		w = fresh()
		add("MultiESDTNFTTransfer/same-shard-contract-call(forwards)", w, w.mkCall(0, "MultiESDTNFTTransfer", U[0], U[0],
			[][]byte{K[0], be(2), tka, nil, be(10), sft, be(1), be(5), []byte("deposit")}, 0))
		w = fresh()
		add("MultiESDTNFTTransfer/origin-side(2 NFT)", w, w.mkCall(0, "MultiESDTNFTTransfer", U[0], U[0],
			[][]byte{U[2], be(2), sft, be(1), be(5), sft, be(2), be(2)}, 0))
		w = fresh()
		add("MultiESDTNFTTransfer/origin-side(same NFT twice)", w, w.mkCall(0, "MultiESDTNFTTransfer", U[0], U[0],
			[][]byte{U[2], be(2), sft, be(1), be(5), sft, be(1), be(6)}, 0))
		w = fresh()
		add("MultiESDTNFTTransfer/origin-side-contract-call(forwards)", w, w.mkCall(0, "MultiESDTNFTTransfer", U[0], U[0],
			[][]byte{K[1], be(2), tka, nil, be(10), nfa, be(1), be(1), []byte("deposit"), {4}}, 0))
		w = fresh()
		addDelivered("MultiESDTNFTTransfer/destination-side", w, w.mkCall(0, "MultiESDTNFTTransfer", U[0], U[0],
			[][]byte{U[2], be(2), tka, nil, be(10), sft, be(1), be(5)}, 0))
		w = fresh()
		addDelivered("MultiESDTNFTTransfer/destination-side(contract call)", w, w.mkCall(0, "MultiESDTNFTTransfer", U[0], U[0],
			[][]byte{K[1], be(1), sft, be(1), be(5), []byte("deposit")}, 0))
	}
	return out
}

// runOn executes cs with the given gas on the scenario's pre-state (restored afterwards) and emits the call as a Coq case
func (c *ctx) runOn(sc *gasScenario, gas uint64, emit bool) *callResult {
	w, cs := sc.W, sc.Call
	sh := w.shards[cs.Shard]
	snap := snapshotShard(sh)
	call := *cs
	call.Gas = gas
	call.Args = cloneArgs(cs.Args)
	res := w.exec(&call)
	if emit {
		c.addExecCase(w, &call, res)
	}
	sh.accounts = snap
	return res
}

const learnGas = uint64(1) << 62

// setupGas pays for the preparatory calls of a scenario under any 32-bit schedule and any swept size
const setupGas = uint64(1) << 60

func stdPopulated(u *universe, gas map[string]map[string]uint64) func() *hWorld {
	return func() *hWorld {
		w := u.stdWorld(2, 0, gas)
		u.populate(w)
		return w
	}
}

func (c *ctx) sweepGas(u *universe, gas map[string]map[string]uint64, sizes []int, tag string) {
	c.header = execHeader
	c.caseType = "xcase"
	c.mismatchExpr = "xmismatches (" + projGas + ") cases"
	c.perFile = 250
	covered := map[string]bool{}
	for _, sc := range gasScenarios(u, stdPopulated(u, gas), sizes) {
		name := tag + sc.Name
		replay := func(g uint64) map[string]interface{} {
			cs := *sc.Call
			cs.Gas = g
			return map[string]interface{}{"scenario": name, "call": describeCall(&cs), "pre": digestAccounts(snapshotShard(sc.W.shards[sc.Call.Shard])),
				"gas_schedule": sc.W.gasMap}
		}
		learn := c.runOn(sc, learnGas, true)
		c.note("learn/"+name, true)
		if learn.Status != 0 || learn.Out == nil {
			msg := learn.PanicMsg
			if learn.Err != nil {
				msg = learn.Err.Error()
			}
			// a scenario that does not succeed with 2^62 gas is a harness bug, not a property violation
			panic(fmt.Sprintf("C06 sweep: scenario %q does not succeed with huge gas: %s", name, msg))
		}
		covered[sc.Call.Fn] = true
		left := gasOut(learn.Out)
		big62 := new(big.Int).SetUint64(learnGas)
		if left.Cmp(big62) > 0 {
			c.fail("monitor", "gas-created/"+sc.Call.Fn, fmt.Sprintf("%s: GasRemaining + sum(GasLimit) = %s > GasProvided = %d", name, left, learnGas), replay(learnGas))
			continue
		}
		consumesAll := left.Sign() == 0
		charge := new(big.Int).Sub(big62, left).Uint64()
		class := "priced"
		if consumesAll {
			class = "consumes-all"
			charge = 0
		} else if charge == 0 {
			class = "returns-or-forwards-all"
		}
		c.count("sweep/class/" + class)
		c.count("sweep/scenario/" + sc.Call.Fn)
		if c.rep.Extra == nil {
			c.rep.Extra = map[string]interface{}{}
		}
		c.rep.Extra["scenario:"+name] = map[string]interface{}{"class": class, "learned_charge": charge}
		if len(c.rep.Samples) < 8 {
			c.sample(map[string]interface{}{"scenario": name, "class": class, "learned_charge": charge})
		}
		pool := []uint64{0, charge, charge + 1, 1 << 63, 1<<64 - 1}
		if charge > 0 {
			pool = append(pool, charge-1)
		}
		if charge > 2 {
			pool = append(pool, charge/2)
		}
		seen := map[uint64]bool{}
		for _, g := range pool {
			if seen[g] {
				continue
			}
			seen[g] = true
			res := c.runOn(sc, g, true)
			c.note(fmt.Sprintf("sweep/%s/gas=%d", name, g), true)
			c.count(fmt.Sprintf("sweep/%s/%s", map[bool]string{true: "below-charge", false: "at-or-above-charge"}[g < charge], statusName(res.Status)))
			if res.Status == 2 {
				c.fail("panic", "panic/"+sc.Call.Fn, fmt.Sprintf("%s with gas %d panicked: %s", name, g, res.PanicMsg), replay(g))
				continue
			}
			if res.Status != 0 || res.Out == nil {
				if g >= charge && !consumesAll {
					// informational: some functions demand more than they charge (SetUserName on the origin side)
					c.count("sweep/above-charge-but-rejected/" + sc.Call.Fn)
				}
				continue
			}
			out := gasOut(res.Out)
			gB := new(big.Int).SetUint64(g)
			if out.Cmp(gB) > 0 {
				c.fail("monitor", "gas-created/"+sc.Call.Fn, fmt.Sprintf("%s: GasRemaining + sum(GasLimit) = %s > GasProvided = %d", name, out, g), replay(g))
				continue
			}
			if consumesAll {
				if out.Sign() != 0 {
					c.fail("monitor", "gas-depends-on-provided/"+sc.Call.Fn, fmt.Sprintf("%s returned nothing with gas 2^62 but %s with gas %d", name, out, g), replay(g))
				}
				continue
			}
			if g < charge {
				if out.Sign() != 0 {
					c.fail("monitor", "underfunded-keeps-gas/"+sc.Call.Fn,
						fmt.Sprintf("%s: charge %d, GasProvided %d: succeeded with GasRemaining + sum(GasLimit) = %s", name, charge, g, out), replay(g))
				}
				continue
			}
			// funded: either everything is gone (allowed only when g == charge) or exactly the charge was taken
			spent := new(big.Int).Sub(gB, out)
			if spent.Cmp(new(big.Int).SetUint64(charge)) != 0 {
				c.fail("monitor", "charge-depends-on-gas/"+sc.Call.Fn,
					fmt.Sprintf("%s: charge learned with gas 2^62 is %d, with gas %d the call spent %s", name, charge, g, spent), replay(g))
			}
		}
	}
	for _, fn := range builtinNames {
		if !covered[fn] {
			panic("C06 sweep: no successful scenario for " + fn)
		}
	}
}

// denseGas: every scenario again with (a) EVERY gas value in a window below and just above the learned charge (a guard that looks at a
// smaller amount than what is subtracted afterwards wraps only inside such a window), and (b) asynchronous call type with gas locked for the
// callback {1, the charge, all the gas, more than the gas} (forwarding paths subtract the locked gas).  Judged by the inequality only; a
// sample of the calls is re-evaluated by the model.
func (c *ctx) denseGas(u *universe, gas map[string]map[string]uint64, sizes []int, tag string) {
	for _, sc := range gasScenarios(u, stdPopulated(u, gas), sizes) {
		name := tag + sc.Name
		learn := c.runOn(sc, learnGas, false)
		if learn.Status != 0 || learn.Out == nil {
			continue
		}
		charge := new(big.Int).Sub(new(big.Int).SetUint64(learnGas), gasOut(learn.Out)).Uint64()
		check := func(call *callSpec, g uint64, emit bool, what string) {
			sc2 := &gasScenario{Name: sc.Name, W: sc.W, Call: call}
			res := c.runOn(sc2, g, emit)
			c.count("dense/" + what + "/" + statusName(res.Status))
			if res.Status == 2 {
				c.fail("panic", "panic/"+call.Fn, fmt.Sprintf("%s (%s) with gas %d panicked: %s", name, what, g, res.PanicMsg), map[string]interface{}{"scenario": name, "call": describeCall(call), "gas": g})
				return
			}
			if res.Status != 0 || res.Out == nil {
				return
			}
			if out := gasOut(res.Out); out.Cmp(new(big.Int).SetUint64(g)) > 0 {
				cs := *call
				cs.Gas = g
				c.fail("monitor", "gas-created/"+call.Fn, fmt.Sprintf("%s (%s): GasRemaining + sum(GasLimit) = %s > GasProvided = %d", name, what, out, g),
					map[string]interface{}{"scenario": name, "call": describeCall(&cs), "pre": digestAccounts(snapshotShard(sc.W.shards[sc.Call.Shard])), "gas_schedule": sc.W.gasMap})
			}
		}
		lo := uint64(0)
		if charge > 48 {
			lo = charge - 48
		}
		for g := lo; g <= charge+2; g++ {
			check(sc.Call, g, g%16 == 0, "window")
			c.note(fmt.Sprintf("dense/%s/gas=%d", name, g), true)
		}
		for _, locked := range []uint64{1, charge, charge + 5, 1 << 63} {
			for _, g := range []uint64{charge, charge + 1, charge + 3, learnGas} {
				call := *sc.Call
				call.CallType = vmcommon.AsynchronousCall
				call.Locked = locked
				check(&call, g, locked == 1 || g == charge+1, "async-locked")
				c.note(fmt.Sprintf("dense-locked/%s/gas=%d/locked=%d", name, g, locked), true)
			}
		}
	}
}

// probeWrap: OUTSIDE the property's quantifier (costs are not 32-bit): with StorePerByte = 2^63 the product
// bytes * StorePerByte wraps, the function under-charges, and still no gas is created.  Recorded in the evidence,
// compared with the model (whose arithmetic wraps explicitly); never a failure unless gas is created.
func (c *ctx) probeWrap(u *universe) {
	w := u.stdWorld(2, 0, distinctGas(10, 3))
	u.populate(w)
	gas := distinctGas(10, 3)
	gas["BaseOperationCost"]["StorePerByte"] = 1 << 63
	for _, sh := range w.shards {
		sh.factory.GasScheduleChange(gas)
	}
	w.gasMap = gas
	cost := gas["BuiltInCost"]["ESDTNFTAddURI"]
	for _, n := range []int{1, 2, 3, 4} {
		sc := &gasScenario{Name: fmt.Sprintf("wrap-probe/ESDTNFTAddURI/StorePerByte=2^63/uri-bytes=%d", n), W: w,
			Call: w.mkCall(0, "ESDTNFTAddURI", u.U[0], u.U[0], [][]byte{u.NFTs[1], be(1), bytes.Repeat([]byte{'u'}, n)}, 0)}
		for _, g := range []uint64{cost, cost + 1, 1 << 62, 1<<64 - 1} {
			res := c.runOn(sc, g, true)
			c.note(fmt.Sprintf("%s/gas=%d", sc.Name, g), true)
			c.count("wrap-probe/" + statusName(res.Status))
			if res.Status != 0 || res.Out == nil {
				continue
			}
			out := gasOut(res.Out)
			if out.Cmp(new(big.Int).SetUint64(g)) > 0 {
				c.fail("monitor", "gas-created/ESDTNFTAddURI", fmt.Sprintf("%s: GasRemaining + sum(GasLimit) = %s > GasProvided = %d", sc.Name, out, g),
					map[string]interface{}{"scenario": sc.Name, "call": describeCall(sc.Call), "gas": g, "gas_schedule": gas})
				continue
			}
			spent := new(big.Int).Sub(new(big.Int).SetUint64(g), out)
			c.rep.Extra[fmt.Sprintf("%s/gas=%d", sc.Name, g)] = map[string]interface{}{"spent": spent.String(), "own_cost": cost,
				"note": "informational: a 64-bit per-byte cost wraps in bytes*StorePerByte; even byte counts are stored for the flat cost only"}
		}
	}
}

// maxCostGas: every cost close to the top of the 32-bit range, pairwise distinct
func maxCostGas() map[string]map[string]uint64 {
	m := distinctGas(1<<32-100, 5)
	for i, f := range baseCostFields {
		m["BaseOperationCost"][f] = 1<<32 - 1 - uint64(i)
	}
	return m
}

func init() {
	runners["C06"] = func(c *ctx) {
		u := newUniverse()
		c.rep.Rule = "(1) random walks over 1-3 shard worlds (standard holdings) with gas drawn around each function's cost {0,cost-1,cost,cost+1,2^63,2^64-1,...}; " +
			"(2) scenario sweep: every one of the 23 functions (origin side, destination side, forwarding paths, several argument sizes, the no-op SaveKeyValue of F7) " +
			"re-run on the same pre-state with GasProvided in {0,charge/2,charge-1,charge,charge+1,2^63,2^64-1}, the charge learned from a run with 2^62 gas, under two schedules. " +
			"(3) dense window: every scenario with EVERY gas value in [charge-48, charge+2] and, as an asynchronous call, with gas locked for the callback in {1, charge, charge+5, 2^63} (inequality only; a sample re-evaluated by the model). " +
			"Monitors on the implementation: GasRemaining+sum(GasLimit)<=GasProvided; below the charge: error or nothing left; when something is left the amount spent equals the learned charge. " +
			"Every executed call is re-evaluated in the Coq model (status + gas triple compared). distinct = distinct (world state, operation) resp. (scenario, gas)."
		n, ops := 5, 220
		sizes := []int{0, 1, 40}
		if c.thorough() || c.widen {
			n, ops = 40, 500
			sizes = []int{0, 1, 2, 7, 40, 300, 5000}
		}
		c.walk(u, walkOpts{Worlds: n, Ops: ops, Proj: projGas, Monitors: []monitor{monGas}})
		c.sweepGas(u, distinctGas(10, 3), sizes, "")
		// 32-bit costs near the top of the range: products stay far below 2^64, sums exceed 2^32
		c.sweepGas(u, maxCostGas(), sizes[:2], "maxcost/")
		c.denseGas(u, distinctGas(10, 3), sizes[:2], "dense/")
		c.probeWrap(u)
	}
}
