package main

// Random walks over the world with per-property monitors; every executed call is also written as
// a Coq case for the correspondence check (Corr/Exec.v).

import (
	"fmt"
	"os"
	"math/big"
	"strings"

	vmcommon "github.com/ElrondNetwork/elrond-vm-common"
)

type worldSnap struct {
	Totals   map[string]*big.Int
	Balances map[string]*big.Int
	Digest   string
}

func (w *hWorld) snap() *worldSnap {
	return &worldSnap{Totals: w.totals(), Balances: w.allBalances(), Digest: w.digest()}
}

type monitor func(c *ctx, w *hWorld, pre *worldSnap, sr *stepResult, hist []string)

type walkOpts struct {
	Worlds   int
	Ops      int
	Proj     string // Coq projection expression
	Monitors []monitor
	Tune     func(g *gen)
	EmitProb int // emit one of every EmitProb executed calls as a Coq case (1 = all)
	MaxCases int
	Hist     bool // also emit each world's whole history (and a prefix) as a Coq hcase replayed by Ledger/World.v
}

func histReplay(hist []string) map[string]interface{} {
	h := hist
	if len(h) > 60 {
		h = h[len(h)-60:]
	}
	return map[string]interface{}{"history_tail": h, "length": len(hist)}
}

func statusName(s int) string { return []string{"ok", "err", "panic"}[s] }

func (c *ctx) walk(u *universe, o walkOpts) {
	c.header = execHeader
	c.caseType = "xcase"
	c.mismatchExpr = "xmismatches (" + o.Proj + ") cases"
	c.perFile = 250
	emitted := 0
	richSeen := 0
	for wi := 0; wi < o.Worlds; wi++ {
		nSh := []int{2, 2, 1, 3, 2}[wi%5]
		sysShard := uint32(wi % nSh)
		gas := distinctGas(uint64(10+7*wi), 3)
		w := u.stdWorld(nSh, sysShard, gas)
		u.rich = false
		u.populate(w)
		specialIdx := 0
		if wi%2 == 1 {
			richSeen++
			u.populateRich(w) // every other world: balances beyond 64 bits, nonces past 256, pre-holding destinations, more address shapes
		}
		g := newGen(c, u, w)
		if o.Tune != nil {
			o.Tune(g)
		}
		var hist []string
		var hrec *histRecorder
		if o.Hist {
			hrec = c.startHistory(w)
		}
		cover := coverCalls(u, w)
		var tour []func() *worldOp
		if u.rich {
			tour = richTour(u, w)
		}
		type keptOut struct {
			out            *vmcommon.VMOutput
			snap, fn, call string
		}
		var kept []keptOut // the last few outputs returned (messages still held by the node until they are delivered)
		var pending []*worldOp // deliveries of the messages emitted by tour steps
		ti := 0
		total := o.Ops + len(cover)
		for i := 0; i < total; i++ {
			var op *worldOp
			fromTour, special := false, false
			switch {
			case i < len(cover):
				op = &worldOp{Kind: opTx, Call: cover[i]}
			case len(pending) > 0:
				op, pending = pending[0], pending[1:]
				total++
				special = true
			case ti < len(tour):
				op = tour[ti]()
				ti++
				total++
				fromTour, special = true, true
			default:
				op = g.randomOp()
			}
			pre := w.snap()
			sr := w.step(op)
			if special && os.Getenv("VERIF_DEBUG_TOUR") != "" && !sr.Skipped {
				fmt.Fprintf(os.Stderr, "TOUR w%d %s -> %s %v\n", wi, op.String(), statusName(sr.Res.Status), sr.Res.Err)
			}
			if fromTour {
				for _, m := range sr.NewMsgs {
					dg := m.GasLimit
					if op.DeliverGas != nil {
						dg = *op.DeliverGas // the destination gets what is left of the gas limit after the origin shard's own consumption: any value below it
					}
					pending = append(pending, &worldOp{Kind: opDeliver, ID: m.ID, Gas: dg})
				}
			}
			// the input structure is the caller's: the parser is run on it after the execution, the same input may be executed again
			// (judged by the properties that speak about the input: C10 - the parser's report for the call - and C13)
			if (c.prop == "C10" || c.prop == "C13") && !sr.Skipped && sr.Res != nil && sr.Res.InputMutated != "" {
				c.fail("monitor", "input-mutated/"+sr.Call.Fn, fmt.Sprintf("%s modified the input it was given: %s", sr.Call.Fn, sr.Res.InputMutated),
					map[string]interface{}{"call": describeCall(sr.Call), "pre": digestAccounts(sr.Res.Pre), "history": histReplay(hist)})
			}
			// what an earlier call returned must not change when later calls run (an output that aliases a pooled or reused buffer does):
			// the previous output is serialised again after this step and compared with what it was when it was returned
			// (C01 too: an emitted message is value in flight - what the destination is credited with is what the message says on arrival)
			if c.prop == "C01" || c.prop == "C10" || c.prop == "C12" || c.prop == "C13" {
				for ki := range kept {
					k := &kept[ki]
					if now := coqOutput(k.out); now != k.snap {
						c.fail("monitor", "output-changed-by-a-later-call/"+k.fn,
							fmt.Sprintf("the output returned by %s changed after a later call (%s) ran: it was %.300s and now reads %.300s", k.fn, op.String(), k.snap, now),
							map[string]interface{}{"earlier_call": k.call, "later_op": op.String(), "history": histReplay(hist)})
						k.snap = now
					}
				}
				if !sr.Skipped && sr.Res != nil && sr.Res.Status == 0 && sr.Res.Out != nil {
					kept = append(kept, keptOut{sr.Res.Out, coqOutput(sr.Res.Out), sr.Call.Fn, describeCall(sr.Call)})
					if len(kept) > 4 {
						kept = kept[1:]
					}
				}
			}
			hist = append(hist, op.String())
			if hrec != nil {
				hrec.add(op)
				if i+1 == 40 || i+1 == total {
					c.emitHistory(hrec, w, fmt.Sprintf("history of world %d, first %d operations (seed %d)", wi, i+1, c.seed))
				}
			}
			if sr.Skipped {
				c.count("op/skipped")
				continue
			}
			key := fmt.Sprintf("%s/%s", sr.Call.Fn, statusName(sr.Res.Status))
			c.count("call/" + key)
			c.note(fmt.Sprintf("%d/%s/%s", wi, pre.Digest, op.String()), true)
			if sr.Res.Status == 1 && sr.Res.Err != nil {
				e := sr.Res.Err.Error()
				if i := strings.Index(e, ","); i > 0 {
					e = e[:i]
				}
				if len(e) > 48 {
					e = e[:48]
				}
				c.count("error/" + e)
			}
			for _, m := range o.Monitors {
				m(c, w, pre, sr, hist)
			}
			if special {
				// tour steps and their deliveries are re-evaluated by the model: all of them in the first six rich worlds of a run, every eighth
				// (a different residue per world) in the later ones of a thorough run - the monitors judge every step in every world
				if richSeen <= 6 || specialIdx%8 == wi%8 {
					c.addExecCase(w, sr.Call, sr.Res)
				}
				specialIdx++
			} else if (o.EmitProb <= 1 || c.rng.Intn(o.EmitProb) == 0) && (o.MaxCases == 0 || emitted < o.MaxCases) {
				c.addExecCase(w, sr.Call, sr.Res)
				emitted++
			}
			if len(c.rep.Samples) < 4 && sr.Res.Status == 0 {
				c.sample(map[string]string{"op": op.String(), "status": statusName(sr.Res.Status)})
			}
		}
	}
}
