module verif/harness

go 1.17

require (
	github.com/ElrondNetwork/elrond-vm-common v0.0.0
	github.com/anishathalye/porcupine v1.3.0
)

require (
	github.com/ElrondNetwork/elrond-go-logger v1.0.4 // indirect
	github.com/gogo/protobuf v1.3.2 // indirect
	github.com/mitchellh/mapstructure v1.4.1 // indirect
)

replace github.com/ElrondNetwork/elrond-vm-common => /repo

replace github.com/gogo/protobuf => github.com/ElrondNetwork/protobuf v1.3.2
