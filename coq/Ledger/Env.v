(* Ledger model: dependency primitives (fault points) and the helpers shared by the built-in
   functions, transcribed from the Go code in evaluation order (see notes/model-cribsheet.md). *)
From EV Require Import Base.Bytes Base.Store Base.Monad gen.Consts Codec.Types Helpers.Helpers Ledger.Types.

Definition alen (l : list bytes) : N := N.of_nat (length l).
Definition zlen (b : bytes) : N := N.of_nat (length b).
Definition bigZ (b : bytes) : Z := Z.of_N (be_to_N b).          (* big.NewInt(0).SetBytes(b) *)
Definition bigU64 (b : bytes) : N := u64 (be_to_N b).           (* ….Uint64() *)
Definition u64_bytes (n : N) : bytes := N_to_be n.               (* big.NewInt(0).SetUint64(n).Bytes() *)
Definition Z_bytes (z : Z) : bytes := N_to_be (Z.abs_N z).       (* big.Int Bytes(): magnitude *)
(* uint64 arithmetic as Go performs it *)
Definition sub64 (a b : N) : N := ((a + two64 - b) mod two64)%N.
Definition add64 (a b : N) : N := u64 (a + b).
Definition mul64 (a b : N) : N := u64 (a * b).
Definition tok_nonce (t : token) : N := match t_meta t with Some m => md_nonce m | None => 0%N end.

(* total helpers from address.go (their panic-freedom is C20) *)
Definition is_sc (a : bytes) : bool := match is_sc_address a with Some b => b | None => false end.
Definition is_sys (a : bytes) : bool := match is_system_account_address a with Some b => b | None => false end.
Definition key_allowed (k : bytes) : bool := match is_allowed_to_save_under_key k with Some b => b | None => false end.
Definition frozen_props (p : bytes) : bool := match frozen_from p with Some b => b | None => false end.
Definition paused_val (v : bytes) : bool := match paused_from v with Some b => b | None => false end.
Definition flag_bytes (f : bool) : bytes := match frozen_to f with Some b => b | None => [] end.
Definition all_zero (p : bytes) : bool := forallb (fun b => (b2n b =? 0)%N) p.

Section Env.
  Variable E : env.
  Notation MT := (@M err mstate).

  (* ---- primitives ---- *)
  Definition dep : MT unit := fun s =>
    let s' := {| accts := accts s; calls := S (calls s); allocs := allocs s |} in
    if plan E (calls s) then (Err EFault, s') else (Ok tt, s').
  Definition retrieve (a k : bytes) : MT bytes := fun s => (Ok (sget (a_store (acct s a)) k), s).
  Definition write_kv (a k v : bytes) : MT unit := fun s =>
    (Ok tt, with_accts s (aput (accts s) a (set_store (acct s a) (sput (a_store (acct s a)) k v)))).
  Definition save_kv (a k v : bytes) : MT unit := dep ;;; write_kv a k v.      (* AccountDataHandler().SaveKeyValue *)
  Definition load_account (a : bytes) : MT unit := dep.                         (* accounts.LoadAccount: one object per address *)
  Definition save_account (a : bytes) : MT unit := dep.                         (* accounts.SaveAccount *)
  Definition marshal_tok (t : token) : MT bytes := dep ;;; ret (enc_tok (cdc E) t).
  Definition unmarshal_tok (b : bytes) : MT token := dep ;;; lift_opt (dec_tok (cdc E) b) EDecode.
  Definition marshal_rol (r : roles) : MT bytes := dep ;;; ret (enc_rol (cdc E) r).
  Definition unmarshal_rol (b : bytes) : MT roles := dep ;;; lift_opt (dec_rol (cdc E) b) EDecode.
  Definition is_payable (a : bytes) : MT bool :=
    dep ;;; match payable E a with PayYes => ret true | PayNo => ret false | PayErr => fail EPayableOracle end.
  Definition upd_acct (a : bytes) (f : account -> account) : MT unit := fun s =>
    (Ok tt, with_accts s (aput (accts s) a (f (acct s a)))).
  Definition get_acct (a : bytes) : MT account := fun s => (Ok (acct s a), s).
  Definition alloc (n : N) : MT unit := fun s =>
    if (1099511627776 <? n)%N then (Panic, s)           (* makeslice: len out of range / out of memory *)
    else (Ok tt, {| accts := accts s; calls := calls s; allocs := (allocs s + n)%N |}).
  Definition arg (args : list bytes) (i : N) : MT bytes :=
    if (i <? alen args)%N then opt_or_panic (nth_error args (N.to_nat i)) else panic.
  (* args[i:] with i <= len, else panic *)
  Definition args_from (args : list bytes) (i : N) : MT (list bytes) :=
    if (i <=? alen args)%N then ret (skipn (N.to_nat i) args) else panic.
  Definition val_of (t : token) : MT Z := opt_or_panic (t_value t).             (* nil *big.Int dereference *)
  Definition meta_of (t : token) : MT metadata := opt_or_panic (t_meta t).      (* nil *MetaData dereference *)

  (* ---- shared helpers of the Go code ---- *)
  Definition check_basic (i : input) : MT unit :=
    guard (i_value i =? 0)%Z ECalledWithValue ;;;
    guard (C.MinLenArgumentsESDTTransfer <=? alen (i_args i))%N EInvalidArguments.

  Definition compute_gas_remaining (snd : bool) (provided cost : N) : N :=
    if (provided <? cost)%N then 0%N else if snd then sub64 provided cost else 0%N.

  Definition must_verify_payable (i : input) (minLen : N) : bool :=
    if ((i_callType i =? C.AsynchronousCallBack) || (i_callType i =? C.ESDTTransferAndExecute))%N then false
    else if beqb (i_caller i) SC then false
    else if (minLen <? alen (i_args i))%N then false else true.

  Definition default_tok : token := {| t_type := C.Fungible; t_value := Some 0%Z; t_props := []; t_meta := None; t_reserved := [] |}.

  Definition get_esdt_data (a key : bytes) : MT token :=
    b <- retrieve a key ;;
    match b with [] => ret default_tok | _ => unmarshal_tok b end.

  Definition is_paused (key : bytes) : MT bool :=
    v <- retrieve SYS key ;; ret (paused_val v).

  Definition check_froze_and_pause (addr key : bytes) (t : token) (rae : bool) : MT unit :=
    if rae then ret tt else
    if beqb addr SC then ret tt else
    guard (negb (frozen_props (t_props t))) EFrozenForAccount ;;;
    p <- is_paused key ;;
    guard (negb p) ETokenIsPaused.

  Definition save_esdt_data (a : bytes) (t : token) (key : bytes) : MT unit :=
    v <- val_of t ;;
    if ((v =? 0)%Z && all_zero (t_props t))%bool then save_kv a key []
    else (b <- marshal_tok t ;; save_kv a key b).

  Definition add_to_esdt_balance (a key : bytes) (delta : Z) (rae : bool) : MT unit :=
    t <- get_esdt_data a key ;;
    guard (t_type t =? C.Fungible)%N EOnlyFungibleTokensHaveBalanceTransfer ;;;
    check_froze_and_pause a key t rae ;;;
    v <- val_of t ;;
    let v' := (v + delta)%Z in
    guard (0 <=? v')%Z EInsufficientFunds ;;;
    save_esdt_data a (set_value t (Some v')) key.

  Definition nft_key (key : bytes) (nonce : N) : bytes := key ++ u64_bytes nonce.

  (* returns (entry, isNew) *)
  Definition get_nft_on_destination (a key : bytes) (nonce : N) : MT (token * bool) :=
    b <- retrieve a (nft_key key nonce) ;;
    match b with
    | [] => ret (default_tok, true)
    | _ => t <- unmarshal_tok b ;; ret (t, false)
    end.

  Definition get_nft_on_sender (a key : bytes) (nonce : N) : MT token :=
    '(t, isNew) <- get_nft_on_destination a key nonce ;;
    guard (negb isNew) ENewNFTDataOnSenderAddress ;;;
    guard (negb ((0 <? nonce)%N && match t_meta t with None => true | Some _ => false end)) ENFTDoesNotHaveMetadata ;;;
    guard (negb ((nonce =? 0)%N && match t_meta t with None => false | Some _ => true end)) EInvalidArguments ;;;
    ret t.

  (* returns the marshalled bytes ([] when the entry was deleted) *)
  Definition save_nft (a key : bytes) (t : token) (rae : bool) : MT bytes :=
    check_froze_and_pause a key t rae ;;;
    let full := nft_key key (tok_nonce t) in
    check_froze_and_pause a full t rae ;;;
    v <- val_of t ;;
    if (v <=? 0)%Z then (save_kv a full [] ;;; ret [])
    else (b <- marshal_tok t ;; save_kv a full b ;;; ret b).

  Definition get_latest_nonce (a tok : bytes) : MT N :=
    b <- retrieve a (NP ++ tok) ;;
    match b with [] => ret 0%N | _ => ret (bigU64 b) end.
  Definition save_latest_nonce (a tok : bytes) (n : N) : MT unit := save_kv a (NP ++ tok) (u64_bytes n).

  (* returns (roles, isNew) *)
  Definition get_roles (a key : bytes) : MT (roles * bool) :=
    b <- retrieve a key ;;
    match b with
    | [] => ret ([], true)
    | _ => r <- unmarshal_rol b ;; ret (r, false)
    end.
  Definition check_allowed (snd : bool) (a tok role : bytes) : MT unit :=
    guard snd ENilUserAccount ;;;
    '(r, isNew) <- get_roles a (RP ++ tok) ;;
    guard (negb isNew) EActionNotAllowed ;;;
    guard (bytes_in role r) EActionNotAllowed.
  Definition save_roles (a key : bytes) (r : roles) : MT unit :=
    b <- marshal_rol r ;; save_kv a key b.
  Fixpoint remove_first (x : bytes) (l : roles) : roles :=
    match l with [] => [] | y :: r => if beqb y x then r else y :: remove_first x r end.
  Definition delete_roles (l rs : roles) : roles := fold_left (fun acc r => remove_first r acc) rs l.

  (* message encoder of the built-ins: fn ‖ "@" hex(arg) … *)
  Definition msg_data (fn : bytes) (args : list bytes) : bytes :=
    fn ++ concat (map (fun a => n2b C.parsers_atSeparatorChar :: hex_enc a) args).

  Definition add_output_transfer (sender fn : bytes) (args : list bytes) (rcpt : bytes)
             (gasLocked ct : N) (o : output) : output :=
    let t := {| tr_value := 0; tr_gasLimit := o_gasRemaining o; tr_gasLocked := gasLocked;
                tr_data := msg_data fn args; tr_callType := ct; tr_sender := sender |} in
    set_gasrem (set_accounts o [{| oc_addr := rcpt; oc_delta := 0; oc_transfers := [t] |}]) 0.

  Definition add_nft_transfer (sender rcpt fn : bytes) (args : list bytes) (gasLocked gasLimit ct : N)
             (o : output) : output :=
    let t := {| tr_value := 0; tr_gasLimit := gasLimit; tr_gasLocked := gasLocked;
                tr_data := msg_data fn args; tr_callType := ct; tr_sender := sender |} in
    set_accounts o [{| oc_addr := rcpt; oc_delta := 0; oc_transfers := [t] |}].

  Definition log_esdt (id tok : bytes) (value : Z) (addr : bytes) (extra : list bytes) : logentry :=
    {| lg_id := id; lg_addr := addr; lg_topics := [tok; Z_bytes value] ++ extra |}.
  Definition log_nft (id caller tok : bytes) (nonce : N) (extra : list bytes) : logentry :=
    {| lg_id := id; lg_addr := caller; lg_topics := [tok; u64_bytes nonce] ++ extra |}.
  Definition add_log (o : output) (l : logentry) : output := set_logs o (o_logs o ++ [l]).
End Env.
