(* Ledger model: the "node" around the built-in functions (DESIGN.md section 3.4) — several shards,
   in-flight cross-shard messages, delivery, re-delivery and return-after-error refunds, rollback on
   error.  Mirrors harness/world.go (step, collect) line by line; the harness replays whole
   histories through both. *)
From EV Require Import Base.Bytes Base.Store Base.Monad gen.Consts Codec.Types Helpers.Helpers
  Parsers.Tokenize Parsers.CallArgs Ledger.Types Ledger.Env Ledger.Funcs Ledger.Transfers.

(* configuration shared by all shards of one world *)
Record wcfg := {
  wc_cdc : codec;
  wc_shard_of : bytes -> N;
  wc_payable : bytes -> payres;
  wc_dns : list bytes;
  wc_enable : bool;
  wc_gas : gascfg;
  wc_nshards : N }.

Definition env_at (c : wcfg) (sh : N) : env :=
  {| plan := fun _ => false; cdc := wc_cdc c; shard_of := wc_shard_of c; self_shard := sh;
     payable := wc_payable c; dns := wc_dns c; enable_change := wc_enable c; gas := wc_gas c |}.

(* an in-flight cross-shard message *)
Record msg := {
  m_id : nat; m_fn : bytes; m_caller : bytes; m_dest : bytes; m_args : list bytes;
  m_callType : N; m_gasLimit : N; m_locked : N; m_origin : N;
  m_sender : bytes }.     (* the account that was debited (refund target) *)

Record world := {
  shards : list (amap account);     (* shard i = nth i *)
  inflight : list msg;
  failed : list nat;                (* ids of messages whose delivery was rejected *)
  next_id : nat }.

Definition shard_accts (w : world) (sh : N) : amap account := nth (N.to_nat sh) (shards w) [].
Fixpoint set_nth {A} (n : nat) (x : A) (l : list A) : list A :=
  match n, l with
  | O, _ :: r => x :: r
  | S n', y :: r => y :: set_nth n' x r
  | _, [] => []
  end.
Definition set_shard (w : world) (sh : N) (m : amap account) : world :=
  {| shards := set_nth (N.to_nat sh) m (shards w); inflight := inflight w; failed := failed w; next_id := next_id w |}.
Definition with_msgs (w : world) (ms : list msg) (fl : list nat) (nid : nat) : world :=
  {| shards := shards w; inflight := ms; failed := fl; next_id := nid |}.

Inductive wop :=
| OCall (sh : N) (fn : bytes) (i : input)     (* a user transaction or a system-contract call executed on shard sh *)
| ODeliver (id : nat) (gas : N)
| ORedeliver (id : nat) (gas : N)             (* delivery that does not consume the message (C07: delivered twice) *)
| ORefund (id : nat) (gas : N).

Definition builtin_names : list bytes :=
  [C.BuiltInFunctionClaimDeveloperRewards; C.BuiltInFunctionChangeOwnerAddress; C.BuiltInFunctionSetUserName;
   C.BuiltInFunctionSaveKeyValue; C.BuiltInFunctionESDTPause; C.BuiltInFunctionESDTUnPause;
   C.BuiltInFunctionESDTTransfer; C.BuiltInFunctionESDTBurn; C.BuiltInFunctionESDTFreeze;
   C.BuiltInFunctionESDTUnFreeze; C.BuiltInFunctionESDTWipe; C.BuiltInFunctionUnSetESDTRole;
   C.BuiltInFunctionSetESDTRole; C.BuiltInFunctionESDTLocalBurn; C.BuiltInFunctionESDTLocalMint;
   C.BuiltInFunctionESDTNFTAddQuantity; C.BuiltInFunctionESDTNFTBurn; C.BuiltInFunctionESDTNFTCreate;
   C.BuiltInFunctionESDTNFTTransfer; C.BuiltInFunctionESDTNFTCreateRoleTransfer;
   C.BuiltInFunctionESDTNFTUpdateAttributes; C.BuiltInFunctionESDTNFTAddURI;
   C.BuiltInFunctionMultiESDTNFTTransfer].
Definition is_builtin (f : bytes) : bool := bytes_in f builtin_names.

Fixpoint find_msg (l : list msg) (id : nat) : option msg :=
  match l with [] => None | m :: r => if Nat.eqb (m_id m) id then Some m else find_msg r id end.
Fixpoint drop_msg (l : list msg) (id : nat) : list msg :=
  match l with [] => [] | m :: r => if Nat.eqb (m_id m) id then r else m :: drop_msg r id end.
Definition nat_in (n : nat) (l : list nat) : bool := existsb (Nat.eqb n) l.
Definition nat_remove (n : nat) (l : list nat) : list nat := filter (fun x => negb (Nat.eqb x n)) l.

Section Step.
  Variable c : wcfg.
  Notation shof := (wc_shard_of c).

  (* one output transfer -> at most one message (world.go: collect, inner loop body) *)
  Definition msg_of_transfer (sh : N) (i : input) (id : nat) (dest : bytes) (t : transfer) : option msg :=
    match tr_data t with
    | [] => None
    | d =>
      match parse_call_data d with
      | None => None
      | Some (fn, args) =>
        if negb (is_builtin fn) then None                                       (* a contract call: executed by the VM *)
        else if ((shof dest =? sh)%N && negb (beqb fn C.BuiltInFunctionESDTNFTCreateRoleTransfer))%bool then None
        else if (beqb fn C.BuiltInFunctionESDTNFTCreateRoleTransfer && (shof dest =? sh)%N)%bool then None
        else
          let caller := if (shof (tr_sender t) =? sh)%N then tr_sender t else i_rcpt i in
          Some {| m_id := id; m_fn := fn; m_caller := caller; m_dest := dest; m_args := args;
                  m_callType := tr_callType t; m_gasLimit := tr_gasLimit t; m_locked := tr_gasLocked t;
                  m_origin := sh; m_sender := i_caller i |}
      end
    end.

  Fixpoint collect_transfers (sh : N) (i : input) (id : nat) (dest : bytes) (ts : list transfer) : list msg :=
    match ts with
    | [] => []
    | t :: r =>
      match msg_of_transfer sh i id dest t with
      | Some m => m :: collect_transfers sh i (S id) dest r
      | None => collect_transfers sh i id dest r
      end
    end.
  Fixpoint collect_accounts (sh : N) (i : input) (id : nat) (oas : list outacct) : list msg :=
    match oas with
    | [] => []
    | oa :: r =>
      let ms := collect_transfers sh i id (oc_addr oa) (oc_transfers oa) in
      ms ++ collect_accounts sh i (id + length ms) r
    end.

  (* a user transaction addressed to another shard travels there itself *)
  Definition travels (fn : bytes) : bool :=
    beqb fn C.BuiltInFunctionESDTTransfer || beqb fn C.BuiltInFunctionChangeOwnerAddress
    || beqb fn C.BuiltInFunctionClaimDeveloperRewards.

  Definition collect (sh : N) (fn : bytes) (i : input) (id : nat) (o : output) : list msg :=
    match collect_accounts sh i id (o_accounts o) with
    | [] =>
      if (negb (shof (i_rcpt i) =? sh) && negb (shof (i_rcpt i) =? META) && (shof (i_caller i) =? sh))%N%bool && travels fn
      then [{| m_id := id; m_fn := fn; m_caller := i_caller i; m_dest := i_rcpt i; m_args := i_args i;
               m_callType := i_callType i; m_gasLimit := i_gas i; m_locked := i_gasLocked i;
               m_origin := sh; m_sender := i_caller i |}]
      else []
    | ms => ms
    end.

  (* one execution on a shard with rollback: returns the result and the shard's accounts afterwards *)
  Definition run_on (w : world) (sh : N) (fn : bytes) (i : input) : res err output * amap account :=
    match exec (env_at c sh) fn i {| accts := shard_accts w sh; calls := 0; allocs := 0 |} with
    | (Ok o, s') => (Ok o, accts s')
    | (Err e, _) => (Err e, shard_accts w sh)
    | (Panic, _) => (Panic, shard_accts w sh)
    end.

  Definition deliver_input (m : msg) (sh gas : N) : input :=
    {| i_caller := m_caller m; i_rcpt := m_dest m; i_args := m_args m; i_value := 0; i_gas := gas;
       i_gasLocked := m_locked m; i_callType := m_callType m; i_rae := false;
       i_snd := (shof (m_caller m) =? sh)%N; i_dst := true |}.
  Definition refund_input (m : msg) (sh gas : N) : input :=
    {| i_caller := m_dest m; i_rcpt := m_sender m; i_args := m_args m; i_value := 0; i_gas := gas;
       i_gasLocked := 0; i_callType := C.AsynchronousCallBack; i_rae := true;
       i_snd := (shof (m_dest m) =? sh)%N; i_dst := true |}.

  Definition wstep (w : world) (op : wop) : world :=
    match op with
    | OCall sh fn i =>
      if negb (sh <? wc_nshards c)%N then w else
      match run_on w sh fn i with
      | (Ok o, m') =>
        let w1 := set_shard w sh m' in
        let ms := collect sh fn i (next_id w) o in
        with_msgs w1 (inflight w ++ ms) (failed w) (next_id w + length ms)
      | _ => w
      end
    | ODeliver id gas | ORedeliver id gas =>
      match find_msg (inflight w) id with
      | None => w
      | Some m =>
        let sh := shof (m_dest m) in
        if negb (sh <? wc_nshards c)%N then w else
        let i := deliver_input m sh gas in
        match run_on w sh (m_fn m) i with
        | (Ok o, m') =>
          let w1 := set_shard w sh m' in
          let kept := match op with ODeliver _ _ => drop_msg (inflight w) id | _ => inflight w end in
          let ms := collect sh (m_fn m) i (next_id w) o in
          with_msgs w1 (kept ++ ms) (failed w) (next_id w + length ms)
        | _ => with_msgs w (inflight w) (if nat_in id (failed w) then failed w else id :: failed w) (next_id w)
        end
      end
    | ORefund id gas =>
      match find_msg (inflight w) id with
      | None => w
      | Some m =>
        let sh := shof (m_sender m) in
        if negb (nat_in id (failed w)) then w else
        if negb (sh <? wc_nshards c)%N then w else
        match run_on w sh (m_fn m) (refund_input m sh gas) with
        | (Ok o, m') => with_msgs (set_shard w sh m') (drop_msg (inflight w) id) (nat_remove id (failed w)) (next_id w)
        | _ => w
        end
      end
    end.

  Definition wrun (w : world) (ops : list wop) : world := fold_left wstep ops w.
End Step.

(* presence discipline of transaction-reachable calls (section 3.4): the caller's / recipient's account
   object is handed to the function iff that address lives on the executing shard *)
Definition presence_ok (c : wcfg) (sh : N) (i : input) : Prop :=
  i_snd i = (wc_shard_of c (i_caller i) =? sh)%N /\ i_dst i = (wc_shard_of c (i_rcpt i) =? sh)%N.
