(* Ledger model: the 20 non-transfer built-in functions, transcribed from builtInFunctions/*.go
   in evaluation order (guards, dependency calls, outputs). See notes/model-cribsheet.md. *)
From EV Require Import Base.Bytes Base.Store Base.Monad gen.Consts Codec.Types Helpers.Helpers
  Ledger.Types Ledger.Env.

Section Funcs.
  Variable E : env.
  Notation MT := (@M err mstate).
  Notation G := (gas E).

  Definition rcOk : N := C.Ok.

  (* ---------------- supply functions ---------------- *)
  Definition check_local_action (i : input) (cost : N) : MT unit :=
    check_basic i ;;;
    guard (beqb (i_caller i) (i_rcpt i)) EInvalidRcvAddr ;;;
    guard (i_snd i) ENilUserAccount ;;;
    a1 <- arg (i_args i) 1 ;;
    guard (0 <? bigZ a1)%Z ENegativeValue ;;;
    guard (negb (i_gas i <? cost)%N) ENotEnoughGas.

  Definition f_local_mint (i : input) : MT output :=
    let cost := g_ESDTLocalMint G in
    check_local_action i cost ;;;
    tok <- arg (i_args i) 0 ;;
    check_allowed E (i_snd i) (i_caller i) tok C.ESDTRoleLocalMint ;;;
    a1 <- arg (i_args i) 1 ;;
    guard (negb (C.MaxLenForESDTIssueMint <? zlen a1)%N) EInvalidArguments ;;;
    let v := bigZ a1 in
    add_to_esdt_balance E (i_caller i) (P ++ tok) v (i_rae i) ;;;
    ret (add_log (mk_out rcOk (sub64 (i_gas i) cost)) (log_esdt C.BuiltInFunctionESDTLocalMint tok v (i_caller i) [])).

  Definition f_local_burn (i : input) : MT output :=
    let cost := g_ESDTLocalBurn G in
    check_local_action i cost ;;;
    tok <- arg (i_args i) 0 ;;
    check_allowed E (i_snd i) (i_caller i) tok C.ESDTRoleLocalBurn ;;;
    a1 <- arg (i_args i) 1 ;;
    let v := bigZ a1 in
    add_to_esdt_balance E (i_caller i) (P ++ tok) (- v) (i_rae i) ;;;
    ret (add_log (mk_out rcOk (sub64 (i_gas i) cost)) (log_esdt C.BuiltInFunctionESDTLocalBurn tok v (i_caller i) [])).

  Definition f_esdt_burn (i : input) : MT output :=
    let cost := g_ESDTBurn G in
    check_basic i ;;;
    guard (alen (i_args i) =? 2)%N EInvalidArguments ;;;
    tok <- arg (i_args i) 0 ;;
    a1 <- arg (i_args i) 1 ;;
    let v := bigZ a1 in
    guard (0 <? v)%Z ENegativeValue ;;;
    guard (beqb (i_rcpt i) SC) EAddressIsNotESDTSystemSC ;;;
    guard (i_snd i) ENilUserAccount ;;;
    guard (negb (i_gas i <? cost)%N) ENotEnoughGas ;;;
    add_to_esdt_balance E (i_caller i) (P ++ tok) (- v) (i_rae i) ;;;
    let o := mk_out rcOk (compute_gas_remaining (i_snd i) (i_gas i) cost) in
    let o := if is_sc (i_caller i)
             then add_output_transfer (i_caller i) C.BuiltInFunctionESDTBurn (i_args i) (i_rcpt i) (i_gasLocked i) (i_callType i) o
             else o in
    ret (add_log o (log_esdt C.BuiltInFunctionESDTBurn tok v (i_caller i) [])).

  Definition check_create_burn_add (i : input) (cost : N) : MT unit :=
    check_basic i ;;;
    guard (beqb (i_caller i) (i_rcpt i)) EInvalidRcvAddr ;;;
    guard (i_snd i) ENilUserAccount ;;;
    guard (negb (i_gas i <? cost)%N) ENotEnoughGas.

  Definition total_len (l : list bytes) : N := fold_left (fun acc a => (acc + zlen a)%N) l 0%N.

  Definition f_nft_create (i : input) : MT output :=
    let cost := g_ESDTNFTCreate G in
    let A := i_args i in
    check_create_burn_add i cost ;;;
    guard (negb (alen A <? 7)%N) EInvalidArguments ;;;
    tok <- arg A 0 ;;
    check_allowed E (i_snd i) (i_caller i) tok C.ESDTRoleNFTCreate ;;;
    nonce <- get_latest_nonce (i_caller i) tok ;;
    let use := u64 (u64 (total_len A * g_StorePerByte G) + cost) in
    guard (negb (i_gas i <? use)%N) ENotEnoughGas ;;;
    a3 <- arg A 3 ;;
    let royalties := u32 (bigU64 a3) in
    guard (negb (C.MaxRoyalty <? royalties)%N) EInvalidArguments ;;;
    a1 <- arg A 1 ;;
    let q := bigZ a1 in
    guard (0 <? q)%Z EInvalidArguments ;;;
    (if (1 <? q)%Z then check_allowed E (i_snd i) (i_caller i) tok C.ESDTRoleNFTAddQuantity else ret tt) ;;;
    let next := u64 (nonce + 1) in
    a2 <- arg A 2 ;; a4 <- arg A 4 ;; a5 <- arg A 5 ;; uris <- args_from A 6 ;;
    let t := {| t_type := C.NonFungible; t_value := Some q; t_props := [];
                t_meta := Some {| md_nonce := next; md_name := a2; md_creator := i_caller i; md_royalties := royalties;
                                  md_hash := a4; md_uris := uris; md_attributes := a5 |};
                t_reserved := [] |} in
    b <- save_nft E (i_caller i) (P ++ tok) t (i_rae i) ;;
    save_latest_nonce E (i_caller i) tok next ;;;
    let o := set_returnData (mk_out rcOk (sub64 (i_gas i) use)) [u64_bytes next] in
    ret (add_log o (log_nft C.BuiltInFunctionESDTNFTCreate (i_caller i) tok next [b])).

  Definition f_nft_add_quantity (i : input) : MT output :=
    let cost := g_ESDTNFTAddQuantity G in
    let A := i_args i in
    check_create_burn_add i cost ;;;
    guard (negb (alen A <? 3)%N) EInvalidArguments ;;;
    tok <- arg A 0 ;;
    check_allowed E (i_snd i) (i_caller i) tok C.ESDTRoleNFTAddQuantity ;;;
    a1 <- arg A 1 ;;
    let nonce := bigU64 a1 in
    guard (negb (nonce =? 0)%N) ENFTDoesNotHaveMetadata ;;;
    t <- get_nft_on_sender E (i_caller i) (P ++ tok) nonce ;;
    v <- val_of t ;;
    a2 <- arg A 2 ;;
    save_nft E (i_caller i) (P ++ tok) (set_value t (Some (v + bigZ a2)%Z)) (i_rae i) ;;;
    ret (add_log (mk_out rcOk (sub64 (i_gas i) cost)) (log_nft C.BuiltInFunctionESDTNFTAddQuantity (i_caller i) tok nonce [])).

  Definition f_nft_burn (i : input) : MT output :=
    let cost := g_ESDTNFTBurn G in
    let A := i_args i in
    check_create_burn_add i cost ;;;
    guard (negb (alen A <? 3)%N) EInvalidArguments ;;;
    tok <- arg A 0 ;;
    check_allowed E (i_snd i) (i_caller i) tok C.ESDTRoleNFTBurn ;;;
    a1 <- arg A 1 ;;
    let nonce := bigU64 a1 in
    guard (negb (nonce =? 0)%N) ENFTDoesNotHaveMetadata ;;;
    t <- get_nft_on_sender E (i_caller i) (P ++ tok) nonce ;;
    v <- val_of t ;;
    a2 <- arg A 2 ;;
    let q := bigZ a2 in
    guard (negb (v <? q)%Z) EInvalidNFTQuantity ;;;
    save_nft E (i_caller i) (P ++ tok) (set_value t (Some (v - q)%Z)) (i_rae i) ;;;
    ret (add_log (mk_out rcOk (sub64 (i_gas i) cost)) (log_nft C.BuiltInFunctionESDTNFTBurn (i_caller i) tok nonce [])).

  Definition f_nft_add_uri (i : input) : MT output :=
    let cost := g_ESDTNFTAddURI G in
    let A := i_args i in
    check_create_burn_add i cost ;;;
    guard (negb (alen A <? 3)%N) EInvalidArguments ;;;
    tok <- arg A 0 ;;
    check_allowed E (i_snd i) (i_caller i) tok C.ESDTRoleNFTAddURI ;;;
    uris <- args_from A 2 ;;
    let store := u64 (total_len uris * g_StorePerByte G) in
    guard (negb (i_gas i <? u64 (cost + store))%N) ENotEnoughGas ;;;
    a1 <- arg A 1 ;;
    let nonce := bigU64 a1 in
    guard (negb (nonce =? 0)%N) ENFTDoesNotHaveMetadata ;;;
    t <- get_nft_on_sender E (i_caller i) (P ++ tok) nonce ;;
    md <- meta_of t ;;
    save_nft E (i_caller i) (P ++ tok) (set_meta t (Some (set_uris md (md_uris md ++ uris)))) (i_rae i) ;;;
    ret (add_log (mk_out rcOk (sub64 (sub64 (i_gas i) cost) store))
                 (log_nft C.BuiltInFunctionESDTNFTAddURI (i_caller i) tok nonce [])).

  Definition f_nft_update_attributes (i : input) : MT output :=
    let cost := g_ESDTNFTUpdateAttributes G in
    let A := i_args i in
    check_create_burn_add i cost ;;;
    guard (alen A =? 3)%N EInvalidArguments ;;;
    tok <- arg A 0 ;;
    check_allowed E (i_snd i) (i_caller i) tok C.ESDTRoleNFTUpdateAttributes ;;;
    a2 <- arg A 2 ;;
    let store := u64 (zlen a2 * g_StorePerByte G) in
    guard (negb (i_gas i <? u64 (cost + store))%N) ENotEnoughGas ;;;
    a1 <- arg A 1 ;;
    let nonce := bigU64 a1 in
    guard (negb (nonce =? 0)%N) ENFTDoesNotHaveMetadata ;;;
    t <- get_nft_on_sender E (i_caller i) (P ++ tok) nonce ;;
    md <- meta_of t ;;
    save_nft E (i_caller i) (P ++ tok) (set_meta t (Some (set_attributes md a2))) (i_rae i) ;;;
    ret (add_log (mk_out rcOk (sub64 (sub64 (i_gas i) cost) store))
                 (log_nft C.BuiltInFunctionESDTNFTUpdateAttributes (i_caller i) tok nonce [])).

  (* ---------------- system-contract functions (no gas) ---------------- *)
  Definition check_system_one_arg (i : input) : MT unit :=
    guard (i_value i =? 0)%Z ECalledWithValue ;;;
    guard (alen (i_args i) =? 1)%N EInvalidArguments ;;;
    guard (beqb (i_caller i) SC) EAddressIsNotESDTSystemSC.

  Definition f_freeze_wipe (freeze wipe : bool) (i : input) : MT output :=
    check_system_one_arg i ;;;
    guard (i_dst i) ENilUserAccount ;;;
    tok <- arg (i_args i) 0 ;;
    let key := P ++ tok in
    t <- get_esdt_data E (i_rcpt i) key ;;
    if wipe then
      guard (frozen_props (t_props t)) ECannotWipeAccountNotFrozen ;;;
      save_kv E (i_rcpt i) key [] ;;;
      ret (add_log (mk_out rcOk 0) (log_esdt C.BuiltInFunctionESDTWipe tok 0 (i_caller i) [i_rcpt i]))
    else
      save_esdt_data E (i_rcpt i) (set_props t (flag_bytes freeze)) key ;;;
      ret (mk_out rcOk 0).

  Definition f_pause (pause : bool) (i : input) : MT output :=
    check_system_one_arg i ;;;
    guard (is_sys (i_rcpt i)) EOnlySystemAccountAccepted ;;;
    tok <- arg (i_args i) 0 ;;
    load_account E SYS ;;;
    save_kv E SYS (P ++ tok) (flag_bytes pause) ;;;
    save_account E SYS ;;;
    ret (mk_out rcOk 0).

  Definition f_roles (set : bool) (i : input) : MT output :=
    check_basic i ;;;
    guard (beqb (i_caller i) SC) EAddressIsNotESDTSystemSC ;;;
    guard (i_dst i) ENilUserAccount ;;;
    tok <- arg (i_args i) 0 ;;
    let key := RP ++ tok in
    '(r, _) <- get_roles E (i_rcpt i) key ;;
    rs <- args_from (i_args i) 1 ;;
    let r' := if set then r ++ rs else delete_roles r rs in
    save_roles E (i_rcpt i) key r' ;;;
    ret (mk_out rcOk 0).

  Definition delete_create_role (a key : bytes) : MT unit :=
    '(r, _) <- get_roles E a key ;;
    save_roles E a key (delete_roles r [C.ESDTRoleNFTCreate]).
  Definition add_create_role (a key : bytes) : MT unit :=
    '(r, _) <- get_roles E a key ;;
    if bytes_in C.ESDTRoleNFTCreate r then ret tt else save_roles E a key (r ++ [C.ESDTRoleNFTCreate]).

  Definition f_create_role_transfer (i : input) : MT output :=
    let A := i_args i in
    check_basic i ;;;
    guard (negb (i_snd i)) EInvalidArguments ;;;
    guard (i_dst i) ENilUserAccount ;;;
    if beqb (i_caller i) SC then
      (* at the current owner (= recipient) *)
      guard (alen A =? 2)%N EInvalidArguments ;;;
      tok <- arg A 0 ;; newOwner <- arg A 1 ;;
      guard (zlen newOwner =? zlen (i_caller i))%N EInvalidArguments ;;;
      nonce <- get_latest_nonce (i_rcpt i) tok ;;
      save_latest_nonce E (i_rcpt i) tok 0 ;;;
      delete_create_role (i_rcpt i) (RP ++ tok) ;;;
      (if (shard_of E newOwner =? self_shard E)%N then
         load_account E newOwner ;;;
         save_latest_nonce E newOwner tok nonce ;;;
         add_create_role newOwner (RP ++ tok) ;;;
         save_account E newOwner
       else ret tt) ;;;
      let t := {| tr_value := 0; tr_gasLimit := 0; tr_gasLocked := 0;
                  tr_data := msg_data C.BuiltInFunctionESDTNFTCreateRoleTransfer [tok; u64_bytes nonce];
                  tr_callType := C.DirectCall; tr_sender := i_caller i |} in
      ret (set_accounts (mk_out rcOk 0) [{| oc_addr := newOwner; oc_delta := 0; oc_transfers := [t] |}])
    else
      (* at the next owner (= recipient) *)
      guard (alen A =? 2)%N EInvalidArguments ;;;
      tok <- arg A 0 ;; a1 <- arg A 1 ;;
      save_latest_nonce E (i_rcpt i) tok (bigU64 a1) ;;;
      add_create_role (i_rcpt i) (RP ++ tok) ;;;
      ret (mk_out rcOk 0).

  (* ---------------- account-level functions ---------------- *)
  Definition f_change_owner (i : input) : MT output :=
    let cost := g_ChangeOwnerAddress G in
    guard (negb (alen (i_args i) =? 0)%N) EInvalidArguments ;;;
    guard (i_value i =? 0)%Z ECalledWithValue ;;;
    a0 <- arg (i_args i) 0 ;;
    guard (zlen a0 =? zlen (i_caller i))%N EInvalidAddressLength ;;;
    guard (negb (i_gas i <? cost)%N) ENotEnoughGas ;;;
    let gasRem := compute_gas_remaining (i_snd i) (i_gas i) cost in
    if negb (i_dst i) then ret (mk_out rcOk gasRem) else
    d <- get_acct (i_rcpt i) ;;
    guard (beqb (i_caller i) (a_owner d)) EOperationNotPermitted ;;;
    dep E ;;;
    upd_acct (i_rcpt i) (fun a => {| a_store := a_store a; a_balance := a_balance a; a_owner := a0;
                                      a_username := a_username a; a_devreward := a_devreward a |}) ;;;
    ret (mk_out rcOk gasRem).

  Definition f_claim_rewards (i : input) : MT output :=
    let cost := g_ClaimDeveloperRewards G in
    guard (i_value i =? 0)%Z ECalledWithValue ;;;
    let gasRem := compute_gas_remaining (i_snd i) (i_gas i) cost in
    if negb (i_dst i) then ret (mk_out rcOk gasRem) else
    d <- get_acct (i_rcpt i) ;;
    guard (beqb (i_caller i) (a_owner d)) EOperationNotPermitted ;;;
    guard (negb (i_gas i <? cost)%N) ENotEnoughGas ;;;
    dep E ;;;
    let v := a_devreward d in
    upd_acct (i_rcpt i) (fun a => {| a_store := a_store a; a_balance := a_balance a; a_owner := a_owner a;
                                      a_username := a_username a; a_devreward := 0 |}) ;;;
    let async := (i_callType i =? C.AsynchronousCall)%N in
    let t := {| tr_value := v; tr_gasLimit := if async then gasRem else 0;
                tr_gasLocked := if async then i_gasLocked i else 0; tr_data := [];
                tr_callType := if async then C.AsynchronousCallBack else C.DirectCall; tr_sender := i_caller i |} in
    let o := set_accounts (mk_out rcOk (if async then 0 else gasRem))
                          [{| oc_addr := i_caller i; oc_delta := v; oc_transfers := [t] |}] in
    if negb (i_snd i) then ret o else
    dep E ;;;
    upd_acct (i_caller i) (fun a => {| a_store := a_store a; a_balance := (a_balance a + v)%Z; a_owner := a_owner a;
                                        a_username := a_username a; a_devreward := a_devreward a |}) ;;;
    ret (if is_sc (i_caller i) then set_accounts o [] else o).

  Definition f_set_user_name (i : input) : MT output :=
    let cost := g_SaveUserName G in
    guard (i_value i =? 0)%Z ECalledWithValue ;;;
    guard (negb (i_gas i <? cost)%N) ENotEnoughGas ;;;
    guard (bytes_in (i_caller i) (dns E)) ECallerIsNotTheDNSAddress ;;;
    guard (alen (i_args i) =? 1)%N EInvalidArguments ;;;
    a0 <- arg (i_args i) 0 ;;
    if negb (i_dst i) then
      let t := {| tr_value := 0; tr_gasLimit := i_gas i; tr_gasLocked := i_gasLocked i;
                  tr_data := msg_data C.BuiltInFunctionSetUserName [a0];
                  tr_callType := C.AsynchronousCall; tr_sender := i_caller i |} in
      ret (set_accounts (mk_out rcOk 0) [{| oc_addr := i_rcpt i; oc_delta := 0; oc_transfers := [t] |}])
    else
      d <- get_acct (i_rcpt i) ;;
      guard (enable_change E || match a_username d with [] => true | _ => false end) EUserNameChangeIsDisabled ;;;
      upd_acct (i_rcpt i) (fun a => {| a_store := a_store a; a_balance := a_balance a; a_owner := a_owner a;
                                        a_username := a0; a_devreward := a_devreward a |}) ;;;
      ret (mk_out rcOk (sub64 (i_gas i) cost)).

  (* SaveKeyValue: pairs (key, value); `use` accumulates with uint64 wrap-around as in Go *)
  Fixpoint skv_loop (a : bytes) (gasProvided : N) (pairs : list bytes) (use : N) : MT N :=
    match pairs with
    | k :: v :: rest =>
      let use1 := u64 (use + u64 (u64 (zlen v + zlen k) * g_PersistPerByte G)) in
      guard (key_allowed k) EOperationNotPermitted ;;;
      old <- retrieve a k ;;
      if beqb old v then skv_loop a gasProvided rest use1 else
      let change := if (zlen old <? zlen v)%N then (zlen v - zlen old)%N else 0%N in
      let use2 := u64 (use1 + u64 (g_StorePerByte G * change)) in
      guard (negb (gasProvided <? use2)%N) ENotEnoughGas ;;;
      save_kv E a k v ;;;
      skv_loop a gasProvided rest use2
    | [] => ret use
    | [_] => panic            (* input.Arguments[i+1] out of range: excluded by the even-length guard *)
    end.

  Definition f_save_key_value (i : input) : MT output :=
    let A := i_args i in
    guard (negb (alen A <? 2)%N) EInvalidArguments ;;;
    guard (alen A mod 2 =? 0)%N EInvalidArguments ;;;
    guard (i_value i =? 0)%Z ECalledWithValue ;;;
    guard (i_snd i) ENilSCDestAccount ;;;
    guard (beqb (i_caller i) (i_rcpt i)) EOperationNotPermitted ;;;
    guard (negb (is_sc (i_caller i))) EOperationNotPermitted ;;;
    use <- skv_loop (i_caller i) (i_gas i) A (g_SaveKeyValue G) ;;
    guard (negb (i_gas i <? use)%N) ENotEnoughGas ;;;
    ret (mk_out rcOk (sub64 (i_gas i) use)).
End Funcs.
