(* Ledger model: types of the execution environment of the built-in functions. *)
From EV Require Import Base.Bytes Base.Store Base.Monad gen.Consts Codec.Types.

(* error classes = the Go error variables the built-in functions return *)
Inductive err :=
| EInvalidArguments | ENotEnoughGas | EInvalidRcvAddr | ENilVmInput | ENilUserAccount
| ECalledWithValue | ENFTDoesNotHaveMetadata | EOperationNotPermitted | EAccountNotPayable
| EInvalidNFTQuantity | EAddressIsNotESDTSystemSC | ENegativeValue | EWrongNFTOnDestination
| EActionNotAllowed | EUserNameChangeIsDisabled | EOnlySystemAccountAccepted
| EOnlyFungibleTokensHaveBalanceTransfer | ENilValue | ENilSCDestAccount | ENewNFTDataOnSenderAddress
| EInvalidAddressLength | EInsufficientFunds | ETokenIsPaused | EFrozenForAccount
| ECannotWipeAccountNotFrozen | ECallerIsNotTheDNSAddress
| EDecode          (* unmarshal error *)
| EPayableOracle   (* the payability oracle itself failed *)
| EFault           (* an injected dependency failed (fault plan) *)
| EUnknownFunction.

Record account := {
  a_store : store;
  a_balance : Z;
  a_owner : bytes;
  a_username : bytes;
  a_devreward : Z }.
Definition empty_account : account :=
  {| a_store := []; a_balance := 0; a_owner := []; a_username := []; a_devreward := 0 |}.
Definition set_store (a : account) (s : store) : account :=
  {| a_store := s; a_balance := a_balance a; a_owner := a_owner a; a_username := a_username a; a_devreward := a_devreward a |}.

(* state threaded through one execution on one shard *)
Record mstate := {
  accts : amap account;     (* the accounts of the executing shard, one object per address *)
  calls : nat;              (* number of dependency calls made so far (fault plan index) *)
  allocs : N }.             (* elements requested from make() so far *)
Definition acct (s : mstate) (a : bytes) : account := aget empty_account (accts s) a.
Definition with_accts (s : mstate) (m : amap account) : mstate :=
  {| accts := m; calls := calls s; allocs := allocs s |}.

Inductive payres := PayYes | PayNo | PayErr.

(* gas schedule: the two sections of vmcommon.GasCost *)
Record gascfg := {
  g_ChangeOwnerAddress : N; g_ClaimDeveloperRewards : N; g_SaveUserName : N; g_SaveKeyValue : N;
  g_ESDTTransfer : N; g_ESDTBurn : N; g_ESDTLocalMint : N; g_ESDTLocalBurn : N; g_ESDTNFTCreate : N;
  g_ESDTNFTAddQuantity : N; g_ESDTNFTBurn : N; g_ESDTNFTTransfer : N; g_ESDTNFTChangeCreateOwner : N;
  g_ESDTNFTMultiTransfer : N; g_ESDTNFTAddURI : N; g_ESDTNFTUpdateAttributes : N;
  g_StorePerByte : N; g_ReleasePerByte : N; g_DataCopyPerByte : N; g_PersistPerByte : N;
  g_CompilePerByte : N; g_AoTPreparePerByte : N }.

Record codec := {
  enc_tok : token -> bytes; dec_tok : bytes -> option token;
  enc_rol : roles -> bytes; dec_rol : bytes -> option roles }.
Record codec_ok (c : codec) : Prop := {
  dec_enc_tok : forall t, wf_token t -> dec_tok c (enc_tok c t) = Some t;
  enc_tok_nonempty : forall t, enc_tok c t <> [];
  dec_tok_wf : forall b t, dec_tok c b = Some t -> wf_token t;
  dec_enc_rol : forall r, dec_rol c (enc_rol c r) = Some r;
  enc_rol_nil : enc_rol c [] = [];
  enc_rol_nonempty : forall r, r <> [] -> enc_rol c r <> [] }.

Record env := {
  plan : nat -> bool;           (* does the k-th dependency call fail? *)
  cdc : codec;
  shard_of : bytes -> N;        (* Coordinator.ComputeId *)
  self_shard : N;               (* Coordinator.SelfId *)
  payable : bytes -> payres;    (* PayableHandler.IsPayable *)
  dns : list bytes;             (* MapDNSAddresses *)
  enable_change : bool;         (* EnableUserNameChange *)
  gas : gascfg }.
Definition no_faults (E : env) : Prop := forall n, plan E n = false.

(* vmcommon.ContractCallInput as far as the built-ins read it *)
Record input := {
  i_caller : bytes; i_rcpt : bytes; i_args : list bytes; i_value : Z;
  i_gas : N; i_gasLocked : N; i_callType : N; i_rae : bool;
  i_snd : bool;      (* acntSnd non-nil: the caller's account lives on the executing shard *)
  i_dst : bool }.    (* acntDst non-nil: the recipient's account lives on the executing shard *)

Record transfer := { tr_value : Z; tr_gasLimit : N; tr_gasLocked : N; tr_data : bytes; tr_callType : N; tr_sender : bytes }.
Record outacct := { oc_addr : bytes; oc_delta : Z; oc_transfers : list transfer }.
Record logentry := { lg_id : bytes; lg_addr : bytes; lg_topics : list bytes }.
Record output := {
  o_rc : N; o_gasRemaining : N; o_returnData : list bytes;
  o_accounts : list outacct;     (* at most one entry in this code base *)
  o_logs : list logentry }.
Definition mk_out (rc gasrem : N) : output :=
  {| o_rc := rc; o_gasRemaining := gasrem; o_returnData := []; o_accounts := []; o_logs := [] |}.
Definition set_gasrem (o : output) (g : N) : output :=
  {| o_rc := o_rc o; o_gasRemaining := g; o_returnData := o_returnData o; o_accounts := o_accounts o; o_logs := o_logs o |}.
Definition set_accounts (o : output) (a : list outacct) : output :=
  {| o_rc := o_rc o; o_gasRemaining := o_gasRemaining o; o_returnData := o_returnData o; o_accounts := a; o_logs := o_logs o |}.
Definition set_logs (o : output) (l : list logentry) : output :=
  {| o_rc := o_rc o; o_gasRemaining := o_gasRemaining o; o_returnData := o_returnData o; o_accounts := o_accounts o; o_logs := l |}.
Definition set_returnData (o : output) (r : list bytes) : output :=
  {| o_rc := o_rc o; o_gasRemaining := o_gasRemaining o; o_returnData := r; o_accounts := o_accounts o; o_logs := o_logs o |}.

Definition sum_gasLimit (o : output) : N :=
  fold_right (fun oa acc => fold_right (fun t a => tr_gasLimit t + a) acc (oc_transfers oa))%N 0%N (o_accounts o).

(* key prefixes; the per-constructor prefixes of the generated table are pinned to these in Properties *)
Definition P : bytes := C.ElrondProtectedKeyPrefix ++ C.ESDTKeyIdentifier.
Definition RP : bytes := C.ElrondProtectedKeyPrefix ++ C.ESDTRoleIdentifier ++ C.ESDTKeyIdentifier.
Definition NP : bytes := C.ElrondProtectedKeyPrefix ++ C.ESDTNFTLatestNonceIdentifier.
Definition SC : bytes := C.ESDTSCAddress.
Definition SYS : bytes := C.SystemAccountAddress.
Definition META : N := C.MetachainShardId.

Definition MT := @M err mstate.
