(* Ledger model: ESDTTransfer, ESDTNFTTransfer, MultiESDTNFTTransfer (esdtTransfer.go,
   esdtNFTTransfer.go, multiESDTNFTTransfer.go), both execution sides. *)
From EV Require Import Base.Bytes Base.Store Base.Monad gen.Consts Codec.Types Helpers.Helpers
  Ledger.Types Ledger.Env Ledger.Funcs.

Section Transfers.
  Variable E : env.
  Notation MT := (@M err mstate).
  Notation G := (gas E).

  Definition check_payable (verify : bool) (a : bytes) : MT unit :=
    if verify then (p <- is_payable E a ;; guard p EAccountNotPayable) else ret tt.

  (* ---------------- ESDTTransfer ---------------- *)
  Definition f_esdt_transfer (i : input) : MT output :=
    let cost := g_ESDTTransfer G in
    let A := i_args i in
    let minLen := C.MinLenArgumentsESDTTransfer in
    check_basic i ;;;
    guard (negb (shard_of E (i_rcpt i) =? META)%N) EInvalidRcvAddr ;;;
    tok <- arg A 0 ;; a1 <- arg A 1 ;;
    let v := bigZ a1 in
    guard (0 <? v)%Z ENegativeValue ;;;
    let gasRem := compute_gas_remaining (i_snd i) (i_gas i) cost in
    let key := P ++ tok in
    (if i_snd i then
       guard (negb (i_gas i <? cost)%N) ENotEnoughGas ;;;
       add_to_esdt_balance E (i_caller i) key (- v) (i_rae i)
     else ret tt) ;;;
    let isSCCallAfter := is_sc (i_rcpt i) && (minLen <? alen A)%N in
    let o := mk_out rcOk gasRem in
    if i_dst i then
      check_payable (must_verify_payable i minLen) (i_rcpt i) ;;;
      add_to_esdt_balance E (i_rcpt i) key v (i_rae i) ;;;
      if isSCCallAfter then
        let o1 := set_gasrem o (match safe_sub_u64 (i_gas i) cost with Some r => r | None => 0%N end) in
        fn <- arg A minLen ;;
        callArgs <- (if (minLen + 1 <? alen A)%N then args_from A (minLen + 1) else ret []) ;;
        let o2 := add_output_transfer (i_caller i) fn callArgs (i_rcpt i) (i_gasLocked i) (i_callType i) o1 in
        ret (add_log o2 (log_esdt C.BuiltInFunctionESDTTransfer tok v (i_caller i) [i_rcpt i]))
      else
        let o1 := if ((i_callType i =? C.AsynchronousCallBack)%N && negb (i_snd i))%bool then set_gasrem o (i_gas i) else o in
        ret (add_log o1 (log_esdt C.BuiltInFunctionESDTTransfer tok v (i_caller i) [i_rcpt i]))
    else
      let o1 := if is_sc (i_caller i)
                then add_output_transfer (i_caller i) C.BuiltInFunctionESDTTransfer A (i_rcpt i) (i_gasLocked i) (i_callType i) o
                else o in
      ret (add_log o1 (log_esdt C.BuiltInFunctionESDTTransfer tok v (i_caller i) [])).

  (* ---------------- shared by NFT and multi transfer ---------------- *)
  (* addNFTToDestination; [multi_legacy] = true reproduces the pre-fix behaviour of the multi-transfer
     (existing holding added only when the stored entry carries metadata) and is only used by the
     regression lemmas. *)
  Definition add_nft_to_destination (dst key : bytes) (t : token) (verify rae : bool) : MT token :=
    check_payable verify dst ;;;
    '(cur, _) <- get_nft_on_destination E dst key (tok_nonce t) ;;
    check_froze_and_pause dst key cur rae ;;;
    (match t_meta cur with
     | Some cm => m <- lift_opt (t_meta t) EWrongNFTOnDestination ;;   (* F11 repair: an incoming entry without metadata is rejected, not dereferenced *)
                  guard (beqb (md_hash cm) (md_hash m)) EWrongNFTOnDestination
     | None => ret tt
     end) ;;;
    v <- val_of t ;; cv <- val_of cur ;;
    let t' := set_value t (Some (v + cv)%Z) in
    save_nft E dst key t' rae ;;;
    ret t'.

  (* ---------------- ESDTNFTTransfer ---------------- *)
  Definition nft_min := C.MinLenArgumentsESDTNFTTransfer.

  Definition f_nft_transfer_sender (i : input) : MT output :=
    let cost := g_ESDTNFTTransfer G in
    let A := i_args i in
    dst <- arg A 3 ;;
    guard (zlen dst =? zlen (i_caller i))%N EInvalidArguments ;;;
    guard (negb (beqb dst (i_caller i))) EInvalidArguments ;;;
    guard (negb (shard_of E dst =? META)%N) EInvalidRcvAddr ;;;
    guard (negb (i_gas i <? cost)%N) ENotEnoughGas ;;;
    tok <- arg A 0 ;; a1 <- arg A 1 ;;
    let key := P ++ tok in
    let nonce := bigU64 a1 in
    guard (negb (nonce =? 0)%N) ENFTDoesNotHaveMetadata ;;;
    (if i_snd i then ret tt else panic) ;;;          (* acntSnd.AccountDataHandler() on a nil account *)
    t <- get_nft_on_sender E (i_caller i) key nonce ;;
    a2 <- arg A 2 ;;
    let q := bigZ a2 in
    v <- val_of t ;;
    guard (negb (v <? q)%Z) EInvalidNFTQuantity ;;;
    save_nft E (i_caller i) key (set_value t (Some (v - q)%Z)) (i_rae i) ;;;
    let same := (self_shard E =? shard_of E dst)%N in
    (* the entry that travels: quantity q; on the same shard Value then accumulates the destination's holding *)
    t2 <- (if same then
             load_account E dst ;;;
             t' <- add_nft_to_destination dst key (set_value t (Some q)) (must_verify_payable i nft_min) (i_rae i) ;;
             save_account E dst ;;;
             ret t'
           else ret (set_value t (Some q))) ;;
    let o := mk_out rcOk (sub64 (i_gas i) cost) in
    (* createNFTOutputTransfers *)
    b <- marshal_tok E t2 ;;
    let g := mul64 (zlen b) (g_DataCopyPerByte G) in
    guard (negb (o_gasRemaining o <? g)%N) ENotEnoughGas ;;;
    let o := set_gasrem o (sub64 (o_gasRemaining o) g) in
    first3 <- (if (3 <=? alen A)%N then ret (firstn 3 A) else panic) ;;
    rest <- (if (nft_min <? alen A)%N then args_from A 4 else ret []) ;;
    let args' := first3 ++ [b] ++ rest in
    let isSCCallAfter := ((nft_min <? alen A)%N && is_sc dst)%bool in
    o <- (if negb same then
            let gasToTransfer := if isSCCallAfter then o_gasRemaining o else 0%N in
            let o1 := if isSCCallAfter then set_gasrem o 0 else o in
            ret (add_nft_transfer (i_caller i) dst C.BuiltInFunctionESDTNFTTransfer args' (i_gasLocked i) gasToTransfer (i_callType i) o1)
          else if isSCCallAfter then
            fn <- arg A nft_min ;;
            callArgs <- (if (nft_min + 1 <? alen A)%N then args_from A (nft_min + 1) else ret []) ;;
            ret (add_output_transfer (i_caller i) fn callArgs dst (i_gasLocked i) (i_callType i) o)
          else ret o) ;;
    m <- meta_of t2 ;;
    ret (add_log o (log_nft C.BuiltInFunctionESDTNFTTransfer (i_caller i) tok (md_nonce m) [dst])).

  Definition f_nft_transfer (i : input) : MT output :=
    let A := i_args i in
    check_basic i ;;;
    guard (negb (alen A <? 4)%N) EInvalidArguments ;;;
    if beqb (i_caller i) (i_rcpt i) then f_nft_transfer_sender i else
    guard (negb (i_snd i)) EInvalidRcvAddr ;;;
    guard (i_dst i) EInvalidRcvAddr ;;;
    tok <- arg A 0 ;; payload <- arg A 3 ;;
    let key := P ++ tok in
    t <- unmarshal_tok E payload ;;
    _ <- add_nft_to_destination (i_rcpt i) key t (must_verify_payable i nft_min) (i_rae i) ;;
    let o := mk_out rcOk (i_gas i) in
    o <- (if ((nft_min <? alen A)%N && is_sc (i_rcpt i))%bool then
            fn <- arg A nft_min ;;
            callArgs <- (if (nft_min + 1 <? alen A)%N then args_from A (nft_min + 1) else ret []) ;;
            ret (add_output_transfer (i_caller i) fn callArgs (i_rcpt i) (i_gasLocked i) (i_callType i) o)
          else ret o) ;;
    m <- meta_of t ;;
    ret (add_log o (log_nft C.BuiltInFunctionESDTNFTTransfer (i_caller i) tok (md_nonce m) [i_rcpt i])).

  (* ---------------- MultiESDTNFTTransfer ---------------- *)
  Definition apt := C.bif_argumentsPerTransfer.

  (* one token on the sender shard: returns the entry that travels (Value = quantity, plus the
     destination's previous holding when the destination is on this shard) *)
  Definition transfer_one_sender (sndPresent : bool) (caller : bytes) (dstLocal : bool) (dst tok : bytes) (nonce : N) (q : Z)
             (verify rae : bool) : MT token :=
    guard (0 <? q)%Z EInvalidNFTQuantity ;;;
    let key := P ++ tok in
    (if sndPresent then ret tt else panic) ;;;       (* acntSnd.AccountDataHandler() on a nil account *)
    t <- get_nft_on_sender E caller key nonce ;;
    v <- val_of t ;;
    guard (negb (v <? q)%Z) EInvalidNFTQuantity ;;;
    save_nft E caller key (set_value t (Some (v - q)%Z)) rae ;;;
    if dstLocal then add_nft_to_destination dst key (set_value t (Some q)) verify rae
    else ret (set_value t (Some q)).

  Fixpoint multi_sender_loop (fuel : nat) (i : input) (dstLocal : bool) (dst : bytes) (verify : bool)
           (idx : N) (acc : list (bytes * token)) (logs : list logentry) : MT (list (bytes * token) * list logentry) :=
    match fuel with
    | O => ret (rev acc, rev logs)
    | S f =>
      let A := i_args i in
      let start := (2 + idx * apt)%N in
      tok <- arg A start ;; a1 <- arg A (start + 1) ;; a2 <- arg A (start + 2) ;;
      let nonce := bigU64 a1 in
      t <- transfer_one_sender (i_snd i) (i_caller i) dstLocal dst tok nonce (bigZ a2) verify (i_rae i) ;;
      let lg := log_nft C.BuiltInFunctionMultiESDTNFTTransfer (i_caller i) tok nonce [dst] in
      multi_sender_loop f i dstLocal dst verify (idx + 1) ((tok, t) :: acc) (lg :: logs)
    end.

  (* createESDTNFTOutputTransfers: argument list of the emitted message, charging data-copy gas per NFT payload *)
  Fixpoint multi_out_args (l : list (bytes * token)) (o : output) (acc : list bytes) : MT (list bytes * output) :=
    match l with
    | [] => ret (acc, o)
    | (tok, t) :: r =>
      match t_meta t with
      | Some m =>
        b <- marshal_tok E t ;;
        let g := mul64 (zlen b) (g_DataCopyPerByte G) in
        guard (negb (o_gasRemaining o <? g)%N) ENotEnoughGas ;;;
        multi_out_args r (set_gasrem o (sub64 (o_gasRemaining o) g)) (acc ++ [tok; u64_bytes (md_nonce m); b])
      | None =>
        v <- val_of t ;;
        multi_out_args r o (acc ++ [tok; [x00]; Z_bytes v])
      end
    end.

  Definition f_multi_transfer_sender (i : input) : MT output :=
    let cost := g_ESDTNFTMultiTransfer G in
    let A := i_args i in
    dst <- arg A 0 ;;
    guard (zlen dst =? zlen (i_caller i))%N EInvalidArguments ;;;
    guard (negb (beqb dst (i_caller i))) EInvalidArguments ;;;
    guard (negb (shard_of E dst =? META)%N) EInvalidRcvAddr ;;;
    a1 <- arg A 1 ;;
    let n := bigU64 a1 in
    guard (negb (n =? 0)%N) EInvalidArguments ;;;
    guard (negb (alen A / apt <? n)%N) EInvalidArguments ;;;
    let minArgs := u64 (u64 (n * apt) + 2) in
    guard (negb (alen A <? minArgs)%N) EInvalidArguments ;;;
    let total := mul64 n cost in
    guard (negb (i_gas i <? total)%N) ENotEnoughGas ;;;
    let verify := must_verify_payable i minArgs in
    let same := (self_shard E =? shard_of E dst)%N in
    (if same then load_account E dst else ret tt) ;;;
    alloc n ;;; alloc n ;;; alloc n ;;;
    '(lst, logs) <- multi_sender_loop (N.to_nat n) i same dst verify 0 [] [] ;;
    (if same then save_account E dst else ret tt) ;;;
    let o := set_logs (mk_out rcOk (sub64 (i_gas i) total)) logs in
    alloc (u64 (apt * n + 1)) ;;;
    '(args', o) <- multi_out_args lst o [u64_bytes n] ;;
    let minArgs2 := minArgs in
    rest <- (if (minArgs2 <? alen A)%N then args_from A minArgs2 else ret []) ;;
    let args' := args' ++ rest in
    let isSCCallAfter := ((minArgs2 <? alen A)%N && is_sc dst)%bool in
    if negb same then
      let gasToTransfer := if isSCCallAfter then o_gasRemaining o else 0%N in
      let o1 := if isSCCallAfter then set_gasrem o 0 else o in
      ret (add_nft_transfer (i_caller i) dst C.BuiltInFunctionMultiESDTNFTTransfer args' (i_gasLocked i) gasToTransfer (i_callType i) o1)
    else if isSCCallAfter then
      fn <- arg A minArgs2 ;;
      callArgs <- (if (minArgs2 + 1 <? alen A)%N then args_from A (minArgs2 + 1) else ret []) ;;
      ret (add_output_transfer (i_caller i) fn callArgs dst (i_gasLocked i) (i_callType i) o)
    else ret o.

  Fixpoint multi_dest_loop (fuel : nat) (i : input) (minArgs : N) (idx : N) (logs : list logentry) : MT (list logentry) :=
    match fuel with
    | O => ret (rev logs)
    | S f =>
      let A := i_args i in
      let start := (1 + idx * apt)%N in
      tok <- arg A start ;; a1 <- arg A (start + 1) ;;
      let nonce := bigU64 a1 in
      let key := P ++ tok in
      (if (0 <? nonce)%N then
         payload <- arg A (start + 2) ;;
         t <- unmarshal_tok E payload ;;
         _ <- add_nft_to_destination (i_rcpt i) key t (must_verify_payable i minArgs) (i_rae i) ;; ret tt
       else
         check_payable (must_verify_payable i minArgs) (i_rcpt i) ;;;
         a2 <- arg A (start + 2) ;;
         add_to_esdt_balance E (i_rcpt i) key (bigZ a2) (i_rae i)) ;;;
      let lg := log_nft C.BuiltInFunctionMultiESDTNFTTransfer (i_caller i) tok nonce [i_rcpt i] in
      multi_dest_loop f i minArgs (idx + 1) (lg :: logs)
    end.

  Definition f_multi_transfer (i : input) : MT output :=
    let A := i_args i in
    check_basic i ;;;
    guard (negb (alen A <? 4)%N) EInvalidArguments ;;;
    if beqb (i_caller i) (i_rcpt i) then f_multi_transfer_sender i else
    guard (negb (i_snd i)) EInvalidRcvAddr ;;;
    guard (i_dst i) EInvalidRcvAddr ;;;
    a0 <- arg A 0 ;;
    let n := bigU64 a0 in
    guard (negb (n =? 0)%N) EInvalidArguments ;;;
    guard (negb (alen A / apt <? n)%N) EInvalidArguments ;;;
    let minArgs := u64 (u64 (n * apt) + 1) in
    guard (negb (alen A <? minArgs)%N) EInvalidArguments ;;;
    alloc n ;;;
    logs <- multi_dest_loop (N.to_nat n) i minArgs 0 [] ;;
    let o := set_logs (mk_out rcOk (i_gas i)) logs in
    if ((minArgs <? alen A)%N && is_sc (i_rcpt i))%bool then
      fn <- arg A minArgs ;;
      callArgs <- (if (minArgs + 1 <? alen A)%N then args_from A (minArgs + 1) else ret []) ;;
      ret (add_output_transfer (i_caller i) fn callArgs (i_rcpt i) (i_gasLocked i) (i_callType i) o)
    else ret o.

  (* ---------------- dispatch = the factory's registration table ---------------- *)
  Definition exec (f : bytes) (i : input) : MT output :=
    if beqb f C.BuiltInFunctionClaimDeveloperRewards then f_claim_rewards E i
    else if beqb f C.BuiltInFunctionChangeOwnerAddress then f_change_owner E i
    else if beqb f C.BuiltInFunctionSetUserName then f_set_user_name E i
    else if beqb f C.BuiltInFunctionSaveKeyValue then f_save_key_value E i
    else if beqb f C.BuiltInFunctionESDTPause then f_pause E true i
    else if beqb f C.BuiltInFunctionESDTUnPause then f_pause E false i
    else if beqb f C.BuiltInFunctionESDTTransfer then f_esdt_transfer i
    else if beqb f C.BuiltInFunctionESDTBurn then f_esdt_burn E i
    else if beqb f C.BuiltInFunctionESDTFreeze then f_freeze_wipe E true false i
    else if beqb f C.BuiltInFunctionESDTUnFreeze then f_freeze_wipe E false false i
    else if beqb f C.BuiltInFunctionESDTWipe then f_freeze_wipe E false true i
    else if beqb f C.BuiltInFunctionUnSetESDTRole then f_roles E false i
    else if beqb f C.BuiltInFunctionSetESDTRole then f_roles E true i
    else if beqb f C.BuiltInFunctionESDTLocalBurn then f_local_burn E i
    else if beqb f C.BuiltInFunctionESDTLocalMint then f_local_mint E i
    else if beqb f C.BuiltInFunctionESDTNFTAddQuantity then f_nft_add_quantity E i
    else if beqb f C.BuiltInFunctionESDTNFTBurn then f_nft_burn E i
    else if beqb f C.BuiltInFunctionESDTNFTCreate then f_nft_create E i
    else if beqb f C.BuiltInFunctionESDTNFTTransfer then f_nft_transfer i
    else if beqb f C.BuiltInFunctionESDTNFTCreateRoleTransfer then f_create_role_transfer E i
    else if beqb f C.BuiltInFunctionESDTNFTUpdateAttributes then f_nft_update_attributes E i
    else if beqb f C.BuiltInFunctionESDTNFTAddURI then f_nft_add_uri E i
    else if beqb f C.BuiltInFunctionMultiESDTNFTTransfer then f_multi_transfer i
    else fail EUnknownFunction.
End Transfers.
