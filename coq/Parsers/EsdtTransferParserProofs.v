(* Property C12 for the ESDT-transfer parser: no panic for any marshaller, any addresses, any
   function name and any argument list a Go program can hold (fewer than 2^63 elements), in
   particular for transfer counts at the 64-bit wrap-around residues of 3n+c. *)
From Coq.Strings Require Import String.
From EV Require Import Base.Bytes Base.Monad gen.Consts Codec.Types.
From EV Require Import Parsers.Tokenize Parsers.TokenizeProofs Parsers.EsdtTransferParser.
From EV Require Import Parsers.CallArgs Parsers.DeployArgs Parsers.StorageUpdates Parsers.ParsersProofs.

Definition go_slice_len {A} (l : list A) : Prop := (glen l < 9223372036854775808)%N.   (* len is an int *)

Ltac pconsts :=
  change C.parsers_MinArgsForESDTTransfer with 2%N in *;
  change C.parsers_MinArgsForESDTNFTTransfer with 4%N in *;
  change C.parsers_MinArgsForMultiESDTNFTTransfer with 4%N in *;
  change C.parsers_ArgsPerTransfer with 3%N in *.

Ltac np :=
  lazymatch goal with
  | |- rbind _ _ <> Panic => apply rbind_not_panic; [np | intros ? _; np]
  | |- (if ?c then _ else _) <> Panic => destruct c eqn:?; np
  | |- gidx _ _ <> Panic => apply gidx_not_panic; lia
  | |- gslice_from _ _ <> Panic => apply gslice_from_not_panic; lia
  | |- Ok _ <> Panic => discriminate
  | |- Err _ <> Panic => discriminate
  | |- _ => idtac
  end.

Theorem single_esdt_no_panic rcv args : parse_single_esdt_transfer rcv args <> Panic.
Proof. unfold parse_single_esdt_transfer. pconsts. np. Qed.

Theorem single_nft_no_panic snd rcv args : parse_single_esdt_nft_transfer snd rcv args <> Panic.
Proof. unfold parse_single_esdt_nft_transfer. pconsts. np. Qed.

Section WithMarshaller.
  Variable dec_token : bytes -> option token.

  Lemma create_new_no_panic tsi args s : go_slice_len args -> (tsi + 2 < glen args)%N ->
    create_new_esdt_transfer dec_token tsi args s <> Panic.
  Proof.
    unfold go_slice_len. intros HL Ht. unfold create_new_esdt_transfer.
    assert (E2 : u64 (tsi + 2) = (tsi + 2)%N) by (unfold u64; lia).
    assert (E1 : u64 (tsi + 1) = (tsi + 1)%N) by (unfold u64; lia).
    rewrite E1, E2. np.
    destruct (dec_token _) as [t|]; [|discriminate]. destruct (t_value t); discriminate.
  Qed.

  Lemma multi_loop_no_panic fuel : forall num start args s i acc,
    go_slice_len args -> (3 * num + start <= glen args)%N -> (i <= num)%N ->
    (N.to_nat (num - i) < fuel)%nat ->
    multi_loop dec_token fuel num start args s i acc <> Panic.
  Proof.
    induction fuel as [|f IH]; intros num start args s i acc HL Hn Hi Hf; [exfalso; lia|].
    unfold go_slice_len in HL. cbn [multi_loop]. pconsts. destruct (i <? num)%N eqn:Ei; [|discriminate].
    assert (E : u64 (start + u64 (i * 3)) = (start + i * 3)%N) by (unfold u64; lia).
    assert (E' : u64 (i + 1) = (i + 1)%N) by (unfold u64; lia).
    rewrite E, E'. apply rbind_not_panic.
    - apply create_new_no_panic; [exact HL|lia].
    - intros t _. apply IH; try assumption; lia.
  Qed.

  Theorem multi_no_panic snd rcv args : go_slice_len args ->
    parse_multi_esdt_nft_transfer dec_token snd rcv args <> Panic.
  Proof.
    intros HL. pose proof HL as HL'. unfold go_slice_len in HL'.
    unfold parse_multi_esdt_nft_transfer. pconsts.
    destruct (glen args <? 4)%N eqn:E4; [discriminate|].
    apply rbind_not_panic; [apply gidx_not_panic; lia|]. intros a0 _.
    assert (G : forall rcv' num start s, (start <= 2)%N ->
      (if negb (num <? two64)%N || (glen args / 3 <? u64 num)%N then Err ErrNotEnoughArguments else
       let min_len_args := u64 (u64 (3 * u64 num) + start) in
       if (glen args <? min_len_args)%N then Err ErrNotEnoughArguments else
       fn <-! (if (min_len_args <? glen args)%N then gidx args min_len_args else Ok []) ;;
       call_args <-! (if (u64 (min_len_args + 1) <? glen args)%N
                      then gslice_from args (u64 (min_len_args + 1)) else Ok []) ;;
       _ <-! go_make_transfers args (u64 num) ;;
       transfers <-! multi_loop dec_token (S (length args)) (u64 num) start args s 0 [] ;;
       Ok {| pt_transfers := transfers; pt_rcv := rcv'; pt_call_args := call_args; pt_call_function := fn |})
      <> Panic).
    { intros rcv' num start s Hs.
      destruct (negb (num <? two64)%N || (glen args / 3 <? u64 num)%N) eqn:Eg; [discriminate|].
      apply orb_false_elim in Eg. destruct Eg as [Eg1 Eg2]. unfold two64 in Eg1.
      assert (En : u64 num = num) by (unfold u64; lia). rewrite En in *.
      assert (Hq : (3 * num <= glen args)%N) by lia.
      assert (Em : u64 (u64 (3 * num) + start) = (3 * num + start)%N) by (unfold u64; lia).
      rewrite Em. cbv zeta.
      destruct (glen args <? 3 * num + start)%N eqn:Em2; [discriminate|].
      assert (Em1 : u64 (3 * num + start + 1) = (3 * num + start + 1)%N) by (unfold u64; lia).
      rewrite Em1. np.
      - unfold go_make_transfers. replace (num <=? glen args)%N with true by lia. discriminate.
      - apply multi_loop_no_panic; try assumption; try lia. unfold glen in Hq. lia. }
    destruct (beqb snd rcv).
    - apply rbind_not_panic.
      + np.
      + intros side Hside. apply rbind_ok in Hside. destruct Hside as (r & _ & Hside).
        apply rbind_ok in Hside. destruct Hside as (a1 & _ & Hside). inversion Hside; subst.
        apply G. lia.
    - cbn [rbind]. apply G. lia.
  Qed.

  Theorem parse_esdt_transfers_no_panic snd rcv function args : go_slice_len args ->
    parse_esdt_transfers dec_token snd rcv function args <> Panic.
  Proof.
    intros HL. unfold parse_esdt_transfers.
    destruct (beqb function C.BuiltInFunctionESDTTransfer); [apply single_esdt_no_panic|].
    destruct (beqb function C.BuiltInFunctionESDTNFTTransfer); [apply single_nft_no_panic|].
    destruct (beqb function C.BuiltInFunctionMultiESDTNFTTransfer); [apply multi_no_panic; exact HL|discriminate].
  Qed.

  (* a count larger than a third of the argument list is refused before any arithmetic on it —
     whatever 3n+1 / 3n+2 is modulo 2^64 *)
  Theorem multi_count_too_large_rejected (snd rcv : bytes) (args : list bytes) : (4 <= glen args)%N ->
    let count := if beqb snd rcv then be_to_N (nth 1 args []) else be_to_N (nth 0 args []) in
    (glen args / 3 < count)%N ->
    parse_multi_esdt_nft_transfer dec_token snd rcv args = Err ErrNotEnoughArguments.
  Proof.
    intros H4 count Hc. unfold count in Hc. clear count. unfold parse_multi_esdt_nft_transfer. pconsts.
    replace (glen args <? 4)%N with false by lia.
    destruct args as [|x0 [|x1 r]]; try (rewrite ?glen_cons, ?glen_nil in H4; lia).
    rewrite gidx_0. cbn [rbind]. cbn [nth] in Hc.
    assert (E1 : gidx (x0 :: x1 :: r) 1 = Ok x1).
    { unfold gidx. rewrite !glen_cons. replace (1 <? 1 + (1 + glen r))%N with true by lia. reflexivity. }
    assert (G : forall n, (glen (x0 :: x1 :: r) / 3 < n)%N ->
       negb (n <? two64)%N || (glen (x0 :: x1 :: r) / 3 <? u64 n)%N = true).
    { intros n Hn. destruct (n <? two64)%N eqn:E; [|reflexivity]. cbn [negb orb].
      unfold two64 in E. unfold u64. rewrite N.mod_small by lia. lia. }
    destruct (beqb snd rcv).
    - rewrite E1. cbn [rbind]. rewrite (G _ Hc). reflexivity.
    - cbn [rbind]. rewrite (G _ Hc). reflexivity.
  Qed.
End WithMarshaller.

(* ---- the wrap-around residues, concretely (with a marshaller that accepts everything) ---- *)
Definition dec_any (b : bytes) : option token := Some (set_value empty_token (Some 7%Z)).
Definition residue_args (count : N) (sender : bool) : list bytes :=
  if sender then [str "dest"%string; N_to_be count; str "TOK"%string; [x01]; [x05]]
  else [N_to_be count; str "TOK"%string; [x01]; [x05]; str "fn"%string].
Definition residue_counts : list N :=
  [ 6148914691236517205;    (* 3n+1 = 2^64 ≡ 0, 3n+2 ≡ 1 *)
    6148914691236517206;    (* 3n+1 ≡ 3, 3n+2 ≡ 4: the count that panicked on the pinned tree *)
    6148914691236517207;    (* 3n+1 ≡ 6, 3n+2 ≡ 7 *)
    12297829382473034410;   (* 3n ≡ 2^65-2 mod 2^64 = 2^64 - 2 *)
    12297829382473034411;   (* 3n+1 ≡ 2 mod 2^64 *)
    18446744073709551615;   (* 2^64 - 1 *)
    18446744073709551616;   (* 2^64: not a uint64 *)
    18446744073709551617;
    24595658764946068822 ]%N. (* 2^64 + 0x5555555555555556: low 64 bits are the panicking count *)
Example residues_rejected :
  forallb (fun n => forallb (fun s =>
     match parse_esdt_transfers dec_any (if s : bool then str "me"%string else str "other"%string) (str "me"%string)
                                C.BuiltInFunctionMultiESDTNFTTransfer (residue_args n s) with
     | Err ErrNotEnoughArguments => true | _ => false end) [true; false]) residue_counts = true.
Proof. vm_compute. reflexivity. Qed.

(* non-vacuity: the parser does accept well-formed input on both sides *)
Example multi_accepts_sender :
  parse_esdt_transfers dec_any (str "me"%string) (str "me"%string) C.BuiltInFunctionMultiESDTNFTTransfer
    [str "dest"%string; [x01]; str "TOK"%string; [x02]; [x05]; str "fn"%string; [x09]]
  = Ok {| pt_transfers := [ {| et_value := 5; et_token := str "TOK"%string; et_type := 1; et_nonce := 2 |} ];
          pt_rcv := str "dest"%string; pt_call_args := [[x09]]; pt_call_function := str "fn"%string |}.
Proof. vm_compute. reflexivity. Qed.
Example multi_accepts_destination :
  parse_esdt_transfers dec_any (str "src"%string) (str "me"%string) C.BuiltInFunctionMultiESDTNFTTransfer
    [[x02]; str "TOK"%string; [x02]; [x05]; str "FT"%string; []; [x03]]
  = Ok {| pt_transfers := [ {| et_value := 7; et_token := str "TOK"%string; et_type := 1; et_nonce := 2 |};
                            {| et_value := 3; et_token := str "FT"%string; et_type := 0; et_nonce := 0 |} ];
          pt_rcv := str "me"%string; pt_call_args := []; pt_call_function := [] |}.
Proof. vm_compute. reflexivity. Qed.
Example nil_value_payload_is_an_error :
  parse_esdt_transfers (fun _ => Some empty_token) (str "src"%string) (str "me"%string) C.BuiltInFunctionMultiESDTNFTTransfer
    [[x01]; str "TOK"%string; [x02]; [x05]] = Err ErrNotEnoughArguments.
Proof. vm_compute. reflexivity. Qed.

(* ---- all four parsers ---- *)
Theorem parsers_no_panic :
  (forall data : bytes,
     tokenize_r data <> Panic /\ parse_call_data_r data <> Panic
     /\ parse_deploy_data_r data <> Panic /\ get_storage_updates_r data <> Panic)
  /\ (forall (dec_token : bytes -> option token) (snd rcv function : bytes) (args : list bytes),
       go_slice_len args -> parse_esdt_transfers dec_token snd rcv function args <> Panic).
Proof.
  split.
  - intros data. repeat split; [apply tokenize_no_panic|apply parse_call_no_panic
                               |apply parse_deploy_no_panic|apply get_storage_updates_no_panic].
  - intros. apply parse_esdt_transfers_no_panic. assumption.
Qed.
(* the exported option view loses nothing: None is exactly "the Go function returned an error" *)
Theorem parse_call_data_none_iff data : parse_call_data data = None <-> exists e, parse_call_data_r data = Err e.
Proof.
  unfold parse_call_data. pose proof (parse_call_no_panic data) as H.
  destruct (parse_call_data_r data); cbn [res_opt]; split; intros G; try discriminate; try congruence; eauto.
  destruct G as (e & G). discriminate.
Qed.
