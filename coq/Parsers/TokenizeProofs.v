(* Facts about the Go primitives, the hex codec, strings.Split and the tokenizer (property C12). *)
From Coq.Strings Require Import String.
From EV Require Import Base.Bytes Base.Monad gen.Consts Parsers.Tokenize.

(* ---- constants ---- *)
Lemma at_separator_pinned : C.parsers_atSeparator = [x40] /\ C.parsers_atSeparatorChar = 64%N.
Proof. split; reflexivity. Qed.
Lemma is_at_spec b : is_at b = (b2n b =? 64)%N.
Proof.
  unfold is_at. change C.parsers_atSeparator with [x40]. cbn [beqb]. unfold byte_eqb.
  change (b2n x40) with 64%N. rewrite andb_true_r. reflexivity.
Qed.

(* ---- rbind ---- *)
Lemma rbind_ok {A B} (m : pres A) (f : A -> pres B) b :
  rbind m f = Ok b -> exists a, m = Ok a /\ f a = Ok b.
Proof. destruct m; simpl; intros H; try discriminate; eauto. Qed.
Lemma rbind_not_panic {A B} (m : pres A) (f : A -> pres B) :
  m <> Panic -> (forall a, m = Ok a -> f a <> Panic) -> rbind m f <> Panic.
Proof. destruct m; simpl; intros H1 H2; auto; discriminate. Qed.

(* ---- indexing ---- *)
Lemma glen_nil {A} : glen (@nil A) = 0%N. Proof. reflexivity. Qed.
Lemma glen_cons {A} (a : A) l : glen (a :: l) = (1 + glen l)%N.
Proof. unfold glen. cbn [length]. lia. Qed.
Lemma glen_app {A} (a b : list A) : glen (a ++ b) = (glen a + glen b)%N.
Proof. unfold glen. rewrite app_length. lia. Qed.

Lemma gidx_in_range {A} (l : list A) i : (i < glen l)%N -> exists x, gidx l i = Ok x /\ nth_error l (N.to_nat i) = Some x.
Proof.
  intros H. unfold gidx. replace (i <? glen l)%N with true by lia.
  destruct (nth_error l (N.to_nat i)) eqn:E; [eauto|].
  apply nth_error_None in E. unfold glen in H. lia.
Qed.
Lemma gidx_ok_inv {A} (l : list A) i x : gidx l i = Ok x -> (i < glen l)%N /\ nth_error l (N.to_nat i) = Some x.
Proof.
  unfold gidx. destruct (i <? glen l)%N eqn:E; [|discriminate].
  destruct (nth_error l (N.to_nat i)); intros H; inversion H; subst. split; [lia|reflexivity].
Qed.
Lemma gidx_out_of_range {A} (l : list A) i : (glen l <= i)%N -> gidx l i = Panic.
Proof. intros H. unfold gidx. replace (i <? glen l)%N with false by lia. reflexivity. Qed.
Lemma gidx_0 {A} (a : A) l : gidx (a :: l) 0 = Ok a.
Proof. unfold gidx. rewrite glen_cons. replace (0 <? 1 + glen l)%N with true by lia. reflexivity. Qed.
Lemma gidx_not_panic {A} (l : list A) i : (i < glen l)%N -> gidx l i <> Panic.
Proof. intros H. destruct (gidx_in_range l i H) as (x & E & _). rewrite E. discriminate. Qed.
Lemma gslice_from_not_panic {A} (l : list A) i : (i <= glen l)%N -> gslice_from l i <> Panic.
Proof. intros H. unfold gslice_from. replace (i <=? glen l)%N with true by lia. discriminate. Qed.

Lemma skipn_nth {A} (l : list A) n x : nth_error l n = Some x -> skipn n l = x :: skipn (S n) l.
Proof.
  revert l. induction n as [|n IH]; intros [|a l] H; try discriminate.
  - inversion H; reflexivity.
  - cbn [nth_error] in H. cbn [skipn]. rewrite (IH l H). reflexivity.
Qed.

(* ---- hex ---- *)
Lemma hex_dec_odd_length s : Nat.odd (length s) = true -> hex_dec s = None.
Proof.
  induction s as [s IH] using (well_founded_induction (Wf_nat.well_founded_ltof _ (@length byte))).
  destruct s as [|a [|b r]]; intros H; [discriminate|reflexivity|].
  cbn [hex_dec]. cbn [length] in H. rewrite Nat.odd_succ_succ in H.
  rewrite (IH r) by (try assumption; unfold Wf_nat.ltof; cbn [length]; lia).
  destruct (hexval a), (hexval b); reflexivity.
Qed.
Lemma hex_dec_length s l : hex_dec s = Some l -> length s = (2 * length l)%nat.
Proof.
  revert l. induction s as [s IH] using (well_founded_induction (Wf_nat.well_founded_ltof _ (@length byte))).
  destruct s as [|a [|b r]]; intros l H.
  - inversion H; reflexivity.
  - discriminate.
  - cbn [hex_dec] in H. destruct (hexval a), (hexval b), (hex_dec r) eqn:E; try discriminate.
    inversion H; subst. cbn [length]. rewrite (IH r) with (l := b0); [lia| |exact E].
    unfold Wf_nat.ltof; cbn [length]; lia.
Qed.

(* upper-case variant of the encoder: what a human or another tool may write *)
Definition hexdigit_upper (n : N) : byte := if (n <? 10)%N then n2b (48 + n) else n2b (55 + n).
Fixpoint hex_enc_upper (l : bytes) : bytes :=
  match l with
  | [] => []
  | b :: r => hexdigit_upper (b2n b / 16) :: hexdigit_upper (b2n b mod 16) :: hex_enc_upper r
  end.
Lemma hexval_hexdigit_upper n : (n < 16)%N -> hexval (hexdigit_upper n) = Some n.
Proof.
  intros H. unfold hexval, hexdigit_upper. destruct (n <? 10)%N eqn:E.
  - rewrite b2n_n2b by lia. replace ((48 <=? 48 + n) && (48 + n <=? 57))%N with true by lia. f_equal. lia.
  - rewrite b2n_n2b by lia. replace ((48 <=? 55 + n) && (55 + n <=? 57))%N with false by lia.
    replace ((97 <=? 55 + n) && (55 + n <=? 102))%N with false by lia.
    replace ((65 <=? 55 + n) && (55 + n <=? 70))%N with true by lia. f_equal. lia.
Qed.
(* any mixture of cases decodes: a per-digit choice of case *)
Fixpoint hex_enc_mixed (cs : list bool) (l : bytes) : bytes :=
  match l with
  | [] => []
  | b :: r =>
    let d (up : bool) := if up then hexdigit_upper else hexdigit in
    d (nth 0 cs false) (b2n b / 16)%N :: d (nth 1 cs false) (b2n b mod 16)%N :: hex_enc_mixed (skipn 2 cs) r
  end.
Theorem hex_dec_mixed_case cs l : hex_dec (hex_enc_mixed cs l) = Some l.
Proof.
  revert cs. induction l as [|b r IH]; intros cs; [reflexivity|]. cbn [hex_enc_mixed hex_dec].
  pose proof (b2n_lt b).
  assert (H1 : (b2n b / 16 < 16)%N) by (apply N.div_lt_upper_bound; lia).
  assert (H2 : (b2n b mod 16 < 16)%N) by (apply N.mod_upper_bound; lia).
  assert (E1 : forall up n, (n < 16)%N -> hexval ((if up : bool then hexdigit_upper else hexdigit) n) = Some n)
    by (intros [|] n Hn; [apply hexval_hexdigit_upper|apply hexval_hexdigit]; assumption).
  rewrite !E1 by assumption. rewrite IH. f_equal. f_equal.
  replace (b2n b / 16 * 16 + b2n b mod 16)%N with (b2n b) by (pose proof (N.div_mod (b2n b) 16); lia).
  apply n2b_b2n.
Qed.
Lemma hex_enc_mixed_all_upper l : hex_enc_mixed (repeat true (2 * length l)) l = hex_enc_upper l.
Proof.
  induction l as [|b r IH]; [reflexivity|].
  replace (2 * length (b :: r))%nat with (S (S (2 * length r))) by (cbn [length]; lia).
  cbn [repeat hex_enc_mixed hex_enc_upper nth skipn]. rewrite IH. reflexivity.
Qed.
Theorem hex_dec_upper l : hex_dec (hex_enc_upper l) = Some l.
Proof. rewrite <- hex_enc_mixed_all_upper. apply hex_dec_mixed_case. Qed.

(* ---- strings.Split on '@' ---- *)
Definition noat (l : bytes) : Prop := Forall (fun b => is_at b = false) l.
Lemma hexdigit_not_at n : (n < 16)%N -> is_at (hexdigit n) = false.
Proof. intros H. rewrite is_at_spec. unfold hexdigit. destruct (n <? 10)%N eqn:E; rewrite b2n_n2b by lia; lia. Qed.
Lemma hex_enc_noat l : noat (hex_enc l).
Proof.
  induction l as [|b r IH]; [constructor|]. cbn [hex_enc]. pose proof (b2n_lt b).
  constructor; [apply hexdigit_not_at; apply N.div_lt_upper_bound; lia|].
  constructor; [apply hexdigit_not_at; apply N.mod_upper_bound; lia|exact IH].
Qed.
Lemma hexval_some_not_at b n : hexval b = Some n -> is_at b = false.
Proof.
  rewrite is_at_spec. unfold hexval.
  destruct ((48 <=? b2n b) && (b2n b <=? 57))%N eqn:E1; [lia|].
  destruct ((97 <=? b2n b) && (b2n b <=? 102))%N eqn:E2; [lia|].
  destruct ((65 <=? b2n b) && (b2n b <=? 70))%N eqn:E3; [lia|discriminate].
Qed.

Lemma split_noat cur l rest : noat l ->
  split_at cur (l ++ rest) = match rest with
                             | [] => [rev cur ++ l]
                             | _ => split_at (rev l ++ cur) rest end.
Proof.
  revert cur. induction l as [|b r IH]; intros cur Hn; cbn [app].
  - destruct rest; [simpl; rewrite app_nil_r; reflexivity|reflexivity].
  - inversion Hn; subst. cbn [split_at]. rewrite H1. rewrite IH by assumption.
    destruct rest; simpl; rewrite <- app_assoc; reflexivity.
Qed.

(* tokens joined by the separator *)
Definition join_tail (toks : list bytes) : bytes := concat (map (fun a => x40 :: a) toks).
Definition join_at (toks : list bytes) : bytes :=
  match toks with [] => [] | t :: r => t ++ join_tail r end.

Lemma split_join_tail cur toks : Forall noat toks ->
  split_at cur (join_tail toks) = rev cur :: toks.
Proof.
  revert cur. induction toks as [|a r IH]; intros cur Hn; [reflexivity|].
  inversion Hn; subst. unfold join_tail. cbn [map concat app]. cbn [split_at].
  replace (is_at x40) with true by (rewrite is_at_spec; reflexivity). f_equal.
  fold (join_tail r). destruct r as [|a2 r2].
  - unfold join_tail. cbn [map concat]. rewrite split_noat by assumption. reflexivity.
  - rewrite split_noat by assumption. unfold join_tail at 1. cbn [map concat app].
    change (x40 :: a2 ++ concat (map (fun a0 => x40 :: a0) r2)) with (join_tail (a2 :: r2)).
    rewrite IH by assumption. rewrite app_nil_r, rev_involutive. reflexivity.
Qed.
Theorem split_join toks : toks <> [] -> Forall noat toks -> go_split (join_at toks) = toks.
Proof.
  intros Hne Hn. destruct toks as [|t r]; [congruence|]. inversion Hn; subst.
  unfold go_split, join_at. destruct r as [|a r].
  - unfold join_tail. cbn [map concat]. rewrite split_noat by assumption. reflexivity.
  - rewrite split_noat by assumption. unfold join_tail. cbn [map concat app].
    change (x40 :: a ++ concat (map (fun a0 => x40 :: a0) r)) with (join_tail (a :: r)).
    rewrite split_join_tail by assumption. rewrite app_nil_r, rev_involutive. reflexivity.
Qed.

Lemma split_at_nonempty cur l : split_at cur l <> [].
Proof. revert cur. induction l as [|b r IH]; intros cur; cbn [split_at]; [discriminate|]. destruct (is_at b); [discriminate|apply IH]. Qed.

(* ---- tokenize ---- *)
Theorem tokenize_spec data :
  tokenize_r data = match go_split data with
                    | [] => Err ErrTokenizeFailed
                    | [] :: _ => Err ErrTokenizeFailed
                    | tokens => Ok tokens
                    end.
Proof.
  unfold tokenize_r. destruct (go_split data) as [|t0 ts] eqn:E; [reflexivity|].
  rewrite glen_cons. replace (1 + glen ts =? 0)%N with false by lia.
  rewrite gidx_0. cbn [rbind]. destruct t0; [reflexivity|].
  rewrite glen_cons. replace (1 + glen t0 =? 0)%N with false by lia. reflexivity.
Qed.
Theorem tokenize_no_panic data : tokenize_r data <> Panic.
Proof. rewrite tokenize_spec. destruct (go_split data) as [|[|] ?]; discriminate. Qed.
Lemma tokenize_ok_inv data tokens : tokenize_r data = Ok tokens ->
  go_split data = tokens /\ exists b t0 ts, tokens = (b :: t0) :: ts.
Proof.
  rewrite tokenize_spec. destruct (go_split data) as [|[|b t0] ts]; intros H; try discriminate.
  inversion H; subst. split; [reflexivity|eauto].
Qed.
Theorem tokenize_join toks : (exists b t0 ts, toks = (b :: t0) :: ts) -> Forall noat toks ->
  tokenize_r (join_at toks) = Ok toks.
Proof.
  intros (b & t0 & ts & ->) Hn. rewrite tokenize_spec, split_join by (assumption || discriminate). reflexivity.
Qed.

(* ---- the argument loop = decode every token from index [start] on ---- *)
Fixpoint decode_all (l : list bytes) : option (list bytes) :=
  match l with
  | [] => Some []
  | t :: r => match hex_dec t, decode_all r with Some a, Some b => Some (a :: b) | _, _ => None end
  end.
Lemma decode_all_enc args : decode_all (map hex_enc args) = Some args.
Proof. induction args as [|a r IH]; [reflexivity|]. cbn [map decode_all]. rewrite hex_roundtrip, IH. reflexivity. Qed.

(* Go evaluates left to right and stops at the first bad token; the result is the same *)
Lemma args_loop_spec fuel : forall tokens i acc, (length tokens - N.to_nat i < fuel)%nat ->
  args_loop fuel tokens i acc =
  match decode_all (skipn (N.to_nat i) tokens) with
  | Some l => Ok (acc ++ l)
  | None => Err ErrTokenizeFailed
  end.
Proof.
  induction fuel as [|f IH]; intros tokens i acc Hf.
  - exfalso. lia.
  - cbn [args_loop]. destruct (i <? glen tokens)%N eqn:Ei.
    + destruct (gidx_in_range tokens i ltac:(lia)) as (t & Et & En). rewrite Et. cbn [rbind].
      rewrite (skipn_nth _ _ _ En). cbn [decode_all]. unfold decode_token.
      destruct (hex_dec t) as [a|]; cbn [rbind]; [|reflexivity].
      rewrite IH by (unfold glen in Ei; lia). replace (N.to_nat (i + 1)) with (S (N.to_nat i)) by lia.
      destruct (decode_all (skipn (S (N.to_nat i)) tokens)); [|reflexivity].
      rewrite <- app_assoc. reflexivity.
    + rewrite skipn_all2 by (unfold glen in Ei; lia). cbn [decode_all]. rewrite app_nil_r. reflexivity.
Qed.
Theorem parse_arguments_from_spec start tokens :
  parse_arguments_from start tokens =
  match decode_all (skipn (N.to_nat start) tokens) with
  | Some l => Ok l
  | None => Err ErrTokenizeFailed
  end.
Proof. unfold parse_arguments_from. rewrite args_loop_spec by lia. reflexivity. Qed.
