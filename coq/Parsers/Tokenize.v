(* parsers/tokenize.go, parsers/errors.go, parsers/constants.go — executable model.
   Go strings and byte slices are [bytes]; a slice of strings is [list bytes].
   Every index / slice expression of the Go code is an explicit [gidx] / [gslice_from] that yields
   [Panic] when Go would panic; a loop that runs out of fuel is a [Panic] too, so the no-panic
   theorems of ParsersProofs.v also say that the fuel given is enough. *)
From EV Require Import Base.Bytes Base.Monad gen.Consts.

(* the sentinel errors of package parsers; [ErrUnmarshal] = whatever the marshaller returns *)
Inductive perr :=
| ErrTokenizeFailed | ErrInvalidDeployArguments | ErrNilFunction | ErrInvalidDataString
| ErrInvalidVMType | ErrInvalidCode | ErrInvalidCodeMetadata | ErrNotESDTTransferInput
| ErrNotEnoughArguments | ErrNilMarshalizer | ErrUnmarshal.

Definition pres (A : Type) := res perr A.

Definition rbind {A B} (m : pres A) (f : A -> pres B) : pres B :=
  match m with Ok a => f a | Err e => Err e | Panic => Panic end.
Notation "x <-! m ;; f" := (rbind m (fun x => f)) (at level 61, m at next level, right associativity).

(* the exported view: None = error (or panic; ParsersProofs shows there is none) *)
Definition res_opt {A} (r : pres A) : option A := match r with Ok a => Some a | _ => None end.

(* ---- Go primitives on slices ---- *)
Definition glen {A} (l : list A) : N := N.of_nat (length l).
(* l[i] *)
Definition gidx {A} (l : list A) (i : N) : pres A :=
  if (i <? glen l)%N then match nth_error l (N.to_nat i) with Some x => Ok x | None => Panic end
  else Panic.
(* l[i:] *)
Definition gslice_from {A} (l : list A) (i : N) : pres (list A) :=
  if (i <=? glen l)%N then Ok (skipn (N.to_nat i) l) else Panic.

(* ---- strings.Split(data, atSeparator), atSeparator a one-byte string ---- *)
Definition is_at (b : byte) : bool := beqb [b] C.parsers_atSeparator.
Fixpoint split_at (cur : bytes) (l : bytes) : list bytes :=
  match l with
  | [] => [rev cur]
  | b :: r => if is_at b then rev cur :: split_at [] r else split_at (b :: cur) r
  end.
Definition go_split (data : bytes) : list bytes := split_at [] data.

(* func tokenize(data string) ([]string, error) *)
Definition tokenize_r (data : bytes) : pres (list bytes) :=
  let tokens := go_split data in
  if (glen tokens =? 0)%N then Err ErrTokenizeFailed else
  t0 <-! gidx tokens 0 ;;
  if (glen t0 =? 0)%N then Err ErrTokenizeFailed else
  Ok tokens.
Definition tokenize (data : bytes) : option (list bytes) := res_opt (tokenize_r data).

(* func decodeToken(token string) ([]byte, error): hex.DecodeString, any error ⇒ ErrTokenizeFailed *)
Definition decode_token (token : bytes) : pres bytes :=
  match hex_dec token with Some d => Ok d | None => Err ErrTokenizeFailed end.

(* func trimLeadingSeparatorChar(data string) string *)
Definition trim_leading_separator_char (data : bytes) : pres bytes :=
  if (0 <? glen data)%N then
    d0 <-! gidx data 0 ;;
    if (b2n d0 =? C.parsers_atSeparatorChar)%N then gslice_from data 1 else Ok data
  else Ok data.

(* func requireNumTokensIsEven(tokens []string) error *)
Definition require_num_tokens_is_even (tokens : list bytes) : pres unit :=
  if (glen tokens mod 2 =? 0)%N then Ok tt else Err ErrInvalidDataString.

(* parseArguments of callArgsParser / deployArgsParser: the same loop, started at
   minNumCallArguments resp. startIndexOfConstructorArguments:
     arguments := make([][]byte, 0)
     for i := start; i < len(tokens); i++ { argument, err := decodeToken(tokens[i]); ...append } *)
Fixpoint args_loop (fuel : nat) (tokens : list bytes) (i : N) (acc : list bytes) : pres (list bytes) :=
  match fuel with
  | O => Panic
  | S f =>
    if (i <? glen tokens)%N then
      t <-! gidx tokens i ;;
      a <-! decode_token t ;;
      args_loop f tokens (i + 1) (acc ++ [a])
    else Ok acc
  end.
Definition parse_arguments_from (start : N) (tokens : list bytes) : pres (list bytes) :=
  args_loop (S (length tokens)) tokens start [].
