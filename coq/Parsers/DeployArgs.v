(* parsers/deployArgsParser.go — executable model. *)
From EV Require Import Base.Bytes Base.Monad gen.Consts Helpers.Helpers Parsers.Tokenize.

Record deploy_args := {
  da_code : bytes;
  da_vmtype : bytes;
  da_codemeta : codemeta;
  da_arguments : list bytes }.

(* parseCode: tokens[indexOfCode], hex; any error ⇒ ErrInvalidCode *)
Definition parse_code (tokens : list bytes) : pres bytes :=
  codeHex <-! gidx tokens C.parsers_indexOfCode ;;
  match decode_token codeHex with Ok c => Ok c | Err _ => Err ErrInvalidCode | Panic => Panic end.

(* parseVMType: tokens[indexOfVMType], must be non-empty, hex; any error ⇒ ErrInvalidVMType *)
Definition parse_vmtype (tokens : list bytes) : pres bytes :=
  vmTypeHex <-! gidx tokens C.parsers_indexOfVMType ;;
  if (glen vmTypeHex =? 0)%N then Err ErrInvalidVMType else
  match decode_token vmTypeHex with Ok c => Ok c | Err _ => Err ErrInvalidVMType | Panic => Panic end.

(* parseCodeMetadata: tokens[indexOfCodeMetadata], hex, CodeMetadataFromBytes *)
Definition parse_codemeta (tokens : list bytes) : pres codemeta :=
  cmHex <-! gidx tokens C.parsers_indexOfCodeMetadata ;;
  match decode_token cmHex with
  | Ok b => match codemeta_from b with Some m => Ok m | None => Panic end
  | Err _ => Err ErrInvalidCodeMetadata
  | Panic => Panic
  end.

Definition deploy_parse_arguments (tokens : list bytes) : pres (list bytes) :=
  parse_arguments_from C.parsers_startIndexOfConstructorArguments tokens.

(* func (parser *deployArgsParser) ParseData(data string) returns DeployArgs or an error *)
Definition parse_deploy_data_r (data : bytes) : pres deploy_args :=
  tokens <-! tokenize_r data ;;
  if (glen tokens <? C.parsers_minNumDeployArguments)%N then Err ErrInvalidDeployArguments else
  code <-! parse_code tokens ;;
  vmtype <-! parse_vmtype tokens ;;
  cm <-! parse_codemeta tokens ;;
  arguments <-! deploy_parse_arguments tokens ;;
  Ok {| da_code := code; da_vmtype := vmtype; da_codemeta := cm; da_arguments := arguments |}.

Definition parse_deploy_data (data : bytes) : option deploy_args := res_opt (parse_deploy_data_r data).
