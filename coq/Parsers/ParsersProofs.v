(* Property C12 for the call-arguments, deploy-arguments and storage-updates parsers and the
   builders: totality (no panic), round trips, rejected shapes. *)
From Coq.Strings Require Import String.
From EV Require Import Base.Bytes Base.Monad gen.Consts Helpers.Helpers Helpers.HelpersProofs.
From EV Require Import Parsers.Tokenize Parsers.CallArgs Parsers.DeployArgs Parsers.StorageUpdates
  Parsers.Builder Parsers.TokenizeProofs.

Lemma noat_iff f : noat f <-> ~ In x40 f.
Proof.
  unfold noat. rewrite Forall_forall. split.
  - intros H Hin. specialize (H _ Hin). rewrite is_at_spec in H. change (b2n x40) with 64%N in H. lia.
  - intros H b Hb. rewrite is_at_spec. destruct (b2n b =? 64)%N eqn:E; [|reflexivity].
    exfalso. apply H. replace x40 with b; [exact Hb|]. apply b2n_inj. change (b2n x40) with 64%N. lia.
Qed.

(* ================= builders ================= *)
Lemma at_sep_eq : at_sep = [x40] /\ at_sep = C.parsers_atSeparator. Proof. split; reflexivity. Qed.

Lemma build_call_join f args : build_call f args = join_at (f :: map hex_enc args).
Proof.
  unfold build_call, join_at, join_tail. rewrite map_map. reflexivity.
Qed.

Theorem encode_message_build_call f args : encode_message f args = build_call f args.
Proof.
  unfold encode_message, build_call. revert f. induction args as [|a r IH]; intros f.
  - cbn. rewrite app_nil_r. reflexivity.
  - cbn [fold_left map concat]. rewrite IH. rewrite <- !app_assoc. reflexivity.
Qed.

Lemma b_to_string_push b e : b_to_string (b_push b e) = b_to_string b ++ b_separator b ++ e.
Proof.
  unfold b_to_string, b_push. cbn [b_elements b_function b_separator].
  rewrite fold_left_app. cbn [fold_left]. rewrite <- app_assoc. reflexivity.
Qed.
Lemma builder_of_fields f args :
  b_function (builder_of f args) = f /\ b_separator (builder_of f args) = at_sep
  /\ b_elements (builder_of f args) = map hex_enc args.
Proof.
  unfold builder_of.
  assert (G : forall b, b_function (fold_left b_bytes args b) = b_function b
                     /\ b_separator (fold_left b_bytes args b) = b_separator b
                     /\ b_elements (fold_left b_bytes args b) = b_elements b ++ map hex_enc args).
  { induction args as [|a r IH]; intros b; cbn [fold_left map].
    - rewrite app_nil_r. auto.
    - destruct (IH (b_bytes b a)) as (H1 & H2 & H3). rewrite H1, H2, H3.
      unfold b_bytes, b_push. cbn [b_function b_separator b_elements]. rewrite <- app_assoc. auto. }
  destruct (G (b_func new_builder f)) as (H1 & H2 & H3). rewrite H1, H2, H3. auto.
Qed.
Theorem builder_to_string f args : b_to_string (builder_of f args) = build_call f args.
Proof.
  destruct (builder_of_fields f args) as (H1 & H2 & H3).
  unfold b_to_string. rewrite H1, H2, H3. unfold build_call.
  clear H1 H2 H3. revert f. induction args as [|a r IH]; intros f.
  - cbn. rewrite app_nil_r. reflexivity.
  - cbn [fold_left map concat]. rewrite IH. rewrite <- !app_assoc. reflexivity.
Qed.

(* ================= call arguments ================= *)
Theorem parse_call_spec data :
  parse_call_data_r data =
  match go_split data with
  | [] => Err ErrTokenizeFailed
  | [] :: _ => Err ErrTokenizeFailed
  | f :: toks => match decode_all toks with Some a => Ok (f, a) | None => Err ErrTokenizeFailed end
  end.
Proof.
  unfold parse_call_data_r. rewrite tokenize_spec.
  destruct (go_split data) as [|[|b t0] ts]; [reflexivity|reflexivity|]. cbn [rbind].
  unfold parse_function. rewrite glen_cons.
  replace (1 + glen ts <? C.parsers_minNumCallArguments)%N with false by (change C.parsers_minNumCallArguments with 1%N; lia).
  change C.parsers_indexOfFunction with 0%N. rewrite gidx_0. cbn [rbind].
  unfold call_parse_arguments. rewrite parse_arguments_from_spec.
  change (N.to_nat C.parsers_minNumCallArguments) with 1%nat. cbn [skipn].
  destruct (decode_all ts); reflexivity.
Qed.
Theorem parse_call_no_panic data : parse_call_data_r data <> Panic.
Proof.
  rewrite parse_call_spec. destruct (go_split data) as [|[|] ts]; try discriminate.
  destruct (decode_all ts); discriminate.
Qed.

Theorem parse_build_call f args : f <> [] -> ~ In x40 f -> parse_call_data_r (build_call f args) = Ok (f, args).
Proof.
  intros Hne Hat. rewrite parse_call_spec, build_call_join, split_join.
  - destruct f; [congruence|]. rewrite decode_all_enc. reflexivity.
  - discriminate.
  - constructor; [apply noat_iff; exact Hat|]. apply Forall_forall. intros t Ht.
    apply in_map_iff in Ht. destruct Ht as (a & <- & _). apply hex_enc_noat.
Qed.
Theorem callargs_roundtrip_builder f args : f <> [] -> ~ In x40 f ->
  parse_call_data (b_to_string (builder_of f args)) = Some (f, args).
Proof. intros H1 H2. unfold parse_call_data. rewrite builder_to_string, parse_build_call by assumption. reflexivity. Qed.
Theorem callargs_roundtrip_encoder f args : f <> [] -> ~ In x40 f ->
  parse_call_data (encode_message f args) = Some (f, args).
Proof. intros H1 H2. unfold parse_call_data. rewrite encode_message_build_call, parse_build_call by assumption. reflexivity. Qed.
Theorem callargs_roundtrip f args : f <> [] -> ~ In x40 f -> parse_call_data (build_call f args) = Some (f, args).
Proof. intros H1 H2. unfold parse_call_data. rewrite parse_build_call by assumption. reflexivity. Qed.

Theorem empty_function_rejected args :
  parse_call_data_r (build_call [] args) = Err ErrTokenizeFailed
  /\ parse_call_data (b_to_string (builder_of [] args)) = None
  /\ parse_call_data (encode_message [] args) = None.
Proof.
  assert (H : parse_call_data_r (build_call [] args) = Err ErrTokenizeFailed).
  { rewrite parse_call_spec. unfold build_call. cbn [app]. destruct args as [|a r].
    - reflexivity.
    - cbn [map concat]. change (at_sep ++ hex_enc a) with (x40 :: hex_enc a). cbn [app].
      unfold go_split. cbn [split_at]. replace (is_at x40) with true by (rewrite is_at_spec; reflexivity).
      reflexivity. }
  unfold parse_call_data. rewrite builder_to_string, encode_message_build_call, H. auto.
Qed.

(* what the parser returns is always re-encoded to the input up to the case of the hex digits:
   a successful parse never invents or drops an argument *)
Theorem parse_call_ok_shape data f args : parse_call_data_r data = Ok (f, args) ->
  f <> [] /\ ~ In x40 f /\ exists toks, go_split data = f :: toks /\ decode_all toks = Some args.
Proof.
  rewrite parse_call_spec. destruct (go_split data) as [|[|b t0] ts] eqn:E; try discriminate.
  destruct (decode_all ts) eqn:D; intros H; inversion H; subst. split; [discriminate|]. split; [|eauto].
  (* tokens of a split contain no separator *)
  assert (G : forall l cur, Forall (fun b => is_at b = false) cur -> Forall noat (split_at cur l)).
  { induction l as [|x r IH]; intros cur Hc; cbn [split_at].
    - constructor; [|constructor]. unfold noat. apply Forall_rev. exact Hc.
    - destruct (is_at x) eqn:Ex.
      + constructor; [unfold noat; apply Forall_rev; exact Hc|]. apply IH. constructor.
      + apply IH. constructor; assumption. }
  specialize (G data [] (Forall_nil _)). unfold go_split in E. rewrite E in G. inversion G; subst.
  apply noat_iff. assumption.
Qed.

(* ================= deploy arguments ================= *)
Lemma decode_token_not_panic t : decode_token t <> Panic.
Proof. unfold decode_token. destruct (hex_dec t); discriminate. Qed.
Lemma parse_arguments_from_not_panic s tokens : parse_arguments_from s tokens <> Panic.
Proof. rewrite parse_arguments_from_spec. destruct (decode_all _); discriminate. Qed.

Theorem parse_deploy_no_panic data : parse_deploy_data_r data <> Panic.
Proof.
  unfold parse_deploy_data_r. apply rbind_not_panic; [apply tokenize_no_panic|]. intros tokens _.
  change C.parsers_minNumDeployArguments with 3%N.
  destruct (glen tokens <? 3)%N eqn:El; [discriminate|].
  assert (Hl : (3 <= glen tokens)%N) by lia.
  apply rbind_not_panic.
  { unfold parse_code. apply rbind_not_panic; [apply gidx_not_panic; change C.parsers_indexOfCode with 0%N; lia|].
    intros t _. unfold decode_token. destruct (hex_dec t); discriminate. }
  intros code _. apply rbind_not_panic.
  { unfold parse_vmtype. apply rbind_not_panic; [apply gidx_not_panic; change C.parsers_indexOfVMType with 1%N; lia|].
    intros t _. destruct (glen t =? 0)%N; [discriminate|]. unfold decode_token. destruct (hex_dec t); discriminate. }
  intros vm _. apply rbind_not_panic.
  { unfold parse_codemeta. apply rbind_not_panic; [apply gidx_not_panic; change C.parsers_indexOfCodeMetadata with 2%N; lia|].
    intros t _. unfold decode_token. destruct (hex_dec t) as [b|]; [|discriminate].
    pose proof (codemeta_from_total b). destruct (codemeta_from b); [discriminate|congruence]. }
  intros cm _. apply rbind_not_panic; [apply parse_arguments_from_not_panic|]. intros; discriminate.
Qed.

Lemma hex_enc_nonempty l : l <> [] -> exists b r, hex_enc l = b :: r.
Proof. destruct l; [congruence|]. cbn [hex_enc]. eauto. Qed.

Lemma deploy_tokens code vm cmb args : code <> [] ->
  tokenize_r (build_deploy_bytes code vm cmb args) = Ok (hex_enc code :: hex_enc vm :: hex_enc cmb :: map hex_enc args).
Proof.
  intros Hc. unfold build_deploy_bytes. rewrite build_call_join. cbn [map].
  apply tokenize_join.
  - destruct (hex_enc_nonempty code Hc) as (b & r & ->). eauto.
  - repeat (constructor; [apply hex_enc_noat|]). apply Forall_forall. intros t Ht.
    apply in_map_iff in Ht. destruct Ht as (a & <- & _). apply hex_enc_noat.
Qed.

Theorem parse_build_deploy_bytes code vm cmb args : code <> [] -> vm <> [] ->
  exists cm, codemeta_from cmb = Some cm /\
  parse_deploy_data_r (build_deploy_bytes code vm cmb args) =
    Ok {| da_code := code; da_vmtype := vm; da_codemeta := cm; da_arguments := args |}.
Proof.
  intros Hc Hv. pose proof (codemeta_from_total cmb) as Ht.
  destruct (codemeta_from cmb) as [cm|] eqn:Ecm; [|congruence]. exists cm. split; [reflexivity|].
  unfold parse_deploy_data_r. rewrite deploy_tokens by assumption. cbn [rbind].
  rewrite !glen_cons. change C.parsers_minNumDeployArguments with 3%N.
  replace (1 + (1 + (1 + glen (map hex_enc args))) <? 3)%N with false by lia.
  unfold parse_code. change C.parsers_indexOfCode with 0%N. rewrite gidx_0. cbn [rbind].
  unfold decode_token at 1. rewrite hex_roundtrip. cbn [rbind].
  unfold parse_vmtype. change C.parsers_indexOfVMType with 1%N.
  replace (gidx (hex_enc code :: hex_enc vm :: hex_enc cmb :: map hex_enc args) 1) with (@Ok perr _ (hex_enc vm)).
  2:{ unfold gidx. rewrite !glen_cons. replace (1 <? 1 + (1 + (1 + glen (map hex_enc args))))%N with true by lia. reflexivity. }
  cbn [rbind]. destruct (hex_enc_nonempty vm Hv) as (b & r & Ev). rewrite Ev, glen_cons.
  replace (1 + glen r =? 0)%N with false by lia. rewrite <- Ev.
  unfold decode_token at 1. rewrite hex_roundtrip. cbn [rbind].
  unfold parse_codemeta. change C.parsers_indexOfCodeMetadata with 2%N.
  replace (gidx (hex_enc code :: hex_enc vm :: hex_enc cmb :: map hex_enc args) 2) with (@Ok perr _ (hex_enc cmb)).
  2:{ unfold gidx. rewrite !glen_cons. replace (2 <? 1 + (1 + (1 + glen (map hex_enc args))))%N with true by lia. reflexivity. }
  cbn [rbind]. unfold decode_token at 1. rewrite hex_roundtrip, Ecm. cbn [rbind].
  unfold deploy_parse_arguments. rewrite parse_arguments_from_spec.
  change (N.to_nat C.parsers_startIndexOfConstructorArguments) with 3%nat. cbn [skipn].
  rewrite decode_all_enc. reflexivity.
Qed.

Theorem deploy_roundtrip code vm cm args : code <> [] -> vm <> [] ->
  exists data, build_deploy code vm cm args = Some data /\
    parse_deploy_data data = Some {| da_code := code; da_vmtype := vm; da_codemeta := cm; da_arguments := args |}.
Proof.
  intros Hc Hv. destruct (codemeta_record_roundtrip cm) as (bs & Eto & _ & Efrom).
  unfold build_deploy. rewrite Eto. eexists. split; [reflexivity|].
  destruct (parse_build_deploy_bytes code vm bs args Hc Hv) as (cm' & E1 & E2).
  unfold parse_deploy_data. rewrite E2. cbn [res_opt]. congruence.
Qed.

Theorem deploy_empty_rejected vm cmb args :
  parse_deploy_data_r (build_deploy_bytes [] vm cmb args) = Err ErrTokenizeFailed
  /\ forall code, code <> [] -> parse_deploy_data_r (build_deploy_bytes code [] cmb args) = Err ErrInvalidVMType.
Proof.
  split.
  - unfold parse_deploy_data_r. rewrite tokenize_spec. unfold build_deploy_bytes, build_call.
    cbn [hex_enc app map concat]. change (at_sep ++ hex_enc vm) with (x40 :: hex_enc vm). cbn [app].
    unfold go_split. cbn [split_at]. replace (is_at x40) with true by (rewrite is_at_spec; reflexivity).
    reflexivity.
  - intros code Hc. unfold parse_deploy_data_r. rewrite deploy_tokens by assumption. cbn [rbind].
    rewrite !glen_cons. change C.parsers_minNumDeployArguments with 3%N.
    replace (1 + (1 + (1 + glen (map hex_enc args))) <? 3)%N with false by lia.
    unfold parse_code. change C.parsers_indexOfCode with 0%N. rewrite gidx_0. cbn [rbind].
    unfold decode_token at 1. rewrite hex_roundtrip. cbn [rbind].
    unfold parse_vmtype. change C.parsers_indexOfVMType with 1%N.
    replace (gidx (hex_enc code :: hex_enc [] :: hex_enc cmb :: map hex_enc args) 1) with (@Ok perr _ (hex_enc [])).
    2:{ unfold gidx. rewrite !glen_cons. replace (1 <? 1 + (1 + (1 + glen (map hex_enc args))))%N with true by lia. reflexivity. }
    reflexivity.
Qed.

(* ================= storage updates ================= *)
Fixpoint decode_pairs (l : list bytes) : pres (list storage_update) :=
  match l with
  | [] => Ok []
  | [t] => match hex_dec t with Some _ => Panic | None => Err ErrTokenizeFailed end
  | a :: b :: r =>
    match hex_dec a with
    | None => Err ErrTokenizeFailed
    | Some o =>
      match hex_dec b with
      | None => Err ErrTokenizeFailed
      | Some d => match decode_pairs r with Ok l => Ok ((o, d) :: l) | Err e => Err e | Panic => Panic end
      end
    end
  end.

Lemma su_loop_spec fuel : forall tokens i acc, (length tokens - N.to_nat i < fuel)%nat ->
  su_loop fuel tokens i acc =
  match decode_pairs (skipn (N.to_nat i) tokens) with Ok l => Ok (acc ++ l) | Err e => Err e | Panic => Panic end.
Proof.
  induction fuel as [|f IH]; intros tokens i acc Hf; [exfalso; lia|].
  cbn [su_loop]. destruct (i <? glen tokens)%N eqn:Ei.
  - destruct (gidx_in_range tokens i ltac:(lia)) as (t & Et & En). rewrite Et. cbn [rbind].
    rewrite (skipn_nth _ _ _ En). unfold decode_token at 1.
    destruct (i + 1 <? glen tokens)%N eqn:Ej.
    + destruct (gidx_in_range tokens (i + 1) ltac:(lia)) as (t' & Et' & En'). rewrite Et'.
      replace (N.to_nat (i + 1)) with (S (N.to_nat i)) in En' by lia.
      rewrite (skipn_nth _ _ _ En'). cbn [decode_pairs].
      destruct (hex_dec t) as [o|]; cbn [rbind]; [|reflexivity].
      unfold decode_token. destruct (hex_dec t') as [d|]; cbn [rbind]; [|reflexivity].
      rewrite IH by (unfold glen in Ei; lia). replace (N.to_nat (i + 2)) with (S (S (N.to_nat i))) by lia.
      destruct (decode_pairs (skipn (S (S (N.to_nat i))) tokens)); [|reflexivity|reflexivity].
      rewrite <- app_assoc. reflexivity.
    + rewrite (gidx_out_of_range tokens (i + 1)) by lia.
      rewrite (skipn_all2 tokens (n := S (N.to_nat i))) by (unfold glen in Ej; lia).
      cbn [decode_pairs]. destruct (hex_dec t); reflexivity.
  - rewrite skipn_all2 by (unfold glen in Ei; lia). cbn [decode_pairs]. rewrite app_nil_r. reflexivity.
Qed.

Lemma decode_pairs_even_not_panic n : forall l, (length l <= n)%nat -> (glen l mod 2 = 0)%N -> decode_pairs l <> Panic.
Proof.
  induction n as [|n IH]; intros l Hn He.
  - destruct l; [discriminate|cbn [length] in Hn; lia].
  - destruct l as [|a [|b r]]; [discriminate| |].
    + exfalso. revert He. rewrite glen_cons, glen_nil. clear. lia.
    + cbn [decode_pairs]. destruct (hex_dec a); [|discriminate]. destruct (hex_dec b); [|discriminate].
      assert (H : decode_pairs r <> Panic).
      { apply IH; [cbn [length] in Hn; lia|]. rewrite !glen_cons in He. lia. }
      destruct (decode_pairs r); [discriminate|discriminate|congruence].
Qed.

Lemma trim_spec data :
  trim_leading_separator_char data =
  Ok (match data with b :: r => if (b2n b =? 64)%N then r else data | [] => [] end).
Proof.
  unfold trim_leading_separator_char. destruct data as [|b r]; [reflexivity|].
  rewrite glen_cons. replace (0 <? 1 + glen r)%N with true by lia. rewrite gidx_0. cbn [rbind].
  change C.parsers_atSeparatorChar with 64%N. destruct (b2n b =? 64)%N; [|reflexivity].
  unfold gslice_from. rewrite glen_cons. replace (1 <=? 1 + glen r)%N with true by lia. reflexivity.
Qed.

Theorem get_storage_updates_no_panic data : get_storage_updates_r data <> Panic.
Proof.
  unfold get_storage_updates_r. rewrite trim_spec. cbn [rbind].
  apply rbind_not_panic; [apply tokenize_no_panic|]. intros tokens _.
  unfold require_num_tokens_is_even. destruct (glen tokens mod 2 =? 0)%N eqn:E; [|discriminate]. cbn [rbind].
  rewrite su_loop_spec by (cbn; lia). cbn [N.to_nat skipn].
  pose proof (decode_pairs_even_not_panic (length tokens) tokens (le_n _) ltac:(lia)) as H.
  destruct (decode_pairs tokens); [discriminate|discriminate|congruence].
Qed.

(* the builder's output: the 2n hex tokens joined by the separator *)
Definition tokens_of (l : list storage_update) : list bytes :=
  flat_map (fun u => [hex_enc (fst u); hex_enc (snd u)]) l.
Lemma create_data_loop_spec l : forall data, create_data_loop l data = data ++ join_at (tokens_of l).
Proof.
  induction l as [|[o d] r IH]; intros data; [cbn; rewrite app_nil_r; reflexivity|].
  cbn [create_data_loop]. rewrite IH. change C.parsers_atSeparator with [x40].
  cbn [tokens_of flat_map fst snd app]. fold (tokens_of r). unfold join_at at 2. unfold join_tail.
  cbn [map concat]. destruct r as [|[o2 d2] r2].
  - cbn [tokens_of flat_map join_at map concat]. rewrite !app_nil_r. rewrite <- !app_assoc. reflexivity.
  - cbn [tokens_of flat_map fst snd app join_at map concat]. rewrite <- !app_assoc. cbn [app]. reflexivity.
Qed.
Theorem create_data_join l : create_data_from_storage_update l = join_at (tokens_of l).
Proof. unfold create_data_from_storage_update. rewrite create_data_loop_spec. reflexivity. Qed.

Lemma tokens_of_noat l : Forall noat (tokens_of l).
Proof. induction l as [|[o d] r IH]; [constructor|]. cbn [tokens_of flat_map fst snd app]. repeat (constructor; [apply hex_enc_noat|]). exact IH. Qed.
Lemma tokens_of_len l : glen (tokens_of l) = (2 * glen l)%N.
Proof. induction l as [|[o d] r IH]; [reflexivity|]. cbn [tokens_of flat_map app]. fold (tokens_of r). rewrite !glen_cons, IH. lia. Qed.
Lemma decode_pairs_tokens_of l : decode_pairs (tokens_of l) = Ok l.
Proof.
  induction l as [|[o d] r IH]; [reflexivity|]. cbn [tokens_of flat_map fst snd app]. fold (tokens_of r).
  cbn [decode_pairs]. rewrite !hex_roundtrip, IH. reflexivity.
Qed.

Theorem storage_updates_roundtrip o d r : o <> [] ->
  get_storage_updates_r (create_data_from_storage_update ((o, d) :: r)) = Ok ((o, d) :: r).
Proof.
  intros Ho. unfold get_storage_updates_r. rewrite trim_spec, create_data_join. cbn [rbind].
  destruct (hex_enc_nonempty o Ho) as (b & t & Eb).
  assert (Hb : is_at b = false).
  { pose proof (hex_enc_noat o) as Hn. rewrite Eb in Hn. inversion Hn; assumption. }
  assert (Ej : exists rest, join_at (tokens_of ((o, d) :: r)) = b :: rest).
  { cbn [tokens_of flat_map fst snd app join_at]. rewrite Eb. cbn [app]. eauto. }
  destruct Ej as (rest & Ej). rewrite Ej. rewrite is_at_spec in Hb. rewrite Hb. rewrite <- Ej.
  rewrite tokenize_join.
  2:{ cbn [tokens_of flat_map fst snd app]. rewrite Eb. eauto. }
  2:{ apply tokens_of_noat. }
  cbn [rbind]. unfold require_num_tokens_is_even. rewrite tokens_of_len.
  match goal with |- context [(?x mod 2 =? 0)%N] => replace (x mod 2 =? 0)%N with true by lia end. cbn [rbind].
  rewrite su_loop_spec by (cbn; lia). cbn [N.to_nat skipn]. rewrite decode_pairs_tokens_of. reflexivity.
Qed.

Theorem storage_updates_never_wrong l :
  get_storage_updates_r (create_data_from_storage_update l) = Ok l
  \/ exists e, get_storage_updates_r (create_data_from_storage_update l) = Err e.
Proof.
  destruct l as [|[o d] r].
  - right. eexists. reflexivity.
  - destruct o as [|o0 o1] eqn:Eo.
    + right. unfold get_storage_updates_r. rewrite trim_spec, create_data_join. cbn [rbind].
      cbn [tokens_of flat_map fst snd app join_at hex_enc]. fold (tokens_of r).
      unfold join_tail at 1. cbn [map concat app]. change (b2n x40 =? 64)%N with true. cbv iota.
      change (hex_enc d ++ concat (map (fun a => x40 :: a) (tokens_of r))) with (join_at (hex_enc d :: tokens_of r)).
      rewrite tokenize_spec, split_join; [|discriminate|constructor; [apply hex_enc_noat|apply tokens_of_noat]].
      destruct (hex_enc d) eqn:Ed; [eexists; reflexivity|]. cbn [rbind].
      unfold require_num_tokens_is_even. rewrite glen_cons, tokens_of_len.
      match goal with |- context [(?x mod 2 =? 0)%N] => replace (x mod 2 =? 0)%N with false by lia end. eexists. reflexivity.
    + left. apply storage_updates_roundtrip. discriminate.
Qed.

Theorem storage_updates_excluded_rejected :
  (exists e, get_storage_updates_r (create_data_from_storage_update []) = Err e)
  /\ forall d r, exists e, get_storage_updates_r (create_data_from_storage_update (([], d) :: r)) = Err e.
Proof.
  split; [eexists; reflexivity|]. intros d r.
  destruct (storage_updates_never_wrong (([], d) :: r)) as [H|H]; [|exact H]. exfalso.
  (* an Ok result would have an odd number of tokens *)
  revert H. unfold get_storage_updates_r. rewrite trim_spec, create_data_join. cbn [rbind].
  cbn [tokens_of flat_map fst snd app join_at hex_enc]. fold (tokens_of r).
  unfold join_tail at 1. cbn [map concat app]. change (b2n x40 =? 64)%N with true. cbv iota.
  change (hex_enc d ++ concat (map (fun a => x40 :: a) (tokens_of r))) with (join_at (hex_enc d :: tokens_of r)).
  rewrite tokenize_spec, split_join; [|discriminate|constructor; [apply hex_enc_noat|apply tokens_of_noat]].
  destruct (hex_enc d) eqn:Ed; [discriminate|]. cbn [rbind].
  unfold require_num_tokens_is_even. rewrite glen_cons, tokens_of_len.
  match goal with |- context [(?x mod 2 =? 0)%N] => replace (x mod 2 =? 0)%N with false by lia end. discriminate.
Qed.

(* "storage-update lists survive the round trip" read for ALL lists is false: the two excluded
   shapes come back as an error (confirmed on the real parser by the harness) *)
Lemma storage_updates_roundtrip_all_lists_refuted :
  (exists l, get_storage_updates_r (create_data_from_storage_update l) <> Ok l)
  /\ get_storage_updates_r (create_data_from_storage_update []) = Err ErrTokenizeFailed
  /\ get_storage_updates_r (create_data_from_storage_update [([], [x02])]) = Err ErrInvalidDataString
  /\ get_storage_updates_r (create_data_from_storage_update [([], []); ([x01], [x02])]) = Err ErrTokenizeFailed.
Proof. split; [exists []; vm_compute; discriminate|]. repeat split. Qed.

(* string equality after build - parse - build *)
Theorem build_parse_build f args : f <> [] -> ~ In x40 f ->
  exists f' args', parse_call_data (build_call f args) = Some (f', args') /\ build_call f' args' = build_call f args.
Proof. intros H1 H2. exists f, args. split; [apply callargs_roundtrip; assumption|reflexivity]. Qed.
