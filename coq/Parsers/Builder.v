(* txDataBuilder/builder.go and the message encoder of the built-in functions
   (builtInFunctions/esdtTransfer.go addOutputTransferToVMOutput, esdtNFTTransfer.go
   addNFTTransferToVMOutput: data := function; for arg: data += "@" + hex(arg)) — executable model. *)
From Coq.Strings Require Import String.
From EV Require Import Base.Bytes Base.Monad gen.Consts Helpers.Helpers Parsers.Tokenize.

(* ---- the shape both produce: function ‖ "@" hex(arg) ‖ ... ---- *)
Definition at_sep : bytes := str "@"%string.
Definition build_call (f : bytes) (args : list bytes) : bytes :=
  f ++ concat (map (fun a => at_sep ++ hex_enc a) args).

(* the built-in functions' encoder, statement by statement *)
Definition encode_message (function : bytes) (arguments : list bytes) : bytes :=
  fold_left (fun data arg => data ++ (at_sep ++ hex_enc arg)) arguments function.

(* ---- txDataBuilder ---- *)
Record builder := { b_function : bytes; b_elements : list bytes; b_separator : bytes }.

Definition new_builder : builder := {| b_function := []; b_elements := []; b_separator := at_sep |}.
Definition b_clear (b : builder) : builder :=
  {| b_function := []; b_elements := []; b_separator := b_separator b |}.
(* ToString: data := function; for _, element := range elements { data = data + separator + element } *)
Definition b_to_string (b : builder) : bytes :=
  fold_left (fun data element => (data ++ b_separator b) ++ element) (b_elements b) (b_function b).
Definition b_to_bytes := b_to_string.
Definition b_get_last (b : builder) : bytes := last (b_elements b) [].
(* SetLast: an empty element list first becomes [element]; then elements[len-1] = element *)
Definition b_set_last (b : builder) (element : bytes) : builder :=
  let els := match b_elements b with [] => [element] | l => l end in
  {| b_function := b_function b; b_elements := removelast els ++ [element]; b_separator := b_separator b |}.
Definition b_func (b : builder) (f : bytes) : builder :=
  {| b_function := f; b_elements := b_elements b; b_separator := b_separator b |}.
Definition b_push (b : builder) (element : bytes) : builder :=
  {| b_function := b_function b; b_elements := b_elements b ++ [element]; b_separator := b_separator b |}.
Definition b_byte (b : builder) (v : byte) : builder := b_push b (hex_enc [v]).
Definition b_bytes (b : builder) (v : bytes) : builder := b_push b (hex_enc v).
Definition b_str (b : builder) (s : bytes) : builder := b_push b (hex_enc s).
(* Int / Int64: big.NewInt(v).Bytes() is the big-endian magnitude (the sign is dropped) *)
Definition b_int (b : builder) (v : Z) : builder := b_push b (hex_enc (N_to_be (Z.abs_N v))).
Definition b_int64 := b_int.
Definition b_true (b : builder) : builder := b_str b (str "true"%string).
Definition b_false (b : builder) : builder := b_str b (str "false"%string).
Definition b_bool (b : builder) (v : bool) : builder := if v then b_true b else b_false b.
(* BigInt(value): value.Bytes() (non-nil value) *)
Definition b_bigint (b : builder) (v : Z) : builder := b_bytes b (N_to_be (Z.abs_N v)).

Definition b_issue_esdt (b : builder) (token ticker : bytes) (supply : Z) (decimals : byte) : builder :=
  b_byte (b_int64 (b_str (b_str (b_func b (str "issue"%string)) token) ticker) supply) decimals.
Definition b_transfer_esdt (b : builder) (token : bytes) (value : Z) : builder :=
  b_int64 (b_str (b_func b C.BuiltInFunctionESDTTransfer) token) value.
Definition b_transfer_esdt_nft (b : builder) (token : bytes) (nonce value : Z) : builder :=
  b_int64 (b_int (b_str (b_func b C.BuiltInFunctionESDTNFTTransfer) token) nonce) value.
Definition b_burn_esdt (b : builder) (token : bytes) (value : Z) : builder :=
  b_int64 (b_str (b_func b C.BuiltInFunctionESDTBurn) token) value.
Definition b_prop (name : String.string) (b : builder) (v : bool) : builder := b_bool (b_str b (str name)) v.
Definition b_can_freeze := b_prop "canFreeze".
Definition b_can_wipe := b_prop "canWipe".
Definition b_can_pause := b_prop "canPause".
Definition b_can_mint := b_prop "canMint".
Definition b_can_burn := b_prop "canBurn".
Definition b_can_transfer_nft_create_role := b_prop "canTransferNFTCreateRole".
Definition b_can_add_special_roles := b_prop "canAddSpecialRoles".

(* the builder used the way every caller builds a call: Func(f) then Bytes(arg) per argument *)
Definition builder_of (f : bytes) (args : list bytes) : builder :=
  fold_left b_bytes args (b_func new_builder f).

(* deploy data: codeHex@vmTypeHex@codeMetadataHex@arg... ; the code travels in the function slot *)
Definition build_deploy_bytes (code vmtype cmbytes : bytes) (args : list bytes) : bytes :=
  build_call (hex_enc code) (vmtype :: cmbytes :: args).
Definition build_deploy (code vmtype : bytes) (cm : codemeta) (args : list bytes) : option bytes :=
  match codemeta_to cm with
  | Some cmb => Some (build_deploy_bytes code vmtype cmb args)
  | None => None
  end.

(* a script of builder calls, for the correspondence check *)
Inductive bop :=
| OpClear | OpFunc (f : bytes) | OpByte (v : byte) | OpBytes (v : bytes) | OpStr (s : bytes)
| OpInt (v : Z) | OpInt64 (v : Z) | OpTrue | OpFalse | OpBool (v : bool) | OpBigInt (v : Z)
| OpSetLast (e : bytes)
| OpIssue (token ticker : bytes) (supply : Z) (decimals : byte)
| OpTransferESDT (token : bytes) (value : Z) | OpTransferESDTNFT (token : bytes) (nonce value : Z)
| OpBurnESDT (token : bytes) (value : Z)
| OpCan (which : N) (v : bool).
Definition run_bop (b : builder) (o : bop) : builder :=
  match o with
  | OpClear => b_clear b | OpFunc f => b_func b f | OpByte v => b_byte b v | OpBytes v => b_bytes b v
  | OpStr s => b_str b s | OpInt v => b_int b v | OpInt64 v => b_int64 b v | OpTrue => b_true b
  | OpFalse => b_false b | OpBool v => b_bool b v | OpBigInt v => b_bigint b v | OpSetLast e => b_set_last b e
  | OpIssue t k s d => b_issue_esdt b t k s d
  | OpTransferESDT t v => b_transfer_esdt b t v | OpTransferESDTNFT t n v => b_transfer_esdt_nft b t n v
  | OpBurnESDT t v => b_burn_esdt b t v
  | OpCan w v =>
    match w with
    | 0 => b_can_freeze b v | 1 => b_can_wipe b v | 2 => b_can_pause b v | 3 => b_can_mint b v
    | 4 => b_can_burn b v | 5 => b_can_transfer_nft_create_role b v | _ => b_can_add_special_roles b v
    end%N
  end.
Definition run_bops (ops : list bop) : builder := fold_left run_bop ops new_builder.
