(* parsers/esdtTransferParser.go — executable model of the current code (with the count guard and
   the nil-Value check). The parser decides "transaction at sender" by bytes.Equal(sndAddr, rcvAddr);
   it uses no shard coordinator. The marshaller's Unmarshal into an esdt.ESDigitalToken is the
   parameter [dec_token] (None = Unmarshal returned an error).
   Go conversions: uint64(len(args)) is [glen args] (a Go slice is shorter than 2^63); the uint64
   arithmetic on the transfer count and on indices wraps explicitly ([u64]).
   make([]*ESDTTransfer, n): the model treats an allocation longer than the argument list as a
   panic (Go panics above 2^45 elements and may exhaust memory below that), so the no-panic theorem
   also bounds the allocation by the size of the input. *)
From EV Require Import Base.Bytes Base.Monad gen.Consts Codec.Types Parsers.Tokenize.

Record esdt_transfer := {
  et_value : Z;          (* ESDTValue *)
  et_token : bytes;      (* ESDTTokenName *)
  et_type : N;           (* ESDTTokenType *)
  et_nonce : N }.        (* ESDTTokenNonce *)

Record parsed_transfers := {
  pt_transfers : list esdt_transfer;
  pt_rcv : bytes;
  pt_call_args : list bytes;
  pt_call_function : bytes }.

(* big.NewInt(0).SetBytes(b) / .Uint64() (low 64 bits) *)
Definition set_bytes (b : bytes) : Z := Z.of_N (be_to_N b).
Definition set_bytes_u64 (b : bytes) : N := u64 (be_to_N b).

Definition go_make_transfers (args : list bytes) (n : N) : pres unit :=
  if (n <=? glen args)%N then Ok tt else Panic.

(* func (e *esdtTransferParser) parseSingleESDTTransfer(rcvAddr []byte, args [][]byte) *)
Definition parse_single_esdt_transfer (rcv : bytes) (args : list bytes) : pres parsed_transfers :=
  if (glen args <? C.parsers_MinArgsForESDTTransfer)%N then Err ErrNotEnoughArguments else
  fn <-! (if (C.parsers_MinArgsForESDTTransfer <? glen args)%N
          then gidx args C.parsers_MinArgsForESDTTransfer else Ok []) ;;
  call_args <-! (if (C.parsers_MinArgsForESDTTransfer + 1 <? glen args)%N
                 then gslice_from args (C.parsers_MinArgsForESDTTransfer + 1) else Ok []) ;;
  a1 <-! gidx args 1 ;;
  a0 <-! gidx args 0 ;;
  Ok {| pt_transfers := [ {| et_value := set_bytes a1; et_token := a0; et_type := u32 C.Fungible; et_nonce := 0 |} ];
        pt_rcv := rcv; pt_call_args := call_args; pt_call_function := fn |}.

(* func (e *esdtTransferParser) parseSingleESDTNFTTransfer(sndAddr, rcvAddr []byte, args [][]byte) *)
Definition parse_single_esdt_nft_transfer (snd rcv : bytes) (args : list bytes) : pres parsed_transfers :=
  if (glen args <? C.parsers_MinArgsForESDTNFTTransfer)%N then Err ErrNotEnoughArguments else
  rcv' <-! (if beqb snd rcv then gidx args 3 else Ok rcv) ;;
  fn <-! (if (C.parsers_MinArgsForESDTNFTTransfer <? glen args)%N
          then gidx args C.parsers_MinArgsForESDTNFTTransfer else Ok []) ;;
  call_args <-! (if (C.parsers_MinArgsForESDTNFTTransfer + 1 <? glen args)%N
                 then gslice_from args (C.parsers_MinArgsForESDTNFTTransfer + 1) else Ok []) ;;
  a2 <-! gidx args 2 ;;
  a0 <-! gidx args 0 ;;
  a1 <-! gidx args 1 ;;
  Ok {| pt_transfers := [ {| et_value := set_bytes a2; et_token := a0; et_type := u32 C.NonFungible;
                             et_nonce := set_bytes_u64 a1 |} ];
        pt_rcv := rcv'; pt_call_args := call_args; pt_call_function := fn |}.

Section WithMarshaller.
  Variable dec_token : bytes -> option token.

  (* func (e *esdtTransferParser) createNewESDTTransfer(tokenStartIndex uint64, args [][]byte, isTxAtSender bool) *)
  Definition create_new_esdt_transfer (tsi : N) (args : list bytes) (is_tx_at_sender : bool) : pres esdt_transfer :=
    a2 <-! gidx args (u64 (tsi + 2)) ;;
    a0 <-! gidx args tsi ;;
    a1 <-! gidx args (u64 (tsi + 1)) ;;
    let nonce := set_bytes_u64 a1 in
    if (0 <? nonce)%N then
      if negb is_tx_at_sender then
        payload <-! gidx args (u64 (tsi + 2)) ;;
        match dec_token payload with
        | None => Err ErrUnmarshal
        | Some t =>
          match t_value t with
          | None => Err ErrNotEnoughArguments
          | Some v => Ok {| et_value := v; et_token := a0; et_type := u32 C.NonFungible; et_nonce := nonce |}
          end
        end
      else Ok {| et_value := set_bytes a2; et_token := a0; et_type := u32 C.NonFungible; et_nonce := nonce |}
    else Ok {| et_value := set_bytes a2; et_token := a0; et_type := u32 C.Fungible; et_nonce := nonce |}.

  (* for i := uint64(0); i < numOfTransfer.Uint64(); i++ {
       tokenStartIndex := startIndex + i*ArgsPerTransfer
       esdtTransfers.ESDTTransfers[i], err = e.createNewESDTTransfer(...) }
     [acc] is the filled prefix ESDTTransfers[0..i) of the slice of length num (i < num at the store) *)
  Fixpoint multi_loop (fuel : nat) (num start_index : N) (args : list bytes) (at_sender : bool)
           (i : N) (acc : list esdt_transfer) : pres (list esdt_transfer) :=
    match fuel with
    | O => Panic
    | S f =>
      if (i <? num)%N then
        let tsi := u64 (start_index + u64 (i * C.parsers_ArgsPerTransfer)) in
        t <-! create_new_esdt_transfer tsi args at_sender ;;
        multi_loop f num start_index args at_sender (u64 (i + 1)) (acc ++ [t])
      else Ok acc
    end.

  (* func (e *esdtTransferParser) parseMultiESDTNFTTransfer(sndAddr, rcvAddr []byte, args [][]byte) *)
  Definition parse_multi_esdt_nft_transfer (snd rcv : bytes) (args : list bytes) : pres parsed_transfers :=
    if (glen args <? C.parsers_MinArgsForMultiESDTNFTTransfer)%N then Err ErrNotEnoughArguments else
    a0 <-! gidx args 0 ;;
    side <-!
        (if beqb snd rcv then
           r <-! gidx args 0 ;;
           a1 <-! gidx args 1 ;;
           Ok (r, be_to_N a1, 2%N, true)
         else Ok (rcv, be_to_N a0, 1%N, false)) ;;
    let '(rcv', num, start_index, at_sender) := side in
    (* !numOfTransfer.IsUint64() || numOfTransfer.Uint64() > uint64(len(args))/ArgsPerTransfer *)
    if negb (num <? two64)%N || (glen args / C.parsers_ArgsPerTransfer <? u64 num)%N then Err ErrNotEnoughArguments else
    let min_len_args := u64 (u64 (C.parsers_ArgsPerTransfer * u64 num) + start_index) in
    if (glen args <? min_len_args)%N then Err ErrNotEnoughArguments else
    fn <-! (if (min_len_args <? glen args)%N then gidx args min_len_args else Ok []) ;;
    call_args <-! (if (u64 (min_len_args + 1) <? glen args)%N
                   then gslice_from args (u64 (min_len_args + 1)) else Ok []) ;;
    _ <-! go_make_transfers args (u64 num) ;;
    transfers <-! multi_loop (S (length args)) (u64 num) start_index args at_sender 0 [] ;;
    Ok {| pt_transfers := transfers; pt_rcv := rcv'; pt_call_args := call_args; pt_call_function := fn |}.

  (* func (e *esdtTransferParser) ParseESDTTransfers(sndAddr, rcvAddr []byte, function string, args [][]byte) *)
  Definition parse_esdt_transfers (snd rcv function : bytes) (args : list bytes) : pres parsed_transfers :=
    if beqb function C.BuiltInFunctionESDTTransfer then parse_single_esdt_transfer rcv args
    else if beqb function C.BuiltInFunctionESDTNFTTransfer then parse_single_esdt_nft_transfer snd rcv args
    else if beqb function C.BuiltInFunctionMultiESDTNFTTransfer then parse_multi_esdt_nft_transfer snd rcv args
    else Err ErrNotESDTTransferInput.
End WithMarshaller.
