(* parsers/storageUpdatesParser.go — executable model. A *vmcommon.StorageUpdate is a pair
   (Offset, Data); the builder is modelled on lists without nil elements (Go dereferences every
   element, a nil element of the input of CreateDataFromStorageUpdate is a caller error). *)
From EV Require Import Base.Bytes Base.Monad gen.Consts Parsers.Tokenize.

Definition storage_update := (bytes * bytes)%type.

(* for i := 0; i < len(tokens); i += 2 { tokens[i] ... tokens[i+1] ... append } *)
Fixpoint su_loop (fuel : nat) (tokens : list bytes) (i : N) (acc : list storage_update)
  : pres (list storage_update) :=
  match fuel with
  | O => Panic
  | S f =>
    if (i <? glen tokens)%N then
      t <-! gidx tokens i ;;
      offset <-! decode_token t ;;
      t' <-! gidx tokens (i + 1) ;;
      value <-! decode_token t' ;;
      su_loop f tokens (i + 2) (acc ++ [(offset, value)])
    else Ok acc
  end.

(* func (parser *storageUpdatesParser) GetStorageUpdates(data string) ([]*vmcommon.StorageUpdate, error)
   (make([]*StorageUpdate, 0, len(tokens)) allocates the length of an existing slice) *)
Definition get_storage_updates_r (data : bytes) : pres (list storage_update) :=
  data <-! trim_leading_separator_char data ;;
  tokens <-! tokenize_r data ;;
  _ <-! require_num_tokens_is_even tokens ;;
  su_loop (S (length tokens)) tokens 0 [].
Definition get_storage_updates (data : bytes) : option (list storage_update) := res_opt (get_storage_updates_r data).

(* func (parser *storageUpdatesParser) CreateDataFromStorageUpdate(storageUpdates) string
   (i < len(storageUpdates)-1 ⇔ there is a next element) *)
Fixpoint create_data_loop (l : list storage_update) (data : bytes) : bytes :=
  match l with
  | [] => data
  | (offset, value) :: r =>
    let data := data ++ hex_enc offset in
    let data := data ++ C.parsers_atSeparator in
    let data := data ++ hex_enc value in
    let data := match r with [] => data | _ => data ++ C.parsers_atSeparator end in
    create_data_loop r data
  end.
Definition create_data_from_storage_update (l : list storage_update) : bytes := create_data_loop l [].
