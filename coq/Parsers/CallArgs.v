(* parsers/callArgsParser.go — executable model. *)
From EV Require Import Base.Bytes Base.Monad gen.Consts Parsers.Tokenize.

(* func (parser *callArgsParser) parseFunction(tokens []string) (string, error) *)
Definition parse_function (tokens : list bytes) : pres bytes :=
  if (glen tokens <? C.parsers_minNumCallArguments)%N then Err ErrNilFunction else
  gidx tokens C.parsers_indexOfFunction.

(* func (parser *callArgsParser) parseArguments(tokens []string) ([][]byte, error) *)
Definition call_parse_arguments (tokens : list bytes) : pres (list bytes) :=
  parse_arguments_from C.parsers_minNumCallArguments tokens.

(* func (parser *callArgsParser) ParseData(data string) (string, [][]byte, error) *)
Definition parse_call_data_r (data : bytes) : pres (bytes * list bytes) :=
  tokens <-! tokenize_r data ;;
  function <-! parse_function tokens ;;
  arguments <-! call_parse_arguments tokens ;;
  Ok (function, arguments).

(* exported view: (function name, decoded arguments); None = error *)
Definition parse_call_data (data : bytes) : option (bytes * list bytes) := res_opt (parse_call_data_r data).
