(* Property C01, extension file: the LIVENESS half for ESDTNFTTransfer and MultiESDTNFTTransfer
   ("... the emitted cross-shard message, which the destination shard accepts and credits when it is delivered (unless the
   destination is frozen, the token paused or the account not payable, in which case a return-after-error refund restores
   the sender)").  Properties/C01.v has the safety half for all three functions and the liveness half for ESDTTransfer.
   Only statements, each closed by [exact] of a lemma of LedgerProofs/Live_*.v, the vocabulary spelled out, non-vacuity
   examples and their assumptions.

   Reading guide (world model, [WInv], [msg_ok], [wbal], [total]: see the header of Properties/C01.v).
   * Destination-side execution of a message = [exec (env_at c sh) (m_fn m) (deliver_input c m sh gas)] on the shard of
     [m_dest m] (caller absent, recipient present, rae = false); refund = [refund_input] on the shard of [m_sender m]
     (recipient = the debited account, call type AsynchronousCallBack, rae = true: payability, frozen and paused are NOT
     looked at).  Both run the destination side of the same-named function (the message's caller and debited account live
     off the destination shard: [msg_ok], part of WInv).
   * STATIC conditions (facts about the message; proved of every message the sender side emits: C01_emitted_nft_wf,
     C01_emitted_multi_wf): [nft_msg c m t] / [multi_msg c m].
   * DYNAMIC conditions (facts about the destination shard at delivery time; exactly the reasons the property text lists,
     plus the two the ledger also checks): recipient payable when payability is checked; [nft_entry_ok]: the entry stored
     under the cell that will be written is absent or decodes with a value and, if it carries metadata, the incoming entry
     carries metadata with the SAME HASH (ErrWrongNFTOnDestination otherwise); [nft_flags_ok]: that entry not frozen, the
     incoming Properties not frozen, token key and full key not paused (not required of the system-contract address).
     For the multi transfer the conditions are per triple ([triple_ready]) and about the state AFTER the previous triples
     ([dest_ready], defined through the proved one-step post-condition [one_dst_post]); for pairwise distinct written cells
     the conditions on the PRE-state suffice (C01_dest_ready_distinct; needs recipient <> system ACCOUNT when flags matter,
     because the pause flags live in that account's storage).
   * A count that the destination can allocate (2^40) is part of [multi_msg]: Coq lists are unbounded.
   * Hypothesis F4b ([lookup_consistent] / [triples_consistent]) appears only where a statement relates the message to the
     cell the sender was debited in (the *_restores theorems), as in Properties/C01.v.
   * Observation recorded in C01_emitted_multi_refundable ([fungible_typed]): the multi transfer's SENDER side does not
     check the entry type of a nonce-0 triple, the refund's add_to_esdt_balance does; an entry stored under "P ++ token"
     with a non-fungible type could be sent but not refunded.  No built-in function creates such an entry. *)
From Coq.Strings Require Import String.
From EV Require Import Base.Bytes Base.Store Base.Monad gen.Consts Codec.Types Codec.Proto Codec.Ideal Codec.CodecOk
  Helpers.Helpers Ledger.Types Ledger.Env Ledger.Funcs Ledger.Transfers Ledger.World
  LedgerProofs.Defs LedgerProofs.EnvSpec LedgerProofs.WorldDefs LedgerProofs.WorldSpec
  LedgerProofs.Spec_Transfers_Base LedgerProofs.Spec_Transfers_Esdt LedgerProofs.Spec_Transfers_Nft
  LedgerProofs.Spec_Transfers_Multi LedgerProofs.Spec_Transfers
  LedgerProofs.C01_World LedgerProofs.C01_Step LedgerProofs.C01_Exact LedgerProofs.C01_Check LedgerProofs.C01_Live
  LedgerProofs.C01_Examples LedgerProofs.C10_Emit LedgerProofs.C10_Parser LedgerProofs.C10_Accept
  LedgerProofs.Live_World LedgerProofs.Live_Nft LedgerProofs.Live_Multi LedgerProofs.Live_MultiRefund
  LedgerProofs.Live_Examples.

(* ================================================================ *)
(* 0. the vocabulary, spelled out                                      *)
(* ================================================================ *)
Example C01_liveness_nft_vocabulary_unfolded : forall (c : wcfg) (E : env) (s : mstate) (a k key : bytes) (t : token) (m : msg),
  (nft_entry_ok E s a k t <->
     cell s a k = []
     \/ exists cur, tok_at E s a k = Some cur /\ t_value cur <> None
          /\ forall cm, t_meta cur = Some cm -> exists md, t_meta t = Some md /\ md_hash cm = md_hash md)
  /\ (nft_flags_ok E s a key t <->
     frozen_at E s a (nft_key key (tok_nonce t)) = false /\ frozen_props (t_props t) = false
     /\ paused_at s key = false /\ paused_at s (nft_key key (tok_nonce t)) = false)
  /\ (nft_msg c m t <->
     m_fn m = C.BuiltInFunctionESDTNFTTransfer /\ (4 <= alen (m_args m))%N
     /\ dec_tok (wc_cdc c) (nth 3 (m_args m) []) = Some t /\ t_value t <> None /\ t_meta t <> None)
  /\ nmsg_tok m = nth 0 (m_args m) [] /\ nmsg_key m t = nft_key (P ++ nth 0 (m_args m) []) (tok_nonce t).
Proof. intros. split; [reflexivity|]. split; [reflexivity|]. split; [reflexivity|]. split; reflexivity. Qed.

Example C01_liveness_multi_vocabulary_unfolded :
  forall (c : wcfg) (E : env) (s : mstate) (rcpt : bytes) (verify rae : bool) (x : rawtriple) (r : list rawtriple) (m : msg) trs caller,
  (triple_ready E rcpt verify rae x s <->
     (verify = true -> payable E rcpt = PayYes)
     /\ if (0 <? rt_nonce x)%N then
          exists t, dec_tok (cdc E) (rt_third x) = Some t /\ t_value t <> None
            /\ nft_entry_ok E s rcpt (nft_key (P ++ rt_tok x) (tok_nonce t)) t
            /\ (rae = false -> rcpt <> SC -> nft_flags_ok E s rcpt (P ++ rt_tok x) t)
        else
          fungible_or_absent E s rcpt (P ++ rt_tok x)
          /\ (rae = false -> rcpt <> SC -> frozen_at E s rcpt (P ++ rt_tok x) = false /\ paused_at s (P ++ rt_tok x) = false)
          /\ (0 <= balance E s rcpt (P ++ rt_tok x) + rt_qty x)%Z)
  /\ (dest_ready E rcpt verify rae [] s <-> True)
  /\ (dest_ready E rcpt verify rae (x :: r) s <->
     triple_ready E rcpt verify rae x s
     /\ forall s0 s1, accts s0 = accts s -> one_dst_post E rcpt verify rae x s0 s1 -> dest_ready E rcpt verify rae r s1)
  /\ dest_cell E x = (if (0 <? rt_nonce x)%N then
                        match dec_tok (cdc E) (rt_third x) with
                        | Some t => nft_key (P ++ rt_tok x) (tok_nonce t)
                        | None => P ++ rt_tok x
                        end
                      else P ++ rt_tok x)
  /\ (multi_msg c m <->
     m_fn m = C.BuiltInFunctionMultiESDTNFTTransfer /\ (mmsg_n c m <= 1099511627776)%N
     /\ multi_dest_guards (env_at c (wc_shard_of c (m_dest m))) (mmsg_input c m))
  /\ mmsg_input c m = deliver_input c m (wc_shard_of c (m_dest m)) 0
  /\ mmsg_n c m = bigU64 (nth 0 (m_args m) [])
  /\ mmsg_triples c m = multi_triples (N.to_nat (bigU64 (nth 0 (m_args m) []))) (mmsg_input c m) 1 0
  /\ (fungible_typed E s caller trs <->
      forall x t, In x trs -> rt_nonce x = 0%N -> tok_at E s caller (rt_cell x) = Some t -> t_type t = C.Fungible).
Proof.
  intros. split; [reflexivity|]. split; [reflexivity|]. split; [reflexivity|]. split; [reflexivity|].
  split; [reflexivity|]. split; [reflexivity|]. split; [reflexivity|]. split; reflexivity.
Qed.
(* C10's destination guards of the multi transfer: the delivered shape, the count / length guards, every announced triple
   present, every NFT payload decodable with a value *)
Example C01_multi_dest_guards_unfolded : forall (E' : env) (i' : input),
  multi_dest_guards E' i' <->
    (i_value i' = 0%Z /\ i_snd i' = false /\ i_dst i' = true /\ i_caller i' <> i_rcpt i')
    /\ (4 <= alen (i_args i'))%N
    /\ multi_n_dst i' <> 0%N /\ (multi_n_dst i' <= alen (i_args i') / 3)%N
    /\ (multi_min 1 (multi_n_dst i') <= alen (i_args i'))%N
    /\ (1 + multi_n_dst i' * 3 <= alen (i_args i'))%N
    /\ Forall (fun x => (0 < rt_nonce x)%N -> exists t, dec_tok (cdc E') (rt_third x) = Some t /\ t_value t <> None)
         (multi_dst_triples i').
Proof. intros. reflexivity. Qed.

(* ================================================================ *)
(* 1. the destination side succeeds (function level)                   *)
(* ================================================================ *)
(* ESDTNFTTransfer, destination side: succeeds, with exactly the output nft_dest_out, unless: not payable (when checked),
   an entry of another hash / without value / undecodable under the cell, frozen, paused, or a fault *)
Theorem C01_nft_dest_succeeds : forall (E : env), codec_ok (cdc E) -> no_faults E -> forall i s t v m,
  i_value i = 0%Z -> (4 <= alen (i_args i))%N -> i_snd i = false -> i_dst i = true -> i_caller i <> i_rcpt i ->
  dec_tok (cdc E) (argn i 3) = Some t -> t_value t = Some v -> t_meta t = Some m ->
  (must_verify_payable i 4 = true -> payable E (i_rcpt i) = PayYes) ->
  nft_entry_ok E s (i_rcpt i) (nft_full i t) t ->
  (i_rae i = false -> i_rcpt i <> SC -> nft_flags_ok E s (i_rcpt i) (nft_tkey i) t) ->
  exists s', f_nft_transfer E i s = (Ok (nft_dest_out i t), s').
Proof. exact nft_dest_succeeds. Qed.
(* MultiESDTNFTTransfer, destination side: the same for every triple in sequence *)
Theorem C01_multi_dest_succeeds : forall (E : env), codec_ok (cdc E) -> no_faults E -> forall i s,
  multi_dest_guards E i -> (multi_n_dst i <= 1099511627776)%N ->
  dest_ready E (i_rcpt i) (must_verify_payable i (multi_min 1 (multi_n_dst i))) (i_rae i) (multi_dst_triples i) s ->
  exists s', f_multi_transfer E i s = (Ok (multi_dest_out i), s').
Proof. exact multi_dest_succeeds. Qed.
(* pairwise distinct written cells: the conditions on the pre-state suffice *)
Theorem C01_dest_ready_distinct : forall (E : env) rcpt verify rae trs s,
  NoDup (map (dest_cell E) trs) -> (rae = false -> rcpt <> SC -> rcpt <> SYS) ->
  Forall (fun x => triple_ready E rcpt verify rae x s) trs -> dest_ready E rcpt verify rae trs s.
Proof. exact dest_ready_distinct. Qed.

(* ================================================================ *)
(* 2. what the sender side emits satisfies the static conditions       *)
(* ================================================================ *)
(* ESDTNFTTransfer: exactly one message; its payload is the sender's entry t0 with Value = the quantity (same metadata,
   same Properties: not frozen unless rae / system contract); what stays at the sender is compatible with a refund *)
Theorem C01_emitted_nft_wf : forall (c : wcfg), codec_ok (wc_cdc c) -> forall sh m0 i id o s' m,
  origin_call c sh i -> exec (env_at c sh) C.BuiltInFunctionESDTNFTTransfer i (mk_state m0) = (Ok o, s') ->
  In m (collect c sh C.BuiltInFunctionESDTNFTTransfer i id o) ->
  exists t0, tok_at (env_at c sh) (mk_state m0) (i_caller i) (nft_cell i) = Some t0
    /\ let t := set_value t0 (Some (nft_qty i)) in
       nft_msg c m t /\ collect c sh C.BuiltInFunctionESDTNFTTransfer i id o = [m]
       /\ m_id m = id /\ m_dest m = nft_dst i /\ m_sender m = i_caller i /\ m_caller m = i_caller i
       /\ nmsg_tok m = argn i 0 /\ nmsg_key m t = nft_full i t0 /\ val_or_0 t = nft_qty i
       /\ wc_shard_of c (m_dest m) <> sh
       /\ (i_rae i = false -> i_caller i <> SC -> frozen_props (t_props t) = false)
       /\ nft_entry_ok (env_at c sh) s' (i_caller i) (nmsg_key m t) t.
Proof. exact emitted_nft_wf. Qed.
(* MultiESDTNFTTransfer: exactly one message satisfying the guards and the count bound; its triples encode the travelling
   entries, which (F4b hypothesis) are the sender's entries with Value = the requested quantity; it credits the debits *)
Theorem C01_emitted_multi_wf : forall (c : wcfg), codec_ok (wc_cdc c) -> forall sh m0 i id o s' m,
  origin_call c sh i -> exec (env_at c sh) C.BuiltInFunctionMultiESDTNFTTransfer i (mk_state m0) = (Ok o, s') ->
  In m (collect c sh C.BuiltInFunctionMultiESDTNFTTransfer i id o) ->
  multi_msg c m /\ collect c sh C.BuiltInFunctionMultiESDTNFTTransfer i id o = [m]
  /\ m_id m = id /\ m_dest m = multi_dst i /\ m_sender m = i_caller i /\ m_caller m = i_caller i
  /\ wc_shard_of c (m_dest m) <> sh /\ mmsg_n c m = multi_n_snd i
  /\ exists lst, multi_snd_post (env_at c sh) i lst (mk_state m0) o s'
       /\ mmsg_triples c m = map (raw_of (env_at c sh)) lst
       /\ (triples_consistent (env_at c sh) (mk_state m0) (i_caller i) (multi_snd_triples i) ->
           credits c m = debit_list (multi_snd_triples i)
           /\ Forall2 (fun x y => fst y = rt_tok x
                         /\ exists t0, tok_at (env_at c sh) (mk_state m0) (i_caller i) (rt_cell x) = Some t0
                              /\ snd y = set_value t0 (Some (rt_qty x))
                              /\ (i_rae i = false -> i_caller i <> SC -> frozen_props (t_props t0) = false))
                (multi_snd_triples i) lst).
Proof. exact emitted_multi_wf. Qed.
(* ... and, for pairwise distinct cells, what stays at the sender is ready for the refund of every triple *)
Theorem C01_emitted_multi_refundable : forall (c : wcfg), codec_ok (wc_cdc c) -> forall sh m0 i id o s' m,
  let E := env_at c sh in
  origin_call c sh i -> exec E C.BuiltInFunctionMultiESDTNFTTransfer i (mk_state m0) = (Ok o, s') ->
  In m (collect c sh C.BuiltInFunctionMultiESDTNFTTransfer i id o) ->
  triples_consistent E (mk_state m0) (i_caller i) (multi_snd_triples i) ->
  NoDup (map rt_cell (multi_snd_triples i)) ->
  fungible_typed E (mk_state m0) (i_caller i) (multi_snd_triples i) ->
  Forall (fun y => triple_ready E (i_caller i) false true y s') (mmsg_triples c m)
  /\ map (dest_cell E) (mmsg_triples c m) = map rt_cell (multi_snd_triples i)
  /\ dest_ready E (i_caller i) false true (mmsg_triples c m) s'.
Proof. exact emitted_multi_refundable. Qed.

(* ================================================================ *)
(* 3. one world step, for any of the three functions                   *)
(* ================================================================ *)
(* an accepted delivery consumes the message, emits nothing, and moves every balance of the world by exactly what the
   message credits to its destination *)
Theorem C01_deliver_commits : forall (c : wcfg), codec_ok (wc_cdc c) -> forall w id gas m o s',
  let sh := wc_shard_of c (m_dest m) in
  WInv c w -> find_msg (inflight w) id = Some m -> (sh <? wc_nshards c)%N = true ->
  exec (env_at c sh) (m_fn m) (deliver_input c m sh gas) (mk_state (shard_accts w sh)) = (Ok o, s') ->
  let w' := wstep c w (ODeliver id gas) in
  inflight w' = drop_msg (inflight w) id /\ failed w' = failed w /\ next_id w' = next_id w
  /\ forall a k, wbal c w' a k = (wbal c w a k + (if beqb a (m_dest m) then qty c k m else 0))%Z.
Proof. exact deliver_commits. Qed.
(* a rejected delivery changes nothing but the mark; if the refund execution succeeds, the refund step consumes message
   and mark and moves every balance by exactly the message's credits, at the debited account; totals unchanged *)
Theorem C01_rejected_then_refund : forall (c : wcfg), codec_ok (wc_cdc c) -> forall w id gas gas' m,
  let shd := wc_shard_of c (m_dest m) in
  let shs := wc_shard_of c (m_sender m) in
  WInv c w -> find_msg (inflight w) id = Some m ->
  (shd <? wc_nshards c)%N = true -> (shs <? wc_nshards c)%N = true ->
  (forall o s', exec (env_at c shd) (m_fn m) (deliver_input c m shd gas) (mk_state (shard_accts w shd)) <> (Ok o, s')) ->
  (exists o s', exec (env_at c shs) (m_fn m) (refund_input c m shs gas') (mk_state (shard_accts w shs)) = (Ok o, s')) ->
  let w1 := wstep c w (ODeliver id gas) in
  let w2 := wstep c w1 (ORefund id gas') in
  shards w1 = shards w /\ inflight w1 = inflight w /\ nat_in id (failed w1) = true
  /\ inflight w2 = drop_msg (inflight w) id /\ nat_in id (failed w2) = false
  /\ (forall a k, wbal c w2 a k = (wbal c w a k + (if beqb a (m_sender m) then qty c k m else 0))%Z)
  /\ forall k, total c k w2 = total c k w.
Proof. exact rejected_then_refund. Qed.

(* ================================================================ *)
(* 4. ESDTNFTTransfer at the world level                               *)
(* ================================================================ *)
(* delivery in ANY later world whose destination shard satisfies the dynamic conditions: the step commits, the message
   is consumed, the destination's cell gains exactly the payload's value, nothing else moves *)
Theorem C01_deliver_accepted_nft : forall (c : wcfg), codec_ok (wc_cdc c) -> forall w id gas m t,
  let sh := wc_shard_of c (m_dest m) in
  let s := mk_state (shard_accts w sh) in
  WInv c w -> find_msg (inflight w) id = Some m -> nft_msg c m t -> (sh <? wc_nshards c)%N = true ->
  (must_verify_payable (deliver_input c m sh gas) 4 = true -> wc_payable c (m_dest m) = PayYes) ->
  nft_entry_ok (env_at c sh) s (m_dest m) (nmsg_key m t) t ->
  (m_dest m <> SC -> nft_flags_ok (env_at c sh) s (m_dest m) (P ++ nmsg_tok m) t) ->
  let w' := wstep c w (ODeliver id gas) in
  inflight w' = drop_msg (inflight w) id /\ failed w' = failed w
  /\ wbal c w' (m_dest m) (nmsg_key m t) = (wbal c w (m_dest m) (nmsg_key m t) + val_or_0 t)%Z
  /\ forall a k, a <> m_dest m \/ k <> nmsg_key m t -> wbal c w' a k = wbal c w a k.
Proof. exact deliver_accepted_nft. Qed.
(* the refund execution succeeds whatever is frozen / paused / not payable *)
Theorem C01_refund_succeeds_nft : forall (c : wcfg), codec_ok (wc_cdc c) -> forall m0 m gas t,
  let sh := wc_shard_of c (m_sender m) in
  nft_msg c m t -> msg_ok c m ->
  nft_entry_ok (env_at c sh) (mk_state m0) (m_sender m) (nmsg_key m t) t ->
  exists o s', exec (env_at c sh) (m_fn m) (refund_input c m sh gas) (mk_state m0) = (Ok o, s').
Proof. exact refund_succeeds_nft. Qed.
(* rejected delivery (whatever the reason), then the refund *)
Theorem C01_rejected_then_refund_nft : forall (c : wcfg), codec_ok (wc_cdc c) -> forall w id gas gas' m t,
  let shd := wc_shard_of c (m_dest m) in
  let shs := wc_shard_of c (m_sender m) in
  WInv c w -> find_msg (inflight w) id = Some m -> nft_msg c m t ->
  (shd <? wc_nshards c)%N = true -> (shs <? wc_nshards c)%N = true ->
  (forall o s', exec (env_at c shd) (m_fn m) (deliver_input c m shd gas) (mk_state (shard_accts w shd)) <> (Ok o, s')) ->
  nft_entry_ok (env_at c shs) (mk_state (shard_accts w shs)) (m_sender m) (nmsg_key m t) t ->
  let w1 := wstep c w (ODeliver id gas) in
  let w2 := wstep c w1 (ORefund id gas') in
  shards w1 = shards w /\ inflight w1 = inflight w /\ nat_in id (failed w1) = true
  /\ inflight w2 = drop_msg (inflight w) id /\ nat_in id (failed w2) = false
  /\ wbal c w2 (m_sender m) (nmsg_key m t) = (wbal c w (m_sender m) (nmsg_key m t) + val_or_0 t)%Z
  /\ (forall a k, a <> m_sender m \/ k <> nmsg_key m t -> wbal c w2 a k = wbal c w a k)
  /\ forall k, total c k w2 = total c k w.
Proof. exact rejected_then_refund_nft. Qed.
(* composition with the sender side: the transfer, then any later world in which the sender's holding of the cell is what
   the transfer left and its entry is still compatible (it may have been frozen meanwhile), a rejected delivery, the
   refund: the sender holds what it held BEFORE the transfer *)
Theorem C01_nft_rejected_refund_restores : forall (c : wcfg), codec_ok (wc_cdc c) ->
  forall sh m0 i id0 o s1 m w id gas gas',
  let E := env_at c sh in
  let s := mk_state (shard_accts w sh) in
  origin_call c sh i -> lookup_consistent E (mk_state m0) (i_caller i) (nft_tkey i) (nft_nonce i) ->
  exec E C.BuiltInFunctionESDTNFTTransfer i (mk_state m0) = (Ok o, s1) ->
  In m (collect c sh C.BuiltInFunctionESDTNFTTransfer i id0 o) ->
  WInv c w -> find_msg (inflight w) id = Some m ->
  (wc_shard_of c (m_dest m) <? wc_nshards c)%N = true -> (sh <? wc_nshards c)%N = true ->
  balance E s (i_caller i) (nft_cell i) = balance E s1 (i_caller i) (nft_cell i) ->
  (forall t0, tok_at E (mk_state m0) (i_caller i) (nft_cell i) = Some t0 -> nft_entry_ok E s (i_caller i) (nft_cell i) t0) ->
  (forall o' s', exec (env_at c (wc_shard_of c (m_dest m))) (m_fn m) (deliver_input c m (wc_shard_of c (m_dest m)) gas)
                   (mk_state (shard_accts w (wc_shard_of c (m_dest m)))) <> (Ok o', s')) ->
  let w2 := wstep c (wstep c w (ODeliver id gas)) (ORefund id gas') in
  inflight w2 = drop_msg (inflight w) id /\ nat_in id (failed w2) = false
  /\ wbal c w2 (i_caller i) (nft_cell i) = balance E (mk_state m0) (i_caller i) (nft_cell i)
  /\ forall k, total c k w2 = total c k w.
Proof. exact nft_rejected_refund_restores. Qed.
(* the case "nothing touched that cell in between": no condition on the refund-time entry is left *)
Theorem C01_nft_rejected_refund_restores_untouched : forall (c : wcfg), codec_ok (wc_cdc c) ->
  forall sh m0 i id0 o s1 m w id gas gas',
  let E := env_at c sh in
  origin_call c sh i -> lookup_consistent E (mk_state m0) (i_caller i) (nft_tkey i) (nft_nonce i) ->
  exec E C.BuiltInFunctionESDTNFTTransfer i (mk_state m0) = (Ok o, s1) ->
  In m (collect c sh C.BuiltInFunctionESDTNFTTransfer i id0 o) ->
  WInv c w -> find_msg (inflight w) id = Some m ->
  (wc_shard_of c (m_dest m) <? wc_nshards c)%N = true -> (sh <? wc_nshards c)%N = true ->
  cell (mk_state (shard_accts w sh)) (i_caller i) (nft_cell i) = cell s1 (i_caller i) (nft_cell i) ->
  (forall o' s', exec (env_at c (wc_shard_of c (m_dest m))) (m_fn m) (deliver_input c m (wc_shard_of c (m_dest m)) gas)
                   (mk_state (shard_accts w (wc_shard_of c (m_dest m)))) <> (Ok o', s')) ->
  let w2 := wstep c (wstep c w (ODeliver id gas)) (ORefund id gas') in
  inflight w2 = drop_msg (inflight w) id /\ nat_in id (failed w2) = false
  /\ wbal c w2 (i_caller i) (nft_cell i) = balance E (mk_state m0) (i_caller i) (nft_cell i)
  /\ forall k, total c k w2 = total c k w.
Proof. exact nft_rejected_refund_restores_untouched. Qed.

(* ================================================================ *)
(* 5. MultiESDTNFTTransfer at the world level                          *)
(* ================================================================ *)
Theorem C01_deliver_accepted_multi : forall (c : wcfg), codec_ok (wc_cdc c) -> forall w id gas m,
  let sh := wc_shard_of c (m_dest m) in
  let s := mk_state (shard_accts w sh) in
  let i := deliver_input c m sh gas in
  WInv c w -> find_msg (inflight w) id = Some m -> multi_msg c m -> (sh <? wc_nshards c)%N = true ->
  dest_ready (env_at c sh) (m_dest m) (must_verify_payable i (multi_min 1 (mmsg_n c m))) false (mmsg_triples c m) s ->
  let w' := wstep c w (ODeliver id gas) in
  inflight w' = drop_msg (inflight w) id /\ failed w' = failed w
  /\ forall a k, wbal c w' a k = (wbal c w a k + (if beqb a (m_dest m) then qty c k m else 0))%Z.
Proof. exact deliver_accepted_multi. Qed.
Theorem C01_refund_succeeds_multi : forall (c : wcfg), codec_ok (wc_cdc c) -> forall m0 m gas,
  let sh := wc_shard_of c (m_sender m) in
  multi_msg c m -> msg_ok c m ->
  dest_ready (env_at c sh) (m_sender m) false true (mmsg_triples c m) (mk_state m0) ->
  exists o s', exec (env_at c sh) (m_fn m) (refund_input c m sh gas) (mk_state m0) = (Ok o, s').
Proof. exact refund_succeeds_multi. Qed.
Theorem C01_rejected_then_refund_multi : forall (c : wcfg), codec_ok (wc_cdc c) -> forall w id gas gas' m,
  let shd := wc_shard_of c (m_dest m) in
  let shs := wc_shard_of c (m_sender m) in
  WInv c w -> find_msg (inflight w) id = Some m -> multi_msg c m ->
  (shd <? wc_nshards c)%N = true -> (shs <? wc_nshards c)%N = true ->
  (forall o s', exec (env_at c shd) (m_fn m) (deliver_input c m shd gas) (mk_state (shard_accts w shd)) <> (Ok o, s')) ->
  dest_ready (env_at c shs) (m_sender m) false true (mmsg_triples c m) (mk_state (shard_accts w shs)) ->
  let w1 := wstep c w (ODeliver id gas) in
  let w2 := wstep c w1 (ORefund id gas') in
  shards w1 = shards w /\ inflight w1 = inflight w /\ nat_in id (failed w1) = true
  /\ inflight w2 = drop_msg (inflight w) id /\ nat_in id (failed w2) = false
  /\ (forall a k, wbal c w2 a k = (wbal c w a k + (if beqb a (m_sender m) then qty c k m else 0))%Z)
  /\ forall k, total c k w2 = total c k w.
Proof. exact rejected_then_refund_multi. Qed.
(* composition with the sender side; the refund-time readiness is the stated condition, every cell of the sender whose
   holding is what the transfer left is back to its holding before the transfer *)
Theorem C01_multi_rejected_refund_restores : forall (c : wcfg), codec_ok (wc_cdc c) ->
  forall sh m0 i id0 o s1 m w id gas gas',
  let E := env_at c sh in
  let s := mk_state (shard_accts w sh) in
  origin_call c sh i -> triples_consistent E (mk_state m0) (i_caller i) (multi_snd_triples i) ->
  exec E C.BuiltInFunctionMultiESDTNFTTransfer i (mk_state m0) = (Ok o, s1) ->
  In m (collect c sh C.BuiltInFunctionMultiESDTNFTTransfer i id0 o) ->
  WInv c w -> find_msg (inflight w) id = Some m ->
  (wc_shard_of c (m_dest m) <? wc_nshards c)%N = true -> (sh <? wc_nshards c)%N = true ->
  dest_ready E (i_caller i) false true (mmsg_triples c m) s ->
  (forall o' s', exec (env_at c (wc_shard_of c (m_dest m))) (m_fn m) (deliver_input c m (wc_shard_of c (m_dest m)) gas)
                   (mk_state (shard_accts w (wc_shard_of c (m_dest m)))) <> (Ok o', s')) ->
  let w2 := wstep c (wstep c w (ODeliver id gas)) (ORefund id gas') in
  inflight w2 = drop_msg (inflight w) id /\ nat_in id (failed w2) = false
  /\ (forall k, balance E s (i_caller i) k = balance E s1 (i_caller i) k ->
                wbal c w2 (i_caller i) k = balance E (mk_state m0) (i_caller i) k)
  /\ forall k, total c k w2 = total c k w.
Proof. exact multi_rejected_refund_restores. Qed.
(* pairwise distinct cells, nothing touched them in between: no condition on the refund-time state is left *)
Theorem C01_multi_rejected_refund_restores_untouched : forall (c : wcfg), codec_ok (wc_cdc c) ->
  forall sh m0 i id0 o s1 m w id gas gas',
  let E := env_at c sh in
  let s := mk_state (shard_accts w sh) in
  origin_call c sh i -> triples_consistent E (mk_state m0) (i_caller i) (multi_snd_triples i) ->
  NoDup (map rt_cell (multi_snd_triples i)) -> fungible_typed E (mk_state m0) (i_caller i) (multi_snd_triples i) ->
  exec E C.BuiltInFunctionMultiESDTNFTTransfer i (mk_state m0) = (Ok o, s1) ->
  In m (collect c sh C.BuiltInFunctionMultiESDTNFTTransfer i id0 o) ->
  WInv c w -> find_msg (inflight w) id = Some m ->
  (wc_shard_of c (m_dest m) <? wc_nshards c)%N = true -> (sh <? wc_nshards c)%N = true ->
  (forall x, In x (multi_snd_triples i) -> cell s (i_caller i) (rt_cell x) = cell s1 (i_caller i) (rt_cell x)) ->
  (forall o' s', exec (env_at c (wc_shard_of c (m_dest m))) (m_fn m) (deliver_input c m (wc_shard_of c (m_dest m)) gas)
                   (mk_state (shard_accts w (wc_shard_of c (m_dest m)))) <> (Ok o', s')) ->
  let w2 := wstep c (wstep c w (ODeliver id gas)) (ORefund id gas') in
  inflight w2 = drop_msg (inflight w) id /\ nat_in id (failed w2) = false
  /\ (forall x, In x (multi_snd_triples i) ->
        wbal c w2 (i_caller i) (rt_cell x) = balance E (mk_state m0) (i_caller i) (rt_cell x))
  /\ forall k, total c k w2 = total c k w.
Proof. exact multi_rejected_refund_restores_untouched. Qed.

(* ================================================================ *)
(* 6. non-vacuity (ideal_codec; the two-shard world w0 of C01_Examples.v: alice on shard 0 holds 5 TOK and 3 of NFT#1, *)
(*    bob on shard 1 already holds 7 TOK and 1 of NFT#1)                                                              *)
(* ================================================================ *)
(* alice sends 2 of NFT#1 to bob: one message, static conditions hold, payload = her entry with Value 2 *)
Example C01_example_nft_emitted : inflight wN1 = [mN] /\ m_id mN = 0%nat /\ m_dest mN = bob /\ m_sender mN = alice
  /\ nft_msg c0 mN (nf 1 2) /\ nmsg_key mN (nf 1 2) = kNft /\ wbal c0 wN1 alice kNft = 1%Z.
Proof. exact ex_nft_emitted. Qed.
(* C01_deliver_accepted_nft applies (proved THROUGH the theorem): delivered, bob holds 1 + 2 *)
Example C01_example_nft_accepted :
  let w' := wstep c0 wN1 (ODeliver 0 100000) in
  inflight w' = [] /\ failed w' = [] /\ wbal c0 wN1 bob kNft = 1%Z /\ wbal c0 w' bob kNft = 3%Z.
Proof. exact ex_nft_accepted. Qed.
(* after the emission: bob's entry frozen; on alice's shard her remaining entry frozen and the token paused *)
Example C01_example_nft_frozen_world :
  inflight wF1 = [mN]
  /\ frozen_at E1 (mk_state (shard_accts wF1 1)) bob kNft = true
  /\ frozen_at E0 (mk_state (shard_accts wF1 0)) alice kNft = true
  /\ paused_at (mk_state (shard_accts wF1 0)) (P ++ nftA) = true
  /\ wbal c0 wF1 alice kNft = 1%Z /\ wbal c0 wF1 bob kNft = 1%Z
  /\ fst (exec E1 (m_fn mN) (deliver_input c0 mN 1 100000) (mk_state (shard_accts wF1 1))) = Err EFrozenForAccount.
Proof. exact ex_nft_frozen_world. Qed.
(* C01_rejected_then_refund_nft applies: rejected and marked; the refund succeeds while frozen and paused; alice has 3 *)
Example C01_example_nft_rejected_refund :
  let w1 := wstep c0 wF1 (ODeliver 0 100000) in
  let w2 := wstep c0 w1 (ORefund 0 100000) in
  shards w1 = shards wF1 /\ inflight w1 = [mN] /\ failed w1 = [0%nat]
  /\ inflight w2 = [] /\ failed w2 = []
  /\ wbal c0 w2 alice kNft = 3%Z /\ wbal c0 w2 bob kNft = 1%Z
  /\ forall k, total c0 k w2 = total c0 k wF1.
Proof. exact ex_nft_rejected_refund. Qed.
(* C01_nft_rejected_refund_restores applies: what alice holds after the refund is what she held before the transfer *)
Example C01_example_nft_restored :
  let w2 := wstep c0 (wstep c0 wF1 (ODeliver 0 100000)) (ORefund 0 100000) in
  wbal c0 w2 alice kNft = wbal c0 w0 alice kNft /\ wbal c0 w0 alice kNft = 3%Z.
Proof. exact ex_nft_restored. Qed.
(* a mixed multi-transfer: 1 of NFT#1 (payload triple) and 3 TOK (quantity triple) *)
Example C01_example_multi_emitted : inflight wM1 = [mM] /\ m_id mM = 0%nat /\ m_dest mM = bob /\ m_sender mM = alice
  /\ mmsg_n c0 mM = 2%N /\ mmsg_triples c0 mM = [trNft; trTok]
  /\ map (dest_cell E1) (mmsg_triples c0 mM) = [kNft; kTok]
  /\ credits c0 mM = [(kNft, 1%Z); (kTok, 3%Z)]
  /\ wbal c0 wM1 alice kNft = 2%Z /\ wbal c0 wM1 alice kTok = 2%Z.
Proof. exact ex_multi_emitted. Qed.
(* C01_deliver_accepted_multi applies, through C01_dest_ready_distinct *)
Example C01_example_multi_accepted :
  let w' := wstep c0 wM1 (ODeliver 0 100000) in
  inflight w' = [] /\ failed w' = []
  /\ wbal c0 wM1 bob kNft = 1%Z /\ wbal c0 w' bob kNft = 2%Z
  /\ wbal c0 wM1 bob kTok = 7%Z /\ wbal c0 w' bob kTok = 10%Z.
Proof. exact ex_multi_accepted. Qed.
(* bob's TOK entry frozen after the emission (the SECOND triple is refused, the first is rolled back); alice's NFT entry
   frozen and TOK paused on her shard *)
Example C01_example_multi_frozen_world :
  inflight wG1 = [mM]
  /\ frozen_at E1 (mk_state (shard_accts wG1 1)) bob kTok = true
  /\ frozen_at E0 (mk_state (shard_accts wG1 0)) alice kNft = true
  /\ paused_at (mk_state (shard_accts wG1 0)) kTok = true
  /\ fst (exec E1 (m_fn mM) (deliver_input c0 mM 1 100000) (mk_state (shard_accts wG1 1))) = Err EFrozenForAccount.
Proof. exact ex_multi_frozen_world. Qed.
(* C01_rejected_then_refund_multi applies: both holdings of alice are back, bob's are untouched *)
Example C01_example_multi_rejected_refund :
  let w1 := wstep c0 wG1 (ODeliver 0 100000) in
  let w2 := wstep c0 w1 (ORefund 0 100000) in
  shards w1 = shards wG1 /\ inflight w1 = [mM] /\ failed w1 = [0%nat]
  /\ inflight w2 = [] /\ failed w2 = []
  /\ wbal c0 wG1 alice kNft = 2%Z /\ wbal c0 w2 alice kNft = 3%Z /\ wbal c0 w0 alice kNft = 3%Z
  /\ wbal c0 wG1 alice kTok = 2%Z /\ wbal c0 w2 alice kTok = 5%Z /\ wbal c0 w0 alice kTok = 5%Z
  /\ wbal c0 w2 bob kNft = 1%Z /\ wbal c0 w2 bob kTok = 7%Z
  /\ forall k, total c0 k w2 = total c0 k wG1.
Proof. exact ex_multi_rejected_refund. Qed.
(* C01_multi_rejected_refund_restores_untouched applies (bob frozen, TOK paused at alice's shard, her cells untouched) *)
Example C01_example_multi_restored_untouched :
  let w2 := wstep c0 (wstep c0 wH1 (ODeliver 0 100000)) (ORefund 0 100000) in
  inflight w2 = [] /\ wbal c0 w2 alice kNft = wbal c0 w0 alice kNft /\ wbal c0 w2 alice kTok = wbal c0 w0 alice kTok
  /\ wbal c0 wH1 alice kNft = 2%Z /\ wbal c0 w0 alice kNft = 3%Z /\ wbal c0 wH1 alice kTok = 2%Z /\ wbal c0 w0 alice kTok = 5%Z.
Proof. exact ex_multi_restored_untouched. Qed.

Print Assumptions C01_liveness_nft_vocabulary_unfolded.
Print Assumptions C01_liveness_multi_vocabulary_unfolded.
Print Assumptions C01_multi_dest_guards_unfolded.
Print Assumptions C01_nft_dest_succeeds.
Print Assumptions C01_multi_dest_succeeds.
Print Assumptions C01_dest_ready_distinct.
Print Assumptions C01_emitted_nft_wf.
Print Assumptions C01_emitted_multi_wf.
Print Assumptions C01_emitted_multi_refundable.
Print Assumptions C01_deliver_commits.
Print Assumptions C01_rejected_then_refund.
Print Assumptions C01_deliver_accepted_nft.
Print Assumptions C01_refund_succeeds_nft.
Print Assumptions C01_rejected_then_refund_nft.
Print Assumptions C01_nft_rejected_refund_restores.
Print Assumptions C01_nft_rejected_refund_restores_untouched.
Print Assumptions C01_deliver_accepted_multi.
Print Assumptions C01_refund_succeeds_multi.
Print Assumptions C01_rejected_then_refund_multi.
Print Assumptions C01_multi_rejected_refund_restores.
Print Assumptions C01_multi_rejected_refund_restores_untouched.
Print Assumptions C01_example_nft_emitted.
Print Assumptions C01_example_nft_accepted.
Print Assumptions C01_example_nft_frozen_world.
Print Assumptions C01_example_nft_rejected_refund.
Print Assumptions C01_example_nft_restored.
Print Assumptions C01_example_multi_emitted.
Print Assumptions C01_example_multi_accepted.
Print Assumptions C01_example_multi_frozen_world.
Print Assumptions C01_example_multi_rejected_refund.
Print Assumptions C01_example_multi_restored_untouched.
