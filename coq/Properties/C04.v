(* Property C04 — frozen accounts and paused tokens cannot move funds.
   Only statements, each closed by [exact] of a lemma of LedgerProofs/C04_Core.v, C04_Toggle.v,
   C04_Examples.v, their assumptions, pins and non-vacuity examples.

   Reading guide.  [E : env] is ARBITRARY (any fault plan, coordinator, payability oracle, gas schedule) with
   a codec satisfying [codec_ok]; [exec E f i s = (Ok o, s')] is a successful call of the built-in function
   named f (all 23 names; an unknown name is an error) on input i (both execution sides: i_snd / i_dst say
   which of the two accounts live on the executing shard; any call type) from shard state s to s'.
   Observables (LedgerProofs/Defs.v): [cell s a k] raw storage of account a under key k; [balance E s a k]
   the value of the token entry decoded from that cell; [frozen_at E s a k] bit 0 of byte 0 of the 2-byte
   Properties of THAT entry; [paused_at s k] bit 0 of byte 0 of the 2-byte value under k in the system account
   SYS = 0xff..ff of the shard.  Token keys are P ++ x with P = "ELRONDesdt": x = token id for the fungible /
   token-level entry, x = token id ++ big-endian nonce bytes for an NFT entry (nft_key (P ++ tok) n).

   FROZEN.  The flag lives in ONE entry and the gates read the flag of the entry they are about to rewrite, so
   the theorems are per entry, for EVERY key P ++ x (fungible and NFT entries alike):
     C04_frozen_no_balance_change   no function changes the balance of an entry that is frozen in the pre-state
     C04_frozen_entry_untouched     stronger: the entry is byte-identical (covers the metadata updates
                                    ESDTNFTAddURI / ESDTNFTUpdateAttributes), for all functions but the flag toggles
   Exception list (exact; everything not listed is proved not to change the balance):
     - i_rae i = true (refund flagged return-after-error) and a = SC (the system contract's own account): the gate
       is skipped (C04_ex_rae_refund_*, C04_ex_sc_account_exempt);
     - ESDTWipe of that very entry (by SC; it requires the entry to be frozen).  ESDTFreeze / ESDTUnFreeze rewrite
       the Properties but keep the balance, ESDTPause / ESDTUnPause touch no account entry (but see F8);
     - F8 (known finding): ESDTPause / ESDTUnPause write the 2-byte flag under P ++ tok in SYS; if SYS itself holds
       a (frozen) entry there it is overwritten: excluded, witness C04_frozen_no_balance_change_refuted;
     - F4b (known finding): the sender side of the NFT functions looks an entry up under the requested nonce and
       saves it back under its METADATA nonce; hypothesis [lookups_consistent] (the looked-up entries are filed
       under their own nonce); witness C04_frozen_no_balance_change_f4b_refuted;
     - the create slot: ESDTNFTCreate writes the entry under the next nonce without looking at what the cell
       holds; a frozen entry there (only possible after a counter regression — F9 — or when one token identifier
       extends another by exactly the nonce bytes) is overwritten: excluded, witness
       C04_frozen_no_balance_change_create_refuted.
   What "frozen for a token" does NOT mean in this code: the flag of the fungible entry P ++ tok does not gate
   the NFT entries nft_key (P ++ tok) n of the same account (C04_ex_entry_level_flag_does_not_gate_other_nonces);
   the property text speaks of a fungible token, for which there are no such entries.

   PAUSED.  Every gate consults the pause flag of the token identifier THE CALL NAMES for the write
   ([named_tokens f i]: argument 0; for MultiESDTNFTTransfer the identifier of every triple), not of the key it
   writes, and identifiers are arbitrary byte strings, so a key P ++ x "belongs" to every named identifier that
   is a prefix of x:
     C04_paused_no_balance_change     if every named identifier that is a prefix of x is paused in the pre-state, the
                                      balance of ANY account under P ++ x is unchanged
     C04_paused_no_balance_change_ex  read from the effect: a balance that moved names an unpaused token
     C04_paused_call_changes_nothing  a call that names only paused tokens changes no token balance at all
     C04_paused_token_no_balance_change  the property's sentence: tok paused => no balance under any key of tok
                                      (nft_key (P ++ tok) n, n >= 0) changes, provided no OTHER named identifier
                                      is a prefix of tok ++ nonce bytes (never the case for real identifiers
                                      TICKER-6hex, which all carry the dash 7 bytes before their end)
     C04_paused_entry_untouched       cell-level form
   Exceptions: i_rae, a = SC, ESDTWipe of that entry (it does change a balance while paused:
   C04_ex_wipe_changes_frozen_paused_balance), F8.  ESDTUnPause / ESDTPause / UnFreeze / Freeze change no balance.
   (The additional check of save_nft against a flag under the FULL NFT key in SYS — EnvSpec observation 5 — only
   makes the code refuse more; it is not needed for any statement here.)

   TOGGLES.  C04_freeze_unfreeze_identity, C04_pause_unpause_identity: balances untouched, flag clear, exact
   entry afterwards (original up to Properties = [0;0]; absent stays absent; an entry of value 0 is deleted);
   C04_*_restores_observables: if the flag was clear before, frozen_at / paused_at / balance of every account and
   key are as before (C04_gate_reads_flag_only, C04_stored_or_deleted_by_flags, C04_toggled_props_neutral: the
   two readers of the Properties bytes see them only through frozen_props / all_zero).
   "RESTORES EXACTLY THE EARLIER BEHAVIOUR" (LedgerProofs/C04_Sim.v, relational simulation).  The state after
   freeze ; unfreeze is NOT the state before (Properties [] became [0;0]: C04_ex_toggle_runs), so this is a theorem
   about two runs: [SR E strict s u] relates states that differ only in such Properties bytes of token entries
   (strict = true: of entries without metadata, i.e. fungible entries) and in pause-flag cells with the same flag;
     C04_freeze_unfreeze_SR / C04_pause_unpause_SR   the toggles lead to an SR-related state
     C04_props_irrelevance          strict: EVERY function, both sides, gives the same status (Ok / same error /
                                    panic), the same output and SR-related post-states from SR-related states
     C04_props_irrelevance_history  ... hence the same results along every later history of calls
     C04_props_irrelevance_partial  non-strict (a toggled entry WITH metadata — only reachable by addressing
                                    freeze to "token id ‖ nonce bytes"): all functions except the sender side of
                                    ESDTNFTTransfer / MultiESDTNFTTransfer, where it is false (the forwarded payload
                                    carries the Properties bytes: C04_props_irrelevance_nft_sender_refuted; DESIGN.md
                                    notes the gas difference)
     C04_SR_observables             SR-related states have equal balances and flags
   Hypotheses: no_faults E (the two runs sit at different dependency-call indices of the fault plan) and the system
   account is not a party of the call ([sys_not_party], [call_ok]): as a party its token cells would be read as
   entries, and they hold the pause flags (F8 territory). *)
From Coq.Strings Require Import String.
From EV Require Import Base.Bytes Base.Store Base.Monad gen.Consts Codec.Types Codec.CodecOk Helpers.Helpers
  Ledger.Types Ledger.Env Ledger.Funcs Ledger.Transfers Corr.Exec
  LedgerProofs.Defs LedgerProofs.EnvSpec LedgerProofs.Spec_Transfers_Base LedgerProofs.Spec_Transfers_Multi
  LedgerProofs.Spec_Supply
  LedgerProofs.C04_Core LedgerProofs.C04_Toggle LedgerProofs.C04_Sim LedgerProofs.C04_Examples.

(* ---- pins: the constants and flags the property text names ---- *)
Example C04_pinned_constants :
  P = str "ELRONDesdt"%string
  /\ SYS = repeat xff 32
  /\ SC = hx "000000000000000000010000000000000000000000000000000000000002ffff"%string
  /\ C.bif_MetadataFrozen = 1%N /\ C.bif_MetadataPaused = 1%N /\ C.bif_lengthOfESDTMetadata = 2%N
  /\ flag_bytes true = [x01; x00] /\ flag_bytes false = [x00; x00].
Proof. repeat split. Qed.
(* frozen / paused = bit 0 of byte 0 of a value of exactly two bytes *)
Example C04_flag_reading :
  frozen_props [x01; x00] = true /\ frozen_props [x03; x07] = true /\ frozen_props [x02; x01] = false
  /\ frozen_props [] = false /\ frozen_props [x01] = false /\ frozen_props [x01; x00; x00] = false
  /\ paused_val [x01; x00] = true /\ paused_val [x00; x00] = false /\ paused_val [] = false.
Proof. repeat split. Qed.
(* the observables, written out *)
Example C04_observables_unfolded : forall (E : env) s a k,
  frozen_at E s a k = match tok_at E s a k with Some t => frozen_props (t_props t) | None => false end
  /\ paused_at s k = paused_val (cell s SYS k)
  /\ balance E s a k = bal_of_bytes E (cell s a k)
  /\ nft_key k 0 = k.
Proof. intros. repeat split. apply nft_key_0. Qed.
(* what a call names and looks up *)
Example C04_named_tokens_unfolded : forall (i : input),
  named_tokens C.BuiltInFunctionESDTTransfer i = [argn i 0]
  /\ named_tokens C.BuiltInFunctionESDTLocalMint i = [argn i 0]
  /\ named_tokens C.BuiltInFunctionESDTNFTCreate i = [argn i 0]
  /\ named_tokens C.BuiltInFunctionESDTNFTTransfer i = [argn i 0]
  /\ named_tokens C.BuiltInFunctionMultiESDTNFTTransfer i =
       map rt_tok (if beqb (i_caller i) (i_rcpt i) then multi_snd_triples i else multi_dst_triples i)
  /\ named_tokens C.BuiltInFunctionESDTWipe i = [] /\ named_tokens C.BuiltInFunctionESDTPause i = []
  /\ sender_lookups C.BuiltInFunctionESDTTransfer i = []
  /\ sender_lookups C.BuiltInFunctionESDTNFTBurn i = [(argn i 0, bigU64 (argn i 1))]
  /\ sender_lookups C.BuiltInFunctionESDTNFTTransfer i =
       (if beqb (i_caller i) (i_rcpt i) then [(argn i 0, bigU64 (argn i 1))] else []).
Proof. intros. repeat split. Qed.
Example C04_hypotheses_unfolded : forall (E : env) f i s L x,
  (lookups_consistent E f i s <->
     Forall (fun p => forall t, tok_at E s (i_caller i) (nft_key (P ++ fst p) (snd p)) = Some t -> tok_nonce t = snd p)
            (sender_lookups f i))
  /\ (all_paused L s x <-> forall tok r, In tok L -> x = tok ++ r -> paused_at s (P ++ tok) = true).
Proof. intros. split; reflexivity. Qed.

(* ============================ FROZEN ============================ *)
(* no function, side or call type changes the balance of an entry that is frozen in the pre-state *)
Theorem C04_frozen_no_balance_change : forall (E : env), codec_ok (cdc E) -> forall f i s o s' a x,
  exec E f i s = (Ok o, s') ->
  frozen_at E s a (P ++ x) = true ->
  i_rae i = false -> a <> SC ->
  lookups_consistent E f i s ->
  ~ (f = C.BuiltInFunctionESDTWipe /\ a = i_rcpt i /\ x = argn i 0) ->
  ~ ((f = C.BuiltInFunctionESDTPause \/ f = C.BuiltInFunctionESDTUnPause) /\ a = SYS /\ x = argn i 0) ->
  ~ (f = C.BuiltInFunctionESDTNFTCreate /\ a = i_caller i /\ x = argn i 0 ++ u64_bytes (create_nonce i s)) ->
  balance E s' a (P ++ x) = balance E s a (P ++ x).
Proof. exact frozen_no_balance_change. Qed.

(* stronger: the frozen entry is byte-identical afterwards (no metadata update either); the flag toggles
   themselves rewrite the Properties and are covered by the balance form above *)
Theorem C04_frozen_entry_untouched : forall (E : env), codec_ok (cdc E) -> forall f i s o s' a x,
  exec E f i s = (Ok o, s') ->
  frozen_at E s a (P ++ x) = true ->
  i_rae i = false -> a <> SC ->
  lookups_consistent E f i s ->
  f <> C.BuiltInFunctionESDTFreeze -> f <> C.BuiltInFunctionESDTUnFreeze ->
  ~ (f = C.BuiltInFunctionESDTWipe /\ a = i_rcpt i /\ x = argn i 0) ->
  ~ ((f = C.BuiltInFunctionESDTPause \/ f = C.BuiltInFunctionESDTUnPause) /\ a = SYS /\ x = argn i 0) ->
  ~ (f = C.BuiltInFunctionESDTNFTCreate /\ a = i_caller i /\ x = argn i 0 ++ u64_bytes (create_nonce i s)) ->
  cell s' a (P ++ x) = cell s a (P ++ x).
Proof. exact frozen_entry_untouched. Qed.

(* each exclusion is necessary: a call that satisfies every other hypothesis and changes the frozen balance *)
(* F8: ESDTPause over a frozen holding of the system account (100 -> 0) *)
Theorem C04_frozen_no_balance_change_refuted :
  frozen_violation EI C.BuiltInFunctionESDTPause in_pause s_sys_holding SYS tokA
  /\ lookups_consistent EI C.BuiltInFunctionESDTPause in_pause s_sys_holding
  /\ balance EI s_sys_holding SYS (P ++ tokA) = 100%Z.
Proof. exact frozen_no_balance_change_refuted. Qed.
(* the create slot: ESDTNFTCreate(tokA), next nonce 10, over the frozen fungible holding of "tokA ‖ 0x0a" *)
Theorem C04_frozen_no_balance_change_create_refuted :
  frozen_violation EI C.BuiltInFunctionESDTNFTCreate in_create s_slot alice tokA10
  /\ lookups_consistent EI C.BuiltInFunctionESDTNFTCreate in_create s_slot
  /\ tokA10 = argn in_create 0 ++ u64_bytes (create_nonce in_create s_slot).
Proof. exact frozen_no_balance_change_create_refuted. Qed.
(* F4b: ESDTNFTAddQuantity through a misfiled entry (found under nonce 5, metadata nonce 7) over the frozen entry 7 *)
Theorem C04_frozen_no_balance_change_f4b_refuted :
  frozen_violation EI C.BuiltInFunctionESDTNFTAddQuantity in_addq s_f4b alice (tokA ++ u64_bytes 7)
  /\ ~ lookups_consistent EI C.BuiltInFunctionESDTNFTAddQuantity in_addq s_f4b.
Proof. exact frozen_no_balance_change_f4b_refuted. Qed.
Example C04_frozen_violation_unfolded : forall E f i s a x,
  frozen_violation E f i s a x <->
  exists o s', exec E f i s = (Ok o, s')
    /\ frozen_at E s a (P ++ x) = true /\ i_rae i = false /\ a <> SC
    /\ balance E s' a (P ++ x) <> balance E s a (P ++ x).
Proof. intros. reflexivity. Qed.

(* ============================ PAUSED ============================ *)
(* if every identifier the call names that is a prefix of x is paused, no account's balance under P ++ x changes *)
Theorem C04_paused_no_balance_change : forall (E : env), codec_ok (cdc E) -> forall f i s o s' a x,
  exec E f i s = (Ok o, s') ->
  i_rae i = false -> a <> SC ->
  ~ (f = C.BuiltInFunctionESDTWipe /\ a = i_rcpt i /\ x = argn i 0) ->
  ~ ((f = C.BuiltInFunctionESDTPause \/ f = C.BuiltInFunctionESDTUnPause) /\ a = SYS /\ x = argn i 0) ->
  all_paused (named_tokens f i) s x ->
  balance E s' a (P ++ x) = balance E s a (P ++ x).
Proof. exact paused_no_balance_change. Qed.

(* the same read from the effect: a balance that moved was moved under an identifier that is not paused *)
Theorem C04_paused_no_balance_change_ex : forall (E : env), codec_ok (cdc E) -> forall f i s o s' a x,
  exec E f i s = (Ok o, s') ->
  i_rae i = false -> a <> SC ->
  ~ (f = C.BuiltInFunctionESDTWipe /\ a = i_rcpt i /\ x = argn i 0) ->
  ~ ((f = C.BuiltInFunctionESDTPause \/ f = C.BuiltInFunctionESDTUnPause) /\ a = SYS /\ x = argn i 0) ->
  balance E s' a (P ++ x) <> balance E s a (P ++ x) ->
  exists tok r, In tok (named_tokens f i) /\ x = tok ++ r /\ paused_at s (P ++ tok) = false.
Proof. exact paused_no_balance_change_ex. Qed.

(* a call all of whose named tokens are paused changes no token balance of any account *)
Theorem C04_paused_call_changes_nothing : forall (E : env), codec_ok (cdc E) -> forall f i s o s',
  exec E f i s = (Ok o, s') -> i_rae i = false ->
  (forall tok, In tok (named_tokens f i) -> paused_at s (P ++ tok) = true) ->
  forall a x, a <> SC ->
  ~ (f = C.BuiltInFunctionESDTWipe /\ a = i_rcpt i /\ x = argn i 0) ->
  ~ ((f = C.BuiltInFunctionESDTPause \/ f = C.BuiltInFunctionESDTUnPause) /\ a = SYS /\ x = argn i 0) ->
  balance E s' a (P ++ x) = balance E s a (P ++ x).
Proof. exact paused_call_changes_nothing. Qed.

(* the property's sentence: tok is paused on the shard => no account's balance under any key of tok changes *)
Theorem C04_paused_token_no_balance_change : forall (E : env), codec_ok (cdc E) -> forall f i s o s' tok n a,
  exec E f i s = (Ok o, s') -> i_rae i = false ->
  paused_at s (P ++ tok) = true ->
  (forall tok2 r, In tok2 (named_tokens f i) -> tok ++ u64_bytes n = tok2 ++ r -> tok2 = tok) ->
  a <> SC ->
  ~ (f = C.BuiltInFunctionESDTWipe /\ a = i_rcpt i /\ tok ++ u64_bytes n = argn i 0) ->
  ~ ((f = C.BuiltInFunctionESDTPause \/ f = C.BuiltInFunctionESDTUnPause) /\ a = SYS /\ tok ++ u64_bytes n = argn i 0) ->
  balance E s' a (nft_key (P ++ tok) n) = balance E s a (nft_key (P ++ tok) n).
Proof. exact paused_token_no_balance_change. Qed.

(* cell-level form (no metadata update either), all functions but the freeze toggles *)
Theorem C04_paused_entry_untouched : forall (E : env), codec_ok (cdc E) -> forall f i s o s' a x,
  exec E f i s = (Ok o, s') ->
  i_rae i = false -> a <> SC ->
  f <> C.BuiltInFunctionESDTFreeze -> f <> C.BuiltInFunctionESDTUnFreeze ->
  ~ (f = C.BuiltInFunctionESDTWipe /\ a = i_rcpt i /\ x = argn i 0) ->
  ~ ((f = C.BuiltInFunctionESDTPause \/ f = C.BuiltInFunctionESDTUnPause) /\ a = SYS /\ x = argn i 0) ->
  all_paused (named_tokens f i) s x ->
  cell s' a (P ++ x) = cell s a (P ++ x).
Proof. exact paused_entry_untouched. Qed.

(* ============================ TOGGLES ============================ *)
(* ESDTFreeze then ESDTUnFreeze of the same account and token: all balances as before, flag clear, exact entry *)
Theorem C04_freeze_unfreeze_identity : forall (E : env), codec_ok (cdc E) -> forall i1 i2 s o1 s1 o2 s2,
  exec E C.BuiltInFunctionESDTFreeze i1 s = (Ok o1, s1) ->
  exec E C.BuiltInFunctionESDTUnFreeze i2 s1 = (Ok o2, s2) ->
  i_rcpt i2 = i_rcpt i1 -> i_args i2 = i_args i1 ->
  let a := i_rcpt i1 in
  let key := P ++ argn i1 0 in
  (forall a' k, balance E s2 a' k = balance E s a' k)
  /\ frozen_at E s1 a key = true
  /\ frozen_at E s2 a key = false
  /\ tok_at E s2 a key =
     match tok_at E s a key with
     | Some t => if (balance E s a key =? 0)%Z then None else Some (set_props t (flag_bytes false))
     | None => None
     end
  /\ unchanged_except (fun a' k => a' = a /\ k = key) (fun _ => False) s s2
  /\ (a <> SYS -> forall k, paused_at s2 k = paused_at s k).
Proof. exact freeze_unfreeze_identity. Qed.

(* ... so, if the entry was not frozen before, every observable that gates and funds checks read is as before *)
Theorem C04_freeze_unfreeze_restores_observables : forall (E : env), codec_ok (cdc E) -> forall i1 i2 s o1 s1 o2 s2,
  exec E C.BuiltInFunctionESDTFreeze i1 s = (Ok o1, s1) ->
  exec E C.BuiltInFunctionESDTUnFreeze i2 s1 = (Ok o2, s2) ->
  i_rcpt i2 = i_rcpt i1 -> i_args i2 = i_args i1 ->
  frozen_at E s (i_rcpt i1) (P ++ argn i1 0) = false ->
  (forall a k, balance E s2 a k = balance E s a k)
  /\ (forall a k, frozen_at E s2 a k = frozen_at E s a k)
  /\ (i_rcpt i1 <> SYS -> forall k, paused_at s2 k = paused_at s k).
Proof. exact freeze_unfreeze_restores_observables. Qed.

(* ESDTPause then ESDTUnPause of the same token: flag clear, the flag cell holds [0;0], nothing else touched
   (the balance clause excludes the flag cell of the system account itself: F8) *)
Theorem C04_pause_unpause_identity : forall (E : env) i1 i2 s o1 s1 o2 s2,
  exec E C.BuiltInFunctionESDTPause i1 s = (Ok o1, s1) ->
  exec E C.BuiltInFunctionESDTUnPause i2 s1 = (Ok o2, s2) ->
  i_args i2 = i_args i1 ->
  let key := P ++ argn i1 0 in
  paused_at s1 key = true
  /\ paused_at s2 key = false
  /\ cell s2 SYS key = flag_bytes false
  /\ unchanged_except (fun a k => a = SYS /\ k = key) (fun _ => False) s s2
  /\ (forall a k, ~ (a = SYS /\ k = key) -> balance E s2 a k = balance E s a k)
  /\ (forall a k, ~ (a = SYS /\ k = key) -> frozen_at E s2 a k = frozen_at E s a k)
  /\ (forall k, k <> key -> paused_at s2 k = paused_at s k).
Proof. exact pause_unpause_identity. Qed.

Theorem C04_pause_unpause_restores_observables : forall (E : env) i1 i2 s o1 s1 o2 s2,
  exec E C.BuiltInFunctionESDTPause i1 s = (Ok o1, s1) ->
  exec E C.BuiltInFunctionESDTUnPause i2 s1 = (Ok o2, s2) ->
  i_args i2 = i_args i1 ->
  paused_at s (P ++ argn i1 0) = false ->
  (forall k, paused_at s2 k = paused_at s k)
  /\ (forall a k, ~ (a = SYS /\ k = P ++ argn i1 0) -> balance E s2 a k = balance E s a k /\ frozen_at E s2 a k = frozen_at E s a k).
Proof. exact pause_unpause_restores_observables. Qed.

(* the two readers of the Properties bytes see them only through frozen_props / all_zero, and the bytes left by
   freeze ; unfreeze are neutral for both *)
Theorem C04_gate_reads_flag_only : forall addr key t p rae,
  frozen_props p = frozen_props (t_props t) ->
  check_froze_and_pause addr key (set_props t p) rae = check_froze_and_pause addr key t rae.
Proof. exact gate_reads_flag_only. Qed.
Theorem C04_stored_or_deleted_by_flags : forall (E : env) a t key s u s',
  save_esdt_data E a t key s = (Ok u, s') ->
  exists v, t_value t = Some v
    /\ cell s' a key = (if ((v =? 0)%Z && all_zero (t_props t))%bool then [] else enc_tok (cdc E) t).
Proof. exact stored_or_deleted_by_flags. Qed.
Theorem C04_toggled_props_neutral : frozen_props (flag_bytes false) = false /\ all_zero (flag_bytes false) = true.
Proof. exact toggled_props_neutral. Qed.

(* ============================ RESTORES THE EARLIER BEHAVIOUR ============================ *)
(* the relation, written out *)
Example C04_SR_unfolded : forall (E : env) strict s u t t',
  (SR E strict s u <->
     (forall a, acct_fields_eq (acct s a) (acct u a))
     /\ (forall a k, a <> SYS -> ceq E strict (cell s a k) (cell u a k))
     /\ (forall a k, prefix_of P k = false -> cell s a k = cell u a k)
     /\ (forall k, paused_val (cell s SYS k) = paused_val (cell u SYS k)))
  /\ (forall b c, ceq E strict b c <->
         b = c \/ (b <> [] /\ c <> [] /\ exists t u, dec_tok (cdc E) b = Some t /\ dec_tok (cdc E) c = Some u /\ tokrel strict t u))
  /\ (tokrel strict t t' <->
         wf_token t /\ wf_token t' /\ t' = set_props t (t_props t')
         /\ frozen_props (t_props t) = frozen_props (t_props t') /\ all_zero (t_props t) = all_zero (t_props t')
         /\ (strict = true -> t_meta t <> None -> t = t')).
Proof. intros. split; [reflexivity|]. split; [intros; reflexivity|reflexivity]. Qed.
Example C04_party_unfolded : forall f i c,
  (sys_not_party f i <->
     f = C.BuiltInFunctionESDTPause \/ f = C.BuiltInFunctionESDTUnPause \/ (i_caller i <> SYS /\ i_rcpt i <> SYS))
  /\ (nft_sender_side f i <->
     (f = C.BuiltInFunctionESDTNFTTransfer \/ f = C.BuiltInFunctionMultiESDTNFTTransfer) /\ i_caller i = i_rcpt i)
  /\ dst_arg C.BuiltInFunctionESDTNFTTransfer i = argn i 3 /\ dst_arg C.BuiltInFunctionMultiESDTNFTTransfer i = argn i 0
  /\ (call_ok c <-> sys_not_party (fst c) (snd c) /\ (nft_sender_side (fst c) (snd c) -> dst_arg (fst c) (snd c) <> SYS)).
Proof. intros. split; [reflexivity|]. split; [reflexivity|]. split; [reflexivity|]. split; reflexivity. Qed.

(* freeze ; unfreeze of an entry that was not frozen, had all-zero Properties and a non-zero value (strict: and no
   metadata) leads to an SR-related state; an absent entry stays absent, i.e. the same state *)
Theorem C04_freeze_unfreeze_SR : forall (E : env), codec_ok (cdc E) -> forall strict i1 i2 s o1 s1 o2 s2,
  exec E C.BuiltInFunctionESDTFreeze i1 s = (Ok o1, s1) ->
  exec E C.BuiltInFunctionESDTUnFreeze i2 s1 = (Ok o2, s2) ->
  i_rcpt i2 = i_rcpt i1 -> i_args i2 = i_args i1 ->
  i_rcpt i1 <> SYS ->
  (forall t, tok_at E s (i_rcpt i1) (P ++ argn i1 0) = Some t ->
             frozen_props (t_props t) = false /\ all_zero (t_props t) = true /\ val_or_0 t <> 0%Z
             /\ (strict = true -> t_meta t = None)) ->
  SR E strict s s2.
Proof. exact freeze_unfreeze_SR. Qed.
Theorem C04_pause_unpause_SR : forall (E : env) strict i1 i2 s o1 s1 o2 s2,
  exec E C.BuiltInFunctionESDTPause i1 s = (Ok o1, s1) ->
  exec E C.BuiltInFunctionESDTUnPause i2 s1 = (Ok o2, s2) ->
  i_args i2 = i_args i1 ->
  paused_at s (P ++ argn i1 0) = false ->
  SR E strict s s2.
Proof. exact pause_unpause_SR. Qed.
Theorem C04_SR_observables : forall (E : env), codec_ok (cdc E) -> forall strict s u, SR E strict s u ->
  (forall a k, a <> SYS -> balance E s a k = balance E u a k)
  /\ (forall a k, a <> SYS -> frozen_at E s a k = frozen_at E u a k)
  /\ (forall k, paused_at s k = paused_at u k).
Proof. exact SR_observables. Qed.

(* every function, both sides: same status, same output, related post-states *)
Theorem C04_props_irrelevance : forall (E : env), codec_ok (cdc E) -> no_faults E -> forall strict f i s u,
  strict = true -> SR E strict s u -> sys_not_party f i -> (nft_sender_side f i -> dst_arg f i <> SYS) ->
  match exec E f i s, exec E f i u with
  | (Ok o, s'), (Ok o', u') => o = o' /\ SR E strict s' u'
  | (Err e, _), (Err e', _) => e = e'
  | (Panic, _), (Panic, _) => True
  | _, _ => False
  end.
Proof. exact props_irrelevance. Qed.
(* ... along any later history (a failed call is rolled back) *)
Theorem C04_props_irrelevance_history : forall (E : env), codec_ok (cdc E) -> no_faults E -> forall strict l,
  strict = true -> Forall call_ok l -> forall s u, SR E strict s u ->
  fst (run_calls E l s) = fst (run_calls E l u) /\ SR E strict (snd (run_calls E l s)) (snd (run_calls E l u)).
Proof. exact props_irrelevance_history. Qed.
Example C04_run_calls_unfolded : forall (E : env) c r s,
  run_calls E [] s = ([], s)
  /\ run_calls E (c :: r) s = (let (o, s1) := step1 E c s in let (os, s2) := run_calls E r s1 in (o :: os, s2))
  /\ step1 E c s = match exec E (fst c) (snd c) s with (Ok o, s') => (Ok o, s') | (x, _) => (x, s) end.
Proof. intros. repeat split. Qed.
(* entries with metadata too: everything but the sender side of the two NFT transfers *)
Theorem C04_props_irrelevance_partial : forall (E : env), codec_ok (cdc E) -> no_faults E -> forall strict f i s u,
  SR E strict s u -> ~ nft_sender_side f i -> sys_not_party f i ->
  match exec E f i s, exec E f i u with
  | (Ok o, s'), (Ok o', u') => o = o' /\ SR E strict s' u'
  | (Err e, _), (Err e', _) => e = e'
  | (Panic, _), (Panic, _) => True
  | _, _ => False
  end.
Proof. exact props_irrelevance_partial. Qed.
(* the exclusion is necessary: an NFT entry with toggled Properties is forwarded with them *)
Theorem C04_props_irrelevance_nft_sender_refuted :
  SR EI false s_nft s_nft2
  /\ is_ok (exec EI C.BuiltInFunctionESDTNFTTransfer in_nft s_nft) = true
  /\ is_ok (exec EI C.BuiltInFunctionESDTNFTTransfer in_nft s_nft2) = true
  /\ fst (exec EI C.BuiltInFunctionESDTNFTTransfer in_nft s_nft) <> fst (exec EI C.BuiltInFunctionESDTNFTTransfer in_nft s_nft2).
Proof. exact props_irrelevance_nft_sender_refuted. Qed.

(* ============================ non-vacuity (ideal_codec, which is codec_ok) ============================ *)
Example C04_env_codec_ok : codec_ok (cdc EI). Proof. exact EI_ok. Qed.
Example C04_ex_states :
  frozen_at EI s_frozen alice (P ++ tokA) = true /\ frozen_at EI s_frozen carol (P ++ tokA) = false
  /\ paused_at s_paused (P ++ tokA) = true /\ paused_at s_plain (P ++ tokA) = false
  /\ balance EI s_frozen alice (P ++ tokA) = 5%Z.
Proof. exact ex_states. Qed.
(* a frozen sender cannot transfer, a frozen receiver cannot receive; unfrozen the same transfer passes *)
Example C04_ex_frozen_sender_cannot_transfer :
  fst (exec EI C.BuiltInFunctionESDTTransfer (mkin alice carol [tokA; one] true true false) s_frozen) = Err EFrozenForAccount.
Proof. exact ex_frozen_sender_cannot_transfer. Qed.
Example C04_ex_frozen_receiver_cannot_receive :
  fst (exec EI C.BuiltInFunctionESDTTransfer (mkin carol alice [tokA; one] true true false) s_frozen) = Err EFrozenForAccount.
Proof. exact ex_frozen_receiver_cannot_receive. Qed.
Example C04_ex_unfrozen_transfer_ok :
  let r := exec EI C.BuiltInFunctionESDTTransfer (mkin alice carol [tokA; one] true true false) s_plain in
  is_ok r = true /\ balance EI (post r) alice (P ++ tokA) = 4%Z /\ balance EI (post r) carol (P ++ tokA) = 6%Z.
Proof. exact ex_unfrozen_transfer_ok. Qed.
(* a paused token blocks mint (and transfer, and NFT create); unpaused the same mint passes *)
Example C04_ex_paused_blocks_mint :
  fst (exec EI C.BuiltInFunctionESDTLocalMint (mkin alice alice [tokA; one] true true false) s_paused) = Err ETokenIsPaused.
Proof. exact ex_paused_blocks_mint. Qed.
Example C04_ex_paused_blocks_transfer :
  fst (exec EI C.BuiltInFunctionESDTTransfer (mkin alice carol [tokA; one] true true false) s_paused) = Err ETokenIsPaused.
Proof. exact ex_paused_blocks_transfer. Qed.
Example C04_ex_paused_blocks_create :
  fst (exec EI C.BuiltInFunctionESDTNFTCreate (mkin alice alice [tokA; one; []; []; []; []; []] true true false) s_paused)
  = Err ETokenIsPaused.
Proof. exact ex_paused_blocks_create. Qed.
Example C04_ex_unpaused_mint_ok :
  let r := exec EI C.BuiltInFunctionESDTLocalMint (mkin alice alice [tokA; one] true true false) s_plain in
  is_ok r = true /\ balance EI (post r) alice (P ++ tokA) = 6%Z.
Proof. exact ex_unpaused_mint_ok. Qed.
(* the exceptions are real: a refund flagged return-after-error is credited while the token is paused / the
   entry frozen; the system contract's own account is exempt; wipe changes a frozen balance while paused *)
Example C04_ex_rae_refund_succeeds_while_paused :
  let r := exec EI C.BuiltInFunctionESDTTransfer (mkin carol alice [tokA; one] false true true) s_paused in
  is_ok r = true /\ balance EI (post r) alice (P ++ tokA) = 6%Z.
Proof. exact ex_rae_refund_succeeds_while_paused. Qed.
Example C04_ex_rae_refund_succeeds_while_frozen :
  let r := exec EI C.BuiltInFunctionESDTTransfer (mkin carol alice [tokA; one] false true true) s_frozen in
  is_ok r = true /\ balance EI (post r) alice (P ++ tokA) = 6%Z.
Proof. exact ex_rae_refund_succeeds_while_frozen. Qed.
Example C04_ex_delivery_refused_while_paused :
  fst (exec EI C.BuiltInFunctionESDTTransfer (mkin carol alice [tokA; one] false true false) s_paused) = Err ETokenIsPaused.
Proof. exact ex_delivery_refused_while_paused. Qed.
Example C04_ex_sc_account_exempt :
  let r := exec EI C.BuiltInFunctionESDTTransfer (mkin carol SC [tokA; one] false true false) s_paused in
  is_ok r = true /\ balance EI (post r) SC (P ++ tokA) = 1%Z.
Proof. exact ex_sc_account_exempt. Qed.
Example C04_ex_wipe_changes_frozen_paused_balance :
  let r := exec EI C.BuiltInFunctionESDTWipe (mkin SC alice [tokA] false true false) s_frozen_paused in
  is_ok r = true /\ balance EI s_frozen_paused alice (P ++ tokA) = 5%Z /\ balance EI (post r) alice (P ++ tokA) = 0%Z.
Proof. exact ex_wipe_changes_frozen_paused_balance. Qed.
(* the hypotheses of the two theorems are jointly satisfiable (instances of the theorems on successful calls) *)
Example C04_inst_frozen_no_balance_change :
  exists o s', exec EI C.BuiltInFunctionESDTTransfer in_cd s_frozen = (Ok o, s')
    /\ frozen_at EI s_frozen alice (P ++ tokA) = true
    /\ balance EI s' alice (P ++ tokA) = balance EI s_frozen alice (P ++ tokA)
    /\ balance EI s' carol (P ++ tokA) = 4%Z.
Proof. exact inst_frozen_no_balance_change. Qed.
Example C04_inst_paused_no_balance_change :
  exists o s', exec EI C.BuiltInFunctionESDTTransfer in_b s_paused2 = (Ok o, s')
    /\ paused_at s_paused2 (P ++ tokA) = true
    /\ (forall a n, a <> SC -> balance EI s' a (nft_key (P ++ tokA) n) = balance EI s_paused2 a (nft_key (P ++ tokA) n))
    /\ balance EI s' carol (P ++ tokB) = 1%Z.
Proof. exact inst_paused_no_balance_change. Qed.
(* the flag is per entry: freezing the fungible entry P ++ tokA does not gate NFT entries under the same identifier *)
Example C04_ex_entry_level_flag_does_not_gate_other_nonces :
  let r := exec EI C.BuiltInFunctionESDTNFTCreate in_create s_frozen_creator in
  frozen_at EI s_frozen_creator alice (P ++ tokA) = true
  /\ is_ok r = true /\ balance EI (post r) alice (nft_key (P ++ tokA) 1) = 2%Z
  /\ balance EI (post r) alice (P ++ tokA) = 5%Z.
Proof. exact ex_entry_level_flag_does_not_gate_other_nonces. Qed.

(* toggling really changes the stored bytes, and the resulting state is SR-related and behaves the same *)
Example C04_ex_toggle_runs :
  is_ok (exec EI C.BuiltInFunctionESDTFreeze in_fr s_plain) = true
  /\ is_ok (exec EI C.BuiltInFunctionESDTUnFreeze in_fr s_fr1) = true
  /\ frozen_at EI s_fr1 alice (P ++ tokA) = true /\ frozen_at EI s_fr2 alice (P ++ tokA) = false
  /\ cell s_fr2 alice (P ++ tokA) <> cell s_plain alice (P ++ tokA)
  /\ tok_at EI s_plain alice (P ++ tokA) = Some (tk 5 []) /\ tok_at EI s_fr2 alice (P ++ tokA) = Some (tk 5 [x00; x00]).
Proof. exact ex_toggle_runs. Qed.
Example C04_inst_freeze_unfreeze_SR : no_faults EI /\ SR EI true s_plain s_fr2.
Proof. exact (conj EI_nf inst_freeze_unfreeze_SR). Qed.
Example C04_inst_props_irrelevance :
  exists o s' u', exec EI C.BuiltInFunctionESDTTransfer in_ac s_plain = (Ok o, s')
    /\ exec EI C.BuiltInFunctionESDTTransfer in_ac s_fr2 = (Ok o, u')
    /\ SR EI true s' u'
    /\ balance EI s' carol (P ++ tokA) = 6%Z /\ balance EI u' carol (P ++ tokA) = 6%Z.
Proof. exact inst_props_irrelevance. Qed.

Print Assumptions C04_frozen_no_balance_change.
Print Assumptions C04_frozen_entry_untouched.
Print Assumptions C04_frozen_no_balance_change_refuted.
Print Assumptions C04_frozen_no_balance_change_create_refuted.
Print Assumptions C04_frozen_no_balance_change_f4b_refuted.
Print Assumptions C04_paused_no_balance_change.
Print Assumptions C04_paused_no_balance_change_ex.
Print Assumptions C04_paused_call_changes_nothing.
Print Assumptions C04_paused_token_no_balance_change.
Print Assumptions C04_paused_entry_untouched.
Print Assumptions C04_freeze_unfreeze_identity.
Print Assumptions C04_freeze_unfreeze_restores_observables.
Print Assumptions C04_pause_unpause_identity.
Print Assumptions C04_pause_unpause_restores_observables.
Print Assumptions C04_gate_reads_flag_only.
Print Assumptions C04_stored_or_deleted_by_flags.
Print Assumptions C04_toggled_props_neutral.
Print Assumptions C04_inst_frozen_no_balance_change.
Print Assumptions C04_inst_paused_no_balance_change.
Print Assumptions C04_freeze_unfreeze_SR.
Print Assumptions C04_pause_unpause_SR.
Print Assumptions C04_SR_observables.
Print Assumptions C04_props_irrelevance.
Print Assumptions C04_props_irrelevance_history.
Print Assumptions C04_props_irrelevance_partial.
Print Assumptions C04_props_irrelevance_nft_sender_refuted.
Print Assumptions C04_inst_freeze_unfreeze_SR.
Print Assumptions C04_inst_props_irrelevance.
