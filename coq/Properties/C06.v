(* Property C06 — built-in functions never create gas.
   Only statements, each closed by [exact] of a lemma of LedgerProofs/GasSpec.v / GasSpecExact.v,
   their assumptions, and non-vacuity examples.  E is an ARBITRARY environment: any codec, any fault
   plan (a fault only turns Ok into Err), any schedule, any shard layout. *)
From Coq.Strings Require Import String.
From EV Require Import Base.Bytes Base.Store Base.Monad gen.Consts Codec.Types Helpers.Helpers
  Ledger.Types Ledger.Env Ledger.Funcs Ledger.Transfers LedgerProofs.GasSpec LedgerProofs.GasSpecExact.

Local Open Scope N_scope.

Example C06_pinned_constants :
  two64 = 2 ^ 64 /\ two32 = 2 ^ 32 /\ two31 = 2 ^ 31 /\ two64 - 1 = 18446744073709551615.
Proof. repeat split. Qed.

(* 1. for all 23 functions (and unknown names, which fail), all inputs, all states, all schedules *)
Theorem C06_gas_not_created : forall (E : env) (f : bytes) (i : input) (s : mstate) (o : output) (s' : mstate),
  exec E f i s = (Ok o, s') -> i_gas i < two64 ->
  o_gasRemaining o + sum_gasLimit o <= i_gas i.
Proof. exact gas_not_created. Qed.

(* the shape behind it: a successful execution is either priced by [charge] — a function of the
   environment, the input WITHOUT its gas field and the pre-state — or leaves nothing *)
Theorem C06_gas_spec : forall (E : env) f i s o s',
  exec E f i s = (Ok o, s') -> i_gas i < two64 ->
  (charge E f i s <= i_gas i /\ o_gasRemaining o + sum_gasLimit o = i_gas i - charge E f i s)
  \/ (o_gasRemaining o = 0 /\ sum_gasLimit o = 0).
Proof. exact gas_spec_exec. Qed.

Theorem C06_charge_gas_independent : forall (E : env) f i g s, charge E f (with_gas i g) s = charge E f i s.
Proof. exact charge_gas_independent. Qed.

(* 2. below the charge: not Ok, or Ok with nothing remaining and nothing forwarded *)
Theorem C06_underfunded_fails_or_consumes_all : forall (E : env) f i s,
  i_gas i < two64 -> i_gas i < charge E f i s ->
  match exec E f i s with
  | (Ok o, _) => o_gasRemaining o = 0 /\ sum_gasLimit o = 0
  | _ => True
  end.
Proof. exact underfunded_fails_or_consumes_all. Qed.

(* 3. no wrap-around: whenever the charge computed in exact arithmetic fits in 64 bits, Go's wrapping
   computation produces exactly that value and the result is the one of exact arithmetic *)
Theorem C06_charge_exact : forall (E : env) f i s,
  exact_charge E f i s < two64 -> charge E f i s = exact_charge E f i s.
Proof. exact charge_exact. Qed.

Theorem C06_no_wrap : forall (E : env) f i s o s',
  exec E f i s = (Ok o, s') -> i_gas i < two64 -> exact_charge E f i s < two64 ->
  gas_spec i o (exact_charge E f i s).
Proof. exact no_wrap. Qed.

(* ... which is the case for every schedule with 32-bit costs and Go-sized inputs (argument bytes,
   argument count and marshalled NFT payload bytes below 2^31) *)
Theorem C06_no_wrap_32bit : forall (E : env) f i s o s',
  exec E f i s = (Ok o, s') -> i_gas i < two64 ->
  sched32 (gas E) -> small_input i -> payload_bytes E f i s < two31 ->
  exact_charge E f i s < two64 /\ charge E f i s = exact_charge E f i s /\ gas_spec i o (exact_charge E f i s).
Proof. exact no_wrap_32bit. Qed.

(* per-function refinements used above: system functions return and forward nothing; the destination
   side of the NFT transfers returns or forwards everything; SetUserName forwards everything on the origin side *)
Theorem C06_system_functions_return_nothing : forall (E : env) i s o s',
  (forall fz wp, f_freeze_wipe E fz wp i s = (Ok o, s') -> all_consumed o)
  /\ (forall p, f_pause E p i s = (Ok o, s') -> all_consumed o)
  /\ (forall st, f_roles E st i s = (Ok o, s') -> all_consumed o)
  /\ (f_create_role_transfer E i s = (Ok o, s') -> all_consumed o).
Proof. exact system_functions_return_nothing. Qed.

Theorem C06_set_user_name : forall (E : env) i s o s',
  f_set_user_name E i s = (Ok o, s') -> i_gas i < two64 ->
  g_SaveUserName (gas E) <= i_gas i /\
  if i_dst i then priced i o (g_SaveUserName (gas E)) /\ sum_gasLimit o = 0
  else o_gasRemaining o = 0 /\ sum_gasLimit o = i_gas i.
Proof. exact gas_set_user_name. Qed.

Theorem C06_nft_transfer_destination_side : forall (E : env) i s o s',
  f_nft_transfer E i s = (Ok o, s') -> i_gas i < two64 -> beqb (i_caller i) (i_rcpt i) = false ->
  o_gasRemaining o + sum_gasLimit o = i_gas i.
Proof. exact nft_transfer_destination_side. Qed.

Theorem C06_multi_transfer_destination_side : forall (E : env) i s o s',
  f_multi_transfer E i s = (Ok o, s') -> i_gas i < two64 -> beqb (i_caller i) (i_rcpt i) = false ->
  o_gasRemaining o + sum_gasLimit o = i_gas i.
Proof. exact multi_transfer_destination_side. Qed.

Print Assumptions C06_gas_not_created.
Print Assumptions C06_gas_spec.
Print Assumptions C06_charge_gas_independent.
Print Assumptions C06_underfunded_fails_or_consumes_all.
Print Assumptions C06_charge_exact.
Print Assumptions C06_no_wrap.
Print Assumptions C06_no_wrap_32bit.
Print Assumptions C06_system_functions_return_nothing.
Print Assumptions C06_set_user_name.
Print Assumptions C06_nft_transfer_destination_side.
Print Assumptions C06_multi_transfer_destination_side.

(* ------------------------------------------------------------------ *)
(* non-vacuity: concrete executions of the model                       *)
(* ------------------------------------------------------------------ *)
Definition ex_codec : codec :=
  {| enc_tok := fun _ => [x01]; dec_tok := fun _ => None; enc_rol := fun _ => []; dec_rol := fun _ => None |}.
Definition ex_gas (store_per_byte : N) : gascfg :=
  {| g_ChangeOwnerAddress := 10; g_ClaimDeveloperRewards := 11; g_SaveUserName := 12; g_SaveKeyValue := 13;
     g_ESDTTransfer := 14; g_ESDTBurn := 15; g_ESDTLocalMint := 16; g_ESDTLocalBurn := 17; g_ESDTNFTCreate := 18;
     g_ESDTNFTAddQuantity := 19; g_ESDTNFTBurn := 20; g_ESDTNFTTransfer := 21; g_ESDTNFTChangeCreateOwner := 22;
     g_ESDTNFTMultiTransfer := 23; g_ESDTNFTAddURI := 24; g_ESDTNFTUpdateAttributes := 25;
     g_StorePerByte := store_per_byte; g_ReleasePerByte := 3; g_DataCopyPerByte := 4; g_PersistPerByte := 5;
     g_CompilePerByte := 6; g_AoTPreparePerByte := 7 |}.
Definition ex_env (spb : N) : env :=
  {| plan := fun _ => false; cdc := ex_codec; shard_of := fun _ => 0; self_shard := 0; payable := fun _ => PayYes;
     dns := []; enable_change := false; gas := ex_gas spb |}.
Definition ex_user : bytes := repeat x01 32.
Definition ex_state (st : store) : mstate :=
  {| accts := [(ex_user, {| a_store := st; a_balance := 0; a_owner := []; a_username := []; a_devreward := 0 |})];
     calls := 0; allocs := 0 |}.
Definition ex_skv (gas : N) : input :=
  {| i_caller := ex_user; i_rcpt := ex_user; i_args := [str "k1"; str "vv"]; i_value := 0; i_gas := gas;
     i_gasLocked := 0; i_callType := 0; i_rae := false; i_snd := true; i_dst := true |}.

(* SaveKeyValue("k1","vv") on an empty store: 13 + (2+2)*5 + 2*2 = 37 *)
Example C06_ex_priced :
  charge (ex_env 2) C.BuiltInFunctionSaveKeyValue (ex_skv 1000) (ex_state []) = 37
  /\ exact_charge (ex_env 2) C.BuiltInFunctionSaveKeyValue (ex_skv 1000) (ex_state []) = 37
  /\ (exists o s', exec (ex_env 2) C.BuiltInFunctionSaveKeyValue (ex_skv 1000) (ex_state []) = (Ok o, s')
                   /\ o_gasRemaining o = 963 /\ sum_gasLimit o = 0)
  /\ (exists o s', exec (ex_env 2) C.BuiltInFunctionSaveKeyValue (ex_skv 37) (ex_state []) = (Ok o, s')
                   /\ o_gasRemaining o = 0)
  /\ fst (exec (ex_env 2) C.BuiltInFunctionSaveKeyValue (ex_skv 36) (ex_state [])) = Err ENotEnoughGas
  /\ sched32 (gas (ex_env 2)) /\ small_input (ex_skv 1000)
  /\ payload_bytes (ex_env 2) C.BuiltInFunctionSaveKeyValue (ex_skv 1000) (ex_state []) < two31.
Proof.
  split; [vm_compute; reflexivity|]. split; [vm_compute; reflexivity|].
  split; [eexists; eexists; split; [vm_compute; reflexivity|split; reflexivity]|].
  split; [eexists; eexists; split; [vm_compute; reflexivity|reflexivity]|].
  split; [vm_compute; reflexivity|].
  split; [intros c Hc; cbn in Hc; repeat (destruct Hc as [<-|Hc]; [reflexivity|]); destruct Hc|].
  split; [split; vm_compute; reflexivity|vm_compute; reflexivity].
Qed.

(* the no-op call (value already stored), regression of defect F7: charge 13 + 4*5 = 33; with gas 3 the
   call is rejected (the pinned tree returned GasRemaining = 2^64 - 30) *)
Example C06_ex_f7_regression :
  charge (ex_env 2) C.BuiltInFunctionSaveKeyValue (ex_skv 3) (ex_state [(str "k1", str "vv")]) = 33
  /\ fst (exec (ex_env 2) C.BuiltInFunctionSaveKeyValue (ex_skv 3) (ex_state [(str "k1", str "vv")])) = Err ENotEnoughGas
  /\ (exists o s', exec (ex_env 2) C.BuiltInFunctionSaveKeyValue (ex_skv 33) (ex_state [(str "k1", str "vv")]) = (Ok o, s')
                   /\ o_gasRemaining o = 0).
Proof.
  split; [vm_compute; reflexivity|]. split; [vm_compute; reflexivity|].
  eexists; eexists; split; [vm_compute; reflexivity|reflexivity].
Qed.

(* an underfunded call that succeeds with nothing left: ClaimDeveloperRewards on the caller's shard
   when the contract lives elsewhere (cost 11, gas 5) *)
Definition ex_claim (gas : N) : input :=
  {| i_caller := ex_user; i_rcpt := repeat x02 32; i_args := []; i_value := 0; i_gas := gas;
     i_gasLocked := 0; i_callType := 0; i_rae := false; i_snd := true; i_dst := false |}.
Example C06_ex_underfunded_ok :
  (5 < charge (ex_env 2) C.BuiltInFunctionClaimDeveloperRewards (ex_claim 5) (ex_state []))
  /\ exists o s', exec (ex_env 2) C.BuiltInFunctionClaimDeveloperRewards (ex_claim 5) (ex_state []) = (Ok o, s')
                  /\ o_gasRemaining o = 0 /\ sum_gasLimit o = 0.
Proof.
  split; [vm_compute; reflexivity|]. eexists; eexists; split; [vm_compute; reflexivity|split; reflexivity].
Qed.

(* why the no-wrap theorem needs its bound: with a 64-bit per-byte cost the multiplication wraps and the
   wrapping charge is SMALLER than the exact one (gas is under-charged, never created) *)
Example C06_ex_wrap_outside_32bit :
  charge_add_uri (ex_env (2 ^ 63)) [str "T"; str "n"; str "ab"] = 24
  /\ exact_add_uri (ex_env (2 ^ 63)) [str "T"; str "n"; str "ab"] = 24 + 2 ^ 64.
Proof. split; vm_compute; reflexivity. Qed.
